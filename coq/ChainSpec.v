(* The statements of the chain theorems (pinned here; proved in ChainProofs.v (cascade), ChainCtx.v
   (trace, deadline), ChainWire.v (wire), ChainFuel.v (poll fuel; stmt_chain_fuel refuted),
   ChainRounds5.v (rounds); restated in Properties/C04.v, C07.v, C14.v, C18.v).  No proofs in this
   file. *)
From Coq Require Import List Bool Arith NArith.
Import ListNotations.
From TarpcV Require Import Base Transport Chain.
From TarpcV Require Client.

(* fewer than 2^64 - 1 operations: every request id (a u64 counter per client) is handed out at
   most once (boundary B2, as ClientSpec.no_wrap) *)
Definition chain_no_wrap (ops : list cop) : Prop :=
  (N.of_nat (length ops) + 1 < 18446744073709551616)%N.

(* C04, cascade clause, for EVERY depth and every op list: at every SettleAll that reaches a
   quiet round, if every head call has been resolved or abandoned and nothing tainted the chain
   (see Chain.mon), every handler that started on any node is Done or Dropped and every server's
   in-flight and timer gauges are 0 *)
Definition stmt_chain_cascade : Prop :=
  forall d ops, chain_no_wrap ops -> c04c_ok d ops (fst (run d ops)) = true.

(* C18, multi-hop clause: every request yielded on any node carries the trace id and sampling
   decision of a head call with the same body *)
Definition stmt_chain_trace : Prop :=
  forall d ops, c18c_ok d ops (fst (run d ops)) = true.

(* C07, multi-hop clause over in-memory links: every request yielded on any node carries the
   deadline (the Instant, verbatim) of a head call with the same body *)
Definition stmt_chain_deadline : Prop :=
  forall d ops, c07c_ok d ops (fst (run d ops)) = true.

(* C18 on the wire, hop by hop (requests: trace number, deadline, own span id; cancellations:
   exactly the trace number and span id of the request they cancel) *)
Definition stmt_chain_wire : Prop :=
  forall d ops, chain_no_wrap ops -> c18w_ok d ops (fst (run d ops)) = true.

(* no dispatch / request-stream poll runs out of fuel and every SettleAll reaches a quiet round
   within `rounds_of` rounds.
   REFUTED as stated: ChainFuel.chain_fuel_refuted (the timer-order oracle goes bad beyond the
   DelayQueue range, KOracle is an event, no round is quiet).  Kept for reference; it is split
   into stmt_chain_poll_fuel and stmt_chain_rounds below (both proved). *)
Definition stmt_chain_fuel : Prop :=
  forall d ops, cfuel_ok d ops (fst (run d ops)) = true.

(* (A) for every depth and every op list, in every state reached: no poll of a RequestDispatch
   and no poll of a Requests stream of any node runs out of the fuel the model gives it.
   Proved: ChainFuel.chain_poll_fuel. *)
Definition stmt_chain_poll_fuel : Prop :=
  forall (d : nat) (ops : list cop) (l : list cobs),
    In l (fst (run d ops)) ->
    forall i, ~ In (KDisp i Client.DFuel) l /\ ~ In (KStream i KFuel) l.

(* (B) as long as no timer-order oracle disagreed (observable: every server step prints its
   gauges), every SettleAll reaches a quiet round within `rounds_of` rounds.
   PROVED: ChainRounds5.chain_rounds (a potential that no component poll increases and every
   non-quiet, oracle-free round decreases).  By
   ChainFuel.chain_fuel_iff_rounds the conclusion is equivalent to
   cfuel_ok d ops (fst (run d ops)) = true. *)
Definition stmt_chain_rounds : Prop :=
  forall (d : nat) (ops : list cop),
    (forall l i, In l (fst (run d ops)) -> ~ In (KOracle i) l) ->
    forall l, In l (fst (run d ops)) -> ~ In KRounds l.
