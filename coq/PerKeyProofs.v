(* Proofs about the MaxChannelsPerKey model (PerKey.v): C13. *)
From Coq Require Import List Arith Lia Bool.
Import ListNotations.
From TarpcV Require Import PerKey.

Lemma lookup_remove_same k m : lookup k (remove_key k m) = None.
Proof.
  induction m as [|[k' v] r IH]; cbn; [reflexivity|].
  destruct (Nat.eqb k k') eqn:E; cbn; [exact IH|rewrite E; exact IH].
Qed.
Lemma lookup_remove_other k k' m : k <> k' -> lookup k (remove_key k' m) = lookup k m.
Proof.
  intro H. induction m as [|[k2 v] r IH]; cbn; [reflexivity|].
  destruct (Nat.eqb k' k2) eqn:E1; cbn.
  - apply Nat.eqb_eq in E1; subst.
    destruct (Nat.eqb k k2) eqn:E2; [apply Nat.eqb_eq in E2; congruence|exact IH].
  - destruct (Nat.eqb k k2); [reflexivity|exact IH].
Qed.
Lemma lookup_set k v k' m :
  lookup k' (set_key k v m) = if Nat.eqb k' k then Some v else lookup k' m.
Proof.
  unfold set_key; cbn. destruct (Nat.eqb k' k) eqn:E; [reflexivity|].
  apply lookup_remove_other. intro; subst. rewrite Nat.eqb_refl in E; discriminate.
Qed.

Arguments set_key : simpl never.
Arguments remove_key : simpl never.
Arguments strong : simpl never.

(* The invariant of the repaired machine.  inv_map is the sentence the source relies on:
   every live channel of key k holds the tracker key_counts[k] points to. *)
Record Inv (s : st) : Prop := {
  inv_map : forall c, In c (chans s) -> lookup (c_key c) (kc s) = Some (c_tid c);
  inv_cap : forall t, strong t (chans s) <= lim s;
  inv_fresh_c : forall c, In c (chans s) -> c_tid c < next_tid s;
  inv_fresh_m : forall k t, lookup k (kc s) = Some t -> t < next_tid s;
  inv_inj : forall k k' t, lookup k (kc s) = Some t -> lookup k' (kc s) = Some t -> k = k';
  inv_lim : 1 <= lim s }.

Lemma alive_eq_strong s k t :
  Inv s -> lookup k (kc s) = Some t -> alive k (chans s) = strong t (chans s).
Proof.
  intros I Hk. unfold alive, strong, holders.
  assert (H : forall c, In c (chans s) -> lookup (c_key c) (kc s) = Some (c_tid c)) by apply I.
  assert (J := inv_inj s I).
  induction (chans s) as [|c cs IH]; cbn; [reflexivity|].
  assert (Hc := H c (or_introl eq_refl)).
  assert (IH' := IH (fun c' Hin => H c' (or_intror Hin))).
  destruct (Nat.eqb (c_key c) k) eqn:E.
  - apply Nat.eqb_eq in E. rewrite E, Hk in Hc. injection Hc as ->.
    rewrite Nat.eqb_refl. cbn. lia.
  - destruct (Nat.eqb (c_tid c) t) eqn:Et; cbn; [|lia].
    apply Nat.eqb_eq in Et. rewrite Et in Hc. pose proof (J _ _ _ Hc Hk) as Hkk.
    apply Nat.eqb_neq in E. contradiction.
Qed.

Lemma alive_no_entry s k : Inv s -> lookup k (kc s) = None -> alive k (chans s) = 0.
Proof.
  intros I Hk. unfold alive.
  assert (H : forall c, In c (chans s) -> lookup (c_key c) (kc s) = Some (c_tid c)) by apply I.
  induction (chans s) as [|c cs IH]; cbn; [reflexivity|].
  destruct (Nat.eqb (c_key c) k) eqn:E.
  - apply Nat.eqb_eq in E. specialize (H c (or_introl eq_refl)). rewrite E, Hk in H. discriminate.
  - apply IH. intros c' Hin. apply H. right; exact Hin.
Qed.

(* every reachable state: at most n live channels per key *)
Lemma inv_alive s k : Inv s -> alive k (chans s) <= lim s.
Proof.
  intros I. destruct (lookup k (kc s)) as [t|] eqn:E.
  - rewrite (alive_eq_strong s k t I E). apply I.
  - rewrite (alive_no_entry s k I E). lia.
Qed.

Lemma strong_cons t c cs :
  strong t (c :: cs) = (if Nat.eqb (c_tid c) t then 1 else 0) + strong t cs.
Proof. unfold strong, holders; cbn. destruct (Nat.eqb (c_tid c) t); reflexivity. Qed.

Lemma strong_fresh s t : Inv s -> next_tid s <= t -> strong t (chans s) = 0.
Proof.
  intros I Ht. unfold strong, holders.
  assert (H : forall c, In c (chans s) -> c_tid c < next_tid s) by apply I.
  induction (chans s) as [|c cs IH]; cbn; [reflexivity|].
  destruct (Nat.eqb (c_tid c) t) eqn:E.
  - apply Nat.eqb_eq in E. specialize (H c (or_introl eq_refl)). lia.
  - apply IH. intros c' Hin; apply H; right; exact Hin.
Qed.

Lemma inv_pop s : Inv s -> Inv (pop_arrival s).
Proof. intros [A B C D J E]; constructor; cbn; assumption. Qed.

Lemma inv_accept_fresh s k : Inv s ->
  (forall c, In c (chans s) -> c_key c = k -> False) ->
  Inv (accept s k (next_tid s) true).
Proof.
  intros I Hnone. destruct I as [A B C D J E]. constructor; cbn.
  - intros c [<-|Hin]; cbn; rewrite lookup_set.
    + rewrite Nat.eqb_refl; reflexivity.
    + destruct (Nat.eqb (c_key c) k) eqn:Ek;
        [apply Nat.eqb_eq in Ek; exfalso; eapply Hnone; eauto|apply A; exact Hin].
  - intro t. rewrite strong_cons; cbn. destruct (Nat.eqb (next_tid s) t) eqn:Et.
    + apply Nat.eqb_eq in Et; subst t.
      rewrite (strong_fresh s (next_tid s)); [lia|constructor; assumption|lia].
    + cbn. apply B.
  - intros c [<-|Hin]; cbn; [lia|]. specialize (C c Hin). lia.
  - intros k' t. rewrite lookup_set.
    destruct (Nat.eqb k' k); [intros [= <-]; lia|intro H; specialize (D _ _ H); lia].
  - intros k1 k2 t. rewrite !lookup_set.
    destruct (Nat.eqb k1 k) eqn:E1; destruct (Nat.eqb k2 k) eqn:E2.
    + apply Nat.eqb_eq in E1, E2. congruence.
    + intros [= <-] H2. specialize (D _ _ H2). lia.
    + intros H1 [= <-]. specialize (D _ _ H1). lia.
    + apply J.
  - exact E.
Qed.

Lemma inv_accept_reuse s k t :
  Inv s -> lookup k (kc s) = Some t -> strong t (chans s) < lim s -> Inv (accept s k t false).
Proof.
  intros [A B C D J E] Hk Hlt. constructor; cbn.
  - intros c [<-|Hin]; cbn; [exact Hk|apply A; exact Hin].
  - intro t'. rewrite strong_cons; cbn. destruct (Nat.eqb t t') eqn:Et.
    + apply Nat.eqb_eq in Et; subst. lia.
    + cbn. apply B.
  - intros c [<-|Hin]; cbn; [eapply D; eauto|apply C; exact Hin].
  - exact D.
  - exact J.
  - exact E.
Qed.

Lemma alive_zero_no_chan k cs :
  alive k cs = 0 -> forall c, In c cs -> c_key c = k -> False.
Proof.
  unfold alive. induction cs as [|c' cs IH]; intros H c Hin Hc; [contradiction|].
  cbn in H. destruct Hin as [->|Hin].
  - rewrite Hc, Nat.eqb_refl in H. cbn in H. lia.
  - apply (IH) with (c := c); [|exact Hin|exact Hc].
    destruct (Nat.eqb (c_key c') k); cbn in H; lia.
Qed.

Lemma no_holder_no_chan s k t :
  Inv s -> lookup k (kc s) = Some t -> strong t (chans s) = 0 ->
  forall c, In c (chans s) -> c_key c = k -> False.
Proof.
  intros I Hk H0. apply alive_zero_no_chan. rewrite (alive_eq_strong s k t I Hk). exact H0.
Qed.

(* ---------------- poll_closed_channels (repaired) keeps the invariant ---------------- *)
Lemma inv_closed s : Inv s -> Inv (snd (poll_closed true s)).
Proof.
  intro I. unfold poll_closed. destruct (notifs s) as [|k r]; [exact I|]. cbn [snd].
  destruct I as [A B C D J E].
  assert (Hrm : forall kcs, kcs = remove_key k (kc s) ->
            (forall c, In c (chans s) -> c_key c = k -> False) ->
            Inv {| arrivals := arrivals s; ended := ended s; kc := kcs; chans := chans s;
                   notifs := r; next_tid := next_tid s; next_cid := next_cid s; lim := lim s |}).
  { intros kcs -> Hno. constructor; cbn; try assumption.
    - intros c Hin. destruct (Nat.eq_dec (c_key c) k) as [Heq|Hne].
      + exfalso. exact (Hno c Hin Heq).
      + rewrite lookup_remove_other; [apply A; exact Hin|exact Hne].
    - intros k' t'. destruct (Nat.eq_dec k' k) as [->|Hne];
        [rewrite lookup_remove_same; discriminate|].
      rewrite lookup_remove_other; [apply D|exact Hne].
    - intros k1 k2 t.
      destruct (Nat.eq_dec k1 k) as [->|Hne1]; [rewrite lookup_remove_same; discriminate|].
      destruct (Nat.eq_dec k2 k) as [->|Hne2]; [rewrite lookup_remove_same; discriminate|].
      rewrite !lookup_remove_other by assumption. apply J. }
  destruct (lookup k (kc s)) as [t|] eqn:Ek.
  - destruct (Nat.eqb (strong t (chans s)) 0) eqn:E0; cbn.
    + apply Hrm; [reflexivity|]. apply Nat.eqb_eq in E0.
      exact (no_holder_no_chan s k t (Build_Inv s A B C D J E) Ek E0).
    + constructor; cbn; assumption.
  - cbn. apply Hrm; [reflexivity|].
    intros c Hin Hc. specialize (A c Hin). rewrite Hc, Ek in A. discriminate.
Qed.

Lemma closed_frame fixed s :
  let s' := snd (poll_closed fixed s) in
  chans s' = chans s /\ lim s' = lim s /\ arrivals s' = arrivals s /\ ended s' = ended s
  /\ next_cid s' = next_cid s
  /\ (fst (poll_closed fixed s) = true -> S (length (notifs s')) = length (notifs s))
  /\ (fst (poll_closed fixed s) = false -> s' = s).
Proof.
  unfold poll_closed. destruct (notifs s) as [|k r] eqn:En; cbn.
  - repeat split; try reflexivity. discriminate.
  - repeat split; try reflexivity. discriminate.
Qed.

(* ---------------- what the monitor tracks ---------------- *)
Definition proj (cs : list chan) : live := map (fun c => (c_id c, c_key c)) cs.

Lemma live_count_proj k cs : live_count k (proj cs) = alive k cs.
Proof.
  unfold live_count, alive, proj. induction cs as [|c cs IH]; cbn; [reflexivity|].
  destruct (Nat.eqb (c_key c) k); cbn; rewrite IH; reflexivity.
Qed.

Ltac rsplit := repeat match goal with |- _ /\ _ => split end.

(* one call of poll_listener: the invariant is kept, and the outcome is licensed *)
Lemma listener_spec s :
  Inv s ->
  let k0 := hd 0 (arrivals s) in
  let '(l, s1) := poll_listener s in
  Inv s1 /\ lim s1 = lim s /\ notifs s1 = notifs s /\ ended s1 = ended s /\
  match l with
  | LYield cid => alive k0 (chans s) < lim s /\ arrivals s <> [] /\
                  proj (chans s1) = (cid, k0) :: proj (chans s)
  | LShed => alive k0 (chans s) = lim s /\ chans s1 = chans s /\
             S (length (arrivals s1)) = length (arrivals s)
  | LPending | LEnd => s1 = s /\ arrivals s = []
  end.
Proof.
  intro I. unfold poll_listener. destruct (arrivals s) as [|k r] eqn:Ea; cbn [hd].
  - destruct (ended s); cbn; rsplit; auto.
  - pose proof (inv_pop s I) as I1. set (s1 := pop_arrival s) in *.
    assert (Hc : chans s1 = chans s) by reflexivity.
    assert (Hl : lim s1 = lim s) by reflexivity.
    destruct (lookup k (kc s1)) as [t|] eqn:Ek.
    + destruct (lim s1 <=? strong t (chans s1)) eqn:El.
      * apply Nat.leb_le in El. rsplit; auto.
        -- rewrite <- Hc, (alive_eq_strong s1 k t I1 Ek). pose proof (inv_cap s1 I1 t). lia.
        -- unfold s1; cbn. rewrite Ea. reflexivity.
      * apply Nat.leb_gt in El.
        destruct (Nat.eqb (strong t (chans s1)) 0) eqn:E0.
        -- apply Nat.eqb_eq in E0. rsplit; auto.
           ++ apply inv_accept_fresh; [exact I1|]. eapply no_holder_no_chan; eauto.
           ++ rewrite <- Hc, (alive_eq_strong s1 k t I1 Ek). lia.
           ++ discriminate.
        -- rsplit; auto.
           ++ apply inv_accept_reuse; assumption.
           ++ rewrite <- Hc, (alive_eq_strong s1 k t I1 Ek). lia.
           ++ discriminate.
    + rsplit; auto.
      * apply inv_accept_fresh; [exact I1|].
        intros c Hin Hck. pose proof (inv_map s1 I1 c Hin) as H. rewrite Hck, Ek in H. discriminate.
      * rewrite <- Hc, (alive_no_entry s1 k I1 Ek). pose proof (inv_lim s I). lia.
      * discriminate.
Qed.

Definition measure (s : st) := length (arrivals s) + length (notifs s).

(* poll_next: invariant kept, monitor accepts every observation, never out of fuel *)
Lemma poll_spec fuel : forall s,
  Inv s -> measure s < fuel ->
  let '(os, s') := poll true fuel s in
  Inv s' /\ lim s' = lim s /\
  exists l', mon_obs (lim s) (proj (chans s)) os = (true, l') /\ l' = proj (chans s').
Proof.
  induction fuel as [|f IH]; intros s I Hm; [lia|].
  cbn [poll].
  pose proof (listener_spec s I) as L. cbn zeta in L.
  destruct (poll_listener s) as [l s1].
  destruct L as (I1 & Hl1 & Hn1 & He1 & L).
  assert (Hm' : length (arrivals s) + length (notifs s1) < S f)
    by (unfold measure in Hm; rewrite Hn1; exact Hm).
  pose proof (inv_closed s1 I1) as I2.
  pose proof (closed_frame true s1) as F. cbn zeta in F.
  destruct (poll_closed true s1) as [c s2]. cbn [fst snd] in *.
  destruct F as (Fc & Fl & Fa & Fe & Fi & Fdec & Fsame).
  destruct l as [cid| | |].
  - destruct L as (Hlt & Hne & Hp). split; [exact I2|]. split; [lia|].
    exists (proj (chans s2)). split; [|reflexivity].
    cbn [mon_obs]. rewrite live_count_proj.
    apply Nat.ltb_lt in Hlt. rewrite Hlt. cbn [mon_obs]. rewrite Fc, Hp. reflexivity.
  - destruct L as (Heq & Hcs & Hdec).
    assert (Hm2 : measure s2 < f).
    { unfold measure in *. rewrite Fa. destruct c.
      - specialize (Fdec eq_refl). lia.
      - rewrite (Fsame eq_refl). lia. }
    specialize (IH s2 I2 Hm2). destruct (poll true f s2) as [os s3].
    destruct IH as (I3 & Hl3 & l' & Hmon & Hl').
    split; [exact I3|]. split; [lia|]. exists l'. split; [|exact Hl'].
    cbn [mon_obs]. rewrite live_count_proj, Heq, Nat.eqb_refl.
    rewrite <- Hcs, <- Fc. replace (lim s) with (lim s2) by lia. exact Hmon.
  - destruct L as (-> & Ha). destruct c.
    + assert (Hm2 : measure s2 < f).
      { unfold measure in *. rewrite Fa. specialize (Fdec eq_refl). lia. }
      specialize (IH s2 I2 Hm2). destruct (poll true f s2) as [os s3].
      destruct IH as (I3 & Hl3 & l' & Hmon & Hl').
      split; [exact I3|]. split; [lia|]. exists l'. split; [|exact Hl'].
      rewrite <- Fc. replace (lim s) with (lim s2) by lia. exact Hmon.
    + rewrite (Fsame eq_refl). split; [exact I|]. split; [reflexivity|].
      exists (proj (chans s)). split; reflexivity.
  - destruct L as (-> & Ha). destruct c.
    + assert (Hm2 : measure s2 < f).
      { unfold measure in *. rewrite Fa. specialize (Fdec eq_refl). lia. }
      specialize (IH s2 I2 Hm2). destruct (poll true f s2) as [os s3].
      destruct IH as (I3 & Hl3 & l' & Hmon & Hl').
      split; [exact I3|]. split; [lia|]. exists l'. split; [|exact Hl'].
      rewrite <- Fc. replace (lim s) with (lim s2) by lia. exact Hmon.
    + rewrite (Fsame eq_refl). split; [exact I|]. split; [reflexivity|].
      exists (proj (chans s)). split; reflexivity.
Qed.

Lemma strong_filter_le t (f : chan -> bool) cs : strong t (filter f cs) <= strong t cs.
Proof.
  unfold strong, holders. induction cs as [|c cs IH]; cbn; [lia|].
  destruct (f c); cbn; destruct (Nat.eqb (c_tid c) t); cbn; lia.
Qed.

Lemma close_chans s cid :
  chans (close s cid) = filter (fun c' => negb (Nat.eqb (c_id c') cid)) (chans s).
Proof.
  unfold close. destruct (find _ (chans s)) as [c|] eqn:Ef; [reflexivity|].
  cbn. symmetry. pose proof (find_none _ _ Ef) as H. clear Ef.
  induction (chans s) as [|c cs IH]; cbn; [reflexivity|].
  rewrite (H c (or_introl eq_refl)). cbn. f_equal. apply IH. intros x Hx. apply H. right; exact Hx.
Qed.

Lemma inv_close s cid : Inv s -> Inv (close s cid).
Proof.
  intros I. unfold close. destruct (find _ (chans s)) as [c|]; [|exact I].
  destruct I as [A B C D J E]. constructor; cbn; try assumption.
  - intros c' Hin. apply filter_In in Hin. apply A, Hin.
  - intro t. etransitivity; [apply strong_filter_le|apply B].
  - intros c' Hin. apply filter_In in Hin. apply C, Hin.
Qed.

Lemma close_lim s cid : lim (close s cid) = lim s.
Proof. unfold close. destruct (find _ (chans s)); reflexivity. Qed.

Lemma proj_filter cid cs :
  proj (filter (fun c' => negb (Nat.eqb (c_id c') cid)) cs)
  = filter (fun p => negb (Nat.eqb (fst p) cid)) (proj cs).
Proof.
  unfold proj. induction cs as [|c cs IH]; cbn; [reflexivity|].
  destruct (Nat.eqb (c_id c) cid); cbn; rewrite IH; reflexivity.
Qed.

Lemma inv_init n : 1 <= n -> Inv (init n).
Proof.
  intro H. constructor; cbn; try (intros; contradiction); try discriminate; auto.
  intros; unfold strong, holders; cbn; lia.
Qed.

(* ---------------- lift to every op list ---------------- *)
Lemma run_from_ok : forall ops s,
  Inv s -> mon (lim s) (proj (chans s)) ops (fst (run_from true s ops)) = true.
Proof.
  induction ops as [|o ops IH]; intros s I; [reflexivity|].
  cbn [run_from].
  destruct o as [k|cid| |]; cbn [step].
  - (* Arrive *)
    set (s1 := if ended s then s else _).
    assert (I1 : Inv s1 /\ chans s1 = chans s /\ lim s1 = lim s).
    { unfold s1. destruct (ended s); [auto|]. destruct I as [A B C D J E].
      split; [constructor; cbn; assumption|split; reflexivity]. }
    destruct I1 as (I1 & Hc & Hl).
    specialize (IH s1 I1). destruct (run_from true s1 ops) as [ls s2].
    cbn [fst mon mon_obs andb]. rewrite <- Hc, <- Hl. exact IH.
  - (* Close *)
    pose proof (inv_close s cid I) as I1.
    specialize (IH _ I1). destruct (run_from true (close s cid) ops) as [ls s2].
    cbn [fst mon mon_obs andb]. rewrite close_chans, close_lim, proj_filter in IH. exact IH.
  - (* Poll *)
    pose proof (poll_spec (poll_fuel s) s I) as P.
    assert (Hm : measure s < poll_fuel s) by (unfold measure, poll_fuel; lia).
    specialize (P Hm). destruct (poll true (poll_fuel s) s) as [os s1].
    destruct P as (I1 & Hl & l' & Hmon & Hl').
    specialize (IH s1 I1). destruct (run_from true s1 ops) as [ls s2].
    cbn [fst mon]. rewrite Hmon. cbn [andb]. rewrite Hl'. rewrite <- Hl. exact IH.
  - (* EndListener *)
    set (s1 := {| arrivals := arrivals s; ended := true; kc := kc s; chans := chans s;
                  notifs := notifs s; next_tid := next_tid s; next_cid := next_cid s;
                  lim := lim s |}).
    assert (I1 : Inv s1) by (destruct I as [A B C D J E]; constructor; cbn; assumption).
    specialize (IH s1 I1). destruct (run_from true s1 ops) as [ls s2].
    cbn [fst mon mon_obs andb]. exact IH.
Qed.

Theorem c13_monitor_holds n ops : 1 <= n -> c13_ok n ops (fst (run true n ops)) = true.
Proof. intro H. unfold c13_ok, run. exact (run_from_ok ops (init n) (inv_init n H)). Qed.

(* the state invariant over every reachable state, stated directly *)
Lemma run_from_inv : forall ops s, Inv s -> Inv (snd (run_from true s ops)).
Proof.
  induction ops as [|o ops IH]; intros s I; [exact I|].
  cbn [run_from].
  assert (I1 : Inv (fst (step true s o))).
  { destruct o as [k|cid| |]; cbn [step fst].
    - destruct (ended s); [exact I|]. destruct I as [A B C D J E]; constructor; cbn; assumption.
    - apply inv_close; exact I.
    - pose proof (poll_spec (poll_fuel s) s I) as P.
      assert (Hm : measure s < poll_fuel s) by (unfold measure, poll_fuel; lia).
      specialize (P Hm). destruct (poll true (poll_fuel s) s) as [os s1]. apply P.
    - destruct I as [A B C D J E]; constructor; cbn; assumption. }
  destruct (step true s o) as [s1 l]. cbn [fst] in I1.
  specialize (IH s1 I1). destruct (run_from true s1 ops) as [ls s2]. exact IH.
Qed.

Lemma run_from_lim : forall ops s, lim (snd (run_from true s ops)) = lim s.
Proof.
  induction ops as [|o ops IH]; intros s; [reflexivity|].
  cbn [run_from].
  assert (Hl : lim (fst (step true s o)) = lim s).
  { destruct o as [k|cid| |]; cbn [step fst]; try reflexivity.
    - destruct (ended s); reflexivity.
    - apply close_lim.
    - assert (G : forall fuel s0, lim (snd (poll true fuel s0)) = lim s0).
      { induction fuel as [|f IHf]; intros s0; [reflexivity|]. cbn [poll].
        assert (L1 : lim (snd (poll_listener s0)) = lim s0).
        { unfold poll_listener. destruct (arrivals s0); [reflexivity|].
          destruct (lookup _ _); [|reflexivity].
          destruct (_ <=? _); [reflexivity|]. destruct (Nat.eqb _ 0); reflexivity. }
        destruct (poll_listener s0) as [l s1]. cbn [snd] in L1.
        pose proof (closed_frame true s1) as F. cbn zeta in F.
        destruct (poll_closed true s1) as [c s2]. cbn [snd] in F.
        destruct F as (_ & Fl & _).
        destruct l; [cbn; lia| | |].
        + specialize (IHf s2). destruct (poll true f s2). cbn in *. lia.
        + destruct c; [rewrite IHf; lia|cbn; lia].
        + destruct c; [rewrite IHf; lia|cbn; lia]. }
      specialize (G (poll_fuel s) s). destruct (poll true (poll_fuel s) s). exact G. }
  destruct (step true s o) as [s1 l]. cbn [fst] in Hl.
  specialize (IH s1). destruct (run_from true s1 ops) as [ls s2]. cbn [snd] in *. lia.
Qed.

Theorem c13_alive_le_n n ops k :
  1 <= n -> alive k (chans (snd (run true n ops))) <= n.
Proof.
  intro H. unfold run.
  pose proof (run_from_inv ops (init n) (inv_init n H)) as I.
  pose proof (run_from_lim ops (init n)) as L. cbn in L.
  pose proof (inv_alive _ k I) as A. rewrite L in A. exact A.
Qed.

(* every closed channel frees capacity: in any reachable state, an arrival whose key has
   fewer than n live channels is yielded by the next poll of the listener *)
Theorem c13_accept_below_n n ops k :
  1 <= n ->
  let s := snd (run true n ops) in
  hd_error (arrivals s) = Some k -> alive k (chans s) < n ->
  exists cid, fst (poll_listener s) = LYield cid.
Proof.
  intros H s Ha Hlt.
  pose proof (run_from_inv ops (init n) (inv_init n H)) as I. fold (run true n ops) in I. fold s in I.
  pose proof (run_from_lim ops (init n)) as L. fold (run true n ops) in L. fold s in L. cbn in L.
  pose proof (listener_spec s I) as P. cbn zeta in P.
  destruct (arrivals s) as [|k' r] eqn:Ea; [discriminate|]. injection Ha as ->.
  cbn [hd] in P. destruct (poll_listener s) as [l s1]. cbn [fst].
  destruct P as (_ & _ & _ & _ & P). destruct l as [cid| | |].
  - exists cid; reflexivity.
  - destruct P as (Heq & _). lia.
  - destruct P as (_ & Hnil). discriminate.
  - destruct P as (_ & Hnil). discriminate.
Qed.

(* ---------------- the pinned (pre-repair) step function violates the property ----------- *)
Definition c13_witness : list op :=
  [Arrive 7; Poll; Close 0; Arrive 7; Poll; Poll; Arrive 7; Poll].

Lemma c13_prefix_refuted :
  alive 7 (chans (snd (run false 1 c13_witness))) = 2
  /\ c13_ok 1 c13_witness (fst (run false 1 c13_witness)) = false.
Proof. split; vm_compute; reflexivity. Qed.

Lemma c13_witness_repaired :
  alive 7 (chans (snd (run true 1 c13_witness))) = 1
  /\ fst (run true 1 c13_witness) = [[]; [OYield 0 7]; []; []; [OYield 1 7]; [OPending]; []; [OShed 7; OPending]].
Proof. split; vm_compute; reflexivity. Qed.
