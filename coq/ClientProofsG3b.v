(* Client proofs, group G3, part b: the model invariant behind C09/C10 ("a caller never waits
   for a dispatch that is gone"): waiters <-> PAcquiring, every awaiting call's request id is
   queued, in flight, or its oneshot is settled; ids of live calls are distinct and below
   next_id; queued cancellations belong to no live call; a ConnErr value names the terminal
   error.  Preserved by every micro-step of a dispatch poll and by every op. *)
From Coq Require Import List Bool Arith NArith Lia ZifyBool ZifyNat ZifyN.
Import ListNotations.
From TarpcV Require Import Base Transport Client ClientS ClientMon ClientSpec ClientLemmas
  ClientProofsG1Frames ClientSimBase ClientProofsG3a.
Local Open Scope N_scope.

Arguments N.modulo : simpl never.
Arguments N.add : simpl never.
Arguments N.min : simpl never.
Arguments N.sub : simpl never.

Definition active (p : phase) : bool :=
  match p with PAcquiring | PAssigned | PAcqClosed | PAwaiting | PClosing => true | _ => false end.
Definition actph (o : option phase) : bool := match o with Some p => active p | None => false end.

(* views of the call table and of the oneshot table *)
Definition phl (l : list call) (i : nat) : option phase := option_map c_phase (nth_error l i).
Definition idl (l : list call) (i : nat) : N :=
  match nth_error l i with Some c => c_id c | None => 0 end.
Definition slotv (l : list (N * slot)) (id : N) : slot :=
  match alookup id l with Some x => x | None => slot0 end.
Definition sdone (x : slot) : Prop := sl_val x <> None \/ sl_tx_gone x = true.

Lemma phl_phase_calls l i p j :
  phl (phase_calls l i p) j = if Nat.eqb i j then option_map (fun _ => p) (phl l j) else phl l j.
Proof.
  unfold phl. rewrite nth_error_phase_calls. destruct (Nat.eqb i j); [|reflexivity].
  destruct (nth_error l j); reflexivity.
Qed.
Lemma idl_phase_calls l i p j : idl (phase_calls l i p) j = idl l j.
Proof.
  unfold idl. rewrite nth_error_phase_calls. destruct (Nat.eqb i j); [|reflexivity].
  destruct (nth_error l j); reflexivity.
Qed.
Lemma slotv_aset id x l id' : slotv (aset id x l) id' = if N.eqb id' id then x else slotv l id'.
Proof. unfold slotv. rewrite alookup_aset. destruct (N.eqb id' id); reflexivity. Qed.
Lemma phl_Some_lt l i p : phl l i = Some p -> (i < length l)%nat.
Proof.
  unfold phl. intro H. apply nth_error_Some. destruct (nth_error l i); [congruence|discriminate].
Qed.
Lemma phl_app l c j :
  phl (l ++ [c]) j = if Nat.eqb j (length l) then Some (c_phase c) else phl l j.
Proof.
  unfold phl. destruct (Nat.eqb j (length l)) eqn:E.
  - apply Nat.eqb_eq in E. subst. rewrite nth_error_app_last. reflexivity.
  - apply Nat.eqb_neq in E. destruct (Nat.lt_ge_cases j (length l)).
    + rewrite nth_error_app1 by assumption. reflexivity.
    + rewrite (proj2 (nth_error_None (l ++ [c]) j)) by (rewrite app_length; cbn; lia).
      rewrite (proj2 (nth_error_None l j)) by lia. reflexivity.
Qed.
Lemma idl_app l c j : idl (l ++ [c]) j = if Nat.eqb j (length l) then c_id c else idl l j.
Proof.
  unfold idl. destruct (Nat.eqb j (length l)) eqn:E.
  - apply Nat.eqb_eq in E. subst. rewrite nth_error_app_last. reflexivity.
  - apply Nat.eqb_neq in E. destruct (Nat.lt_ge_cases j (length l)).
    + rewrite nth_error_app1 by assumption. reflexivity.
    + rewrite (proj2 (nth_error_None (l ++ [c]) j)) by (rewrite app_length; cbn; lia).
      rewrite (proj2 (nth_error_None l j)) by lia. reflexivity.
Qed.

Definition cov (x : list N) (q : list qitem) (ifl : list (N * ifentry)) (sl : list (N * slot))
  (id : N) : Prop :=
  In id x \/ In id (map q_id q) \/ In id (map fst ifl) \/ sdone (slotv sl id).

Lemma cov_slots x q ifl sl sl' id :
  (sdone (slotv sl id) -> sdone (slotv sl' id)) -> cov x q ifl sl id -> cov x q ifl sl' id.
Proof. unfold cov. tauto. Qed.
Lemma cov_weaken q ifl sl id x : cov [] q ifl sl id -> cov x q ifl sl id.
Proof. unfold cov. intros [H|H]; [destruct H|right; exact H]. Qed.

Lemma sdone_aset_other id x l id' : id' <> id -> sdone (slotv l id') -> sdone (slotv (aset id x l) id').
Proof. intros H. rewrite slotv_aset. apply N.eqb_neq in H. rewrite H. tauto. Qed.
Lemma sdone_send_val x o : sdone (send_val x o).
Proof. unfold send_val. destruct (sl_rx_closed x); right; reflexivity. Qed.
Lemma sdone_aset_mono id x l id' :
  (sdone (slotv l id) -> sdone x) -> sdone (slotv l id') -> sdone (slotv (aset id x l) id').
Proof.
  intros H. rewrite slotv_aset. destruct (N.eqb id' id) eqn:E; [|tauto].
  apply N.eqb_eq in E; subst. exact H.
Qed.

Lemma In_map_fst_aset {A} (k : N) (v : A) m k' :
  In k' (map fst (aset k v m)) <-> k' = k \/ In k' (map fst m).
Proof.
  unfold aset. cbn [map fst In]. rewrite in_map_fst_aremove. split.
  - intros [H|[H _]]; [left; congruence|right; exact H].
  - intros [H|H]; [left; congruence|]. destruct (N.eq_dec k' k); [left; congruence|right; tauto].
Qed.

Lemma phl_set_nth l i c' j :
  (i < length l)%nat -> phl (set_nth i c' l) j = if Nat.eqb i j then Some (c_phase c') else phl l j.
Proof.
  intro H. unfold phl. destruct (Nat.eqb i j) eqn:E.
  - apply Nat.eqb_eq in E; subst j. rewrite nth_error_set_nth_same by exact H. reflexivity.
  - apply Nat.eqb_neq in E. rewrite nth_error_set_nth_other by exact E. reflexivity.
Qed.
Lemma idl_set_nth l i c' j :
  (i < length l)%nat -> idl (set_nth i c' l) j = if Nat.eqb i j then c_id c' else idl l j.
Proof.
  intro H. unfold idl. destruct (Nat.eqb i j) eqn:E.
  - apply Nat.eqb_eq in E; subst j. rewrite nth_error_set_nth_same by exact H. reflexivity.
  - apply Nat.eqb_neq in E. rewrite nth_error_set_nth_other by exact E. reflexivity.
Qed.

Lemma NoDup_snoc {A} (l : list A) (x : A) : NoDup l -> ~ In x l -> NoDup (l ++ [x]).
Proof.
  induction l as [|y r IH]; intros H Hx; cbn; [constructor; [intros []|constructor]|].
  inversion H as [|? ? Hn Hd]; subst. constructor.
  - intro Hin. apply in_app_or in Hin. destruct Hin as [Hin|[Hin|[]]]; [contradiction|].
    subst. apply Hx. left; reflexivity.
  - apply IH; [exact Hd|]. intro Hin. apply Hx. right; exact Hin.
Qed.

Section Inv.
  Context {T : Type}.
  Variable tp : transport T cmsg resp.
  Notation cstate := (@cstate T).
  Implicit Types s : cstate.

  Lemma get_slot_slotv s id : get_slot s id = slotv (slots s) id.
  Proof. reflexivity. Qed.

  Record WInv s : Prop := {
    i_wa : forall i, phl (calls s) i = Some PAcquiring -> In i (waiters s);
    i_wb : forall i, In i (waiters s) -> phl (calls s) i = Some PAcquiring;
    i_wc : NoDup (waiters s);
    i_wd : rx_closed s = true -> waiters s = [] }.

  Record IdInv s : Prop := {
    i_id : forall i, actph (phl (calls s) i) = true -> idl (calls s) i < next_id s;
    i_uq : forall i j, actph (phl (calls s) i) = true -> actph (phl (calls s) j) = true ->
             idl (calls s) i = idl (calls s) j -> i = j;
    i_cn : forall id, In id (cancels s) ->
             id < next_id s /\ forall i, actph (phl (calls s) i) = true -> idl (calls s) i <> id }.

  (* the dispatch future exists and has not failed *)
  Definition alive s : Prop := dropped s = false /\ forall a, finished s <> Some (DErr a).

  (* x: request ids that are momentarily in transit (taken from the queue or the in-flight
     table, oneshot not yet settled) *)
  Record InvX (x : list N) s : Prop := {
    i_w : WInv s;
    i_ids : IdInv s;
    i_aw : forall i, phl (calls s) i = Some PAwaiting ->
             cov x (queue s) (inflight s) (slots s) (idl (calls s) i);
    i_se : forall id a, sl_val (slotv (slots s) id) = Some (OConnErr a) -> terminal s = Some a;
    i_dead : alive s \/ (rx_closed s = true /\ queue s = [] /\ inflight s = []) }.

  Notation Inv := (InvX []).

  (* ---------------------------------------------------------------- transfer lemmas *)
  Lemma WInv_frame s s' :
    calls s' = calls s -> waiters s' = waiters s -> rx_closed s' = rx_closed s -> WInv s -> WInv s'.
  Proof. intros E1 E2 E3 []. constructor; rewrite ?E1, ?E2, ?E3; assumption. Qed.

  Lemma IdInv_sub s s' :
    (forall j, actph (phl (calls s') j) = true ->
               actph (phl (calls s) j) = true /\ idl (calls s') j = idl (calls s) j) ->
    next_id s <= next_id s' -> (forall id, In id (cancels s') -> In id (cancels s)) ->
    IdInv s -> IdInv s'.
  Proof.
    intros HA Hn Hc []. constructor.
    - intros i Hi. destruct (HA i Hi) as [H1 ->]. specialize (i_id0 i H1). lia.
    - intros i j Hi Hj. destruct (HA i Hi) as [H1 ->]. destruct (HA j Hj) as [H2 ->].
      apply i_uq0; assumption.
    - intros id Hid. destruct (i_cn0 id (Hc id Hid)) as [H1 H2]. split; [lia|].
      intros i Hi. destruct (HA i Hi) as [H3 ->]. apply H2, H3.
  Qed.

  Lemma IdInv_frame s s' :
    calls s' = calls s -> next_id s' = next_id s -> cancels s' = cancels s -> IdInv s -> IdInv s'.
  Proof. intros E1 E2 E3 []. constructor; rewrite ?E1, ?E2, ?E3; assumption. Qed.

  (* a phase change that creates no live call *)
  Lemma sub_active_phase l i p p0 :
    phl l i = Some p0 -> (active p = true -> active p0 = true) ->
    forall j, actph (phl (phase_calls l i p) j) = true ->
              actph (phl l j) = true /\ idl (phase_calls l i p) j = idl l j.
  Proof.
    intros H0 Ha j. rewrite phl_phase_calls, idl_phase_calls.
    destruct (Nat.eqb i j) eqn:E; [|tauto]. apply Nat.eqb_eq in E; subst j.
    rewrite H0. cbn. tauto.
  Qed.

  (* everything the invariant reads *)
  Record VFrame s s' : Prop := {
    vf_calls : calls s' = calls s;
    vf_waiters : waiters s' = waiters s;
    vf_rxc : rx_closed s' = rx_closed s;
    vf_queue : queue s' = queue s;
    vf_inflight : inflight s' = inflight s;
    vf_slots : slots s' = slots s;
    vf_nid : next_id s' = next_id s;
    vf_cancels : cancels s' = cancels s;
    vf_terminal : terminal s' = terminal s;
    vf_finished : finished s' = finished s;
    vf_dropped : dropped s' = dropped s }.

  Lemma InvX_vframe x s s' : VFrame s s' -> InvX x s -> InvX x s'.
  Proof.
    intros [] [[] [] ? ? ?].
    constructor; [constructor|constructor|..]; unfold alive in *;
      rewrite ?vf_calls0, ?vf_waiters0, ?vf_rxc0, ?vf_queue0, ?vf_inflight0, ?vf_slots0, ?vf_nid0,
        ?vf_cancels0, ?vf_terminal0, ?vf_finished0, ?vf_dropped0; assumption.
  Qed.

  Lemma VFrame_of_XFrame s s' : XFrame s s' -> VFrame s s'.
  Proof. intros [[] ]. constructor; assumption. Qed.

  Lemma InvX_weaken x s : Inv s -> InvX x s.
  Proof.
    intros []. constructor; try assumption.
    intros i Hi. apply cov_weaken, i_aw0, Hi.
  Qed.

  Ltac vw := rewrite ?phl_phase_calls, ?idl_phase_calls, ?slotv_aset.
  Ltac vwi := rewrite ?phl_phase_calls, ?idl_phase_calls, ?slotv_aset in *.

  (* ---------------------------------------------------------------- the permit queue *)
  Lemma InvX_release_permit x s : InvX x s -> InvX x (release_permit s).
  Proof.
    intros I. unfold release_permit. destruct (waiters s) as [|w r] eqn:Ew.
    - eapply InvX_vframe; [|exact I]. constructor; try reflexivity. cbn. symmetry; exact Ew.
    - destruct I as [[] Ids AW SE DD]. rewrite Ew in *.
      assert (Hw : phl (calls s) w = Some PAcquiring) by (apply i_wb0; left; reflexivity).
      assert (Hnr : ~ In w r) by (inversion i_wc0; assumption).
      constructor; [constructor|..]; norm_state.
      + intros i; vw. destruct (Nat.eqb w i) eqn:E.
        * destruct (phl (calls s) i); cbn [option_map]; intros [=].
        * intro H. destruct (i_wa0 i H) as [->|H']; [rewrite Nat.eqb_refl in E; discriminate|exact H'].
      + intros i Hi; vw. destruct (Nat.eqb w i) eqn:E.
        * apply Nat.eqb_eq in E; subst; contradiction.
        * apply i_wb0. right; exact Hi.
      + inversion i_wc0; assumption.
      + intro H. specialize (i_wd0 H). discriminate.
      + eapply IdInv_sub; [| | |exact Ids]; norm_state; [|lia|tauto].
        apply (sub_active_phase _ _ _ _ Hw). reflexivity.
      + intros i; vw. destruct (Nat.eqb w i) eqn:E.
        * destruct (phl (calls s) i); cbn [option_map]; intros [=].
        * apply AW.
      + exact SE.
      + exact DD.
  Qed.

  Lemma alive_PFrame s s' : PFrame s s' -> alive s -> alive s'.
  Proof. intros [] [H1 H2]. split; congruence. Qed.

  Lemma InvX_q_pop s q s1 :
    q_poll_recv s = (RvSome q, s1) -> Inv s -> InvX [q_id q] s1 /\ alive s.
  Proof.
    unfold q_poll_recv. destruct (queue s) as [|y r] eqn:Eq.
    - destruct (Nat.eqb _ _); [discriminate|]. destruct (_ && _); discriminate.
    - intros [= <- <-] [W Ids AW SE DD]. split.
      + apply InvX_release_permit. constructor.
        * eapply WInv_frame; [..|exact W]; reflexivity.
        * eapply IdInv_frame; [..|exact Ids]; reflexivity.
        * norm_state. intros i Hi. specialize (AW i Hi). unfold cov in *. rewrite Eq in AW.
          cbn [map In] in AW. destruct AW as [H|[[H|H]|H]]; [destruct H|left; left; congruence|tauto|tauto].
        * exact SE.
        * destruct DD as [H|(_ & H & _)]; [left; exact H|congruence].
      + destruct DD as [H|(_ & H & _)]; [exact H|congruence].
  Qed.

  Lemma InvX_set_slot x x' s id X :
    (sdone (slotv (slots s) id) -> sdone X) ->
    (forall j, In j x -> In j x' \/ (j = id /\ sdone X)) ->
    (forall a, sl_val X = Some (OConnErr a) ->
               sl_val (slotv (slots s) id) = Some (OConnErr a) \/ terminal s = Some a) ->
    InvX x s -> InvX x' (set_slot s id X).
  Proof.
    intros Hm Hx Hse [W Ids AW SE DD]. constructor.
    - eapply WInv_frame; [..|exact W]; reflexivity.
    - eapply IdInv_frame; [..|exact Ids]; reflexivity.
    - norm_state. intros i Hi. specialize (AW i Hi). unfold cov in *. vw.
      destruct (N.eqb (idl (calls s) i) id) eqn:E.
      + apply N.eqb_eq in E. rewrite E in AW |- *.
        destruct AW as [H|H]; [destruct (Hx _ H) as [H'|[_ H']]; tauto|tauto].
      + destruct AW as [H|H]; [|tauto]. apply N.eqb_neq in E.
        destruct (Hx _ H) as [H'|[H' _]]; [tauto|congruence].
    - norm_state. intros id' a; vw. destruct (N.eqb id' id) eqn:E; [|apply SE].
      intro H. destruct (Hse a H) as [H'|H']; [eapply SE; exact H'|exact H'].
    - exact DD.
  Qed.

  Lemma InvX_slot_tx_drop x s id : InvX x s -> InvX x (slot_tx_drop s id).
  Proof.
    unfold slot_tx_drop. apply InvX_set_slot; [intros _; right; reflexivity|tauto|].
    cbn [sl_val]. intros a H. left. exact H.
  Qed.
  Lemma InvX_slot_tx_drop_settle x s id : InvX (id :: x) s -> InvX x (slot_tx_drop s id).
  Proof.
    unfold slot_tx_drop. apply InvX_set_slot; [intros _; right; reflexivity| |].
    - intros j [<-|H]; [right; split; [reflexivity|right; reflexivity]|left; exact H].
    - cbn [sl_val]. intros a H. left. exact H.
  Qed.
  Lemma InvX_slot_rx_close x s id : InvX x s -> InvX x (slot_rx_close s id).
  Proof.
    unfold slot_rx_close. apply InvX_set_slot; [|tauto|].
    - unfold sdone; cbn [sl_val sl_tx_gone]. rewrite get_slot_slotv. tauto.
    - cbn [sl_val]. intros a H. left. exact H.
  Qed.

  Definition conn_ok s (o : outcome) : Prop :=
    forall a, o = OConnErr a -> terminal s = Some a.

  Lemma send_val_se s id o :
    conn_ok s o ->
    forall a, sl_val (send_val (get_slot s id) o) = Some (OConnErr a) ->
              sl_val (slotv (slots s) id) = Some (OConnErr a) \/ terminal s = Some a.
  Proof.
    intros Ho a. unfold send_val. destruct (sl_rx_closed _); cbn [sl_val].
    - intro H. left. exact H.
    - intros [= H]. right. apply Ho, H.
  Qed.

  Lemma InvX_slot_send x s id o : conn_ok s o -> InvX x s -> InvX x (slot_send s id o).
  Proof.
    intro Ho. rewrite slot_send_alt.
    apply InvX_set_slot; [intros _; apply sdone_send_val|tauto|apply send_val_se, Ho].
  Qed.
  Lemma InvX_slot_send_settle x s id o :
    conn_ok s o -> InvX (id :: x) s -> InvX x (slot_send s id o).
  Proof.
    intro Ho. rewrite slot_send_alt.
    apply InvX_set_slot; [intros _; apply sdone_send_val| |apply send_val_se, Ho].
    intros j [<-|H]; [right; split; [reflexivity|apply sdone_send_val]|left; exact H].
  Qed.

  Lemma InvX_insert_request s q : alive s -> InvX [q_id q] s -> Inv (insert_request s q).
  Proof.
    intros Hal [W Ids AW SE DD]. unfold insert_request. constructor.
    - eapply WInv_frame; [..|exact W]; reflexivity.
    - eapply IdInv_frame; [..|exact Ids]; reflexivity.
    - norm_state. intros i Hi. specialize (AW i Hi). unfold cov in *. rewrite In_map_fst_aset.
      destruct AW as [[H|[]]|H]; [right; right; left; left; congruence|tauto].
    - exact SE.
    - left. exact Hal.
  Qed.

  Lemma InvX_if_remove s id t : Inv s -> InvX [id] (upd_if s (aremove id (inflight s)) t).
  Proof.
    intros [W Ids AW SE DD]. constructor.
    - eapply WInv_frame; [..|exact W]; reflexivity.
    - eapply IdInv_frame; [..|exact Ids]; reflexivity.
    - norm_state. intros i Hi. specialize (AW i Hi). unfold cov in *.
      rewrite in_map_fst_aremove.
      destruct (N.eq_dec (idl (calls s) i) id) as [E|E]; [left; left; congruence|].
      destruct AW as [H|H]; [destruct H|tauto].
    - exact SE.
    - destruct DD as [H|(H1 & H2 & H3)]; [left; exact H|right]. norm_state.
      rewrite H3. repeat split; assumption.
  Qed.

  Lemma Inv_complete_request s id o :
    conn_ok s o -> Inv s -> Inv (snd (complete_request s id o)).
  Proof.
    intros Ho I. unfold complete_request. destruct (alookup id (inflight s)); cbn [snd]; [|exact I].
    apply InvX_slot_send_settle; [exact Ho|]. apply InvX_if_remove, I.
  Qed.

  Lemma Inv_cancel_step s id s1 e s2 :
    c_poll_recv s = (RvSome id, s1) -> cancel_request s1 id = (e, s2) -> Inv s -> Inv s2.
  Proof.
    unfold c_poll_recv. destruct (cancels s) as [|y r] eqn:Ec;
      [destruct (Nat.eqb _ _); discriminate|].
    intros [= <- <-] H2 [W Ids AW SE DD].
    assert (Hid : forall i, actph (phl (calls s) i) = true -> idl (calls s) i <> y).
    { apply (i_cn _ Ids). rewrite Ec. left; reflexivity. }
    assert (I1 : Inv (upd_cancels s r)).
    { constructor.
      - eapply WInv_frame; [..|exact W]; reflexivity.
      - eapply IdInv_sub; [| | |exact Ids]; norm_state; [tauto|lia|].
        intros id Hin. rewrite Ec. right; exact Hin.
      - exact AW.
      - exact SE.
      - exact DD. }
    revert H2. unfold cancel_request. norm_state.
    destruct (alookup y (inflight s)) as [e0|]; intros [= <- <-]; [|exact I1].
    destruct I1 as [W1 Ids1 AW1 SE1 DD1]. constructor.
    - eapply WInv_frame; [..|exact W1]; reflexivity.
    - eapply IdInv_frame; [..|exact Ids1]; reflexivity.
    - norm_state. intros i Hi. specialize (AW i Hi). unfold cov in *.
      rewrite in_map_fst_aremove.
      assert (idl (calls s) i <> y) by (apply Hid; rewrite Hi; reflexivity).
      destruct AW as [H'|H']; [destruct H'|tauto].
    - exact SE.
    - destruct DD as [H|(H1 & H3 & H4)]; [left; exact H|right]. norm_state.
      rewrite H4. repeat split; assumption.
  Qed.

  Lemma Inv_poll_expired s id s' : poll_expired s = (Some id, s') -> Inv s -> Inv s'.
  Proof.
    unfold poll_expired. destruct (min_timer (timers s) None) as [[id0 w]|]; [|discriminate].
    destruct (N.leb w (now s)); [|discriminate]. cbn [inflight timers upd_if].
    destruct (alookup id0 (inflight s)) as [e|]; intros [= <- <-] I.
    - apply InvX_slot_send_settle; [intros a; discriminate|].
      apply (InvX_if_remove (upd_if s (inflight s) (aremove id0 (timers s))) id0
               (aremove id0 (timers s))).
      eapply InvX_vframe; [|exact I]. constructor; reflexivity.
    - eapply InvX_vframe; [|exact I]. constructor; reflexivity.
  Qed.

  (* ---------------------------------------------------------------- every micro-step *)
  Lemma mstep_PFrame e s s' : mstep tp e s s' -> PFrame s s'.
  Proof.
    intros H. destruct H.
    - eapply XFrame_P, XFrame_do_ready; eassumption.
    - eapply XFrame_P, XFrame_do_flush; eassumption.
    - eapply XFrame_P, XFrame_do_close; eassumption.
    - eapply PFrame_trans; [eapply XFrame_P, XFrame_do_next; eassumption|apply TFrame_P, TFrame_complete].
    - eapply XFrame_P, XFrame_do_next; eassumption.
    - pose proof (IFrame_q_poll_recv s) as F. rewrite H in F. cbn [snd] in F.
      eapply PFrame_trans; [apply F|apply TFrame_P, TFrame_slot_tx_drop].
    - pose proof (IFrame_q_poll_recv s) as F. rewrite H in F. cbn [snd] in F.
      eapply PFrame_trans; [apply F|].
      eapply PFrame_trans; [apply TFrame_P, TFrame_insert_request|].
      eapply PFrame_trans; [eapply XFrame_P, XFrame_do_send; eassumption|].
      destruct w; [apply PFrame_refl|apply TFrame_P, TFrame_complete_request].
    - pose proof (IFrame_c_poll_recv s) as F. rewrite H in F. cbn [snd] in F.
      pose proof (TFrame_cancel_request s1 id) as F2. rewrite H0 in F2. cbn [snd] in F2.
      eapply PFrame_trans; [apply F|apply TFrame_P, F2].
    - pose proof (IFrame_c_poll_recv s) as F. rewrite H in F. cbn [snd] in F.
      pose proof (TFrame_cancel_request s1 id) as F2. rewrite H0 in F2. cbn [snd] in F2.
      eapply PFrame_trans; [apply F|]. eapply PFrame_trans; [apply TFrame_P, F2|].
      eapply XFrame_P, XFrame_do_send; eassumption.
    - pose proof (TFrame_poll_expired s) as F. rewrite H in F. apply TFrame_P, F.
  Qed.

  Lemma conn_ok_PFrame s s' o : PFrame s s' -> conn_ok s o -> conn_ok s' o.
  Proof. intros [] H a Ha. rewrite pf_terminal. apply H, Ha. Qed.

  Lemma Inv_mstep e s s' : mstep tp e s s' -> alive s -> Inv s -> Inv s'.
  Proof.
    intros H Hal I. destruct H.
    - eapply InvX_vframe; [eapply VFrame_of_XFrame, XFrame_do_ready; eassumption|exact I].
    - eapply InvX_vframe; [eapply VFrame_of_XFrame, XFrame_do_flush; eassumption|exact I].
    - eapply InvX_vframe; [eapply VFrame_of_XFrame, XFrame_do_close; eassumption|exact I].
    - unfold complete. apply Inv_complete_request; [intros a; destruct (r_body x); discriminate|].
      eapply InvX_vframe; [eapply VFrame_of_XFrame, XFrame_do_next; eassumption|exact I].
    - eapply InvX_vframe; [eapply VFrame_of_XFrame, XFrame_do_next; eassumption|exact I].
    - apply InvX_slot_tx_drop_settle. eapply InvX_q_pop; eassumption.
    - destruct (InvX_q_pop _ _ _ H I) as [I1 _].
      pose proof (IFrame_q_poll_recv s) as F. rewrite H in F. cbn [snd] in F.
      assert (Hal1 : alive s1) by (eapply alive_PFrame; [apply F|exact Hal]).
      pose proof (InvX_insert_request _ _ Hal1 I1) as I2.
      assert (I3 : Inv s3).
      { eapply InvX_vframe; [eapply VFrame_of_XFrame, XFrame_do_send; eassumption|exact I2]. }
      destruct w; [exact I3|]. apply Inv_complete_request; [intros a; discriminate|exact I3].
    - eapply Inv_cancel_step; eassumption.
    - eapply InvX_vframe; [eapply VFrame_of_XFrame, XFrame_do_send; eassumption|].
      eapply Inv_cancel_step; eassumption.
    - eapply Inv_poll_expired; eassumption.
  Qed.

  Lemma msteps_PFrame e s s' : msteps tp e s s' -> PFrame s s'.
  Proof.
    induction 1 as [s|a s s' H|e s s1 s2 H1 H2 IH]; [apply PFrame_refl|eapply mstep_PFrame, H|].
    eapply PFrame_trans; [eapply mstep_PFrame, H1|exact IH].
  Qed.

  Lemma Inv_msteps e s s' : msteps tp e s s' -> alive s -> Inv s -> Inv s'.
  Proof.
    induction 1 as [s|a s s' H|e s s1 s2 H1 H2 IH]; intros Hal I; [exact I|eapply Inv_mstep; eassumption|].
    apply IH; [eapply alive_PFrame; [eapply mstep_PFrame, H1|exact Hal]|eapply Inv_mstep; eassumption].
  Qed.

  (* ---------------------------------------------------------------- shutting down *)
  Lemma CFrame_refl s : CFrame s s.
  Proof. constructor; [apply IFrame_refl|reflexivity..]. Qed.
  Lemma CFrame_trans s1 s2 s3 : CFrame s1 s2 -> CFrame s2 s3 -> CFrame s1 s3.
  Proof. intros [] []; constructor; [eapply IFrame_trans; eassumption|congruence..]. Qed.

  Lemma fold_set_phase_spec p l s :
    let s' := fold_left (fun acc w => set_phase acc w p) l s in
    (forall j, phl (calls s') j =
               if mem_nat j l then option_map (fun _ => p) (phl (calls s) j) else phl (calls s) j) /\
    (forall j, idl (calls s') j = idl (calls s) j) /\ CFrame s s'.
  Proof.
    revert s. induction l as [|w r IH]; intro s; cbn [fold_left].
    - split; [|split]; [reflexivity|reflexivity|apply CFrame_refl].
    - destruct (IH (set_phase s w p)) as (H1 & H2 & H3). split; [|split].
      + intro j. rewrite H1. rewrite set_phase_alt. cbn [calls upd_calls]. rewrite phl_phase_calls.
        unfold mem_nat. cbn [existsb]. fold (mem_nat j r). rewrite (Nat.eqb_sym j w).
        destruct (Nat.eqb w j); cbn [orb]; [|reflexivity].
        destruct (mem_nat j r); [|reflexivity]. destruct (phl (calls s) j); reflexivity.
      + intro j. rewrite H2. rewrite set_phase_alt. cbn [calls upd_calls]. apply idl_phase_calls.
      + eapply CFrame_trans; [apply CFrame_set_phase|exact H3].
  Qed.

  Lemma rx_closed_q_close s : rx_closed (q_close s) = true.
  Proof. unfold q_close. destruct (rx_closed s) eqn:E; [exact E|reflexivity]. Qed.

  Lemma InvX_q_close x s : InvX x s -> InvX x (q_close s).
  Proof.
    intros I. unfold q_close. destruct (rx_closed s) eqn:Erx; [exact I|].
    destruct (fold_set_phase_spec PAcqClosed (waiters s) s) as (H1 & H2 & H3).
    set (s1 := fold_left _ _ _) in *.
    destruct I as [[] Ids AW SE DD].
    assert (Hm : forall j, mem_nat j (waiters s) = true -> phl (calls s) j = Some PAcquiring).
    { intros j Hj. apply i_wb0. apply mem_nat_In, Hj. }
    constructor; [constructor|..]; cbn [calls waiters rx_closed queue inflight slots next_id cancels
                                        terminal finished dropped upd_q].
    - intros i. rewrite H1. destruct (mem_nat i (waiters s)) eqn:Em.
      + rewrite (Hm i Em). intros [=].
      + intro H. apply i_wa0 in H. apply mem_nat_In in H. congruence.
    - intros i [].
    - constructor.
    - reflexivity.
    - eapply IdInv_sub; [| | |exact Ids];
        cbn [calls next_id cancels upd_q]; rewrite ?(pf_nid _ _ (if_p _ _ (cf_i _ _ H3))),
          ?(cf_cancels _ _ H3); [|lia|tauto].
      intros j. rewrite H1, H2. destruct (mem_nat j (waiters s)) eqn:Em; [|tauto].
      rewrite (Hm j Em). tauto.
    - rewrite (cf_queue _ _ H3), (cf_inflight _ _ H3), (cf_slots _ _ H3).
      intros i. rewrite H1, H2. destruct (mem_nat i (waiters s)) eqn:Em.
      + rewrite (Hm i Em). intros [=].
      + apply AW.
    - rewrite (cf_slots _ _ H3), (pf_terminal _ _ (if_p _ _ (cf_i _ _ H3))). exact SE.
    - left. destruct DD as [D|(D & _)]; [|congruence].
      eapply alive_PFrame; [|exact D]. constructor; cbn; apply (if_p _ _ (cf_i _ _ H3)).
  Qed.

  (* a fold of oneshot updates: only the slot table changes *)
  Lemma fold_tx_drop_spec {A} (f : A -> N) (l : list A) s :
    exists sl, fold_left (fun acc p => slot_tx_drop acc (f p)) l s = upd_slots s sl /\
      (forall id, sdone (slotv (slots s) id) -> sdone (slotv sl id)) /\
      (forall p, In p l -> sdone (slotv sl (f p))) /\
      (forall id, sl_val (slotv sl id) = sl_val (slotv (slots s) id)).
  Proof.
    revert s. induction l as [|p r IH]; intro s; cbn [fold_left].
    - exists (slots s). split; [destruct s; reflexivity|]. split; [tauto|]. split; [intros p []|reflexivity].
    - destruct (IH (slot_tx_drop s (f p))) as (sl & E & M & D & V). exists sl.
      split; [rewrite E; reflexivity|].
      assert (M0 : forall id, sdone (slotv (slots s) id) -> sdone (slotv (slots (slot_tx_drop s (f p))) id)).
      { intros id. norm_state. apply sdone_aset_mono. intros _. right; reflexivity. }
      split; [intros id H; apply M, M0, H|]. split.
      + intros p' [<-|Hin]; [|apply D, Hin]. apply M. norm_state. rewrite slotv_aset, N.eqb_refl.
        right; reflexivity.
      + intro id. rewrite V. norm_state. rewrite slotv_aset.
        destruct (N.eqb id (f p)) eqn:E1; [|reflexivity]. apply N.eqb_eq in E1; subst. reflexivity.
  Qed.

  Lemma fold_slot_send_inv {A} (f : A -> N) o (l : list A) x s :
    conn_ok s o -> InvX (map f l ++ x) s ->
    InvX x (fold_left (fun acc p => slot_send acc (f p) o) l s).
  Proof.
    revert s. induction l as [|p r IH]; intros s Ho I; cbn [fold_left]; [exact I|].
    apply IH.
    - eapply conn_ok_PFrame; [apply TFrame_P, TFrame_slot_send|exact Ho].
    - apply InvX_slot_send_settle; [exact Ho|exact I].
  Qed.

  Lemma Inv_complete_all s o : conn_ok s o -> Inv s -> Inv (complete_all s o).
  Proof.
    intros Ho [W Ids AW SE DD]. unfold complete_all.
    apply (fold_slot_send_inv fst o (inflight s) [] (upd_if s [] [])); [exact Ho|].
    rewrite app_nil_r. constructor.
    - eapply WInv_frame; [..|exact W]; reflexivity.
    - eapply IdInv_frame; [..|exact Ids]; reflexivity.
    - norm_state. intros i Hi. specialize (AW i Hi). unfold cov in *. cbn [map In].
      destruct AW as [[]|[H|[H|H]]]; tauto.
    - exact SE.
    - destruct DD as [H|(H1 & H2 & H3)]; [left; exact H|right]. norm_state. tauto.
  Qed.

  Lemma inflight_complete_all s o : inflight (complete_all s o) = [].
  Proof.
    unfold complete_all.
    assert (G : forall l s0, inflight (fold_left (fun acc (p : N * ifentry) => slot_send acc (fst p) o) l s0)
                             = inflight s0).
    { induction l as [|p r IH]; intro s0; cbn [fold_left]; [reflexivity|].
      rewrite IH. rewrite slot_send_alt. reflexivity. }
    rewrite G. reflexivity.
  Qed.

  Lemma drain_loop_spec f a s b s' :
    drain_loop f a s = (b, s') -> terminal s = Some a -> Inv s ->
    Inv s' /\ rx_closed s' = rx_closed s /\ inflight s' = inflight s /\ (b = true -> queue s' = []).
  Proof.
    revert s. induction f as [|f IH]; intro s; cbn [drain_loop].
    - intros [= <- <-] _ I. refine (conj I (conj eq_refl (conj eq_refl _))). discriminate.
    - destruct (q_poll_recv s) as [rv s1] eqn:E1. destruct rv as [q| |].
      + intros H Ht I.
        destruct (InvX_q_pop _ _ _ E1 I) as [I1 _].
        pose proof (IFrame_q_poll_recv s) as F. rewrite E1 in F. cbn [snd] in F.
        assert (Ht1 : terminal s1 = Some a) by (rewrite (pf_terminal _ _ (if_p _ _ F)); exact Ht).
        assert (Hq : rx_closed s1 = rx_closed s /\ inflight s1 = inflight s).
        { revert E1. unfold q_poll_recv. destruct (queue s); [destruct (Nat.eqb _ _); [discriminate|];
            destruct (_ && _); discriminate|].
          intros [= _ <-]. unfold release_permit. cbn [waiters upd_q].
          destruct (waiters s); [split; reflexivity|].
          pose proof (CFrame_set_phase (upd_q s (permits s) l l0 (rx_closed s)) n PAssigned) as C.
          split; [apply (cf_rxc _ _ C)|apply (cf_inflight _ _ C)]. }
        apply IH in H.
        * destruct H as (I' & R & F' & Q). rewrite slot_send_alt in R, F'. cbn in R, F'.
          destruct Hq as [Hq1 Hq2]. refine (conj I' (conj _ (conj _ Q))); congruence.
        * rewrite (pf_terminal _ _ (TFrame_P _ _ (TFrame_slot_send s1 (q_id q) (OConnErr a)))). exact Ht1.
        * apply InvX_slot_send_settle; [|exact I1]. intros a' [= <-]. exact Ht1.
      + intros [= <- <-] _ I. pose proof (q_poll_recv_nil _ _ _ E1) as [-> Q]; [discriminate|].
        refine (conj I (conj eq_refl (conj eq_refl _))). intros _; exact Q.
      + intros [= <- <-] _ I. pose proof (q_poll_recv_nil _ _ _ E1) as [-> Q]; [discriminate|].
        refine (conj I (conj eq_refl (conj eq_refl _))). discriminate.
  Qed.

  Lemma shut_down_spec s a b s' :
    shut_down s a = (b, s') -> terminal s = Some a -> Inv s ->
    Inv s' /\ (b = true -> rx_closed s' = true /\ queue s' = [] /\ inflight s' = []).
  Proof.
    unfold shut_down. intros H Ht I.
    assert (Ht1 : terminal (q_close s) = Some a).
    { rewrite (pf_terminal _ _ (if_p _ _ (IFrame_q_close s))). exact Ht. }
    assert (Ht2 : terminal (complete_all (q_close s) (OConnErr a)) = Some a).
    { rewrite (pf_terminal _ _ (TFrame_P _ _ (TFrame_complete_all _ _))). exact Ht1. }
    apply drain_loop_spec in H; [|exact Ht2|].
    - destruct H as (I' & R & F & Q). split; [exact I'|]. intro Hb.
      rewrite R, F, (tf_rxc _ _ (TFrame_complete_all _ _)), rx_closed_q_close, inflight_complete_all.
      refine (conj eq_refl (conj _ eq_refl)). apply Q, Hb.
    - apply Inv_complete_all; [intros a' [= <-]; exact Ht1|]. apply InvX_q_close, I.
  Qed.

  Lemma Inv_upd_term s a : terminal s = None -> Inv s -> Inv (upd_term s (Some a)).
  Proof.
    intros Ht [W Ids AW SE DD]. constructor.
    - eapply WInv_frame; [..|exact W]; reflexivity.
    - eapply IdInv_frame; [..|exact Ids]; reflexivity.
    - exact AW.
    - intros id a' H. apply SE in H. congruence.
    - exact DD.
  Qed.

  Lemma Inv_upd_fin s d :
    (forall a, d = DErr a -> rx_closed s = true /\ queue s = [] /\ inflight s = []) ->
    alive s -> Inv s -> Inv (upd_fin s (Some d) (dropped s)).
  Proof.
    intros Hd Hal [W Ids AW SE DD]. constructor.
    - eapply WInv_frame; [..|exact W]; reflexivity.
    - eapply IdInv_frame; [..|exact Ids]; reflexivity.
    - exact AW.
    - exact SE.
    - destruct d as [|a]; [left|right; apply (Hd a eq_refl)].
      destruct Hal as [H1 H2]. split; [exact H1|]. cbn. intros a [=].
  Qed.

  Lemma Inv_drop_dispatch s : Inv s -> Inv (drop_dispatch s).
  Proof.
    intro I. apply (InvX_q_close [] s) in I. unfold drop_dispatch.
    pose proof (rx_closed_q_close s) as Rx. set (s1 := q_close s) in *.
    destruct (fold_tx_drop_spec q_id (queue s1) s1) as (sl1 & E1 & M1 & D1 & V1). rewrite E1.
    cbn [inflight upd_slots].
    destruct (fold_tx_drop_spec (fun p : N * ifentry => fst p) (inflight s1) (upd_slots s1 sl1))
      as (sl2 & E2 & M2 & D2 & V2).
    rewrite E2. cbn [slots upd_slots] in M2, V2.
    destruct I as [[] Ids AW SE DD].
    constructor; [constructor|..]; norm_state.
    - intros i H. apply i_wa0 in H. rewrite (i_wd0 Rx) in H. exact H.
    - intros i [].
    - constructor.
    - reflexivity.
    - eapply IdInv_sub; [| | |exact Ids]; norm_state; [tauto|lia|intros id []].
    - intros i Hi. specialize (AW i Hi). unfold cov in *. cbn [map In].
      destruct AW as [[]|[H|[H|H]]]; right; right; right.
      + apply in_map_iff in H. destruct H as (q & <- & Hq). apply M2, D1, Hq.
      + apply in_map_iff in H. destruct H as (q & <- & Hq). apply (D2 q Hq).
      + apply M2, M1, H.
    - intros id a. rewrite V2, V1. apply SE.
    - right. repeat split.
  Qed.

  (* ---------------------------------------------------------------- phase changes of one call *)
  Lemma WInv_phase s s' i p p0 :
    calls s' = phase_calls (calls s) i p -> waiters s' = waiters s -> rx_closed s' = rx_closed s ->
    phl (calls s) i = Some p0 -> p <> PAcquiring -> p0 <> PAcquiring -> WInv s -> WInv s'.
  Proof.
    intros E1 E2 E3 H0 Hp Hp0 []. constructor; rewrite ?E1, ?E2, ?E3; try assumption.
    - intros j. vw. destruct (Nat.eqb i j) eqn:E; [|apply i_wa0].
      apply Nat.eqb_eq in E; subst j. rewrite H0. cbn. congruence.
    - intros j Hj. vw. destruct (Nat.eqb i j) eqn:E; [|apply i_wb0, Hj].
      apply Nat.eqb_eq in E; subst j. apply i_wb0 in Hj. congruence.
  Qed.

  Definition fresh_for s i : Prop :=
    idl (calls s) i < next_id s /\
    (forall j, j <> i -> actph (phl (calls s) j) = true -> idl (calls s) j <> idl (calls s) i) /\
    ~ In (idl (calls s) i) (cancels s).

  Lemma fresh_for_active s i : IdInv s -> actph (phl (calls s) i) = true -> fresh_for s i.
  Proof.
    intros [] Hi. split; [apply i_id0, Hi|]. split.
    - intros j Hj Ha He. apply Hj. apply i_uq0; assumption.
    - intro Hin. destruct (i_cn0 _ Hin) as [_ H]. apply (H i Hi). reflexivity.
  Qed.

  Lemma IdInv_phase s s' i p p0 :
    calls s' = phase_calls (calls s) i p -> next_id s' = next_id s -> cancels s' = cancels s ->
    phl (calls s) i = Some p0 -> (active p = true -> fresh_for s i) ->
    IdInv s -> IdInv s'.
  Proof.
    intros E1 E2 E3 H0 Hf []. 
    assert (HA : forall j, actph (phl (phase_calls (calls s) i p) j) = true ->
                 (j = i /\ active p = true) \/ (j <> i /\ actph (phl (calls s) j) = true)).
    { intros j. vw. destruct (Nat.eqb i j) eqn:E.
      - apply Nat.eqb_eq in E; subst j. rewrite H0. cbn. tauto.
      - apply Nat.eqb_neq in E. intro H. right. split; [congruence|exact H]. }
    constructor; rewrite ?E1, ?E2, ?E3.
    - intros j Hj. vw. destruct (HA j Hj) as [[-> Hp]|[_ Hj']]; [apply (Hf Hp)|apply i_id0, Hj'].
    - intros j k Hj Hk. vw. destruct (HA j Hj) as [[-> Hp]|[Hn Hj']]; destruct (HA k Hk) as [[-> Hp']|[Hn' Hk']].
      + reflexivity.
      + intro He. exfalso. destruct (Hf Hp) as (_ & H & _). apply (H k Hn' Hk'). congruence.
      + intro He. exfalso. destruct (Hf Hp') as (_ & H & _). apply (H j Hn Hj'). congruence.
      + apply i_uq0; assumption.
    - intros id Hid. destruct (i_cn0 id Hid) as [H1 H2]. split; [exact H1|].
      intros j Hj. vw. destruct (HA j Hj) as [[-> Hp]|[_ Hj']]; [|apply H2, Hj'].
      destruct (Hf Hp) as (_ & _ & H). congruence.
  Qed.

  Lemma InvX_set_phase x s i p p0 :
    phl (calls s) i = Some p0 -> p <> PAcquiring -> p0 <> PAcquiring ->
    (active p = true -> fresh_for s i) ->
    (p = PAwaiting -> cov x (queue s) (inflight s) (slots s) (idl (calls s) i)) ->
    InvX x s -> InvX x (set_phase s i p).
  Proof.
    intros H0 Hp Hp0 Hf Hc [W Ids AW SE DD]. rewrite set_phase_alt. constructor.
    - eapply WInv_phase; [..|exact W]; try reflexivity; eassumption.
    - eapply IdInv_phase; [..|exact Ids]; try reflexivity; eassumption.
    - norm_state. intros j. vw. destruct (Nat.eqb i j) eqn:E; [|apply AW].
      apply Nat.eqb_eq in E; subst j. rewrite H0. cbn. intros [= ->]. apply Hc. reflexivity.
    - exact SE.
    - exact DD.
  Qed.

  (* the guard's cancel message and the end of the call future *)
  Lemma InvX_retire x s i p p0 id :
    phl (calls s) i = Some p0 -> p0 <> PAcquiring -> active p = false ->
    idl (calls s) i = id -> id < next_id s ->
    (forall j, j <> i -> actph (phl (calls s) j) = true -> idl (calls s) j <> id) ->
    InvX x s -> InvX x (set_phase (push_cancel s id) i p).
  Proof.
    intros H0 Hp0 Hp Hid Hlt Huq [W Ids AW SE DD]. rewrite set_phase_alt, push_cancel_alt.
    assert (Hpa : p <> PAcquiring) by (intros ->; discriminate).
    assert (HA : forall j, actph (phl (phase_calls (calls s) i p) j) = true ->
                 j <> i /\ actph (phl (calls s) j) = true).
    { intros j. vw. destruct (Nat.eqb i j) eqn:E.
      - apply Nat.eqb_eq in E; subst j. rewrite H0. cbn. rewrite Hp. discriminate.
      - apply Nat.eqb_neq in E. intro H. split; [congruence|exact H]. }
    constructor.
    - eapply WInv_phase; [..|exact W]; try reflexivity; eassumption.
    - destruct Ids. constructor; norm_state.
      + intros j Hj. vw. apply i_id0, HA, Hj.
      + intros j k Hj Hk. vw. apply i_uq0; [apply HA, Hj|apply HA, Hk].
      + intros id' Hin.
        assert (Hin' : In id' (cancels s) \/ id' = id).
        { destruct (dropped s); [left; exact Hin|]. apply in_app_or in Hin.
          destruct Hin as [H|[H|[]]]; [left; exact H|right; congruence]. }
        destruct Hin' as [Hin'| ->].
        * destruct (i_cn0 _ Hin') as [H1 H2]. split; [exact H1|].
          intros j Hj. vw. apply H2, HA, Hj.
        * split; [exact Hlt|]. intros j Hj. vw. destruct (HA j Hj) as [Hn Hj']. apply Huq; assumption.
    - norm_state. intros j. vw. destruct (Nat.eqb i j) eqn:E; [|apply AW].
      apply Nat.eqb_eq in E; subst j. rewrite H0. cbn. intros [= ->]. discriminate.
    - exact SE.
    - exact DD.
  Qed.

  Lemma Inv_fail_shutdown s i id p0 :
    phl (calls s) i = Some p0 -> p0 <> PAcquiring -> idl (calls s) i = id -> id < next_id s ->
    (forall j, j <> i -> actph (phl (calls s) j) = true -> idl (calls s) j <> id) ->
    Inv s -> Inv (snd (fail_shutdown s i id)).
  Proof.
    intros H0 Hp0 Hid Hlt Huq I. unfold fail_shutdown. cbn [snd].
    apply (InvX_retire [] _ i PDone p0 id); try assumption; try reflexivity.
    apply InvX_slot_rx_close, InvX_slot_tx_drop, I.
  Qed.

  Lemma Inv_poll_slot s i id p0 :
    phl (calls s) i = Some p0 -> p0 <> PAcquiring -> Inv s -> Inv (snd (poll_slot s i id)).
  Proof.
    intros H0 Hp0 I. unfold poll_slot.
    assert (K : Inv (set_phase (slot_rx_close s id) i PDone)).
    { apply (InvX_set_phase [] _ i PDone p0); try assumption; try discriminate.
      apply InvX_slot_rx_close, I. }
    destruct (sl_val (get_slot s id)); cbn [snd]; [exact K|].
    destruct (sl_tx_gone (get_slot s id)); cbn [snd]; [exact K|exact I].
  Qed.

  Lemma Inv_enqueue_state s i p0 q pm :
    phl (calls s) i = Some p0 -> p0 <> PAcquiring -> rx_closed s = false ->
    fresh_for s i -> q_id q = idl (calls s) i -> Inv s ->
    Inv (set_phase (upd_q s pm (queue s ++ [q]) (waiters s) (rx_closed s)) i PAwaiting).
  Proof.
    intros H0 Hp0 Hrx Hf Hq [W Ids AW SE DD].
    apply (InvX_set_phase [] _ i PAwaiting p0); try assumption; try discriminate.
    - intros _. exact Hf.
    - intros _. norm_state. unfold cov. right; left. rewrite map_app, <- Hq. apply in_or_app.
      right; left; reflexivity.
    - constructor.
      + eapply WInv_frame; [..|exact W]; reflexivity.
      + eapply IdInv_frame; [..|exact Ids]; reflexivity.
      + norm_state. intros j Hj. specialize (AW j Hj). unfold cov in *. rewrite map_app.
        destruct AW as [H|[H|H]]; [tauto| |tauto]. right; left. apply in_or_app. left; exact H.
      + exact SE.
      + left. destruct DD as [H|(H & _)]; [exact H|congruence].
  Qed.

  Lemma Inv_acquire_state s i :
    phl (calls s) i = Some PNew -> rx_closed s = false -> fresh_for s i -> Inv s ->
    Inv (set_phase (upd_q s O (queue s) (waiters s ++ [i]) (rx_closed s)) i PAcquiring).
  Proof.
    intros H0 Hrx Hf [[] Ids AW SE DD]. rewrite set_phase_alt.
    assert (Hni : ~ In i (waiters s)).
    { intro H. apply i_wb0 in H. congruence. }
    constructor; [constructor|..]; norm_state.
    - intros j. vw. destruct (Nat.eqb i j) eqn:E.
      + apply Nat.eqb_eq in E; subst j. intros _. apply in_or_app. right; left; reflexivity.
      + intro H. apply in_or_app. left. apply i_wa0, H.
    - intros j Hj. vw. apply in_app_or in Hj. destruct (Nat.eqb i j) eqn:E.
      + apply Nat.eqb_eq in E; subst j. rewrite H0. reflexivity.
      + destruct Hj as [Hj|[Hj|[]]]; [apply i_wb0, Hj|]. apply Nat.eqb_neq in E. congruence.
    - apply NoDup_snoc; assumption.
    - congruence.
    - eapply IdInv_phase; [..|exact Ids]; try reflexivity; [exact H0|intros _; exact Hf].
    - intros j. vw. destruct (Nat.eqb i j) eqn:E; [|apply AW].
      apply Nat.eqb_eq in E; subst j. rewrite H0. cbn. discriminate.
    - exact SE.
    - exact DD.
  Qed.

  (* ---------------------------------------------------------------- Channel::call *)
  Lemma phl_nth s i c : nth_error (calls s) i = Some c -> phl (calls s) i = Some (c_phase c).
  Proof. unfold phl. intros ->. reflexivity. Qed.
  Lemma idl_nth s i c : nth_error (calls s) i = Some c -> idl (calls s) i = c_id c.
  Proof. unfold idl. intros ->. reflexivity. Qed.

  (* the first poll: request id, oneshot *)
  Definition assign s i (c : call) : cstate :=
    set_slot (with_id (upd_misc s (N.modulo (next_id s + 1) 18446744073709551616) (handles s) (now s))
                      i c (next_id s)) (next_id s) slot0.

  Lemma Inv_assign s i c :
    nth_error (calls s) i = Some c -> c_phase c = PNew -> next_id s + 1 < two64 -> Inv s ->
    Inv (assign s i c) /\ phl (calls (assign s i c)) i = Some PNew /\ fresh_for (assign s i c) i /\
    idl (calls (assign s i c)) i = next_id s /\ next_id (assign s i c) = next_id s + 1.
  Proof.
    intros Ec Ep Hw [W Ids AW SE DD]. unfold assign, with_id. norm_state.
    assert (Hlt : (i < length (calls s))%nat) by (apply nth_error_Some; congruence).
    assert (Hph : forall j, phl (set_nth i {| c_handle := c_handle c; c_phase := c_phase c; c_id := next_id s;
                    c_rel := c_rel c; c_deadline := c_deadline c; c_tc := c_tc c; c_body := c_body c |}
                    (calls s)) j = phl (calls s) j).
    { intro j. rewrite phl_set_nth by exact Hlt. cbn [c_phase]. destruct (Nat.eqb i j) eqn:E; [|reflexivity].
      apply Nat.eqb_eq in E; subst j. symmetry. apply phl_nth, Ec. }
    assert (Hnid : N.modulo (next_id s + 1) 18446744073709551616 = next_id s + 1).
    { apply N.mod_small. exact Hw. }
    assert (Hi : phl (calls s) i = Some PNew) by (rewrite (phl_nth _ _ _ Ec), Ep; reflexivity).
    assert (Hact : forall j, actph (phl (calls s) j) = true -> j <> i).
    { intros j Hj ->. rewrite Hi in Hj. discriminate. }
    split; [|split; [|split; [|split]]].
    - constructor; norm_state.
      + destruct W. constructor; norm_state; try assumption.
        * intros j. rewrite Hph. apply i_wa0.
        * intros j Hj. rewrite Hph. apply i_wb0, Hj.
      + destruct Ids. constructor; norm_state; rewrite ?Hnid.
        * intros j. rewrite Hph. intro Hj. rewrite idl_set_nth by exact Hlt.
          pose proof (Hact j Hj) as Hn. apply Nat.eqb_neq in Hn. rewrite Nat.eqb_sym, Hn.
          specialize (i_id0 j Hj). lia.
        * intros j k. rewrite !Hph. intros Hj Hk. rewrite !idl_set_nth by exact Hlt.
          pose proof (Hact j Hj) as Hn. apply Nat.eqb_neq in Hn. rewrite Nat.eqb_sym, Hn.
          pose proof (Hact k Hk) as Hn'. apply Nat.eqb_neq in Hn'. rewrite Nat.eqb_sym, Hn'.
          apply i_uq0; assumption.
        * intros id Hid. destruct (i_cn0 id Hid) as [H1 H2]. split; [lia|].
          intros j. rewrite Hph. intro Hj. rewrite idl_set_nth by exact Hlt.
          pose proof (Hact j Hj) as Hn. apply Nat.eqb_neq in Hn. rewrite Nat.eqb_sym, Hn. apply H2, Hj.
      + intros j. rewrite Hph. intro Hj. rewrite idl_set_nth by exact Hlt.
        assert (Hn : j <> i) by (intros ->; congruence). apply Nat.eqb_neq in Hn. rewrite Nat.eqb_sym, Hn.
        specialize (AW j Hj). unfold cov in *. rewrite slotv_aset.
        assert (Hid : idl (calls s) j < next_id s) by (apply (i_id _ Ids); rewrite Hj; reflexivity).
        destruct (N.eqb (idl (calls s) j) (next_id s)) eqn:E; [apply N.eqb_eq in E; lia|exact AW].
      + intros id a. rewrite slotv_aset. destruct (N.eqb id (next_id s)); [discriminate|apply SE].
      + exact DD.
    - rewrite Hph. exact Hi.
    - unfold fresh_for. norm_state. rewrite Hnid, idl_set_nth by exact Hlt. rewrite Nat.eqb_refl. cbn [c_id].
      split; [lia|]. split.
      + intros j Hn. rewrite Hph. intro Hj. rewrite idl_set_nth by exact Hlt.
        apply Nat.eqb_neq in Hn. rewrite Nat.eqb_sym, Hn.
        pose proof (i_id _ Ids j Hj). lia.
      + intro Hin. destruct (i_cn _ Ids _ Hin) as [H _]. lia.
    - rewrite idl_set_nth by exact Hlt. rewrite Nat.eqb_refl. reflexivity.
    - exact Hnid.
  Qed.

  Lemma fresh_for_upd_q s i a b c d : fresh_for s i -> fresh_for (upd_q s a b c d) i.
  Proof. exact (fun H => H). Qed.

  Lemma Inv_poll_call s i r s' :
    poll_call s i = (r, s') -> next_id s + 1 < two64 -> Inv s -> Inv s'.
  Proof.
    unfold poll_call. destruct (nth_error (calls s) i) as [c|] eqn:Ec; [|intros [= <- <-]; tauto].
    pose proof (phl_nth _ _ _ Ec) as Hph. pose proof (idl_nth _ _ _ Ec) as Hid.
    destruct (c_phase c) eqn:Ep; try (intros [= <- <-]; tauto).
    - (* PNew *)
      intros H Hw I. destruct (Inv_assign _ _ _ Ec Ep Hw I) as (I1 & P1 & F1 & Id1 & N1).
      fold (assign s i c) in H. set (s1 := assign s i c) in *.
      destruct (rx_closed s1) eqn:Erx.
      + replace s' with (snd (fail_shutdown s1 i (next_id s))) by (rewrite H; reflexivity).
        apply (Inv_fail_shutdown _ _ _ PNew); try assumption; try discriminate; [lia|].
        intros j Hn Hj. rewrite <- Id1. apply F1; assumption.
      + destruct (permits s1) as [|pm] eqn:Epm.
        * injection H as _ <-. pose proof (Inv_acquire_state s1 i P1 Erx F1 I1) as K.
          rewrite Erx in K. exact K.
        * unfold enqueue in H.
          match type of H with poll_slot ?st _ _ = _ =>
            replace s' with (snd (poll_slot st i (next_id s))) by (rewrite H; reflexivity);
            assert (I2 : Inv st) end.
          { assert (I1' : Inv (upd_q s1 pm (queue s1) (waiters s1) false)).
            { eapply InvX_vframe; [|exact I1]. constructor; try reflexivity. symmetry; exact Erx. }
            refine (Inv_enqueue_state (upd_q s1 pm (queue s1) (waiters s1) false) i PNew _ pm
                      P1 _ eq_refl F1 _ I1'); [discriminate|].
            cbn [q_id]. symmetry; exact Id1. }
          apply (Inv_poll_slot _ _ _ PAwaiting); [|discriminate|exact I2].
          rewrite set_phase_alt. cbn [calls upd_calls upd_q]. rewrite phl_phase_calls, Nat.eqb_refl.
          rewrite P1. reflexivity.
    - (* PAssigned *)
      intros H Hw I. pose proof (fresh_for_active s i (i_ids _ _ I)) as F.
      rewrite Hph in F. specialize (F eq_refl).
      destruct (rx_closed s) eqn:Erx.
      + replace s' with (snd (fail_shutdown (upd_q s (S (permits s)) (queue s) (waiters s) (rx_closed s)) i (c_id c)))
          by (rewrite Erx, H; reflexivity).
        apply (Inv_fail_shutdown _ _ _ PAssigned); try assumption; try discriminate.
        * rewrite <- Hid. apply F.
        * intros j Hn Hj. rewrite <- Hid. apply F; assumption.
        * eapply InvX_vframe; [|exact I]. constructor; reflexivity.
      + unfold enqueue in H.
        match type of H with poll_slot ?st _ _ = _ =>
          replace s' with (snd (poll_slot st i (c_id c))) by (rewrite H; reflexivity);
          assert (I2 : Inv st) end.
        { pose proof (Inv_enqueue_state s i PAssigned
                        {| q_id := c_id c; q_deadline := c_deadline c;
                           q_tc := {| tc_tid := tc_tid (c_tc c); tc_sid := c_id c;
                                      tc_sampled := tc_sampled (c_tc c) |};
                           q_body := c_body c |} (permits s) Hph) as K.
          apply K; try assumption; try discriminate; try reflexivity.
          cbn [q_id]. symmetry; exact Hid. }
        apply (Inv_poll_slot _ _ _ PAwaiting); [|discriminate|exact I2].
        rewrite set_phase_alt. cbn [calls upd_calls upd_q]. rewrite phl_phase_calls, Nat.eqb_refl.
        rewrite Hph. reflexivity.
    - (* PAcqClosed *)
      intros H Hw I. pose proof (fresh_for_active s i (i_ids _ _ I)) as F.
      rewrite Hph in F. specialize (F eq_refl).
      replace s' with (snd (fail_shutdown s i (c_id c))) by (rewrite H; reflexivity).
      apply (Inv_fail_shutdown _ _ _ PAcqClosed); try assumption; try discriminate.
      + rewrite <- Hid. apply F.
      + intros j Hn Hj. rewrite <- Hid. apply F; assumption.
    - (* PAwaiting *)
      intros H Hw I. replace s' with (snd (poll_slot s i (c_id c))) by (rewrite H; reflexivity).
      apply (Inv_poll_slot _ _ _ PAwaiting); [exact Hph|discriminate|exact I].
  Qed.

  Lemma next_id_poll_call s i r s' :
    poll_call s i = (r, s') -> next_id s' = next_id s \/ next_id s' = N.modulo (next_id s + 1) two64.
  Proof.
    unfold poll_call. destruct (nth_error (calls s) i) as [c|]; [|intros [= _ <-]; left; reflexivity].
    assert (P : forall st id r0 s0, poll_slot st i id = (r0, s0) -> next_id s0 = next_id st).
    { intros st id r0 s0. unfold poll_slot. destruct (sl_val _).
      - intros [= _ <-]. rewrite set_phase_alt. reflexivity.
      - destruct (sl_tx_gone _); intros [= _ <-]; [rewrite set_phase_alt|]; reflexivity. }
    assert (Fs : forall st id r0 s0, fail_shutdown st i id = (r0, s0) -> next_id s0 = next_id st).
    { intros st id r0 s0. unfold fail_shutdown. intros [= _ <-]. rewrite set_phase_alt, push_cancel_alt.
      reflexivity. }
    destruct (c_phase c); try (intros [= _ <-]; left; reflexivity).
    - destruct (rx_closed _).
      + intro H. apply Fs in H. right. rewrite H. reflexivity.
      + destruct (permits _).
        * intros [= _ <-]. right. rewrite set_phase_alt. reflexivity.
        * unfold enqueue. intro H. apply P in H. right. rewrite H, set_phase_alt. reflexivity.
    - destruct (rx_closed s).
      + intro H. apply Fs in H. left. rewrite H. reflexivity.
      + unfold enqueue. intro H. apply P in H. left. rewrite H, set_phase_alt. reflexivity.
    - intro H. apply Fs in H. left. exact H.
    - intro H. apply P in H. left. exact H.
  Qed.

  (* once the dispatch has failed or is gone, a caller is never left waiting *)
  Lemma poll_call_not_pending s i s' :
    poll_call s i = (CPending, s') -> Inv s -> ~ alive s -> False.
  Proof.
    intros H [W Ids AW SE DD] Hna.
    destruct DD as [D|(Rx & Q & F)]; [contradiction|].
    revert H. unfold poll_call. destruct (nth_error (calls s) i) as [c|] eqn:Ec; [|discriminate].
    pose proof (phl_nth _ _ _ Ec) as Hph. pose proof (idl_nth _ _ _ Ec) as Hid.
    destruct (c_phase c) eqn:Ep; try discriminate.
    - cbn [rx_closed set_slot upd_slots with_id upd_calls upd_misc]. rewrite Rx. discriminate.
    - intros _. apply (i_wa _ W) in Hph. rewrite (i_wd _ W Rx) in Hph. exact Hph.
    - rewrite Rx. discriminate.
    - unfold poll_slot. specialize (AW i Hph). unfold cov in AW. rewrite Q, F, Hid in AW.
      destruct AW as [[]|[[]|[[]|AW]]]. rewrite get_slot_slotv.
      destruct (sl_val (slotv (slots s) (c_id c))) eqn:Ev; [discriminate|].
      destruct (sl_tx_gone (slotv (slots s) (c_id c))) eqn:Et; [discriminate|].
      destruct AW as [AW|AW]; congruence.
  Qed.

  (* ---------------------------------------------------------------- ResponseGuard::drop *)
  Lemma set_phase_slot_comm s id i p :
    set_phase (slot_rx_close (slot_tx_drop s id) id) i p =
    slot_rx_close (slot_tx_drop (set_phase s i p) id) id.
  Proof. rewrite !set_phase_alt. reflexivity. Qed.

  Lemma Inv_unwait s i :
    phl (calls s) i = Some PAcquiring -> Inv s ->
    Inv (set_phase (upd_q s (permits s) (queue s) (remove_waiter i (waiters s)) (rx_closed s)) i PClosing).
  Proof.
    intros H0 [[] Ids AW SE DD]. rewrite set_phase_alt. unfold remove_waiter.
    constructor; [constructor|..]; norm_state.
    - intros j. vw. destruct (Nat.eqb i j) eqn:E.
      + rewrite (proj1 (Nat.eqb_eq _ _) E) in H0. rewrite H0. cbn. discriminate.
      + intro H. apply filter_In. split; [apply i_wa0, H|]. rewrite Nat.eqb_sym, E. reflexivity.
    - intros j Hj. apply filter_In in Hj. destruct Hj as [Hj Hn]. vw.
      rewrite Nat.eqb_sym in Hn. destruct (Nat.eqb i j); [discriminate|]. apply i_wb0, Hj.
    - apply NoDup_filter, i_wc0.
    - intro H. rewrite (i_wd0 H). reflexivity.
    - eapply IdInv_phase; [..|exact Ids]; try reflexivity; [exact H0|].
      intros _. apply fresh_for_active; [exact Ids|]. rewrite H0. reflexivity.
    - intros j. vw. destruct (Nat.eqb i j) eqn:E; [|apply AW].
      rewrite (proj1 (Nat.eqb_eq _ _) E) in H0. rewrite H0. cbn. discriminate.
    - exact SE.
    - exact DD.
  Qed.

  Lemma Inv_guard_close s i : Inv s -> Inv (guard_close s i).
  Proof.
    intro I. unfold guard_close. destruct (nth_error (calls s) i) as [c|] eqn:Ec; [|exact I].
    pose proof (phl_nth _ _ _ Ec) as Hph.
    destruct (c_phase c) eqn:Ep; try exact I.
    - apply (InvX_set_phase [] s i PGone PNew); try assumption; discriminate.
    - rewrite set_phase_slot_comm. apply InvX_slot_rx_close, InvX_slot_tx_drop, Inv_unwait; assumption.
    - apply InvX_slot_rx_close, InvX_slot_tx_drop.
      assert (I1 : Inv (set_phase s i PClosing)).
      { apply (InvX_set_phase [] s i PClosing PAssigned); try assumption; try discriminate.
        intros _. apply fresh_for_active; [apply I|]. rewrite Hph. reflexivity. }
      destruct (rx_closed (set_phase s i PClosing)) eqn:Erx.
      + eapply InvX_vframe; [|exact I1]. constructor; try reflexivity. cbn. symmetry; exact Erx.
      + apply InvX_release_permit, I1.
    - assert (I1 : Inv (slot_rx_close (slot_tx_drop s (c_id c)) (c_id c)))
        by apply InvX_slot_rx_close, InvX_slot_tx_drop, I.
      apply (InvX_set_phase [] _ i PClosing PAcqClosed); try assumption; try discriminate.
      intros _. apply fresh_for_active; [apply I1|]. change (actph (phl (calls s) i) = true).
      rewrite Hph. reflexivity.
    - assert (I1 : Inv (slot_rx_close s (c_id c))) by apply InvX_slot_rx_close, I.
      apply (InvX_set_phase [] _ i PClosing PAwaiting); try assumption; try discriminate.
      intros _. apply fresh_for_active; [apply I1|]. change (actph (phl (calls s) i) = true).
      rewrite Hph. reflexivity.
  Qed.

  Lemma Inv_guard_cancel s i : Inv s -> Inv (guard_cancel s i).
  Proof.
    intro I. unfold guard_cancel. destruct (nth_error (calls s) i) as [c|] eqn:Ec; [|exact I].
    pose proof (phl_nth _ _ _ Ec) as Hph. pose proof (idl_nth _ _ _ Ec) as Hid.
    destruct (c_phase c) eqn:Ep; try exact I.
    pose proof (fresh_for_active s i (i_ids _ _ I)) as F. rewrite Hph in F. specialize (F eq_refl).
    apply (InvX_retire [] s i PGone PClosing (c_id c)); try assumption; try discriminate; try reflexivity.
    - rewrite <- Hid. apply F.
    - intros j Hn Hj. rewrite <- Hid. apply F; assumption.
  Qed.

  (* ---------------------------------------------------------------- the dispatch poll *)
  Lemma alive_upd_term s t : alive s -> alive (upd_term s t).
  Proof. exact (fun H => H). Qed.

  Lemma poll_dispatch_spec f s r s' :
    poll_dispatch tp f s = (r, s') -> alive s -> Inv s ->
    Inv s' /\ alive s' /\
    (forall a, r = DReady (DErr a) -> rx_closed s' = true /\ queue s' = [] /\ inflight s' = []).
  Proof.
    unfold poll_dispatch. intros H Hal I. destruct (terminal s) as [a|] eqn:Et.
    - destruct (shut_down s a) as [b s1] eqn:E1.
      pose proof (PFrame_shut_down _ _ _ _ E1) as F1.
      destruct (shut_down_spec _ _ _ _ E1 Et I) as [I1 D1].
      assert (Hal1 : alive s1) by (eapply alive_PFrame; eassumption).
      destruct b; injection H as <- <-; (split; [exact I1|split; [exact Hal1|]]).
      + intros a' _. apply D1. reflexivity.
      + intros a' [=].
    - destruct (run_loop tp f s) as [rr s1] eqn:E1.
      pose proof (run_loop_msteps _ _ _ _ _ E1) as M1.
      pose proof (Inv_msteps _ _ _ M1 Hal I) as I1.
      pose proof (msteps_PFrame _ _ _ M1) as F1.
      assert (Hal1 : alive s1) by (eapply alive_PFrame; eassumption).
      destruct rr as [| a | |]; try (injection H as <- <-; split; [exact I1|split; [exact Hal1|intros a' [=]]]).
      assert (Et1 : terminal s1 = None) by (rewrite (pf_terminal _ _ F1); exact Et).
      destruct (shut_down (upd_term s1 (Some a)) a) as [b s2] eqn:E2.
      pose proof (PFrame_shut_down _ _ _ _ E2) as F2.
      destruct (shut_down_spec _ _ _ _ E2 eq_refl (Inv_upd_term _ a Et1 I1)) as [I2 D2].
      assert (Hal2 : alive s2) by (eapply alive_PFrame; [exact F2|apply alive_upd_term, Hal1]).
      destruct b; injection H as <- <-; (split; [exact I2|split; [exact Hal2|]]).
      + intros a' _. apply D2. reflexivity.
      + intros a' [=].
  Qed.

  (* ---------------------------------------------------------------- every op *)
  Variable fuel_of : cstate -> nat.

  Lemma next_id_guard_close s j : next_id (guard_close s j) = next_id s.
  Proof.
    unfold guard_close. destruct (nth_error (calls s) j) as [c|]; [|reflexivity].
    destruct (c_phase c); try reflexivity; rewrite ?set_phase_alt; try reflexivity.
    destruct (rx_closed _); [reflexivity|].
    unfold slot_rx_close, slot_tx_drop, set_slot. cbn [next_id upd_slots].
    rewrite (pf_nid _ _ (if_p _ _ (IFrame_release_permit _))). reflexivity.
  Qed.
  Lemma next_id_guard_cancel s j : next_id (guard_cancel s j) = next_id s.
  Proof.
    unfold guard_cancel. destruct (nth_error (calls s) j) as [c|]; [|reflexivity].
    destruct (c_phase c); try reflexivity. rewrite set_phase_alt, push_cancel_alt. reflexivity.
  Qed.

  Lemma Inv_step s o s1 l :
    step tp fuel_of s o = (s1, l) -> next_id s + 1 < two64 -> Inv s ->
    Inv s1 /\ next_id s1 <= next_id s + 1.
  Proof.
    destruct o as [h|h|h d tid smp body|i|i|i|i| | |dt|f]; cbn [step].
    - intros [= <- <-] Hw I. destruct (nth_error (handles s) h) as [[|]|]; (split; [|cbn; lia]);
        try exact I. eapply InvX_vframe; [|exact I]. constructor; reflexivity.
    - intros [= <- <-] Hw I. destruct (nth_error (handles s) h) as [[|]|]; (split; [|cbn; lia]);
        try exact I. eapply InvX_vframe; [|exact I]. constructor; reflexivity.
    - intros [= <- <-] Hw [[] Ids AW SE DD]. split; [|cbn; lia].
      set (c := {| c_handle := h |}).
      assert (Hc : c_phase c = PNew \/ c_phase c = PGone).
      { cbn. destruct (nth_error (handles s) h) as [[|]|]; tauto. }
      assert (HA : forall j, actph (phl (calls s ++ [c]) j) = true ->
                   actph (phl (calls s) j) = true /\ idl (calls s ++ [c]) j = idl (calls s) j).
      { intros j. rewrite phl_app, idl_app. destruct (Nat.eqb j (length (calls s))); [|tauto].
        cbn [actph]. destruct Hc as [-> | ->]; discriminate. }
      constructor; [constructor|..]; norm_state; try assumption.
      + intros j. rewrite phl_app. destruct (Nat.eqb j (length (calls s))); [|apply i_wa0].
        destruct Hc as [-> | ->]; discriminate.
      + intros j Hj. rewrite phl_app. pose proof (i_wb0 j Hj) as H. pose proof (phl_Some_lt _ _ _ H).
        destruct (Nat.eqb j (length (calls s))) eqn:E; [apply Nat.eqb_eq in E; lia|exact H].
      + eapply IdInv_sub; [| | |exact Ids]; norm_state; [exact HA|lia|tauto].
      + intros j. rewrite phl_app, idl_app. destruct (Nat.eqb j (length (calls s))); [|apply AW].
        destruct Hc as [-> | ->]; discriminate.
    - destruct (poll_call s i) as [r s'] eqn:E. intros [= <- <-] Hw I. split.
      + eapply Inv_poll_call; eassumption.
      + destruct (next_id_poll_call _ _ _ _ E) as [-> | ->]; [lia|].
        rewrite N.mod_small by exact Hw. lia.
    - intros [= <- <-] Hw I. split.
      + destruct (option_map c_phase (nth_error (calls s) i)) as [[]|]; try exact I;
          apply Inv_guard_cancel, Inv_guard_close, I.
      + destruct (option_map c_phase (nth_error (calls s) i)) as [[]|];
          rewrite ?next_id_guard_cancel, ?next_id_guard_close; lia.
    - intros [= <- <-] Hw I. split.
      + destruct (option_map c_phase (nth_error (calls s) i)) as [[]|]; try exact I;
          apply Inv_guard_close, I.
      + destruct (option_map c_phase (nth_error (calls s) i)) as [[]|];
          rewrite ?next_id_guard_close; lia.
    - intros [= <- <-] Hw I. split; [apply Inv_guard_cancel, I|].
      rewrite next_id_guard_cancel. lia.
    - destruct (finished s) as [d|] eqn:Ef; [intros [= <- <-] Hw I; split; [exact I|lia]|].
      destruct (dropped s) eqn:Ed; [intros [= <- <-] Hw I; split; [exact I|lia]|].
      set (s0 := upd_tr s (tr s) (fused s) []).
      destruct (poll_dispatch tp (fuel_of s0) s0) as [r s1'] eqn:E.
      intros [= <- <-] Hw I.
      assert (I0 : Inv s0) by (eapply InvX_vframe; [|exact I]; constructor; reflexivity).
      assert (Hal0 : alive s0) by (split; cbn; [exact Ed|rewrite Ef; discriminate]).
      destruct (poll_dispatch_spec _ _ _ _ E Hal0 I0) as (I1 & Hal1 & D1).
      assert (N1 : next_id s1' = next_id s0).
      { revert E. unfold poll_dispatch. destruct (terminal s0) as [a|].
        - destruct (shut_down s0 a) as [b sx] eqn:Ex. apply PFrame_shut_down in Ex.
          destruct b; intros [= _ <-]; apply Ex.
        - destruct (run_loop tp (fuel_of s0) s0) as [rr sx] eqn:Ex. apply PFrame_run_loop in Ex.
          destruct rr as [|a| |]; try (intros [= _ <-]; apply Ex).
          destruct (shut_down (upd_term sx (Some a)) a) as [b sy] eqn:Ey. apply PFrame_shut_down in Ey.
          destruct b; intros [= _ <-]; rewrite (pf_nid _ _ Ey); apply Ex. }
      split.
      + match goal with |- InvX _ (upd_tr ?st _ _ _) =>
          apply (InvX_vframe [] st); [constructor; reflexivity|] end.
        destruct r as [d| |]; try exact I1. apply Inv_upd_fin; try assumption.
        intros a ->. apply (D1 a eq_refl).
      + destruct r; cbn [next_id upd_tr upd_fin]; rewrite N1; cbn; lia.
    - intros [= <- <-] Hw I. split; [|destruct (dropped s); [lia|]].
      + destruct (dropped s); [exact I|apply Inv_drop_dispatch, I].
      + unfold drop_dispatch. cbn [next_id upd_fin upd_cancels upd_if upd_q].
        rewrite (pf_nid _ _ (TFrame_P _ _ (TFrame_fold_slot_tx_drop _ _ _))).
        rewrite (pf_nid _ _ (TFrame_P _ _ (TFrame_fold_slot_tx_drop _ _ _))).
        rewrite (pf_nid _ _ (if_p _ _ (IFrame_q_close s))). lia.
    - intros [= <- <-] Hw I. split; [|cbn; lia]. eapply InvX_vframe; [|exact I]. constructor; reflexivity.
    - intros [= <- <-] Hw I. split; [|cbn; lia]. eapply InvX_vframe; [|exact I]. constructor; reflexivity.
  Qed.
End Inv.
