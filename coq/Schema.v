(* Types shared by the hand-written wire model (Wire.v) and the translator's output
   (Generated.v, rewritten by tools/gen from the current /repo sources on every run).
   No proofs, no functions: only the vocabulary in which the serde shape of the protocol
   types and the two io::ErrorKind tables are written down. *)
From Coq Require Import List NArith ZArith String.
Import ListNotations.

Definition bytes := list N.

(* the primitive serde methods that occur at leaves: serialize_u8 / deserialize_u8, ...
   PStr = serialize_str / deserialize_str|string.  POther = anything the model does not cover. *)
Inductive prim := PU8 | PU16 | PU32 | PU64 | PI8 | PI16 | PI32 | PI64 | PStr | POther.

(* The serde shape of a type: what its Serialize impl emits and its Deserialize impl asks for.
   SPrim ser de : the leaf is written with serialize_<ser> and read with deserialize_<de>.
   STuple n e   : serialize_tuple(n) with n elements of shape e (fixed arrays: no length on the wire).
   SNewtype     : serialize_newtype_struct (transparent in bincode and serde_json).
   SStruct      : serialize_struct; every field: name, whether it carries #[serde(default)], shape.
   SEnum        : variants in index order (the u32 variant_index is the position).
   SBad         : the recorder / prober could not reconcile the two sides (never well-formed). *)
Inductive shape :=
| SPrim (ser de : prim)
| STuple (n : nat) (e : shape)
| SNewtype (name : string) (s : shape)
| SStruct (name : string) (fs : fields)
| SEnum (name : string) (vs : variants)
| SBad (why : string)
with fields := FNil | FCons (fname : string) (dflt : bool) (s : shape) (r : fields)
with variants := VNil | VCons (vname : string) (k : vkind) (r : variants)
with vkind := VkUnit | VkNewtype (s : shape) | VkStruct (fs : fields).

(* std::io::ErrorKind: the 18 kinds tarpc's table names, and every other kind *)
Inductive kind :=
| NotFound | PermissionDenied | ConnectionRefused | ConnectionReset | ConnectionAborted
| NotConnected | AddrInUse | AddrNotAvailable | BrokenPipe | AlreadyExists | WouldBlock
| InvalidInput | InvalidData | TimedOut | WriteZero | Interrupted | Other | UnexpectedEof
| Unportable (n : N).
