(* The ARRAY form of structs in the JSON model (Wire.v): serde_json's deserialize_struct accepts a
   struct / struct variant also as the array of its field values by position (derived visit_seq).

     - json_arr_roundtrip_generic: the array form of any conforming tree (json_enc_arr: every struct
       and struct variant written positionally, nothing omitted) decodes to that tree;
     - json_enc_arr_wf: those trees are well-formed, so the text layer applies;
     - json_array_form_{cm,resp} and json_array_form_text_{cm,resp}: whole messages, as trees and
       as text with any whitespace between the tokens;
     - seq_*: what positional decoding does with an array that is too short / too long;
     - array_form_examples: the protocol's own structs, by computation. *)
From Coq Require Import String Ascii.
From Coq Require Import List NArith ZArith Bool Arith Lia.
Import ListNotations.
From TarpcV Require Import Base Schema Wire WireProofs JsonText JsonTextProofs.

(* ------------------------------------------------------------------------------------------ *)
(* the tuple case: the anonymous list fixpoint of json_enc_arr, named *)
Section ArrList.
  Variable e : shape.
  Fixpoint json_enc_arr_list (l : list sval) : option (list jv) :=
    match l with [] => Some [] | x :: r => ocons (json_enc_arr e x) (json_enc_arr_list r) end.
End ArrList.

Lemma json_enc_arr_tuple_eq n e v : json_enc_arr (STuple n e) v =
  match v with
  | VSeq l => if Nat.eqb (length l) n then omap JArr (json_enc_arr_list e l) else None
  | _ => None end.
Proof. reflexivity. Qed.

Lemma json_arr_list_roundtrip e :
  (forall v, conforms false e v -> exists j, json_enc_arr e v = Some j /\ json_dec e j = Some v) ->
  forall l, conforms_list false e l ->
  exists js, json_enc_arr_list e l = Some js /\ json_dec_list e js = Some l /\ length js = length l.
Proof.
  intros IH l. induction l as [|x r IHl]; intros Hc.
  - exists []. repeat split.
  - destruct Hc as [Hx Hr]. destruct (IHl Hr) as (js & E2 & D2 & L2).
    destruct (IH x Hx) as (j & E1 & D1).
    exists (j :: js). cbn [json_enc_arr_list json_dec_list length]. rewrite E1, E2, D1, D2, L2. repeat split.
Qed.

(* ------------------------------------------------------------------------------------------ *)
(* the round trip, by mutual induction on the shape *)
Lemma json_arr_roundtrip_mut :
  (forall s, schema_names_wf s = true -> forall v, conforms false s v ->
     exists j, json_enc_arr s v = Some j /\ json_dec s j = Some v) /\
  (forall fs, fields_wf fs = true -> forall l, conforms_fields false fs l ->
     exists js, json_enc_arr_fields fs l = Some js /\ json_dec_fields_seq fs js = Some l) /\
  (forall vs, variants_wf vs = true -> nodupb (variant_names vs) = true ->
     forall k p, conforms_variant false vs k p ->
     exists j vname pl, json_enc_arr_variant vs k p = Some j /\ jsplit j = Some (sbytes vname, pl) /\
       inb vname (variant_names vs) = true /\
       forall k0, json_dec_variant vs (sbytes vname) k0 pl = Some (VVar (k0 + k) p)) /\
  (forall kd, vkind_wf kd = true -> forall vname p, conforms_vkind false kd p ->
     exists j pl, json_enc_arr_vkind kd vname p = Some j /\ jsplit j = Some (sbytes vname, pl) /\
       json_dec_vkind kd pl = Some p).
Proof.
  apply shape_mutind.
  - (* SPrim *) intros ser de Hwf v Hc. cbn [schema_names_wf] in Hwf.
    apply andb_true_iff in Hwf. destruct Hwf as [He Hn]. apply negb_true_iff in Hn.
    assert (de = ser) as -> by (destruct ser, de; try discriminate; reflexivity).
    cbn [json_enc_arr json_dec conforms] in *.
    destruct v as [z|b| | |]; try contradiction; cbn [prim_conforms] in Hc.
    + exists (JNum z). unfold json_enc_prim, json_dec_prim. rewrite Hc.
      destruct ser; try discriminate; split; reflexivity.
    + destruct Hc as (-> & _). exists (JStr b). split; reflexivity.
  - (* STuple *) intros n e IH Hwf v Hc. cbn [schema_names_wf] in Hwf.
    rewrite conforms_tuple_eq in Hc. destruct v; try contradiction. destruct Hc as [Hl Hc].
    rewrite json_enc_arr_tuple_eq. subst n. rewrite Nat.eqb_refl.
    destruct (json_arr_list_roundtrip e (IH Hwf) l Hc) as (js & E & D & L).
    exists (JArr js). rewrite E. split; [reflexivity|].
    rewrite json_dec_tuple_eq, L, Nat.eqb_refl, D. reflexivity.
  - (* SNewtype *) intros name s IH Hwf v Hc. cbn [schema_names_wf conforms json_enc_arr json_dec] in *. auto.
  - (* SStruct *) intros name fs IH Hwf v Hc. cbn [schema_names_wf conforms json_enc_arr json_dec] in *.
    apply andb_true_iff in Hwf. destruct Hwf as [_ Hwf].
    destruct v; try contradiction.
    destruct (IH Hwf l Hc) as (js & E & D). exists (JArr js). rewrite E. split; [reflexivity|].
    rewrite D. reflexivity.
  - (* SEnum *) intros name vs IH Hwf v Hc. cbn [schema_names_wf conforms json_enc_arr] in *.
    apply andb_true_iff in Hwf. destruct Hwf as [Hnd Hwf].
    destruct v; try contradiction.
    destruct (IH Hwf Hnd idx v Hc) as (j & vname & pl & E & Sp & _ & D).
    exists j. split; [assumption|]. rewrite json_dec_enum_eq, Sp. apply (D 0%nat).
  - (* SBad *) intros why Hwf. discriminate.
  - (* FNil *) intros _ l Hc. destruct l; [|contradiction]. exists []. split; reflexivity.
  - (* FCons *) intros fname d s IHs r IHr Hwf l Hc.
    cbn [fields_wf conforms_fields json_enc_arr_fields json_dec_fields_seq] in *.
    apply andb_true_iff in Hwf. destruct Hwf as [Hwf1 Hwf2].
    destruct l as [|v l]; [contradiction|]. destruct Hc as [[[Hx _]|Hc1] Hc2]; [discriminate|].
    destruct (IHr Hwf2 l Hc2) as (js & E2 & D2).
    destruct (IHs Hwf1 v Hc1) as (j & E1 & D1).
    exists (j :: js). rewrite E1, E2. split; [reflexivity|]. rewrite D1, D2. reflexivity.
  - (* VNil *) intros _ _ k p Hc. contradiction.
  - (* VCons *) intros vn kd IHk r IHr Hwf Hnd k p Hc.
    cbn [variants_wf variant_names nodupb conforms_variant json_enc_arr_variant json_dec_variant] in *.
    apply andb_true_iff in Hwf. destruct Hwf as [Hwf1 Hwf2].
    apply andb_true_iff in Hnd. destruct Hnd as [Hnd1 Hnd2]. apply negb_true_iff in Hnd1.
    destruct k as [|k].
    + destruct (IHk Hwf1 vn p Hc) as (j & pl & E & Sp & D).
      exists j, vn, pl. split; [assumption|]. split; [assumption|]. split.
      * unfold inb. cbn [existsb]. now rewrite String.eqb_refl.
      * intros k0. rewrite sbytes_eqb_refl, D, Nat.add_0_r. reflexivity.
    + destruct (IHr Hwf2 Hnd2 k p Hc) as (j & vname & pl & E & Sp & I & D).
      exists j, vname, pl. split; [assumption|]. split; [assumption|]. split.
      * unfold inb in *. cbn [existsb]. rewrite I. apply orb_true_r.
      * intros k0. rewrite (sbytes_eqb_neq vn vname (existsb_neq vn vname _ Hnd1 I)).
        rewrite D. now rewrite Nat.add_succ_r.
  - (* VkUnit *) intros _ vname p Hc. cbn [conforms_vkind] in Hc. subst p.
    exists (JStr (sbytes vname)), None. repeat split.
  - (* VkNewtype *) intros s IH Hwf vname p Hc.
    cbn [vkind_wf conforms_vkind json_enc_arr_vkind json_dec_vkind] in *.
    destruct (IH Hwf p Hc) as (j & E & D). exists (JObj [(vname, j)]), (Some j). rewrite E. repeat split. assumption.
  - (* VkStruct *) intros fs IH Hwf vname p Hc.
    cbn [vkind_wf conforms_vkind json_enc_arr_vkind json_dec_vkind] in *.
    apply andb_true_iff in Hwf. destruct Hwf as [_ Hwf].
    destruct p; try contradiction.
    destruct (IH Hwf l Hc) as (js & E & D).
    exists (JObj [(vname, JArr js)]), (Some (JArr js)). rewrite E. repeat split.
    rewrite D. reflexivity.
Qed.

Lemma json_arr_roundtrip_names : forall s, schema_names_wf s = true ->
  forall v, conforms false s v ->
  exists j, json_enc_arr s v = Some j /\ json_dec s j = Some v.
Proof. exact (proj1 json_arr_roundtrip_mut). Qed.

(* the array form of any conforming value tree (no omitted members) decodes to that tree *)
Theorem json_arr_roundtrip_generic : forall s, schema_wf s = true ->
  forall v, conforms false s v ->
  exists j, json_enc_arr s v = Some j /\ json_dec s j = Some v.
Proof.
  intros s H v Hc. apply schema_wf_split in H. destruct H as [H1 _].
  exact (json_arr_roundtrip_names s H1 v Hc).
Qed.

(* ------------------------------------------------------------------------------------------ *)
(* trees of the array form are well-formed *)
Lemma json_enc_arr_list_wf e :
  (forall v j, conforms false e v -> json_enc_arr e v = Some j -> json_wf j = true) ->
  forall l js, conforms_list false e l -> json_enc_arr_list e l = Some js -> wf_list js = true.
Proof.
  intros IH. induction l as [|x r IHl]; intros js Hc E.
  - cbn in E. injection E as <-. reflexivity.
  - destruct Hc as [Hx Hr]. cbn [json_enc_arr_list] in E.
    destruct (json_enc_arr e x) as [j|] eqn:E1; [|discriminate].
    destruct (json_enc_arr_list e r) as [js'|] eqn:E2; [|discriminate].
    cbn [ocons] in E. injection E as <-. cbn [wf_list].
    rewrite (IH _ _ Hx E1), (IHl _ Hr eq_refl). reflexivity.
Qed.

Lemma json_enc_arr_wf_mut :
  (forall s v j, conforms false s v -> json_enc_arr s v = Some j -> json_wf j = true) /\
  (forall fs l js, conforms_fields false fs l -> json_enc_arr_fields fs l = Some js -> wf_list js = true) /\
  (forall vs k p j, conforms_variant false vs k p -> json_enc_arr_variant vs k p = Some j -> json_wf j = true) /\
  (forall kd vname p j, conforms_vkind false kd p -> json_enc_arr_vkind kd vname p = Some j -> json_wf j = true).
Proof.
  apply shape_mutind.
  - (* SPrim *) intros ser de v j Hc E. cbn [conforms json_enc_arr] in *.
    destruct v as [z|b| | |]; cbn [prim_conforms] in Hc; try contradiction; unfold json_enc_prim in E.
    + destruct ser; try discriminate; destruct (in_range _ z); try discriminate; injection E as <-; reflexivity.
    + destruct Hc as (-> & Hok & _). injection E as <-. exact Hok.
  - (* STuple *) intros n e IH v j Hc E. rewrite conforms_tuple_eq in Hc. rewrite json_enc_arr_tuple_eq in E.
    destruct v; try contradiction. destruct Hc as [Hl Hc].
    destruct (Nat.eqb (length l) n); [|discriminate].
    destruct (json_enc_arr_list e l) as [js|] eqn:EL; [|discriminate].
    cbn [omap] in E. injection E as <-. rewrite wf_arr. exact (json_enc_arr_list_wf e IH l js Hc EL).
  - (* SNewtype *) intros name s IH v j Hc E. cbn [conforms json_enc_arr] in *. eauto.
  - (* SStruct *) intros name fs IH v j Hc E. cbn [conforms json_enc_arr] in *.
    destruct v; try contradiction.
    destruct (json_enc_arr_fields fs l) as [js|] eqn:EF; [|discriminate].
    cbn [omap] in E. injection E as <-. rewrite wf_arr. eauto.
  - (* SEnum *) intros name vs IH v j Hc E. cbn [conforms json_enc_arr] in *.
    destruct v; try contradiction. eauto.
  - (* SBad *) intros why v j Hc. contradiction.
  - (* FNil *) intros l js Hc E. destruct l; [|contradiction]. cbn in E. injection E as <-. reflexivity.
  - (* FCons *) intros fname d s IHs r IHr l js Hc E.
    cbn [conforms_fields json_enc_arr_fields] in *.
    destruct l as [|v l]; [contradiction|]. destruct Hc as [[[Hx _]|Hc1] Hc2]; [discriminate|].
    destruct (json_enc_arr s v) as [j|] eqn:E1; [|discriminate].
    destruct (json_enc_arr_fields r l) as [js'|] eqn:E2; [|discriminate].
    cbn [ocons] in E. injection E as <-. cbn [wf_list].
    rewrite (IHs _ _ Hc1 E1), (IHr _ _ Hc2 E2). reflexivity.
  - (* VNil *) intros k p j Hc. contradiction.
  - (* VCons *) intros vn kd IHk r IHr k p j Hc E.
    cbn [conforms_variant json_enc_arr_variant] in *. destruct k; eauto.
  - (* VkUnit *) intros vname p j Hc E. cbn [conforms_vkind json_enc_arr_vkind] in *. subst p.
    injection E as <-. exact (sbytes_ok vname).
  - (* VkNewtype *) intros s IH vname p j Hc E. cbn [conforms_vkind json_enc_arr_vkind] in *.
    destruct (json_enc_arr s p) as [j0|] eqn:E1; [|discriminate].
    cbn [omap] in E. injection E as <-. rewrite wf_obj. cbn [wf_members].
    rewrite (IH _ _ Hc E1). reflexivity.
  - (* VkStruct *) intros fs IH vname p j Hc E. cbn [conforms_vkind json_enc_arr_vkind] in *.
    destruct p; try contradiction.
    destruct (json_enc_arr_fields fs l) as [js|] eqn:E1; [|discriminate].
    cbn [omap] in E. injection E as <-. rewrite wf_obj. cbn [wf_members]. rewrite wf_arr.
    rewrite (IH _ _ Hc E1). reflexivity.
Qed.

(* trees of the array form are well-formed (strings are byte lists) *)
Lemma json_enc_arr_wf : forall s v j, conforms false s v -> json_enc_arr s v = Some j -> json_wf j = true.
Proof. exact (proj1 json_enc_arr_wf_mut). Qed.

(* ------------------------------------------------------------------------------------------ *)
(* whole messages: every struct and struct variant written positionally *)
Theorem json_array_form_cm : forall m, cm_wf m -> explicit m ->
  exists j, cm_json_arr m = Some j /\ cm_of_json j = Some m.
Proof.
  intros m Hwf He. destruct (cm_conforms m Hwf) as [_ Hc].
  destruct (json_arr_roundtrip_generic _ (proj1 shapes_schema_wf) _ (Hc He)) as (j & E & D).
  exists j. split; [exact E|]. unfold cm_of_json. rewrite D. cbn [obind]. now apply cm_of_val_to_val.
Qed.

Theorem json_array_form_resp : forall r, resp_wf r ->
  exists j, resp_json_arr r = Some j /\ resp_of_json j = Some (degrade_resp r).
Proof.
  intros r Hwf.
  destruct (json_arr_roundtrip_generic _ (proj2 shapes_schema_wf) _ (resp_conforms r Hwf)) as (j & E & D).
  exists j. split; [exact E|]. unfold resp_of_json. rewrite D. cbn [obind]. now apply resp_of_val_to_val.
Qed.

Lemma cm_json_arr_wf m j : cm_wf m -> explicit m -> cm_json_arr m = Some j -> json_wf j = true.
Proof. intros Hwf He E. exact (json_enc_arr_wf _ _ _ (proj2 (cm_conforms m Hwf) He) E). Qed.
Lemma resp_json_arr_wf r j : resp_wf r -> resp_json_arr r = Some j -> json_wf j = true.
Proof. intros Hwf E. exact (json_enc_arr_wf _ _ _ (resp_conforms r Hwf) E). Qed.

(* ... and as TEXT, with any whitespace between the tokens *)
Theorem json_array_form_text_cm : forall sp m, all_ws sp = true -> cm_wf m -> explicit m ->
  exists j, cm_json_arr m = Some j /\ cm_of_json_text (json_text_sp sp j) = Some m.
Proof.
  intros sp m Hsp Hwf He. destruct (json_array_form_cm m Hwf He) as (j & E & D).
  exists j. split; [exact E|]. unfold cm_of_json_text.
  rewrite (json_text_roundtrip_ws sp j Hsp (cm_json_arr_wf m j Hwf He E)). exact D.
Qed.

Theorem json_array_form_text_resp : forall sp r, all_ws sp = true -> resp_wf r ->
  exists j, resp_json_arr r = Some j /\ resp_of_json_text (json_text_sp sp j) = Some (degrade_resp r).
Proof.
  intros sp r Hsp Hwf. destruct (json_array_form_resp r Hwf) as (j & E & D).
  exists j. split; [exact E|]. unfold resp_of_json_text.
  rewrite (json_text_roundtrip_ws sp j Hsp (resp_json_arr_wf r j Hwf E)). exact D.
Qed.

(* ------------------------------------------------------------------------------------------ *)
(* positional decoding of a field list: what happens when the array is too short / too long *)
Lemma seq_trailing_defaults : forall fs, all_dflt fs = true ->
  json_dec_fields_seq fs [] = Some (repeat VDefault (fields_len fs)).
Proof.
  induction fs as [|name d s r IH]; intros H; cbn [all_dflt json_dec_fields_seq fields_len repeat] in *.
  - reflexivity.
  - apply andb_true_iff in H. destruct H as [-> H]. rewrite (IH H). reflexivity.
Qed.

Lemma seq_too_short : forall fs, all_dflt fs = false -> json_dec_fields_seq fs [] = None.
Proof.
  induction fs as [|name d s r IH]; intros H; cbn [all_dflt json_dec_fields_seq] in *.
  - discriminate.
  - destruct d; [|reflexivity]. cbn [andb] in H. rewrite (IH H). reflexivity.
Qed.

Lemma seq_too_long : forall j l, json_dec_fields_seq FNil (j :: l) = None.
Proof. reflexivity. Qed.

Lemma seq_accepts_length : forall fs, length (seq_accepts fs) = S (fields_len fs).
Proof.
  induction fs as [|name d s r IH]; cbn [seq_accepts fields_len length]; [reflexivity|].
  now rewrite IH.
Qed.

(* ------------------------------------------------------------------------------------------ *)
(* the protocol's own structs, by computation: the two inputs of the audit finding, a too-short
   and a too-long Cancel, and mixed object / array forms *)
Lemma array_form_examples :
  let z16 := JArr (repeat (JNum 0) 16) in
  let tc := JArr [z16; JNum 1; JStr (sbytes "Sampled")] in
  let t := {| t_trace := 0; t_span := 1; t_sampled := true |} in
  cm_of_json (JObj [("Cancel"%string, JArr [tc; JNum 7])]) = Some (CCancel t 7) /\
  cm_of_json (JObj [("Cancel"%string, JArr [tc])]) = None /\
  cm_of_json (JObj [("Cancel"%string, JArr [tc; JNum 7; JNull])]) = None /\
  cm_of_json (JObj [("Cancel"%string, JArr [])]) = None /\
  cm_of_json (JObj [("Request"%string,
      JArr [JArr [JArr [JNum 18446744073709551615; JNum 0]; tc]; JNum 1; JStr (sbytes "x")])])
    = Some (CRequest {| r_ctx := {| c_deadline := DlExplicit 18446744073709551615 0; c_trace := t |};
                        r_id := 1; r_body := sbytes "x" |}) /\
  cm_of_json (JObj [("Request"%string,
      JArr [JObj [("trace_context"%string, tc)]; JNum 1; JStr (sbytes "x")])])
    = Some (CRequest {| r_ctx := {| c_deadline := DlOmitted; c_trace := t |}; r_id := 1; r_body := sbytes "x" |}) /\
  cm_of_json (JObj [("Request"%string, JArr [JArr [tc]; JNum 1; JStr (sbytes "x")])]) = None /\
  resp_of_json (JArr [JNum 3; JObj [("Err"%string, JArr [JNum 10; JStr (sbytes "busy")])]])
    = Some {| resp_id := 3; resp_msg := RErr {| e_kind := WouldBlock; e_detail := sbytes "busy" |} |}.
Proof. intros z16 tc t. repeat split; vm_compute; reflexivity. Qed.
