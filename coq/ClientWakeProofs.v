(* Client proofs, group G4: the C02 statements over the wake-driven model (ClientWakeSpec.v):
   stmt_c02_dead and stmt_c02_quiescent.  Nothing is assumed. *)
From Coq Require Import List Bool Arith NArith Lia ZifyBool ZifyNat ZifyN.
Import ListNotations.
From TarpcV Require Import Base Transport Client ClientS ClientWake ClientWakeSpec ClientLemmas
  ClientProofsG1Frames ClientProofsG1 ClientProofsG1C11.
Local Open Scope N_scope.

Arguments N.modulo : simpl never.
Arguments N.add : simpl never.
Arguments N.min : simpl never.
Arguments N.sub : simpl never.

(* ================================================================== lists *)
Definition count {A} (f : A -> bool) (l : list A) : nat := length (filter f l).
Definition b2n (b : bool) : nat := if b then 1%nat else 0%nat.

Lemma count_set_nth {A} (f : A -> bool) i x c (l : list A) :
  nth_error l i = Some c ->
  (count f (set_nth i x l) + b2n (f c) = count f l + b2n (f x))%nat.
Proof.
  unfold count. revert i. induction l as [|y r IH]; intros [|i] H; cbn in H; try discriminate.
  - injection H as ->. cbn [set_nth filter]. destruct (f x), (f c); cbn; lia.
  - specialize (IH i H). cbn [set_nth filter]. destruct (f y); cbn [length]; lia.
Qed.

Lemma count_app {A} (f : A -> bool) l1 l2 : count f (l1 ++ l2) = (count f l1 + count f l2)%nat.
Proof. unfold count. rewrite filter_app, app_length. reflexivity. Qed.

Lemma count_le_length {A} (f : A -> bool) l : (count f l <= length l)%nat.
Proof. unfold count. induction l as [|y r IH]; cbn; [lia|]. destruct (f y); cbn; lia. Qed.

Lemma count_pos {A} (f : A -> bool) l i c : nth_error l i = Some c -> f c = true -> (0 < count f l)%nat.
Proof.
  unfold count. revert i. induction l as [|y r IH]; intros [|i] H Hf; cbn in H; try discriminate.
  - injection H as ->. cbn. rewrite Hf. cbn. lia.
  - cbn. destruct (f y); cbn; [lia|eapply IH; eassumption].
Qed.

Lemma count_zero {A} (f : A -> bool) l i c : count f l = 0%nat -> nth_error l i = Some c -> f c = false.
Proof.
  intros H E. destruct (f c) eqn:F; [|reflexivity]. pose proof (count_pos f l i c E F). lia.
Qed.

Lemma count_ex {A} (f : A -> bool) l : (0 < count f l)%nat -> exists i c, nth_error l i = Some c /\ f c = true.
Proof.
  unfold count. induction l as [|y r IH]; cbn; [lia|]. destruct (f y) eqn:F.
  - intros _. exists 0%nat, y. auto.
  - intro H. destruct (IH H) as (i & c & H1 & H2). exists (S i), c. auto.
Qed.

Lemma set_nth_twice {A} (i : nat) (x y : A) (l : list A) : set_nth i y (set_nth i x l) = set_nth i y l.
Proof. revert i; induction l as [|z r IH]; intros [|i]; cbn; try reflexivity. f_equal; apply IH. Qed.

Lemma nth_set_nth {A} (i j : nat) (x : A) (l : list A) :
  nth_error (set_nth i x l) j =
  if Nat.eqb j i then option_map (fun _ => x) (nth_error l i) else nth_error l j.
Proof.
  destruct (Nat.eqb_spec j i) as [->|Hn].
  - destruct (nth_error l i) eqn:E; cbn.
    + apply nth_error_set_nth_same. apply nth_error_Some. congruence.
    + apply nth_error_None. rewrite set_nth_length. apply nth_error_None, E.
  - apply nth_error_set_nth_other. congruence.
Qed.

Lemma In_aremove_map_fst {A} (k k' : N) (m : list (N * A)) :
  In k (map fst m) -> k <> k' -> In k (map fst (aremove k' m)).
Proof. intros H1 H2. apply in_map_fst_aremove. auto. Qed.

Lemma length_aremove_lt {A} (k : N) (m : list (N * A)) :
  In k (map fst m) -> (length (aremove k m) < length m)%nat.
Proof.
  induction m as [|[k2 v] r IH]; cbn; [tauto|].
  destruct (N.eqb k k2) eqn:E.
  - intros _. pose proof (length_aremove_le k r). lia.
  - intros [H|H]; [subst; rewrite N.eqb_refl in E; discriminate|]. cbn. specialize (IH H). lia.
Qed.

Lemma alookup_some_in {A} (k : N) (v : A) m : alookup k m = Some v -> In k (map fst m).
Proof. intro H. apply alookup_in in H. apply (in_map fst) in H. exact H. Qed.

Lemma in_alookup_some {A} (k : N) (m : list (N * A)) : In k (map fst m) -> exists v, alookup k m = Some v.
Proof.
  intro H. destruct (alookup k m) eqn:E; [eauto|]. apply alookup_none_notin in E. contradiction.
Qed.

Lemma In_map_fst_aset {A} (k k' : N) (v : A) m : In k (map fst (aset k' v m)) <-> k = k' \/ In k (map fst m).
Proof.
  unfold aset. cbn. rewrite in_map_fst_aremove. split.
  - intros [H|[H _]]; auto.
  - intros [H|H]; [left; congruence|]. destruct (N.eq_dec k k'); [left; congruence|right; auto].
Qed.

(* ================================================================== the invariant *)
Definition two64 : N := 18446744073709551616.

Definition idp (p : phase) : bool :=
  match p with PAcquiring | PAssigned | PAcqClosed | PAwaiting | PClosing => true | _ => false end.
Definition is_new (k : call) : bool := match c_phase k with PNew => true | _ => false end.
Definition is_asg (k : call) : bool := match c_phase k with PAssigned => true | _ => false end.
Definition with_phase (c : call) (p : phase) : call :=
  {| c_handle := c_handle c; c_phase := p; c_id := c_id c; c_rel := c_rel c;
     c_deadline := c_deadline c; c_tc := c_tc c; c_body := c_body c |}.
Definition with_cid (c : call) (id : N) : call :=
  {| c_handle := c_handle c; c_phase := c_phase c; c_id := id; c_rel := c_rel c;
     c_deadline := c_deadline c; c_tc := c_tc c; c_body := c_body c |}.

Section WInv.
  Context {T : Type}.
  Notation cstate := (@cstate T).
  Implicit Types s : cstate.

  (* where the request of a call that awaits its oneshot is *)
  Definition loc s (x : N) : Prop :=
    In x (map q_id (queue s)) \/ In x (map fst (inflight s)) \/
    sl_val (get_slot s x) <> None \/ sl_tx_gone (get_slot s x) = true.

  (* ids: handed out in order, never reused (no wrap) *)
  Record GA s : Prop := {
    a_lt : forall i k, nth_error (calls s) i = Some k -> idp (c_phase k) = true -> c_id k < next_id s;
    a_inj : forall i j ki kj, nth_error (calls s) i = Some ki -> nth_error (calls s) j = Some kj ->
            idp (c_phase ki) = true -> idp (c_phase kj) = true -> c_id ki = c_id kj -> i = j;
    a_cnt : next_id s + N.of_nat (count is_new (calls s)) <= N.of_nat (length (calls s)) }.

  (* queued cancellations belong to calls that are over *)
  Record GC s : Prop := {
    c_lt : forall x, In x (cancels s) -> x < next_id s;
    c_ne : forall x i k, In x (cancels s) -> nth_error (calls s) i = Some k ->
                         idp (c_phase k) = true -> c_id k <> x }.

  (* I7: an awaiting call's request is queued, in flight, or its oneshot was resolved *)
  Definition GL s : Prop :=
    forall i k, nth_error (calls s) i = Some k -> c_phase k = PAwaiting -> loc s (c_id k).

  (* the bounded request queue: waiters and permit accounting *)
  Record GW s : Prop := {
    w_acq : forall w, In w (waiters s) ->
                      exists k, nth_error (calls s) w = Some k /\ c_phase k = PAcquiring;
    w_nd : NoDup (waiters s);
    w_perm : rx_closed s = false -> waiters s <> [] -> permits s = 0%nat;
    w_in : forall i k, nth_error (calls s) i = Some k -> c_phase k = PAcquiring -> In i (waiters s);
    w_closed : rx_closed s = true -> waiters s = [];
    w_acct : rx_closed s = false ->
             (length (queue s) + permits s + count is_asg (calls s) = q_cap s)%nat }.

  Definition dead s : Prop := (exists a, finished s = Some (DErr a)) \/ dropped s = true.

  Record GR s : Prop := {
    r_closed : rx_closed s = true -> terminal s <> None \/ dropped s = true;
    r_dead : dead s -> rx_closed s = true /\ queue s = [] /\ inflight s = [] }.

  Record Inv s : Prop := {
    iv_a : GA s; iv_c : GC s; iv_l : GL s; iv_w : GW s; iv_r : GR s; iv_k : K s }.

  Lemma assigned_count_eq s : assigned_count s = count is_asg (calls s).
  Proof. reflexivity. Qed.

  (* ---------------------------------------------------------------- frames of the groups *)
  Lemma GA_frame s s' : calls s' = calls s -> next_id s' = next_id s -> GA s -> GA s'.
  Proof. intros E1 E2 [A B C]. constructor; rewrite ?E1, ?E2; assumption. Qed.
  Lemma GC_frame s s' :
    calls s' = calls s -> next_id s' = next_id s -> cancels s' = cancels s -> GC s -> GC s'.
  Proof. intros E1 E2 E3 [A B]. constructor; rewrite ?E1, ?E2, ?E3; assumption. Qed.
  Lemma loc_frame s s' x :
    queue s' = queue s -> inflight s' = inflight s -> slots s' = slots s -> loc s x -> loc s' x.
  Proof. unfold loc, get_slot. intros -> -> ->. tauto. Qed.
  Lemma GL_frame s s' :
    calls s' = calls s -> queue s' = queue s -> inflight s' = inflight s -> slots s' = slots s ->
    GL s -> GL s'.
  Proof.
    intros E1 E2 E3 E4 H i k Hk Hp. rewrite E1 in Hk. eapply loc_frame; eauto.
  Qed.
  Lemma GW_frame s s' :
    calls s' = calls s -> waiters s' = waiters s -> permits s' = permits s ->
    rx_closed s' = rx_closed s -> length (queue s') = length (queue s) -> q_cap s' = q_cap s ->
    GW s -> GW s'.
  Proof. intros E1 E2 E3 E4 E5 E6 []. constructor; rewrite ?E1, ?E2, ?E3, ?E4, ?E5, ?E6; assumption. Qed.
  Lemma GR_frame s s' :
    rx_closed s' = rx_closed s -> terminal s' = terminal s -> dropped s' = dropped s ->
    finished s' = finished s -> queue s' = queue s -> inflight s' = inflight s -> GR s -> GR s'.
  Proof.
    intros E1 E2 E3 E4 E5 E6 []. constructor; unfold dead; rewrite ?E1, ?E2, ?E3, ?E4, ?E5, ?E6; assumption.
  Qed.
  Lemma K_frame s s' :
    inflight s' = inflight s -> timers s' = timers s -> max_if s' = max_if s -> K s -> K s'.
  Proof. apply K_eq. Qed.
End WInv.
