(* Client proofs, group G4: the C02 statements over the wake-driven model (ClientWakeSpec.v):
   stmt_c02_dead and stmt_c02_quiescent.  Nothing is assumed. *)
From Coq Require Import List Bool Arith NArith Lia ZifyBool ZifyNat ZifyN.
Import ListNotations.
From TarpcV Require Import Base Transport Client ClientS ClientWake ClientWakeSpec ClientLemmas
  ClientProofsG1Frames ClientProofsG1 ClientProofsG1C11 ClientProofsG1Fuel.
Local Open Scope N_scope.

Arguments N.modulo : simpl never.
Arguments N.add : simpl never.
Arguments N.min : simpl never.
Arguments N.sub : simpl never.

(* ================================================================== lists *)
Definition count {A} (f : A -> bool) (l : list A) : nat := length (filter f l).
Definition b2n (b : bool) : nat := if b then 1%nat else 0%nat.

Lemma count_set_nth {A} (f : A -> bool) i x c (l : list A) :
  nth_error l i = Some c ->
  (count f (set_nth i x l) + b2n (f c) = count f l + b2n (f x))%nat.
Proof.
  unfold count. revert i. induction l as [|y r IH]; intros [|i] H; cbn in H; try discriminate.
  - injection H as ->. cbn [set_nth filter]. destruct (f x), (f c); cbn; lia.
  - specialize (IH i H). cbn [set_nth filter]. destruct (f y); cbn [length]; lia.
Qed.

Lemma count_app {A} (f : A -> bool) l1 l2 : count f (l1 ++ l2) = (count f l1 + count f l2)%nat.
Proof. unfold count. rewrite filter_app, app_length. reflexivity. Qed.

Lemma count_le_length {A} (f : A -> bool) l : (count f l <= length l)%nat.
Proof. unfold count. induction l as [|y r IH]; cbn; [lia|]. destruct (f y); cbn; lia. Qed.

Lemma count_pos {A} (f : A -> bool) l i c : nth_error l i = Some c -> f c = true -> (0 < count f l)%nat.
Proof.
  unfold count. revert i. induction l as [|y r IH]; intros [|i] H Hf; cbn in H; try discriminate.
  - injection H as ->. cbn. rewrite Hf. cbn. lia.
  - cbn. destruct (f y); cbn; [lia|eapply IH; eassumption].
Qed.

Lemma count_zero {A} (f : A -> bool) l i c : count f l = 0%nat -> nth_error l i = Some c -> f c = false.
Proof.
  intros H E. destruct (f c) eqn:F; [|reflexivity]. pose proof (count_pos f l i c E F). lia.
Qed.

Lemma count_ex {A} (f : A -> bool) l : (0 < count f l)%nat -> exists i c, nth_error l i = Some c /\ f c = true.
Proof.
  unfold count. induction l as [|y r IH]; cbn; [lia|]. destruct (f y) eqn:F.
  - intros _. exists 0%nat, y. auto.
  - intro H. destruct (IH H) as (i & c & H1 & H2). exists (S i), c. auto.
Qed.

Lemma set_nth_twice {A} (i : nat) (x y : A) (l : list A) : set_nth i y (set_nth i x l) = set_nth i y l.
Proof. revert i; induction l as [|z r IH]; intros [|i]; cbn; try reflexivity. f_equal; apply IH. Qed.

Lemma nth_set_nth {A} (i j : nat) (x : A) (l : list A) :
  nth_error (set_nth i x l) j =
  if Nat.eqb j i then option_map (fun _ => x) (nth_error l i) else nth_error l j.
Proof.
  destruct (Nat.eqb_spec j i) as [->|Hn].
  - destruct (nth_error l i) eqn:E; cbn.
    + apply nth_error_set_nth_same. apply nth_error_Some. congruence.
    + apply nth_error_None. rewrite set_nth_length. apply nth_error_None, E.
  - apply nth_error_set_nth_other. congruence.
Qed.

Lemma In_aremove_map_fst {A} (k k' : N) (m : list (N * A)) :
  In k (map fst m) -> k <> k' -> In k (map fst (aremove k' m)).
Proof. intros H1 H2. apply in_map_fst_aremove. auto. Qed.

Lemma length_aremove_lt {A} (k : N) (m : list (N * A)) :
  In k (map fst m) -> (length (aremove k m) < length m)%nat.
Proof.
  induction m as [|[k2 v] r IH]; cbn; [tauto|].
  destruct (N.eqb k k2) eqn:E.
  - intros _. pose proof (length_aremove_le k r). lia.
  - intros [H|H]; [subst; rewrite N.eqb_refl in E; discriminate|]. cbn. specialize (IH H). lia.
Qed.

Lemma alookup_some_in {A} (k : N) (v : A) m : alookup k m = Some v -> In k (map fst m).
Proof. intro H. apply alookup_in in H. apply (in_map fst) in H. exact H. Qed.

Lemma in_alookup_some {A} (k : N) (m : list (N * A)) : In k (map fst m) -> exists v, alookup k m = Some v.
Proof.
  intro H. destruct (alookup k m) eqn:E; [eauto|]. apply alookup_none_notin in E. contradiction.
Qed.

Lemma In_map_fst_aset {A} (k k' : N) (v : A) m : In k (map fst (aset k' v m)) <-> k = k' \/ In k (map fst m).
Proof.
  unfold aset. cbn. rewrite in_map_fst_aremove. split.
  - intros [H|[H _]]; auto.
  - intros [H|H]; [left; congruence|]. destruct (N.eq_dec k k'); [left; congruence|right; auto].
Qed.

(* ================================================================== the invariant *)
Definition two64 : N := 18446744073709551616.

Definition idp (p : phase) : bool :=
  match p with PAcquiring | PAssigned | PAcqClosed | PAwaiting | PClosing => true | _ => false end.
Definition is_new (k : call) : bool := match c_phase k with PNew => true | _ => false end.
Definition is_asg (k : call) : bool := match c_phase k with PAssigned => true | _ => false end.
Definition with_phase (c : call) (p : phase) : call :=
  {| c_handle := c_handle c; c_phase := p; c_id := c_id c; c_rel := c_rel c;
     c_deadline := c_deadline c; c_tc := c_tc c; c_body := c_body c |}.
Definition with_cid (c : call) (id : N) : call :=
  {| c_handle := c_handle c; c_phase := c_phase c; c_id := id; c_rel := c_rel c;
     c_deadline := c_deadline c; c_tc := c_tc c; c_body := c_body c |}.

Section WInv.
  Context {T : Type}.
  Notation cstate := (@cstate T).
  Implicit Types s : cstate.

  (* where the request of a call that awaits its oneshot is *)
  Definition loc s (x : N) : Prop :=
    In x (map q_id (queue s)) \/ In x (map fst (inflight s)) \/
    sl_val (get_slot s x) <> None \/ sl_tx_gone (get_slot s x) = true.

  (* ids: handed out in order, never reused (no wrap) *)
  Record GAd (d : nat) s : Prop := {
    a_lt : forall i k, nth_error (calls s) i = Some k -> idp (c_phase k) = true -> c_id k < next_id s;
    a_inj : forall i j ki kj, nth_error (calls s) i = Some ki -> nth_error (calls s) j = Some kj ->
            idp (c_phase ki) = true -> idp (c_phase kj) = true -> c_id ki = c_id kj -> i = j;
    a_cnt : next_id s + N.of_nat (count is_new (calls s)) <= N.of_nat (length (calls s)) + N.of_nat d }.
  Notation GA := (GAd 0).

  (* queued cancellations belong to calls that are over *)
  Record GC s : Prop := {
    c_lt : forall x, In x (cancels s) -> x < next_id s;
    c_ne : forall x i k, In x (cancels s) -> nth_error (calls s) i = Some k ->
                         idp (c_phase k) = true -> c_id k <> x }.

  (* I7: an awaiting call's request is queued, in flight, or its oneshot was resolved *)
  Definition GL s : Prop :=
    forall i k, nth_error (calls s) i = Some k -> c_phase k = PAwaiting -> loc s (c_id k).

  (* the bounded request queue: waiters and permit accounting *)
  Record GW (d : nat) s : Prop := {
    w_acq : forall w, In w (waiters s) ->
                      exists k, nth_error (calls s) w = Some k /\ c_phase k = PAcquiring;
    w_nd : NoDup (waiters s);
    w_perm : rx_closed s = false -> waiters s <> [] -> permits s = 0%nat;
    w_in : forall i k, nth_error (calls s) i = Some k -> c_phase k = PAcquiring -> In i (waiters s);
    w_closed : rx_closed s = true -> waiters s = [];
    w_acct : rx_closed s = false ->
             (length (queue s) + permits s + count is_asg (calls s) + d = q_cap s)%nat }.

  Definition dead s : Prop := (exists a, finished s = Some (DErr a)) \/ dropped s = true.

  Record GR s : Prop := {
    r_closed : rx_closed s = true -> terminal s <> None \/ dropped s = true;
    r_dead : dead s -> rx_closed s = true /\ queue s = [] /\ inflight s = [] }.

  (* everything but the location invariant and the two tables *)
  Record IX s : Prop := { ix_a : GA s; ix_c : GC s; ix_w : GW 0 s }.
  Record Inv s : Prop := { iv_x : IX s; iv_l : GL s; iv_r : GR s; iv_k : K s }.

  Lemma assigned_count_eq s : assigned_count s = count is_asg (calls s).
  Proof. reflexivity. Qed.

  (* ---------------------------------------------------------------- frames of the groups *)
  Lemma GA_frame {d} s s' : calls s' = calls s -> next_id s' = next_id s -> GAd d s -> GAd d s'.
  Proof. intros E1 E2 [A B C]. constructor; rewrite ?E1, ?E2; assumption. Qed.
  Lemma GC_frame s s' :
    calls s' = calls s -> next_id s' = next_id s -> cancels s' = cancels s -> GC s -> GC s'.
  Proof. intros E1 E2 E3 [A B]. constructor; rewrite ?E1, ?E2, ?E3; assumption. Qed.
  Lemma loc_frame s s' x :
    queue s' = queue s -> inflight s' = inflight s -> slots s' = slots s -> loc s x -> loc s' x.
  Proof. unfold loc, get_slot. intros -> -> ->. tauto. Qed.
  Lemma GL_frame s s' :
    calls s' = calls s -> queue s' = queue s -> inflight s' = inflight s -> slots s' = slots s ->
    GL s -> GL s'.
  Proof.
    intros E1 E2 E3 E4 H i k Hk Hp. rewrite E1 in Hk. eapply loc_frame; eauto.
  Qed.
  Lemma GW_frame d s s' :
    calls s' = calls s -> waiters s' = waiters s -> permits s' = permits s ->
    rx_closed s' = rx_closed s -> length (queue s') = length (queue s) -> q_cap s' = q_cap s ->
    GW d s -> GW d s'.
  Proof. intros E1 E2 E3 E4 E5 E6 []. constructor; rewrite ?E1, ?E2, ?E3, ?E4, ?E5, ?E6; assumption. Qed.
  Lemma GR_frame s s' :
    rx_closed s' = rx_closed s -> terminal s' = terminal s -> dropped s' = dropped s ->
    finished s' = finished s -> queue s' = queue s -> inflight s' = inflight s -> GR s -> GR s'.
  Proof.
    intros E1 E2 E3 E4 E5 E6 []. constructor; unfold dead; rewrite ?E1, ?E2, ?E3, ?E4, ?E5, ?E6; assumption.
  Qed.
  Lemma K_frame s s' :
    inflight s' = inflight s -> timers s' = timers s -> max_if s' = max_if s -> K s -> K s'.
  Proof. apply K_eq. Qed.

  (* ---------------------------------------------------------------- set_phase *)
  Ltac sp := unfold set_phase; destruct (nth_error _ _); reflexivity.
  Lemma sp_next_id s i p : next_id (set_phase s i p) = next_id s. Proof. sp. Qed.
  Lemma sp_handles s i p : handles (set_phase s i p) = handles s. Proof. sp. Qed.
  Lemma sp_q_cap s i p : q_cap (set_phase s i p) = q_cap s. Proof. sp. Qed.
  Lemma sp_permits s i p : permits (set_phase s i p) = permits s. Proof. sp. Qed.
  Lemma sp_queue s i p : queue (set_phase s i p) = queue s. Proof. sp. Qed.
  Lemma sp_waiters s i p : waiters (set_phase s i p) = waiters s. Proof. sp. Qed.
  Lemma sp_rx_closed s i p : rx_closed (set_phase s i p) = rx_closed s. Proof. sp. Qed.
  Lemma sp_cancels s i p : cancels (set_phase s i p) = cancels s. Proof. sp. Qed.
  Lemma sp_inflight s i p : inflight (set_phase s i p) = inflight s. Proof. sp. Qed.
  Lemma sp_timers s i p : timers (set_phase s i p) = timers s. Proof. sp. Qed.
  Lemma sp_slots s i p : slots (set_phase s i p) = slots s. Proof. sp. Qed.
  Lemma sp_max_if s i p : max_if (set_phase s i p) = max_if s. Proof. sp. Qed.
  Lemma sp_tr s i p : tr (set_phase s i p) = tr s. Proof. sp. Qed.
  Lemma sp_fused s i p : fused (set_phase s i p) = fused s. Proof. sp. Qed.
  Lemma sp_terminal s i p : terminal (set_phase s i p) = terminal s. Proof. sp. Qed.
  Lemma sp_finished s i p : finished (set_phase s i p) = finished s. Proof. sp. Qed.
  Lemma sp_dropped s i p : dropped (set_phase s i p) = dropped s. Proof. sp. Qed.
  Lemma sp_now s i p : now (set_phase s i p) = now s. Proof. sp. Qed.
  Lemma sp_plog s i p : plog (set_phase s i p) = plog s. Proof. sp. Qed.

  Lemma sp_calls s i p :
    calls (set_phase s i p) =
    match nth_error (calls s) i with Some k => set_nth i (with_phase k p) (calls s) | None => calls s end.
  Proof. unfold set_phase. destruct (nth_error _ _); reflexivity. Qed.

  Lemma sp_length s i p : length (calls (set_phase s i p)) = length (calls s).
  Proof. rewrite sp_calls. destruct (nth_error _ _); [apply set_nth_length|reflexivity]. Qed.

  Lemma nth_set_phase s i p j :
    nth_error (calls (set_phase s i p)) j =
    if Nat.eqb j i then option_map (fun k => with_phase k p) (nth_error (calls s) i)
    else nth_error (calls s) j.
  Proof.
    rewrite sp_calls. destruct (nth_error (calls s) i) as [k|] eqn:E.
    - rewrite nth_set_nth, E. reflexivity.
    - destruct (Nat.eqb_spec j i) as [->|]; [rewrite E|]; reflexivity.
  Qed.

  Lemma nth_set_phase_inv s i p j k' :
    nth_error (calls (set_phase s i p)) j = Some k' ->
    exists k, nth_error (calls s) j = Some k /\ c_id k' = c_id k /\
      ((j <> i /\ k' = k) \/ (j = i /\ c_phase k' = p)).
  Proof.
    rewrite nth_set_phase. destruct (Nat.eqb_spec j i) as [->|Hn].
    - destruct (nth_error (calls s) i) as [k|]; cbn; [|discriminate].
      intros [= <-]. exists k. cbn. auto.
    - intro H. exists k'. auto.
  Qed.

  Lemma count_set_phase f s i p k :
    nth_error (calls s) i = Some k ->
    (count f (calls (set_phase s i p)) + b2n (f k) = count f (calls s) + b2n (f (with_phase k p)))%nat.
  Proof. intro E. rewrite sp_calls, E. apply count_set_nth, E. Qed.

  Lemma set_phase_none s i p : nth_error (calls s) i = None -> set_phase s i p = s.
  Proof. intro E. unfold set_phase. rewrite E. reflexivity. Qed.

  Lemma GA_set_phase {d} s i p :
    GAd d s -> p <> PNew ->
    (forall k, nth_error (calls s) i = Some k -> idp p = true -> idp (c_phase k) = true) ->
    GAd d (set_phase s i p).
  Proof.
    intros [A B C] Hp Hk. constructor.
    - intros j k' Hj Hi. rewrite sp_next_id.
      destruct (nth_set_phase_inv _ _ _ _ _ Hj) as (k & E & Eid & [[Hn ->]|[-> Hph]]).
      + eapply A; eassumption.
      + rewrite Eid. eapply A; [exact E|]. apply Hk; [exact E|]. rewrite <- Hph. exact Hi.
    - intros j1 j2 k1 k2 H1 H2 I1 I2 Eid.
      destruct (nth_set_phase_inv _ _ _ _ _ H1) as (k1' & E1 & Eid1 & D1).
      destruct (nth_set_phase_inv _ _ _ _ _ H2) as (k2' & E2 & Eid2 & D2).
      apply (B j1 j2 k1' k2' E1 E2); [| |congruence].
      + destruct D1 as [[_ ->]|[-> Hph]]; [exact I1|]. apply Hk; [exact E1|]. rewrite <- Hph; exact I1.
      + destruct D2 as [[_ ->]|[-> Hph]]; [exact I2|]. apply Hk; [exact E2|]. rewrite <- Hph; exact I2.
    - rewrite sp_next_id, sp_length.
      destruct (nth_error (calls s) i) as [k|] eqn:E; [|rewrite (set_phase_none _ _ _ E); exact C].
      pose proof (count_set_phase is_new s i p k E) as H.
      assert (X : is_new (with_phase k p) = false) by (unfold is_new; cbn; destruct p; congruence).
      rewrite X in H. cbn [b2n] in H. lia.
  Qed.

  Lemma GC_set_phase s i p :
    GC s -> (forall k, nth_error (calls s) i = Some k -> idp p = true -> idp (c_phase k) = true) ->
    GC (set_phase s i p).
  Proof.
    intros [A B] Hk. constructor; rewrite ?sp_cancels, ?sp_next_id; [exact A|].
    intros x j k' Hx Hj Hi.
    destruct (nth_set_phase_inv _ _ _ _ _ Hj) as (k & E & Eid & [[Hn ->]|[-> Hph]]).
    - eapply B; eassumption.
    - rewrite Eid. eapply B; [exact Hx|exact E|]. apply Hk; [exact E|]. rewrite <- Hph; exact Hi.
  Qed.

  Lemma loc_set_phase s i p x : loc (set_phase s i p) x <-> loc s x.
  Proof. unfold loc, get_slot. rewrite sp_queue, sp_inflight, sp_slots. tauto. Qed.

  Lemma GL_set_phase s i p :
    GL s -> (p = PAwaiting -> forall k, nth_error (calls s) i = Some k -> loc s (c_id k)) ->
    GL (set_phase s i p).
  Proof.
    intros H Hp j k' Hj Hph. apply loc_set_phase.
    destruct (nth_set_phase_inv _ _ _ _ _ Hj) as (k & E & Eid & [[Hn ->]|[-> Hph']]).
    - eapply H; eassumption.
    - rewrite Eid. eapply Hp; [congruence|exact E].
  Qed.

  Lemma GW_set_phase d s i p :
    GW d s ->
    (forall k, nth_error (calls s) i = Some k -> c_phase k <> PAcquiring /\ c_phase k <> PAssigned) ->
    p <> PAcquiring -> p <> PAssigned -> GW d (set_phase s i p).
  Proof.
    intros [A B C D E F] Hk P1 P2.
    destruct (nth_error (calls s) i) as [k0|] eqn:E0;
      [|rewrite (set_phase_none _ _ _ E0); constructor; assumption].
    destruct (Hk _ eq_refl) as [K1 K2].
    constructor; rewrite ?sp_waiters, ?sp_rx_closed, ?sp_permits, ?sp_queue, ?sp_q_cap; try assumption.
    - intros w Hw. destruct (A w Hw) as (k & Ek & Ep). exists k. split; [|exact Ep].
      rewrite nth_set_phase. destruct (Nat.eqb_spec w i) as [->|]; [congruence|exact Ek].
    - intros j k' Hj Hph.
      destruct (nth_set_phase_inv _ _ _ _ _ Hj) as (k & Ek & _ & [[Hn ->]|[-> Hph']]); [|congruence].
      eapply D; eassumption.
    - intro Hc. rewrite <- (F Hc).
      pose proof (count_set_phase is_asg s i p k0 E0) as H.
      assert (X1 : is_asg k0 = false) by (unfold is_asg; destruct (c_phase k0); congruence).
      assert (X2 : is_asg (with_phase k0 p) = false) by (unfold is_asg; cbn; destruct p; congruence).
      rewrite X1, X2 in H. cbn [b2n] in H. lia.
  Qed.

  Lemma GR_set_phase s i p : GR s -> GR (set_phase s i p).
  Proof.
    apply GR_frame; [apply sp_rx_closed|apply sp_terminal|apply sp_dropped|apply sp_finished
                    |apply sp_queue|apply sp_inflight].
  Qed.
  Lemma K_set_phase s i p : K s -> K (set_phase s i p).
  Proof. apply K_frame; [apply sp_inflight|apply sp_timers|apply sp_max_if]. Qed.

  (* ---------------------------------------------------------------- oneshot slots *)
  Lemma get_set_slot s id x id' :
    get_slot (set_slot s id x) id' = if N.eqb id' id then x else get_slot s id'.
  Proof.
    unfold get_slot, set_slot. cbn [slots upd_slots]. rewrite alookup_aset.
    destruct (N.eqb id' id); reflexivity.
  Qed.

  Lemma loc_set_slot s id x y :
    (sl_val (get_slot s id) <> None -> sl_val x <> None) ->
    (sl_tx_gone (get_slot s id) = true -> sl_tx_gone x = true) ->
    loc s y -> loc (set_slot s id x) y.
  Proof.
    intros H1 H2. unfold loc. rewrite get_set_slot. cbn [queue inflight set_slot upd_slots].
    destruct (N.eqb_spec y id) as [->|]; tauto.
  Qed.
  Lemma loc_slot_send s id o y : loc s y -> loc (slot_send s id o) y.
  Proof.
    unfold slot_send. destruct (sl_rx_closed _); apply loc_set_slot; cbn; congruence.
  Qed.
  Lemma loc_slot_tx_drop s id y : loc s y -> loc (slot_tx_drop s id) y.
  Proof. apply loc_set_slot; cbn; congruence. Qed.
  Lemma loc_slot_rx_close s id y : loc s y -> loc (slot_rx_close s id) y.
  Proof. apply loc_set_slot; cbn; congruence. Qed.
  Lemma loc_slot_send_same s id o : loc (slot_send s id o) id.
  Proof.
    unfold loc, slot_send. right; right; right.
    destruct (sl_rx_closed _); rewrite get_set_slot, N.eqb_refl; reflexivity.
  Qed.
  Lemma loc_slot_tx_drop_same s id : loc (slot_tx_drop s id) id.
  Proof. unfold loc, slot_tx_drop. right; right; right. rewrite get_set_slot, N.eqb_refl. reflexivity. Qed.

  Lemma GL_mono s s' : calls s' = calls s -> (forall x, loc s x -> loc s' x) -> GL s -> GL s'.
  Proof. intros E H G i k Hk Hp. rewrite E in Hk. apply H. eapply G; eassumption. Qed.

  (* ---------------------------------------------------------------- slots only *)
  Lemma IX_upd_slots s v : IX s -> IX (upd_slots s v).
  Proof.
    intros [A C W]. constructor.
    - eapply GA_frame; [| |exact A]; reflexivity.
    - eapply GC_frame; [| | |exact C]; reflexivity.
    - eapply GW_frame; [| | | | | |exact W]; reflexivity.
  Qed.
  Lemma IX_slot_send s id o : IX s -> IX (slot_send s id o).
  Proof. unfold slot_send. destruct (sl_rx_closed _); apply IX_upd_slots. Qed.
  Lemma IX_slot_tx_drop s id : IX s -> IX (slot_tx_drop s id).
  Proof. apply IX_upd_slots. Qed.
  Lemma IX_slot_rx_close s id : IX s -> IX (slot_rx_close s id).
  Proof. apply IX_upd_slots. Qed.
  Lemma calls_slot_send s id o : calls (slot_send s id o) = calls s.
  Proof. apply (tf_calls _ _ (TFrame_slot_send s id o)). Qed.
  Lemma GL_slot_send s id o : GL s -> GL (slot_send s id o).
  Proof. apply GL_mono; [apply calls_slot_send|intro; apply loc_slot_send]. Qed.
  Lemma GL_slot_tx_drop s id : GL s -> GL (slot_tx_drop s id).
  Proof. apply GL_mono; [reflexivity|intro; apply loc_slot_tx_drop]. Qed.
  Lemma GL_slot_rx_close s id : GL s -> GL (slot_rx_close s id).
  Proof. apply GL_mono; [reflexivity|intro; apply loc_slot_rx_close]. Qed.

  (* the location invariant with one request id in transit (dequeued, not yet stored) *)
  Definition GLx s (x : N) : Prop :=
    forall i k, nth_error (calls s) i = Some k -> c_phase k = PAwaiting -> c_id k = x \/ loc s (c_id k).
  Lemma GL_GLx s x : GL s -> GLx s x.
  Proof. intros H i k Hk Hp. right. eapply H; eassumption. Qed.
  Lemma GLx_fix s s' x :
    calls s' = calls s -> (forall y, loc s y -> loc s' y) -> loc s' x -> GLx s x -> GL s'.
  Proof.
    intros E H Hx G i k Hk Hp. rewrite E in Hk. destruct (G i k Hk Hp) as [->|L]; [exact Hx|apply H, L].
  Qed.

  (* ---------------------------------------------------------------- release_permit *)
  Ltac rp := unfold release_permit; destruct (waiters _); [reflexivity|];
             unfold set_phase; destruct (nth_error _ _); reflexivity.
  Lemma rp_next_id s : next_id (release_permit s) = next_id s. Proof. rp. Qed.
  Lemma rp_q_cap s : q_cap (release_permit s) = q_cap s. Proof. rp. Qed.
  Lemma rp_queue s : queue (release_permit s) = queue s. Proof. rp. Qed.
  Lemma rp_rx_closed s : rx_closed (release_permit s) = rx_closed s. Proof. rp. Qed.
  Lemma rp_cancels s : cancels (release_permit s) = cancels s. Proof. rp. Qed.
  Lemma rp_inflight s : inflight (release_permit s) = inflight s. Proof. rp. Qed.
  Lemma rp_timers s : timers (release_permit s) = timers s. Proof. rp. Qed.
  Lemma rp_slots s : slots (release_permit s) = slots s. Proof. rp. Qed.
  Lemma rp_terminal s : terminal (release_permit s) = terminal s. Proof. rp. Qed.
  Lemma rp_finished s : finished (release_permit s) = finished s. Proof. rp. Qed.
  Lemma rp_dropped s : dropped (release_permit s) = dropped s. Proof. rp. Qed.

  Lemma GW_release_permit s : GW 1 s -> GW 0 (release_permit s).
  Proof.
    intros [A B C D E F]. unfold release_permit. destruct (waiters s) as [|w r] eqn:Ew.
    - constructor; cbn [waiters permits queue rx_closed calls q_cap upd_q].
      + intros w [].
      + constructor.
      + congruence.
      + intros i k Hk Hp. exact (D i k Hk Hp).
      + reflexivity.
      + intro Hc. specialize (F Hc). lia.
    - destruct (A w (or_introl eq_refl)) as (k & Ek & Ep).
      inversion B as [|? ? Hn Hd]; subst.
      set (s1 := upd_q s (permits s) (queue s) r (rx_closed s)).
      assert (Ek1 : nth_error (calls s1) w = Some k) by exact Ek.
      constructor; rewrite ?sp_waiters, ?sp_rx_closed, ?sp_permits, ?sp_queue, ?sp_q_cap;
        cbn [waiters permits queue rx_closed q_cap upd_q s1].
      + intros w' Hw'. destruct (A w' (or_intror Hw')) as (k' & Ek' & Ep'). exists k'. split; [|exact Ep'].
        rewrite nth_set_phase. destruct (Nat.eqb_spec w' w) as [->|]; [contradiction|exact Ek'].
      + exact Hd.
      + intros Hc _. apply C; [exact Hc|discriminate].
      + intros j k' Hj Hph.
        destruct (nth_set_phase_inv _ _ _ _ _ Hj) as (k0 & Ek0 & _ & [[Hne ->]|[-> Hph']]); [|congruence].
        destruct (D j k0 Ek0 Hph) as [->|Hin]; [congruence|exact Hin].
      + intro Hc. specialize (E Hc). discriminate.
      + intro Hc. specialize (F Hc).
        pose proof (count_set_phase is_asg s1 w PAssigned k Ek1) as H.
        assert (X1 : is_asg k = false) by (unfold is_asg; rewrite Ep; reflexivity).
        rewrite X1 in H. cbn [b2n is_asg with_phase c_phase] in H. cbn [calls upd_q s1] in H. lia.
  Qed.

  Lemma release_permit_phase s d :
    GW d s -> release_permit s = match waiters s with
                                 | w :: r => set_phase (upd_q s (permits s) (queue s) r (rx_closed s)) w PAssigned
                                 | [] => upd_q s (S (permits s)) (queue s) [] (rx_closed s) end.
  Proof. reflexivity. Qed.

  Lemma GA_release_permit d s : GW d s -> GA s -> GA (release_permit s).
  Proof.
    intros W G. unfold release_permit. destruct (waiters s) as [|w r] eqn:Ew.
    - eapply GA_frame; [| |exact G]; reflexivity.
    - destruct (w_acq _ _ W w) as (k & Ek & Ep); [rewrite Ew; left; reflexivity|].
      apply GA_set_phase; [eapply GA_frame; [| |exact G]; reflexivity|discriminate|].
      cbn [calls upd_q]. intros k' Ek' _. rewrite Ek in Ek'. injection Ek' as <-. rewrite Ep. reflexivity.
  Qed.
  Lemma GC_release_permit d s : GW d s -> GC s -> GC (release_permit s).
  Proof.
    intros W G. unfold release_permit. destruct (waiters s) as [|w r] eqn:Ew.
    - eapply GC_frame; [| | |exact G]; reflexivity.
    - destruct (w_acq _ _ W w) as (k & Ek & Ep); [rewrite Ew; left; reflexivity|].
      apply GC_set_phase; [eapply GC_frame; [| | |exact G]; reflexivity|].
      cbn [calls upd_q]. intros k' Ek' _. rewrite Ek in Ek'. injection Ek' as <-. rewrite Ep. reflexivity.
  Qed.
  Lemma loc_release_permit s x : loc (release_permit s) x <-> loc s x.
  Proof. unfold loc, get_slot. rewrite rp_queue, rp_inflight, rp_slots. tauto. Qed.
  Lemma GLx_release_permit s x : GLx s x -> GLx (release_permit s) x.
  Proof.
    intros G i k Hk Hp. rewrite loc_release_permit. revert Hk. unfold release_permit.
    destruct (waiters s) as [|w r]; [intro Hk; apply (G i k Hk Hp)|].
    intro Hk. destruct (nth_set_phase_inv _ _ _ _ _ Hk) as (k0 & Ek0 & Eid & [[Hne ->]|[-> Hph']]).
    - apply (G i k0 Ek0 Hp).
    - congruence.
  Qed.
  Lemma GL_release_permit s : GL s -> GL (release_permit s).
  Proof.
    intros G i k Hk Hp. rewrite loc_release_permit. revert Hk. unfold release_permit.
    destruct (waiters s) as [|w r]; [intro Hk; eapply G; eassumption|].
    intro Hk. destruct (nth_set_phase_inv _ _ _ _ _ Hk) as (k0 & Ek0 & Eid & [[Hne ->]|[-> Hph']]).
    - apply (G i k0 Ek0 Hp).
    - congruence.
  Qed.

  (* ---------------------------------------------------------------- q_poll_recv *)
  Lemma q_poll_recv_some s q s' :
    q_poll_recv s = (RvSome q, s') ->
    exists rest, queue s = q :: rest /\
      s' = release_permit (upd_q s (permits s) rest (waiters s) (rx_closed s)).
  Proof.
    unfold q_poll_recv. destruct (queue s) as [|x rest].
    - destruct (Nat.eqb _ _); [discriminate|]. destruct (_ && _); discriminate.
    - intros [= <- <-]. eauto.
  Qed.
  Lemma q_poll_recv_other s r s' :
    q_poll_recv s = (r, s') -> (forall q, r <> RvSome q) -> s' = s /\ queue s = [].
  Proof.
    unfold q_poll_recv. destruct (queue s) as [|x rest].
    - destruct (Nat.eqb _ _); [intros [= <- <-]; auto|]. destruct (_ && _); intros [= <- <-]; auto.
    - intros [= <- <-] H. exfalso. eapply H; reflexivity.
  Qed.

  Lemma IX_q_poll_recv s r s' : q_poll_recv s = (r, s') -> IX s -> IX s'.
  Proof.
    intros H [A C W]. destruct r as [q| |];
      try (destruct (q_poll_recv_other _ _ _ H) as [-> _]; [discriminate|constructor; assumption]).
    destruct (q_poll_recv_some _ _ _ H) as (rest & Eq & ->).
    set (s1 := upd_q s (permits s) rest (waiters s) (rx_closed s)).
    assert (W1 : GW 1 s1).
    { destruct W as [W1 W2 W3 W4 W5 W6]. constructor; try assumption.
      cbn [s1 rx_closed queue permits calls q_cap upd_q]. intro Hc. specialize (W6 Hc).
      rewrite Eq in W6. cbn [length] in W6. lia. }
    constructor.
    - eapply GA_release_permit; [exact W1|]. eapply GA_frame; [| |exact A]; reflexivity.
    - eapply GC_release_permit; [exact W1|]. eapply GC_frame; [| | |exact C]; reflexivity.
    - apply GW_release_permit, W1.
  Qed.

  Lemma GL_q_poll_recv s r s' :
    q_poll_recv s = (r, s') -> GL s -> match r with RvSome q => GLx s' (q_id q) | _ => GL s' end.
  Proof.
    intros H G. destruct r as [q| |];
      try (destruct (q_poll_recv_other _ _ _ H) as [-> _]; [discriminate|exact G]).
    destruct (q_poll_recv_some _ _ _ H) as (rest & Eq & ->).
    apply GLx_release_permit. intros i k Hk Hp. cbn [calls upd_q] in Hk.
    destruct (G i k Hk Hp) as [L|L]; unfold loc; cbn [queue inflight upd_q].
    - rewrite Eq in L. cbn [map In] in L. destruct L as [L|L]; [left; congruence|right; left; exact L].
    - right. right. exact L.
  Qed.

  (* ---------------------------------------------------------------- the dispatch side *)
  Lemma IX_TFrame s s' : TFrame s s' -> IX s -> IX s'.
  Proof.
    intros F [A C W]. pose proof (TFrame_P _ _ F) as P. constructor.
    - eapply GA_frame; [apply F|apply P|exact A].
    - eapply GC_frame; [apply F|apply P|apply F|exact C].
    - eapply GW_frame; [apply F|apply F|apply F|apply F|rewrite (tf_queue _ _ F); reflexivity|apply P|exact W].
  Qed.
  Lemma IX_XFrame s s' : XFrame s s' -> IX s -> IX s'.
  Proof.
    intros F [A C W]. pose proof (XFrame_P _ _ F) as P. constructor.
    - eapply GA_frame; [apply F|apply P|exact A].
    - eapply GC_frame; [apply F|apply P|apply F|exact C].
    - eapply GW_frame; [apply F|apply F|apply F|apply F|rewrite (xf_queue _ _ F); reflexivity|apply P|exact W].
  Qed.
  Lemma GL_XFrame s s' : XFrame s s' -> GL s -> GL s'.
  Proof. intro F. apply GL_frame; apply F. Qed.

  Lemma rxc_q_poll_recv s r s' : q_poll_recv s = (r, s') -> rx_closed s' = rx_closed s.
  Proof.
    intro H. destruct r as [q| |];
      try (destruct (q_poll_recv_other _ _ _ H) as [-> _]; [discriminate|reflexivity]).
    destruct (q_poll_recv_some _ _ _ H) as (rest & Eq & ->). rewrite rp_rx_closed. reflexivity.
  Qed.

  Lemma next_request_loop_spec f : forall s r s',
    next_request_loop f s = (r, s') -> IX s -> GL s ->
    IX s' /\ rx_closed s' = rx_closed s /\
    match r with PSome q => GLx s' (q_id q) | _ => GL s' end.
  Proof.
    induction f as [|f IH]; intros s r s' H X G; cbn [next_request_loop] in H.
    - injection H as <- <-. auto.
    - destruct (q_poll_recv s) as [x s1] eqn:E.
      pose proof (IX_q_poll_recv _ _ _ E X) as X1.
      pose proof (GL_q_poll_recv _ _ _ E G) as G1.
      pose proof (rxc_q_poll_recv _ _ _ E) as R1.
      destruct x as [q| |]; try (injection H as <- <-; auto).
      destruct (sl_rx_closed _).
      + apply IH in H; [|apply IX_slot_tx_drop, X1|].
        * destruct H as (A & B & C). split; [exact A|]. split; [|exact C]. rewrite B. exact R1.
        * eapply GLx_fix; [| |apply loc_slot_tx_drop_same|exact G1];
            [reflexivity|intro; apply loc_slot_tx_drop].
      + injection H as <- <-. auto.
  Qed.

  Lemma GL_insert_request s q : GLx s (q_id q) -> GL (insert_request s q).
  Proof.
    apply GLx_fix; [reflexivity| |].
    - intros y [L|[L|L]]; unfold loc; cbn [queue inflight insert_request upd_if].
      + left; exact L.
      + right; left. apply In_map_fst_aset. right; exact L.
      + right; right; exact L.
    - unfold loc. right; left. cbn [inflight insert_request upd_if]. apply In_map_fst_aset. left; reflexivity.
  Qed.

  Lemma loc_remove s id t y : loc s y -> y <> id -> loc (upd_if s (aremove id (inflight s)) t) y.
  Proof.
    intros [L|[L|L]] Hn; unfold loc; cbn [queue inflight upd_if].
    - left; exact L.
    - right; left. apply In_aremove_map_fst; assumption.
    - right; right; exact L.
  Qed.
  Lemma loc_remove_send s id t o y :
    loc s y -> loc (slot_send (upd_if s (aremove id (inflight s)) t) id o) y.
  Proof.
    intro L. destruct (N.eq_dec y id) as [->|Hn]; [apply loc_slot_send_same|].
    apply loc_slot_send, loc_remove; assumption.
  Qed.

  Lemma GL_complete_request s id o : GL s -> GL (snd (complete_request s id o)).
  Proof.
    intro G. unfold complete_request. destruct (alookup id (inflight s)); cbn [snd]; [|exact G].
    eapply GL_mono; [|intro y; apply loc_remove_send|exact G]. rewrite calls_slot_send. reflexivity.
  Qed.

  Lemma GL_cancel_request s id :
    GL s -> (forall i k, nth_error (calls s) i = Some k -> c_phase k = PAwaiting -> c_id k <> id) ->
    GL (snd (cancel_request s id)).
  Proof.
    intros G Hn. unfold cancel_request. destruct (alookup id (inflight s)) as [e|]; cbn [snd]; [|exact G].
    intros i k Hk Hp. cbn [calls upd_if] in Hk. apply loc_remove; [eapply G; eassumption|eapply Hn; eassumption].
  Qed.

  Lemma c_poll_recv_some s id s' :
    c_poll_recv s = (RvSome id, s') -> exists rest, cancels s = id :: rest /\ s' = upd_cancels s rest.
  Proof.
    unfold c_poll_recv. destruct (cancels s) as [|x rest]; [destruct (Nat.eqb _ _); discriminate|].
    intros [= <- <-]. eauto.
  Qed.
  Lemma c_poll_recv_other s r s' : c_poll_recv s = (r, s') -> (forall x, r <> RvSome x) -> s' = s.
  Proof.
    unfold c_poll_recv. destruct (cancels s) as [|x rest].
    - destruct (Nat.eqb _ _); intros [= <- <-]; reflexivity.
    - intros [= <- <-] H. exfalso. eapply H; reflexivity.
  Qed.

  Lemma IX_upd_cancels_tail s id rest : cancels s = id :: rest -> IX s -> IX (upd_cancels s rest).
  Proof.
    intros E [A [C1 C2] W]. constructor.
    - eapply GA_frame; [| |exact A]; reflexivity.
    - constructor; cbn [cancels next_id calls upd_cancels].
      + intros x Hx. apply C1. rewrite E. right; exact Hx.
      + intros x i k Hx. apply C2. rewrite E. right; exact Hx.
    - eapply GW_frame; [| | | | | |exact W]; reflexivity.
  Qed.

  Lemma next_cancel_loop_spec f : forall s r s',
    next_cancel_loop f s = (r, s') -> IX s -> GL s -> IX s' /\ GL s'.
  Proof.
    induction f as [|f IH]; intros s r s' H X G; cbn [next_cancel_loop] in H.
    - injection H as <- <-. auto.
    - destruct (c_poll_recv s) as [x s1] eqn:E.
      destruct x as [id| |];
        try (apply c_poll_recv_other in E; [|discriminate]; subst s1; injection H as <- <-; auto).
      destruct (c_poll_recv_some _ _ _ E) as (rest & Ec & ->).
      pose proof (IX_upd_cancels_tail _ _ _ Ec X) as X1.
      assert (Hn : forall i k, nth_error (calls s) i = Some k -> c_phase k = PAwaiting -> c_id k <> id).
      { intros i k Hk Hp. eapply (c_ne _ (ix_c _ X)); [rewrite Ec; left; reflexivity|exact Hk|].
        rewrite Hp. reflexivity. }
      pose proof (TFrame_cancel_request (upd_cancels s rest) id) as F.
      pose proof (GL_cancel_request (upd_cancels s rest) id G Hn) as G2.
      destruct (cancel_request (upd_cancels s rest) id) as [e s2]. cbn [snd] in F, G2.
      pose proof (IX_TFrame _ _ F X1) as X2.
      destruct e; [injection H as <- <-; auto|]. eapply IH; eassumption.
  Qed.

  Lemma GL_poll_expired s : GL s -> GL (snd (poll_expired s)).
  Proof.
    intro G. unfold poll_expired. destruct (min_timer (timers s) None) as [[id w]|]; [|exact G].
    destruct (N.leb w (now s)); [|exact G]. cbn [inflight timers upd_if].
    destruct (alookup id (inflight s)); cbn [snd].
    - eapply GL_mono; [|intro y; apply (loc_remove_send s id (aremove id (timers s)) ODeadline y)|exact G].
      rewrite calls_slot_send. reflexivity.
    - eapply GL_frame; [| | | |exact G]; reflexivity.
  Qed.

  Lemma GL_complete_all s o : GL s -> GL (complete_all s o).
  Proof.
    intro G. unfold complete_all.
    assert (H : forall (l : list (N * ifentry)) s0 y,
               loc s0 y \/ In y (map fst l) ->
               loc (fold_left (fun acc p => slot_send acc (fst p) o) l s0) y).
    { induction l as [|[id e] r IH]; intros s0 y Hy; cbn [fold_left fst].
      - destruct Hy as [Hy|[]]; exact Hy.
      - apply IH. cbn [map fst In] in Hy. destruct Hy as [Hy|[<-|Hy]]; auto.
        + left. apply loc_slot_send, Hy.
        + left. apply loc_slot_send_same. }
    eapply GL_mono; [| |exact G].
    - rewrite (tf_calls _ _ (TFrame_fold_slot_send fst o (inflight s) (upd_if s [] []))). reflexivity.
    - intros y [L|[L|L]]; apply H.
      + left. left. exact L.
      + right. exact L.
      + left. right. right. exact L.
  Qed.

  (* ---------------------------------------------------------------- q_close *)
  Notation foldp p l s := (fold_left (fun acc w => set_phase acc w p) l s).

  Lemma fold_sp_field {A} (g : cstate -> A) (Hg : forall s i p, g (set_phase s i p) = g s) p l :
    forall s, g (foldp p l s) = g s.
  Proof. induction l as [|w r IH]; intro s; cbn [fold_left]; [reflexivity|]. rewrite IH. apply Hg. Qed.

  Lemma fold_sp_nth p l : forall s j k',
    nth_error (calls (foldp p l s)) j = Some k' ->
    exists k, nth_error (calls s) j = Some k /\ c_id k' = c_id k /\
      ((~ In j l /\ k' = k) \/ (In j l /\ c_phase k' = p)).
  Proof.
    induction l as [|w r IH]; intros s j k' H; cbn [fold_left] in H.
    - exists k'. split; [exact H|]. split; [reflexivity|]. left. split; [intros []|reflexivity].
    - destruct (IH _ _ _ H) as (k1 & E1 & Eid1 & D1).
      destruct (nth_set_phase_inv _ _ _ _ _ E1) as (k & E & Eid & D).
      exists k. split; [exact E|]. split; [congruence|].
      destruct D1 as [[Hn ->]|[Hin Hp]].
      + destruct D as [[Hne ->]|[-> Hp]].
        * left. split; [|reflexivity]. intros [X|X]; [congruence|contradiction].
        * right. split; [left; reflexivity|exact Hp].
      + right. split; [right; exact Hin|exact Hp].
  Qed.

  Lemma fold_sp_length p l : forall s, length (calls (foldp p l s)) = length (calls s).
  Proof. induction l as [|w r IH]; intro s; cbn [fold_left]; [reflexivity|]. rewrite IH. apply sp_length. Qed.

  Lemma GA_fold_closed l : forall s,
    GA s -> (forall w, In w l -> exists k, nth_error (calls s) w = Some k /\ idp (c_phase k) = true) ->
    GA (foldp PAcqClosed l s).
  Proof.
    induction l as [|w r IH]; intros s G H; cbn [fold_left]; [exact G|].
    apply IH.
    - apply GA_set_phase; [exact G|discriminate|]. intros k Ek _.
      destruct (H w (or_introl eq_refl)) as (k0 & Ek0 & Hi). congruence.
    - intros w' Hw'. destruct (H w' (or_intror Hw')) as (k0 & Ek0 & Hi).
      rewrite nth_set_phase. destruct (Nat.eqb_spec w' w) as [->|].
      + rewrite Ek0. cbn. eexists; split; [reflexivity|reflexivity].
      + eauto.
  Qed.
  Lemma GC_fold_closed l : forall s,
    GC s -> (forall w, In w l -> exists k, nth_error (calls s) w = Some k /\ idp (c_phase k) = true) ->
    GC (foldp PAcqClosed l s).
  Proof.
    induction l as [|w r IH]; intros s G H; cbn [fold_left]; [exact G|].
    apply IH.
    - apply GC_set_phase; [exact G|]. intros k Ek _.
      destruct (H w (or_introl eq_refl)) as (k0 & Ek0 & Hi). congruence.
    - intros w' Hw'. destruct (H w' (or_intror Hw')) as (k0 & Ek0 & Hi).
      rewrite nth_set_phase. destruct (Nat.eqb_spec w' w) as [->|].
      + rewrite Ek0. cbn. eexists; split; [reflexivity|reflexivity].
      + eauto.
  Qed.
  Lemma GL_fold_closed l : forall s, GL s -> GL (foldp PAcqClosed l s).
  Proof.
    induction l as [|w r IH]; intros s G; cbn [fold_left]; [exact G|].
    apply IH, GL_set_phase; [exact G|discriminate].
  Qed.

  Lemma q_close_closed s : rx_closed (q_close s) = true.
  Proof. unfold q_close. destruct (rx_closed s) eqn:E; [exact E|reflexivity]. Qed.

  Lemma IX_q_close s : IX s -> IX (q_close s).
  Proof.
    intros [A C W]. unfold q_close. destruct (rx_closed s) eqn:Ec; [constructor; assumption|].
    assert (Hw : forall w, In w (waiters s) ->
                 exists k, nth_error (calls s) w = Some k /\ idp (c_phase k) = true).
    { intros w Hin. destruct (w_acq _ _ W w Hin) as (k & Ek & Ep). exists k. rewrite Ep. auto. }
    set (s1 := foldp PAcqClosed (waiters s) s).
    constructor.
    - eapply GA_frame; [| |apply (GA_fold_closed (waiters s) s A Hw)]; reflexivity.
    - eapply GC_frame; [| | |apply (GC_fold_closed (waiters s) s C Hw)]; reflexivity.
    - constructor; cbn [waiters permits queue rx_closed calls q_cap upd_q]; try discriminate.
      + intros w [].
      + constructor.
      + intros j k' Hj Hp. exfalso.
        destruct (fold_sp_nth _ _ _ _ _ Hj) as (k & Ek & _ & [[Hn ->]|[_ Hp']]); [|congruence].
        apply Hn. eapply (w_in _ _ W); eassumption.
      + reflexivity.
  Qed.
  Lemma GL_q_close s : GL s -> GL (q_close s).
  Proof.
    intro G. unfold q_close. destruct (rx_closed s); [exact G|].
    eapply GL_frame; [| | | |apply (GL_fold_closed (waiters s) s G)]; reflexivity.
  Qed.

  Lemma q_close_fields s :
    inflight (q_close s) = inflight s /\ queue (q_close s) = queue s /\
    terminal (q_close s) = terminal s /\ finished (q_close s) = finished s /\
    dropped (q_close s) = dropped s /\ slots (q_close s) = slots s /\ cancels (q_close s) = cancels s /\
    timers (q_close s) = timers s.
  Proof.
    unfold q_close. destruct (rx_closed s); [repeat split; reflexivity|].
    cbn [inflight queue terminal finished dropped slots cancels timers upd_q].
    repeat split;
      [apply (fold_sp_field _ sp_inflight)|apply (fold_sp_field _ sp_queue)
      |apply (fold_sp_field _ sp_terminal)|apply (fold_sp_field _ sp_finished)
      |apply (fold_sp_field _ sp_dropped)|apply (fold_sp_field _ sp_slots)
      |apply (fold_sp_field _ sp_cancels)|apply (fold_sp_field _ sp_timers)].
  Qed.

  (* ---------------------------------------------------------------- shut_down *)
  Lemma drain_loop_spec f a : forall s b s',
    drain_loop f a s = (b, s') -> IX s -> GL s ->
    IX s' /\ GL s' /\ rx_closed s' = rx_closed s /\ inflight s' = inflight s /\
    (b = true -> queue s' = []).
  Proof.
    induction f as [|f IH]; intros s b s' H X G; cbn [drain_loop] in H.
    - injection H as <- <-. refine (conj X (conj G (conj eq_refl (conj eq_refl _)))). discriminate.
    - destruct (q_poll_recv s) as [x s1] eqn:E.
      pose proof (IX_q_poll_recv _ _ _ E X) as X1.
      pose proof (GL_q_poll_recv _ _ _ E G) as G1.
      pose proof (rxc_q_poll_recv _ _ _ E) as R1.
      pose proof (qf_inflight _ _ (QFrame_q_poll_recv s)) as I1. rewrite E in I1. cbn [snd] in I1.
      destruct x as [q| |].
      + apply IH in H; [|apply IX_slot_send, X1|].
        * destruct H as (A & B & C & D & F). refine (conj A (conj B (conj _ (conj _ F)))).
          -- rewrite C. rewrite (tf_rxc _ _ (TFrame_slot_send s1 (q_id q) (OConnErr a))). exact R1.
          -- rewrite D. rewrite (qf_inflight _ _ (QFrame_slot_send s1 (q_id q) (OConnErr a))). exact I1.
        * eapply GLx_fix; [| |apply loc_slot_send_same|exact G1];
            [apply calls_slot_send|intro; apply loc_slot_send].
      + injection H as <- <-. destruct (q_poll_recv_other _ _ _ E) as [-> Q]; [discriminate|].
        refine (conj X (conj G (conj eq_refl (conj eq_refl _)))). intros _; exact Q.
      + injection H as <- <-. refine (conj X1 (conj G1 (conj R1 (conj I1 _)))). discriminate.
  Qed.

  Lemma inflight_fold_slot_send {A} (f : A -> N) o (l : list A) : forall s,
    inflight (fold_left (fun acc p => slot_send acc (f p) o) l s) = inflight s.
  Proof.
    induction l as [|x r IH]; intro s; cbn [fold_left]; [reflexivity|].
    rewrite IH. apply (qf_inflight _ _ (QFrame_slot_send s (f x) o)).
  Qed.

  Lemma shut_down_spec s a b s' :
    shut_down s a = (b, s') -> IX s -> GL s ->
    IX s' /\ GL s' /\ rx_closed s' = true /\ inflight s' = [] /\ (b = true -> queue s' = []).
  Proof.
    unfold shut_down. intros H X G.
    pose proof (TFrame_complete_all (q_close s) (OConnErr a)) as F.
    apply drain_loop_spec in H;
      [|eapply IX_TFrame; [exact F|apply IX_q_close, X]|apply GL_complete_all, GL_q_close, G].
    destruct H as (A & B & C & D & E). refine (conj A (conj B (conj _ (conj _ E)))).
    - rewrite C, (tf_rxc _ _ F). apply q_close_closed.
    - rewrite D. unfold complete_all. rewrite inflight_fold_slot_send. reflexivity.
  Qed.

  (* ---------------------------------------------------------------- one dispatch poll *)
  Variable tp : transport T cmsg resp.

  Record DI s : Prop := { di_x : IX s; di_l : GL s }.

  Lemma DI_XFrame s s' : XFrame s s' -> DI s -> DI s' /\ rx_closed s' = rx_closed s.
  Proof.
    intros F [X G]. split; [constructor; [eapply IX_XFrame|eapply GL_XFrame]; eassumption|apply F].
  Qed.

  Lemma DI_poll_write_request s r s' :
    poll_write_request tp s = (r, s') -> DI s -> DI s' /\ rx_closed s' = rx_closed s.
  Proof.
    intros H D. apply poll_write_request_inv in H.
    destruct H as [_|r s1 _ H1 Hr|r s1 s2 _ H1 H2 Hr|s1 q s2 w s3 L H1 H2 H3].
    - auto.
    - eapply DI_XFrame; [eapply XFrame_ensure_writeable, H1|exact D].
    - destruct (DI_XFrame _ _ (XFrame_ensure_writeable _ _ _ _ H1) D) as [[X1 G1] R1].
      destruct (next_request_loop_spec _ _ _ _ H2 X1 G1) as (X2 & R2 & G2).
      split; [|congruence]. constructor; [exact X2|]. destruct r; try exact G2. discriminate.
    - destruct (DI_XFrame _ _ (XFrame_ensure_writeable _ _ _ _ H1) D) as [[X1 G1] R1].
      destruct (next_request_loop_spec _ _ _ _ H2 X1 G1) as (X2 & R2 & G2).
      pose proof (TFrame_insert_request s2 q) as F3.
      pose proof (XFrame_do_send _ _ _ _ _ H3) as F4.
      assert (D3 : DI s3 /\ rx_closed s3 = rx_closed s).
      { destruct (DI_XFrame _ _ F4 (Build_DI _ (IX_TFrame _ _ F3 X2) (GL_insert_request _ _ G2))) as [D3 R3].
        split; [exact D3|]. rewrite R3, (tf_rxc _ _ F3). congruence. }
      destruct w; [exact D3|]. destruct D3 as [[X3 G3] R3].
      pose proof (TFrame_complete_request s3 (q_id q) OSendErr) as F5.
      split; [constructor; [eapply IX_TFrame; eassumption|apply GL_complete_request, G3]|].
      rewrite (tf_rxc _ _ F5). exact R3.
  Qed.

  Lemma DI_poll_write_cancel s r s' :
    poll_write_cancel tp s = (r, s') -> DI s -> DI s' /\ rx_closed s' = rx_closed s.
  Proof.
    intros H D. apply poll_write_cancel_inv in H.
    destruct H as [r s1 H1 Hr|r s1 s2 H1 H2 Hr|s1 id e s2 w s3 H1 H2 H3].
    - eapply DI_XFrame; [eapply XFrame_ensure_writeable, H1|exact D].
    - destruct (DI_XFrame _ _ (XFrame_ensure_writeable _ _ _ _ H1) D) as [[X1 G1] R1].
      destruct (next_cancel_loop_spec _ _ _ _ H2 X1 G1) as (X2 & G2).
      pose proof (CFrame_next_cancel_loop (S (length (cancels s1))) s1) as F. rewrite H2 in F. cbn [snd] in F.
      split; [constructor; assumption|]. rewrite (cf_rxc _ _ F). exact R1.
    - destruct (DI_XFrame _ _ (XFrame_ensure_writeable _ _ _ _ H1) D) as [[X1 G1] R1].
      destruct (next_cancel_loop_spec _ _ _ _ H2 X1 G1) as (X2 & G2).
      pose proof (CFrame_next_cancel_loop (S (length (cancels s1))) s1) as F. rewrite H2 in F. cbn [snd] in F.
      destruct (DI_XFrame _ _ (XFrame_do_send _ _ _ _ _ H3) (Build_DI _ X2 G2)) as [D3 R3].
      split; [exact D3|]. rewrite R3, (cf_rxc _ _ F). exact R1.
  Qed.

  Lemma DI_poll_expired s : DI s -> DI (snd (poll_expired s)) /\ rx_closed (snd (poll_expired s)) = rx_closed s.
  Proof.
    intros [X G]. pose proof (TFrame_poll_expired s) as F.
    split; [constructor; [eapply IX_TFrame; eassumption|apply GL_poll_expired, G]|apply F].
  Qed.

  Lemma DI_pump_write s r s' :
    pump_write tp s = (r, s') -> DI s -> DI s' /\ rx_closed s' = rx_closed s.
  Proof.
    intros H D. apply pump_write_inv in H.
    destruct H as [a s1 H1|u s1 H1|r1 s1 a s2 H1 I1 H2|r1 s1 u s2 H1 I1 H2
                  |r1 s1 r2 s2 id s3 H1 I1 H2 I2 H3|s1 s2 s3 x s4 H1 H2 H3 H4
                  |r1 s1 r2 s2 s3 x s4 H1 I1 H2 I2 I12 H3 H4];
      destruct (DI_poll_write_request _ _ _ H1 D) as [D1 R1]; try (split; assumption);
      destruct (DI_poll_write_cancel _ _ _ H2 D1) as [D2 R2]; try (split; [assumption|congruence]);
      destruct (DI_poll_expired s2 D2) as [D3 R3]; rewrite H3 in D3, R3; cbn [snd] in D3, R3;
      try (split; [assumption|congruence]).
    - destruct (DI_XFrame _ _ (XFrame_do_close _ _ _ _ H4) D3) as [D4 R4]. split; [assumption|congruence].
    - destruct (DI_XFrame _ _ (XFrame_do_flush _ _ _ _ H4) D3) as [D4 R4]. split; [assumption|congruence].
  Qed.

  Lemma DI_pump_read s r s' :
    pump_read tp s = (r, s') -> DI s -> DI s' /\ rx_closed s' = rx_closed s.
  Proof.
    intros H D. apply pump_read_inv in H. destruct H as (x & s1 & H1 & -> & ->).
    destruct (DI_XFrame _ _ (XFrame_do_next _ _ _ _ H1) D) as [D1 R1].
    destruct x; try (split; assumption).
    pose proof (TFrame_complete s1 x) as F. destruct D1 as [X1 G1].
    split; [constructor; [eapply IX_TFrame; eassumption|apply GL_complete_request, G1]|].
    rewrite (tf_rxc _ _ F). exact R1.
  Qed.

  Lemma DI_run_loop f : forall s r s',
    run_loop tp f s = (r, s') -> DI s -> DI s' /\ rx_closed s' = rx_closed s.
  Proof.
    induction f as [|f IH]; intros s r s' H D; [cbn in H; injection H as _ <-; auto|].
    apply run_loop_inv in H.
    destruct H as [a s1 H1|rd s1 a s2 H1 N1 H2|s1 wr s2 H1 H2 N2|rd s1 s2 H1 D1 H2 L2
                  |s1 wr s2 H1 H2 D2|rd s1 wr s2 r s3 H1 H2 D' H3];
      destruct (DI_pump_read _ _ _ H1 D) as [E1 R1]; try (split; assumption);
      destruct (DI_pump_write _ _ _ H2 E1) as [E2 R2]; try (split; [assumption|congruence]).
    destruct (IH _ _ _ H3 E2) as [E3 R3]. split; [assumption|congruence].
  Qed.

  Lemma IX_same s s' :
    calls s' = calls s -> next_id s' = next_id s -> cancels s' = cancels s ->
    waiters s' = waiters s -> permits s' = permits s -> rx_closed s' = rx_closed s ->
    queue s' = queue s -> q_cap s' = q_cap s -> IX s -> IX s'.
  Proof.
    intros E1 E2 E3 E4 E5 E6 E7 E8 [A C W]. constructor.
    - eapply GA_frame; eassumption.
    - eapply GC_frame; eassumption.
    - eapply GW_frame; try eassumption. rewrite E7. reflexivity.
  Qed.
  Lemma DI_same s s' :
    calls s' = calls s -> next_id s' = next_id s -> cancels s' = cancels s ->
    waiters s' = waiters s -> permits s' = permits s -> rx_closed s' = rx_closed s ->
    queue s' = queue s -> q_cap s' = q_cap s -> inflight s' = inflight s -> slots s' = slots s ->
    DI s -> DI s'.
  Proof.
    intros E1 E2 E3 E4 E5 E6 E7 E8 E9 E10 [X G]. constructor.
    - eapply IX_same; eassumption.
    - eapply GL_frame; eassumption.
  Qed.

  Lemma poll_dispatch_spec fuel s r s1 :
    poll_dispatch tp fuel s = (r, s1) -> DI s -> GR s -> finished s = None -> dropped s = false ->
    DI s1 /\ (rx_closed s1 = true -> terminal s1 <> None \/ dropped s1 = true) /\
    finished s1 = None /\ dropped s1 = false /\
    (forall a, r = DReady (DErr a) -> rx_closed s1 = true /\ queue s1 = [] /\ inflight s1 = []).
  Proof.
    unfold poll_dispatch. intros H D R Hf Hd. destruct (terminal s) as [a|] eqn:Et.
    - destruct (shut_down s a) as [b s'] eqn:Es.
      pose proof (PFrame_shut_down _ _ _ _ Es) as P.
      destruct (shut_down_spec _ _ _ _ Es (di_x _ D) (di_l _ D)) as (X1 & G1 & C1 & I1 & Q1).
      assert (E : s1 = s') by (destruct b; congruence). subst s1.
      split; [constructor; assumption|]. split; [intros _; left; rewrite (pf_terminal _ _ P); congruence|].
      split; [rewrite (pf_finished _ _ P); exact Hf|]. split; [rewrite (pf_dropped _ _ P); exact Hd|].
      intros a' Ha. destruct b; [|congruence]. auto.
    - destruct (run_loop tp fuel s) as [rr s'] eqn:Er.
      pose proof (PFrame_run_loop _ _ _ _ _ Er) as P.
      destruct (DI_run_loop _ _ _ _ Er D) as [D1 R1].
      assert (Hf' : finished s' = None) by (rewrite (pf_finished _ _ P); exact Hf).
      assert (Hd' : dropped s' = false) by (rewrite (pf_dropped _ _ P); exact Hd).
      assert (Hr' : rx_closed s' = true -> terminal s' <> None \/ dropped s' = true).
      { rewrite R1, (pf_terminal _ _ P), (pf_dropped _ _ P). apply R. }
      destruct rr as [|a| |]; try (injection H as <- <-; repeat (split; [assumption|]); discriminate).
      set (s2 := upd_term s' (Some a)) in *.
      destruct (shut_down s2 a) as [b s3] eqn:Es.
      pose proof (PFrame_shut_down _ _ _ _ Es) as P2.
      assert (D2 : DI s2) by (eapply DI_same; [..|exact D1]; reflexivity).
      destruct (shut_down_spec _ _ _ _ Es (di_x _ D2) (di_l _ D2)) as (X3 & G3 & C3 & I3 & Q3).
      assert (E : s1 = s3) by (destruct b; congruence). subst s1.
      split; [constructor; assumption|].
      split; [intros _; left; rewrite (pf_terminal _ _ P2); discriminate|].
      split; [rewrite (pf_finished _ _ P2); exact Hf'|]. split; [rewrite (pf_dropped _ _ P2); exact Hd'|].
      intros a' Ha. destruct b; [|congruence]. auto.
  Qed.

  (* the PollDispatch op / the dispatch half of a settle round *)
  Definition after_pd (r : dpoll) (s1 : cstate) : cstate :=
    let s2 := match r with DReady d => upd_fin s1 (Some d) (dropped s1) | _ => s1 end in
    upd_tr s2 (tr s2) (fused s2) [].

  Lemma Inv_after_pd fuel s r s1 :
    poll_dispatch tp fuel (upd_tr s (tr s) (fused s) []) = (r, s1) ->
    Inv s -> finished s = None -> dropped s = false -> Inv (after_pd r s1).
  Proof.
    intros H [X G R Kk] Hf Hd. set (s0 := upd_tr s (tr s) (fused s) []) in *.
    assert (D0 : DI s0) by (eapply DI_same; [..|exact (Build_DI _ X G)]; reflexivity).
    assert (R0 : GR s0) by (eapply GR_frame; [..|exact R]; reflexivity).
    assert (K0 : K s0) by (eapply K_frame; [..|exact Kk]; reflexivity).
    destruct (poll_dispatch_spec _ _ _ _ H D0 R0 Hf Hd) as (D1 & C1 & F1 & Dr1 & Q1).
    pose proof (K_poll_dispatch _ _ _ _ _ H K0) as K1.
    assert (D2 : DI (after_pd r s1)) by (unfold after_pd; destruct r; (eapply DI_same; [..|exact D1]; reflexivity)).
    assert (K2 : K (after_pd r s1)) by (unfold after_pd; destruct r; (eapply K_frame; [..|exact K1]; reflexivity)).
    constructor; [apply D2|apply D2| |exact K2].
    constructor.
    - unfold after_pd. destruct r; cbn [rx_closed terminal dropped upd_tr upd_fin]; exact C1.
    - unfold after_pd, dead. destruct r as [[|a]| |];
        cbn [rx_closed finished dropped queue inflight upd_tr upd_fin]; rewrite ?F1, ?Dr1.
      + intros [[a Ha]|Ha]; discriminate.
      + intros _. apply (Q1 a eq_refl).
      + intros [[a Ha]|Ha]; discriminate.
      + intros [[a Ha]|Ha]; discriminate.
  Qed.

  (* ---------------------------------------------------------------- the user side: building blocks *)
  Lemma nth_set_nth_inv {A} (i j : nat) (x k' : A) l :
    nth_error (set_nth i x l) j = Some k' ->
    (j <> i /\ nth_error l j = Some k') \/ (j = i /\ k' = x /\ nth_error l i <> None).
  Proof.
    rewrite nth_set_nth. destruct (Nat.eqb_spec j i) as [->|Hn]; [|auto].
    destruct (nth_error l i); cbn; [|discriminate]. intros [= <-]. right. repeat split. discriminate.
  Qed.

  Lemma GW_closed_intro d s :
    rx_closed s = true -> waiters s = [] ->
    (forall i k, nth_error (calls s) i = Some k -> c_phase k <> PAcquiring) -> GW d s.
  Proof.
    intros Hc Hw Hn. constructor; rewrite ?Hw, ?Hc; try discriminate.
    - intros w [].
    - constructor.
    - intros i k Hk Hp. exfalso. eapply Hn; eassumption.
    - reflexivity.
  Qed.
  Lemma GW_closed_elim d s :
    GW d s -> rx_closed s = true ->
    waiters s = [] /\ (forall i k, nth_error (calls s) i = Some k -> c_phase k <> PAcquiring).
  Proof.
    intros W Hc. pose proof (w_closed _ _ W Hc) as Hw. split; [exact Hw|].
    intros i k Hk Hp. pose proof (w_in _ _ W i k Hk Hp) as X. rewrite Hw in X. exact X.
  Qed.
  (* in a closed queue any phase change that does not create a waiter keeps GW *)
  Lemma GW_set_phase_closed d e s i p :
    GW d s -> rx_closed s = true -> p <> PAcquiring -> GW e (set_phase s i p).
  Proof.
    intros W Hc Hp. destruct (GW_closed_elim _ _ W Hc) as [Hw Hn].
    apply GW_closed_intro; rewrite ?sp_rx_closed, ?sp_waiters; try assumption.
    intros j k' Hj. destruct (nth_set_phase_inv _ _ _ _ _ Hj) as (k & Ek & _ & [[_ ->]|[_ Hph]]).
    - eapply Hn, Ek.
    - congruence.
  Qed.

  Lemma IX_set_phase s i p :
    IX s -> p <> PNew -> p <> PAcquiring -> p <> PAssigned ->
    (forall k, nth_error (calls s) i = Some k ->
       c_phase k <> PAcquiring /\ c_phase k <> PAssigned /\ (idp p = true -> idp (c_phase k) = true)) ->
    IX (set_phase s i p).
  Proof.
    intros [A C W] P1 P2 P3 H. constructor.
    - apply GA_set_phase; [exact A|exact P1|]. intros k Hk. apply (H k Hk).
    - apply GC_set_phase; [exact C|]. intros k Hk. apply (H k Hk).
    - apply GW_set_phase; [exact W| |exact P2|exact P3]. intros k Hk. destruct (H k Hk) as (X & Y & _). auto.
  Qed.

  (* cancel + finish *)
  Lemma GC_finish x s i id p :
    calls x = calls s -> next_id x = next_id s ->
    (forall y, In y (cancels x) -> In y (cancels s) \/ y = id) ->
    GC s -> id < next_id s ->
    (forall j kj, nth_error (calls s) j = Some kj -> j <> i -> idp (c_phase kj) = true -> c_id kj <> id) ->
    idp p = false -> GC (set_phase x i p).
  Proof.
    intros E1 E2 Hc [C1 C2] Hlt Hne Hp. constructor; rewrite ?sp_cancels, ?sp_next_id, ?E2.
    - intros y Hy. destruct (Hc y Hy) as [Hy'| ->]; [apply C1, Hy'|exact Hlt].
    - intros y j k' Hy Hj Hi.
      destruct (nth_set_phase_inv _ _ _ _ _ Hj) as (k & Ek & Eid & [[Hn ->]|[-> Hph]]); [|congruence].
      rewrite E1 in Ek. destruct (Hc y Hy) as [Hy'| ->]; [eapply C2; eassumption|eapply Hne; eassumption].
  Qed.

  Lemma push_cancel_in s id y : In y (cancels (push_cancel s id)) -> In y (cancels s) \/ y = id.
  Proof.
    unfold push_cancel. destruct (dropped s); [auto|]. cbn [cancels upd_cancels].
    rewrite in_app_iff. cbn. intros [H|[H|[]]]; auto.
  Qed.

  Definition fs_pre s id := push_cancel (slot_rx_close (slot_tx_drop s id) id) id.
  Lemma fail_shutdown_eq s i id :
    fail_shutdown s i id = (CDone OShutdown, set_phase (fs_pre s id) i PDone).
  Proof. reflexivity. Qed.
  Ltac pc := unfold fs_pre, push_cancel; destruct (dropped _); reflexivity.
  Lemma fsp_calls s id : calls (fs_pre s id) = calls s. Proof. pc. Qed.
  Lemma fsp_next_id s id : next_id (fs_pre s id) = next_id s. Proof. pc. Qed.
  Lemma fsp_waiters s id : waiters (fs_pre s id) = waiters s. Proof. pc. Qed.
  Lemma fsp_permits s id : permits (fs_pre s id) = permits s. Proof. pc. Qed.
  Lemma fsp_rx_closed s id : rx_closed (fs_pre s id) = rx_closed s. Proof. pc. Qed.
  Lemma fsp_queue s id : queue (fs_pre s id) = queue s. Proof. pc. Qed.
  Lemma fsp_q_cap s id : q_cap (fs_pre s id) = q_cap s. Proof. pc. Qed.
  Lemma fsp_inflight s id : inflight (fs_pre s id) = inflight s. Proof. pc. Qed.
  Lemma fsp_cancels_in s id y : In y (cancels (fs_pre s id)) -> In y (cancels s) \/ y = id.
  Proof. unfold fs_pre. intro H. apply push_cancel_in in H. exact H. Qed.
  Lemma loc_push_cancel s id y : loc (push_cancel s id) y <-> loc s y.
  Proof. unfold push_cancel. destruct (dropped s); [tauto|]. unfold loc, get_slot. cbn. tauto. Qed.
  Lemma loc_fs_pre s id y : loc s y -> loc (fs_pre s id) y.
  Proof. intro L. unfold fs_pre. apply loc_push_cancel, loc_slot_rx_close, loc_slot_tx_drop, L. Qed.

  Lemma GAd_fs_pre d s id : GAd d s -> GAd d (fs_pre s id).
  Proof. apply GA_frame; [apply fsp_calls|apply fsp_next_id]. Qed.
  Lemma GW_fs_pre d s id : GW d s -> GW d (fs_pre s id).
  Proof.
    apply GW_frame; [apply fsp_calls|apply fsp_waiters|apply fsp_permits|apply fsp_rx_closed
                    |rewrite fsp_queue; reflexivity|apply fsp_q_cap].
  Qed.
  Lemma GL_fs_finish s i id p : GL s -> p <> PAwaiting -> GL (set_phase (fs_pre s id) i p).
  Proof.
    intros G Hp. apply GL_set_phase; [|congruence].
    eapply GL_mono; [apply fsp_calls|intro; apply loc_fs_pre|exact G].
  Qed.

  (* polling the oneshot *)
  Lemma poll_slot_cases s i id :
    poll_slot s i id = (CPending, s) \/
    exists o, poll_slot s i id = (CDone o, set_phase (slot_rx_close s id) i PDone).
  Proof.
    unfold poll_slot. destruct (sl_val _); [right; eauto|]. destruct (sl_tx_gone _); [right; eauto|left; reflexivity].
  Qed.

  Lemma poll_slot_UI s i id :
    IX s -> GL s ->
    (forall k, nth_error (calls s) i = Some k -> c_phase k = PAwaiting) ->
    let s' := snd (poll_slot s i id) in
    IX s' /\ GL s' /\ rx_closed s' = rx_closed s /\ queue s' = queue s.
  Proof.
    intros X G Hk. destruct (poll_slot_cases s i id) as [E|[o E]]; rewrite E; cbn [snd]; [auto|].
    split; [|split; [|split; [rewrite sp_rx_closed; reflexivity|rewrite sp_queue; reflexivity]]].
    - apply IX_set_phase; [apply IX_slot_rx_close, X|discriminate..|].
      cbn [calls slot_rx_close set_slot upd_slots]. intros k Ek. rewrite (Hk k Ek).
      repeat split; discriminate.
    - apply GL_set_phase; [apply GL_slot_rx_close, G|discriminate].
  Qed.

  Lemma GW_enqueue d d' s i k q :
    GW d s -> nth_error (calls s) i = Some k -> c_phase k <> PAcquiring ->
    (d + b2n (is_asg k) = S d')%nat ->
    GW d' (set_phase (upd_q s (permits s) (queue s ++ [q]) (waiters s) (rx_closed s)) i PAwaiting).
  Proof.
    intros [A B C D E F] Ek Hp Hd.
    set (s1 := upd_q s (permits s) (queue s ++ [q]) (waiters s) (rx_closed s)).
    constructor; rewrite ?sp_waiters, ?sp_rx_closed, ?sp_permits, ?sp_queue, ?sp_q_cap;
      cbn [s1 waiters rx_closed permits queue q_cap upd_q]; try assumption.
    - intros w Hw. destruct (A w Hw) as (k' & Ek' & Ep'). exists k'. split; [|exact Ep'].
      rewrite nth_set_phase. destruct (Nat.eqb_spec w i) as [->|]; [congruence|exact Ek'].
    - intros j k' Hj Hph.
      destruct (nth_set_phase_inv _ _ _ _ _ Hj) as (k0 & Ek0 & _ & [[Hn ->]|[-> Hph']]); [|congruence].
      eapply D; eassumption.
    - intro Hc. specialize (F Hc).
      pose proof (count_set_phase is_asg s1 i PAwaiting k Ek) as H.
      cbn [b2n is_asg with_phase c_phase] in H. cbn [s1 calls upd_q] in H.
      rewrite app_length. cbn [length]. lia.
  Qed.

  (* ---------------------------------------------------------------- the first poll of a call *)
  Definition NW s : Prop := N.of_nat (length (calls s)) < two64.

  Definition fp_state s i (c : call) : cstate :=
    let id := next_id s in
    set_slot (with_id (upd_misc s (N.modulo (id + 1) two64) (handles s) (now s)) i c id) id slot0.

  Lemma GA_set_phase_new s i p k :
    GAd 1 s -> nth_error (calls s) i = Some k -> c_phase k = PNew -> p <> PNew ->
    (idp p = true -> c_id k < next_id s /\
       forall j kj, nth_error (calls s) j = Some kj -> j <> i -> idp (c_phase kj) = true -> c_id kj <> c_id k) ->
    GAd 0 (set_phase s i p).
  Proof.
    intros [A B C] Ek Hk Hp Hid. constructor.
    - intros j k' Hj Hi. rewrite sp_next_id.
      destruct (nth_set_phase_inv _ _ _ _ _ Hj) as (k0 & E & Eid & [[Hn ->]|[-> Hph]]).
      + eapply A; eassumption.
      + rewrite Eid. rewrite Ek in E. injection E as <-. apply Hid. rewrite <- Hph. exact Hi.
    - intros j1 j2 k1 k2 H1 H2 I1 I2 Eid.
      destruct (nth_set_phase_inv _ _ _ _ _ H1) as (k1' & E1 & Eid1 & D1).
      destruct (nth_set_phase_inv _ _ _ _ _ H2) as (k2' & E2 & Eid2 & D2).
      destruct D1 as [[N1 ->]|[-> P1]], D2 as [[N2 ->]|[-> P2]].
      + eapply B; eassumption.
      + exfalso. rewrite Ek in E2. injection E2 as <-.
        destruct Hid as [_ Hid]; [rewrite <- P2; exact I2|]. eapply (Hid j1 k1'); try eassumption. congruence.
      + exfalso. rewrite Ek in E1. injection E1 as <-.
        destruct Hid as [_ Hid]; [rewrite <- P1; exact I1|]. eapply (Hid j2 k2'); try eassumption. congruence.
      + reflexivity.
    - rewrite sp_next_id, sp_length.
      pose proof (count_set_phase is_new s i p k Ek) as H.
      assert (X : is_new (with_phase k p) = false) by (unfold is_new; cbn; destruct p; congruence).
      assert (Y : is_new k = true) by (unfold is_new; rewrite Hk; reflexivity).
      rewrite X, Y in H. cbn [b2n] in H. lia.
  Qed.

  Lemma GC_set_phase_fresh s i p k :
    GC s -> nth_error (calls s) i = Some k -> (forall x, In x (cancels s) -> x <> c_id k) ->
    GC (set_phase s i p).
  Proof.
    intros [A B] Ek Hf. constructor; rewrite ?sp_cancels, ?sp_next_id; [exact A|].
    intros x j k' Hx Hj Hi.
    destruct (nth_set_phase_inv _ _ _ _ _ Hj) as (k0 & E & Eid & [[Hn ->]|[-> Hph]]).
    - eapply B; eassumption.
    - rewrite Eid. rewrite Ek in E. injection E as <-. intro X. eapply Hf; [exact Hx|congruence].
  Qed.

  Lemma first_poll_facts s i c :
    IX s -> GL s -> NW s -> nth_error (calls s) i = Some c -> c_phase c = PNew ->
    let id := next_id s in
    let s1 := fp_state s i c in
    GAd 1 s1 /\ GC s1 /\ GW 0 s1 /\ GL s1 /\
    nth_error (calls s1) i = Some (with_cid c id) /\ next_id s1 = id + 1 /\
    (forall j kj, nth_error (calls s1) j = Some kj -> j <> i -> idp (c_phase kj) = true -> c_id kj <> id) /\
    (forall x, In x (cancels s1) -> x <> id) /\
    rx_closed s1 = rx_closed s /\ queue s1 = queue s /\ permits s1 = permits s /\
    waiters s1 = waiters s.
  Proof.
    intros [[A1 A2 A3] [C1 C2] W] G Hnw Ec Hp id s1.
    assert (Ecalls : calls s1 = set_nth i (with_cid c id) (calls s)) by reflexivity.
    assert (Hpos : (0 < count is_new (calls s))%nat).
    { eapply count_pos; [exact Ec|]. unfold is_new. rewrite Hp. reflexivity. }
    assert (Enid : next_id s1 = id + 1).
    { change (next_id s1) with (N.modulo (id + 1) two64). apply N.mod_small.
      unfold NW in Hnw. fold id in A3. lia. }
    assert (Hother : forall j kj, nth_error (calls s1) j = Some kj -> j <> i -> nth_error (calls s) j = Some kj).
    { intros j kj Hj Hn. rewrite Ecalls in Hj. apply nth_set_nth_inv in Hj.
      destruct Hj as [[_ Hj]|[Hj _]]; [exact Hj|contradiction]. }
    assert (Hi : nth_error (calls s1) i = Some (with_cid c id)).
    { rewrite Ecalls, nth_set_nth, Nat.eqb_refl, Ec. reflexivity. }
    assert (Hidp : forall j kj, nth_error (calls s1) j = Some kj -> idp (c_phase kj) = true -> j <> i).
    { intros j kj Hj Hidp ->. rewrite Hi in Hj. injection Hj as <-. cbn in Hidp. rewrite Hp in Hidp. discriminate. }
    split; [|split; [|split; [|split; [|split; [exact Hi|split; [exact Enid|split; [|split]]]]]]].
    - constructor.
      + intros j kj Hj Hid. rewrite Enid. pose proof (A1 j kj (Hother _ _ Hj (Hidp _ _ Hj Hid)) Hid). fold id in H. lia.
      + intros j1 j2 k1 k2 H1 H2 I1 I2.
        apply (A2 j1 j2 k1 k2); [apply Hother; [exact H1|eapply Hidp; eassumption]
                                |apply Hother; [exact H2|eapply Hidp; eassumption]|exact I1|exact I2].
      + rewrite Enid, Ecalls, set_nth_length.
        pose proof (count_set_nth is_new i (with_cid c id) c (calls s) Ec) as H.
        assert (X : is_new (with_cid c id) = is_new c) by reflexivity. rewrite X in H. fold id in A3. lia.
    - constructor.
      + intros x Hx. rewrite Enid. pose proof (C1 x Hx). fold id in H. lia.
      + intros x j kj Hx Hj Hid. eapply C2; [exact Hx|exact (Hother _ _ Hj (Hidp _ _ Hj Hid))|exact Hid].
    - destruct W as [W1 W2 W3 W4 W5 W6]. constructor; try assumption.
      + intros w Hw. destruct (W1 w Hw) as (k & Ek & Ep). exists k. split; [|exact Ep].
        rewrite Ecalls, nth_set_nth. destruct (Nat.eqb_spec w i) as [->|]; [congruence|exact Ek].
      + intros j kj Hj Hph. eapply W4; [|exact Hph]. apply Hother; [exact Hj|].
        eapply Hidp; [exact Hj|]. rewrite Hph. reflexivity.
      + intro Hc. change (queue s1) with (queue s). change (permits s1) with (permits s).
        change (q_cap s1) with (q_cap s). rewrite <- (W6 Hc). rewrite Ecalls.
        pose proof (count_set_nth is_asg i (with_cid c id) c (calls s) Ec) as H.
        assert (X : is_asg (with_cid c id) = is_asg c) by reflexivity. rewrite X in H. lia.
    - intros j kj Hj Hph.
      assert (Hn : j <> i) by (eapply Hidp; [exact Hj|rewrite Hph; reflexivity]).
      pose proof (Hother _ _ Hj Hn) as Hj'.
      pose proof (A1 j kj Hj' ltac:(rewrite Hph; reflexivity)) as Hlt. fold id in Hlt.
      destruct (G j kj Hj' Hph) as [L|[L|L]]; unfold loc.
      + left. exact L.
      + right; left. exact L.
      + right; right. unfold s1, fp_state. rewrite get_set_slot.
        destruct (N.eqb_spec (c_id kj) (next_id s)) as [E|_]; [fold id in E; lia|]. exact L.
    - intros j kj Hj Hn Hid. pose proof (A1 j kj (Hother _ _ Hj Hn) Hid). fold id in H. lia.
    - intros x Hx. pose proof (C1 x Hx). fold id in H. lia.
    - repeat split; reflexivity.
  Qed.

  (* ---------------------------------------------------------------- poll_call *)
  Lemma NoDup_snoc {A} (l : list A) (x : A) : NoDup l -> ~ In x l -> NoDup (l ++ [x]).
  Proof.
    induction l as [|y r IH]; cbn; intros H Hn; [constructor; [intros []|constructor]|].
    inversion H as [|? ? Hy Hr]; subst. constructor.
    - rewrite in_app_iff. cbn. intros [X|[X|[]]]; [contradiction|]. apply Hn. left; symmetry; exact X.
    - apply IH; [exact Hr|]. intro X. apply Hn. right; exact X.
  Qed.
  Definition UI s s' : Prop :=
    IX s' /\ GL s' /\ rx_closed s' = rx_closed s /\ (rx_closed s = true -> queue s' = queue s).

  Definition mkq (c : call) (id : N) (tc : tctx) : qitem :=
    {| q_id := id; q_deadline := c_deadline c; q_tc := tc; q_body := c_body c |}.
  Definition enq_state s i (c : call) id tc : cstate :=
    set_phase (upd_q s (permits s) (queue s ++ [mkq c id tc]) (waiters s) (rx_closed s)) i PAwaiting.
  Lemma enqueue_eq s i c id tc : enqueue s i c id tc = poll_slot (enq_state s i c id tc) i id.
  Proof. reflexivity. Qed.

  Lemma enq_awaiting s i c id tc k :
    nth_error (calls (enq_state s i c id tc)) i = Some k -> c_phase k = PAwaiting.
  Proof.
    intro H. destruct (nth_set_phase_inv _ _ _ _ _ H) as (k0 & _ & _ & [[X _]|[_ X]]); [congruence|exact X].
  Qed.

  Lemma GL_enq s i c id tc : GL s -> (forall k, nth_error (calls s) i = Some k -> c_id k = id) ->
    GL (enq_state s i c id tc).
  Proof.
    intros G Hid. unfold enq_state. apply GL_set_phase.
    - apply (GL_mono s); [reflexivity| |exact G].
      intros y [L|[L|L]]; unfold loc; cbn [queue inflight upd_q].
      + left. rewrite map_app, in_app_iff. left; exact L.
      + right; left; exact L.
      + right; right; exact L.
    - intros _ k Ek. cbn [calls upd_q] in Ek. rewrite (Hid k Ek). left. cbn [queue upd_q].
      rewrite map_app, in_app_iff. right. left. reflexivity.
  Qed.

  Lemma poll_call_new s i c :
    nth_error (calls s) i = Some c -> c_phase c = PNew ->
    poll_call s i =
    let id := next_id s in
    let s1 := fp_state s i c in
    let tc := {| tc_tid := tc_tid (c_tc c); tc_sid := id; tc_sampled := tc_sampled (c_tc c) |} in
    if rx_closed s1 then fail_shutdown s1 i id
    else match permits s1 with
         | S p => enqueue (upd_q s1 p (queue s1) (waiters s1) (rx_closed s1)) i c id tc
         | O => (CPending, set_phase (upd_q s1 O (queue s1) (waiters s1 ++ [i]) (rx_closed s1)) i PAcquiring)
         end.
  Proof. intros E P. unfold poll_call. rewrite E, P. reflexivity. Qed.

  Lemma poll_call_UI s i : IX s -> GL s -> NW s -> UI s (snd (poll_call s i)).
  Proof.
    intros X G Hnw. unfold UI.
    destruct (nth_error (calls s) i) as [c|] eqn:Ec;
      [|unfold poll_call; rewrite Ec; cbn [snd]; auto].
    destruct (c_phase c) eqn:Hp;
      try (unfold poll_call; rewrite Ec, Hp; cbn [snd]; auto; fail).
    - (* PNew *)
      rewrite (poll_call_new s i c Ec Hp). cbv zeta.
      destruct (first_poll_facts s i c X G Hnw Ec Hp) as (A1 & C1 & W1 & G1 & Ei & En & Hne & Hcn & Rc & Rq & Rp & Rw).
      set (s1 := fp_state s i c) in *. set (id := next_id s) in *.
      assert (Hlt : id < next_id s1) by (rewrite En; lia).
      destruct (rx_closed s1) eqn:Ecl.
      + (* closed: the send fails *)
        rewrite fail_shutdown_eq. cbn [snd].
        assert (Ei' : nth_error (calls (fs_pre s1 id)) i = Some (with_cid c id)) by (rewrite fsp_calls; exact Ei).
        split; [constructor|split; [|split]].
        * eapply GA_set_phase_new; [apply GAd_fs_pre, A1|exact Ei'|exact Hp|discriminate|discriminate].
        * eapply GC_finish; [apply fsp_calls|apply fsp_next_id|apply fsp_cancels_in|exact C1|exact Hlt|exact Hne|reflexivity].
        * apply GW_set_phase; [apply GW_fs_pre, W1| |discriminate|discriminate].
          intros k Ek. rewrite Ei' in Ek. injection Ek as <-. cbn. rewrite Hp. split; discriminate.
        * apply GL_fs_finish; [exact G1|discriminate].
        * rewrite sp_rx_closed, fsp_rx_closed. congruence.
        * intros _. rewrite sp_queue, fsp_queue. exact Rq.
      + destruct (permits s1) as [|p] eqn:Ep.
        * (* no permit: wait *)
          cbn [snd]. set (x := upd_q s1 0 (queue s1) (waiters s1 ++ [i]) false).
          assert (Ex : nth_error (calls x) i = Some (with_cid c id)) by exact Ei.
          split; [constructor|split; [|split]].
          -- eapply GA_set_phase_new; [eapply GA_frame; [| |exact A1]; reflexivity|exact Ex|exact Hp|discriminate|].
             intros _. split; [exact Hlt|exact Hne].
          -- eapply GC_set_phase_fresh; [eapply GC_frame; [| | |exact C1]; reflexivity|exact Ex|exact Hcn].
          -- destruct W1 as [V1 V2 V3 V4 V5 V6].
             constructor; rewrite ?sp_waiters, ?sp_rx_closed, ?sp_permits, ?sp_queue, ?sp_q_cap;
               cbn [x waiters rx_closed permits queue q_cap calls upd_q].
             ++ intros w Hw. apply in_app_iff in Hw. rewrite nth_set_phase.
                destruct (Nat.eqb_spec w i) as [->|Hn].
                ** rewrite Ex. cbn. eexists; split; reflexivity.
                ** destruct Hw as [Hw|[Hw|[]]]; [|congruence]. destruct (V1 w Hw) as (k & Ek & Ekp). eauto.
             ++ apply NoDup_snoc; [exact V2|]. intro Hin. destruct (V1 i Hin) as (k & Ek & Ekp).
                rewrite Ei in Ek. injection Ek as <-. cbn in Ekp. congruence.
             ++ reflexivity.
             ++ intros j k' Hj Hph. apply in_app_iff.
                destruct (nth_set_phase_inv _ _ _ _ _ Hj) as (k0 & Ek0 & _ & [[Hn ->]|[-> _]]).
                ** left. eapply V4; eassumption.
                ** right. left. reflexivity.
             ++ congruence.
             ++ intros _. specialize (V6 Ecl). rewrite Ep in V6.
                pose proof (count_set_phase is_asg x i PAcquiring _ Ex) as H.
                assert (X1 : is_asg (with_cid c id) = false) by (unfold is_asg; cbn; rewrite Hp; reflexivity).
                assert (X2 : is_asg (with_phase (with_cid c id) PAcquiring) = false) by reflexivity.
                rewrite X1, X2 in H. cbn [b2n] in H.
                cbn [x calls upd_q] in H. lia.
          -- apply GL_set_phase; [|discriminate]. eapply GL_frame; [| | | |exact G1]; reflexivity.
          -- rewrite sp_rx_closed. cbn [x rx_closed upd_q]. exact Rc.
          -- intro. congruence.
        * (* a permit: enqueue *)
          rewrite enqueue_eq.
          set (tc := {| tc_tid := tc_tid (c_tc c); tc_sid := id; tc_sampled := tc_sampled (c_tc c) |}).
          set (x := upd_q s1 p (queue s1) (waiters s1) false).
          assert (Ex : nth_error (calls x) i = Some (with_cid c id)) by exact Ei.
          assert (Wx : GW 1 x).
          { destruct W1 as [V1 V2 V3 V4 V5 V6]. constructor; try assumption.
            - intros _ Hw. specialize (V3 Ecl Hw). congruence.
            - intros Hc. exfalso. cbn [x rx_closed upd_q] in Hc. discriminate.
            - intros _. specialize (V6 Ecl). rewrite Ep in V6. cbn [x queue permits calls q_cap upd_q]. lia. }
          assert (Xe : IX (enq_state x i c id tc)).
          { constructor.
            - eapply GA_set_phase_new; [eapply GA_frame; [| |exact A1]; reflexivity|exact Ex|exact Hp|discriminate|].
              intros _. split; [exact Hlt|exact Hne].
            - eapply GC_set_phase_fresh; [eapply GC_frame; [| | |exact C1]; reflexivity|exact Ex|exact Hcn].
            - eapply (GW_enqueue 1 0); [exact Wx|exact Ex|cbn; congruence|].
              unfold is_asg. cbn. rewrite Hp. reflexivity. }
          assert (Ge : GL (enq_state x i c id tc)).
          { apply GL_enq; [eapply GL_frame; [| | | |exact G1]; reflexivity|].
            intros k Ek. rewrite Ex in Ek. injection Ek as <-. reflexivity. }
          destruct (poll_slot_UI _ i id Xe Ge (enq_awaiting x i c id tc)) as (P1 & P2 & P3 & P4).
          split; [exact P1|split; [exact P2|split]].
          -- rewrite P3. unfold enq_state. rewrite sp_rx_closed. cbn [x rx_closed upd_q]. exact Rc.
          -- intro. congruence.
    - (* PAssigned *)
      unfold poll_call. rewrite Ec, Hp.
      assert (Hlt : c_id c < next_id s) by (apply (a_lt _ _ (ix_a _ X) i c Ec); rewrite Hp; reflexivity).
      assert (Hne : forall j kj, nth_error (calls s) j = Some kj -> j <> i -> idp (c_phase kj) = true ->
                                 c_id kj <> c_id c).
      { intros j kj Hj Hn Hid E. apply Hn. eapply (a_inj _ _ (ix_a _ X)); try eassumption. rewrite Hp; reflexivity. }
      destruct (rx_closed s) eqn:Ecl.
      + rewrite fail_shutdown_eq. cbn [snd].
        set (x := upd_q s (S (permits s)) (queue s) (waiters s) true).
        destruct X as [A C W].
        split; [constructor|split; [|split]].
        * apply GA_set_phase; [apply GAd_fs_pre; eapply GA_frame; [| |exact A]; reflexivity|discriminate|discriminate].
        * eapply (GC_finish _ x); [apply fsp_calls|apply fsp_next_id|apply fsp_cancels_in
                                  |eapply GC_frame; [| | |exact C]; reflexivity|exact Hlt|exact Hne|reflexivity].
        * destruct (GW_closed_elim _ _ W Ecl) as [Hw Hn].
          eapply (GW_set_phase_closed 0); [|rewrite fsp_rx_closed; reflexivity|discriminate].
          apply GW_closed_intro; [rewrite fsp_rx_closed; reflexivity|rewrite fsp_waiters; exact Hw|].
          rewrite fsp_calls. exact Hn.
        * apply GL_fs_finish; [|discriminate]. eapply GL_frame; [| | | |exact G]; reflexivity.
        * rewrite sp_rx_closed, fsp_rx_closed. reflexivity.
        * intros _. rewrite sp_queue, fsp_queue. reflexivity.
      + rewrite enqueue_eq.
        set (tc := {| tc_tid := tc_tid (c_tc c); tc_sid := c_id c; tc_sampled := tc_sampled (c_tc c) |}).
        assert (Xe : IX (enq_state s i c (c_id c) tc)).
        { destruct X as [A C W]. constructor.
          - apply GA_set_phase; [eapply GA_frame; [| |exact A]; reflexivity|discriminate|].
            cbn [calls upd_q]. intros k Ek _. rewrite Ec in Ek. injection Ek as <-. rewrite Hp. reflexivity.
          - apply GC_set_phase; [eapply GC_frame; [| | |exact C]; reflexivity|].
            cbn [calls upd_q]. intros k Ek _. rewrite Ec in Ek. injection Ek as <-. rewrite Hp. reflexivity.
          - eapply (GW_enqueue 0 0); [exact W|exact Ec|congruence|]. unfold is_asg. rewrite Hp. reflexivity. }
        assert (Ge : GL (enq_state s i c (c_id c) tc)).
        { apply GL_enq; [exact G|]. intros k Ek. congruence. }
        destruct (poll_slot_UI _ i (c_id c) Xe Ge (enq_awaiting s i c (c_id c) tc)) as (P1 & P2 & P3 & P4).
        split; [exact P1|split; [exact P2|split]].
        * rewrite P3. unfold enq_state. rewrite sp_rx_closed. cbn [rx_closed upd_q]. exact Ecl.
        * discriminate.
    - (* PAcqClosed *)
      unfold poll_call. rewrite Ec, Hp. rewrite fail_shutdown_eq. cbn [snd].
      assert (Hlt : c_id c < next_id s) by (apply (a_lt _ _ (ix_a _ X) i c Ec); rewrite Hp; reflexivity).
      assert (Hne : forall j kj, nth_error (calls s) j = Some kj -> j <> i -> idp (c_phase kj) = true ->
                                 c_id kj <> c_id c).
      { intros j kj Hj Hn Hid E. apply Hn. eapply (a_inj _ _ (ix_a _ X)); try eassumption. rewrite Hp; reflexivity. }
      destruct X as [A C W].
      split; [constructor|split; [|split]].
      + apply GA_set_phase; [apply GAd_fs_pre, A|discriminate|discriminate].
      + eapply (GC_finish _ s); [apply fsp_calls|apply fsp_next_id|apply fsp_cancels_in|exact C|exact Hlt|exact Hne|reflexivity].
      + apply GW_set_phase; [apply GW_fs_pre, W| |discriminate|discriminate].
        rewrite fsp_calls. intros k Ek. rewrite Ec in Ek. injection Ek as <-. rewrite Hp. split; discriminate.
      + apply GL_fs_finish; [exact G|discriminate].
      + rewrite sp_rx_closed, fsp_rx_closed. reflexivity.
      + intros _. rewrite sp_queue, fsp_queue. reflexivity.
    - (* PAwaiting *)
      unfold poll_call. rewrite Ec, Hp.
      destruct (poll_slot_UI s i (c_id c) X G) as (P1 & P2 & P3 & P4).
      { intros k Ek. congruence. }
      split; [exact P1|split; [exact P2|split; [exact P3|intros _; exact P4]]].
  Qed.

  (* ---------------------------------------------------------------- dropping a call *)
  Lemma remove_waiter_in i w l : In w (remove_waiter i l) <-> In w l /\ w <> i.
  Proof.
    unfold remove_waiter. rewrite filter_In. rewrite negb_true_iff, Nat.eqb_neq. tauto.
  Qed.

  Lemma GW_unwait s i k :
    GW 0 s -> nth_error (calls s) i = Some k -> c_phase k = PAcquiring ->
    GW 0 (set_phase (upd_q s (permits s) (queue s) (remove_waiter i (waiters s)) (rx_closed s)) i PClosing).
  Proof.
    intros [A B C D E F] Ek Hp.
    set (s1 := upd_q s (permits s) (queue s) (remove_waiter i (waiters s)) (rx_closed s)).
    constructor; rewrite ?sp_waiters, ?sp_rx_closed, ?sp_permits, ?sp_queue, ?sp_q_cap;
      cbn [s1 waiters rx_closed permits queue q_cap upd_q].
    - intros w Hw. apply remove_waiter_in in Hw. destruct Hw as [Hw Hn].
      destruct (A w Hw) as (k' & Ek' & Ep'). exists k'. split; [|exact Ep'].
      rewrite nth_set_phase. destruct (Nat.eqb_spec w i); [contradiction|exact Ek'].
    - apply NoDup_filter, B.
    - intros Hc Hw. apply C; [exact Hc|]. intro X. apply Hw. rewrite X. reflexivity.
    - intros j k' Hj Hph.
      destruct (nth_set_phase_inv _ _ _ _ _ Hj) as (k0 & Ek0 & _ & [[Hn ->]|[-> Hph']]); [|congruence].
      apply remove_waiter_in. split; [eapply D; eassumption|exact Hn].
    - intro Hc. rewrite (E Hc). reflexivity.
    - intro Hc. specialize (F Hc).
      pose proof (count_set_phase is_asg s1 i PClosing k Ek) as H.
      assert (X1 : is_asg k = false) by (unfold is_asg; rewrite Hp; reflexivity).
      rewrite X1 in H. cbn [b2n is_asg with_phase c_phase] in H. cbn [s1 calls upd_q] in H. lia.
  Qed.

  Lemma GW_unassign s i k p :
    GW 0 s -> nth_error (calls s) i = Some k -> c_phase k = PAssigned ->
    p <> PAcquiring -> p <> PAssigned -> GW 1 (set_phase s i p).
  Proof.
    intros [A B C D E F] Ek Hp P1 P2.
    constructor; rewrite ?sp_waiters, ?sp_rx_closed, ?sp_permits, ?sp_queue, ?sp_q_cap; try assumption.
    - intros w Hw. destruct (A w Hw) as (k' & Ek' & Ep'). exists k'. split; [|exact Ep'].
      rewrite nth_set_phase. destruct (Nat.eqb_spec w i) as [->|]; [congruence|exact Ek'].
    - intros j k' Hj Hph.
      destruct (nth_set_phase_inv _ _ _ _ _ Hj) as (k0 & Ek0 & _ & [[Hn ->]|[-> Hph']]); [|congruence].
      eapply D; eassumption.
    - intro Hc. specialize (F Hc).
      pose proof (count_set_phase is_asg s i p k Ek) as H.
      assert (X1 : is_asg k = true) by (unfold is_asg; rewrite Hp; reflexivity).
      assert (X2 : is_asg (with_phase k p) = false) by (unfold is_asg; cbn; destruct p; congruence).
      rewrite X1, X2 in H. cbn [b2n] in H. lia.
  Qed.

  Lemma guard_close_UI s i : IX s -> GL s -> UI s (guard_close s i).
  Proof.
    intros X G. unfold UI, guard_close.
    destruct (nth_error (calls s) i) as [c|] eqn:Ec; [|auto].
    destruct (c_phase c) eqn:Hp; auto.
    - (* PNew *)
      split; [|split; [apply GL_set_phase; [exact G|discriminate]
                      |split; [apply sp_rx_closed|intros _; apply sp_queue]]].
      apply IX_set_phase; [exact X|discriminate..|]. intros k Ek. rewrite Ec in Ek. injection Ek as <-.
      rewrite Hp. repeat split; discriminate.
    - (* PAcquiring *)
      set (s1 := upd_q s (permits s) (queue s) (remove_waiter i (waiters s)) (rx_closed s)).
      set (s2 := slot_rx_close (slot_tx_drop s1 (c_id c)) (c_id c)).
      destruct X as [A C W].
      assert (A1 : GA s1) by (eapply GA_frame; [| |exact A]; reflexivity).
      assert (C1 : GC s1) by (eapply GC_frame; [| | |exact C]; reflexivity).
      assert (G1 : GL s1) by (eapply GL_frame; [| | | |exact G]; reflexivity).
      split; [constructor|split; [|split; [rewrite sp_rx_closed; reflexivity|intros _; rewrite sp_queue; reflexivity]]].
      + apply GA_set_phase; [eapply GA_frame; [| |exact A1]; reflexivity|discriminate|].
        intros k Ek _. change (calls s2) with (calls s) in Ek. rewrite Ec in Ek. injection Ek as <-.
        rewrite Hp. reflexivity.
      + apply GC_set_phase; [eapply GC_frame; [| | |exact C1]; reflexivity|].
        intros k Ek _. change (calls s2) with (calls s) in Ek. rewrite Ec in Ek. injection Ek as <-.
        rewrite Hp. reflexivity.
      + pose proof (GW_unwait s i c W Ec Hp) as W2.
        eapply GW_frame; [| | | | | |exact W2].
        * rewrite !sp_calls. reflexivity.
        * rewrite !sp_waiters. reflexivity.
        * rewrite !sp_permits. reflexivity.
        * rewrite !sp_rx_closed. reflexivity.
        * rewrite !sp_queue. reflexivity.
        * rewrite !sp_q_cap. reflexivity.
      + apply GL_set_phase; [|discriminate]. apply GL_slot_rx_close, GL_slot_tx_drop, G1.
    - (* PAssigned *)
      set (s1 := set_phase s i PClosing).
      set (s2 := if rx_closed s1 then upd_q s1 (S (permits s1)) (queue s1) (waiters s1) true else release_permit s1).
      destruct X as [A C W].
      assert (Hidp : forall k, nth_error (calls s) i = Some k -> idp PClosing = true -> idp (c_phase k) = true).
      { intros k Ek _. rewrite Ec in Ek. injection Ek as <-. rewrite Hp. reflexivity. }
      assert (A1 : GA s1) by (apply GA_set_phase; [exact A|discriminate|exact Hidp]).
      assert (C1 : GC s1) by (apply GC_set_phase; [exact C|exact Hidp]).
      assert (G1 : GL s1) by (apply GL_set_phase; [exact G|discriminate]).
      assert (W1 : GW 1 s1) by (eapply GW_unassign; [exact W|exact Ec|exact Hp|discriminate|discriminate]).
      assert (Rc : rx_closed s1 = rx_closed s) by apply sp_rx_closed.
      assert (Rq : queue s1 = queue s) by apply sp_queue.
      assert (X2 : IX s2 /\ GL s2 /\ rx_closed s2 = rx_closed s /\ queue s2 = queue s).
      { unfold s2. destruct (rx_closed s1) eqn:Ecl.
        - destruct (GW_closed_elim _ _ W1 Ecl) as [Hw Hn].
          split; [constructor|split; [|split; [cbn [rx_closed upd_q]; exact Rc|exact Rq]]].
          + eapply GA_frame; [| |exact A1]; reflexivity.
          + eapply GC_frame; [| | |exact C1]; reflexivity.
          + apply GW_closed_intro; [reflexivity|exact Hw|exact Hn].
          + eapply GL_frame; [| | | |exact G1]; reflexivity.
        - split; [constructor|split; [|split; [rewrite rp_rx_closed, Ecl; exact Rc|rewrite rp_queue; exact Rq]]].
          + eapply GA_release_permit; eassumption.
          + eapply GC_release_permit; eassumption.
          + apply GW_release_permit, W1.
          + apply GL_release_permit, G1. }
      destruct X2 as (X2 & G2 & R2 & Q2).
      split; [apply IX_slot_rx_close, IX_slot_tx_drop, X2|].
      split; [apply GL_slot_rx_close, GL_slot_tx_drop, G2|]. split; [exact R2|intros _; exact Q2].
    - (* PAcqClosed *)
      split; [|split; [apply GL_set_phase; [apply GL_slot_rx_close, GL_slot_tx_drop, G|discriminate]
                      |split; [rewrite sp_rx_closed; reflexivity|intros _; rewrite sp_queue; reflexivity]]].
      apply IX_set_phase; [apply IX_slot_rx_close, IX_slot_tx_drop, X|discriminate..|].
      intros k Ek. change (nth_error (calls s) i = Some k) in Ek. rewrite Ec in Ek. injection Ek as <-.
      rewrite Hp. repeat split; discriminate.
    - (* PAwaiting *)
      split; [|split; [apply GL_set_phase; [apply GL_slot_rx_close, G|discriminate]
                      |split; [rewrite sp_rx_closed; reflexivity|intros _; rewrite sp_queue; reflexivity]]].
      apply IX_set_phase; [apply IX_slot_rx_close, X|discriminate..|].
      intros k Ek. change (nth_error (calls s) i = Some k) in Ek. rewrite Ec in Ek. injection Ek as <-.
      rewrite Hp. repeat split; discriminate.
  Qed.

  Lemma guard_cancel_UI s i : IX s -> GL s -> UI s (guard_cancel s i).
  Proof.
    intros X G. unfold UI, guard_cancel.
    destruct (nth_error (calls s) i) as [c|] eqn:Ec; [|auto].
    destruct (c_phase c) eqn:Hp; auto.
    set (x := push_cancel s (c_id c)).
    assert (Fx : calls x = calls s /\ next_id x = next_id s /\ waiters x = waiters s /\
                 permits x = permits s /\ rx_closed x = rx_closed s /\ queue x = queue s /\ q_cap x = q_cap s)
      by (unfold x, push_cancel; destruct (dropped s); repeat split; reflexivity).
    destruct Fx as (F1 & F2 & F3 & F4 & F5 & F6 & F7).
    assert (Hlt : c_id c < next_id s) by (apply (a_lt _ _ (ix_a _ X) i c Ec); rewrite Hp; reflexivity).
    assert (Hne : forall j kj, nth_error (calls s) j = Some kj -> j <> i -> idp (c_phase kj) = true ->
                               c_id kj <> c_id c).
    { intros j kj Hj Hn Hid E. apply Hn. eapply (a_inj _ _ (ix_a _ X)); try eassumption. rewrite Hp; reflexivity. }
    destruct X as [A C W].
    split; [constructor|split; [|split; [rewrite sp_rx_closed; exact F5|intros _; rewrite sp_queue; exact F6]]].
    - apply GA_set_phase; [eapply GA_frame; [exact F1|exact F2|exact A]|discriminate|discriminate].
    - eapply (GC_finish x s); [exact F1|exact F2|apply push_cancel_in|exact C|exact Hlt|exact Hne|reflexivity].
    - apply GW_set_phase; [eapply GW_frame; [exact F1|exact F3|exact F4|exact F5|rewrite F6; reflexivity|exact F7|exact W]
                          | |discriminate|discriminate].
      rewrite F1. intros k Ek. rewrite Ec in Ek. injection Ek as <-. rewrite Hp. split; discriminate.
    - apply GL_set_phase; [|discriminate].
      eapply GL_mono; [exact F1| |exact G]. intros y L. apply loc_push_cancel, L.
  Qed.

  (* ---------------------------------------------------------------- dropping the dispatch *)
  Definition sres s (y : N) : Prop :=
    sl_val (get_slot s y) <> None \/ sl_tx_gone (get_slot s y) = true.
  Lemma sres_loc s y : sres s y -> loc s y.
  Proof. intro H. right; right; exact H. Qed.
  Lemma sres_tx_drop s id y : sres s y -> sres (slot_tx_drop s id) y.
  Proof.
    unfold sres, slot_tx_drop. rewrite get_set_slot. destruct (N.eqb_spec y id) as [->|]; cbn; tauto.
  Qed.
  Lemma sres_tx_drop_same s id : sres (slot_tx_drop s id) id.
  Proof. unfold sres, slot_tx_drop. rewrite get_set_slot, N.eqb_refl. right; reflexivity. Qed.
  Lemma sres_fold_tx_drop {A} (f : A -> N) (l : list A) : forall s y,
    sres s y \/ In y (map f l) -> sres (fold_left (fun acc p => slot_tx_drop acc (f p)) l s) y.
  Proof.
    induction l as [|x r IH]; intros s y H; cbn [fold_left].
    - destruct H as [H|[]]; exact H.
    - apply IH. cbn [map In] in H. destruct H as [H|[<-|H]]; auto.
      + left. apply sres_tx_drop, H.
      + left. apply sres_tx_drop_same.
  Qed.
  Lemma fold_tx_drop_fields {A} (f : A -> N) (l : list A) : forall s,
    let s' := fold_left (fun acc p => slot_tx_drop acc (f p)) l s in
    calls s' = calls s /\ next_id s' = next_id s /\ queue s' = queue s /\ inflight s' = inflight s /\
    rx_closed s' = rx_closed s /\ waiters s' = waiters s.
  Proof.
    induction l as [|x r IH]; intro s; cbn [fold_left]; [repeat split; reflexivity|].
    destruct (IH (slot_tx_drop s (f x))) as (H1 & H2 & H3 & H4 & H5 & H6).
    repeat split; assumption.
  Qed.

  Lemma Inv_drop_dispatch s : Inv s -> Inv (drop_dispatch s).
  Proof.
    intros [X G R Kk]. unfold drop_dispatch.
    set (s1 := q_close s).
    set (s2 := fold_left (fun acc q => slot_tx_drop acc (q_id q)) (queue s1) s1).
    set (s3 := fold_left (fun acc p => slot_tx_drop acc (fst p)) (inflight s2) s2).
    set (s4 := upd_q s3 (permits s3 + length (queue s3))%nat [] [] true).
    pose proof (IX_q_close s X) as X1. pose proof (GL_q_close s G) as G1.
    destruct (fold_tx_drop_fields q_id (queue s1) s1) as (E21 & E22 & E23 & E24 & E25 & E26). fold s2 in E21, E22, E23, E24, E25, E26.
    destruct (fold_tx_drop_fields (@fst N ifentry) (inflight s2) s2) as (E31 & E32 & E33 & E34 & E35 & E36). fold s3 in E31, E32, E33, E34, E35, E36.
    destruct X1 as [A1 C1 W1].
    destruct (GW_closed_elim _ _ W1 (q_close_closed s)) as [Hw Hn].
    constructor.
    - constructor.
      + apply (GA_frame s1); [cbn [calls upd_fin upd_cancels upd_if upd_q s4]; rewrite E31, E21; reflexivity
                             |cbn [next_id upd_fin upd_cancels upd_if upd_q s4]; rewrite E32, E22; reflexivity|exact A1].
      + constructor; cbn [cancels upd_fin upd_cancels]; [intros x []|intros x i k []].
      + apply GW_closed_intro; [reflexivity|reflexivity|].
        cbn [calls upd_fin upd_cancels upd_if upd_q s4]. rewrite E31, E21. exact Hn.
    - intros i k Hk Hp. cbn [calls upd_fin upd_cancels upd_if upd_q s4] in Hk. rewrite E31, E21 in Hk.
      apply sres_loc. unfold sres, get_slot. cbn [slots upd_fin upd_cancels upd_if upd_q s4].
      change (sres s3 (c_id k)). apply sres_fold_tx_drop.
      destruct (G1 i k Hk Hp) as [L|[L|L]].
      + left. apply sres_fold_tx_drop. right. exact L.
      + right. rewrite E24. exact L.
      + left. apply sres_fold_tx_drop. left. exact L.
    - constructor; cbn [rx_closed terminal dropped queue inflight upd_fin upd_cancels upd_if upd_q s4]; auto.
    - constructor; cbn; [reflexivity|lia].
  Qed.

  (* ---------------------------------------------------------------- every op keeps the invariant *)
  Lemma UI_trans s1 s2 s3 : UI s1 s2 -> UI s2 s3 -> UI s1 s3.
  Proof.
    intros (_ & _ & R1 & Q1) (X & G & R2 & Q2). split; [exact X|]. split; [exact G|].
    split; [congruence|]. intro Hc. rewrite Q2, Q1; [reflexivity|exact Hc|congruence].
  Qed.
  Lemma UI_refl s : IX s -> GL s -> UI s s.
  Proof. intros X G. split; [exact X|]. split; [exact G|]. auto. Qed.

  Lemma Inv_UI s s' : Inv s -> UFrame s s' -> UI s s' -> Inv s'.
  Proof.
    intros [X G [R1 R2] Kk] F (X' & G' & Rc & Rq). constructor; [exact X'|exact G'| |eapply K_U; eassumption].
    constructor.
    - rewrite Rc, (uf_terminal _ _ F), (uf_dropped _ _ F). exact R1.
    - unfold dead. rewrite (uf_finished _ _ F), (uf_dropped _ _ F). intro Hd.
      destruct (R2 Hd) as (A & B & C). split; [congruence|]. split; [rewrite (Rq A); exact B|].
      rewrite (uf_inflight _ _ F). exact C.
  Qed.

  Lemma nth_error_snoc {A} (l : list A) (x k : A) j :
    nth_error (l ++ [x]) j = Some k -> nth_error l j = Some k \/ (j = length l /\ k = x).
  Proof.
    intro H. destruct (Nat.lt_ge_cases j (length l)) as [L|L].
    - left. rewrite nth_error_app1 in H by exact L. exact H.
    - right. rewrite nth_error_app2 in H by exact L.
      destruct (j - length l)%nat eqn:E; cbn in H; [|destruct n; discriminate].
      injection H as <-. split; [lia|reflexivity].
  Qed.

  Lemma UI_new_call s (x : call) :
    IX s -> GL s -> (c_phase x = PNew \/ c_phase x = PGone) -> UI s (upd_calls s (calls s ++ [x])).
  Proof.
    intros [[A1 A2 A3] [C1 C2] [W1 W2 W3 W4 W5 W6]] G Hx.
    assert (Hidp : idp (c_phase x) = false) by (destruct Hx as [-> | ->]; reflexivity).
    assert (Hasg : is_asg x = false) by (unfold is_asg; destruct Hx as [-> | ->]; reflexivity).
    assert (Hold : forall j k, nth_error (calls s ++ [x]) j = Some k ->
                     (idp (c_phase k) = true \/ c_phase k = PAcquiring \/ c_phase k = PAwaiting) ->
                     nth_error (calls s) j = Some k).
    { intros j k Hj Hk. destruct (nth_error_snoc _ _ _ _ Hj) as [H|[_ ->]]; [exact H|].
      exfalso. destruct Hx as [E|E]; rewrite E in Hk; cbn in Hk; intuition discriminate. }
    split; [constructor; constructor; cbn [calls next_id cancels waiters rx_closed permits queue q_cap upd_calls]|].
    - intros j k Hj Hk. eapply A1; [apply Hold; eauto|exact Hk].
    - intros j1 j2 k1 k2 H1 H2 I1 I2. apply A2; auto.
    - rewrite count_app, app_length. cbn [length]. unfold count at 2. cbn [filter].
      destruct (is_new x); cbn [length]; lia.
    - exact C1.
    - intros y j k Hy Hj Hk. eapply C2; [exact Hy|apply Hold; eauto|exact Hk].
    - intros w Hw. destruct (W1 w Hw) as (k & Ek & Ep). exists k. split; [|exact Ep].
      rewrite nth_error_app1; [exact Ek|]. apply nth_error_Some. congruence.
    - exact W2.
    - exact W3.
    - intros j k Hj Hk. eapply W4; [apply Hold; eauto|exact Hk].
    - exact W5.
    - intro Hc. rewrite count_app. unfold count at 2. cbn [filter]. rewrite Hasg. cbn [length].
      specialize (W6 Hc). lia.
    - split; [|split; [reflexivity|reflexivity]].
      intros j k Hj Hk. cbn [calls upd_calls] in Hj.
      pose proof (G j k (Hold j k Hj (or_intror (or_intror Hk))) Hk) as L.
      unfold loc, get_slot in *. exact L.
  Qed.


  (* ---------------------------------------------------------------- phases only move forward *)
  Definition rankN (p : phase) : N :=
    match p with
    | PNew => 0 | PAcquiring => 1 | PAssigned => 2 | PAcqClosed => 3
    | PAwaiting => 4 | PClosing => 5 | PDone => 6 | PGone => 7 end.
  Lemma rankN_inj p q : rankN p = rankN q -> p = q.
  Proof. destruct p, q; cbn; intro H; try reflexivity; discriminate. Qed.

  Definition PM s s' : Prop :=
    length (calls s') = length (calls s) /\
    forall j k k', nth_error (calls s) j = Some k -> nth_error (calls s') j = Some k' ->
                   rankN (c_phase k) <= rankN (c_phase k').
  Lemma PM_refl s : PM s s.
  Proof. split; [reflexivity|]. intros j k k' H1 H2. rewrite H1 in H2. injection H2 as <-. lia. Qed.
  Lemma PM_eq s s' : calls s' = calls s -> PM s s'.
  Proof. intro E. unfold PM. rewrite E. apply PM_refl. Qed.
  Lemma PM_trans s1 s2 s3 : PM s1 s2 -> PM s2 s3 -> PM s1 s3.
  Proof.
    intros [L1 H1] [L2 H2]. split; [congruence|]. intros j k k'' E1 E3.
    destruct (nth_error (calls s2) j) as [k'|] eqn:E2.
    - pose proof (H1 _ _ _ E1 E2). pose proof (H2 _ _ _ E2 E3). lia.
    - exfalso. apply nth_error_None in E2. assert (nth_error (calls s1) j <> None) by congruence.
      apply nth_error_Some in H. lia.
  Qed.
  Lemma PM_set_phase s i p :
    (forall k, nth_error (calls s) i = Some k -> rankN (c_phase k) <= rankN p) -> PM s (set_phase s i p).
  Proof.
    intro H. split; [apply sp_length|]. intros j k k' E1 E2.
    destruct (nth_set_phase_inv _ _ _ _ _ E2) as (k0 & E0 & _ & [[_ ->]|[-> Hp]]).
    - rewrite E1 in E0. injection E0 as <-. lia.
    - rewrite Hp. apply H, E1.
  Qed.

  Lemma PM_release_permit d s : GW d s -> PM s (release_permit s).
  Proof.
    intro W. unfold release_permit. destruct (waiters s) as [|w r] eqn:Ew; [apply PM_eq; reflexivity|].
    destruct (w_acq _ _ W w) as (k & Ek & Ep); [rewrite Ew; left; reflexivity|].
    eapply PM_trans; [apply (PM_eq s (upd_q s (permits s) (queue s) r (rx_closed s))); reflexivity|].
    apply PM_set_phase. cbn [calls upd_q]. intros k' Ek'. rewrite Ek in Ek'. injection Ek' as <-.
    rewrite Ep. cbn. lia.
  Qed.

  Lemma PM_q_poll_recv s r s' : q_poll_recv s = (r, s') -> IX s -> PM s s'.
  Proof.
    intros H X. destruct r as [q| |];
      try (destruct (q_poll_recv_other _ _ _ H) as [-> _]; [discriminate|apply PM_refl]).
    destruct (q_poll_recv_some _ _ _ H) as (rest & Eq & ->).
    eapply PM_trans; [apply (PM_eq s (upd_q s (permits s) rest (waiters s) (rx_closed s))); reflexivity|].
    apply (PM_release_permit 1). destruct (ix_w _ X) as [W1 W2 W3 W4 W5 W6]. constructor; try assumption.
    cbn [rx_closed queue permits calls q_cap upd_q]. intro Hc. specialize (W6 Hc).
    rewrite Eq in W6. cbn [length] in W6. lia.
  Qed.

  Lemma PM_next_request_loop f : forall s r s', next_request_loop f s = (r, s') -> IX s -> PM s s'.
  Proof.
    induction f as [|f IH]; intros s r s' H X; cbn [next_request_loop] in H.
    - injection H as _ <-. apply PM_refl.
    - destruct (q_poll_recv s) as [x s1] eqn:E.
      pose proof (IX_q_poll_recv _ _ _ E X) as X1. pose proof (PM_q_poll_recv _ _ _ E X) as P1.
      destruct x as [q| |]; try (injection H as _ <-; exact P1).
      destruct (sl_rx_closed _); [|injection H as _ <-; exact P1].
      eapply PM_trans; [exact P1|]. eapply PM_trans; [|eapply IH; [exact H|apply IX_slot_tx_drop, X1]].
      apply PM_eq. reflexivity.
  Qed.

  Lemma PM_drain_loop f a : forall s b s', drain_loop f a s = (b, s') -> IX s -> PM s s'.
  Proof.
    induction f as [|f IH]; intros s b s' H X; cbn [drain_loop] in H.
    - injection H as _ <-. apply PM_refl.
    - destruct (q_poll_recv s) as [x s1] eqn:E.
      pose proof (IX_q_poll_recv _ _ _ E X) as X1. pose proof (PM_q_poll_recv _ _ _ E X) as P1.
      destruct x as [q| |]; try (injection H as _ <-; exact P1).
      eapply PM_trans; [exact P1|]. eapply PM_trans; [|eapply IH; [exact H|apply IX_slot_send, X1]].
      apply PM_eq, calls_slot_send.
  Qed.

  Lemma PM_q_close s : IX s -> PM s (q_close s).
  Proof.
    intro X. unfold q_close. destruct (rx_closed s); [apply PM_refl|].
    split; [cbn [calls upd_q]; apply fold_sp_length|]. cbn [calls upd_q]. intros j k k' E1 E2.
    destruct (fold_sp_nth _ _ _ _ _ E2) as (k0 & E0 & _ & [[_ ->]|[Hin Hp]]).
    - rewrite E1 in E0. injection E0 as <-. lia.
    - destruct (w_acq _ _ (ix_w _ X) j Hin) as (k1 & Ek1 & Ep1). rewrite E1 in Ek1. injection Ek1 as <-.
      rewrite Ep1, Hp. cbn. lia.
  Qed.

  Lemma PM_shut_down s a b s' : shut_down s a = (b, s') -> IX s -> PM s s'.
  Proof.
    unfold shut_down. intros H X.
    pose proof (TFrame_complete_all (q_close s) (OConnErr a)) as F.
    eapply PM_trans; [apply PM_q_close, X|]. eapply PM_trans; [apply PM_eq, (tf_calls _ _ F)|].
    eapply PM_drain_loop; [exact H|]. eapply IX_TFrame; [exact F|apply IX_q_close, X].
  Qed.

  Lemma PM_X s s' : XFrame s s' -> PM s s'.
  Proof. intro F. apply PM_eq, F. Qed.
  Lemma PM_T s s' : TFrame s s' -> PM s s'.
  Proof. intro F. apply PM_eq, F. Qed.

  Lemma PM_poll_write_request s r s' : poll_write_request tp s = (r, s') -> DI s -> PM s s'.
  Proof.
    intros H D. apply poll_write_request_inv in H.
    destruct H as [_|r s1 _ H1 Hr|r s1 s2 _ H1 H2 Hr|s1 q s2 w s3 L H1 H2 H3].
    - apply PM_refl.
    - apply PM_X. eapply XFrame_ensure_writeable, H1.
    - pose proof (XFrame_ensure_writeable _ _ _ _ H1) as F1.
      eapply PM_trans; [apply PM_X, F1|]. eapply PM_next_request_loop; [exact H2|].
      eapply IX_XFrame; [exact F1|apply D].
    - pose proof (XFrame_ensure_writeable _ _ _ _ H1) as F1.
      eapply PM_trans; [apply PM_X, F1|].
      eapply PM_trans; [eapply PM_next_request_loop; [exact H2|eapply IX_XFrame; [exact F1|apply D]]|].
      eapply PM_trans; [apply PM_T, TFrame_insert_request|].
      eapply PM_trans; [apply PM_X; eapply XFrame_do_send, H3|].
      destruct w; [apply PM_refl|apply PM_T, TFrame_complete_request].
  Qed.

  Lemma PM_poll_write_cancel s r s' : poll_write_cancel tp s = (r, s') -> PM s s'.
  Proof.
    intro H. apply poll_write_cancel_inv in H.
    destruct H as [r s1 H1 Hr|r s1 s2 H1 H2 Hr|s1 id e s2 w s3 H1 H2 H3];
      (eapply PM_trans; [apply PM_X; eapply XFrame_ensure_writeable, H1|]); try apply PM_refl.
    - pose proof (CFrame_next_cancel_loop (S (length (cancels s1))) s1) as F. rewrite H2 in F.
      apply PM_eq, F.
    - pose proof (CFrame_next_cancel_loop (S (length (cancels s1))) s1) as F. rewrite H2 in F.
      eapply PM_trans; [apply PM_eq, F|]. apply PM_X. eapply XFrame_do_send, H3.
  Qed.

  Lemma PM_pump_write s r s' : pump_write tp s = (r, s') -> DI s -> PM s s'.
  Proof.
    intros H D. apply pump_write_inv in H.
    destruct H as [a s1 H1|u s1 H1|r1 s1 a s2 H1 I1 H2|r1 s1 u s2 H1 I1 H2
                  |r1 s1 r2 s2 id s3 H1 I1 H2 I2 H3|s1 s2 s3 x s4 H1 H2 H3 H4
                  |r1 s1 r2 s2 s3 x s4 H1 I1 H2 I2 I12 H3 H4];
      pose proof (PM_poll_write_request _ _ _ H1 D) as P1; try exact P1;
      pose proof (PM_poll_write_cancel _ _ _ H2) as P2;
      try (eapply PM_trans; eassumption);
      pose proof (PM_T _ _ (TFrame_poll_expired s2)) as P3; rewrite H3 in P3; cbn [snd] in P3.
    - eapply PM_trans; [exact P1|]. eapply PM_trans; eassumption.
    - eapply PM_trans; [exact P1|]. eapply PM_trans; [exact P2|]. eapply PM_trans; [exact P3|].
      apply PM_X. eapply XFrame_do_close, H4.
    - eapply PM_trans; [exact P1|]. eapply PM_trans; [exact P2|]. eapply PM_trans; [exact P3|].
      apply PM_X. eapply XFrame_do_flush, H4.
  Qed.

  Lemma PM_pump_read s r s' : pump_read tp s = (r, s') -> PM s s'.
  Proof.
    intro H. apply pump_read_inv in H. destruct H as (x & s1 & H1 & -> & ->).
    eapply PM_trans; [apply PM_X; eapply XFrame_do_next, H1|].
    destruct x; try apply PM_refl. apply PM_T, TFrame_complete.
  Qed.

  Lemma PM_run_loop f : forall s r s', run_loop tp f s = (r, s') -> DI s -> PM s s'.
  Proof.
    induction f as [|f IH]; intros s r s' H D; [cbn in H; injection H as _ <-; apply PM_refl|].
    apply run_loop_inv in H.
    destruct H as [a s1 H1|rd s1 a s2 H1 N1 H2|s1 wr s2 H1 H2 N2|rd s1 s2 H1 D1 H2 L2
                  |s1 wr s2 H1 H2 D2|rd s1 wr s2 r s3 H1 H2 D' H3];
      pose proof (PM_pump_read _ _ _ H1) as P1; try exact P1;
      destruct (DI_pump_read _ _ _ H1 D) as [E1 _];
      pose proof (PM_pump_write _ _ _ H2 E1) as P2; try (eapply PM_trans; eassumption).
    destruct (DI_pump_write _ _ _ H2 E1) as [E2 _].
    eapply PM_trans; [exact P1|]. eapply PM_trans; [exact P2|]. eapply IH; eassumption.
  Qed.

  Lemma PM_poll_dispatch fuel s r s1 : poll_dispatch tp fuel s = (r, s1) -> DI s -> PM s s1.
  Proof.
    unfold poll_dispatch. intros H D. destruct (terminal s) as [a|].
    - destruct (shut_down s a) as [b s'] eqn:Es. pose proof (PM_shut_down _ _ _ _ Es (di_x _ D)) as P.
      destruct b; injection H as _ <-; exact P.
    - destruct (run_loop tp fuel s) as [rr s'] eqn:Er.
      pose proof (PM_run_loop _ _ _ _ Er D) as P. destruct (DI_run_loop _ _ _ _ Er D) as [D1 _].
      destruct rr as [|a| |]; try (injection H as _ <-; exact P).
      destruct (shut_down (upd_term s' (Some a)) a) as [b s3] eqn:Es.
      assert (D2 : DI (upd_term s' (Some a))) by (eapply DI_same; [..|exact D1]; reflexivity).
      pose proof (PM_shut_down _ _ _ _ Es (di_x _ D2)) as P2.
      assert (P3 : PM s s3).
      { eapply PM_trans; [exact P|]. eapply PM_trans; [|exact P2]. apply PM_eq. reflexivity. }
      destruct b; injection H as _ <-; exact P3.
  Qed.

  (* ---------------------------------------------------------------- the shape of a call poll *)
  Definition SN s s' (i : nat) (k' : call) : Prop := calls s' = set_nth i k' (calls s).
  Lemma SN_set_phase s i p k : nth_error (calls s) i = Some k -> SN s (set_phase s i p) i (with_phase k p).
  Proof. intro E. unfold SN. rewrite sp_calls, E. reflexivity. Qed.
  Lemma SN_trans s s1 s2 i k1 k2 : SN s s1 i k1 -> SN s1 s2 i k2 -> SN s s2 i k2.
  Proof. unfold SN. intros -> ->. apply set_nth_twice. Qed.
  Lemma SN_nth s s' i k k' : nth_error (calls s) i = Some k -> SN s s' i k' -> nth_error (calls s') i = Some k'.
  Proof. unfold SN. intros E ->. rewrite nth_set_nth, Nat.eqb_refl, E. reflexivity. Qed.
  Lemma SN_frame s s1 s2 i k' : calls s1 = calls s -> SN s1 s2 i k' -> SN s s2 i k'.
  Proof. unfold SN. intros <- H. exact H. Qed.

  Lemma poll_slot_shape s i id k :
    nth_error (calls s) i = Some k ->
    (poll_slot s i id = (CPending, s) /\ sl_val (get_slot s id) = None /\ sl_tx_gone (get_slot s id) = false)
    \/ SN s (snd (poll_slot s i id)) i (with_phase k PDone).
  Proof.
    intro E. unfold poll_slot. destruct (sl_val (get_slot s id)) eqn:Ev; cbn [snd].
    - right. eapply SN_frame; [|apply SN_set_phase; exact E]. reflexivity.
    - destruct (sl_tx_gone (get_slot s id)) eqn:Et; cbn [snd]; [|left; auto].
      right. eapply SN_frame; [|apply SN_set_phase; exact E]. reflexivity.
  Qed.

  Lemma enqueue_shape s i c id tc k :
    nth_error (calls s) i = Some k -> rankN (c_phase k) < 4 ->
    exists k', SN s (snd (enqueue s i c id tc)) i k' /\ rankN (c_phase k) < rankN (c_phase k').
  Proof.
    intros E Hr. rewrite enqueue_eq.
    assert (S1 : SN s (enq_state s i c id tc) i (with_phase k PAwaiting)).
    { unfold enq_state. eapply SN_frame; [|apply SN_set_phase; exact E]. reflexivity. }
    pose proof (SN_nth _ _ _ _ _ E S1) as E1.
    destruct (poll_slot_shape (enq_state s i c id tc) i id _ E1) as [(H & _)|H].
    - rewrite H. cbn [snd]. eexists. split; [exact S1|]. cbn. exact Hr.
    - eexists. split; [eapply SN_trans; eassumption|]. cbn. lia.
  Qed.

  Lemma fail_shutdown_shape s i id k :
    nth_error (calls s) i = Some k -> SN s (snd (fail_shutdown s i id)) i (with_phase k PDone).
  Proof.
    intro E. rewrite fail_shutdown_eq. cbn [snd]. eapply SN_frame; [apply fsp_calls|].
    apply SN_set_phase. rewrite fsp_calls. exact E.
  Qed.

  Lemma poll_call_shape s i c :
    nth_error (calls s) i = Some c ->
    (poll_call s i = (CPending, s) /\
     (c_phase c = PAcquiring \/
      (c_phase c = PAwaiting /\ sl_val (get_slot s (c_id c)) = None /\ sl_tx_gone (get_slot s (c_id c)) = false)))
    \/ (poll_call s i = (CNothing, s) /\ is_live (c_phase c) = false)
    \/ (exists k', SN s (snd (poll_call s i)) i k' /\ rankN (c_phase c) < rankN (c_phase k')).
  Proof.
    intro Ec. destruct (c_phase c) eqn:Hp.
    - (* PNew *)
      right; right. rewrite (poll_call_new s i c Ec Hp). cbv zeta.
      set (s1 := fp_state s i c). set (id := next_id s).
      assert (S1 : SN s s1 i (with_cid c id)) by reflexivity.
      pose proof (SN_nth _ _ _ _ _ Ec S1) as E1.
      assert (R1 : rankN (c_phase (with_cid c id)) = 0) by (cbn; rewrite Hp; reflexivity).
      destruct (rx_closed s1).
      + eexists. split; [eapply SN_trans; [exact S1|apply fail_shutdown_shape, E1]|]. cbn. lia.
      + destruct (permits s1) as [|p].
        * cbn [snd]. eexists. split.
          -- eapply SN_trans; [exact S1|]. eapply SN_frame; [|apply SN_set_phase; exact E1]. reflexivity.
          -- cbn. lia.
        * match goal with |- context [enqueue ?x i c id ?tc] =>
            destruct (enqueue_shape x i c id tc _ E1) as (k' & Sk & Hk); [rewrite R1; lia|] end.
          exists k'. split; [eapply SN_trans; [exact S1|]; eapply SN_frame; [|exact Sk]; reflexivity|].
          rewrite R1 in Hk. cbn [rankN]. lia.
    - left. unfold poll_call. rewrite Ec, Hp. auto.
    - (* PAssigned *)
      right; right. unfold poll_call. rewrite Ec, Hp. destruct (rx_closed s).
      + eexists. split; [eapply SN_frame; [|apply fail_shutdown_shape; exact Ec]; reflexivity|].
        cbn. lia.
      + destruct (enqueue_shape s i c (c_id c)
                    {| tc_tid := tc_tid (c_tc c); tc_sid := c_id c; tc_sampled := tc_sampled (c_tc c) |} _ Ec)
          as (k' & Sk & Hk); [rewrite Hp; cbn; lia|].
        exists k'. rewrite Hp in Hk. auto.
    - (* PAcqClosed *)
      right; right. unfold poll_call. rewrite Ec, Hp.
      eexists. split; [apply fail_shutdown_shape; exact Ec|]. cbn. lia.
    - (* PAwaiting *)
      unfold poll_call. rewrite Ec, Hp.
      destruct (poll_slot_shape s i (c_id c) _ Ec) as [(H & Hv & Ht)|H].
      + left. auto.
      + right; right. eexists. split; [exact H|]. cbn. lia.
    - right; left. unfold poll_call. rewrite Ec, Hp. auto.
    - right; left. unfold poll_call. rewrite Ec, Hp. auto.
    - right; left. unfold poll_call. rewrite Ec, Hp. auto.
  Qed.

  Lemma poll_call_none s i : nth_error (calls s) i = None -> poll_call s i = (CNothing, s).
  Proof. intro E. unfold poll_call. rewrite E. reflexivity. Qed.

  Lemma PM_SN s s' i k k' :
    nth_error (calls s) i = Some k -> SN s s' i k' -> rankN (c_phase k) <= rankN (c_phase k') -> PM s s'.
  Proof.
    unfold SN. intros E S H. unfold PM. rewrite S. split; [apply set_nth_length|]. intros j k1 k2 E1 E2.
    apply nth_set_nth_inv in E2. destruct E2 as [[_ E2]|[-> [-> _]]].
    - rewrite E1 in E2. injection E2 as <-. lia.
    - rewrite E in E1. injection E1 as <-. exact H.
  Qed.

  Lemma PM_poll_call s i : PM s (snd (poll_call s i)).
  Proof.
    destruct (nth_error (calls s) i) as [c|] eqn:Ec; [|rewrite (poll_call_none _ _ Ec); apply PM_refl].
    destruct (poll_call_shape s i c Ec) as [[H _]|[[H _]|(k' & Sk & Hk)]];
      try (rewrite H; apply PM_refl).
    eapply PM_SN; [exact Ec|exact Sk|lia].
  Qed.

  Lemma poll_call_other s i j : j <> i -> nth_error (calls (snd (poll_call s i))) j = nth_error (calls s) j.
  Proof.
    intro Hn. destruct (nth_error (calls s) i) as [c|] eqn:Ec; [|rewrite (poll_call_none _ _ Ec); reflexivity].
    destruct (poll_call_shape s i c Ec) as [[H _]|[[H _]|(k' & Sk & Hk)]];
      try (rewrite H; reflexivity).
    rewrite Sk. apply nth_error_set_nth_other. congruence.
  Qed.

  (* ---------------------------------------------------------------- poll_calls *)
  Definition PE s s' : Prop :=
    forall j k k', nth_error (calls s) j = Some k -> nth_error (calls s') j = Some k' ->
                   c_phase k' = c_phase k.

  Lemma PM_nth s s' j k : PM s s' -> nth_error (calls s) j = Some k -> exists k', nth_error (calls s') j = Some k'.
  Proof.
    intros [L _] E. destruct (nth_error (calls s') j) eqn:E'; [eauto|].
    apply nth_error_None in E'. assert (nth_error (calls s) j <> None) by congruence.
    apply nth_error_Some in H. lia.
  Qed.
  Lemma PM_nth_back s s' j k' : PM s s' -> nth_error (calls s') j = Some k' -> exists k, nth_error (calls s) j = Some k.
  Proof.
    intros [L _] E. destruct (nth_error (calls s) j) eqn:E'; [eauto|].
    apply nth_error_None in E'. assert (nth_error (calls s') j <> None) by congruence.
    apply nth_error_Some in H. lia.
  Qed.

  Lemma PE_split s s1 s2 : PM s s1 -> PM s1 s2 -> PE s s2 -> PE s s1 /\ PE s1 s2.
  Proof.
    intros P1 P2 E. split.
    - intros j k k1 Ek Ek1. destruct (PM_nth _ _ _ _ P2 Ek1) as (k2 & Ek2).
      pose proof (proj2 P1 _ _ _ Ek Ek1). pose proof (proj2 P2 _ _ _ Ek1 Ek2).
      pose proof (E _ _ _ Ek Ek2) as X. apply rankN_inj. rewrite X in H0. apply N.le_antisymm; assumption.
    - intros j k1 k2 Ek1 Ek2. destruct (PM_nth_back _ _ _ _ P1 Ek1) as (k & Ek).
      pose proof (proj2 P1 _ _ _ Ek Ek1). pose proof (proj2 P2 _ _ _ Ek1 Ek2).
      pose proof (E _ _ _ Ek Ek2) as X. apply rankN_inj. rewrite X. rewrite X in H0.
      apply N.le_antisymm; [exact H|exact H0].
  Qed.

  Definition quiet_call s (k : call) : Prop :=
    c_phase k = PAcquiring \/
    (c_phase k = PAwaiting /\ sl_val (get_slot s (c_id k)) = None /\ sl_tx_gone (get_slot s (c_id k)) = false).

  Notation pcalls := (poll_calls (T := T)).

  Lemma poll_calls_step s i n acc :
    pcalls s i (S n) acc =
    if match nth_error (calls s) i with Some c => is_live (c_phase c) | None => false end
    then let '(r, s1) := poll_call s i in
         pcalls s1 (S i) n (match r with CDone o => acc ++ [(i, o)] | _ => acc end)
    else pcalls s (S i) n acc.
  Proof. reflexivity. Qed.

  Lemma PM_poll_calls n : forall s i acc, PM s (fst (pcalls s i n acc)).
  Proof.
    induction n as [|n IH]; intros s i acc; [apply PM_refl|]. rewrite poll_calls_step.
    destruct (match nth_error (calls s) i with Some c => is_live (c_phase c) | None => false end); [|apply IH].
    pose proof (PM_poll_call s i) as P. destruct (poll_call s i) as [r s1]. cbn [snd] in P.
    eapply PM_trans; [exact P|apply IH].
  Qed.

  Lemma Inv_poll_calls n : forall s i acc, Inv s -> NW s -> Inv (fst (pcalls s i n acc)).
  Proof.
    induction n as [|n IH]; intros s i acc I Hnw; [exact I|]. rewrite poll_calls_step.
    destruct (match nth_error (calls s) i with Some c => is_live (c_phase c) | None => false end);
      [|apply IH; assumption].
    pose proof (poll_call_UI s i (iv_x _ I) (iv_l _ I) Hnw) as U. pose proof (UFrame_poll_call s i) as F.
    pose proof (PM_poll_call s i) as P.
    destruct (poll_call s i) as [r s1]. cbn [snd] in *.
    apply IH; [eapply Inv_UI; eassumption|]. unfold NW. rewrite (proj1 P). exact Hnw.
  Qed.

  Lemma poll_calls_quiet n : forall s i acc s2 dn,
    pcalls s i n acc = (s2, dn) -> PE s s2 ->
    s2 = s /\ dn = acc /\
    forall j k, (i <= j < i + n)%nat -> nth_error (calls s) j = Some k ->
                is_live (c_phase k) = true -> quiet_call s k.
  Proof.
    induction n as [|n IH]; intros s i acc s2 dn H E.
    - cbn in H. injection H as <- <-. repeat split. intros j k Hj. lia.
    - rewrite poll_calls_step in H.
      destruct (nth_error (calls s) i) as [c|] eqn:Ec.
      + destruct (is_live (c_phase c)) eqn:Hl.
        * pose proof (PM_poll_call s i) as P1.
          destruct (poll_call_shape s i c Ec) as [[Hq Hc]|[[Hq Hc]|(k' & Sk & Hk)]].
          -- rewrite Hq in H. destruct (IH _ _ _ _ _ H E) as (-> & -> & Hall).
             repeat split. intros j k Hj Ek Hlk.
             destruct (Nat.eq_dec j i) as [->|Hn]; [|apply (Hall j); [lia|exact Ek|exact Hlk]].
             rewrite Ec in Ek. injection Ek as <-. exact Hc.
          -- congruence.
          -- exfalso. destruct (poll_call s i) as [r s1] eqn:Ep. cbn [snd] in *.
             pose proof (PM_poll_calls n s1 (S i) (match r with CDone o => acc ++ [(i, o)] | _ => acc end)) as P2.
             rewrite H in P2. cbn [fst] in P2.
             destruct (PE_split _ _ _ P1 P2 E) as [E1 _].
             pose proof (E1 i c k' Ec (SN_nth _ _ _ _ _ Ec Sk)) as X. rewrite X in Hk. lia.
        * destruct (IH _ _ _ _ _ H E) as (-> & -> & Hall).
          repeat split. intros j k Hj Ek Hlk.
          destruct (Nat.eq_dec j i) as [->|Hn]; [congruence|apply (Hall j); [lia|exact Ek|exact Hlk]].
      + destruct (IH _ _ _ _ _ H E) as (-> & -> & Hall).
        repeat split. intros j k Hj Ek Hlk.
        destruct (Nat.eq_dec j i) as [->|Hn]; [congruence|apply (Hall j); [lia|exact Ek|exact Hlk]].
  Qed.

  Variable fuel_of : cstate -> nat.

  Lemma Inv_step s o : Inv s -> NW s -> Inv (fst (step tp fuel_of s o)).
  Proof.
    intros I Hnw.
    assert (Easy : forall s', UI s s' -> UFrame s s' -> Inv s') by (intros; eapply Inv_UI; eassumption).
    pose proof (iv_x _ I) as X. pose proof (iv_l _ I) as G.
    destruct o; cbn [step fst].
    - (* CloneHandle *)
      destruct (nth_error (handles s) h) as [[|]|]; try exact I.
      apply Easy; [|apply UFrame_upd_misc]. unfold UI.
      split; [eapply IX_same; [..|exact X]; reflexivity|].
      split; [eapply GL_frame; [..|exact G]; reflexivity|auto].
    - (* DropHandle *)
      destruct (nth_error (handles s) h) as [[|]|]; try exact I.
      apply Easy; [|apply UFrame_upd_misc]. unfold UI.
      split; [eapply IX_same; [..|exact X]; reflexivity|].
      split; [eapply GL_frame; [..|exact G]; reflexivity|auto].
    - (* Call *)
      apply Easy; [|apply UFrame_upd_calls]. apply UI_new_call; [exact X|exact G|].
      cbn [c_phase]. destruct (nth_error (handles s) h) as [[|]|]; auto.
    - (* PollCall *)
      pose proof (poll_call_UI s i X G Hnw) as U. pose proof (UFrame_poll_call s i) as F.
      destruct (poll_call s i) as [r s1]. cbn [fst snd] in *. eapply Inv_UI; eassumption.
    - (* DropCall *)
      destruct (option_map c_phase (nth_error (calls s) i)) as [[]|];
        try exact I;
        (pose proof (guard_close_UI s i X G) as U1;
         pose proof (guard_cancel_UI (guard_close s i) i (proj1 U1) (proj1 (proj2 U1))) as U2;
         apply Easy; [eapply UI_trans; eassumption
                     |eapply UFrame_trans; [apply UFrame_guard_close|apply UFrame_guard_cancel]]).
    - (* GuardClose *)
      destruct (option_map c_phase (nth_error (calls s) i)) as [[]|];
        try exact I; (apply Easy; [apply guard_close_UI; assumption|apply UFrame_guard_close]).
    - (* GuardCancel *)
      apply Easy; [apply guard_cancel_UI; assumption|apply UFrame_guard_cancel].
    - (* PollDispatch *)
      destruct (finished s) eqn:Ef; [exact I|]. destruct (dropped s) eqn:Ed; [exact I|].
      destruct (poll_dispatch tp _ _) as [r s1] eqn:Ep. cbn [fst].
      exact (Inv_after_pd _ _ _ _ Ep I Ef Ed).
    - (* DropDispatch *)
      destruct (dropped s); [exact I|apply Inv_drop_dispatch, I].
    - (* Advance *)
      apply Easy; [|apply UFrame_upd_misc]. unfold UI.
      split; [eapply IX_same; [..|exact X]; reflexivity|].
      split; [eapply GL_frame; [..|exact G]; reflexivity|auto].
    - (* Tr *)
      apply Easy; [|constructor; reflexivity]. unfold UI.
      split; [eapply IX_same; [..|exact X]; reflexivity|].
      split; [eapply GL_frame; [..|exact G]; reflexivity|auto].
  Qed.

  (* ---------------------------------------------------------------- settle *)
  Lemma list_eqb_N_eq (a : list N) : forall b, list_eqb N.eqb a b = true -> a = b.
  Proof.
    induction a as [|x r IH]; intros [|y r'] H; cbn in H; try discriminate; [reflexivity|].
    apply andb_true_iff in H. destruct H as [H1 H2]. apply N.eqb_eq in H1. f_equal; auto.
  Qed.
  Lemma activity_eqb_eq a b : activity_eqb a b = true -> a = b.
  Proof. destruct a, b; cbn; intro; try reflexivity; discriminate. Qed.

  Definition phases s : list N := map (fun c => rankN (c_phase c)) (calls s).

  Lemma digest_eqb_true s s' :
    digest_eqb (digest s) (digest s') = true ->
    length (inflight s') = length (inflight s) /\ phases s' = phases s /\
    rx_closed s' = rx_closed s /\ terminal s' = terminal s /\ finished s' = finished s.
  Proof.
    unfold digest, digest_eqb. intro H.
    repeat (apply andb_true_iff in H; destruct H as [H ?]).
    repeat match goal with X : Nat.eqb _ _ = true |- _ => apply Nat.eqb_eq in X end.
    match goal with X : list_eqb _ _ _ = true |- _ => apply list_eqb_N_eq in X; rename X into Hp end.
    match goal with X : Bool.eqb _ _ = true |- _ => apply Bool.eqb_prop in X; rename X into Hc end.
    split; [congruence|]. split; [symmetry; exact Hp|]. split; [congruence|]. split.
    - destruct (terminal s) as [a|], (terminal s') as [b|]; cbn in *; try discriminate; try reflexivity.
      f_equal. symmetry. apply activity_eqb_eq. assumption.
    - destruct (finished s) as [[|a]|], (finished s') as [[|b]|]; cbn in *; try discriminate; try reflexivity.
      do 2 f_equal. symmetry. apply activity_eqb_eq. assumption.
  Qed.

  Lemma phases_PE s s' : phases s' = phases s -> PE s s'.
  Proof.
    intros H j k k' E1 E2. unfold phases in H.
    assert (X : nth_error (map (fun c => rankN (c_phase c)) (calls s')) j =
                nth_error (map (fun c => rankN (c_phase c)) (calls s)) j) by (rewrite H; reflexivity).
    rewrite !nth_error_map, E1, E2 in X. cbn in X. injection X as X. apply rankN_inj, X.
  Qed.

  Lemma drain_false f a : forall s s',
    drain_loop f a s = (false, s') -> (length (queue s) < f)%nat -> rx_closed s = true ->
    count is_asg (calls s') <> 0%nat.
  Proof.
    induction f as [|f IH]; intros s s' H L Hc; [lia|]. cbn [drain_loop] in H.
    destruct (q_poll_recv s) as [x s1] eqn:E.
    pose proof (queue_q_poll_recv _ _ _ E) as Q. pose proof (rxc_q_poll_recv _ _ _ E) as R.
    destruct x as [q| |]; [|discriminate|].
    - apply IH in H; [exact H| |].
      + rewrite (tf_queue _ _ (TFrame_slot_send s1 (q_id q) (OConnErr a))). lia.
      + rewrite (tf_rxc _ _ (TFrame_slot_send s1 (q_id q) (OConnErr a))). congruence.
    - injection H as <-. subst s1. revert E. unfold q_poll_recv.
      destruct (queue s); [|discriminate]. destruct (Nat.eqb (senders s) 0); [discriminate|].
      rewrite Hc. cbn [andb]. rewrite assigned_count_eq.
      destruct (Nat.eqb_spec (count is_asg (calls s)) 0); [discriminate|]. intros _. assumption.
  Qed.

  (* one round, as settle computes it *)
  Definition disp_half s (o : sobs) : cstate * sobs :=
    match finished s, dropped s with
    | None, false =>
      let s0 := upd_tr s (tr s) (fused s) [] in
      let '(res, s') := poll_dispatch tp (fuel_of s0) s0 in
      (after_pd res s',
       {| so_sent := so_sent o ++ sends_of (plog s'); so_read := so_read o ++ reads_of (plog s');
          so_done := so_done o;
          so_disp := match res with DReady d => Some d | _ => so_disp o end;
          so_fuel := match res with DFuel => true | _ => so_fuel o end |})
    | _, _ => (s, o)
    end.

  Definition round s (o : sobs) : cstate * sobs * bool :=
    let '(s1, o1) := disp_half s o in
    let '(s2, dn) := poll_calls s1 0 (length (calls s1)) [] in
    let o2 := {| so_sent := so_sent o1; so_read := so_read o1; so_done := so_done o1 ++ dn;
                 so_disp := so_disp o1; so_fuel := so_fuel o1 |} in
    (s2, o2,
     digest_eqb (digest s) (digest s2) && Nat.eqb (length dn) 0
     && Nat.eqb (length (so_sent o2)) (length (so_sent o))
     && Nat.eqb (length (so_read o2)) (length (so_read o))).

  Lemma settle_S n s o :
    settle tp fuel_of (S n) s o =
    let '(s2, o2, q) := round s o in if q then (s2, o2) else settle tp fuel_of n s2 o2.
  Proof.
    unfold round, disp_half. cbn [settle].
    destruct (finished s); [|destruct (dropped s)].
    - destruct (poll_calls s 0 (length (calls s)) []); reflexivity.
    - destruct (poll_calls s 0 (length (calls s)) []); reflexivity.
    - destruct (poll_dispatch tp _ _) as [res s']. unfold after_pd.
      destruct (poll_calls _ 0 _ []); reflexivity.
  Qed.

  Lemma disp_half_Inv s o : Inv s -> Inv (fst (disp_half s o)) /\ PM s (fst (disp_half s o)).
  Proof.
    intro I. unfold disp_half.
    destruct (finished s) eqn:Ef; [split; [exact I|apply PM_refl]|].
    destruct (dropped s) eqn:Ed; [split; [exact I|apply PM_refl]|].
    destruct (poll_dispatch tp _ _) as [res s'] eqn:Ep. cbn [fst].
    split; [exact (Inv_after_pd _ _ _ _ Ep I Ef Ed)|].
    eapply PM_trans; [apply (PM_eq s (upd_tr s (tr s) (fused s) [])); reflexivity|].
    eapply PM_trans; [eapply PM_poll_dispatch; [exact Ep|]|].
    - eapply DI_same; [..|exact (Build_DI _ (iv_x _ I) (iv_l _ I))]; reflexivity.
    - apply PM_eq. unfold after_pd. destruct res; reflexivity.
  Qed.

  Lemma NW_PM s s' : PM s s' -> NW s -> NW s'.
  Proof. intros [L _]. unfold NW. rewrite L. auto. Qed.

  Lemma round_Inv s o : Inv s -> NW s -> Inv (fst (fst (round s o))) /\ PM s (fst (fst (round s o))).
  Proof.
    intros I Hnw. unfold round. destruct (disp_half_Inv s o I) as [I1 P1].
    destruct (disp_half s o) as [s1 o1]. cbn [fst] in I1, P1.
    pose proof (Inv_poll_calls (length (calls s1)) s1 0 [] I1 (NW_PM _ _ P1 Hnw)) as I2.
    pose proof (PM_poll_calls (length (calls s1)) s1 0 []) as P2.
    destruct (poll_calls s1 0 (length (calls s1)) []) as [s2 dn]. cbn [fst] in *.
    split; [exact I2|eapply PM_trans; eassumption].
  Qed.

  Lemma settle_Inv n : forall s o, Inv s -> NW s ->
    Inv (fst (settle tp fuel_of n s o)) /\ PM s (fst (settle tp fuel_of n s o)).
  Proof.
    induction n as [|n IH]; intros s o I Hnw; [split; [exact I|apply PM_refl]|].
    rewrite settle_S. destruct (round_Inv s o I Hnw) as [I2 P2].
    destruct (round s o) as [[s2 o2] q]. cbn [fst] in I2, P2.
    destruct q; [split; assumption|].
    destruct (IH s2 o2 I2 (NW_PM _ _ P2 Hnw)) as [I3 P3]. split; [exact I3|eapply PM_trans; eassumption].
  Qed.

  (* ---------------------------------------------------------------- a quiet round *)
  Definition QD s' : Prop :=
    exists sa sb, Inv sa /\ plog sa = [] /\ terminal sa = None /\
      poll_dispatch tp (fuel_of sa) sa = (DPending, sb) /\ s' = after_pd DPending sb /\
      sends_of (plog sb) = [] /\ reads_of (plog sb) = [] /\
      length (inflight sb) = length (inflight sa) /\ terminal sb = None.

  Record QF s' : Prop := {
    qf_calls : forall j k, nth_error (calls s') j = Some k -> is_live (c_phase k) = true -> quiet_call s' k;
    qf_disp : finished s' = None -> dropped s' = false -> QD s' }.

  Lemma Inv_upd_tr s t f l : Inv s -> Inv (upd_tr s t f l).
  Proof.
    intros [X G R Kk]. constructor.
    - eapply IX_same; [..|exact X]; reflexivity.
    - eapply GL_frame; [..|exact G]; reflexivity.
    - eapply GR_frame; [..|exact R]; reflexivity.
    - eapply K_frame; [..|exact Kk]; reflexivity.
  Qed.

  Lemma app_length_same {A} (a b : list A) : length (a ++ b) = length a -> b = [].
  Proof. rewrite app_length. intro H. apply length_zero_iff_nil. lia. Qed.

  Lemma round_quiet s o s2 o2 :
    round s o = (s2, o2, true) -> Inv s -> NW s -> so_fuel o2 = false -> QF s2.
  Proof.
    unfold round. intros H I Hnw Hfuel.
    destruct (disp_half_Inv s o I) as [I1 P1].
    destruct (disp_half s o) as [s1 o1] eqn:Ed. cbn [fst] in I1, P1.
    pose proof (PM_poll_calls (length (calls s1)) s1 0 []) as P2.
    destruct (poll_calls s1 0 (length (calls s1)) []) as [s2' dn] eqn:Ec. cbn [fst] in P2.
    injection H as -> <- Hq. cbn [so_sent so_read so_fuel] in *.
    do 3 (apply andb_true_iff in Hq; destruct Hq as [Hq ?]).
    repeat match goal with X : Nat.eqb _ _ = true |- _ => apply Nat.eqb_eq in X end.
    destruct (digest_eqb_true _ _ Hq) as (Dl & Dp & Dc & Dt & Df).
    destruct (PE_split _ _ _ P1 P2 (phases_PE _ _ Dp)) as [_ E12].
    destruct (poll_calls_quiet _ _ _ _ _ _ Ec E12) as (-> & -> & Hall).
    assert (Hcalls : forall j k, nth_error (calls s1) j = Some k -> is_live (c_phase k) = true -> quiet_call s1 k).
    { intros j k Ek Hl. apply (Hall j); [|exact Ek|exact Hl]. split; [lia|].
      cbn. apply nth_error_Some. congruence. }
    constructor; [exact Hcalls|]. intros Hf1 Hd1.
    revert Ed. unfold disp_half.
    assert (Hf : finished s = None) by congruence. rewrite Hf.
    destruct (dropped s) eqn:Hd; [intros [= <- <-]; congruence|].
    set (s0 := upd_tr s (tr s) (fused s) []).
    destruct (poll_dispatch tp (fuel_of s0) s0) as [res sb] eqn:Ep. intros [= <- <-].
    cbn [so_sent so_read so_fuel] in *.
    assert (Eres : res = DPending).
    { destruct res as [d| |]; [|reflexivity|discriminate]. unfold after_pd in Hf1. cbn in Hf1. discriminate. }
    subst res.
    assert (Et : terminal sb = terminal s0) by exact Dt.
    assert (Et0 : terminal s0 = None).
    { destruct (terminal s0) as [a|] eqn:Et0; [exfalso|reflexivity].
      unfold poll_dispatch in Ep. rewrite Et0 in Ep.
      destruct (shut_down s0 a) as [b sb'] eqn:Es. destruct b; [discriminate|]. injection Ep as ->.
      unfold shut_down in Es. apply drain_false in Es; [|lia|].
      - assert (Hpos : (0 < count is_asg (calls sb))%nat) by lia.
        destruct (count_ex _ _ Hpos) as (j & k & Ek & Hk).
        unfold is_asg in Hk. destruct (c_phase k) eqn:Hp; try discriminate.
        destruct (Hcalls j k Ek) as [X|[X _]]; [rewrite Hp; reflexivity|congruence|congruence].
      - rewrite (tf_rxc _ _ (TFrame_complete_all (q_close s0) (OConnErr a))). apply q_close_closed. }
    exists s0, sb. split; [apply Inv_upd_tr, I|]. split; [reflexivity|]. split; [exact Et0|].
    split; [exact Ep|]. split; [reflexivity|]. split; [eapply app_length_same; eassumption|].
    split; [eapply app_length_same; eassumption|]. split; [exact Dl|]. rewrite Et. exact Et0.
  Qed.

  Lemma settle_quiet n : forall s o s' r,
    settle tp fuel_of n s o = (s', r) -> Inv s -> NW s -> so_fuel r = false -> QF s'.
  Proof.
    induction n as [|n IH]; intros s o s' r H I Hnw Hf.
    - cbn in H. injection H as <- <-. cbn in Hf. discriminate.
    - rewrite settle_S in H. destruct (round_Inv s o I Hnw) as [I2 P2].
      destruct (round s o) as [[s2 o2] q] eqn:Er. cbn [fst] in I2, P2. destruct q.
      + injection H as <- <-. eapply round_quiet; eassumption.
      + eapply IH; [exact H|exact I2|eapply NW_PM; eassumption|exact Hf].
  Qed.
End WInv.

(* ================================================================== the scripted instance *)
Notation sstate := (@cstate (stransport resp)).

Lemma Inv_cinit c : Inv (cinit c).
Proof.
  unfold cinit, init. constructor.
  - constructor.
    + constructor; cbn.
      * intros [|i] k H; discriminate.
      * intros [|i] j ki kj H; discriminate.
      * lia.
    + constructor; cbn; [intros x []|intros x i k []].
    + constructor; cbn; try discriminate.
      * intros w [].
      * constructor.
      * congruence.
      * intros [|i] k H; discriminate.
      * intros _. unfold count. cbn. lia.
  - intros [|i] k H; discriminate.
  - constructor; cbn; [discriminate|]. intros [[a H]|H]; discriminate.
  - constructor; cbn; [reflexivity|lia].
Qed.

Section Lengths.
  Context {T : Type}.
  Variable tp : transport T cmsg resp.
  Variable fuel_of : @cstate T -> nat.
  Notation cstate := (@cstate T).
  Implicit Types s : cstate.

  Lemma length_release_permit s : length (calls (release_permit s)) = length (calls s).
  Proof. unfold release_permit. destruct (waiters s); [reflexivity|]. rewrite sp_length. reflexivity. Qed.

  Lemma length_guard_close s i : length (calls (guard_close s i)) = length (calls s).
  Proof.
    unfold guard_close. destruct (nth_error (calls s) i) as [c|]; [|reflexivity].
    destruct (c_phase c); try reflexivity; rewrite ?sp_length; try reflexivity.
    cbn [calls slot_rx_close slot_tx_drop set_slot upd_slots].
    destruct (rx_closed _); [cbn [calls upd_q]|rewrite length_release_permit]; apply sp_length.
  Qed.
  Lemma length_guard_cancel s i : length (calls (guard_cancel s i)) = length (calls s).
  Proof.
    unfold guard_cancel. destruct (nth_error (calls s) i) as [c|]; [|reflexivity].
    destruct (c_phase c); try reflexivity. rewrite sp_length. unfold push_cancel.
    destruct (dropped s); reflexivity.
  Qed.

  Lemma length_step s o :
    Inv s ->
    length (calls (fst (step tp fuel_of s o))) =
    (length (calls s) + match o with Call _ _ _ _ _ => 1 | _ => 0 end)%nat.
  Proof.
    intro I. destruct o; cbn [step fst]; rewrite ?Nat.add_0_r.
    - destruct (nth_error (handles s) h) as [[|]|]; reflexivity.
    - destruct (nth_error (handles s) h) as [[|]|]; reflexivity.
    - cbn [calls upd_calls]. rewrite app_length. reflexivity.
    - pose proof (PM_poll_call s i) as P. destruct (poll_call s i) as [r s1]. apply P.
    - destruct (option_map c_phase (nth_error (calls s) i)) as [[]|];
        rewrite ?length_guard_cancel, ?length_guard_close; reflexivity.
    - destruct (option_map c_phase (nth_error (calls s) i)) as [[]|];
        rewrite ?length_guard_close; reflexivity.
    - apply length_guard_cancel.
    - destruct (finished s); [reflexivity|]. destruct (dropped s); [reflexivity|].
      destruct (poll_dispatch tp _ _) as [r s1] eqn:Ep. cbn [fst].
      assert (D : DI (upd_tr s (tr s) (fused s) [])).
      { eapply DI_same; [..|exact (Build_DI _ (iv_x _ I) (iv_l _ I))]; reflexivity. }
      pose proof (PM_poll_dispatch _ _ _ _ _ Ep D) as [L _].
      cbn [calls upd_tr] in *. destruct r; exact L.
    - destruct (dropped s); [reflexivity|]. unfold drop_dispatch.
      cbn [calls upd_fin upd_cancels upd_if upd_q].
      set (s1 := q_close s).
      destruct (fold_tx_drop_fields q_id (queue s1) s1) as (E1 & _).
      set (s2 := fold_left (fun acc q => slot_tx_drop acc (q_id q)) (queue s1) s1) in *.
      destruct (fold_tx_drop_fields (@fst N ifentry) (inflight s2) s2) as (E2 & _).
      rewrite E2, E1. apply (PM_q_close s (iv_x _ I)).
    - reflexivity.
    - reflexivity.
  Qed.
End Lengths.

Lemma Inv_wstep s o :
  Inv s -> NW s ->
  Inv (fst (wstep s o)) /\ (length (calls (fst (wstep s o))) <= S (length (calls s)))%nat.
Proof.
  intros I Hnw. destruct o as [o|]; cbn [wstep].
  - pose proof (Inv_step stp sfuel s (to_op o) I Hnw) as I1.
    pose proof (length_step stp sfuel s (to_op o) I) as L.
    destruct (step stp sfuel s (to_op o)) as [s1 l]. cbn [fst] in *. split; [exact I1|].
    rewrite L. destruct (to_op o); lia.
  - destruct (settle_Inv stp sfuel (rounds_of s + length (st_inbox (tr s))) s sobs0 I Hnw) as [I1 [L _]].
    destruct (settle stp sfuel _ s sobs0) as [s1 r]. cbn [fst] in *. split; [exact I1|lia].
Qed.

Lemma Inv_wfinal_from ops : forall s,
  Inv s -> N.of_nat (length (calls s) + length ops) < two64 ->
  Inv (wfinal_from s ops) /\
  (length (calls (wfinal_from s ops)) <= length (calls s) + length ops)%nat.
Proof.
  induction ops as [|o r IH]; intros s I H; cbn [wfinal_from length] in *; [split; [exact I|lia]|].
  assert (Hnw : NW s) by (unfold NW; lia).
  destruct (Inv_wstep s o I Hnw) as [I1 L1].
  destruct (IH (fst (wstep s o)) I1) as [I2 L2]; [lia|]. split; [exact I2|lia].
Qed.

Lemma wfinal_from_app ops1 ops2 : forall s,
  wfinal_from s (ops1 ++ ops2) = wfinal_from (wfinal_from s ops1) ops2.
Proof. induction ops1 as [|o r IH]; intro s; cbn; [reflexivity|apply IH]. Qed.

Lemma wrun_from_app ops1 ops2 : forall s,
  wrun_from s (ops1 ++ ops2) = wrun_from s ops1 ++ wrun_from (wfinal_from s ops1) ops2.
Proof.
  induction ops1 as [|o r IH]; intro s; cbn [app wrun_from wfinal_from]; [reflexivity|].
  destruct (wstep s o) as [s1 x]. cbn [fst]. rewrite IH. reflexivity.
Qed.

(* what `settled` and `wno_wrap` give about the final state *)
Lemma settled_final c ops :
  wno_wrap ops -> settled c ops ->
  let s := wfinal c (ops ++ [WSettle]) in
  Inv s /\ QF stp sfuel s.
Proof.
  intros Hw Hs. unfold wfinal. rewrite wfinal_from_app. cbn [wfinal_from].
  set (sF := wfinal_from (cinit c) ops).
  destruct (Inv_wfinal_from ops (cinit c) (Inv_cinit c)) as [IF LF].
  { unfold wno_wrap in Hw. cbn. exact Hw. }
  fold sF in IF, LF. cbn in LF.
  assert (Hnw : NW sF) by (unfold NW, wno_wrap, two64 in *; lia).
  unfold settled, wrun in Hs. rewrite wrun_from_app in Hs. fold sF in Hs.
  cbn [wrun_from wstep] in Hs. cbn [wstep].
  set (n := (rounds_of sF + length (st_inbox (tr sF)))%nat) in *.
  pose proof (settle_Inv stp sfuel n sF sobs0 IF Hnw) as [I1 _].
  destruct (settle stp sfuel n sF sobs0) as [s1 r] eqn:Es.
  rewrite last_last in Hs. cbn [fst] in *.
  split; [exact I1|].
  eapply settle_quiet; [exact Es|exact IF|exact Hnw|]. destruct (so_fuel r); [contradiction|reflexivity].
Qed.

(* ================================================================== C02: dead dispatch *)
Theorem c02_dead_holds : stmt_c02_dead.
Proof.
  unfold stmt_c02_dead. intros c ops Hw Hs Hdead i k Ek.
  pose proof (settled_final c ops Hw Hs) as HF. cbv zeta in HF. destruct HF as [I Q].
  set (s := wfinal c (ops ++ [WSettle])) in *.
  destruct (is_live (c_phase k)) eqn:Hl; [exfalso|reflexivity].
  destruct (r_dead _ (iv_r _ I) Hdead) as (Hc & Hq & Hi).
  destruct (qf_calls _ _ _ Q i k Ek Hl) as [Hp|(Hp & Hv & Ht)].
  - pose proof (w_in _ _ (ix_w _ (iv_x _ I)) i k Ek Hp) as X.
    rewrite (w_closed _ _ (ix_w _ (iv_x _ I)) Hc) in X. exact X.
  - destruct (iv_l _ I i k Ek Hp) as [L|[L|[L|L]]].
    + rewrite Hq in L. exact L.
    + rewrite Hi in L. exact L.
    + contradiction.
    + congruence.
Qed.
Print Assumptions c02_dead_holds.

(* ================================================================== a dispatch poll that sends and reads nothing *)
Section QuietPoll.
  Context {T : Type}.
  Variable tp : transport T cmsg resp.
  Notation cstate := (@cstate T).
  Implicit Types s : cstate.

  Definition qlog (l : list (tcall cmsg resp)) : Prop := sends_of l = [] /\ reads_of l = [].
  Definition Ext s s' : Prop := exists seg, plog s' = plog s ++ seg.

  Lemma qlog_app a b : qlog (a ++ b) -> qlog a /\ qlog b.
  Proof.
    unfold qlog, sends_of, reads_of. rewrite !flat_map_app. intros [H1 H2].
    apply app_eq_nil in H1. apply app_eq_nil in H2. tauto.
  Qed.
  Lemma Ext_refl s : Ext s s.
  Proof. exists []. rewrite app_nil_r. reflexivity. Qed.
  Lemma Ext_trans s1 s2 s3 : Ext s1 s2 -> Ext s2 s3 -> Ext s1 s3.
  Proof. intros [a Ha] [b Hb]. exists (a ++ b). rewrite Hb, Ha, app_assoc. reflexivity. Qed.
  Lemma Ext_eq s s' : plog s' = plog s -> Ext s s'.
  Proof. intro H. exists []. rewrite app_nil_r. exact H. Qed.
  Lemma qlog_Ext s s' : Ext s s' -> qlog (plog s') -> qlog (plog s).
  Proof. intros [seg H] Q. rewrite H in Q. apply qlog_app in Q. tauto. Qed.

  (* log grows; if the final log is quiet, the in-flight table did not grow *)
  Definition ML s s' : Prop :=
    Ext s s' /\ (qlog (plog s') -> (length (inflight s') <= length (inflight s))%nat).
  Lemma ML_refl s : ML s s.
  Proof. split; [apply Ext_refl|lia]. Qed.
  Lemma ML_trans s1 s2 s3 : ML s1 s2 -> ML s2 s3 -> ML s1 s3.
  Proof.
    intros [E1 L1] [E2 L2]. split; [eapply Ext_trans; eassumption|]. intro Q.
    specialize (L2 Q). specialize (L1 (qlog_Ext _ _ E2 Q)). lia.
  Qed.
  Lemma ML_same s s' : plog s' = plog s -> (length (inflight s') <= length (inflight s))%nat -> ML s s'.
  Proof. intros H L. split; [apply Ext_eq, H|intros _; exact L]. Qed.
  Lemma ML_noisy s s' : Ext s s' -> ~ qlog (plog s') -> ML s s'.
  Proof. intros E N. split; [exact E|]. intro Q. contradiction. Qed.

  Lemma Ext_do_ready s r s' : do_ready tp s = (r, s') -> Ext s s'.
  Proof. intro H. apply do_ready_eq in H. rewrite H. eexists; reflexivity. Qed.
  Lemma Ext_do_flush s r s' : do_flush tp s = (r, s') -> Ext s s'.
  Proof. intro H. apply do_flush_eq in H. rewrite H. eexists; reflexivity. Qed.
  Lemma Ext_do_close s r s' : do_close tp s = (r, s') -> Ext s s'.
  Proof. intro H. apply do_close_eq in H. rewrite H. eexists; reflexivity. Qed.
  Lemma Ext_do_send s m r s' : do_send tp s m = (r, s') -> Ext s s'.
  Proof. intro H. apply do_send_eq in H. rewrite H. eexists; reflexivity. Qed.
  Lemma Ext_do_next s r s' : do_next tp s = (r, s') -> Ext s s'.
  Proof.
    intro H. apply do_next_eq in H. destruct H as [(_ & _ & ->)|(_ & H)]; [apply Ext_refl|].
    rewrite H. eexists; reflexivity.
  Qed.
  Lemma noisy_do_send s m r s' : do_send tp s m = (r, s') -> ~ qlog (plog s').
  Proof.
    intros H Q. apply do_send_eq in H. rewrite H in Q. cbn [plog upd_tr] in Q.
    apply qlog_app in Q. destruct Q as [_ [Q _]]. cbn in Q. discriminate.
  Qed.
  Lemma noisy_do_next s x s' : do_next tp s = (RItem x, s') -> ~ qlog (plog s').
  Proof.
    intros H Q. apply do_next_eq in H. destruct H as [(_ & H & _)|(_ & H)]; [discriminate|].
    rewrite H in Q. cbn [plog upd_tr] in Q. apply qlog_app in Q. destruct Q as [_ [_ Q]].
    cbn in Q. discriminate.
  Qed.

  Lemma ML_X s s' : XFrame s s' -> Ext s s' -> ML s s'.
  Proof. intros F E. split; [exact E|]. intros _. rewrite (xf_inflight _ _ F). lia. Qed.

  Lemma Ext_ensure_writeable s r s' : ensure_writeable tp s = (r, s') -> Ext s s'.
  Proof.
    intro H. apply ensure_writeable_inv in H.
    destruct H as [r s1 H1 _|s1 s2 H1 H2|s1 s2 H1 H2|s1 s2 r s3 H1 H2 H3];
      repeat match goal with
             | X : do_ready _ _ = _ |- _ => apply Ext_do_ready in X
             | X : do_flush _ _ = _ |- _ => apply Ext_do_flush in X
             end; eauto using Ext_trans.
  Qed.
  Lemma ML_ensure_writeable s r s' : ensure_writeable tp s = (r, s') -> ML s s'.
  Proof. intro H. apply ML_X; [eapply XFrame_ensure_writeable, H|eapply Ext_ensure_writeable, H]. Qed.

  Lemma ML_T_le s s' : TFrame s s' -> (length (inflight s') <= length (inflight s))%nat -> ML s s'.
  Proof. intros F L. apply ML_same; [apply F|exact L]. Qed.

  Lemma le_complete_request s id o :
    (length (inflight (snd (complete_request s id o))) <= length (inflight s))%nat.
  Proof.
    unfold complete_request. destruct (alookup id (inflight s)); cbn [snd]; [|lia].
    rewrite (qf_inflight _ _ (QFrame_slot_send _ id o)). cbn [inflight upd_if]. apply length_aremove_le.
  Qed.
  Lemma le_cancel_request s id :
    (length (inflight (snd (cancel_request s id))) <= length (inflight s))%nat.
  Proof.
    unfold cancel_request. destruct (alookup id (inflight s)); cbn [snd]; [|lia].
    cbn [inflight upd_if]. apply length_aremove_le.
  Qed.
  Lemma le_poll_expired s : (length (inflight (snd (poll_expired s))) <= length (inflight s))%nat.
  Proof.
    unfold poll_expired. destruct (min_timer (timers s) None) as [[id w]|]; [|cbn [snd]; lia].
    destruct (N.leb w (now s)); [|cbn [snd]; lia]. cbn [inflight upd_if].
    destruct (alookup id (inflight s)); cbn [snd]; [|cbn [inflight upd_if]; lia].
    rewrite (qf_inflight _ _ (QFrame_slot_send _ id ODeadline)). cbn [inflight upd_if]. apply length_aremove_le.
  Qed.

  Lemma next_cancel_loop_inflight f : forall s r s',
    next_cancel_loop f s = (r, s') ->
    (length (inflight s') <= length (inflight s))%nat /\
    (is_psome r = false -> inflight s' = inflight s /\ timers s' = timers s).
  Proof.
    induction f as [|f IH]; intros s r s' H; cbn [next_cancel_loop] in H.
    - injection H as <- <-. split; [lia|auto].
    - destruct (c_poll_recv s) as [x s1] eqn:E.
      destruct x as [id| |];
        try (apply c_poll_recv_other in E; [|discriminate]; subst s1; injection H as <- <-; split; [lia|auto]).
      destruct (c_poll_recv_some _ _ _ E) as (rest & Ec & ->).
      unfold cancel_request in H. cbn [inflight timers upd_cancels] in H.
      destruct (alookup id (inflight s)) as [e|].
      + injection H as <- <-. split; [|discriminate]. cbn [inflight upd_if]. apply length_aremove_le.
      + apply IH in H. exact H.
  Qed.

  Lemma Ext_I s s' : IFrame s s' -> Ext s s'.
  Proof. intro F. apply Ext_eq, F. Qed.

  Lemma ML_poll_write_request s r s' : poll_write_request tp s = (r, s') -> ML s s'.
  Proof.
    intro H. apply poll_write_request_inv in H.
    destruct H as [_|r s1 _ H1 Hr|r s1 s2 _ H1 H2 Hr|s1 q s2 w s3 L H1 H2 H3].
    - apply ML_refl.
    - eapply ML_ensure_writeable, H1.
    - eapply ML_trans; [eapply ML_ensure_writeable, H1|].
      pose proof (IFrame_next_request_loop (S (length (queue s1))) s1) as F1.
      pose proof (QFrame_next_request_loop (S (length (queue s1))) s1) as F2.
      rewrite H2 in F1, F2. cbn [snd] in F1, F2.
      apply ML_same; [apply F1|rewrite (qf_inflight _ _ F2); lia].
    - pose proof (IFrame_next_request_loop (S (length (queue s1))) s1) as F1.
      rewrite H2 in F1. cbn [snd] in F1.
      assert (E3 : Ext s s3).
      { eapply Ext_trans; [eapply Ext_ensure_writeable, H1|]. eapply Ext_trans; [apply Ext_I, F1|].
        eapply Ext_trans; [apply Ext_I, TFrame_I, TFrame_insert_request|eapply Ext_do_send, H3]. }
      pose proof (noisy_do_send _ _ _ _ H3) as N3.
      destruct w; [apply ML_noisy; assumption|].
      pose proof (TFrame_complete_request s3 (q_id q) OSendErr) as F5.
      apply ML_noisy; [eapply Ext_trans; [exact E3|apply Ext_I, TFrame_I, F5]|].
      rewrite (if_plog _ _ (TFrame_I _ _ F5)). exact N3.
  Qed.

  Lemma ML_poll_write_cancel s r s' : poll_write_cancel tp s = (r, s') -> ML s s'.
  Proof.
    intro H. apply poll_write_cancel_inv in H.
    destruct H as [r s1 H1 Hr|r s1 s2 H1 H2 Hr|s1 id e s2 w s3 H1 H2 H3].
    - eapply ML_ensure_writeable, H1.
    - eapply ML_trans; [eapply ML_ensure_writeable, H1|].
      pose proof (IFrame_next_cancel_loop (S (length (cancels s1))) s1) as F1.
      rewrite H2 in F1. cbn [snd] in F1.
      apply ML_same; [apply F1|apply (next_cancel_loop_inflight _ _ _ _ H2)].
    - pose proof (IFrame_next_cancel_loop (S (length (cancels s1))) s1) as F1.
      rewrite H2 in F1. cbn [snd] in F1.
      apply ML_noisy; [|eapply noisy_do_send, H3].
      eapply Ext_trans; [eapply Ext_ensure_writeable, H1|].
      eapply Ext_trans; [apply Ext_I, F1|eapply Ext_do_send, H3].
  Qed.

  Lemma ML_poll_expired s : ML s (snd (poll_expired s)).
  Proof. apply ML_T_le; [apply TFrame_poll_expired|apply le_poll_expired]. Qed.

  Lemma ML_pump_write s r s' : pump_write tp s = (r, s') -> ML s s'.
  Proof.
    intro H. apply pump_write_inv in H.
    destruct H as [a s1 H1|u s1 H1|r1 s1 a s2 H1 I1 H2|r1 s1 u s2 H1 I1 H2
                  |r1 s1 r2 s2 id s3 H1 I1 H2 I2 H3|s1 s2 s3 x s4 H1 H2 H3 H4
                  |r1 s1 r2 s2 s3 x s4 H1 I1 H2 I2 I12 H3 H4];
      pose proof (ML_poll_write_request _ _ _ H1) as M1; try exact M1;
      pose proof (ML_poll_write_cancel _ _ _ H2) as M2; try (eapply ML_trans; eassumption);
      pose proof (ML_poll_expired s2) as M3; rewrite H3 in M3; cbn [snd] in M3.
    - eapply ML_trans; [exact M1|]. eapply ML_trans; eassumption.
    - eapply ML_trans; [exact M1|]. eapply ML_trans; [exact M2|]. eapply ML_trans; [exact M3|].
      apply ML_X; [eapply XFrame_do_close, H4|eapply Ext_do_close, H4].
    - eapply ML_trans; [exact M1|]. eapply ML_trans; [exact M2|]. eapply ML_trans; [exact M3|].
      apply ML_X; [eapply XFrame_do_flush, H4|eapply Ext_do_flush, H4].
  Qed.

  Lemma ML_pump_read s r s' : pump_read tp s = (r, s') -> ML s s'.
  Proof.
    intro H. apply pump_read_inv in H. destruct H as (x & s1 & H1 & -> & ->).
    pose proof (ML_X _ _ (XFrame_do_next _ _ _ _ H1) (Ext_do_next _ _ _ H1)) as M1.
    destruct x; try exact M1.
    eapply ML_trans; [exact M1|]. apply ML_T_le; [apply TFrame_complete|apply le_complete_request].
  Qed.

  Lemma ML_run_loop f : forall s r s', run_loop tp f s = (r, s') -> ML s s'.
  Proof.
    induction f as [|f IH]; intros s r s' H; [cbn in H; injection H as _ <-; apply ML_refl|].
    apply run_loop_inv in H.
    destruct H as [a s1 H1|rd s1 a s2 H1 N1 H2|s1 wr s2 H1 H2 N2|rd s1 s2 H1 D1 H2 L2
                  |s1 wr s2 H1 H2 D2|rd s1 wr s2 r s3 H1 H2 D' H3];
      pose proof (ML_pump_read _ _ _ H1) as M1; try exact M1;
      pose proof (ML_pump_write _ _ _ H2) as M2; try (eapply ML_trans; eassumption).
    eapply ML_trans; [exact M1|]. eapply ML_trans; [exact M2|]. eapply IH, H3.
  Qed.

  (* ---------------------------------------------------------------- timers *)
  Lemma min_timer_spec l : forall best,
    match min_timer l best with
    | None => l = [] /\ best = None
    | Some (rid, rw) =>
      (In (rid, rw) l \/ best = Some (rid, rw)) /\
      (forall id w, In (id, w) l -> rw <= w) /\
      (forall bid bw, best = Some (bid, bw) -> rw <= bw)
    end.
  Proof.
    induction l as [|[id w] r IH]; intro best; cbn [min_timer].
    - destruct best as [[bid bw]|]; [|auto]. split; [right; reflexivity|]. split; [intros ? ? []|].
      intros ? ? [= -> ->]. lia.
    - destruct best as [[bid bw]|].
      + destruct ((w <? bw) || ((w =? bw) && (id <? bid))) eqn:E.
        * specialize (IH (Some (id, w))). destruct (min_timer r (Some (id, w))) as [[rid rw]|].
          -- destruct IH as (A & B & C). specialize (C id w eq_refl).
             split; [destruct A as [A|A]; [left; right; exact A|left; left; congruence]|].
             split; [intros id' w' [[= <- <-]|Hin]; [exact C|eapply B, Hin]|].
             intros ? ? [= <- <-]. lia.
          -- destruct IH as [_ X]. discriminate.
        * specialize (IH (Some (bid, bw))). destruct (min_timer r (Some (bid, bw))) as [[rid rw]|].
          -- destruct IH as (A & B & C). specialize (C bid bw eq_refl).
             split; [destruct A as [A|A]; [left; right; exact A|right; exact A]|].
             split; [intros id' w' [[= <- <-]|Hin]; [lia|eapply B, Hin]|].
             intros ? ? [= <- <-]. exact C.
          -- destruct IH as [_ X]. discriminate.
      + specialize (IH (Some (id, w))). destruct (min_timer r (Some (id, w))) as [[rid rw]|].
        * destruct IH as (A & B & C). specialize (C id w eq_refl).
          split; [destruct A as [A|A]; [left; right; exact A|left; left; congruence]|].
          split; [intros id' w' [[= <- <-]|Hin]; [exact C|eapply B, Hin]|]. discriminate.
        * destruct IH as [_ X]. discriminate.
  Qed.

  Lemma poll_expired_none s s' :
    poll_expired s = (None, s') -> s' = s /\ forall id w, In (id, w) (timers s) -> now s < w.
  Proof.
    unfold poll_expired. pose proof (min_timer_spec (timers s) None) as M.
    destruct (min_timer (timers s) None) as [[rid rw]|].
    - destruct (N.leb_spec rw (now s)) as [L|L].
      + destruct (alookup rid _); discriminate.
      + intros [= <-]. split; [reflexivity|]. intros id w Hin. destruct M as (_ & B & _).
        specialize (B id w Hin). lia.
    - intros [= <-]. split; [reflexivity|]. destruct M as [-> _]. intros ? ? [].
  Qed.

  Lemma poll_expired_some s id s' :
    poll_expired s = (Some id, s') -> K s -> (length (inflight s') < length (inflight s))%nat.
  Proof.
    unfold poll_expired. intros H Kk. pose proof (min_timer_spec (timers s) None) as M.
    destruct (min_timer (timers s) None) as [[rid rw]|]; [|discriminate].
    destruct (N.leb rw (now s)); [|discriminate].
    destruct M as ([M|M] & _); [|discriminate].
    assert (Hin : In rid (map fst (inflight s))).
    { rewrite <- (k_keys _ Kk). apply (in_map fst) in M. exact M. }
    cbn [inflight timers upd_if] in H.
    destruct (in_alookup_some _ _ Hin) as (e & Ee). rewrite Ee in H. injection H as _ <-.
    rewrite (qf_inflight _ _ (QFrame_slot_send _ rid ODeadline)). cbn [inflight upd_if].
    apply length_aremove_lt, Hin.
  Qed.

  Lemma next_request_loop_pend f : forall s s',
    next_request_loop f s = (PPend, s') -> (length (queue s) < f)%nat -> queue s' = [].
  Proof.
    induction f as [|f IH]; intros s s' H L; [lia|]. cbn [next_request_loop] in H.
    destruct (q_poll_recv s) as [x s1] eqn:E. pose proof (queue_q_poll_recv _ _ _ E) as Q.
    destruct x as [q| |]; [|discriminate|].
    - destruct (sl_rx_closed _); [|discriminate]. apply IH in H; [exact H|]. cbn [queue slot_tx_drop set_slot upd_slots]. lia.
    - injection H as <-. subst s1. apply (q_poll_recv_other _ _ _ E). discriminate.
  Qed.
End QuietPoll.

(* ================================================================== the scripted transport, writable *)
Definition Wp (t : stransport resp) : Prop :=
  st_ready t = true /\ st_flushok t = true /\
  st_fail_ready t = false /\ st_fail_send t = false /\ st_fail_flush t = false /\
  st_fail_close t = false /\ st_fail_next t = false /\
  (st_cap t = 0%nat \/ st_coupled t = true \/ (st_buffered t < st_cap t)%nat).

Lemma writable_Wp t : writable t = true -> Wp t.
Proof.
  unfold writable, Wp.
  destruct (st_ready t), (st_flushok t), (st_fail_ready t), (st_fail_send t), (st_fail_flush t),
    (st_fail_close t), (st_fail_next t); cbn [andb orb negb]; intro H; try discriminate.
  repeat (split; [reflexivity|]). lia.
Qed.

Lemma s_ready_back (t : stransport resp) r t' : s_ready t = (r, t') -> r <> TErr -> t' = t.
Proof.
  unfold s_ready. destruct (st_fail_ready t); [intros [= <- _]; congruence|].
  destruct (_ && _); intros [= _ <-]; reflexivity.
Qed.
Lemma s_close_back (t : stransport resp) r t' : s_close t = (r, t') -> r <> TErr -> t' = t.
Proof.
  unfold s_close. destruct (st_fail_close t); [intros [= <- _]; congruence|].
  destruct (st_closeok t); intros [= _ <-]; reflexivity.
Qed.
Lemma s_next_back (t : stransport resp) r t' :
  s_next t = (r, t') -> r = RPending \/ r = REof -> t' = t.
Proof.
  unfold s_next. destruct (st_fail_next t); [intros [= <- _] [X|X]; discriminate|].
  destruct (st_inbox t); [|intros [= <- _] [X|X]; discriminate].
  destruct (st_eof t); intros [= _ <-]; reflexivity.
Qed.
Lemma s_flush_back (t : stransport resp) r t' : s_flush t = (r, t') -> r <> TErr -> Wp t' -> Wp t.
Proof.
  unfold s_flush. destruct (st_fail_flush t) eqn:Ef; [intros [= <- _]; congruence|].
  destruct (st_flushok t) eqn:Eo; [|intros [= _ <-]; auto].
  intros [= _ <-] _. unfold Wp. cbn [st_with st_ready st_flushok st_fail_ready st_fail_send st_fail_flush
    st_fail_close st_fail_next st_cap st_coupled st_buffered].
  intros (A & B & C & D & E & F & G & H). repeat (split; [assumption|]).
  destruct (st_coupled t); [auto|]. destruct H as [H|[H|H]]; auto.
Qed.

Section Scripted.
  Notation cstate := sstate.
  Implicit Types s : cstate.

  Lemma do_ready_tr s r s1 : do_ready stp s = (r, s1) -> s_ready (tr s) = (r, tr s1).
  Proof.
    unfold do_ready. change (t_ready stp (tr s)) with (s_ready (tr s)).
    destruct (s_ready (tr s)) as [r0 t0]. intros [= <- <-]. reflexivity.
  Qed.
  Lemma do_flush_tr s r s1 : do_flush stp s = (r, s1) -> s_flush (tr s) = (r, tr s1).
  Proof.
    unfold do_flush. change (t_flush stp (tr s)) with (s_flush (tr s)).
    destruct (s_flush (tr s)) as [r0 t0]. intros [= <- <-]. reflexivity.
  Qed.
  Lemma do_close_tr s r s1 : do_close stp s = (r, s1) -> s_close (tr s) = (r, tr s1).
  Proof.
    unfold do_close. change (t_close stp (tr s)) with (s_close (tr s)).
    destruct (s_close (tr s)) as [r0 t0]. intros [= <- <-]. reflexivity.
  Qed.
  Lemma do_next_tr s r s1 :
    do_next stp s = (r, s1) -> tr s1 = tr s \/ s_next (tr s) = (r, tr s1).
  Proof.
    unfold do_next. destruct (fused s); [intros [= _ <-]; left; reflexivity|].
    change (t_next stp (tr s)) with (s_next (tr s)).
    destruct (s_next (tr s)) as [r0 t0]. intros [= <- <-]. right. reflexivity.
  Qed.

  Definition Back s s' : Prop := Wp (tr s') -> Wp (tr s).
  Lemma Back_refl s : Back s s. Proof. unfold Back; auto. Qed.
  Lemma Back_trans s1 s2 s3 : Back s1 s2 -> Back s2 s3 -> Back s1 s3.
  Proof. unfold Back; auto. Qed.
  Lemma Back_eq s s' : tr s' = tr s -> Back s s'.
  Proof. unfold Back. intros ->. auto. Qed.
  Lemma Back_I s s' : IFrame s s' -> Back s s'.
  Proof. intro F. apply Back_eq, F. Qed.
  Lemma Back_T s s' : TFrame s s' -> Back s s'.
  Proof. intro F. apply Back_I, TFrame_I, F. Qed.

  Lemma Back_do_ready s r s1 : do_ready stp s = (r, s1) -> r <> TErr -> Back s s1.
  Proof. intros H N. apply do_ready_tr in H. apply Back_eq. eapply s_ready_back; eassumption. Qed.
  Lemma Back_do_close s r s1 : do_close stp s = (r, s1) -> r <> TErr -> Back s s1.
  Proof. intros H N. apply do_close_tr in H. apply Back_eq. eapply s_close_back; eassumption. Qed.
  Lemma Back_do_flush s r s1 : do_flush stp s = (r, s1) -> r <> TErr -> Back s s1.
  Proof. intros H N. apply do_flush_tr in H. unfold Back. eapply s_flush_back; eassumption. Qed.
  Lemma Back_do_next s r s1 : do_next stp s = (r, s1) -> r = RPending \/ r = REof -> Back s s1.
  Proof.
    intros H N. apply do_next_tr in H. apply Back_eq. destruct H as [H|H]; [exact H|].
    eapply s_next_back; eassumption.
  Qed.

  Lemma ew_back s r s' : ensure_writeable stp s = (r, s') -> (forall a, r <> PErr a) -> Back s s'.
  Proof.
    intros H N. apply ensure_writeable_inv in H.
    destruct H as [r s1 H1 Hr|s1 s2 H1 H2|s1 s2 H1 H2|s1 s2 r s3 H1 H2 H3].
    - eapply Back_do_ready; [exact H1|]. intros ->. eapply N; reflexivity.
    - exfalso. eapply N; reflexivity.
    - eapply Back_trans; [eapply Back_do_ready; [exact H1|discriminate]|].
      eapply Back_do_flush; [exact H2|discriminate].
    - eapply Back_trans; [eapply Back_do_ready; [exact H1|discriminate]|].
      eapply Back_trans; [eapply Back_do_flush; [exact H2|discriminate]|].
      eapply Back_do_ready; [exact H3|]. intros ->. eapply N; reflexivity.
  Qed.

  Lemma ew_Wp s r s' : ensure_writeable stp s = (r, s') -> Wp (tr s) -> r = PSome tt.
  Proof.
    intros H (A & B & C & D & E & F & G & HW). unfold ensure_writeable, do_ready, do_flush in H.
    change (t_ready stp) with (@s_ready resp) in H. change (t_flush stp) with (@s_flush resp) in H.
    unfold s_ready at 1 in H. rewrite C, A in H. cbn [andb] in H.
    destruct (Nat.eqb (st_cap (tr s)) 0 || (st_buffered (tr s) <? st_cap (tr s))%nat) eqn:Er.
    - injection H as <- _. reflexivity.
    - cbn [tr upd_tr] in H. unfold s_flush in H. rewrite E, B in H.
      cbn [tr upd_tr] in H. unfold s_ready in H.
      cbn [st_with st_ready st_fail_ready st_cap st_buffered] in H. rewrite C, A in H.
      assert (Hc : st_coupled (tr s) = true) by (destruct HW as [X|[X|X]]; [lia|exact X|lia]).
      rewrite Hc in H. cbn [andb] in H.
      assert (Hz : (Nat.eqb (st_cap (tr s)) 0 || (0 <? st_cap (tr s))%nat) = true) by lia.
      rewrite Hz in H. injection H as <- _. reflexivity.
  Qed.
End Scripted.

(* ================================================================== the quiet dispatch poll, analysed *)
Section QuietRun.
  Notation cstate := sstate.
  Implicit Types s : cstate.

  Lemma pcast_not_some {A B} (r : pres A) u : @pcast A B r <> PSome u.
  Proof. destruct r; discriminate. Qed.

  Lemma noisy_pwrq s u s1 : poll_write_request stp s = (PSome u, s1) -> ~ qlog (plog s1).
  Proof.
    intro H. apply poll_write_request_inv in H. remember (PSome u) as rr eqn:Er.
    destruct H as [_|r s1 _ H1 Hr|r s1 s2 _ H1 H2 Hr|s1 q s2 w s3 L H1 H2 H3].
    - discriminate.
    - exfalso. eapply pcast_not_some; exact Er.
    - exfalso. eapply pcast_not_some; exact Er.
    - pose proof (noisy_do_send _ _ _ _ _ H3) as N3. destruct w; [exact N3|].
      rewrite (if_plog _ _ (TFrame_I _ _ (TFrame_complete_request s3 (q_id q) OSendErr))). exact N3.
  Qed.
  Lemma noisy_pwc s u s1 : poll_write_cancel stp s = (PSome u, s1) -> ~ qlog (plog s1).
  Proof.
    intro H. apply poll_write_cancel_inv in H. remember (PSome u) as rr eqn:Er.
    destruct H as [r s1 H1 Hr|r s1 s2 H1 H2 Hr|s1 id e s2 w s3 H1 H2 H3].
    - exfalso. eapply pcast_not_some; exact Er.
    - exfalso. eapply pcast_not_some; exact Er.
    - eapply noisy_do_send, H3.
  Qed.

  Lemma pump_write_some_quiet s u s2 :
    pump_write stp s = (PSome u, s2) -> K s -> qlog (plog s2) ->
    (length (inflight s2) < length (inflight s))%nat.
  Proof.
    intros H Kk Q. apply pump_write_inv in H. remember (PSome u) as rr eqn:Er.
    destruct H as [a s1 H1|u' s1 H1|r1 s1 a s2 H1 I1 H2|r1 s1 u' s2 H1 I1 H2
                  |r1 s1 r2 s2 id s3 H1 I1 H2 I2 H3|s1 s2 s3 x s4 H1 H2 H3 H4
                  |r1 s1 r2 s2 s3 x s4 H1 I1 H2 I2 I12 H3 H4].
    - discriminate.
    - exfalso. eapply noisy_pwrq; eassumption.
    - discriminate.
    - exfalso. eapply noisy_pwc; eassumption.
    - pose proof (ML_poll_write_request _ _ _ _ H1) as [E1 L1].
      pose proof (ML_poll_write_cancel _ _ _ _ H2) as [E2 L2].
      pose proof (TFrame_poll_expired s2) as F3. rewrite H3 in F3. cbn [snd] in F3.
      assert (Q2 : qlog (plog s2)) by (rewrite <- (if_plog _ _ (TFrame_I _ _ F3)); exact Q).
      specialize (L2 Q2). specialize (L1 (qlog_Ext _ _ E2 Q2)).
      pose proof (K_poll_write_cancel _ _ _ _ H2 (K_poll_write_request _ _ _ _ H1 Kk)) as K2.
      pose proof (poll_expired_some _ _ _ H3 K2). lia.
    - destruct x; discriminate.
    - destruct x; discriminate.
  Qed.

  Definition idle_facts s s' : Prop :=
    Back s s' /\ inflight s' = inflight s /\ max_if s' = max_if s.

  Lemma pwrq_idle s r s' :
    poll_write_request stp s = (r, s') -> idle r -> Wp (tr s') ->
    idle_facts s s' /\ ((max_if s <= length (inflight s))%nat \/ queue s' = []).
  Proof.
    intros H Hi HW. apply poll_write_request_inv in H.
    destruct H as [L0|r s1 _ H1 Hr|r s1 s2 _ H1 H2 Hr|s1 q s2 w s3 L H1 H2 H3].
    - split; [split; [apply Back_refl|split; reflexivity]|]. left. apply Nat.leb_le. exact L0.
    - exfalso. assert (N : forall a, r <> PErr a).
      { intros a ->. destruct Hi as [X|X]; discriminate. }
      pose proof (ew_Wp _ _ _ H1 (ew_back _ _ _ H1 N HW)) as ->. discriminate.
    - assert (N : forall a, PSome tt <> @PErr unit a) by discriminate.
      pose proof (ew_back _ _ _ H1 N) as B1. pose proof (XFrame_ensure_writeable _ _ _ _ H1) as F1.
      pose proof (IFrame_next_request_loop (S (length (queue s1))) s1) as F2.
      pose proof (QFrame_next_request_loop (S (length (queue s1))) s1) as F3.
      rewrite H2 in F2, F3. cbn [snd] in F2, F3.
      split; [split; [eapply Back_trans; [exact B1|apply Back_I, F2]|split]|right].
      + rewrite (qf_inflight _ _ F3). apply F1.
      + rewrite (pf_maxif _ _ (if_p _ _ F2)). apply (xf_p _ _ F1).
      + destruct r as [x| | |a]; try discriminate.
        * eapply next_request_loop_none, H2.
        * eapply next_request_loop_pend; [exact H2|lia].
        * destruct Hi as [X|X]; discriminate.
    - exfalso. destruct Hi as [X|X]; discriminate.
  Qed.

  Lemma pwc_idle s r s' :
    poll_write_cancel stp s = (r, s') -> idle r -> Wp (tr s') ->
    idle_facts s s' /\ queue s' = queue s.
  Proof.
    intros H Hi HW. apply poll_write_cancel_inv in H.
    destruct H as [r s1 H1 Hr|r s1 s2 H1 H2 Hr|s1 id e s2 w s3 H1 H2 H3].
    - exfalso. assert (N : forall a, r <> PErr a).
      { intros a ->. destruct Hi as [X|X]; discriminate. }
      pose proof (ew_Wp _ _ _ H1 (ew_back _ _ _ H1 N HW)) as ->. discriminate.
    - assert (N : forall a, PSome tt <> @PErr unit a) by discriminate.
      pose proof (ew_back _ _ _ H1 N) as B1. pose proof (XFrame_ensure_writeable _ _ _ _ H1) as F1.
      pose proof (CFrame_next_cancel_loop (S (length (cancels s1))) s1) as F2.
      rewrite H2 in F2. cbn [snd] in F2.
      destruct (next_cancel_loop_inflight _ _ _ _ H2) as [_ F3]. destruct (F3 Hr) as [F4 _].
      split; [split; [eapply Back_trans; [exact B1|apply Back_I, F2]|split]|].
      + rewrite F4. apply F1.
      + rewrite (pf_maxif _ _ (if_p _ _ (cf_i _ _ F2))). apply (xf_p _ _ F1).
      + rewrite (cf_queue _ _ F2). apply F1.
    - exfalso. destruct w; destruct Hi as [X|X]; discriminate.
  Qed.

  Definition quiet_concl s : Prop :=
    (forall id w, In (id, w) (timers s) -> now s < w) /\
    (queue s <> [] -> (max_if s <= length (inflight s))%nat).

  Lemma quiet_pump_write s wr s2 :
    pump_write stp s = (wr, s2) -> idle wr -> Wp (tr s2) -> quiet_concl s2 /\ Back s s2.
  Proof.
    intros H Hi HW. apply pump_write_inv in H.
    assert (Hmain : forall r1 s1 r2 s2' s3 s4,
      poll_write_request stp s = (r1, s1) -> idle r1 -> poll_write_cancel stp s1 = (r2, s2') -> idle r2 ->
      poll_expired s2' = (None, s3) -> XFrame s3 s4 -> Back s3 s4 -> Wp (tr s4) ->
      quiet_concl s4 /\ Back s s4).
    { intros r1 s1 r2 s2' s3 s4 H1 I1 H2 I2 H3 F4 B4 HW4.
      destruct (poll_expired_none _ _ H3) as [-> Hfut].
      assert (W2 : Wp (tr s2')) by (apply B4, HW4).
      destruct (pwc_idle _ _ _ H2 I2 W2) as [(B2 & In2 & M2) Q2].
      destruct (pwrq_idle _ _ _ H1 I1 (B2 W2)) as [(B1 & In1 & M1) D1].
      split; [|eapply Back_trans; [exact B1|]; eapply Back_trans; eassumption].
      split.
      - intros id w Hin. rewrite (pf_now _ _ (xf_p _ _ F4)). apply (Hfut id).
        rewrite <- (xf_timers _ _ F4). exact Hin.
      - rewrite (xf_queue _ _ F4), (xf_inflight _ _ F4), (pf_maxif _ _ (xf_p _ _ F4)).
        rewrite Q2, In2, M2, In1, M1. destruct D1 as [D1|D1]; [intros _; exact D1|contradiction]. }
    destruct H as [a s1 H1|u' s1 H1|r1 s1 a s2 H1 I1 H2|r1 s1 u' s2 H1 I1 H2
                  |r1 s1 r2 s2 id s3 H1 I1 H2 I2 H3|s1 s2 s3 x s4 H1 H2 H3 H4
                  |r1 s1 r2 s2 s3 x s4 H1 I1 H2 I2 I12 H3 H4];
      try (exfalso; destruct Hi as [X|X]; discriminate).
    - eapply (Hmain PNone s1 PNone s2 s3 s4); try eassumption; try (left; reflexivity).
      + eapply XFrame_do_close, H4.
      + eapply Back_do_close; [exact H4|]. intros ->. destruct Hi as [X|X]; discriminate.
    - eapply (Hmain r1 s1 r2 s2 s3 s4); try eassumption.
      + eapply XFrame_do_flush, H4.
      + eapply Back_do_flush; [exact H4|]. intros ->. destruct Hi as [X|X]; discriminate.
  Qed.

  Lemma quiet_run f : forall s s',
    run_loop stp f s = (RunPending, s') -> qlog (plog s') -> K s ->
    length (inflight s') = length (inflight s) -> Wp (tr s') -> quiet_concl s'.
  Proof.
    induction f as [|f IH]; intros s s' H Q Kk L HW; [cbn in H; discriminate|].
    apply run_loop_inv in H. remember RunPending as rr eqn:Er.
    destruct H as [a s1 H1|rd s1 a s2 H1 N1 H2|s1 wr s2 H1 H2 N2|rd s1 s2 H1 D1 H2 L2
                  |s1 wr s2 H1 H2 D2|rd s1 wr s2 r s3 H1 H2 D' H3]; try discriminate.
    - (* the last iteration *)
      assert (Hi : idle wr) by (destruct D2 as [-> |[-> _]]; [right|left]; reflexivity).
      apply (quiet_pump_write _ _ _ H2 Hi HW).
    - (* an iteration that made progress without sending or reading: impossible *)
      subst r. pose proof (ML_pump_read _ _ _ _ H1) as [E1 L1].
      pose proof (ML_pump_write _ _ _ _ H2) as [E2 L2].
      pose proof (ML_run_loop _ _ _ _ _ H3) as [E3 L3].
      assert (Q2 : qlog (plog s2)) by (eapply qlog_Ext; eassumption).
      assert (Q1 : qlog (plog s1)) by (eapply qlog_Ext; eassumption).
      specialize (L3 Q). specialize (L2 Q2). specialize (L1 Q1).
      pose proof (K_pump_read _ _ _ _ H1 Kk) as K1. pose proof (K_pump_write _ _ _ _ H2 K1) as K2.
      destruct D' as [[-> _]|[-> ->]].
      + exfalso. apply pump_read_inv in H1. destruct H1 as (x & s0 & Hn & Hr & Hs).
        destruct x; try discriminate. subst s1.
        apply (noisy_do_next _ _ _ _ Hn). rewrite <- (if_plog _ _ (TFrame_I _ _ (TFrame_complete s0 x))). exact Q1.
      + pose proof (pump_write_some_quiet _ _ _ H2 K1 Q2). lia.
  Qed.
End QuietRun.

(* ================================================================== the two capacities never change *)
Section Consts.
  Context {T : Type}.
  Variable tp : transport T cmsg resp.
  Variable fuel_of : @cstate T -> nat.
  Notation cstate := (@cstate T).
  Implicit Types s : cstate.

  Definition CF s s' : Prop := q_cap s' = q_cap s /\ max_if s' = max_if s.
  Lemma CF_refl s : CF s s. Proof. split; reflexivity. Qed.
  Lemma CF_trans s1 s2 s3 : CF s1 s2 -> CF s2 s3 -> CF s1 s3.
  Proof. intros [A B] [C D]. split; congruence. Qed.
  Lemma CF_U s s' : UFrame s s' -> CF s s'.
  Proof. intro F. split; apply F. Qed.
  Lemma CF_P s s' : PFrame s s' -> CF s s'.
  Proof. intro F. split; apply F. Qed.

  Lemma CF_poll_dispatch f s r s' : poll_dispatch tp f s = (r, s') -> CF s s'.
  Proof.
    unfold poll_dispatch. intro H. destruct (terminal s).
    - destruct (shut_down s a) as [b s1] eqn:E. apply PFrame_shut_down, CF_P in E.
      destruct b; injection H as _ <-; exact E.
    - destruct (run_loop tp f s) as [rr s1] eqn:E. apply PFrame_run_loop, CF_P in E.
      destruct rr; try (injection H as _ <-; exact E).
      destruct (shut_down (upd_term s1 (Some a)) a) as [b s2] eqn:E2. apply PFrame_shut_down, CF_P in E2.
      assert (X : CF s s2) by (eapply CF_trans; [exact E|]; eapply CF_trans; [|exact E2]; split; reflexivity).
      destruct b; injection H as _ <-; exact X.
  Qed.

  Lemma CF_after_pd r s : CF s (after_pd r s).
  Proof. unfold after_pd. destruct r; split; reflexivity. Qed.

  Lemma CF_drop_dispatch s : CF s (drop_dispatch s).
  Proof.
    unfold drop_dispatch. set (s1 := q_close s).
    set (s2 := fold_left (fun acc q => slot_tx_drop acc (q_id q)) (queue s1) s1).
    set (s3 := fold_left (fun acc p => slot_tx_drop acc (fst p)) (inflight s2) s2).
    assert (X : CF s s3).
    { eapply CF_trans; [apply CF_P, IFrame_P, IFrame_q_close|].
      eapply CF_trans; [apply CF_P, TFrame_P, (TFrame_fold_slot_tx_drop q_id)|].
      apply CF_P, TFrame_P, (TFrame_fold_slot_tx_drop fst). }
    destruct X as [A B]. split; cbn [q_cap max_if upd_fin upd_cancels upd_if upd_q]; assumption.
  Qed.

  Lemma CF_step s o : CF s (fst (step tp fuel_of s o)).
  Proof.
    destruct (step tp fuel_of s o) as [s' os] eqn:E. cbn [fst].
    destruct o; try (apply CF_U; eapply UFrame_step; [exact E|discriminate|discriminate]).
    - cbn [step] in E. destruct (finished s); [injection E as <- _; apply CF_refl|].
      destruct (dropped s); [injection E as <- _; apply CF_refl|].
      destruct (poll_dispatch tp _ _) as [r s1] eqn:Ep. injection E as <- _.
      eapply CF_trans; [|apply (CF_after_pd r s1)].
      eapply CF_trans; [|eapply CF_poll_dispatch, Ep]. split; reflexivity.
    - cbn [step] in E. injection E as <- _. destruct (dropped s); [apply CF_refl|apply CF_drop_dispatch].
  Qed.

  Lemma CF_poll_calls n : forall s i acc, CF s (fst (poll_calls s i n acc)).
  Proof.
    induction n as [|n IH]; intros s i acc; [apply CF_refl|]. rewrite poll_calls_step.
    destruct (match nth_error (calls s) i with Some c => is_live (c_phase c) | None => false end); [|apply IH].
    pose proof (CF_U _ _ (UFrame_poll_call s i)) as F. destruct (poll_call s i) as [r s1]. cbn [snd] in F.
    eapply CF_trans; [exact F|apply IH].
  Qed.

  Lemma CF_round s o : CF s (fst (fst (round tp fuel_of s o))).
  Proof.
    unfold round.
    assert (X : CF s (fst (disp_half tp fuel_of s o))).
    { unfold disp_half. destruct (finished s); [apply CF_refl|]. destruct (dropped s); [apply CF_refl|].
      destruct (poll_dispatch tp _ _) as [r s1] eqn:Ep. cbn [fst].
      eapply CF_trans; [|apply (CF_after_pd r s1)].
      eapply CF_trans; [|eapply CF_poll_dispatch, Ep]. split; reflexivity. }
    destruct (disp_half tp fuel_of s o) as [s1 o1]. cbn [fst] in X.
    pose proof (CF_poll_calls (length (calls s1)) s1 0 []) as Y.
    destruct (poll_calls s1 0 (length (calls s1)) []) as [s2 dn]. cbn [fst] in *.
    eapply CF_trans; eassumption.
  Qed.

  Lemma CF_settle n : forall s o, CF s (fst (settle tp fuel_of n s o)).
  Proof.
    induction n as [|n IH]; intros s o; [apply CF_refl|]. rewrite settle_S.
    pose proof (CF_round s o) as X. destruct (round tp fuel_of s o) as [[s2 o2] q]. cbn [fst] in X.
    destruct q; [exact X|]. eapply CF_trans; [exact X|apply IH].
  Qed.
End Consts.

Lemma CF_wfinal_from ops : forall s, CF s (wfinal_from s ops).
Proof.
  induction ops as [|o r IH]; intro s; cbn [wfinal_from]; [apply CF_refl|].
  eapply CF_trans; [|apply IH]. destruct o as [o|]; cbn [wstep].
  - pose proof (CF_step stp sfuel s (to_op o)) as X. destruct (step stp sfuel s (to_op o)). exact X.
  - pose proof (CF_settle stp sfuel (rounds_of s + length (st_inbox (tr s))) s sobs0) as X.
    destruct (settle stp sfuel _ s sobs0). exact X.
Qed.

(* ================================================================== C02: quiescence *)
Theorem c02_quiescent_holds : stmt_c02_quiescent.
Proof.
  unfold stmt_c02_quiescent. intros c ops Hw Hq1 Hm1 Hs HWr Hin Heof Hf Hd i k Ek Hl.
  pose proof (settled_final c ops Hw Hs) as HF. cbv zeta in HF. destruct HF as [I Q].
  destruct (CF_wfinal_from (ops ++ [WSettle]) (cinit c)) as [Cq Cm].
  change (q_cap (cinit c)) with (cf_qcap c) in Cq. change (max_if (cinit c)) with (cf_maxif c) in Cm.
  fold (wfinal c (ops ++ [WSettle])) in Cq, Cm.
  set (s := wfinal c (ops ++ [WSettle])) in *.
  (* the last dispatch poll *)
  destruct (qf_disp _ _ _ Q Hf Hd) as (sa & sb & Ia & Pa & Ta & Ep & Es & Qs & Qr & Ln & Tb).
  assert (Er : run_loop stp (sfuel sa) sa = (RunPending, sb)).
  { unfold poll_dispatch in Ep. rewrite Ta in Ep.
    destruct (run_loop stp (sfuel sa) sa) as [rr s1] eqn:Er.
    destruct rr as [|a| |]; try discriminate; [|injection Ep as ->; reflexivity].
    exfalso. destruct (shut_down (upd_term s1 (Some a)) a) as [b s2] eqn:E2.
    pose proof (pf_terminal _ _ (PFrame_shut_down _ _ _ _ E2)) as X. cbn [terminal upd_term] in X.
    assert (s2 = sb) by (destruct b; congruence). subst s2. congruence. }
  assert (HWb : Wp (tr sb)).
  { apply writable_Wp. rewrite Es in HWr. exact HWr. }
  destruct (quiet_run _ _ _ Er (conj Qs Qr) (iv_k _ Ia) Ln HWb) as [Hfut Hfull].
  assert (Efut : forall id w, In (id, w) (timers s) -> now s < w) by (rewrite Es; exact Hfut).
  assert (Efull : queue s <> [] -> (max_if s <= length (inflight s))%nat) by (rewrite Es; exact Hfull).
  assert (Tn : terminal s = None) by (rewrite Es; exact Tb).
  pose proof (iv_x _ I) as X. pose proof (ix_w _ X) as W.
  assert (Hopen : rx_closed s = false).
  { destruct (rx_closed s) eqn:Ec; [|reflexivity]. destruct (r_closed _ (iv_r _ I) Ec); congruence. }
  assert (Hfullc : queue s <> [] -> inflight s <> [] /\ length (inflight s) = max_if s).
  { intro Hne. specialize (Efull Hne). pose proof (k_bound _ (iv_k _ I)) as Kb.
    split; [|lia]. intro E0. rewrite E0 in Efull. cbn in Efull. lia. }
  split; [|split; [exact Efut|]].
  - (* the in-flight table is not empty *)
    destruct (qf_calls _ _ _ Q i k Ek Hl) as [Hp|(Hp & Hv & Ht)].
    + apply Hfullc. intro Hq0.
      pose proof (w_in _ _ W i k Ek Hp) as Hwi.
      assert (Hwn : waiters s <> []) by (intro E0; rewrite E0 in Hwi; exact Hwi).
      pose proof (w_perm _ _ W Hopen Hwn) as Hp0. pose proof (w_acct _ _ W Hopen) as Ha.
      assert (Hz : count is_asg (calls s) = 0%nat).
      { destruct (count is_asg (calls s)) eqn:E0; [reflexivity|exfalso].
        destruct (count_ex is_asg (calls s)) as (j & kj & Ej & Hj); [lia|].
        unfold is_asg in Hj. destruct (c_phase kj) eqn:Hpj; try discriminate.
        destruct (qf_calls _ _ _ Q j kj Ej) as [Y|[Y _]]; [rewrite Hpj; reflexivity|congruence|congruence]. }
      rewrite Hq0, Hp0, Hz in Ha. cbn in Ha. lia.
    + destruct (iv_l _ I i k Ek Hp) as [L|[L|[L|L]]].
      * apply Hfullc. intro E0. rewrite E0 in L. exact L.
      * intro E0. rewrite E0 in L. exact L.
      * contradiction.
      * congruence.
  - (* where the live call's request is *)
    destruct (qf_calls _ _ _ Q i k Ek Hl) as [Hp|(Hp & Hv & Ht)].
    + right. apply Hfullc. intro Hq0.
      pose proof (w_in _ _ W i k Ek Hp) as Hwi.
      assert (Hwn : waiters s <> []) by (intro E0; rewrite E0 in Hwi; exact Hwi).
      pose proof (w_perm _ _ W Hopen Hwn) as Hp0. pose proof (w_acct _ _ W Hopen) as Ha.
      assert (Hz : count is_asg (calls s) = 0%nat).
      { destruct (count is_asg (calls s)) eqn:E0; [reflexivity|exfalso].
        destruct (count_ex is_asg (calls s)) as (j & kj & Ej & Hj); [lia|].
        unfold is_asg in Hj. destruct (c_phase kj) eqn:Hpj; try discriminate.
        destruct (qf_calls _ _ _ Q j kj Ej) as [Y|[Y _]]; [rewrite Hpj; reflexivity|congruence|congruence]. }
      rewrite Hq0, Hp0, Hz in Ha. cbn in Ha. lia.
    + destruct (iv_l _ I i k Ek Hp) as [L|[L|[L|L]]].
      * right. apply Hfullc. intro E0. rewrite E0 in L. exact L.
      * left. exact L.
      * contradiction.
      * congruence.
Qed.
Print Assumptions c02_quiescent_holds.

(* ================================================================== C02: settle terminates (the prover's own addition)
   The statement below is not pinned in ClientWakeSpec.v; it is the third part of C02 (poll_total
   for the wake-driven runs): on reachable states the settle of `wstep` never reports WFuel.
   PROVED in ClientWakeSettles.v (c02_settles_holds), restated as C02_settles in Properties/C02.v;
   this file only contributes the part described next. *)
Definition stmt_c02_settles : Prop := forall c ops, wno_wrap ops -> settled c ops.

(* What is proved: the flag `so_fuel` of a settle is raised ONLY by running out of rounds, never by
   a dispatch poll that ran out of fuel (`DFuel`), for EVERY state and every number of rounds.
   What was missing here for stmt_c02_settles (supplied by ClientWakeSettles.v): that
   `rounds_of s + length (st_inbox (tr s))` rounds cannot
   all be non-quiet on a reachable state, i.e. `~ all_noisy (rounds_of s + ...) s sobs0`.
   Measure suggested at the time (for the proof as carried out see ClientWakeSettles.v): 4 per call in PNew/PAcquiring/PAssigned, 2 per PAcqClosed,
   1 per PAwaiting, 2 per queued request, 1 per queued cancellation / in-flight entry / inbox item,
   1 each for "some call is PNew", "terminal = None", "dispatch not finished"; every function of the
   round is non-increasing in it and a non-quiet round decreases it. *)
Fixpoint all_noisy (n : nat) (s : sstate) (o : sobs) : Prop :=
  match n with
  | O => True
  | S n' => let '(s2, o2, q) := round stp sfuel s o in q = false /\ all_noisy n' s2 o2
  end.

Lemma round_no_fuel (s : sstate) o : so_fuel (snd (fst (round stp sfuel s o))) = so_fuel o.
Proof.
  unfold round, disp_half.
  destruct (finished s); [destruct (poll_calls s 0 _ []); reflexivity|].
  destruct (dropped s); [destruct (poll_calls s 0 _ []); reflexivity|].
  set (s0 := upd_tr s (tr s) (fused s) []).
  destruct (poll_dispatch stp (sfuel s0) s0) as [res s'] eqn:Ep.
  pose proof (poll_dispatch_fuel _ _ _ _ (phi_lt_sfuel s0) Ep) as N.
  destruct (poll_calls _ 0 _ []). cbn [fst snd so_fuel]. destruct res; try reflexivity. congruence.
Qed.

Theorem c02_settles_partial : forall n (s : sstate) o s' r,
  settle stp sfuel n s o = (s', r) -> so_fuel o = false ->
  (so_fuel r = true <-> all_noisy n s o).
Proof.
  induction n as [|n IH]; intros s o s' r H Ho.
  - cbn in H. injection H as <- <-. cbn. tauto.
  - rewrite settle_S in H. cbn [all_noisy]. pose proof (round_no_fuel s o) as F.
    destruct (round stp sfuel s o) as [[s2 o2] q]. cbn [fst snd] in F. destruct q.
    + injection H as <- <-. rewrite F, Ho. split; [discriminate|intros [X _]; discriminate].
    + rewrite (IH _ _ _ _ H); [tauto|congruence].
Qed.
Print Assumptions c02_settles_partial.

(* consequence for the scripted runs: a WFuel observation of `wstep` means that all
   `rounds_of s + length (st_inbox (tr s))` rounds were non-quiet *)
Corollary wstep_fuel_only_rounds (s : sstate) :
  snd (wstep s WSettle) = WFuel -> all_noisy (rounds_of s + length (st_inbox (tr s))) s sobs0.
Proof.
  cbn [wstep]. destruct (settle stp sfuel _ s sobs0) as [s1 r] eqn:E. cbn [snd].
  destruct (so_fuel r) eqn:Ef; [|discriminate]. intros _.
  apply (c02_settles_partial _ _ _ _ _ E eq_refl). exact Ef.
Qed.
