(* Client proofs, group G3: C09 (transport failures are contained and reported), C10 (orderly
   shutdown), C03 (cancellations on the wire).  Statements: ClientSpec.v.
   Part a: micro-steps of a dispatch poll; part b: the model invariant `InvX`;
   the observer/model relation of calls and request ids is ClientSimBase.v (group G2). *)
From Coq Require Import List Bool Arith NArith Lia ZifyBool ZifyNat ZifyN.
Import ListNotations.
From TarpcV Require Import Base Transport Client ClientS ClientMon ClientSpec ClientLemmas
  ClientProofsG1Frames ClientSimBase ClientProofsG3a ClientProofsG3b.
Local Open Scope N_scope.

Arguments N.modulo : simpl never.
Arguments N.add : simpl never.
Arguments N.min : simpl never.
Arguments N.sub : simpl never.

(* ================================================================== the observer over a call log *)
Definition err_of (c : tcall cmsg resp) : option activity :=
  match c with
  | CNext RErr => Some ARead
  | CReady TErr => Some AReady
  | CFlush TErr => Some AFlush
  | CClose TErr => Some AClose
  | CSend (MCancel _ _) SErr => Some AWrite
  | _ => None
  end.

Lemma rec_call_first_err m c :
  m_first_err (rec_call m c) = match m_first_err m with Some a => Some a | None => err_of c end.
Proof.
  destruct c as [[]|[id dl tc b|id tc] []|[]|[]|[x| | |]]; cbn; destruct (m_first_err m); reflexivity.
Qed.

Lemma chk_call_v09 maxif m c :
  v09 (chk_call maxif m c) = match m_first_err m with None => true | Some _ => false end.
Proof. destruct c as [r|[id dl tc b|id tc] r|r|r|r]; reflexivity. Qed.

Lemma activity_eqb_refl a : activity_eqb a a = true.
Proof. destruct a; reflexivity. Qed.

Definition noerr (c : tcall cmsg resp) : Prop := err_of c = None.

Inductive shape : option activity -> list (tcall cmsg resp) -> Prop :=
| sh_none l : Forall noerr l -> shape None l
| sh_some a l c : Forall noerr l -> err_of c = Some a -> shape (Some a) (l ++ [c]).

Lemma shape_app l1 e l2 : Forall noerr l1 -> shape e l2 -> shape e (l1 ++ l2).
Proof.
  intros H1 H2. destruct H2 as [l H|a l c H Hc].
  - constructor. apply Forall_app. split; assumption.
  - rewrite app_assoc. constructor; [apply Forall_app; split; assumption|exact Hc].
Qed.

Lemma v09_noerr maxif l : forall m, m_first_err m = None -> Forall noerr l ->
  v09 (fst (chk_calls maxif m l)) = true /\ m_first_err (mrun m l) = None.
Proof.
  induction l as [|c r IH]; intros m Hm Hl; cbn [chk_calls mrun fold_left]; [split; [reflexivity|exact Hm]|].
  inversion Hl as [|? ? Hc Hr]; subst.
  assert (Hm' : m_first_err (rec_call m c) = None) by (rewrite rec_call_first_err, Hm; exact Hc).
  destruct (IH _ Hm' Hr) as [H1 H2].
  destruct (chk_calls maxif (rec_call m c) r) as [v' m'] eqn:E. cbn [fst] in *.
  split; [|exact H2]. cbn [vand v09]. rewrite chk_call_v09, Hm, H1. reflexivity.
Qed.

Lemma v09_shape maxif m e l : m_first_err m = None -> shape e l ->
  v09 (fst (chk_calls maxif m l)) = true /\ m_first_err (mrun m l) = e.
Proof.
  intros Hm [l0 H|a l0 c H Hc]; [apply v09_noerr; assumption|].
  destruct (v09_noerr maxif l0 m Hm H) as [H1 H2].
  rewrite chk_calls_snoc, mrun_snoc. cbn [vand v09]. rewrite H1, chk_call_v09, H2.
  split; [reflexivity|]. rewrite rec_call_first_err, H2. exact Hc.
Qed.

(* failed request writes *)
Definition failed_req (id : N) (c : tcall cmsg resp) : bool :=
  match c with CSend (MReq id' _ _ _) SErr => N.eqb id' id | _ => false end.
Definition failed_in (id : N) (L : list sentrec) : bool :=
  existsb (fun r => N.eqb (s_id r) id && negb (s_ok r)) L.

Lemma failed_in_mrun id l : forall m,
  failed_in id (m_sent (mrun m l)) = failed_in id (m_sent m) || existsb (failed_req id) l.
Proof.
  induction l as [|c r IH]; intro m; cbn [mrun fold_left existsb]; [rewrite orb_false_r; reflexivity|].
  change (fold_left rec_call r (rec_call m c)) with (mrun (rec_call m c) r).
  rewrite IH, rec_call_sent. unfold failed_in at 1. rewrite existsb_app. fold (failed_in id (m_sent m)).
  rewrite <- orb_assoc. f_equal. f_equal.
  destruct c as [x|[id' dl tc b|id' tc] []|x|x|[x| | |]]; cbn;
    rewrite ?orb_false_r, ?andb_false_r, ?andb_true_r; reflexivity.
Qed.

Lemma failed_in_sent_for (m : mst) i id :
  id_of m i = Some id -> failed_in id (m_sent m) = true ->
  existsb (fun s => negb (s_ok s)) (sent_for m i) = true.
Proof.
  intros Hid H. unfold sent_for. rewrite Hid. unfold failed_in in H.
  apply existsb_exists in H. destruct H as (r & Hin & Hr). apply andb_true_iff in Hr.
  apply existsb_exists. exists r. split; [|apply Hr]. apply filter_In. split; [exact Hin|apply Hr].
Qed.

(* what rec_op never touches *)
Section RecOp.
  Context {T : Type}.
  Notation op := (@op T).
  Ltac rec_op_frame o :=
    destruct o; cbn [rec_op];
    repeat match goal with |- context [match ?x with _ => _ end] => destruct x end; reflexivity.
  Lemma rec_op_first_err m (o : op) : m_first_err (rec_op m o) = m_first_err m.
  Proof. rec_op_frame o. Qed.
  Lemma rec_op_sent m (o : op) : m_sent (rec_op m o) = m_sent m.
  Proof. rec_op_frame o. Qed.
  Lemma rec_op_cancels m (o : op) : m_cancels (rec_op m o) = m_cancels m.
  Proof. rec_op_frame o. Qed.
  Lemma rec_op_close_called m (o : op) : m_close_called (rec_op m o) = m_close_called m.
  Proof. rec_op_frame o. Qed.
  Lemma rec_op_disp m (o : op) : m_disp (rec_op m o) = m_disp m.
  Proof. rec_op_frame o. Qed.
  Lemma rec_op_disp_dropped m (o : op) :
    m_disp_dropped (rec_op m o) = match o with DropDispatch => true | _ => m_disp_dropped m end.
  Proof. rec_op_frame o. Qed.
End RecOp.

Lemma op_eq_DropDispatch {T} (o : @op T) : o = DropDispatch \/ o <> DropDispatch.
Proof. destruct o; try (right; discriminate). left; reflexivity. Qed.

(* ================================================================== C09 *)
Section C09.
  Context {T : Type}.
  Variable tp : transport T cmsg resp.
  Variable fuel_of : @cstate T -> nat.
  Variable maxif : nat.
  Notation cstate := (@cstate T).
  Notation op := (@op T).
  Notation Inv := (InvX []).
  Implicit Types (s : cstate) (m : mst).

  (* ---------------------------------------------------------------- what a micro-step logs *)
  Lemma mstep_log e s s' : mstep tp e s s' ->
    (plog s' = plog s /\ e = None) \/ (exists c, plog s' = plog s ++ [c] /\ err_of c = e).
  Proof.
    intro H. destruct H.
    - right. exists (CReady r). apply do_ready_eq in H. rewrite H. split; [reflexivity|destruct r; reflexivity].
    - right. exists (CFlush r). apply do_flush_eq in H. rewrite H. split; [reflexivity|destruct r; reflexivity].
    - right. exists (CClose r). apply do_close_eq in H3. rewrite H3. split; [reflexivity|destruct r; reflexivity].
    - right. exists (CNext (RItem x)). apply do_next_eq in H.
      destruct H as [(_ & [=] & _)|(_ & H)].
      rewrite (if_plog _ _ (TFrame_I _ _ (TFrame_complete s1 x))), H. split; reflexivity.
    - apply do_next_eq in H. destruct H as [(_ & -> & ->)|(_ & H)]; [left; split; reflexivity|].
      right. exists (CNext r). rewrite H. split; [reflexivity|].
      destruct r; reflexivity.
    - left. split; [|reflexivity].
      pose proof (IFrame_q_poll_recv s) as F. rewrite H in F. cbn [snd] in F.
      rewrite (if_plog _ _ (TFrame_I _ _ (TFrame_slot_tx_drop s1 (q_id q)))). apply F.
    - right. exists (CSend (MReq (q_id q) (q_deadline q) (q_tc q) (q_body q)) w).
      pose proof (IFrame_q_poll_recv s) as F. rewrite H in F. cbn [snd] in F.
      apply do_send_eq in H1.
      assert (E : plog s3 = plog s ++ [CSend (MReq (q_id q) (q_deadline q) (q_tc q) (q_body q)) w]).
      { rewrite H1. cbn [plog upd_tr]. rewrite (if_plog _ _ (TFrame_I _ _ (TFrame_insert_request s1 q))).
        rewrite (if_plog _ _ F). reflexivity. }
      split; [|reflexivity]. destruct w; [exact E|].
      rewrite (if_plog _ _ (TFrame_I _ _ (TFrame_complete_request s3 (q_id q) OSendErr))). exact E.
    - left. split; [|reflexivity].
      pose proof (IFrame_c_poll_recv s) as F. rewrite H in F. cbn [snd] in F.
      pose proof (TFrame_cancel_request s1 id) as F2. rewrite H0 in F2. cbn [snd] in F2.
      rewrite (if_plog _ _ (TFrame_I _ _ F2)). apply F.
    - right. exists (CSend (MCancel id (if_tc e)) w).
      pose proof (IFrame_c_poll_recv s) as F. rewrite H in F. cbn [snd] in F.
      pose proof (TFrame_cancel_request s1 id) as F2. rewrite H0 in F2. cbn [snd] in F2.
      apply do_send_eq in H1. rewrite H1. cbn [plog upd_tr].
      rewrite (if_plog _ _ (TFrame_I _ _ F2)), (if_plog _ _ F). split; [reflexivity|destruct w; reflexivity].
    - left. split; [|reflexivity].
      pose proof (TFrame_poll_expired s) as F. rewrite H in F. apply (if_plog _ _ (TFrame_I _ _ F)).
  Qed.

  Lemma msteps_log e s s' : msteps tp e s s' -> exists seg, plog s' = plog s ++ seg /\ shape e seg.
  Proof.
    induction 1 as [s|a s s' H|e s s1 s2 H1 H2 IH].
    - exists []. split; [rewrite app_nil_r; reflexivity|constructor; constructor].
    - apply mstep_log in H. destruct H as [[_ [=]]|(c & E & Hc)].
      exists [c]. split; [exact E|]. apply (sh_some a [] c); [constructor|exact Hc].
    - destruct IH as (seg & E & Hs). apply mstep_log in H1. destruct H1 as [[E1 _]|(c & E1 & Hc)].
      + exists seg. rewrite E, E1. split; [reflexivity|exact Hs].
      + exists (c :: seg). rewrite E, E1, <- app_assoc. split; [reflexivity|].
        apply (shape_app [c]); [constructor; [exact Hc|constructor]|exact Hs].
  Qed.

  (* ---------------------------------------------------------------- where oneshot values come from *)
  Definition written (s' : cstate) (id : N) (o : outcome) : Prop :=
    match o with
    | OReply _ | OSrvErr _ | ODeadline => True
    | OSendErr => existsb (failed_req id) (plog s') = true
    | _ => False
    end.

  Lemma val_send s id o id' o' :
    sl_val (slotv (slots (slot_send s id o)) id') = Some o' ->
    sl_val (slotv (slots s) id') = Some o' \/ (id' = id /\ o' = o).
  Proof. apply (slot_send_val s id o id' o'). Qed.

  Lemma val_complete_request s id o id' o' :
    sl_val (slotv (slots (snd (complete_request s id o))) id') = Some o' ->
    sl_val (slotv (slots s) id') = Some o' \/ (id' = id /\ o' = o).
  Proof.
    unfold complete_request. destruct (alookup id (inflight s)); cbn [snd]; [|tauto].
    intro H. apply val_send in H. exact H.
  Qed.

  Lemma mstep_val e s s' id o : mstep tp e s s' ->
    sl_val (slotv (slots s') id) = Some o ->
    sl_val (slotv (slots s) id) = Some o \/ written s' id o.
  Proof.
    intro H. destruct H.
    - rewrite (xf_slots _ _ (XFrame_do_ready tp _ _ _ H)). tauto.
    - rewrite (xf_slots _ _ (XFrame_do_flush tp _ _ _ H)). tauto.
    - rewrite (xf_slots _ _ (XFrame_do_close tp _ _ _ H3)). tauto.
    - intro Hv. unfold complete in Hv. apply val_complete_request in Hv.
      destruct Hv as [Hv|[_ ->]]; [left; rewrite <- (xf_slots _ _ (XFrame_do_next tp _ _ _ H)); exact Hv|].
      right. destruct (r_body x); exact I.
    - rewrite (xf_slots _ _ (XFrame_do_next tp _ _ _ H)). tauto.
    - intro Hv. left. apply (val_slot_tx_drop s1 (q_id q) id o) in Hv.
      revert Hv. rewrite !get_slot_slotv. 
      assert (E : slots s1 = slots s).
      { revert H. unfold q_poll_recv. destruct (queue s); [destruct (Nat.eqb _ _); [discriminate|];
          destruct (_ && _); discriminate|]. intros [= _ <-]. unfold release_permit. cbn [waiters upd_q].
        destruct (waiters s); [reflexivity|]. rewrite set_phase_alt. reflexivity. }
      rewrite E. tauto.
    - assert (E : slots s1 = slots s).
      { revert H. unfold q_poll_recv. destruct (queue s); [destruct (Nat.eqb _ _); [discriminate|];
          destruct (_ && _); discriminate|]. intros [= _ <-]. unfold release_permit. cbn [waiters upd_q].
        destruct (waiters s); [reflexivity|]. rewrite set_phase_alt. reflexivity. }
      assert (E3 : slots s3 = slots s).
      { rewrite (xf_slots _ _ (XFrame_do_send tp _ _ _ _ H1)). exact E. }
      destruct w; [rewrite E3; tauto|].
      intro Hv. apply val_complete_request in Hv. destruct Hv as [Hv|[-> ->]]; [left; rewrite <- E3; exact Hv|].
      right. cbn [written]. rewrite (if_plog _ _ (TFrame_I _ _ (TFrame_complete_request s3 (q_id q) OSendErr))).
      apply do_send_eq in H1. rewrite H1. cbn [plog upd_tr]. rewrite existsb_app. cbn.
      rewrite N.eqb_refl. apply orb_true_r.
    - assert (E : slots s2 = slots s).
      { revert H H0. unfold c_poll_recv, cancel_request.
        destruct (cancels s); [destruct (Nat.eqb _ _); discriminate|]. intros [= _ <-].
        destruct (alookup _ _); [intros [=]|].
        intros [= <-]; reflexivity. }
      rewrite E. tauto.
    - assert (E : slots s2 = slots s).
      { revert H H0. unfold c_poll_recv, cancel_request.
        destruct (cancels s); [destruct (Nat.eqb _ _); discriminate|]. intros [= _ <-].
        destruct (alookup _ _); [|intros [=]].
        intros [= _ <-]; reflexivity. }
      rewrite (xf_slots _ _ (XFrame_do_send tp _ _ _ _ H1)), E. tauto.
    - revert H. unfold poll_expired. destruct (min_timer (timers s) None) as [[idx w]|]; [|discriminate].
      destruct (N.leb w (now s)); [|discriminate]. cbn [inflight timers upd_if].
      destruct (alookup idx (inflight s)); intros [= _ <-]; [|tauto].
      intro Hv. apply val_send in Hv. destruct Hv as [Hv|[_ ->]]; [left; exact Hv|right; exact I].
  Qed.

  Lemma written_mono s s' id o :
    (exists seg, plog s' = plog s ++ seg) -> written s id o -> written s' id o.
  Proof.
    intros [seg E]. destruct o; cbn [written]; try tauto. rewrite E, existsb_app. intros ->. reflexivity.
  Qed.

  Lemma msteps_val e s s' id o : msteps tp e s s' ->
    sl_val (slotv (slots s') id) = Some o ->
    sl_val (slotv (slots s) id) = Some o \/ written s' id o.
  Proof.
    induction 1 as [s|a s s' H|e s s1 s2 H1 H2 IH]; [tauto|exact (mstep_val _ _ _ _ _ H)|].
    intro Hv. destruct (IH Hv) as [Hv1|Hw]; [|right; exact Hw].
    destruct (mstep_val _ _ _ _ _ H1 Hv1) as [Hv0|Hw]; [left; exact Hv0|right].
    eapply written_mono; [|exact Hw]. destruct (msteps_log _ _ _ H2) as (seg & E & _). exists seg; exact E.
  Qed.

  (* ---------------------------------------------------------------- values outside the pump loop *)
  Definition vals_sub s s' : Prop :=
    forall id o, sl_val (slotv (slots s') id) = Some o -> sl_val (slotv (slots s) id) = Some o.

  Lemma vals_sub_refl s : vals_sub s s.
  Proof. intros id o H; exact H. Qed.
  Lemma vals_sub_trans s1 s2 s3 : vals_sub s1 s2 -> vals_sub s2 s3 -> vals_sub s1 s3.
  Proof. intros H1 H2 id o H. apply H1, H2, H. Qed.
  Lemma vals_sub_slots s s' : slots s' = slots s -> vals_sub s s'.
  Proof. intros E id o. rewrite E. tauto. Qed.
  Lemma vals_sub_same s s' : same_vals s s' -> vals_sub s s'.
  Proof. intros H id o. rewrite <- !get_slot_slotv, H. tauto. Qed.
  Lemma vals_sub_fresh s id : vals_sub s (set_slot s id slot0).
  Proof.
    intros id' o. unfold set_slot. cbn [slots upd_slots]. rewrite slotv_aset.
    destruct (N.eqb id' id); [discriminate|tauto].
  Qed.

  Lemma vals_sub_release_permit s : vals_sub s (release_permit s).
  Proof.
    apply vals_sub_slots. unfold release_permit. destruct (waiters s); [reflexivity|].
    rewrite set_phase_alt. reflexivity.
  Qed.

  Lemma vals_sub_guard_close s i : vals_sub s (guard_close s i).
  Proof.
    unfold guard_close. destruct (nth_error (calls s) i) as [c|]; [|apply vals_sub_refl].
    destruct (c_phase c); try apply vals_sub_refl.
    - apply vals_sub_slots. rewrite set_phase_alt. reflexivity.
    - eapply vals_sub_trans; [|apply vals_sub_slots; rewrite set_phase_alt; reflexivity].
      eapply vals_sub_trans; [|apply vals_sub_same, same_vals_rx_close].
      eapply vals_sub_trans; [|apply vals_sub_same, same_vals_tx_drop].
      apply vals_sub_slots. reflexivity.
    - eapply vals_sub_trans; [|apply vals_sub_same, same_vals_rx_close].
      eapply vals_sub_trans; [|apply vals_sub_same, same_vals_tx_drop].
      destruct (rx_closed _).
      + apply vals_sub_slots. rewrite set_phase_alt. reflexivity.
      + eapply vals_sub_trans; [|apply vals_sub_release_permit].
        apply vals_sub_slots. rewrite set_phase_alt. reflexivity.
    - eapply vals_sub_trans; [|apply vals_sub_slots; rewrite set_phase_alt; reflexivity].
      eapply vals_sub_trans; [|apply vals_sub_same, same_vals_rx_close].
      apply vals_sub_same, same_vals_tx_drop.
    - eapply vals_sub_trans; [|apply vals_sub_slots; rewrite set_phase_alt; reflexivity].
      apply vals_sub_same, same_vals_rx_close.
  Qed.

  Lemma vals_sub_guard_cancel s i : vals_sub s (guard_cancel s i).
  Proof.
    apply vals_sub_slots. unfold guard_cancel. destruct (nth_error (calls s) i) as [c|]; [|reflexivity].
    destruct (c_phase c); try reflexivity. rewrite set_phase_alt, push_cancel_alt. reflexivity.
  Qed.

  Lemma vals_sub_drop_dispatch s : vals_sub s (drop_dispatch s).
  Proof.
    unfold drop_dispatch. set (s1 := q_close s).
    assert (E0 : slots s1 = slots s).
    { unfold s1, q_close. destruct (rx_closed s); [reflexivity|]. cbn [slots upd_q].
      apply (cf_slots _ _ (proj2 (proj2 (fold_set_phase_spec PAcqClosed (waiters s) s)))). }
    destruct (fold_tx_drop_spec q_id (queue s1) s1) as (sl1 & E1 & _ & _ & V1). rewrite E1.
    cbn [inflight upd_slots].
    destruct (fold_tx_drop_spec (fun p : N * ifentry => fst p) (inflight s1) (upd_slots s1 sl1))
      as (sl2 & E2 & _ & _ & V2).
    rewrite E2. cbn [slots upd_slots] in V2. intros id o. cbn [slots upd_fin upd_cancels upd_if upd_q upd_slots].
    rewrite V2, V1, E0. tauto.
  Qed.

  Lemma vals_sub_fail_shutdown s i id : vals_sub s (snd (fail_shutdown s i id)).
  Proof.
    unfold fail_shutdown. cbn [snd].
    eapply vals_sub_trans; [|apply vals_sub_slots; rewrite set_phase_alt, push_cancel_alt; reflexivity].
    eapply vals_sub_trans; [|apply vals_sub_same, same_vals_rx_close].
    apply vals_sub_same, same_vals_tx_drop.
  Qed.

  Lemma poll_slot_spec s i id r s' : poll_slot s i id = (r, s') ->
    match r with
    | CDone o => (sl_val (slotv (slots s) id) = Some o \/ o = OShutdown) /\
                 s' = set_phase (slot_rx_close s id) i PDone
    | CPending => s' = s
    | CNothing => False
    end.
  Proof.
    unfold poll_slot. rewrite get_slot_slotv. destruct (sl_val (slotv (slots s) id)) as [o|].
    - intros [= <- <-]. split; [left; reflexivity|reflexivity].
    - destruct (sl_tx_gone _); intros [= <- <-]; [split; [right; reflexivity|reflexivity]|reflexivity].
  Qed.

  Lemma vals_sub_poll_slot s i id : vals_sub s (snd (poll_slot s i id)).
  Proof.
    destruct (poll_slot s i id) as [r s'] eqn:E. apply poll_slot_spec in E. cbn [snd].
    destruct r as [|o|]; [subst; apply vals_sub_refl| |destruct E].
    destruct E as [_ ->].
    eapply vals_sub_trans; [|apply vals_sub_slots; rewrite set_phase_alt; reflexivity].
    apply vals_sub_same, same_vals_rx_close.
  Qed.

  Lemma vals_sub_poll_call s i r s' : poll_call s i = (r, s') -> vals_sub s s'.
  Proof.
    unfold poll_call. destruct (nth_error (calls s) i) as [c|]; [|intros [= _ <-]; apply vals_sub_refl].
    destruct (c_phase c); try (intros [= _ <-]; apply vals_sub_refl).
    - set (s1 := set_slot _ (next_id s) slot0).
      assert (V1 : vals_sub s s1).
      { eapply vals_sub_trans; [|apply vals_sub_fresh]. apply vals_sub_slots. reflexivity. }
      destruct (rx_closed s1).
      + intro H. replace s' with (snd (fail_shutdown s1 i (next_id s))) by (rewrite H; reflexivity).
        eapply vals_sub_trans; [exact V1|apply vals_sub_fail_shutdown].
      + destruct (permits s1).
        * intros [= _ <-]. eapply vals_sub_trans; [exact V1|].
          apply vals_sub_slots. rewrite set_phase_alt. reflexivity.
        * unfold enqueue. intro H.
          match type of H with poll_slot ?st _ _ = _ =>
            replace s' with (snd (poll_slot st i (next_id s))) by (rewrite H; reflexivity);
            eapply vals_sub_trans; [|apply vals_sub_poll_slot] end.
          eapply vals_sub_trans; [exact V1|]. apply vals_sub_slots. rewrite set_phase_alt. reflexivity.
    - destruct (rx_closed s).
      + intro H. match type of H with fail_shutdown ?st _ _ = _ =>
          replace s' with (snd (fail_shutdown st i (c_id c))) by (rewrite H; reflexivity);
          eapply vals_sub_trans; [|apply vals_sub_fail_shutdown] end.
        apply vals_sub_slots. reflexivity.
      + unfold enqueue. intro H.
        match type of H with poll_slot ?st _ _ = _ =>
          replace s' with (snd (poll_slot st i (c_id c))) by (rewrite H; reflexivity);
          eapply vals_sub_trans; [|apply vals_sub_poll_slot] end.
        apply vals_sub_slots. rewrite set_phase_alt. reflexivity.
    - intro H. replace s' with (snd (fail_shutdown s i (c_id c))) by (rewrite H; reflexivity).
      apply vals_sub_fail_shutdown.
    - intro H. replace s' with (snd (poll_slot s i (c_id c))) by (rewrite H; reflexivity).
      apply vals_sub_poll_slot.
  Qed.

  (* the outcome a caller receives is OShutdown or was in its oneshot *)
  Lemma poll_call_done s i o s' : poll_call s i = (CDone o, s') ->
    (o = OShutdown \/ (sl_val (slotv (slots s) (idl (calls s) i)) = Some o /\
                       phl (calls s) i <> Some PNew)) /\
    phl (calls s') i = Some PDone /\
    (phl (calls s) i <> Some PNew -> idl (calls s') i = idl (calls s) i).
  Proof.
    unfold poll_call. destruct (nth_error (calls s) i) as [c|] eqn:Ec; [|discriminate].
    pose proof (phl_nth _ _ _ Ec) as Hph. pose proof (idl_nth _ _ _ Ec) as Hid.
    assert (Hlt : (i < length (calls s))%nat) by (apply nth_error_Some; congruence).
    assert (FS : forall (st : cstate) id, phl (calls st) i <> None ->
              phl (calls (snd (fail_shutdown st i id))) i = Some PDone /\
              idl (calls (snd (fail_shutdown st i id))) i = idl (calls st) i).
    { intros st id Hn. unfold fail_shutdown. cbn [snd]. rewrite set_phase_alt, push_cancel_alt.
      cbn [calls upd_calls upd_cancels]. unfold slot_rx_close, slot_tx_drop, set_slot. cbn [calls upd_slots].
      rewrite phl_phase_calls, idl_phase_calls, Nat.eqb_refl.
      destruct (phl (calls st) i); [split; reflexivity|congruence]. }
    assert (PS : forall (st : cstate) id r0 s0, poll_slot st i id = (CDone r0, s0) -> phl (calls st) i <> None ->
              (sl_val (slotv (slots st) id) = Some r0 \/ r0 = OShutdown) /\
              phl (calls s0) i = Some PDone /\ idl (calls s0) i = idl (calls st) i).
    { intros st id r0 s0 H Hn. apply poll_slot_spec in H. destruct H as [H ->]. split; [exact H|].
      rewrite set_phase_alt. unfold slot_rx_close, set_slot. cbn [calls upd_calls upd_slots].
      rewrite phl_phase_calls, idl_phase_calls, Nat.eqb_refl.
      destruct (phl (calls st) i); [split; reflexivity|congruence]. }
    destruct (c_phase c) eqn:Ep; try discriminate.
    - (* PNew *)
      set (s1 := set_slot _ (next_id s) slot0).
      assert (P1 : phl (calls s1) i = Some PNew).
      { unfold s1, set_slot, with_id. cbn [calls upd_slots upd_calls upd_misc].
        rewrite phl_set_nth by exact Hlt. rewrite Nat.eqb_refl. cbn [c_phase]. congruence. }
      destruct (rx_closed s1).
      + intros [= <- E]. split; [left; reflexivity|]. destruct (FS s1 (next_id s)) as [F1 F2]; [congruence|].
        cbn [snd fail_shutdown] in F1. rewrite <- E. split; [exact F1|]. intro Hn. congruence.
      + destruct (permits s1); [discriminate|]. unfold enqueue, poll_slot. rewrite get_slot_slotv.
        rewrite set_phase_alt. unfold s1, set_slot.
        cbn [slots upd_calls upd_q upd_slots]. rewrite slotv_aset, N.eqb_refl. cbn. discriminate.
    - (* PAssigned *)
      destruct (rx_closed s).
      + intros [= <- E]. split; [left; reflexivity|].
        destruct (FS (upd_q s (S (permits s)) (queue s) (waiters s) true) (c_id c)) as [F1 F2];
          [cbn [calls upd_q]; congruence|].
        cbn [snd fail_shutdown] in F1, F2. rewrite <- E. split; [exact F1|]. intros _. exact F2.
      + unfold enqueue. intro H. apply PS in H.
        * destruct H as (H1 & H2 & H3). revert H1 H3. rewrite set_phase_alt. cbn [slots calls upd_calls upd_q].
          rewrite idl_phase_calls. intros H1 H3. split; [|split; [exact H2|intros _; exact H3]].
          destruct H1 as [H1|H1]; [right; split; [rewrite Hid; exact H1|congruence]|left; exact H1].
        * rewrite set_phase_alt. cbn [calls upd_calls upd_q]. rewrite phl_phase_calls, Nat.eqb_refl, Hph.
          discriminate.
    - (* PAcqClosed *)
      intros [= <- E]. split; [left; reflexivity|]. destruct (FS s (c_id c)) as [F1 F2]; [congruence|].
      cbn [snd fail_shutdown] in F1, F2. rewrite <- E. split; [exact F1|intros _; exact F2].
    - (* PAwaiting *)
      intro H. apply PS in H; [|congruence]. destruct H as (H1 & H2 & H3).
      split; [|split; [exact H2|intros _; exact H3]].
      destruct H1 as [H1|H1]; [right; split; [rewrite Hid; exact H1|congruence]|left; exact H1].
  Qed.

  Definition vals_or (a : activity) s s' : Prop :=
    forall id o, sl_val (slotv (slots s') id) = Some o ->
                 sl_val (slotv (slots s) id) = Some o \/ o = OConnErr a.

  Lemma vals_or_trans a s1 s2 s3 : vals_or a s1 s2 -> vals_or a s2 s3 -> vals_or a s1 s3.
  Proof. intros H1 H2 id o H. destruct (H2 _ _ H) as [H'|H']; [apply H1, H'|right; exact H']. Qed.
  Lemma vals_or_sub a s s' : vals_sub s s' -> vals_or a s s'.
  Proof. intros H id o Hv. left. apply H, Hv. Qed.
  Lemma vals_or_send a s id : vals_or a s (slot_send s id (OConnErr a)).
  Proof. intros id' o H. apply val_send in H. destruct H as [H|[_ ->]]; [left; exact H|right; reflexivity]. Qed.

  Lemma slots_q_close s : slots (q_close s) = slots s.
  Proof.
    unfold q_close. destruct (rx_closed s); [reflexivity|]. cbn [slots upd_q].
    apply (cf_slots _ _ (proj2 (proj2 (fold_set_phase_spec PAcqClosed (waiters s) s)))).
  Qed.

  Lemma slots_q_poll_recv s r s1 : q_poll_recv s = (r, s1) -> slots s1 = slots s.
  Proof.
    unfold q_poll_recv. destruct (queue s).
    - destruct (Nat.eqb _ _); [intros [= _ <-]; reflexivity|]. destruct (_ && _); intros [= _ <-]; reflexivity.
    - intros [= _ <-]. unfold release_permit. cbn [waiters upd_q].
      destruct (waiters s); [reflexivity|]. rewrite set_phase_alt. reflexivity.
  Qed.

  Lemma vals_or_shut_down s a b s' : shut_down s a = (b, s') -> vals_or a s s'.
  Proof.
    unfold shut_down. intro H.
    assert (V1 : vals_or a s (complete_all (q_close s) (OConnErr a))).
    { unfold complete_all.
      assert (G : forall l (s0 : cstate),
                  vals_or a s0 (fold_left (fun acc (p : N * ifentry) => slot_send acc (fst p) (OConnErr a)) l s0)).
      { induction l as [|p r IH]; intro s0; cbn [fold_left]; [apply vals_or_sub, vals_sub_refl|].
        eapply vals_or_trans; [apply vals_or_send|apply IH]. }
      eapply vals_or_trans; [|apply G]. apply vals_or_sub, vals_sub_slots.
      cbn [slots upd_if]. apply slots_q_close. }
    eapply vals_or_trans; [exact V1|]. revert H.
    generalize (S (length (queue (complete_all (q_close s) (OConnErr a))))).
    generalize (complete_all (q_close s) (OConnErr a)).
    intros s0 f. revert b s' s0. induction f as [|f IH]; intros b s' s0; cbn [drain_loop].
    - intros [= _ <-]. apply vals_or_sub, vals_sub_refl.
    - destruct (q_poll_recv s0) as [rv s1] eqn:E1. pose proof (slots_q_poll_recv _ _ _ E1) as E.
      destruct rv as [q| |]; try (intros [= _ <-]; apply vals_or_sub, vals_sub_slots, E).
      intro H. apply IH in H. eapply vals_or_trans; [|exact H].
      eapply vals_or_trans; [apply vals_or_sub, vals_sub_slots, E|apply vals_or_send].
  Qed.

  (* ---------------------------------------------------------------- the relation *)
  Record R09 m s : Prop := {
    r_err : m_first_err m = terminal s;
    r_disp : m_disp m = finished s;
    r_drop : m_disp_dropped m = dropped s;
    r_sf : forall id, sl_val (slotv (slots s) id) = Some OSendErr -> failed_in id (m_sent m) = true }.

  Lemma R09_vals m s s' :
    R09 m s -> terminal s' = terminal s -> finished s' = finished s -> dropped s' = dropped s ->
    vals_sub s s' -> R09 m s'.
  Proof.
    intros [] E1 E2 E3 V. constructor; rewrite ?E1, ?E2, ?E3; try assumption.
    intros id H. apply r_sf0, V, H.
  Qed.

  Lemma R09_meq m m' s :
    R09 m s -> m_first_err m' = m_first_err m -> m_disp m' = m_disp m ->
    m_disp_dropped m' = m_disp_dropped m -> m_sent m' = m_sent m -> R09 m' s.
  Proof. intros [] E1 E2 E3 E4. constructor; rewrite ?E1, ?E2, ?E3, ?E4; assumption. Qed.

  (* ---------------------------------------------------------------- one dispatch poll *)
  Lemma plog_shut_down s a b s' : shut_down s a = (b, s') -> plog s' = plog s.
  Proof. intro H. pose proof (IFrame_shut_down s a) as F. rewrite H in F. apply F. Qed.

  Lemma c09_poll_dispatch m s0 f r s1 :
    poll_dispatch tp f s0 = (r, s1) -> plog s0 = [] -> R09 m s0 -> Inv s0 -> alive s0 ->
    v09 (fst (chk_calls maxif m (plog s1))) = true /\
    m_first_err (mrun m (plog s1)) = terminal s1 /\
    (forall id, sl_val (slotv (slots s1) id) = Some OSendErr ->
                failed_in id (m_sent (mrun m (plog s1))) = true) /\
    match r with
    | DReady (DErr a) => terminal s1 = Some a
    | DReady DOk => terminal s1 = None
    | _ => True
    end.
  Proof.
    unfold poll_dispatch. intros H Hp [Re Rd Rr Rs] Iv Hal. destruct (terminal s0) as [a|] eqn:Et.
    - destruct (shut_down s0 a) as [b s'] eqn:E1.
      pose proof (plog_shut_down _ _ _ _ E1) as P1. pose proof (PFrame_shut_down _ _ _ _ E1) as F1.
      pose proof (vals_or_shut_down _ _ _ _ E1) as V1.
      assert (K : plog s1 = [] /\ terminal s1 = Some a /\ vals_or a s0 s1).
      { destruct b; injection H as _ <-; (split; [congruence|split; [rewrite (pf_terminal _ _ F1); exact Et|exact V1]]). }
      destruct K as (K1 & K2 & K3). rewrite K1. cbn [chk_calls fst mrun fold_left].
      split; [reflexivity|]. split; [congruence|]. split.
      + intros id Hv. destruct (K3 _ _ Hv) as [Hv'|[=]]. apply Rs, Hv'.
      + destruct b; injection H as <- _; [exact K2|exact I].
    - destruct (run_loop tp f s0) as [rr sA] eqn:E1.
      pose proof (run_loop_msteps _ _ _ _ _ E1) as M1.
      destruct (msteps_log _ _ _ M1) as (seg & Eseg & Hsh). rewrite Hp in Eseg. cbn [app] in Eseg.
      pose proof (msteps_PFrame _ _ _ _ M1) as F1.
      assert (EtA : terminal sA = None) by (rewrite (pf_terminal _ _ F1); exact Et).
      assert (Hm : m_first_err m = None) by congruence.
      assert (SFA : forall id, sl_val (slotv (slots sA) id) = Some OSendErr ->
                     failed_in id (m_sent (mrun m (plog sA))) = true).
      { intros id Hv. rewrite failed_in_mrun. destruct (msteps_val _ _ _ id _ M1 Hv) as [Hv0|Hw].
        - rewrite (Rs id Hv0). reflexivity.
        - cbn [written] in Hw. rewrite Hw. apply orb_true_r. }
      destruct rr as [|a| |].
      + injection H as <- <-. rewrite Eseg. destruct (v09_shape maxif m _ _ Hm Hsh) as [V E].
        cbn [rerr] in E. rewrite <- Eseg. rewrite Eseg at 1 2. split; [exact V|].
        split; [rewrite E, EtA; reflexivity|]. split; [exact SFA|exact EtA].
      + destruct (shut_down (upd_term sA (Some a)) a) as [b s'] eqn:E2.
        pose proof (plog_shut_down _ _ _ _ E2) as P2. pose proof (PFrame_shut_down _ _ _ _ E2) as F2.
        pose proof (vals_or_shut_down _ _ _ _ E2) as V2. cbn [plog upd_term] in P2.
        assert (K : plog s1 = plog sA /\ terminal s1 = Some a /\ vals_or a sA s1).
        { destruct b; injection H as _ <-; (split; [exact P2|split; [rewrite (pf_terminal _ _ F2); reflexivity|exact V2]]). }
        destruct K as (K1 & K2 & K3). rewrite K1, Eseg.
        destruct (v09_shape maxif m _ _ Hm Hsh) as [V E]. cbn [rerr] in E.
        split; [exact V|]. split; [rewrite E, K2; reflexivity|]. split.
        * intros id Hv. destruct (K3 _ _ Hv) as [Hv'|[=]]. rewrite <- Eseg. apply SFA, Hv'.
        * destruct b; injection H as <- _; [exact K2|exact I].
      + injection H as <- <-. rewrite Eseg. destruct (v09_shape maxif m _ _ Hm Hsh) as [V E].
        cbn [rerr] in E. split; [exact V|]. split; [rewrite E, EtA; reflexivity|].
        split; [rewrite <- Eseg; exact SFA|exact I].
      + injection H as <- <-. rewrite Eseg. destruct (v09_shape maxif m _ _ Hm Hsh) as [V E].
        cbn [rerr] in E. split; [exact V|]. split; [rewrite E, EtA; reflexivity|].
        split; [rewrite <- Eseg; exact SFA|exact I].
  Qed.

  (* ---------------------------------------------------------------- one op *)
  Lemma vals_sub_step s (o : op) s' os :
    step tp fuel_of s o = (s', os) -> o <> PollDispatch -> vals_sub s s'.
  Proof.
    destruct o; cbn [step]; intros H N1; try congruence.
    - injection H as <- _. destruct (nth_error _ _) as [[|]|]; apply vals_sub_slots; reflexivity.
    - injection H as <- _. destruct (nth_error _ _) as [[|]|]; apply vals_sub_slots; reflexivity.
    - injection H as <- _. apply vals_sub_slots; reflexivity.
    - destruct (poll_call s i) as [r s1] eqn:E. injection H as <- _. eapply vals_sub_poll_call, E.
    - injection H as <- _. destruct (option_map _ _) as [[]|];
        try (eapply vals_sub_trans; [apply vals_sub_guard_close|apply vals_sub_guard_cancel]).
      apply vals_sub_refl.
    - injection H as <- _. destruct (option_map _ _) as [[]|]; try apply vals_sub_guard_close.
      apply vals_sub_refl.
    - injection H as <- _. apply vals_sub_guard_cancel.
    - injection H as <- _. destruct (dropped s); [apply vals_sub_refl|apply vals_sub_drop_dispatch].
    - injection H as <- _. apply vals_sub_slots; reflexivity.
    - injection H as <- _. apply vals_sub_slots; reflexivity.
  Qed.

  Lemma drop_dispatch_frame s :
    terminal (drop_dispatch s) = terminal s /\ finished (drop_dispatch s) = finished s /\
    dropped (drop_dispatch s) = true.
  Proof.
    unfold drop_dispatch. cbn [terminal finished dropped upd_fin upd_cancels upd_if upd_q].
    pose proof (TFrame_P _ _ (TFrame_fold_slot_tx_drop (fun p : N * ifentry => fst p)
      (inflight (fold_left (fun acc q => slot_tx_drop acc (q_id q)) (queue (q_close s)) (q_close s)))
      (fold_left (fun acc q => slot_tx_drop acc (q_id q)) (queue (q_close s)) (q_close s)))) as F3.
    pose proof (TFrame_P _ _ (TFrame_fold_slot_tx_drop q_id (queue (q_close s)) (q_close s))) as F2.
    pose proof (if_p _ _ (IFrame_q_close s)) as F1.
    rewrite (pf_terminal _ _ F3), (pf_terminal _ _ F2), (pf_terminal _ _ F1).
    rewrite (pf_finished _ _ F3), (pf_finished _ _ F2), (pf_finished _ _ F1). auto.
  Qed.

  Lemma R09_nil_op m s (o : op) :
    R09 m s -> snd (step tp fuel_of s o) = [] -> o <> PollDispatch ->
    R09 (rec_op m o) (fst (step tp fuel_of s o)).
  Proof.
    intros R E N1. destruct (step tp fuel_of s o) as [s' os] eqn:Es. cbn [fst snd] in *.
    pose proof (vals_sub_step _ _ _ _ Es N1) as V.
    destruct (op_eq_DropDispatch o) as [->|N2].
    - cbn [step] in Es. injection Es as <- _. destruct R as [Re Rd Rr Rs].
      destruct (dropped s) eqn:Ed.
      + constructor; rewrite ?rec_op_first_err, ?rec_op_disp, ?rec_op_disp_dropped, ?rec_op_sent;
          try assumption. congruence.
      + destruct (drop_dispatch_frame s) as (F1 & F2 & F3).
        constructor; rewrite ?rec_op_first_err, ?rec_op_disp, ?rec_op_disp_dropped, ?rec_op_sent,
          ?F1, ?F2, ?F3; try assumption; try reflexivity.
        intros id H. apply Rs, V, H.
    - pose proof (UFrame_step tp fuel_of _ _ _ _ Es N1 N2) as F.
      eapply R09_vals; [|apply F|apply F|apply F|exact V].
      eapply R09_meq; [exact R|apply rec_op_first_err|apply rec_op_disp| |apply rec_op_sent].
      rewrite rec_op_disp_dropped. destruct o; try reflexivity. congruence.
  Qed.

  Lemma step_nil_obs s (o : op) :
    (forall i, o <> PollCall i) -> o <> PollDispatch -> snd (step tp fuel_of s o) = [].
  Proof.
    destruct o; intros H1 H2; try reflexivity; try congruence.
  Qed.

  Lemma c09_step m s (o : op) :
    sim m s -> N.of_nat (S (length (m_polled m))) < two64 -> Inv s -> R09 m s ->
    v09 (fst (chk_obs maxif o m (snd (step tp fuel_of s o)))) = true /\
    R09 (snd (chk_obs maxif o m (snd (step tp fuel_of s o)))) (fst (step tp fuel_of s o)).
  Proof.
    intros HS Hw Iv R.
    pose proof (sim_step tp fuel_of maxif m s o HS Hw) as HS'.
    assert (Nil : forall o' : op, (forall i, o' <> PollCall i) -> o' <> PollDispatch ->
              v09 (fst (chk_obs maxif o' m (snd (step tp fuel_of s o')))) = true /\
              R09 (snd (chk_obs maxif o' m (snd (step tp fuel_of s o')))) (fst (step tp fuel_of s o'))).
    { intros o' H1 H2. pose proof (step_nil_obs s o' H1 H2) as E. rewrite E, chk_obs_nil. cbn [fst snd].
      split; [reflexivity|]. apply R09_nil_op; assumption. }
    destruct o; try (apply Nil; [intros j; discriminate|discriminate]).
    - (* PollCall *)
      clear Nil. cbn [step] in *. destruct (poll_call s i) as [r s'] eqn:E.
      pose proof (UFrame_poll_call s i) as F. rewrite E in F. cbn [snd] in F.
      pose proof (vals_sub_poll_call _ _ _ _ E) as V.
      assert (R1 : R09 (rec_op (T:=T) m (PollCall i)) s').
      { eapply R09_vals; [|apply F|apply F|apply F|exact V].
        eapply R09_meq; [exact R|apply rec_op_first_err|apply rec_op_disp| |apply rec_op_sent].
        rewrite rec_op_disp_dropped. reflexivity. }
      set (m1 := rec_op (T:=T) m (PollCall i)) in *.
      destruct r as [|out|]; cbn [fst snd chk_obs] in *.
      + (* pending *)
        split; [|exact R1]. cbn [v09]. apply negb_true_iff.
        unfold m1. rewrite rec_op_disp, rec_op_disp_dropped, (r_disp _ _ R), (r_drop _ _ R).
        destruct (finished s) as [[|a]|] eqn:Ef; destruct (dropped s) eqn:Ed; try reflexivity; exfalso;
          (eapply poll_call_not_pending; [exact E|exact Iv|]); intros [H1 H2]; congruence.
      + (* done *)
        split.
        * destruct (poll_call_done _ _ _ _ E) as (Ho & Hp & Hi).
          unfold chk_done. cbn [v09].
          destruct out as [v|k| | |a|]; try reflexivity.
          -- (* OSendErr *)
             destruct Ho as [[=]|[Hv Hn]]. specialize (Hi Hn).
             apply (failed_in_sent_for m1 i (idl (calls s) i)).
             ++ destruct HS' as [C' _ _].
                unfold phl in Hp. destruct (nth_error (calls s') i) as [c'|] eqn:Ec'; [|discriminate].
                cbn [option_map] in Hp. injection Hp as Hp.
                pose proof (sc_phase _ _ C' _ _ Ec') as D. rewrite Hp in D.
                pose proof (d_polled _ _ _ D true eq_refl) as Hin. apply mem_nat_In in Hin.
                pose proof (sc_id _ _ C' _ _ Ec' Hin) as Hid.
                rewrite <- Hi. unfold idl at 1. rewrite Ec'. rewrite <- Hid. reflexivity.
             ++ unfold m1. rewrite rec_op_sent. apply (r_sf _ _ R), Hv.
          -- (* OConnErr *)
             destruct Ho as [[=]|[Hv Hn]]. unfold m1. rewrite rec_op_first_err, (r_err _ _ R).
             rewrite (i_se _ _ Iv _ _ Hv). apply activity_eqb_refl.
        * eapply R09_meq; [exact R1|reflexivity..].
      + split; [reflexivity|exact R1].
    - (* PollDispatch *)
      clear Nil HS'.
      destruct (finished s) as [d|] eqn:Ef.
      { cbn [step]. rewrite Ef. cbn. split; [reflexivity|exact R]. }
      destruct (dropped s) eqn:Ed.
      { cbn [step]. rewrite Ef, Ed. cbn. split; [reflexivity|exact R]. }
      set (s0 := upd_tr s (tr s) (fused s) []).
      destruct (poll_dispatch tp (fuel_of s0) s0) as [r s1] eqn:E.
      set (s2 := match r with DReady d => upd_fin s1 (Some d) (dropped s1) | _ => s1 end).
      assert (Est : step tp fuel_of s PollDispatch =
                    (upd_tr s2 (tr s2) (fused s2) [],
                     [OCalls (plog s1); ODisp r;
                      OGauge (N.of_nat (length (inflight s2))) (N.of_nat (length (timers s2)))])).
      { cbn [step]. rewrite Ef, Ed. fold s0. rewrite E. reflexivity. }
      rewrite Est. cbn [fst snd].
      assert (R0 : R09 m s0) by (destruct R; constructor; assumption).
      assert (I0 : Inv s0) by (eapply InvX_vframe; [|exact Iv]; constructor; reflexivity).
      assert (Hal0 : alive s0) by (split; cbn; [exact Ed|rewrite Ef; discriminate]).
      destruct (c09_poll_dispatch m s0 _ _ _ E eq_refl R0 I0 Hal0) as (V & Ee & Sf & Hr).
      assert (PF : finished s1 = finished s0 /\ dropped s1 = dropped s0).
      { revert E. unfold poll_dispatch. destruct (terminal s0) as [a|].
        - destruct (shut_down s0 a) as [b sx] eqn:Ex. apply PFrame_shut_down in Ex.
          destruct b; intros [= _ <-]; split; apply Ex.
        - destruct (run_loop tp (fuel_of s0) s0) as [rr sx] eqn:Ex. apply PFrame_run_loop in Ex.
          destruct rr as [|a| |]; try (intros [= _ <-]; split; apply Ex).
          destruct (shut_down (upd_term sx (Some a)) a) as [b sy] eqn:Ey. apply PFrame_shut_down in Ey.
          destruct b; intros [= _ <-]; (split; [rewrite (pf_finished _ _ Ey)|rewrite (pf_dropped _ _ Ey)]);
            apply Ex. }
      destruct PF as [PF1 PF2]. cbn [finished dropped upd_tr s0] in PF1, PF2.
      cbn [chk_obs rec_op].
      pose proof (chk_calls_snd maxif m (plog s1)) as Esnd.
      destruct (chk_calls maxif m (plog s1)) as [v m2]. cbn [fst snd] in V, Esnd. subst m2.
      destruct (c_poll _ _ _) as [okc c2]. cbn [fst snd vand v09]. rewrite V. cbn [andb]. split.
      * destruct r as [[|a]| |]; try reflexivity.
        -- rewrite Ee, Hr. reflexivity.
        -- rewrite Ee, Hr. apply activity_eqb_refl.
      * constructor; cbn [m_first_err m_disp m_disp_dropped m_sent upd_m].
        -- rewrite Ee. unfold s2. destruct r; reflexivity.
        -- rewrite mrun_disp. unfold s2. destruct r; cbn [finished upd_tr upd_fin]; [reflexivity|..];
             rewrite PF1; exact (r_disp _ _ R).
        -- rewrite mrun_disp_dropped. unfold s2. destruct r; cbn [dropped upd_tr upd_fin]; rewrite PF2;
             exact (r_drop _ _ R).
        -- unfold s2. destruct r; exact Sf.
  Qed.

  (* ---------------------------------------------------------------- every op list *)
  Lemma c09_run (ops : list op) : forall m s,
    sim m s -> N.of_nat (length (m_polled m) + length ops) < two64 -> Inv s -> R09 m s ->
    v09 (chk_run maxif m ops (fst (run_from tp fuel_of s ops))) = true.
  Proof.
    induction ops as [|o ops IH]; intros m s HS Hw Iv R; cbn [run_from chk_run fst]; [reflexivity|].
    assert (Hw1 : N.of_nat (S (length (m_polled m))) < two64) by (cbn [length] in Hw; lia).
    destruct (c09_step m s o HS Hw1 Iv R) as [V R'].
    pose proof (sim_step tp fuel_of maxif m s o HS Hw1) as HS'.
    pose proof (polled_chk_obs_le maxif m o (snd (step tp fuel_of s o))) as Hle.
    assert (Iv' : Inv (fst (step tp fuel_of s o))).
    { destruct (step tp fuel_of s o) as [s1 l] eqn:Es. cbn [fst].
      eapply (Inv_step tp fuel_of); [exact Es| |exact Iv].
      rewrite (sc_next _ _ (sim_c _ _ HS)). lia. }
    destruct (step tp fuel_of s o) as [s1 l]. cbn [fst snd] in *.
    destruct (run_from tp fuel_of s1 ops) as [ls s2] eqn:Er. cbn [fst].
    destruct (chk_obs maxif o m l) as [v m']. cbn [fst snd] in *. cbn [vand v09].
    rewrite V. cbn [andb].
    specialize (IH m' s1 HS'). rewrite Er in IH. apply IH; [|exact Iv'|exact R'].
    cbn [length] in Hw. lia.
  Qed.

  Lemma Inv_init t0 qcap mif : Inv (init (T:=T) t0 qcap mif).
  Proof.
    assert (E : forall i, phl (@nil call) i = None) by (intros [|i]; reflexivity).
    constructor; [constructor|constructor|..]; cbn [calls waiters rx_closed queue inflight slots next_id
      cancels terminal finished dropped init].
    - intros i. rewrite E. discriminate.
    - intros i [].
    - constructor.
    - discriminate.
    - intros i. rewrite E. discriminate.
    - intros i j. rewrite E. discriminate.
    - intros id [].
    - intros i. rewrite E. discriminate.
    - intros id a. discriminate.
    - left. split; [reflexivity|discriminate].
  Qed.

  Lemma R09_init t0 qcap mif : R09 m0 (init (T:=T) t0 qcap mif).
  Proof. constructor; cbn; try reflexivity. discriminate. Qed.
End C09.

Theorem c09_contained_and_reported {T : Type} : @stmt_c09 T.
Proof.
  intros tp fuel_of t0 qcap maxif ops Hw. unfold c09_ok, monitors, client_trace.
  apply c09_run; [apply sim_init| |apply Inv_init|apply R09_init].
  unfold no_wrap in Hw. cbn. unfold two64. lia.
Qed.
Print Assumptions c09_contained_and_reported.
