(* MaxChannelsPerKey under concurrency (tarpc/src/server/limits/channels_per_key.rs): the model of
   PerKey.v split at the points where other threads can interleave.  No proofs in this file.

   `MaxChannelsPerKey::poll_next` takes `Pin<&mut Self>`: the listener task is the only code that
   touches `key_counts`, the listener stream and the receiving end of `dropped_keys`.  The only
   concurrency is OTHER threads dropping `TrackedChannel`s: each drop releases one
   `Arc<Tracker>` (an atomic decrement) and the last one runs `Tracker::drop`, which queues the
   key on `dropped_keys` (a linearizable unbounded mpsc).  These drops can fall anywhere between
   two atomic actions of the listener task.  The atomic actions of one loop iteration of
   `poll_next` (l.266-284) that read or write shared state are:

     listen    l.226 + l.170 + l.188-206   take one arrival; `key_counts.entry(key)`;
                                            Vacant: create the tracker (nothing shared is read);
                                            Occupied: READ `strong_count()` (l.199), compare with
                                            the limit (local); at the limit: shed
     upgrade   l.208-216                    `Weak::upgrade()` (one CAS loop: succeeds iff the strong
                                            count is > 0 at that instant); on failure a new tracker
                                            replaces the dead `Weak`
     receive   l.234                        `dropped_keys.poll_recv`: pop one notification
     check     l.241-245                    `entry(key)`, READ `strong_count()`, remove if 0

   Everything else in the iteration is local to the listener task.  The op `RListener` performs
   the next of these actions (the program counter `pc` says which); `RClose cid`, `RArrive k` and
   `REndListener` may occur between any two of them.  `RClose` is also accepted for a channel that
   `poll_next` has created but not returned yet (which no thread can do): a superset of the real
   interleavings, so what is proved for all op lists holds for the real ones.

   Two observation lists per op:
     decision view   a shed is observed at the action that READ the count, a yield at the action
                     that created the channel (`listen` or `upgrade`)
     report view     both are observed when `poll_next` finishes the iteration (after `check`)
   The C13 monitor accepts the decision view of every interleaving and rejects the report view of
   some (PerKeyRaceProofs.v): a shed is justified by the count that was read, not by the count at
   the time the caller learns about it.

   There is no harness for this file: real thread races are not reproducible deterministically;
   the sequential behaviour (no op between the actions of one poll) is PerKey.v, which the C13
   correspondence check ties to the code. *)
From Coq Require Import List Arith Bool.
Import ListNotations.
From TarpcV Require Import PerKey.

(* result of the listener half of an iteration *)
Inductive rlres := RYield (cid : nat) (k : key) | RShed (k : key) | RPend | REndL.

Inductive rpc :=
| PcIdle                            (* outside poll_next *)
| PcLoop                            (* inside poll_next, at the top of the loop *)
| PcUpgrade (k : key) (t : nat)     (* count of tracker t read (below the limit); upgrade() not yet called *)
| PcClosed (l : rlres)              (* poll_listener returned l; poll_closed_channels not yet called *)
| PcCheck (l : rlres) (k : key).    (* notification k received; its entry not yet examined *)

Record rst := { rb : st; pc : rpc }.

Definition with_notifs (b : st) (v : list key) : st :=
  {| arrivals := arrivals b; ended := ended b; kc := kc b; chans := chans b; notifs := v;
     next_tid := next_tid b; next_cid := next_cid b; lim := lim b |}.

(* action `listen` *)
Definition listen (b : st) : rst * list obs :=
  match arrivals b with
  | [] => ({| rb := b; pc := PcClosed (if ended b then REndL else RPend) |}, [])
  | k :: _ =>
    let b1 := pop_arrival b in
    match lookup k (kc b1) with
    | None =>
      ({| rb := accept b1 k (next_tid b1) true; pc := PcClosed (RYield (next_cid b1) k) |},
       [OYield (next_cid b1) k])
    | Some t =>
      let c := strong t (chans b1) in                      (* the READ *)
      if lim b1 <=? c then ({| rb := b1; pc := PcClosed (RShed k) |}, [OShed k])
      else ({| rb := b1; pc := PcUpgrade k t |}, [])
    end
  end.

(* action `upgrade` *)
Definition upgrade (b : st) (k : key) (t : nat) : rst * list obs :=
  let b' := if Nat.eqb (strong t (chans b)) 0 then accept b k (next_tid b) true   (* upgrade() = None *)
            else accept b k t false in
  ({| rb := b'; pc := PcClosed (RYield (next_cid b) k) |}, [OYield (next_cid b) k]).

(* the end of an iteration: (decision view, report view) *)
Definition finish (b : st) (l : rlres) (c : bool) : rst * (list obs * list obs) :=
  match l with
  | RYield cid k => ({| rb := b; pc := PcIdle |}, ([], [OYield cid k]))
  | RShed k => ({| rb := b; pc := PcLoop |}, ([], [OShed k]))
  | RPend => if c then ({| rb := b; pc := PcLoop |}, ([], []))
             else ({| rb := b; pc := PcIdle |}, ([OPending], [OPending]))
  | REndL => if c then ({| rb := b; pc := PcLoop |}, ([], []))
             else ({| rb := b; pc := PcIdle |}, ([OEnd], [OEnd]))
  end.

(* the next atomic action of the listener task *)
Definition lstep (s : rst) : rst * (list obs * list obs) :=
  match pc s with
  | PcIdle | PcLoop => let '(s', o) := listen (rb s) in (s', (o, []))
  | PcUpgrade k t => let '(s', o) := upgrade (rb s) k t in (s', (o, []))
  | PcClosed l =>
    match notifs (rb s) with
    | [] => finish (rb s) l false                                              (* Poll::Pending *)
    | k :: r => ({| rb := with_notifs (rb s) r; pc := PcCheck l k |}, ([], []))  (* action `receive` *)
    end
  | PcCheck l k =>
    (* action `check`: exactly PerKey.poll_closed (repaired) on the notification just received *)
    finish (snd (poll_closed true (with_notifs (rb s) (k :: notifs (rb s))))) l true
  end.

Inductive rop := RArrive (k : key) | RClose (cid : nat) | RListener | REndListener.

Definition rstep (s : rst) (o : rop) : rst * (list obs * list obs) :=
  match o with
  | RArrive k => ({| rb := fst (step true (rb s) (Arrive k)); pc := pc s |}, ([], []))
  | RClose cid => ({| rb := close (rb s) cid; pc := pc s |}, ([], []))
  | REndListener => ({| rb := fst (step true (rb s) EndListener); pc := pc s |}, ([], []))
  | RListener => lstep s
  end.

Fixpoint rrun_from (s : rst) (ops : list rop) : list (list obs * list obs) * rst :=
  match ops with
  | [] => ([], s)
  | o :: r => let '(s1, l) := rstep s o in
              let '(ls, s2) := rrun_from s1 r in (l :: ls, s2)
  end.

Definition rinit (n : nat) : rst := {| rb := init n; pc := PcIdle |}.
Definition rrun (n : nat) (ops : list rop) := rrun_from (rinit n) ops.

Definition decision_view (tr : list (list obs * list obs)) : list (list obs) := map fst tr.
Definition report_view (tr : list (list obs * list obs)) : list (list obs) := map snd tr.

(* what the C13 monitor (PerKey.mon) sees of the ops: only the closes matter to it *)
Definition to_op (o : rop) : op :=
  match o with
  | RArrive k => Arrive k | RClose cid => Close cid | RListener => Poll | REndListener => EndListener
  end.
