(* MaxChannelsPerKey under concurrency (tarpc/src/server/limits/channels_per_key.rs): the model of
   PerKey.v split at the points where other threads can interleave.  No proofs in this file.

   `MaxChannelsPerKey::poll_next` takes `Pin<&mut Self>`: the listener task is the only code that
   touches `key_counts`, the listener stream and the receiving end of `dropped_keys`.  The only
   concurrency is OTHER threads dropping `TrackedChannel`s: each drop releases one
   `Arc<Tracker>` (an atomic decrement) and the last one runs `Tracker::drop`, which queues the
   key on `dropped_keys` (a linearizable unbounded mpsc).  These drops can fall anywhere between
   two atomic actions of the listener task.  The atomic actions of one loop iteration of
   `poll_next` (l.266-284) that read or write shared state are:

     listen    l.226 + l.170 + l.188-206   take one arrival; `key_counts.entry(key)`;
                                            Vacant: create the tracker (nothing shared is read);
                                            Occupied: READ `strong_count()` (l.199), compare with
                                            the limit (local); at the limit: shed
     upgrade   l.208-216                    `Weak::upgrade()` (one CAS loop: succeeds iff the strong
                                            count is > 0 at that instant); on failure a new tracker
                                            replaces the dead `Weak`
     receive   l.234                        `dropped_keys.poll_recv`: pop one notification
     check     l.241-245                    `entry(key)`, READ `strong_count()`, remove if 0

   Everything else in the iteration is local to the listener task.  The op `RListener` performs
   the next of these actions (the program counter `pc` says which).  Dropping a TrackedChannel is
   two steps of another thread: `RRelease cid` releases its `Arc<Tracker>` (the strong count drops;
   if it was the last holder the tracker now OWES a notification: ghost field `owed`), and later
   `RNotify k` is `Tracker::drop` sending the key on `dropped_keys`.  The listener may run between
   the two (count 0 visible, notification not yet queued) and owed notifications of different
   threads may arrive in any order.  `RClose cid` is the special case release + immediate
   notification.  `RRelease`/`RNotify`/`RClose`, `RArrive k` and `REndListener` may occur between
   any two actions of the listener.  A release is also accepted for a channel that `poll_next` has
   created but not returned yet (which no thread can do): a superset of the real interleavings, so
   what is proved for all op lists holds for the real ones.

   ASSUMED: the reads of `strong_count()` are sequentially consistent (each read returns the count
   of the state it runs in).  `Weak::strong_count` is a relaxed load; since other threads only
   ever decrement the count and the listener's own increments are visible to itself, a stale read
   can only return a HIGHER value than the current one: a conservative shed, never an admission
   over the limit.  `upgrade()` is a CAS loop and is exact.

   Two observation lists per op:
     decision view   a shed is observed at the action that READ the count, a yield at the action
                     that created the channel (`listen` or `upgrade`)
     report view     both are observed when `poll_next` finishes the iteration (after `check`)
   The C13 monitor accepts the decision view of every interleaving and rejects the report view of
   some (PerKeyRaceProofs.v): a shed is justified by the count that was read, not by the count at
   the time the caller learns about it.

   Tie to the code (part `race` of the C13 check, harness/src/c13r.rs, Checks/C13rcheck.v): hook H5
   puts a yield point exactly at each boundary between these actions (`cpk_before_upgrade`,
   `cpk_before_recv`, `cpk_before_check`) and inside `Tracker::drop` before it sends
   (`cpk_tracker_drop`, the gap between RRelease and RNotify).  The yield callback does on the
   polling thread what another thread could do at that point (the effect on the Arc counts and on
   `dropped_keys` is the same), the real run is logged as the flat `rop` list it amounts to and
   compared with `rrun` op by op: decision-view observations and the program counter after every
   listener action.  What stays assumed is real OS-thread scheduling (that the boundaries above are
   the only points where another thread's action can take effect) and the memory ordering of the
   count reads.  The sequential behaviour (no op between the actions of one poll) is PerKey.v. *)
From Coq Require Import List Arith Bool.
Import ListNotations.
From TarpcV Require Import PerKey.

(* result of the listener half of an iteration *)
Inductive rlres := RYield (cid : nat) (k : key) | RShed (k : key) | RPend | REndL.

Inductive rpc :=
| PcIdle                            (* outside poll_next *)
| PcLoop                            (* inside poll_next, at the top of the loop *)
| PcUpgrade (k : key) (t : nat)     (* count of tracker t read (below the limit); upgrade() not yet called *)
| PcClosed (l : rlres)              (* poll_listener returned l; poll_closed_channels not yet called *)
| PcCheck (l : rlres) (k : key).    (* notification k received; its entry not yet examined *)

Record rst := { rb : st; pc : rpc; owed : list key }.   (* owed: ghost, keys whose Tracker::drop has not sent yet *)

Definition with_notifs (b : st) (v : list key) : st :=
  {| arrivals := arrivals b; ended := ended b; kc := kc b; chans := chans b; notifs := v;
     next_tid := next_tid b; next_cid := next_cid b; lim := lim b |}.

(* action `listen` *)
Definition listen (b : st) (w : list key) : rst * list obs :=
  match arrivals b with
  | [] => ({| rb := b; pc := PcClosed (if ended b then REndL else RPend); owed := w |}, [])
  | k :: _ =>
    let b1 := pop_arrival b in
    match lookup k (kc b1) with
    | None =>
      ({| rb := accept b1 k (next_tid b1) true; pc := PcClosed (RYield (next_cid b1) k); owed := w |},
       [OYield (next_cid b1) k])
    | Some t =>
      let c := strong t (chans b1) in                      (* the READ *)
      if lim b1 <=? c then ({| rb := b1; pc := PcClosed (RShed k); owed := w |}, [OShed k])
      else ({| rb := b1; pc := PcUpgrade k t; owed := w |}, [])
    end
  end.

(* action `upgrade` *)
Definition upgrade (b : st) (w : list key) (k : key) (t : nat) : rst * list obs :=
  let b' := if Nat.eqb (strong t (chans b)) 0 then accept b k (next_tid b) true   (* upgrade() = None *)
            else accept b k t false in
  ({| rb := b'; pc := PcClosed (RYield (next_cid b) k); owed := w |}, [OYield (next_cid b) k]).

(* the end of an iteration: (decision view, report view) *)
Definition finish (b : st) (w : list key) (l : rlres) (c : bool) : rst * (list obs * list obs) :=
  match l with
  | RYield cid k => ({| rb := b; pc := PcIdle; owed := w |}, ([], [OYield cid k]))
  | RShed k => ({| rb := b; pc := PcLoop; owed := w |}, ([], [OShed k]))
  | RPend => if c then ({| rb := b; pc := PcLoop; owed := w |}, ([], []))
             else ({| rb := b; pc := PcIdle; owed := w |}, ([OPending], [OPending]))
  | REndL => if c then ({| rb := b; pc := PcLoop; owed := w |}, ([], []))
             else ({| rb := b; pc := PcIdle; owed := w |}, ([OEnd], [OEnd]))
  end.

(* the next atomic action of the listener task *)
Definition lstep (s : rst) : rst * (list obs * list obs) :=
  let w := owed s in
  match pc s with
  | PcIdle | PcLoop => let '(s', o) := listen (rb s) w in (s', (o, []))
  | PcUpgrade k t => let '(s', o) := upgrade (rb s) w k t in (s', (o, []))
  | PcClosed l =>
    match notifs (rb s) with
    | [] => finish (rb s) w l false                                              (* Poll::Pending *)
    | k :: r => ({| rb := with_notifs (rb s) r; pc := PcCheck l k; owed := w |}, ([], []))  (* action `receive` *)
    end
  | PcCheck l k =>
    (* action `check`: exactly PerKey.poll_closed (repaired) on the notification just received *)
    finish (snd (poll_closed true (with_notifs (rb s) (k :: notifs (rb s))))) w l true
  end.

(* another thread releases the Arc<Tracker> of channel cid: PerKey.close without the notification;
   the key it would have queued (if this was the last holder) is owed instead *)
Definition release (b : st) (cid : nat) : st * list key :=
  (with_notifs (close b cid) (notifs b), skipn (length (notifs b)) (notifs (close b cid))).

Fixpoint remove_one (k : key) (l : list key) : list key :=
  match l with
  | [] => []
  | x :: r => if Nat.eqb k x then r else x :: remove_one k r
  end.

Inductive rop :=
| RArrive (k : key)
| RRelease (cid : nat)          (* the strong count drops *)
| RNotify (k : key)             (* an owed Tracker::drop sends its key *)
| RClose (cid : nat)            (* release + immediate notification *)
| RListener | REndListener.

Definition rstep (s : rst) (o : rop) : rst * (list obs * list obs) :=
  match o with
  | RArrive k => ({| rb := fst (step true (rb s) (Arrive k)); pc := pc s; owed := owed s |}, ([], []))
  | RRelease cid =>
    let '(b, ks) := release (rb s) cid in
    ({| rb := b; pc := pc s; owed := owed s ++ ks |}, ([], []))
  | RNotify k =>
    if existsb (Nat.eqb k) (owed s)
    then ({| rb := with_notifs (rb s) (notifs (rb s) ++ [k]); pc := pc s; owed := remove_one k (owed s) |},
          ([], []))
    else (s, ([], []))
  | RClose cid => ({| rb := close (rb s) cid; pc := pc s; owed := owed s |}, ([], []))
  | REndListener => ({| rb := fst (step true (rb s) EndListener); pc := pc s; owed := owed s |}, ([], []))
  | RListener => lstep s
  end.

Fixpoint rrun_from (s : rst) (ops : list rop) : list (list obs * list obs) * rst :=
  match ops with
  | [] => ([], s)
  | o :: r => let '(s1, l) := rstep s o in
              let '(ls, s2) := rrun_from s1 r in (l :: ls, s2)
  end.

Definition rinit (n : nat) : rst := {| rb := init n; pc := PcIdle; owed := [] |}.
Definition rrun (n : nat) (ops : list rop) := rrun_from (rinit n) ops.

Definition decision_view (tr : list (list obs * list obs)) : list (list obs) := map fst tr.
Definition report_view (tr : list (list obs * list obs)) : list (list obs) := map snd tr.

(* what the C13 monitor (PerKey.mon) sees of the ops: only the end of a channel matters to it, and
   a channel is over when its Arc is released (the notification is not an event of the channel) *)
Definition to_op (o : rop) : op :=
  match o with
  | RArrive k => Arrive k | RRelease cid => Close cid | RClose cid => Close cid
  | RNotify _ => Poll | RListener => Poll | REndListener => EndListener
  end.
