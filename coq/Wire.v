(* Model of tarpc's wire layer (no proofs in this file).

   Two stages, as in the code:
     1. message -> serde data model.  tarpc's own logic: the serde derives of ClientMessage,
        Request, context::Context, trace::Context, Response, ServerError (tarpc/src/lib.rs,
        context.rs, trace.rs) and the three hand-written (de)serialisers: deadline as the
        remaining Duration (context.rs), u128 trace id as 16 little-endian bytes (trace.rs),
        io::ErrorKind through two integer tables (util/serde.rs).
        Here: `*_to_val` / `*_of_val` between messages and serde value trees `sval`, directed by
        a `shape` (Schema.v).  `events s v` flattens a tree into the event list that a recording
        serde::Serializer sees; the harness records exactly that list from the real impls.
     2. serde data model -> bytes / JSON tree.  Third-party behaviour, modelled, never verified:
        bincode 1.3 DefaultOptions as used by tokio_serde::formats::Bincode (varint integers,
        zig-zag for signed, u32 variant tags as varint, length-prefixed strings, fixed arrays and
        structs without any framing, trailing bytes rejected) and serde_json (structs as objects
        looked up by field name, unknown fields ignored, duplicate known fields rejected,
        #[serde(default)] fields may be missing, externally tagged enums; a struct or struct
        variant may also be given as an ARRAY of its fields by position, serde's visit_seq).
        Here: `bin_enc`/`bin_dec` and `json_enc`/`json_dec`, both directed by the shape; a leaf is
        written as its `ser` primitive and read as its `de` primitive, as the code does.

   Bodies are Strings in the harness; a body is its UTF-8 byte list here (validity of UTF-8 is
   not modelled: the model decoder accepts any bytes). *)
From Coq Require Import String Ascii.
From Coq Require Import List NArith ZArith Bool.
Import ListNotations.
From TarpcV Require Import Base Schema.
Local Open Scope Z_scope.

(* ------------------------------------------------------------------------------------------ *)
(* option plumbing *)
Definition obind {A B} (o : option A) (f : A -> option B) : option B :=
  match o with Some a => f a | None => None end.
Definition omap {A B} (f : A -> B) (o : option A) : option B :=
  match o with Some a => Some (f a) | None => None end.
Definition oapp (a b : option bytes) : option bytes :=
  match a, b with Some x, Some y => Some (x ++ y)%list | _, _ => None end.
Definition ocons {A} (a : option A) (b : option (list A)) : option (list A) :=
  match a, b with Some x, Some y => Some (x :: y) | _, _ => None end.

(* ------------------------------------------------------------------------------------------ *)
(* serde value trees.  Names live in the shape; a newtype struct's value is its inner value;
   a struct's value is the list of its field values in declaration order; VDefault stands for
   "field absent" (only meaningful at a #[serde(default)] field of a self-describing format). *)
Inductive sval :=
| VInt (z : Z) | VStr (b : bytes) | VSeq (l : list sval) | VVar (idx : nat) (p : sval) | VDefault.

Definition is_default (v : sval) : bool := match v with VDefault => true | _ => false end.

(* what a recording serde::Serializer sees *)
Inductive event :=
| EInt (p : prim) (z : Z)
| EStr (b : bytes)
| ETuple (n : nat) | ETupleEnd
| ENewtype (name : string)
| EStruct (name : string) (n : nat) | EField (name : string) | EStructEnd
| EUnitVariant (ename : string) (idx : nat) (vname : string)
| ENewtypeVariant (ename : string) (idx : nat) (vname : string)
| EStructVariant (ename : string) (idx : nat) (vname : string) (n : nat) | EStructVariantEnd
| EBad.

Fixpoint fields_len (fs : fields) : nat :=
  match fs with FNil => 0 | FCons _ _ _ r => S (fields_len r) end.

Fixpoint events (s : shape) (v : sval) {struct s} : list event :=
  match s with
  | SPrim ser _ =>
    match v with VInt z => [EInt ser z] | VStr b => [EStr b] | _ => [EBad] end
  | STuple n e =>
    match v with
    | VSeq l => ETuple n :: (fix go (l : list sval) : list event :=
                               match l with [] => [ETupleEnd] | x :: r => events e x ++ go r end) l
    | _ => [EBad] end
  | SNewtype name s' => ENewtype name :: events s' v
  | SStruct name fs =>
    match v with
    | VSeq l => EStruct name (fields_len fs) :: events_fields fs l ++ [EStructEnd]
    | _ => [EBad] end
  | SEnum name vs =>
    match v with VVar idx p => events_variant vs name idx idx p | _ => [EBad] end
  | SBad _ => [EBad]
  end
with events_fields (fs : fields) (l : list sval) {struct fs} : list event :=
  match fs, l with
  | FNil, [] => []
  | FCons name _ s r, v :: l' =>
    if is_default v then events_fields r l' else EField name :: events s v ++ events_fields r l'
  | _, _ => [EBad]
  end
with events_variant (vs : variants) (ename : string) (idx k : nat) (p : sval) {struct vs} : list event :=
  match vs with
  | VNil => [EBad]
  | VCons vname kd r =>
    match k with
    | O => events_vkind kd ename idx vname p
    | S k' => events_variant r ename idx k' p
    end
  end
with events_vkind (kd : vkind) (ename : string) (idx : nat) (vname : string) (p : sval) {struct kd} : list event :=
  match kd with
  | VkUnit => [EUnitVariant ename idx vname]
  | VkNewtype s => ENewtypeVariant ename idx vname :: events s p
  | VkStruct fs =>
    match p with
    | VSeq l => EStructVariant ename idx vname (fields_len fs) :: events_fields fs l ++ [EStructVariantEnd]
    | _ => [EBad] end
  end.

(* ------------------------------------------------------------------------------------------ *)
(* integers as bytes, arithmetically *)
Local Open Scope N_scope.

Fixpoint le_bytes (k : nat) (n : N) : bytes :=
  match k with O => [] | S k' => n mod 256 :: le_bytes k' (n / 256) end.
Fixpoint le_val (bs : bytes) : N :=
  match bs with [] => 0 | b :: r => b + 256 * le_val r end.

Definition byte_ok (b : N) : bool := b <? 256.
Definition bytes_ok (bs : bytes) : bool := forallb byte_ok bs.

(* bincode VarintEncoding::serialize_varint *)
Definition varint (n : N) : bytes :=
  if n <? 251 then [n]
  else if n <? 65536 then 251 :: le_bytes 2 n
  else if n <? 4294967296 then 252 :: le_bytes 4 n
  else 253 :: le_bytes 8 n.

Definition take_le (k : nat) (bs : bytes) : option (N * bytes) :=
  if (length bs <? k)%nat then None else Some (le_val (firstn k bs), skipn k bs).

(* VarintEncoding::deserialize_varint: non-canonical encodings are accepted; 254 (u128) and
   255 (extension point) are errors *)
Definition read_varint (bs : bytes) : option (N * bytes) :=
  match bs with
  | [] => None
  | b :: r =>
    if b <? 251 then Some (b, r)
    else if b =? 251 then take_le 2 r
    else if b =? 252 then take_le 4 r
    else if b =? 253 then take_le 8 r
    else None
  end.

Definition zigzag (z : Z) : N := if (z <? 0)%Z then Z.to_N (-2 * z - 1) else Z.to_N (2 * z).
Definition unzigzag (n : N) : Z :=
  if N.even n then Z.of_N (n / 2) else (- Z.of_N (n / 2) - 1)%Z.

Local Open Scope Z_scope.

Definition prim_range (p : prim) : option (Z * Z) :=
  match p with
  | PU8 => Some (0, 256) | PU16 => Some (0, 65536) | PU32 => Some (0, 4294967296)
  | PU64 => Some (0, 18446744073709551616)
  | PI8 => Some (-128, 128) | PI16 => Some (-32768, 32768)
  | PI32 => Some (-2147483648, 2147483648)
  | PI64 => Some (-9223372036854775808, 9223372036854775808)
  | PStr | POther => None
  end.
Definition in_range (p : prim) (z : Z) : bool :=
  match prim_range p with Some (lo, hi) => (lo <=? z) && (z <? hi) | None => false end.
Definition signed (p : prim) : bool :=
  match p with PI8 | PI16 | PI32 | PI64 => true | _ => false end.

Definition prim_eqb (a b : prim) : bool :=
  match a, b with
  | PU8, PU8 | PU16, PU16 | PU32, PU32 | PU64, PU64 | PI8, PI8 | PI16, PI16 | PI32, PI32
  | PI64, PI64 | PStr, PStr | POther, POther => true
  | _, _ => false
  end.

(* ------------------------------------------------------------------------------------------ *)
(* bincode DefaultOptions *)

(* u8/i8 are single raw bytes; wider integers are varints (signed ones zig-zagged first);
   a str is its varint length followed by its bytes *)
Definition bin_enc_prim (p : prim) (v : sval) : option bytes :=
  match v with
  | VStr b => match p with PStr => Some (varint (N.of_nat (length b)) ++ b)%list | _ => None end
  | VInt z =>
    match p with
    | PStr | POther => None
    | PU8 => if in_range PU8 z then Some [Z.to_N z] else None
    | PI8 => if in_range PI8 z then Some [Z.to_N (z mod 256)] else None
    | _ => if in_range p z then Some (varint (if signed p then zigzag z else Z.to_N z)) else None
    end
  | _ => None
  end.

Definition bin_dec_prim (p : prim) (bs : bytes) : option (sval * bytes) :=
  match p with
  | POther => None
  | PStr =>
    match read_varint bs with
    | Some (n, r) =>
      if (N.of_nat (length r) <? n)%N then None
      else Some (VStr (firstn (N.to_nat n) r), skipn (N.to_nat n) r)
    | None => None
    end
  | PU8 => match bs with b :: r => Some (VInt (Z.of_N b), r) | [] => None end
  | PI8 => match bs with
           | b :: r => Some (VInt (if (b <? 128)%N then Z.of_N b else Z.of_N b - 256), r)
           | [] => None end
  | _ =>
    match read_varint bs with
    | Some (n, r) =>
      let z := if signed p then unzigzag n else Z.of_N n in
      if in_range p z then Some (VInt z, r) else None
    | None => None
    end
  end.

Fixpoint bin_enc (s : shape) (v : sval) {struct s} : option bytes :=
  match s with
  | SPrim ser _ => bin_enc_prim ser v
  | STuple n e =>
    match v with
    | VSeq l =>
      if Nat.eqb (length l) n then
        (fix go (l : list sval) : option bytes :=
           match l with [] => Some [] | x :: r => oapp (bin_enc e x) (go r) end) l
      else None
    | _ => None end
  | SNewtype _ s' => bin_enc s' v
  | SStruct _ fs => match v with VSeq l => bin_enc_fields fs l | _ => None end
  | SEnum _ vs =>
    match v with
    | VVar idx p => oapp (Some (varint (N.of_nat idx))) (bin_enc_variant vs idx p)
    | _ => None end
  | SBad _ => None
  end
with bin_enc_fields (fs : fields) (l : list sval) {struct fs} : option bytes :=
  match fs, l with
  | FNil, [] => Some []
  | FCons _ _ s r, v :: l' => oapp (bin_enc s v) (bin_enc_fields r l')
  | _, _ => None
  end
with bin_enc_variant (vs : variants) (k : nat) (p : sval) {struct vs} : option bytes :=
  match vs with
  | VNil => None
  | VCons _ kd r => match k with O => bin_enc_vkind kd p | S k' => bin_enc_variant r k' p end
  end
with bin_enc_vkind (kd : vkind) (p : sval) {struct kd} : option bytes :=
  match kd with
  | VkUnit => match p with VSeq [] => Some [] | _ => None end
  | VkNewtype s => bin_enc s p
  | VkStruct fs => match p with VSeq l => bin_enc_fields fs l | _ => None end
  end.

Fixpoint bin_dec (s : shape) (bs : bytes) {struct s} : option (sval * bytes) :=
  match s with
  | SPrim _ de => bin_dec_prim de bs
  | STuple n e =>
    omap (fun p => (VSeq (fst p), snd p))
      ((fix go (k : nat) (bs : bytes) : option (list sval * bytes) :=
          match k with
          | O => Some ([], bs)
          | S k' =>
            match bin_dec e bs with
            | Some (v, r) => match go k' r with Some (vs, r') => Some (v :: vs, r') | None => None end
            | None => None
            end
          end) n bs)
  | SNewtype _ s' => bin_dec s' bs
  | SStruct _ fs => omap (fun p => (VSeq (fst p), snd p)) (bin_dec_fields fs bs)
  | SEnum _ vs =>
    (* the tag is a u32: deserialize_varint then cast_u64_to_u32 *)
    match read_varint bs with
    | Some (n, r) =>
      if (n <? 4294967296)%N then
        omap (fun p => (VVar (N.to_nat n) (fst p), snd p)) (bin_dec_variant vs (N.to_nat n) r)
      else None
    | None => None
    end
  | SBad _ => None
  end
with bin_dec_fields (fs : fields) (bs : bytes) {struct fs} : option (list sval * bytes) :=
  match fs with
  | FNil => Some ([], bs)
  | FCons _ _ s r =>
    match bin_dec s bs with
    | Some (v, rest) =>
      match bin_dec_fields r rest with Some (vs, rest') => Some (v :: vs, rest') | None => None end
    | None => None
    end
  end
with bin_dec_variant (vs : variants) (k : nat) (bs : bytes) {struct vs} : option (sval * bytes) :=
  match vs with
  | VNil => None
  | VCons _ kd r => match k with O => bin_dec_vkind kd bs | S k' => bin_dec_variant r k' bs end
  end
with bin_dec_vkind (kd : vkind) (bs : bytes) {struct kd} : option (sval * bytes) :=
  match kd with
  | VkUnit => Some (VSeq [], bs)
  | VkNewtype s => bin_dec s bs
  | VkStruct fs => omap (fun p => (VSeq (fst p), snd p)) (bin_dec_fields fs bs)
  end.

(* Options::deserialize on a slice with RejectTrailing (the DefaultOptions default) *)
Definition bin_decode (s : shape) (bs : bytes) : option sval :=
  match bin_dec s bs with Some (v, []) => Some v | _ => None end.

(* ------------------------------------------------------------------------------------------ *)
(* serde_json at the level of value trees *)
Inductive jv :=
| JNull | JBool (b : bool) | JNum (z : Z) | JStr (s : bytes)
| JArr (l : list jv) | JObj (m : list (string * jv)).

Definition json_enc_prim (p : prim) (v : sval) : option jv :=
  match v with
  | VStr b => match p with PStr => Some (JStr b) | _ => None end
  | VInt z => match p with
              | PStr | POther => None
              | _ => if in_range p z then Some (JNum z) else None end
  | _ => None
  end.
Definition json_dec_prim (p : prim) (j : jv) : option sval :=
  match j with
  | JStr b => match p with PStr => Some (VStr b) | _ => None end
  | JNum z => match p with
              | PStr | POther => None
              | _ => if in_range p z then Some (VInt z) else None end
  | _ => None
  end.

Definition lookup_all (k : string) (m : list (string * jv)) : list jv :=
  map snd (filter (fun p => String.eqb (fst p) k) m).

Fixpoint json_enc (s : shape) (v : sval) {struct s} : option jv :=
  match s with
  | SPrim ser _ => json_enc_prim ser v
  | STuple n e =>
    match v with
    | VSeq l =>
      if Nat.eqb (length l) n then
        omap JArr ((fix go (l : list sval) : option (list jv) :=
                      match l with [] => Some [] | x :: r => ocons (json_enc e x) (go r) end) l)
      else None
    | _ => None end
  | SNewtype _ s' => json_enc s' v
  | SStruct _ fs => match v with VSeq l => omap JObj (json_enc_fields fs l) | _ => None end
  | SEnum _ vs => match v with VVar idx p => json_enc_variant vs idx p | _ => None end
  | SBad _ => None
  end
with json_enc_fields (fs : fields) (l : list sval) {struct fs} : option (list (string * jv)) :=
  match fs, l with
  | FNil, [] => Some []
  | FCons name d s r, v :: l' =>
    if d && is_default v then json_enc_fields r l'      (* a peer that omits the field *)
    else ocons (omap (fun j => (name, j)) (json_enc s v)) (json_enc_fields r l')
  | _, _ => None
  end
with json_enc_variant (vs : variants) (k : nat) (p : sval) {struct vs} : option jv :=
  match vs with
  | VNil => None
  | VCons vname kd r =>
    match k with O => json_enc_vkind kd vname p | S k' => json_enc_variant r k' p end
  end
with json_enc_vkind (kd : vkind) (vname : string) (p : sval) {struct kd} : option jv :=
  match kd with
  | VkUnit => match p with VSeq [] => Some (JStr (map N_of_ascii (list_ascii_of_string vname))) | _ => None end
  | VkNewtype s => omap (fun j => JObj [(vname, j)]) (json_enc s p)
  | VkStruct fs =>
    match p with
    | VSeq l => omap (fun m => JObj [(vname, JObj m)]) (json_enc_fields fs l)
    | _ => None end
  end.

Definition sbytes (s : string) : bytes := map N_of_ascii (list_ascii_of_string s).

Fixpoint json_dec (s : shape) (j : jv) {struct s} : option sval :=
  match s with
  | SPrim _ de => json_dec_prim de j
  | STuple n e =>
    match j with
    | JArr l =>
      if Nat.eqb (length l) n then
        omap VSeq ((fix go (l : list jv) : option (list sval) :=
                      match l with [] => Some [] | x :: r => ocons (json_dec e x) (go r) end) l)
      else None
    | _ => None end
  | SNewtype _ s' => json_dec s' j
  (* serde_json::deserialize_struct accepts an object (visit_map) AND an array (visit_seq) *)
  | SStruct _ fs =>
    match j with
    | JObj m => omap VSeq (json_dec_fields fs m)
    | JArr l => omap VSeq (json_dec_fields_seq fs l)
    | _ => None
    end
  | SEnum _ vs =>
    match j with
    | JStr name => json_dec_variant vs name O None
    | JObj [(name, payload)] => json_dec_variant vs (sbytes name) O (Some payload)
    | _ => None
    end
  | SBad _ => None
  end
(* derived visit_map: every known field at most once, unknown keys ignored, an absent field is
   an error unless it carries #[serde(default)] *)
with json_dec_fields (fs : fields) (m : list (string * jv)) {struct fs} : option (list sval) :=
  match fs with
  | FNil => Some []
  | FCons name d s r =>
    match lookup_all name m with
    | [] => if d then ocons (Some VDefault) (json_dec_fields r m) else None
    | [j] => ocons (json_dec s j) (json_dec_fields r m)
    | _ => None
    end
  end
(* derived visit_seq: fields by position; when the elements run out, a field is taken from its
   #[serde(default)] if it has one, else "invalid length"; elements left over after the last
   field make serde_json's end_seq fail ("trailing characters") *)
with json_dec_fields_seq (fs : fields) (l : list jv) {struct fs} : option (list sval) :=
  match fs with
  | FNil => match l with [] => Some [] | _ :: _ => None end
  | FCons _ d s r =>
    match l with
    | j :: l' => ocons (json_dec s j) (json_dec_fields_seq r l')
    | [] => if d then ocons (Some VDefault) (json_dec_fields_seq r []) else None
    end
  end
with json_dec_variant (vs : variants) (name : bytes) (k : nat) (payload : option jv) {struct vs} : option sval :=
  match vs with
  | VNil => None
  | VCons vname kd r =>
    if list_eqb N.eqb (sbytes vname) name
    then omap (VVar k) (json_dec_vkind kd payload)
    else json_dec_variant r name (S k) payload
  end
with json_dec_vkind (kd : vkind) (payload : option jv) {struct kd} : option sval :=
  match kd with
  | VkUnit => match payload with None | Some JNull => Some (VSeq []) | _ => None end
  | VkNewtype s => match payload with Some j => json_dec s j | None => None end
  | VkStruct fs =>
    (* VariantAccess::struct_variant = deserialize_struct: object or array *)
    match payload with
    | Some (JObj m) => omap VSeq (json_dec_fields fs m)
    | Some (JArr l) => omap VSeq (json_dec_fields_seq fs l)
    | _ => None
    end
  end.

(* The ARRAY form: every struct and struct variant written as the array of its field values, in
   declaration order (what a peer whose serializer writes structs positionally sends; serde_json
   itself never prints it).  Nothing can be omitted in the middle, so VDefault is not accepted. *)
Fixpoint json_enc_arr (s : shape) (v : sval) {struct s} : option jv :=
  match s with
  | SPrim ser _ => json_enc_prim ser v
  | STuple n e =>
    match v with
    | VSeq l =>
      if Nat.eqb (length l) n then
        omap JArr ((fix go (l : list sval) : option (list jv) :=
                      match l with [] => Some [] | x :: r => ocons (json_enc_arr e x) (go r) end) l)
      else None
    | _ => None end
  | SNewtype _ s' => json_enc_arr s' v
  | SStruct _ fs => match v with VSeq l => omap JArr (json_enc_arr_fields fs l) | _ => None end
  | SEnum _ vs => match v with VVar idx p => json_enc_arr_variant vs idx p | _ => None end
  | SBad _ => None
  end
with json_enc_arr_fields (fs : fields) (l : list sval) {struct fs} : option (list jv) :=
  match fs, l with
  | FNil, [] => Some []
  | FCons _ _ s r, v :: l' => ocons (json_enc_arr s v) (json_enc_arr_fields r l')
  | _, _ => None
  end
with json_enc_arr_variant (vs : variants) (k : nat) (p : sval) {struct vs} : option jv :=
  match vs with
  | VNil => None
  | VCons vname kd r =>
    match k with O => json_enc_arr_vkind kd vname p | S k' => json_enc_arr_variant r k' p end
  end
with json_enc_arr_vkind (kd : vkind) (vname : string) (p : sval) {struct kd} : option jv :=
  match kd with
  | VkUnit => match p with VSeq [] => Some (JStr (map N_of_ascii (list_ascii_of_string vname))) | _ => None end
  | VkNewtype s => omap (fun j => JObj [(vname, j)]) (json_enc_arr s p)
  | VkStruct fs =>
    match p with
    | VSeq l => omap (fun a => JObj [(vname, JArr a)]) (json_enc_arr_fields fs l)
    | _ => None end
  end.

(* serde_json::to_vec: the compact printer, for the byte-exact comparison with the real codec.
   (The text layer is third-party and only differentially tested; no theorem is about it.) *)
Fixpoint uint_bytes (u : Decimal.uint) : bytes :=
  match u with
  | Decimal.Nil => []
  | Decimal.D0 r => 48%N :: uint_bytes r | Decimal.D1 r => 49%N :: uint_bytes r
  | Decimal.D2 r => 50%N :: uint_bytes r | Decimal.D3 r => 51%N :: uint_bytes r
  | Decimal.D4 r => 52%N :: uint_bytes r | Decimal.D5 r => 53%N :: uint_bytes r
  | Decimal.D6 r => 54%N :: uint_bytes r | Decimal.D7 r => 55%N :: uint_bytes r
  | Decimal.D8 r => 56%N :: uint_bytes r | Decimal.D9 r => 57%N :: uint_bytes r
  end.
Definition num_bytes (z : Z) : bytes :=
  if z <? 0 then 45%N :: uint_bytes (N.to_uint (Z.to_N (- z))) else uint_bytes (N.to_uint (Z.to_N z)).
Definition hex_digit (n : N) : N := (if n <? 10 then 48 + n else 87 + n)%N.
Definition esc_byte (b : N) : bytes :=
  (if b =? 34 then [92; 34] else if b =? 92 then [92; 92]
   else if b =? 8 then [92; 98] else if b =? 12 then [92; 102]
   else if b =? 10 then [92; 110] else if b =? 13 then [92; 114] else if b =? 9 then [92; 116]
   else if b <? 32 then [92; 117; 48; 48; hex_digit (b / 16); hex_digit (b mod 16)]
   else [b])%N.
Definition str_bytes (b : bytes) : bytes := (34%N :: flat_map esc_byte b ++ [34%N])%list.

Fixpoint json_print (j : jv) : bytes :=
  match j with
  | JNull => [110; 117; 108; 108]%N
  | JBool true => [116; 114; 117; 101]%N
  | JBool false => [102; 97; 108; 115; 101]%N
  | JNum z => num_bytes z
  | JStr s => str_bytes s
  | JArr l =>
    (91%N :: (fix go (first : bool) (l : list jv) : bytes :=
                match l with
                | [] => [93%N]
                | x :: r => (if first then [] else [44%N]) ++ json_print x ++ go false r
                end) true l)%list
  | JObj m =>
    (123%N :: (fix go (first : bool) (m : list (string * jv)) : bytes :=
                 match m with
                 | [] => [125%N]
                 | (k, x) :: r =>
                   (if first then [] else [44%N]) ++ str_bytes (sbytes k) ++ [58%N] ++ json_print x ++ go false r
                 end) true m)%list
  end.

(* ------------------------------------------------------------------------------------------ *)
(* well-formed schemas (names and leaves).  Every leaf is read back with
   the primitive it was written with (and that primitive is one the model covers), field names
   of a struct are pairwise distinct, variant names of an enum are pairwise distinct, enums have
   fewer than 2^32 variants (trivially), and nothing is SBad. *)
Fixpoint field_names (fs : fields) : list string :=
  match fs with FNil => [] | FCons n _ _ r => n :: field_names r end.
Fixpoint variant_names (vs : variants) : list string :=
  match vs with VNil => [] | VCons n _ r => n :: variant_names r end.
Fixpoint nodupb (l : list string) : bool :=
  match l with [] => true | x :: r => negb (existsb (String.eqb x) r) && nodupb r end.

Fixpoint schema_names_wf (s : shape) : bool :=
  match s with
  | SPrim ser de => prim_eqb ser de && negb (prim_eqb ser POther)
  | STuple _ e => schema_names_wf e
  | SNewtype _ s' => schema_names_wf s'
  | SStruct _ fs => nodupb (field_names fs) && fields_wf fs
  | SEnum _ vs => nodupb (variant_names vs) && variants_wf vs
  | SBad _ => false
  end
with fields_wf (fs : fields) : bool :=
  match fs with FNil => true | FCons _ _ s r => schema_names_wf s && fields_wf r end
with variants_wf (vs : variants) : bool :=
  match vs with VNil => true | VCons _ k r => vkind_wf k && variants_wf r end
with vkind_wf (k : vkind) : bool :=
  match k with
  | VkUnit => true
  | VkNewtype s => schema_names_wf s
  | VkStruct fs => nodupb (field_names fs) && fields_wf fs
  end.

(* bincode writes a variant index as a u32: enums need at most 2^32 variants *)
Fixpoint variants_len (vs : variants) : nat :=
  match vs with VNil => 0 | VCons _ _ r => S (variants_len r) end.
Fixpoint shape_smallb (s : shape) : bool :=
  match s with
  | SPrim _ _ => true
  | STuple _ e => shape_smallb e
  | SNewtype _ s' => shape_smallb s'
  | SStruct _ fs => fields_smallb fs
  | SEnum _ vs => (N.of_nat (variants_len vs) <=? 4294967296)%N && variants_smallb vs
  | SBad _ => true
  end
with fields_smallb (fs : fields) : bool :=
  match fs with FNil => true | FCons _ _ s r => shape_smallb s && fields_smallb r end
with variants_smallb (vs : variants) : bool :=
  match vs with VNil => true | VCons _ k r => vkind_smallb k && variants_smallb r end
with vkind_smallb (k : vkind) : bool :=
  match k with VkUnit => true | VkNewtype s => shape_smallb s | VkStruct fs => fields_smallb fs end.

(* THE side condition of the round trips, demanded of Generated.*_shape by GenChecks/C15.v *)
Definition schema_wf (s : shape) : bool := schema_names_wf s && shape_smallb s.

(* visit_seq acceptance table of a field list: for k = 0 .. number of fields, is an array holding
   (well-typed values for) the first k fields accepted?  Exactly when every later field carries
   #[serde(default)].  Compared with the probing deserializer's answers by GenChecks. *)
Fixpoint all_dflt (fs : fields) : bool :=
  match fs with FNil => true | FCons _ d _ r => d && all_dflt r end.
Fixpoint seq_accepts (fs : fields) : list bool :=
  all_dflt fs :: match fs with FNil => [] | FCons _ _ _ r => seq_accepts r end.
(* every struct / struct variant of a shape, depth first, with its table; keyed by the struct's
   name and its first field's name ("Context" names two structs) *)
Definition first_field (fs : fields) : string := match fs with FNil => EmptyString | FCons n _ _ _ => n end.
Fixpoint seq_table (s : shape) : list (string * string * list bool) :=
  match s with
  | SPrim _ _ | SBad _ => []
  | STuple _ e => seq_table e
  | SNewtype _ s' => seq_table s'
  | SStruct name fs => (name, first_field fs, seq_accepts fs) :: seq_table_fields fs
  | SEnum _ vs => seq_table_variants vs
  end
with seq_table_fields (fs : fields) : list (string * string * list bool) :=
  match fs with FNil => [] | FCons _ _ s r => (seq_table s ++ seq_table_fields r)%list end
with seq_table_variants (vs : variants) : list (string * string * list bool) :=
  match vs with VNil => [] | VCons vn k r => (seq_table_vkind vn k ++ seq_table_variants r)%list end
with seq_table_vkind (vn : string) (k : vkind) : list (string * string * list bool) :=
  match k with
  | VkUnit => []
  | VkNewtype s => seq_table s
  | VkStruct fs => (vn, first_field fs, seq_accepts fs) :: seq_table_fields fs
  end.

(* which value trees a shape can carry.  `opt = true` additionally allows VDefault at fields
   that carry #[serde(default)] (a peer that omits them; only expressible in JSON). *)
Definition prim_conforms (p : prim) (v : sval) : Prop :=
  match v with
  | VInt z => in_range p z = true
  | VStr b => p = PStr /\ bytes_ok b = true /\ (Z.of_nat (length b) < 18446744073709551616)
  | _ => False
  end.

Fixpoint conforms (opt : bool) (s : shape) (v : sval) {struct s} : Prop :=
  match s with
  | SPrim ser _ => prim_conforms ser v
  | STuple n e =>
    match v with
    | VSeq l => length l = n /\
                (fix go (l : list sval) : Prop :=
                   match l with [] => True | x :: r => conforms opt e x /\ go r end) l
    | _ => False end
  | SNewtype _ s' => conforms opt s' v
  | SStruct _ fs => match v with VSeq l => conforms_fields opt fs l | _ => False end
  | SEnum _ vs => match v with VVar idx p => conforms_variant opt vs idx p | _ => False end
  | SBad _ => False
  end
with conforms_fields (opt : bool) (fs : fields) (l : list sval) {struct fs} : Prop :=
  match fs, l with
  | FNil, [] => True
  | FCons _ d s r, v :: l' =>
    ((opt && d = true /\ v = VDefault) \/ conforms opt s v) /\ conforms_fields opt r l'
  | _, _ => False
  end
with conforms_variant (opt : bool) (vs : variants) (k : nat) (p : sval) {struct vs} : Prop :=
  match vs with
  | VNil => False
  | VCons _ kd r => match k with O => conforms_vkind opt kd p | S k' => conforms_variant opt r k' p end
  end
with conforms_vkind (opt : bool) (kd : vkind) (p : sval) {struct kd} : Prop :=
  match kd with
  | VkUnit => p = VSeq []
  | VkNewtype s => conforms opt s p
  | VkStruct fs => match p with VSeq l => conforms_fields opt fs l | _ => False end
  end.

(* ------------------------------------------------------------------------------------------ *)
(* The protocol types.  model shapes = what the derives and hand-written impls in /repo do now;
   GenChecks/C15.v demands  client_message_shape = Generated.client_message_shape  etc. *)
Local Open Scope string_scope.

Definition u8_leaf := SPrim PU8 PU8.
Definition u32_leaf := SPrim PU32 PU32.
Definition u64_leaf := SPrim PU64 PU64.
Definition str_leaf := SPrim PStr PStr.
(* the generic parameter T of ClientMessage<T> / Response<T>, instantiated with String *)
Definition body_shape := str_leaf.

(* std::time::Duration (serde's impl): struct Duration { secs: u64, nanos: u32 } *)
Definition duration_shape :=
  SStruct "Duration" (FCons "secs" false u64_leaf (FCons "nanos" false u32_leaf FNil)).
(* trace::Context; TraceId through u128_serde as [u8; 16] *)
Definition trace_shape :=
  SStruct "Context"
    (FCons "trace_id" false (SNewtype "TraceId" (STuple 16 u8_leaf))
    (FCons "span_id" false (SNewtype "SpanId" u64_leaf)
    (FCons "sampling_decision" false
       (SEnum "SamplingDecision" (VCons "Sampled" VkUnit (VCons "Unsampled" VkUnit VNil)))
     FNil))).
(* context::Context; deadline: default = "ten_seconds_from_now", with = absolute_to_relative_time *)
Definition context_shape :=
  SStruct "Context"
    (FCons "deadline" true duration_shape (FCons "trace_context" false trace_shape FNil)).
Definition request_shape :=
  SStruct "Request"
    (FCons "context" false context_shape
    (FCons "id" false u64_leaf (FCons "message" false body_shape FNil))).
Definition client_message_shape :=
  SEnum "ClientMessage"
    (VCons "Request" (VkNewtype request_shape)
    (VCons "Cancel" (VkStruct (FCons "trace_context" true trace_shape
                              (FCons "request_id" false u64_leaf FNil)))
     VNil)).
(* kind: written by serialize_io_error_kind_as_u32, read by deserialize_io_error_kind_from_u32 *)
Definition kind_ser_type := PU32.
Definition kind_de_type := PU32.
Definition server_error_shape :=
  SStruct "ServerError"
    (FCons "kind" false (SPrim kind_ser_type kind_de_type) (FCons "detail" false str_leaf FNil)).
Definition response_shape :=
  SStruct "Response"
    (FCons "request_id" false u64_leaf
    (FCons "message" false
       (SEnum "Result" (VCons "Ok" (VkNewtype body_shape)
                       (VCons "Err" (VkNewtype server_error_shape) VNil)))
     FNil)).

Local Close Scope string_scope.

(* the two tables of tarpc/src/util/serde.rs *)
Local Open Scope N_scope.
Definition kind_ser_table : list (kind * N) :=
  [(NotFound, 0); (PermissionDenied, 1); (ConnectionRefused, 2); (ConnectionReset, 3);
   (ConnectionAborted, 4); (NotConnected, 5); (AddrInUse, 6); (AddrNotAvailable, 7);
   (BrokenPipe, 8); (AlreadyExists, 9); (WouldBlock, 10); (InvalidInput, 11); (InvalidData, 12);
   (TimedOut, 13); (WriteZero, 14); (Interrupted, 15); (Other, 16); (UnexpectedEof, 17)].
Definition kind_ser_default : N := 16.
Definition kind_de_table : list (N * kind) :=
  [(0, NotFound); (1, PermissionDenied); (2, ConnectionRefused); (3, ConnectionReset);
   (4, ConnectionAborted); (5, NotConnected); (6, AddrInUse); (7, AddrNotAvailable);
   (8, BrokenPipe); (9, AlreadyExists); (10, WouldBlock); (11, InvalidInput); (12, InvalidData);
   (13, TimedOut); (14, WriteZero); (15, Interrupted); (16, Other); (17, UnexpectedEof)].
Definition kind_de_default : kind := Other.

Definition kind_eqb (a b : kind) : bool :=
  match a, b with
  | NotFound, NotFound | PermissionDenied, PermissionDenied | ConnectionRefused, ConnectionRefused
  | ConnectionReset, ConnectionReset | ConnectionAborted, ConnectionAborted
  | NotConnected, NotConnected | AddrInUse, AddrInUse | AddrNotAvailable, AddrNotAvailable
  | BrokenPipe, BrokenPipe | AlreadyExists, AlreadyExists | WouldBlock, WouldBlock
  | InvalidInput, InvalidInput | InvalidData, InvalidData | TimedOut, TimedOut
  | WriteZero, WriteZero | Interrupted, Interrupted | Other, Other
  | UnexpectedEof, UnexpectedEof => true
  | Unportable n, Unportable m => n =? m
  | _, _ => false
  end.

(* serialize_io_error_kind_as_u32 / deserialize_io_error_kind_from_u32, table-driven *)
Definition kind_code (k : kind) : N :=
  match find (fun p => kind_eqb (fst p) k) kind_ser_table with
  | Some p => snd p | None => kind_ser_default end.
Definition kind_of_code (n : N) : kind :=
  match find (fun p => fst p =? n) kind_de_table with
  | Some p => snd p | None => kind_de_default end.
Definition portable (k : kind) : bool := existsb (fun p => kind_eqb (fst p) k) kind_ser_table.
(* what a kind arrives as *)
Definition degrade_kind (k : kind) : kind := if portable k then k else Other.

(* messages as they are on the wire: the deadline is the remaining Duration (secs, nanos), or
   absent (a peer that omits it; decoders substitute the default, see Time.v) *)
Record trace_ctx := { t_trace : N; t_span : N; t_sampled : bool }.
Inductive wire_deadline := DlExplicit (secs nanos : N) | DlOmitted.
Record wcontext := { c_deadline : wire_deadline; c_trace : trace_ctx }.
Record request := { r_ctx : wcontext; r_id : N; r_body : bytes }.
Inductive client_message := CRequest (r : request) | CCancel (t : trace_ctx) (id : N).
Record server_error := { e_kind : kind; e_detail : bytes }.
Inductive result_msg := ROk (body : bytes) | RErr (e : server_error).
Record response := { resp_id : N; resp_msg : result_msg }.

(* trace::Context::default(): trace id 0, span id 0, SamplingDecision::Unsampled *)
Definition default_trace : trace_ctx := {| t_trace := 0; t_span := 0; t_sampled := false |}.

Definition u64_max1 : N := 18446744073709551616.
Definition u128_max1 : N := 340282366920938463463374607431768211456.
Definition nanos_per_sec : N := 1000000000.

Definition trace_wf (t : trace_ctx) : Prop := t_trace t < u128_max1 /\ t_span t < u64_max1.
Definition body_wf (b : bytes) : Prop := bytes_ok b = true /\ N.of_nat (length b) < u64_max1.
Definition deadline_wf (d : wire_deadline) : Prop :=
  match d with DlExplicit s n => s < u64_max1 /\ n < nanos_per_sec | DlOmitted => True end.
Definition cm_wf (m : client_message) : Prop :=
  match m with
  | CRequest r => deadline_wf (c_deadline (r_ctx r)) /\ trace_wf (c_trace (r_ctx r))
                  /\ r_id r < u64_max1 /\ body_wf (r_body r)
  | CCancel t id => trace_wf t /\ id < u64_max1
  end.
Definition explicit (m : client_message) : Prop :=
  match m with CRequest r => c_deadline (r_ctx r) <> DlOmitted | CCancel _ _ => True end.
Definition resp_wf (r : response) : Prop :=
  resp_id r < u64_max1 /\
  match resp_msg r with ROk b => body_wf b | RErr e => body_wf (e_detail e) end.

(* ---- message -> value tree (the Serialize impls) ---- *)
Definition vnat (n : N) : sval := VInt (Z.of_N n).

Definition trace_to_val (t : trace_ctx) : sval :=
  VSeq [VSeq (map vnat (le_bytes 16 (t_trace t)));      (* u128::to_le_bytes *)
        vnat (t_span t);
        VVar (if t_sampled t then 0 else 1)%nat (VSeq [])].
Definition deadline_to_val (d : wire_deadline) : sval :=
  match d with DlExplicit s n => VSeq [vnat s; vnat n] | DlOmitted => VDefault end.
Definition context_to_val (c : wcontext) : sval :=
  VSeq [deadline_to_val (c_deadline c); trace_to_val (c_trace c)].
Definition request_to_val (r : request) : sval :=
  VSeq [context_to_val (r_ctx r); vnat (r_id r); VStr (r_body r)].
Definition cm_to_val (m : client_message) : sval :=
  match m with
  | CRequest r => VVar 0 (request_to_val r)
  | CCancel t id => VVar 1 (VSeq [trace_to_val t; vnat id])
  end.
Definition error_to_val (e : server_error) : sval :=
  VSeq [vnat (kind_code (e_kind e)); VStr (e_detail e)].
Definition resp_to_val (r : response) : sval :=
  VSeq [vnat (resp_id r);
        match resp_msg r with ROk b => VVar 0 (VStr b) | RErr e => VVar 1 (error_to_val e) end].

(* ---- value tree -> message (the Deserialize impls) ---- *)
Definition nat_of (v : sval) : option N :=
  match v with VInt z => if (0 <=? z)%Z then Some (Z.to_N z) else None | _ => None end.
Fixpoint nats_of (l : list sval) : option (list N) :=
  match l with [] => Some [] | v :: r => ocons (nat_of v) (nats_of r) end.
Definition str_of (v : sval) : option bytes := match v with VStr b => Some b | _ => None end.

Definition trace_of_val (v : sval) : option trace_ctx :=
  match v with
  | VSeq [VSeq bs; sp; VVar i (VSeq [])] =>
    obind (nats_of bs) (fun l =>
    obind (nat_of sp) (fun sp =>
    if Nat.eqb (length l) 16 then
      match i with
      | O => Some {| t_trace := le_val l; t_span := sp; t_sampled := true |}      (* from_le_bytes *)
      | S O => Some {| t_trace := le_val l; t_span := sp; t_sampled := false |}
      | _ => None end
    else None))
  | _ => None
  end.
(* serde's Duration visitor: check_overflow(secs, nanos) then Duration::new(secs, nanos),
   which carries whole seconds out of nanos *)
Definition deadline_of_val (v : sval) : option wire_deadline :=
  match v with
  | VDefault => Some DlOmitted
  | VSeq [s; n] =>
    obind (nat_of s) (fun s => obind (nat_of n) (fun n =>
    let s' := s + n / nanos_per_sec in
    if s' <? u64_max1 then Some (DlExplicit s' (n mod nanos_per_sec)) else None))
  | _ => None
  end.
Definition context_of_val (v : sval) : option wcontext :=
  match v with
  | VSeq [d; t] =>
    obind (deadline_of_val d) (fun d => obind (trace_of_val t) (fun t =>
    Some {| c_deadline := d; c_trace := t |}))
  | _ => None
  end.
Definition request_of_val (v : sval) : option request :=
  match v with
  | VSeq [c; id; b] =>
    obind (context_of_val c) (fun c => obind (nat_of id) (fun id => obind (str_of b) (fun b =>
    Some {| r_ctx := c; r_id := id; r_body := b |})))
  | _ => None
  end.
Definition cm_of_val (v : sval) : option client_message :=
  match v with
  | VVar O p => omap CRequest (request_of_val p)
  | VVar (S O) (VSeq [t; id]) =>
    obind (match t with VDefault => Some default_trace | _ => trace_of_val t end) (fun t =>
    obind (nat_of id) (fun id => Some (CCancel t id)))
  | _ => None
  end.
Definition error_of_val (v : sval) : option server_error :=
  match v with
  | VSeq [k; d] =>
    obind (nat_of k) (fun k => obind (str_of d) (fun d =>
    Some {| e_kind := kind_of_code k; e_detail := d |}))
  | _ => None
  end.
Definition resp_of_val (v : sval) : option response :=
  match v with
  | VSeq [id; VVar i p] =>
    obind (nat_of id) (fun id =>
    match i with
    | O => obind (str_of p) (fun b => Some {| resp_id := id; resp_msg := ROk b |})
    | S O => obind (error_of_val p) (fun e => Some {| resp_id := id; resp_msg := RErr e |})
    | _ => None end)
  | _ => None
  end.

(* ---- the two codecs on whole messages (one frame payload each) ---- *)
Definition cm_events (m : client_message) : list event := events client_message_shape (cm_to_val m).
Definition resp_events (r : response) : list event := events response_shape (resp_to_val r).

Definition cm_bincode (m : client_message) : option bytes := bin_enc client_message_shape (cm_to_val m).
Definition cm_of_bincode (bs : bytes) : option client_message :=
  obind (bin_decode client_message_shape bs) cm_of_val.
Definition resp_bincode (r : response) : option bytes := bin_enc response_shape (resp_to_val r).
Definition resp_of_bincode (bs : bytes) : option response :=
  obind (bin_decode response_shape bs) resp_of_val.

Definition cm_json (m : client_message) : option jv := json_enc client_message_shape (cm_to_val m).
Definition cm_of_json (j : jv) : option client_message :=
  obind (json_dec client_message_shape j) cm_of_val.
Definition resp_json (r : response) : option jv := json_enc response_shape (resp_to_val r).
Definition cm_json_arr (m : client_message) : option jv := json_enc_arr client_message_shape (cm_to_val m).
Definition resp_json_arr (r : response) : option jv := json_enc_arr response_shape (resp_to_val r).
Definition resp_of_json (j : jv) : option response :=
  obind (json_dec response_shape j) resp_of_val.

(* what a message arrives as: only the error kind can change *)
Definition degrade_resp (r : response) : response :=
  match resp_msg r with
  | ROk _ => r
  | RErr e => {| resp_id := resp_id r;
                 resp_msg := RErr {| e_kind := degrade_kind (e_kind e); e_detail := e_detail e |} |}
  end.

(* the pre-fix serializer of the kind (commit 4f0943b^): an untyped literal, i.e. serialize_i32,
   still read back with deserialize_u32 *)
Definition server_error_shape_prefix :=
  SStruct "ServerError"
    (FCons "kind" false (SPrim PI32 PU32) (FCons "detail" false str_leaf FNil)).
Definition response_shape_prefix :=
  SStruct "Response"
    (FCons "request_id" false u64_leaf
    (FCons "message" false
       (SEnum "Result" (VCons "Ok" (VkNewtype body_shape)
                       (VCons "Err" (VkNewtype server_error_shape_prefix) VNil)))
     FNil)).
Definition resp_roundtrip_bincode_prefix (r : response) : option response :=
  obind (bin_enc response_shape_prefix (resp_to_val r)) (fun bs =>
  obind (bin_decode response_shape_prefix bs) resp_of_val).

(* ---- decidable equalities used by the correspondence check ---- *)
Definition trace_eqb (a b : trace_ctx) : bool :=
  (t_trace a =? t_trace b) && (t_span a =? t_span b) && Bool.eqb (t_sampled a) (t_sampled b).
Definition deadline_eqb (a b : wire_deadline) : bool :=
  match a, b with
  | DlExplicit s n, DlExplicit s' n' => (s =? s') && (n =? n')
  | DlOmitted, DlOmitted => true
  | _, _ => false
  end.
Definition bytes_eqb (a b : bytes) : bool := list_eqb N.eqb a b.
Definition cm_eqb (a b : client_message) : bool :=
  match a, b with
  | CRequest r, CRequest r' =>
    deadline_eqb (c_deadline (r_ctx r)) (c_deadline (r_ctx r')) &&
    trace_eqb (c_trace (r_ctx r)) (c_trace (r_ctx r')) && (r_id r =? r_id r') &&
    bytes_eqb (r_body r) (r_body r')
  | CCancel t id, CCancel t' id' => trace_eqb t t' && (id =? id')
  | _, _ => false
  end.
Definition resp_eqb (a b : response) : bool :=
  (resp_id a =? resp_id b) &&
  match resp_msg a, resp_msg b with
  | ROk x, ROk y => bytes_eqb x y
  | RErr e, RErr e' => kind_eqb (e_kind e) (e_kind e') && bytes_eqb (e_detail e) (e_detail e')
  | _, _ => false
  end.
Definition event_eqb (a b : event) : bool :=
  match a, b with
  | EInt p z, EInt p' z' => prim_eqb p p' && (z =? z')%Z
  | EStr x, EStr y => bytes_eqb x y
  | ETuple n, ETuple n' => Nat.eqb n n'
  | ETupleEnd, ETupleEnd | EStructEnd, EStructEnd | EStructVariantEnd, EStructVariantEnd
  | EBad, EBad => true
  | ENewtype x, ENewtype y => String.eqb x y
  | EStruct x n, EStruct y n' => String.eqb x y && Nat.eqb n n'
  | EField x, EField y => String.eqb x y
  | EUnitVariant e i v, EUnitVariant e' i' v' => String.eqb e e' && Nat.eqb i i' && String.eqb v v'
  | ENewtypeVariant e i v, ENewtypeVariant e' i' v' =>
    String.eqb e e' && Nat.eqb i i' && String.eqb v v'
  | EStructVariant e i v n, EStructVariant e' i' v' n' =>
    String.eqb e e' && Nat.eqb i i' && String.eqb v v' && Nat.eqb n n'
  | _, _ => false
  end.
