(* Model of tarpc/src/server/request_hook.rs and request_hook/{before,after,before_and_after}.rs.
   One Gallina function per Rust function; no proofs in this file.

   A `Serve` value is a tree of wrappers around a base handler; every `serve` body is straight-line
   sequential code, so one call is a pure function (ctx, req) -> (events, result).
   Hooks are scripted (data-driven): what a hook does to the context / the result is data that
   both the harness (real closures and hook objects) and this model interpret.

     ctx  : the part of context::Context a hook can change: the span id (one u64,
            trace_context.span_id) and the deadline.  The deadline is kept exactly, as a signed
            number of milliseconds relative to the instant T0 at which the call is made; no hook
            and no wrapper awaits anything that takes time, so Instant::now() = T0 throughout and
            "the deadline has elapsed" is `dl <= 0` (the harness runs under its virtual clock).
            None of the wrappers reads the deadline: it only travels with the context.
     req  : the request (u64), passed by shared reference to every before-hook
     result : Result<u64, ServerError>; the error carries a numeric code

   What is modelled exactly as the code does it:
     HookThenServe::serve          hook.before(&mut ctx, &req)?; serve.serve(ctx, req)
     BeforeRequestCons::before     first.before(ctx, req)?; rest.before(ctx, req)?; Ok(())
     BeforeRequestNil::before      Ok(())
     BeforeRequestNil::then        BeforeRequestCons(next, Nil)
     BeforeRequestCons::then       BeforeRequestCons(first, rest.then(next))
     Nil::serving(s) = s           Cons::serving(s) = HookThenServe::new(s, self)
     ServeThenHook::serve          resp = serve.serve(ctx, req)  -- Context is Copy: the inner
                                   service gets a COPY; hook.after(&mut ctx, &mut resp) sees the
                                   wrapper's own (unchanged) ctx; resp is returned
     HookThenServeThenHook::serve  hook.before(&mut ctx,&req)?; resp = serve.serve(ctx, req);
                                   hook.after(&mut ctx, &mut resp) -- sees the ctx its before
                                   part left; resp is returned *)
From Coq Require Import List NArith ZArith Bool.
Import ListNotations.
From TarpcV Require Import Base.
Local Open Scope N_scope.

Definition W64 : N := 18446744073709551616.
Definition ctx := (N * Z)%type.          (* span id, deadline - T0 in ms *)
Definition c_span (c : ctx) : N := fst c.
Definition c_dl (c : ctx) : Z := snd c.
(* how a deadline is shown in a u64 result *)
Definition enc_dl (d : Z) : N := Z.to_N (d + 1000000000000)%Z.
Definition req := N.
Inductive result := ROk (v : N) | RErr (code : N).

(* ---- scripted hook effects ------------------------------------------------------------- *)
(* on the span id: keep / set / wrapping add (u64); on the deadline: keep / set to T0 + k ms
   (k < 0: in the past, k = 0: exactly now, k > 0: in the future) *)
Inductive ceff := CKeep | CSet (v : N) | CAdd (d : N).
Inductive deff := DKeep | DSet (k : Z).
Definition apply_ceff (e : ceff) (c : N) : N :=
  match e with CKeep => c | CSet v => v | CAdd d => (c + d) mod W64 end.
Definition apply_deff (e : deff) (d : Z) : Z := match e with DKeep => d | DSet k => k end.
Definition apply_ctx (ce : ceff) (de : deff) (c : ctx) : ctx :=
  (apply_ceff ce (c_span c), apply_deff de (c_dl c)).

(* whether a before-hook fails: never / always / if the span id it was given is >= t /
   if the request equals q / if the deadline it was given has elapsed (a hook may look at the
   deadline; the wrappers never do).  The context effect is applied first, then the hook fails
   or not, judging by the context it was GIVEN. *)
Inductive feff := FNo | FFail (e : N) | FCtxGe (t e : N) | FReqEq (q e : N) | FExpired (e : N).
Definition apply_feff (f : feff) (c : ctx) (r : req) : option N :=
  match f with
  | FNo => None
  | FFail e => Some e
  | FCtxGe t e => if t <=? c_span c then Some e else None
  | FReqEq q e => if r =? q then Some e else None
  | FExpired e => if (c_dl c <=? 0)%Z then Some e else None
  end.

(* on the result (after-hooks): keep / overwrite / add to an Ok value (wrapping) /
   turn an error into Ok v / turn Ok into an error / overwrite with Ok(span id the hook sees) /
   overwrite with Ok(deadline the hook sees) *)
Inductive reff := RKeep | RSet (x : result) | RMapOk (d : N) | RRecover (v : N) | RFailOk (e : N)
                | RCtx | RDl.
Definition apply_reff (f : reff) (c : ctx) (x : result) : result :=
  match f with
  | RKeep => x
  | RSet y => y
  | RMapOk d => match x with ROk v => ROk ((v + d) mod W64) | RErr e => RErr e end
  | RRecover v => match x with ROk w => ROk w | RErr _ => ROk v end
  | RFailOk e => match x with ROk _ => RErr e | RErr e' => RErr e' end
  | RCtx => ROk (c_span c)
  | RDl => ROk (enc_dl (c_dl c))
  end.

(* handler: Ok(req + d) / Err e / Ok(span id it was called with) / Ok(deadline it was called with) *)
Inductive heff := HPlus (d : N) | HErr (e : N) | HCtx | HDl.

Record bh := { b_id : nat; b_ceff : ceff; b_deff : deff; b_feff : feff }.   (* BeforeRequest hook *)
Record ah := { a_id : nat; a_ceff : ceff; a_deff : deff; a_reff : reff }.   (* AfterRequest hook *)
Record bah := { ba_b : bh; ba_a : ah }.                          (* one object implementing both *)
Record hd := { h_id : nat; h_eff : heff }.                       (* the function given to serve() *)

(* hook.before(&mut ctx, &req): the context it leaves and whether it failed *)
Definition before_eff (h : bh) (c : ctx) (r : req) : ctx * option N :=
  (apply_ctx (b_ceff h) (b_deff h) c, apply_feff (b_feff h) c r).
(* hook.after(&mut ctx, &mut resp): the context and the result it leaves *)
Definition after_eff (h : ah) (c : ctx) (x : result) : ctx * result :=
  (apply_ctx (a_ceff h) (a_deff h) c, apply_reff (a_reff h) c x).
Definition after_res (h : ah) (c : ctx) (x : result) : result := snd (after_eff h c x).
Definition handler_eff (h : hd) (c : ctx) (r : req) : result :=
  match h_eff h with
  | HPlus d => ROk ((r + d) mod W64) | HErr e => RErr e
  | HCtx => ROk (c_span c) | HDl => ROk (enc_dl (c_dl c))
  end.

(* ---- the Serve tree --------------------------------------------------------------------- *)
Inductive blist := BNil | BCons (first : bh) (rest : blist).   (* BeforeRequestNil / ..Cons *)

Inductive serveT :=
| Base (h : hd)                              (* serve(f) *)
| Before (h : bh) (s : serveT)               (* s.before(h)            = HookThenServe{s, h} *)
| BeforeList (l : blist) (s : serveT)        (* s.before(l), l a list  = HookThenServe{s, l} *)
| After (s : serveT) (h : ah)                (* s.after(h)             = ServeThenHook{s, h} *)
| BeforeAfter (h : bah) (s : serveT).        (* s.before_and_after(h)  = HookThenServeThenHook *)

(* BeforeRequestList::then / then_fn *)
Fixpoint then_ (l : blist) (next : bh) : blist :=
  match l with
  | BNil => BCons next BNil
  | BCons first rest => BCons first (then_ rest next)
  end.
(* BeforeRequestList::serving *)
Definition serving (l : blist) (s : serveT) : serveT :=
  match l with BNil => s | BCons _ _ => BeforeList l s end.

Inductive event :=
| EBefore (id : nat) (c : ctx) (r : req)          (* a before-hook ran, given ctx c and req r *)
| EHandler (id : nat) (c : ctx) (r : req)         (* the handler ran *)
| EAfter (id : nat) (c : ctx) (x : result).       (* an after-hook ran, given ctx c and result x *)

(* BeforeRequestCons::before / BeforeRequestNil::before: events, ctx left, error if any *)
Fixpoint run_blist (l : blist) (c : ctx) (r : req) : list event * ctx * option N :=
  match l with
  | BNil => ([], c, None)
  | BCons first rest =>
    let '(c1, e) := before_eff first c r in
    match e with
    | Some x => ([EBefore (b_id first) c r], c1, Some x)               (* first.before(..)? *)
    | None => let '(evs, c2, e2) := run_blist rest c1 r in             (* rest.before(..)? *)
              (EBefore (b_id first) c r :: evs, c2, e2)
    end
  end.

(* Serve::serve of every wrapper *)
Fixpoint serve (s : serveT) (c : ctx) (r : req) : list event * result :=
  match s with
  | Base h => ([EHandler (h_id h) c r], handler_eff h c r)
  | Before h s' =>
    let '(c1, e) := before_eff h c r in
    match e with
    | Some x => ([EBefore (b_id h) c r], RErr x)
    | None => let '(evs, x) := serve s' c1 r in (EBefore (b_id h) c r :: evs, x)
    end
  | BeforeList l s' =>
    let '(evs, c1, e) := run_blist l c r in
    match e with
    | Some x => (evs, RErr x)
    | None => let '(evs2, x) := serve s' c1 r in (evs ++ evs2, x)
    end
  | After s' h =>
    let '(evs, x) := serve s' c r in                 (* the inner service gets a copy of ctx *)
    (evs ++ [EAfter (a_id h) c x], after_res h c x)  (* the hook sees this wrapper's own ctx *)
  | BeforeAfter h s' =>
    let '(c1, e) := before_eff (ba_b h) c r in
    match e with
    | Some x => ([EBefore (b_id (ba_b h)) c r], RErr x)
    | None => let '(evs, x) := serve s' c1 r in
              (EBefore (b_id (ba_b h)) c r :: evs ++ [EAfter (a_id (ba_a h)) c1 x],
               after_res (ba_a h) c1 x)
    end
  end.

(* ---- specification vocabulary used by the theorem statements ---------------------------- *)
Fixpoint blist_to_list (l : blist) : list bh :=
  match l with BNil => [] | BCons f r => f :: blist_to_list r end.
(* the before-events of a chain in which nobody fails: hook i is given the context left by
   hooks 0..i-1 *)
Fixpoint chain_events (hs : list bh) (c : ctx) (r : req) : list event :=
  match hs with
  | [] => []
  | h :: t => EBefore (b_id h) c r :: chain_events t (fst (before_eff h c r)) r
  end.
(* the context after the whole chain *)
Fixpoint chain_ctx (hs : list bh) (c : ctx) (r : req) : ctx :=
  match hs with [] => c | h :: t => chain_ctx t (fst (before_eff h c r)) r end.
(* position and error of the first hook of the chain that fails (given what its predecessors
   left in the context) *)
Fixpoint first_fail (hs : list bh) (c : ctx) (r : req) : option (nat * N) :=
  match hs with
  | [] => None
  | h :: t => match snd (before_eff h c r) with
              | Some e => Some (O, e)
              | None => match first_fail t (fst (before_eff h c r)) r with
                        | Some (k, e) => Some (S k, e)
                        | None => None
                        end
              end
  end.
Definition is_handler (e : event) : bool := match e with EHandler _ _ _ => true | _ => false end.
Definition is_after (e : event) : bool := match e with EAfter _ _ _ => true | _ => false end.
Definition count_handler (evs : list event) : nat := length (filter is_handler evs).
(* s.before(h1).before(h2)...: the last hook applied is the outermost, hence runs first;
   nest_before [h1; ..; hn] s = Before h1 (.. (Before hn s)) runs h1 first *)
Definition nest_before (hs : list bh) (s : serveT) : serveT := fold_right Before s hs.

(* Deadline-blind compositions: no hook looks at or changes the deadline.  For those, C19 says
   the deadline's value must not matter at all (C19_deadline_irrelevant): events with the
   deadline erased, and the result, are the same for every deadline. *)
Definition blind_b (h : bh) : bool :=
  match b_deff h, b_feff h with DKeep, FExpired _ => false | DKeep, _ => true | _, _ => false end.
Definition blind_a (h : ah) : bool :=
  match a_deff h, a_reff h with DKeep, RDl => false | DKeep, _ => true | _, _ => false end.
Definition blind_h (h : hd) : bool := match h_eff h with HDl => false | _ => true end.
Fixpoint blind_l (l : blist) : bool :=
  match l with BNil => true | BCons f r => blind_b f && blind_l r end.
Fixpoint blind (s : serveT) : bool :=
  match s with
  | Base h => blind_h h
  | Before h s' => blind_b h && blind s'
  | BeforeList l s' => blind_l l && blind s'
  | After s' h => blind s' && blind_a h
  | BeforeAfter h s' => blind_b (ba_b h) && blind_a (ba_a h) && blind s'
  end.
Inductive sevent :=        (* an event with the deadline erased *)
| SBefore (id : nat) (span : N) (r : req) | SHandler (id : nat) (span : N) (r : req)
| SAfter (id : nat) (span : N) (x : result).
Definition erase (e : event) : sevent :=
  match e with
  | EBefore i c r => SBefore i (c_span c) r
  | EHandler i c r => SHandler i (c_span c) r
  | EAfter i c x => SAfter i (c_span c) x
  end.

(* ---- executable monitor ----------------------------------------------------------------- *)
Definition result_eqb (a b : result) : bool :=
  match a, b with
  | ROk v, ROk w => v =? w
  | RErr e, RErr f => e =? f
  | _, _ => false
  end.
Definition ctx_eqb (a b : ctx) : bool := (c_span a =? c_span b) && (c_dl a =? c_dl b)%Z.
Definition event_eqb (a b : event) : bool :=
  match a, b with
  | EBefore i c r, EBefore j d q => Nat.eqb i j && ctx_eqb c d && (r =? q)
  | EHandler i c r, EHandler j d q => Nat.eqb i j && ctx_eqb c d && (r =? q)
  | EAfter i c x, EAfter j d y => Nat.eqb i j && ctx_eqb c d && result_eqb x y
  | _, _ => false
  end.

(* The monitor reads the observed event list against the composition the user wrote (the tree)
   and the hooks' scripted behaviour.  It returns the result that must be sent and the events
   not consumed.  It is an acceptor, clause by clause of C19:
     - a before-hook's event must come next, with the context (span id AND deadline) left by
       the hooks before it, whatever that deadline is -- elapsed or not;
       if that hook fails nothing else of this wrapper may follow and the result is its error;
     - the handler event carries the context the chain left;
     - an after-hook's event comes exactly once, directly after the events of what it wraps,
       showing the result that produced; what the hook leaves is the result.  For a plain
       after-hook the statement does not say which context it sees (the observed one is used
       to evaluate its script); for a before-and-after hook it must be the context its before
       part produced. *)
Definition expect_before (h : bh) (c : ctx) (r : req) (evs : list event) : option (list event) :=
  match evs with
  | EBefore i c' r' :: rest =>
    if Nat.eqb i (b_id h) && ctx_eqb c' c && (r' =? r) then Some rest else None
  | _ => None
  end.

Fixpoint mon_blist (l : blist) (c : ctx) (r : req) (evs : list event)
  : option (ctx * option N * list event) :=
  match l with
  | BNil => Some (c, None, evs)
  | BCons h rest =>
    match expect_before h c r evs with
    | None => None
    | Some evs1 =>
      let '(c1, e) := before_eff h c r in
      match e with
      | Some x => Some (c1, Some x, evs1)
      | None => mon_blist rest c1 r evs1
      end
    end
  end.

Fixpoint mon (s : serveT) (c : ctx) (r : req) (evs : list event) : option (result * list event) :=
  match s with
  | Base h =>
    match evs with
    | EHandler i c' r' :: rest =>
      if Nat.eqb i (h_id h) && ctx_eqb c' c && (r' =? r) then Some (handler_eff h c r, rest) else None
    | _ => None
    end
  | Before h s' =>
    match expect_before h c r evs with
    | None => None
    | Some evs1 =>
      let '(c1, e) := before_eff h c r in
      match e with Some x => Some (RErr x, evs1) | None => mon s' c1 r evs1 end
    end
  | BeforeList l s' =>
    match mon_blist l c r evs with
    | None => None
    | Some (_, Some x, evs1) => Some (RErr x, evs1)
    | Some (c1, None, evs1) => mon s' c1 r evs1
    end
  | After s' h =>
    match mon s' c r evs with
    | Some (x, EAfter i c' x' :: rest) =>
      if Nat.eqb i (a_id h) && result_eqb x' x then Some (after_res h c' x, rest) else None
    | _ => None
    end
  | BeforeAfter h s' =>
    match expect_before (ba_b h) c r evs with
    | None => None
    | Some evs1 =>
      let '(c1, e) := before_eff (ba_b h) c r in
      match e with
      | Some x => Some (RErr x, evs1)
      | None =>
        match mon s' c1 r evs1 with
        | Some (x, EAfter i c' x' :: rest) =>
          if Nat.eqb i (a_id (ba_a h)) && ctx_eqb c' c1 && result_eqb x' x
          then Some (after_res (ba_a h) c1 x, rest) else None
        | _ => None
        end
      end
    end
  end.

(* cfg = (tree, initial ctx, request); obs = (events, result of Serve::serve) *)
Definition c19_ok (cfg : serveT * ctx * req) (obs : list event * result) : bool :=
  let '(s, c, r) := cfg in
  match mon s c r (fst obs) with
  | Some (x, []) => result_eqb x (snd obs)
  | _ => false
  end.

Definition obs_eqb (a b : list event * result) : bool :=
  list_eqb event_eqb (fst a) (fst b) && result_eqb (snd a) (snd b).
