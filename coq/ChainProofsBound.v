(* Chain proofs, cascade: the no-wrap bound.  No client of a chain has handed out more request
   ids than there are head calls. *)
From Coq Require Import List Bool Arith NArith Lia.
Import ListNotations.
From TarpcV Require Import Base Transport TimerWheel Chain ChainSpec ChainBase ChainInv ChainCross
     ChainSrvSpec ChainGood ChainProofsSrv.
From TarpcV Require Client Server.

Lemma npolled_le c : npolled c <= length (Client.calls c).
Proof. unfold npolled. apply ServerFuel.filter_len_le. Qed.

(* one node: the server has yielded at most as many requests as its client has handed out ids *)
Lemma handlers_le_next_id T c l s :
  cross T [] c l s -> (N.of_nat (length (Server.s_handlers s)) <= Client.next_id c)%N.
Proof.
  intros X. replace (length (Server.s_handlers s)) with (length (hids s)) by (unfold hids; apply map_length).
  apply pigeon_N.
  - pose proof (x_nodup _ _ _ _ _ X) as H. rewrite app_nil_r in H. revert H. generalize (req_ids (l_c2s l)).
    intros a. induction a as [|x a IH]; cbn; [auto|]. intros H. inversion H; auto.
  - intros id Hin. apply (si_lt c id). apply (x_sent _ _ _ _ _ X). apply in_or_app. right. apply in_or_app. left. exact Hin.
Qed.

Lemma cnt_calls_le hs : cnt_calls hs <= length hs.
Proof. unfold cnt_calls. apply ServerFuel.filter_len_le. Qed.

(* the chain: by induction on the node index *)
Theorem next_id_le_calls m ch :
  good m ch -> forall i nd, nth_error ch i = Some nd ->
  (Client.next_id (n_cli nd) <= N.of_nat (length (mo_calls m)))%N.
Proof.
  intros G i. induction i as [|i IH]; intros nd Hnd.
  - pose proof (cv_nid _ _ (no_cli _ _ (gd_node _ _ G 0 nd Hnd))) as H1.
    pose proof (npolled_le (n_cli nd)) as H2.
    rewrite (mk_calls _ _ (gd_mon _ _ G) nd Hnd). lia.
  - assert (Hlt : i < length ch) by (apply nth_error_lt in Hnd; lia).
    apply nth_error_Some in Hlt. destruct (nth_error ch i) as [nd0|] eqn:E0; [|congruence].
    specialize (IH nd0 eq_refl).
    pose proof (cv_nid _ _ (no_cli _ _ (gd_node _ _ G (S i) nd Hnd))) as H1.
    pose proof (npolled_le (n_cli nd)) as H2.
    pose proof (ow_cnt _ _ (gd_own _ _ G i nd0 nd E0 Hnd)) as H3.
    pose proof (cnt_calls_le (n_hs nd0)) as H4.
    pose proof (no_hlen _ _ (gd_node _ _ G i nd0 E0)) as H5.
    pose proof (handlers_le_next_id _ _ _ _ (no_x _ _ (gd_node _ _ G i nd0 E0))) as H6.
    lia.
Qed.

Print Assumptions next_id_le_calls.
