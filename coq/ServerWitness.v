(* Concrete scripts (each one reproduced on the real code by the harness, see KNOWN_FINDINGS.txt
   and corpus/) and what the model and the monitors say about them.  Proofs by computation. *)
From Coq Require Import List Bool Arith NArith.
Import ListNotations.
From TarpcV Require Import Base Transport TimerWheel Server ServerMon.

Definition t_unbounded : stransport cmsg := st_init cmsg 0 true.

(* K1: limit 1; request 1 yielded; Cancel 1 and Request 2 arrive together: the poll reads the
   cancel (0 in flight) and then throttles request 2 *)
Definition k1_cfg := mkcfg (Some 1) 1.
Definition k1_ops : list sop :=
  [OCtl (TDeliver (MReq 1 1000 7 5)); OPoll; OCtl (TDeliver (MCancel 1 7));
   OCtl (TDeliver (MReq 2 1000 7 6)); OPoll].

(* K2: limit 1; request 1 (deadline 100) yielded and running; the sink stops being ready; at
   clock 400 the poll returns Pending from MaxRequests' poll_ready: no expiry; the handler runs on *)
Definition k2_cfg := mkcfg (Some 1) 1.
Definition k2_ops : list sop :=
  [OCtl (TDeliver (MReq 1 100 7 5)); OPoll; OHandlerPoll 0 SRun; OCtl (TSetReady false);
   OAdvance 400; OPoll; OHandlerPoll 0 SRun; OCtl (TSetReady true); OPoll; OHandlerPoll 0 SRun].

(* B1: request 1 answered by its handler (11) while the sink is not ready; Cancel 1; request 1
   again: the second request is answered with 11 and its handler keeps running untracked *)
Definition b1_cfg := mkcfg None 1.
Definition b1_ops : list sop :=
  [OCtl (TDeliver (MReq 1 1000 7 5)); OPoll; OCtl (TSetReady false); OHandlerPoll 0 (SFinish 11);
   OPoll; OCtl (TDeliver (MCancel 1 7)); OCtl (TDeliver (MReq 1 1000 7 6)); OPoll;
   OCtl (TSetReady true); OPoll; OHandlerPoll 1 SRun; OPoll].

(* the application polls Requests again after it yielded a flush error: the channel writes *)
Definition e1_cfg := mkcfg None 3.
Definition e1_ops : list sop :=
  [OCtl (TDeliver (MReq 1 9000 1 1)); OPoll; OHandlerPoll 0 (SFinish 1); OCtl (TFail MFlush);
   OPoll; OCtl (TDeliver (MReq 2 9000 1 1)); OPoll; OHandlerPoll 1 (SFinish 2); OPoll].

Definition tr_of (c : cfg) (ops : list sop) := fst (srun c t_unbounded ops).

Lemma k1_witness :
  c12_ok k1_cfg k1_ops (tr_of k1_cfg k1_ops) = false
  /\ c12_rel_ok k1_cfg k1_ops (tr_of k1_cfg k1_ops) = true
  /\ freed_in_same_poll k1_cfg k1_ops (tr_of k1_cfg k1_ops) = true
  /\ nth 4 (tr_of k1_cfg k1_ops) [] =
     [OCalls [CReady TOk; CNext (RItem (MCancel 1 7)); CNext (RItem (MReq 2 1000 7 6));
              CSend (mkresp 2 BThrottle) SOk; CNext RPending; CReady TOk; CFlush TOk];
      OPending; OGauges 0 0].
Proof. vm_compute. repeat split; reflexivity. Qed.

Lemma k2_witness :
  c06_ok k2_cfg k2_ops (tr_of k2_cfg k2_ops) = false
  /\ c06_rel_ok k2_cfg k2_ops (tr_of k2_cfg k2_ops) = true
  /\ c11s_ok k2_cfg k2_ops (tr_of k2_cfg k2_ops) = false
  /\ c11s_rel_ok k2_cfg k2_ops (tr_of k2_cfg k2_ops) = true
  /\ limiter_blocked_on_sink k2_cfg k2_ops (tr_of k2_cfg k2_ops) = true
  /\ nth 6 (tr_of k2_cfg k2_ops) [] = [OHPolled 0; OExecPending 0; OGauges 1 1].
Proof. vm_compute. repeat split; reflexivity. Qed.

Lemma b1_witness :
  reuse_only_after_completion b1_cfg b1_ops (tr_of b1_cfg b1_ops) = false
  /\ c08_core_ok b1_cfg b1_ops (tr_of b1_cfg b1_ops) = false
  /\ c04_core_ok b1_cfg b1_ops (tr_of b1_cfg b1_ops) = false
  /\ nth 9 (tr_of b1_cfg b1_ops) [] =
     [OCalls [CNext RPending; CReady TOk; CSend (mkresp 1 (BOk 11)) SOk; CNext RPending;
              CReady TOk; CFlush TOk]; OPending; OGauges 0 0]
  /\ nth 10 (tr_of b1_cfg b1_ops) [] = [OHPolled 1; OExecPending 1; OGauges 0 0].
Proof. vm_compute. repeat split; reflexivity. Qed.

(* stops_after_error is needed by the server halves of C14 and C09: when the application polls
   Requests again after the stream yielded an error, the channel writes to the failed sink, so
   the contract over ALL polls (polls_all, no boundary) is false while the one up to the first
   error (polls_of) holds *)
Lemma e1_witness :
  stops_after_error e1_cfg e1_ops (tr_of e1_cfg e1_ops) = false
  /\ contract_ok (fun _ : response => true) (polls_all e1_ops (tr_of e1_cfg e1_ops)) = false
  /\ c14s_ok e1_ops (tr_of e1_cfg e1_ops) = true.
Proof. vm_compute. repeat split; reflexivity. Qed.

(* C18 server half is not vacuous: a yield that lost the sampling bit (trace number 6 instead of
   7) is rejected, the faithful one accepted *)
Lemma c18_witness :
  c18s_ok [[OCalls [CReady TOk; CNext (RItem (MReq 1 1000 7 5)); CFlush TOk]; OYield 0 1 1000 6 5; OGauges 1 1]] = false
  /\ c18s_ok [[OCalls [CReady TOk; CNext (RItem (MReq 1 1000 7 5)); CFlush TOk]; OYield 0 1 1000 7 5; OGauges 1 1]] = true.
Proof. vm_compute. split; reflexivity. Qed.
