(* Proofs about the wire model (Wire.v): leaf codecs, the two shape-directed round trips, and
   the protocol messages.

   NOTE on bin_roundtrip_generic: schema_names_wf alone is not enough.  schema_names_wf does not bound the
   number of variants of an enum, while the bincode decoder rejects variant tags >= 2^32
   (cast_u64_to_u32).  bin_roundtrip_generic_needs_small (end of file) refutes the statement
   without the extra premise.  The premise used here is shape_small: every enum has at most
   2^32 variants (tags 0 .. 2^32-1).  The JSON round trip needs no such premise. *)
From Coq Require Import String Ascii.
From Coq Require Import List NArith ZArith Bool Lia.
Import ListNotations.
From TarpcV Require Import Base Schema Wire.

(* ------------------------------------------------------------------------------------------ *)
(* leaves *)
Lemma le_val_le_bytes : forall k n, (n < 256 ^ N.of_nat k)%N -> le_val (le_bytes k n) = n.
Proof.
  induction k; intros n H.
  - change (256 ^ N.of_nat 0)%N with 1%N in H. cbn [le_bytes le_val]. lia.
  - rewrite Nat2N.inj_succ, N.pow_succ_r' in H.
    cbn [le_bytes le_val].
    rewrite IHk.
    + pose proof (N.div_mod' n 256). lia.
    + apply N.div_lt_upper_bound; lia.
Qed.

Lemma le_bytes_ok : forall k n, bytes_ok (le_bytes k n) = true.
Proof.
  induction k; intros n; cbn [le_bytes bytes_ok forallb]; [reflexivity|].
  fold (bytes_ok (le_bytes k (n / 256))). rewrite IHk, andb_true_r.
  unfold byte_ok. apply N.ltb_lt. apply N.mod_lt. discriminate.
Qed.

Lemma le_bytes_length : forall k n, length (le_bytes k n) = k.
Proof. induction k; intros n; cbn [le_bytes length]; [reflexivity|]. now rewrite IHk. Qed.

Lemma firstn_length_app {A} (l r : list A) : firstn (length l) (l ++ r) = l.
Proof. induction l; cbn; [destruct r; reflexivity|]. now rewrite IHl. Qed.
Lemma skipn_length_app {A} (l r : list A) : skipn (length l) (l ++ r) = r.
Proof. induction l; cbn; [reflexivity|]. assumption. Qed.

Lemma take_le_le_bytes : forall k n rest, (n < 256 ^ N.of_nat k)%N ->
  take_le k (le_bytes k n ++ rest) = Some (n, rest).
Proof.
  intros k n rest H. unfold take_le.
  replace (length (le_bytes k n ++ rest) <? k)%nat with false.
  2:{ symmetry. apply Nat.ltb_ge. rewrite app_length, le_bytes_length. lia. }
  rewrite <- (le_bytes_length k n) at 1 3.
  rewrite firstn_length_app, skipn_length_app, le_val_le_bytes by assumption. reflexivity.
Qed.

Lemma read_varint_varint : forall n rest, (n < 18446744073709551616)%N ->
  read_varint (varint n ++ rest) = Some (n, rest).
Proof.
  intros n rest H. unfold varint.
  destruct (n <? 251)%N eqn:E1.
  { cbn [app read_varint]. rewrite E1. reflexivity. }
  destruct (n <? 65536)%N eqn:E2.
  { change (read_varint ((251%N :: le_bytes 2 n) ++ rest)) with (take_le 2 (le_bytes 2 n ++ rest)).
    apply take_le_le_bytes. change (256 ^ N.of_nat 2)%N with 65536%N. now apply N.ltb_lt. }
  destruct (n <? 4294967296)%N eqn:E3.
  { change (read_varint ((252%N :: le_bytes 4 n) ++ rest)) with (take_le 4 (le_bytes 4 n ++ rest)).
    apply take_le_le_bytes. change (256 ^ N.of_nat 4)%N with 4294967296%N. now apply N.ltb_lt. }
  change (read_varint ((253%N :: le_bytes 8 n) ++ rest)) with (take_le 8 (le_bytes 8 n ++ rest)).
  apply take_le_le_bytes. change (256 ^ N.of_nat 8)%N with 18446744073709551616%N. assumption.
Qed.

Lemma even_double m : N.even (2 * m) = true.
Proof. destruct m; reflexivity. Qed.
Lemma even_double1 m : N.even (2 * m + 1) = false.
Proof. destruct m; reflexivity. Qed.
Lemma div2_double m : (2 * m / 2 = m)%N.
Proof. rewrite N.mul_comm. apply N.div_mul. discriminate. Qed.
Lemma div2_double1 m : ((2 * m + 1) / 2 = m)%N.
Proof. symmetry. apply (N.div_unique (2 * m + 1) 2 m 1); lia. Qed.

Lemma unzigzag_zigzag : forall z, (-9223372036854775808 <= z < 9223372036854775808)%Z ->
  unzigzag (zigzag z) = z /\ (zigzag z < 18446744073709551616)%N.
Proof.
  intros z H. unfold zigzag. destruct (z <? 0)%Z eqn:E.
  - apply Z.ltb_lt in E.
    replace (Z.to_N (-2 * z - 1)) with (2 * Z.to_N (- z - 1) + 1)%N by lia.
    split; [|lia]. unfold unzigzag. rewrite even_double1, div2_double1. lia.
  - apply Z.ltb_ge in E.
    replace (Z.to_N (2 * z)) with (2 * Z.to_N z)%N by lia.
    split; [|lia]. unfold unzigzag. rewrite even_double, div2_double. lia.
Qed.

(* ------------------------------------------------------------------------------------------ *)
(* generic round trips *)
Scheme shape_mut := Induction for shape Sort Prop
with fields_mut := Induction for fields Sort Prop
with variants_mut := Induction for variants Sort Prop
with vkind_mut := Induction for vkind Sort Prop.
Combined Scheme shape_mutind from shape_mut, fields_mut, variants_mut, vkind_mut.

Definition shape_small (s : shape) : Prop := shape_smallb s = true.

Section Lists.
  Variable opt : bool.
  Variable e : shape.
  Fixpoint conforms_list (l : list sval) : Prop :=
    match l with [] => True | x :: r => conforms opt e x /\ conforms_list r end.
  Fixpoint bin_enc_list (l : list sval) : option bytes :=
    match l with [] => Some [] | x :: r => oapp (bin_enc e x) (bin_enc_list r) end.
  Fixpoint bin_dec_list (k : nat) (bs : bytes) : option (list sval * bytes) :=
    match k with
    | O => Some ([], bs)
    | S k' =>
      match bin_dec e bs with
      | Some (v, r) => match bin_dec_list k' r with Some (vs, r') => Some (v :: vs, r') | None => None end
      | None => None
      end
    end.
  Fixpoint json_enc_list (l : list sval) : option (list jv) :=
    match l with [] => Some [] | x :: r => ocons (json_enc e x) (json_enc_list r) end.
  Fixpoint json_dec_list (l : list jv) : option (list sval) :=
    match l with [] => Some [] | x :: r => ocons (json_dec e x) (json_dec_list r) end.
End Lists.

Lemma conforms_tuple_eq opt n e v : conforms opt (STuple n e) v =
  match v with VSeq l => length l = n /\ conforms_list opt e l | _ => False end.
Proof. reflexivity. Qed.
Lemma bin_enc_tuple_eq n e v : bin_enc (STuple n e) v =
  match v with VSeq l => if Nat.eqb (length l) n then bin_enc_list e l else None | _ => None end.
Proof. reflexivity. Qed.
Lemma bin_dec_tuple_eq n e bs : bin_dec (STuple n e) bs =
  omap (fun p => (VSeq (fst p), snd p)) (bin_dec_list e n bs).
Proof. reflexivity. Qed.
Lemma json_enc_tuple_eq n e v : json_enc (STuple n e) v =
  match v with VSeq l => if Nat.eqb (length l) n then omap JArr (json_enc_list e l) else None | _ => None end.
Proof. reflexivity. Qed.
Lemma json_dec_tuple_eq n e j : json_dec (STuple n e) j =
  match j with JArr l => if Nat.eqb (length l) n then omap VSeq (json_dec_list e l) else None | _ => None end.
Proof. reflexivity. Qed.

Lemma in_range_bounds p z : in_range p z = true ->
  exists lo hi, prim_range p = Some (lo, hi) /\ (lo <= z < hi)%Z.
Proof.
  unfold in_range. destruct (prim_range p) as [[lo hi]|]; [|discriminate].
  intros H. apply andb_true_iff in H. destruct H as [H1 H2].
  apply Z.leb_le in H1. apply Z.ltb_lt in H2. eauto.
Qed.

Lemma bin_prim_roundtrip : forall p v rest, prim_eqb p POther = false -> prim_conforms p v ->
  exists b, bin_enc_prim p v = Some b /\ bin_dec_prim p (b ++ rest) = Some (v, rest).
Proof.
  intros p v rest Hp Hc. destruct v as [z|b| | |]; try contradiction.
  - cbn [prim_conforms] in Hc. pose proof (in_range_bounds _ _ Hc) as (lo & hi & Hr & Hb).
    destruct p; try discriminate; unfold prim_range in Hr; injection Hr as <- <-;
      unfold bin_enc_prim; rewrite Hc; eexists; (split; [reflexivity|]); unfold bin_dec_prim.
    + cbn [app]. rewrite Z2N.id by lia. reflexivity.
    + rewrite read_varint_varint by (cbn [signed]; lia). cbn [signed]. rewrite Z2N.id by lia. rewrite Hc. reflexivity.
    + rewrite read_varint_varint by (cbn [signed]; lia). cbn [signed]. rewrite Z2N.id by lia. rewrite Hc. reflexivity.
    + rewrite read_varint_varint by (cbn [signed]; lia). cbn [signed]. rewrite Z2N.id by lia. rewrite Hc. reflexivity.
    + cbn [app]. f_equal. f_equal. f_equal.
      destruct (Z.to_N (z mod 256) <? 128)%N eqn:E; [apply N.ltb_lt in E|apply N.ltb_ge in E];
        rewrite Z2N.id in * by (apply Z.mod_pos_bound; lia).
      * assert (H: (Z.to_N (z mod 256) < 128)%N) by assumption. clear E. 
        pose proof (Z.mod_pos_bound z 256 ltac:(lia)).
        assert (z mod 256 < 128)%Z by lia.
        pose proof (Z.div_mod z 256 ltac:(lia)). lia.
      * pose proof (Z.mod_pos_bound z 256 ltac:(lia)).
        assert (128 <= z mod 256)%Z by lia.
        pose proof (Z.div_mod z 256 ltac:(lia)). lia.
    + cbn [signed]. destruct (unzigzag_zigzag z ltac:(lia)) as [U1 U2].
      rewrite read_varint_varint by assumption. rewrite U1, Hc. reflexivity.
    + cbn [signed]. destruct (unzigzag_zigzag z ltac:(lia)) as [U1 U2].
      rewrite read_varint_varint by assumption. rewrite U1, Hc. reflexivity.
    + cbn [signed]. destruct (unzigzag_zigzag z ltac:(lia)) as [U1 U2].
      rewrite read_varint_varint by assumption. rewrite U1, Hc. reflexivity.
  - cbn [prim_conforms] in Hc. destruct Hc as (-> & Hok & Hlen).
    unfold bin_enc_prim. eexists; split; [reflexivity|]. unfold bin_dec_prim.
    rewrite <- app_assoc. rewrite read_varint_varint by lia.
    replace (N.of_nat (length (b ++ rest)) <? N.of_nat (length b))%N with false.
    2:{ symmetry. apply N.ltb_ge. rewrite app_length. lia. }
    rewrite Nat2N.id, firstn_length_app, skipn_length_app. reflexivity.
Qed.

Lemma conforms_variant_lt opt vs : forall k p, conforms_variant opt vs k p -> (k < variants_len vs)%nat.
Proof.
  induction vs as [|vn kd r IH]; intros k p H; cbn [conforms_variant] in H; [contradiction|].
  cbn [variants_len]. destruct k; [lia|]. apply IH in H. lia.
Qed.

Lemma bin_list_roundtrip e :
  (forall v, conforms false e v -> forall rest,
     exists b, bin_enc e v = Some b /\ bin_dec e (b ++ rest) = Some (v, rest)) ->
  forall l, conforms_list false e l -> forall rest,
  exists b, bin_enc_list e l = Some b /\ bin_dec_list e (length l) (b ++ rest) = Some (l, rest).
Proof.
  intros IH l. induction l as [|x r IHl]; intros Hc rest.
  - exists []. split; reflexivity.
  - destruct Hc as [Hx Hr]. destruct (IHl Hr rest) as (b2 & E2 & D2).
    destruct (IH x Hx (b2 ++ rest)) as (b1 & E1 & D1).
    exists (b1 ++ b2). cbn [bin_enc_list length bin_dec_list]. rewrite E1, E2. split; [reflexivity|].
    rewrite <- app_assoc, D1, D2. reflexivity.
Qed.

Lemma bin_roundtrip_mut :
  (forall s, schema_names_wf s = true -> shape_smallb s = true -> forall v, conforms false s v -> forall rest,
     exists b, bin_enc s v = Some b /\ bin_dec s (b ++ rest) = Some (v, rest)) /\
  (forall fs, fields_wf fs = true -> fields_smallb fs = true -> forall l, conforms_fields false fs l -> forall rest,
     exists b, bin_enc_fields fs l = Some b /\ bin_dec_fields fs (b ++ rest) = Some (l, rest)) /\
  (forall vs, variants_wf vs = true -> variants_smallb vs = true -> forall k p, conforms_variant false vs k p -> forall rest,
     exists b, bin_enc_variant vs k p = Some b /\ bin_dec_variant vs k (b ++ rest) = Some (p, rest)) /\
  (forall kd, vkind_wf kd = true -> vkind_smallb kd = true -> forall p, conforms_vkind false kd p -> forall rest,
     exists b, bin_enc_vkind kd p = Some b /\ bin_dec_vkind kd (b ++ rest) = Some (p, rest)).
Proof.
  apply shape_mutind.
  - (* SPrim *) intros ser de Hwf _ v Hc rest. cbn [schema_names_wf] in Hwf.
    apply andb_true_iff in Hwf. destruct Hwf as [He Hn]. apply negb_true_iff in Hn.
    assert (de = ser) as -> by (destruct ser, de; try discriminate; reflexivity).
    cbn [bin_enc bin_dec conforms] in *. now apply bin_prim_roundtrip.
  - (* STuple *) intros n e IH Hwf Hsm v Hc rest. cbn [schema_names_wf shape_smallb] in *.
    rewrite conforms_tuple_eq in Hc. destruct v; try contradiction. destruct Hc as [Hl Hc].
    rewrite bin_enc_tuple_eq. subst n. rewrite Nat.eqb_refl.
    destruct (bin_list_roundtrip e (IH Hwf Hsm) l Hc rest) as (b & E & D).
    exists b. split; [assumption|]. rewrite bin_dec_tuple_eq, D. reflexivity.
  - (* SNewtype *) intros name s IH Hwf Hsm v Hc rest. cbn [schema_names_wf shape_smallb conforms bin_enc bin_dec] in *. auto.
  - (* SStruct *) intros name fs IH Hwf Hsm v Hc rest. cbn [schema_names_wf shape_smallb conforms bin_enc bin_dec] in *.
    apply andb_true_iff in Hwf. destruct Hwf as [_ Hwf].
    destruct v; try contradiction.
    destruct (IH Hwf Hsm l Hc rest) as (b & E & D). exists b. split; [assumption|]. rewrite D. reflexivity.
  - (* SEnum *) intros name vs IH Hwf Hsm v Hc rest. cbn [schema_names_wf shape_smallb conforms bin_enc bin_dec] in *.
    apply andb_true_iff in Hwf. destruct Hwf as [_ Hwf].
    apply andb_true_iff in Hsm. destruct Hsm as [Hlen Hsm]. apply N.leb_le in Hlen.
    destruct v; try contradiction.
    pose proof (conforms_variant_lt _ _ _ _ Hc) as Hlt.
    destruct (IH Hwf Hsm idx v Hc rest) as (b & E & D).
    exists (varint (N.of_nat idx) ++ b). rewrite E. split; [reflexivity|].
    rewrite <- app_assoc, read_varint_varint by lia.
    replace (N.of_nat idx <? 4294967296)%N with true by (symmetry; apply N.ltb_lt; lia).
    rewrite Nat2N.id, D. reflexivity.
  - (* SBad *) intros why Hwf. discriminate.
  - (* FNil *) intros _ _ l Hc rest. destruct l; [|contradiction]. exists []. split; reflexivity.
  - (* FCons *) intros fname d s IHs r IHr Hwf Hsm l Hc rest.
    cbn [fields_wf fields_smallb conforms_fields bin_enc_fields bin_dec_fields] in *.
    apply andb_true_iff in Hwf. destruct Hwf as [Hwf1 Hwf2].
    apply andb_true_iff in Hsm. destruct Hsm as [Hsm1 Hsm2].
    destruct l as [|v l]; [contradiction|]. destruct Hc as [[[Hx _]|Hc1] Hc2]; [discriminate|].
    destruct (IHr Hwf2 Hsm2 l Hc2 rest) as (b2 & E2 & D2).
    destruct (IHs Hwf1 Hsm1 v Hc1 (b2 ++ rest)) as (b1 & E1 & D1).
    exists (b1 ++ b2). rewrite E1, E2. split; [reflexivity|].
    rewrite <- app_assoc, D1, D2. reflexivity.
  - (* VNil *) intros _ _ k p Hc. contradiction.
  - (* VCons *) intros vname kd IHk r IHr Hwf Hsm k p Hc rest.
    cbn [variants_wf variants_smallb conforms_variant bin_enc_variant bin_dec_variant] in *.
    apply andb_true_iff in Hwf. destruct Hwf as [Hwf1 Hwf2].
    apply andb_true_iff in Hsm. destruct Hsm as [Hsm1 Hsm2].
    destruct k; auto.
  - (* VkUnit *) intros _ _ p Hc rest. cbn [conforms_vkind] in Hc. subst p. exists []. split; reflexivity.
  - (* VkNewtype *) intros s IH Hwf Hsm p Hc rest. cbn [vkind_wf vkind_smallb conforms_vkind bin_enc_vkind bin_dec_vkind] in *. auto.
  - (* VkStruct *) intros fs IH Hwf Hsm p Hc rest. cbn [vkind_wf vkind_smallb conforms_vkind bin_enc_vkind bin_dec_vkind] in *.
    apply andb_true_iff in Hwf. destruct Hwf as [_ Hwf].
    destruct p; try contradiction.
    destruct (IH Hwf Hsm l Hc rest) as (b & E & D). exists b. split; [assumption|]. rewrite D. reflexivity.
Qed.

Theorem bin_roundtrip_generic : forall s, schema_names_wf s = true -> shape_small s ->
  forall v, conforms false s v -> forall rest,
  exists b, bin_enc s v = Some b /\ bin_dec s (b ++ rest) = Some (v, rest).
Proof. exact (proj1 bin_roundtrip_mut). Qed.

Lemma conforms_not_default opt s : ~ conforms opt s VDefault.
Proof. induction s; cbn [conforms prim_conforms]; auto. Qed.

Lemma list_eqb_N_true a : forall b, list_eqb N.eqb a b = true <-> a = b.
Proof.
  induction a as [|x a IH]; intros [|y b]; cbn [list_eqb]; split; intros H; try discriminate; try reflexivity.
  - apply andb_true_iff in H. destruct H as [H1 H2]. apply N.eqb_eq in H1. apply IH in H2. congruence.
  - injection H as -> ->. rewrite N.eqb_refl. cbn. now apply IH.
Qed.

Lemma N_of_ascii_inj a b : N_of_ascii a = N_of_ascii b -> a = b.
Proof. intros H. rewrite <- (ascii_N_embedding a), <- (ascii_N_embedding b). now rewrite H. Qed.

Lemma map_inj {A B} (f : A -> B) (Hf : forall a b, f a = f b -> a = b) :
  forall l l', map f l = map f l' -> l = l'.
Proof.
  induction l as [|x l IH]; intros [|y l'] H; try discriminate; [reflexivity|].
  cbn in H. injection H as H1 H2. f_equal; auto.
Qed.

Lemma sbytes_inj a b : sbytes a = sbytes b -> a = b.
Proof.
  unfold sbytes. intros H. apply (map_inj _ N_of_ascii_inj) in H.
  rewrite <- (string_of_list_ascii_of_string a), <- (string_of_list_ascii_of_string b). now rewrite H.
Qed.

Lemma sbytes_eqb_refl a : list_eqb N.eqb (sbytes a) (sbytes a) = true.
Proof. now apply list_eqb_N_true. Qed.
Lemma sbytes_eqb_neq a b : String.eqb a b = false -> list_eqb N.eqb (sbytes a) (sbytes b) = false.
Proof.
  intros H. destruct (list_eqb N.eqb (sbytes a) (sbytes b)) eqn:E; [|reflexivity].
  apply list_eqb_N_true, sbytes_inj in E. subst. now rewrite String.eqb_refl in H.
Qed.

Lemma existsb_neq a x l :
  existsb (String.eqb a) l = false -> existsb (String.eqb x) l = true -> String.eqb a x = false.
Proof.
  intros H1 H2. destruct (String.eqb a x) eqn:E; [|reflexivity].
  apply String.eqb_eq in E. subst. congruence.
Qed.

Lemma lookup_all_cons x name j ms :
  lookup_all x ((name, j) :: ms) = (if String.eqb name x then [j] else []) ++ lookup_all x ms.
Proof. unfold lookup_all. cbn [filter fst]. destruct (String.eqb name x); reflexivity. Qed.

Definition jsplit (j : jv) : option (bytes * option jv) :=
  match j with
  | JStr n => Some (n, None)
  | JObj [(name, pl)] => Some (sbytes name, Some pl)
  | _ => None
  end.

Lemma json_dec_enum_eq name vs j : json_dec (SEnum name vs) j =
  match jsplit j with Some (nm, pl) => json_dec_variant vs nm 0 pl | None => None end.
Proof. destruct j; try reflexivity. destruct m as [|[a b] [|]]; reflexivity. Qed.

Lemma json_list_roundtrip e :
  (forall v, conforms true e v -> exists j, json_enc e v = Some j /\ json_dec e j = Some v) ->
  forall l, conforms_list true e l ->
  exists js, json_enc_list e l = Some js /\ json_dec_list e js = Some l /\ length js = length l.
Proof.
  intros IH l. induction l as [|x r IHl]; intros Hc.
  - exists []. repeat split.
  - destruct Hc as [Hx Hr]. destruct (IHl Hr) as (js & E2 & D2 & L2).
    destruct (IH x Hx) as (j & E1 & D1).
    exists (j :: js). cbn [json_enc_list json_dec_list length]. rewrite E1, E2, D1, D2, L2. repeat split.
Qed.

Definition inb (x : string) (l : list string) : bool := existsb (String.eqb x) l.

Lemma json_roundtrip_mut :
  (forall s, schema_names_wf s = true -> forall v, conforms true s v ->
     exists j, json_enc s v = Some j /\ json_dec s j = Some v) /\
  (forall fs, fields_wf fs = true -> nodupb (field_names fs) = true ->
     forall l, conforms_fields true fs l ->
     exists ms, json_enc_fields fs l = Some ms /\
       (forall x, inb x (field_names fs) = false -> lookup_all x ms = []) /\
       (forall m, (forall x, inb x (field_names fs) = true -> lookup_all x m = lookup_all x ms) ->
                  json_dec_fields fs m = Some l)) /\
  (forall vs, variants_wf vs = true -> nodupb (variant_names vs) = true ->
     forall k p, conforms_variant true vs k p ->
     exists j vname pl, json_enc_variant vs k p = Some j /\ jsplit j = Some (sbytes vname, pl) /\
       inb vname (variant_names vs) = true /\
       forall k0, json_dec_variant vs (sbytes vname) k0 pl = Some (VVar (k0 + k) p)) /\
  (forall kd, vkind_wf kd = true -> forall vname p, conforms_vkind true kd p ->
     exists j pl, json_enc_vkind kd vname p = Some j /\ jsplit j = Some (sbytes vname, pl) /\
       json_dec_vkind kd pl = Some p).
Proof.
  apply shape_mutind.
  - (* SPrim *) intros ser de Hwf v Hc. cbn [schema_names_wf] in Hwf.
    apply andb_true_iff in Hwf. destruct Hwf as [He Hn]. apply negb_true_iff in Hn.
    assert (de = ser) as -> by (destruct ser, de; try discriminate; reflexivity).
    cbn [json_enc json_dec conforms] in *.
    destruct v as [z|b| | |]; try contradiction; cbn [prim_conforms] in Hc.
    + exists (JNum z). unfold json_enc_prim, json_dec_prim. rewrite Hc.
      destruct ser; try discriminate; split; reflexivity.
    + destruct Hc as (-> & _). exists (JStr b). split; reflexivity.
  - (* STuple *) intros n e IH Hwf v Hc. cbn [schema_names_wf] in Hwf.
    rewrite conforms_tuple_eq in Hc. destruct v; try contradiction. destruct Hc as [Hl Hc].
    rewrite json_enc_tuple_eq. subst n. rewrite Nat.eqb_refl.
    destruct (json_list_roundtrip e (IH Hwf) l Hc) as (js & E & D & L).
    exists (JArr js). rewrite E. split; [reflexivity|].
    rewrite json_dec_tuple_eq, L, Nat.eqb_refl, D. reflexivity.
  - (* SNewtype *) intros name s IH Hwf v Hc. cbn [schema_names_wf conforms json_enc json_dec] in *. auto.
  - (* SStruct *) intros name fs IH Hwf v Hc. cbn [schema_names_wf conforms json_enc json_dec] in *.
    apply andb_true_iff in Hwf. destruct Hwf as [Hnd Hwf].
    destruct v; try contradiction.
    destruct (IH Hwf Hnd l Hc) as (ms & E & K & D). exists (JObj ms). rewrite E. split; [reflexivity|].
    rewrite (D ms) by reflexivity. reflexivity.
  - (* SEnum *) intros name vs IH Hwf v Hc. cbn [schema_names_wf conforms json_enc] in *.
    apply andb_true_iff in Hwf. destruct Hwf as [Hnd Hwf].
    destruct v; try contradiction.
    destruct (IH Hwf Hnd idx v Hc) as (j & vname & pl & E & Sp & _ & D).
    exists j. split; [assumption|]. rewrite json_dec_enum_eq, Sp. apply (D 0%nat).
  - (* SBad *) intros why Hwf. discriminate.
  - (* FNil *) intros _ _ l Hc. destruct l; [|contradiction]. exists []. repeat split.
  - (* FCons *) intros fname d s IHs r IHr Hwf Hnd l Hc.
    cbn [fields_wf field_names nodupb conforms_fields json_enc_fields json_dec_fields] in *.
    apply andb_true_iff in Hwf. destruct Hwf as [Hwf1 Hwf2].
    apply andb_true_iff in Hnd. destruct Hnd as [Hnd1 Hnd2]. apply negb_true_iff in Hnd1.
    destruct l as [|v l]; [contradiction|]. destruct Hc as [Hc1 Hc2].
    destruct (IHr Hwf2 Hnd2 l Hc2) as (ms & E2 & K2 & D2).
    assert (Hsub: forall m, (forall x, inb x (fname :: field_names r) = true -> lookup_all x m = lookup_all x ms) ->
                  forall x, inb x (field_names r) = true -> lookup_all x m = lookup_all x ms).
    { intros m Hm x Hx. apply Hm. unfold inb in *. cbn [existsb]. rewrite Hx. apply orb_true_r. }
    assert (Hself: inb fname (fname :: field_names r) = true).
    { unfold inb. cbn [existsb]. now rewrite String.eqb_refl. }
    destruct (d && is_default v) eqn:Edv.
    + apply andb_true_iff in Edv. destruct Edv as [-> Hv]. destruct v; try discriminate.
      exists ms. split; [assumption|]. split.
      * intros x Hx. apply K2. unfold inb in *. cbn [existsb] in Hx. now apply orb_false_iff in Hx.
      * intros m Hm. rewrite (Hm fname Hself), (K2 fname Hnd1). rewrite (D2 m (Hsub m Hm)). reflexivity.
    + assert (Hcv: conforms true s v).
      { destruct Hc1 as [[Hd ->]|Hc1]; [|assumption]. cbn [andb is_default] in *. rewrite Hd in Edv. discriminate. }
      destruct (IHs Hwf1 v Hcv) as (j & E1 & D1).
      exists ((fname, j) :: ms). rewrite E1, E2. split; [reflexivity|]. split.
      * intros x Hx. unfold inb in Hx. cbn [existsb] in Hx. apply orb_false_iff in Hx. destruct Hx as [Hx1 Hx2].
        rewrite lookup_all_cons, String.eqb_sym, Hx1. now apply K2.
      * intros m Hm. rewrite (Hm fname Hself), lookup_all_cons, String.eqb_refl, (K2 fname Hnd1).
        cbn [app]. rewrite D1. rewrite (D2 m); [reflexivity|].
        intros x Hx. rewrite Hm by (unfold inb in *; cbn [existsb]; rewrite Hx; apply orb_true_r).
        rewrite lookup_all_cons, (existsb_neq fname x (field_names r) Hnd1 Hx). reflexivity.
  - (* VNil *) intros _ _ k p Hc. contradiction.
  - (* VCons *) intros vn kd IHk r IHr Hwf Hnd k p Hc.
    cbn [variants_wf variant_names nodupb conforms_variant json_enc_variant json_dec_variant] in *.
    apply andb_true_iff in Hwf. destruct Hwf as [Hwf1 Hwf2].
    apply andb_true_iff in Hnd. destruct Hnd as [Hnd1 Hnd2]. apply negb_true_iff in Hnd1.
    destruct k as [|k].
    + destruct (IHk Hwf1 vn p Hc) as (j & pl & E & Sp & D).
      exists j, vn, pl. split; [assumption|]. split; [assumption|]. split.
      * unfold inb. cbn [existsb]. now rewrite String.eqb_refl.
      * intros k0. rewrite sbytes_eqb_refl, D, Nat.add_0_r. reflexivity.
    + destruct (IHr Hwf2 Hnd2 k p Hc) as (j & vname & pl & E & Sp & I & D).
      exists j, vname, pl. split; [assumption|]. split; [assumption|]. split.
      * unfold inb in *. cbn [existsb]. rewrite I. apply orb_true_r.
      * intros k0. rewrite (sbytes_eqb_neq vn vname (existsb_neq vn vname _ Hnd1 I)).
        rewrite D. now rewrite Nat.add_succ_r.
  - (* VkUnit *) intros _ vname p Hc. cbn [conforms_vkind] in Hc. subst p.
    exists (JStr (sbytes vname)), None. repeat split.
  - (* VkNewtype *) intros s IH Hwf vname p Hc. cbn [vkind_wf conforms_vkind json_enc_vkind json_dec_vkind] in *.
    destruct (IH Hwf p Hc) as (j & E & D). exists (JObj [(vname, j)]), (Some j). rewrite E. repeat split. assumption.
  - (* VkStruct *) intros fs IH Hwf vname p Hc. cbn [vkind_wf conforms_vkind json_enc_vkind json_dec_vkind] in *.
    apply andb_true_iff in Hwf. destruct Hwf as [Hnd Hwf].
    destruct p; try contradiction.
    destruct (IH Hwf Hnd l Hc) as (ms & E & K & D).
    exists (JObj [(vname, JObj ms)]), (Some (JObj ms)). rewrite E. repeat split.
    rewrite (D ms) by reflexivity. reflexivity.
Qed.

Theorem json_roundtrip_generic : forall s, schema_names_wf s = true ->
  forall v, conforms true s v ->
  exists j, json_enc s v = Some j /\ json_dec s j = Some v.
Proof. exact (proj1 json_roundtrip_mut). Qed.

(* ------------------------------------------------------------------------------------------ *)
(* the protocol messages *)
Lemma shapes_wf : schema_names_wf client_message_shape = true /\ schema_names_wf response_shape = true.
Proof. split; vm_compute; reflexivity. Qed.
Lemma shapes_small : shape_small client_message_shape /\ shape_small response_shape.
Proof. split; vm_compute; reflexivity. Qed.
Lemma trace_shape_wf : schema_names_wf trace_shape = true.
Proof. vm_compute; reflexivity. Qed.

Lemma in_range_u8 n : (n < 256)%N -> in_range PU8 (Z.of_N n) = true.
Proof. intros H. unfold in_range, prim_range. apply andb_true_iff. split; [apply Z.leb_le|apply Z.ltb_lt]; lia. Qed.
Lemma in_range_u32 n : (n < 4294967296)%N -> in_range PU32 (Z.of_N n) = true.
Proof. intros H. unfold in_range, prim_range. apply andb_true_iff. split; [apply Z.leb_le|apply Z.ltb_lt]; lia. Qed.
Lemma in_range_u64 n : (n < u64_max1)%N -> in_range PU64 (Z.of_N n) = true.
Proof. unfold u64_max1. intros H. unfold in_range, prim_range. apply andb_true_iff. split; [apply Z.leb_le|apply Z.ltb_lt]; lia. Qed.

Lemma conf_u64 opt n : (n < u64_max1)%N -> conforms opt u64_leaf (vnat n).
Proof. intros H. apply in_range_u64, H. Qed.
Lemma conf_u32 opt n : (n < 4294967296)%N -> conforms opt u32_leaf (vnat n).
Proof. intros H. apply in_range_u32, H. Qed.
Lemma conf_body opt b : body_wf b -> conforms opt body_shape (VStr b).
Proof. intros [H1 H2]. unfold u64_max1 in H2. cbn. repeat split; [assumption|lia]. Qed.

Lemma conf_bytes opt l : bytes_ok l = true -> conforms_list opt u8_leaf (map vnat l).
Proof.
  induction l as [|b l IH]; cbn [bytes_ok forallb map conforms_list]; [trivial|].
  intros H. apply andb_true_iff in H. destruct H as [H1 H2]. split; [|now apply IH].
  apply in_range_u8. now apply N.ltb_lt.
Qed.

Lemma conf_traceid opt n :
  conforms opt (SNewtype "TraceId" (STuple 16 u8_leaf)) (VSeq (map vnat (le_bytes 16 n))).
Proof.
  change (length (map vnat (le_bytes 16 n)) = 16%nat /\ conforms_list opt u8_leaf (map vnat (le_bytes 16 n))).
  split; [now rewrite map_length, le_bytes_length|]. apply conf_bytes, le_bytes_ok.
Qed.

Lemma conf_trace opt t : trace_wf t -> conforms opt trace_shape (trace_to_val t).
Proof.
  intros [H1 H2]. unfold trace_shape, trace_to_val. cbn [conforms conforms_fields].
  split; [right|split; [right|split;[right|exact I]]].
  - exact (conf_traceid opt _).
  - now apply conf_u64.
  - destruct (t_sampled t); cbn; reflexivity.
Qed.

Lemma conf_deadline opt s n : (s < u64_max1)%N -> (n < nanos_per_sec)%N ->
  conforms opt duration_shape (VSeq [vnat s; vnat n]).
Proof.
  intros H1 H2. unfold duration_shape. cbn [conforms conforms_fields].
  split; [right; now apply conf_u64|split; [right|exact I]].
  apply conf_u32. unfold nanos_per_sec in H2. lia.
Qed.

Lemma cm_conforms : forall m, cm_wf m ->
  conforms true client_message_shape (cm_to_val m) /\
  (explicit m -> conforms false client_message_shape (cm_to_val m)).
Proof.
  intros [r|t id] Hwf; unfold client_message_shape, cm_to_val;
    cbn [conforms conforms_variant conforms_vkind conforms_fields].
  - destruct Hwf as (Hd & Ht & Hid & Hb). unfold request_shape, request_to_val.
    cbn [conforms conforms_fields]. unfold context_shape, context_to_val. cbn [conforms conforms_fields].
    split.
    + split; [right|split; [right; now apply conf_u64|split; [right; now apply conf_body|exact I]]].
      split; [|split; [right; now apply conf_trace|exact I]].
      destruct (c_deadline (r_ctx r)) as [s n|]; cbn [deadline_to_val].
      * right. destruct Hd. now apply conf_deadline.
      * left. split; reflexivity.
    + intros He. unfold explicit in He.
      split; [right|split; [right; now apply conf_u64|split; [right; now apply conf_body|exact I]]].
      split; [|split; [right; now apply conf_trace|exact I]].
      destruct (c_deadline (r_ctx r)) as [s n|]; cbn [deadline_to_val].
      * right. destruct Hd. now apply conf_deadline.
      * exfalso. now apply He.
  - destruct Hwf as [Ht Hid]. split; [|intros _];
      (split; [right; now apply conf_trace|split; [right; now apply conf_u64|exact I]]).
Qed.

Lemma kind_code_lt k : (kind_code k < 18)%N.
Proof. destruct k; vm_compute; reflexivity. Qed.

Lemma resp_conforms : forall r, resp_wf r -> conforms false response_shape (resp_to_val r).
Proof.
  intros [id msg] [Hid Hm]. cbn [resp_id resp_msg] in *. unfold response_shape, resp_to_val.
  cbn [conforms conforms_fields resp_id resp_msg].
  split; [right; now apply conf_u64|split; [right|exact I]].
  destruct msg as [b|e]; cbn [conforms_variant conforms_vkind].
  - now apply conf_body.
  - unfold server_error_shape, error_to_val. cbn [conforms conforms_fields].
    split; [right|split; [right; now apply conf_body|exact I]].
    apply in_range_u32. pose proof (kind_code_lt (e_kind e)). lia.
Qed.

Lemma conforms_list_false_true e :
  (forall v, conforms false e v -> conforms true e v) ->
  forall l, conforms_list false e l -> conforms_list true e l.
Proof. intros IH. induction l; cbn [conforms_list]; [trivial|]. intros [H1 H2]. split; auto. Qed.

Lemma conforms_false_true_mut :
  (forall s v, conforms false s v -> conforms true s v) /\
  (forall fs l, conforms_fields false fs l -> conforms_fields true fs l) /\
  (forall vs k p, conforms_variant false vs k p -> conforms_variant true vs k p) /\
  (forall kd p, conforms_vkind false kd p -> conforms_vkind true kd p).
Proof.
  apply shape_mutind.
  - intros ser de v H. exact H.
  - intros n e IH v. rewrite !conforms_tuple_eq. destruct v; auto. intros [H1 H2]. split; [assumption|].
    now apply conforms_list_false_true.
  - intros name s IH v H. cbn [conforms] in *. auto.
  - intros name fs IH v H. cbn [conforms] in *. destruct v; auto.
  - intros name vs IH v H. cbn [conforms] in *. destruct v; auto.
  - intros why v H. exact H.
  - intros l H. exact H.
  - intros fname d s IHs r IHr l H. cbn [conforms_fields] in *. destruct l; auto.
    destruct H as [[[H _]|H1] H2]; [discriminate|]. split; auto.
  - intros k p H. exact H.
  - intros vn kd IHk r IHr k p H. cbn [conforms_variant] in *. destruct k; auto.
  - intros p H. exact H.
  - intros s IH p H. cbn [conforms_vkind] in *. auto.
  - intros fs IH p H. cbn [conforms_vkind] in *. destruct p; auto.
Qed.

Lemma conforms_false_true : forall s v, conforms false s v -> conforms true s v.
Proof. exact (proj1 conforms_false_true_mut). Qed.

Lemma nat_of_vnat n : nat_of (vnat n) = Some n.
Proof.
  unfold nat_of, vnat. replace (0 <=? Z.of_N n)%Z with true by (symmetry; apply Z.leb_le; lia).
  now rewrite N2Z.id.
Qed.
Lemma nats_of_map_vnat l : nats_of (map vnat l) = Some l.
Proof. induction l; cbn [map nats_of]; [reflexivity|]. now rewrite nat_of_vnat, IHl. Qed.

Lemma trace_of_val_to_val t : trace_wf t -> trace_of_val (trace_to_val t) = Some t.
Proof.
  intros [H1 H2]. unfold trace_of_val, trace_to_val.
  rewrite nats_of_map_vnat. cbn [obind]. rewrite nat_of_vnat. cbn [obind].
  rewrite le_bytes_length. change (Nat.eqb 16 16) with true. cbv iota.
  rewrite le_val_le_bytes by (change (256 ^ N.of_nat 16)%N with u128_max1; assumption).
  destruct t as [tr sp []]; reflexivity.
Qed.

Lemma deadline_of_val_to_val d : deadline_wf d -> deadline_of_val (deadline_to_val d) = Some d.
Proof.
  destruct d as [s n|]; [|reflexivity]. intros [H1 H2].
  unfold deadline_to_val, deadline_of_val. rewrite !nat_of_vnat. cbn [obind].
  rewrite N.div_small, N.mod_small, N.add_0_r by assumption.
  apply N.ltb_lt in H1. rewrite H1. reflexivity.
Qed.

Lemma cm_of_val_to_val : forall m, cm_wf m -> cm_of_val (cm_to_val m) = Some m.
Proof.
  intros [r|t id] Hwf; unfold cm_to_val, cm_of_val.
  - destruct Hwf as (Hd & Ht & Hid & Hb).
    unfold request_to_val, request_of_val, context_to_val, context_of_val.
    rewrite deadline_of_val_to_val by assumption. cbn [obind].
    rewrite trace_of_val_to_val by assumption. cbn [obind].
    rewrite nat_of_vnat. cbn [obind str_of omap].
    destruct r as [[d tc] i b]; reflexivity.
  - destruct Hwf as [Ht Hid].
    change (match trace_to_val t with VDefault => Some default_trace | _ => trace_of_val (trace_to_val t) end)
      with (trace_of_val (trace_to_val t)).
    rewrite trace_of_val_to_val by assumption. cbn [obind]. rewrite nat_of_vnat. reflexivity.
Qed.

Lemma kind_of_code_kind_code k : kind_of_code (kind_code k) = degrade_kind k.
Proof. destruct k; vm_compute; reflexivity. Qed.

Lemma resp_of_val_to_val : forall r, resp_wf r -> resp_of_val (resp_to_val r) = Some (degrade_resp r).
Proof.
  intros [id msg] _. unfold resp_to_val, resp_of_val, degrade_resp. cbn [resp_id resp_msg].
  rewrite nat_of_vnat. cbn [obind]. destruct msg as [b|e].
  - reflexivity.
  - unfold error_to_val, error_of_val. rewrite nat_of_vnat. cbn [obind str_of].
    rewrite kind_of_code_kind_code. reflexivity.
Qed.

Theorem kinds_degrade_holds :
  (forall c, (c < 18)%N -> kind_code (kind_of_code c) = c /\ portable (kind_of_code c) = true) /\
  (forall k, kind_of_code (kind_code k) = degrade_kind k) /\
  (forall c, (18 <= c)%N -> kind_of_code c = Other) /\
  (forall k, portable k = false -> kind_code k = 16%N /\ degrade_kind k = Other) /\
  (forall k, portable k = true -> degrade_kind k = k).
Proof.
  split; [|split; [|split; [|split]]].
  - intros c H.
    assert (c = 0 \/ c = 1 \/ c = 2 \/ c = 3 \/ c = 4 \/ c = 5 \/ c = 6 \/ c = 7 \/ c = 8 \/ c = 9 \/
            c = 10 \/ c = 11 \/ c = 12 \/ c = 13 \/ c = 14 \/ c = 15 \/ c = 16 \/ c = 17)%N as Hc by lia.
    repeat (destruct Hc as [->|Hc]; [split; vm_compute; reflexivity|]). subst c. split; vm_compute; reflexivity.
  - exact kind_of_code_kind_code.
  - intros c H. unfold kind_of_code, kind_de_table. cbn [find fst snd].
    repeat match goal with |- context [N.eqb ?a c] =>
      replace (N.eqb a c) with false by (symmetry; apply N.eqb_neq; lia) end.
    reflexivity.
  - intros k H. destruct k; try (vm_compute in H; discriminate). split; vm_compute; reflexivity.
  - intros k H. unfold degrade_kind. now rewrite H.
Qed.


Theorem bincode_roundtrip_cm : forall m, cm_wf m -> explicit m ->
  exists bs, cm_bincode m = Some bs /\ cm_of_bincode bs = Some m.
Proof.
  intros m Hwf He. destruct (cm_conforms m Hwf) as [_ Hc].
  destruct (bin_roundtrip_generic _ (proj1 shapes_wf) (proj1 shapes_small) _ (Hc He) []) as (b & E & D).
  exists b. split; [exact E|]. unfold cm_of_bincode, bin_decode.
  rewrite app_nil_r in D. rewrite D. cbn [obind]. now apply cm_of_val_to_val.
Qed.

Theorem bincode_roundtrip_resp : forall r, resp_wf r ->
  exists bs, resp_bincode r = Some bs /\ resp_of_bincode bs = Some (degrade_resp r).
Proof.
  intros r Hwf.
  destruct (bin_roundtrip_generic _ (proj2 shapes_wf) (proj2 shapes_small) _ (resp_conforms r Hwf) []) as (b & E & D).
  exists b. split; [exact E|]. unfold resp_of_bincode, bin_decode.
  rewrite app_nil_r in D. rewrite D. cbn [obind]. now apply resp_of_val_to_val.
Qed.

Theorem json_tree_roundtrip_cm : forall m, cm_wf m ->
  exists j, cm_json m = Some j /\ cm_of_json j = Some m.
Proof.
  intros m Hwf. destruct (cm_conforms m Hwf) as [Hc _].
  destruct (json_roundtrip_generic _ (proj1 shapes_wf) _ Hc) as (j & E & D).
  exists j. split; [exact E|]. unfold cm_of_json. rewrite D. cbn [obind]. now apply cm_of_val_to_val.
Qed.

Theorem json_tree_roundtrip_resp : forall r, resp_wf r ->
  exists j, resp_json r = Some j /\ resp_of_json j = Some (degrade_resp r).
Proof.
  intros r Hwf.
  destruct (json_roundtrip_generic _ (proj2 shapes_wf) _ (conforms_false_true _ _ (resp_conforms r Hwf))) as (j & E & D).
  exists j. split; [exact E|]. unfold resp_of_json. rewrite D. cbn [obind]. now apply resp_of_val_to_val.
Qed.

Lemma json_dec_u64 id : (id < u64_max1)%N -> json_dec u64_leaf (JNum (Z.of_N id)) = Some (vnat id).
Proof. intros H. cbn [json_dec u64_leaf]. unfold json_dec_prim. now rewrite in_range_u64. Qed.
Lemma json_enc_u64 id : (id < u64_max1)%N -> json_enc u64_leaf (vnat id) = Some (JNum (Z.of_N id)).
Proof. intros H. cbn [json_enc u64_leaf]. unfold json_enc_prim, vnat. now rewrite in_range_u64. Qed.

Theorem optional_cancel_trace : forall id, (id < u64_max1)%N ->
  cm_of_json (JObj [("Cancel"%string, JObj [("request_id"%string, JNum (Z.of_N id))])])
  = Some (CCancel default_trace id).
Proof.
  intros id H. unfold cm_of_json, client_message_shape.
  cbn -[u64_leaf trace_shape cm_of_val Z.of_N].
  rewrite json_dec_u64 by assumption. cbn [ocons omap obind]. unfold cm_of_val.
  rewrite nat_of_vnat. reflexivity.
Qed.

Theorem unknown_fields_ignored : forall id extra, (id < u64_max1)%N ->
  cm_of_json (JObj [("Cancel"%string, JObj [("zzz"%string, extra); ("request_id"%string, JNum (Z.of_N id))])])
  = Some (CCancel default_trace id).
Proof.
  intros id extra H. unfold cm_of_json, client_message_shape.
  cbn -[u64_leaf trace_shape cm_of_val Z.of_N].
  rewrite json_dec_u64 by assumption. cbn [ocons omap obind]. unfold cm_of_val.
  rewrite nat_of_vnat. reflexivity.
Qed.

Lemma trace_json t : trace_wf t ->
  exists jt, json_enc trace_shape (trace_to_val t) = Some jt /\ json_dec trace_shape jt = Some (trace_to_val t).
Proof. intros H. apply (json_roundtrip_generic _ trace_shape_wf), conf_trace, H. Qed.

Theorem optional_deadline : forall t id body, trace_wf t -> (id < u64_max1)%N -> body_wf body ->
  exists jt, json_enc trace_shape (trace_to_val t) = Some jt /\
  cm_of_json (JObj [("Request"%string,
                     JObj [("context"%string, JObj [("trace_context"%string, jt)]);
                           ("id"%string, JNum (Z.of_N id)); ("message"%string, JStr body)])])
  = Some (CRequest {| r_ctx := {| c_deadline := DlOmitted; c_trace := t |}; r_id := id; r_body := body |}).
Proof.
  intros t id body Ht Hid Hb. destruct (trace_json t Ht) as (jt & E & D). exists jt. split; [exact E|].
  unfold cm_of_json, client_message_shape, request_shape, context_shape.
  cbn -[u64_leaf trace_shape duration_shape cm_of_val Z.of_N].
  rewrite json_dec_u64 by assumption. rewrite D. cbn [ocons omap obind].
  unfold cm_of_val, request_of_val, context_of_val. cbn [omap obind deadline_of_val].
  rewrite trace_of_val_to_val by assumption. cbn [obind]. rewrite nat_of_vnat. reflexivity.
Qed.

Theorem omitted_deadline_tree : forall t id body, trace_wf t -> (id < u64_max1)%N -> body_wf body ->
  exists jt, json_enc trace_shape (trace_to_val t) = Some jt /\
  cm_json (CRequest {| r_ctx := {| c_deadline := DlOmitted; c_trace := t |}; r_id := id; r_body := body |})
  = Some (JObj [("Request"%string,
                 JObj [("context"%string, JObj [("trace_context"%string, jt)]);
                       ("id"%string, JNum (Z.of_N id)); ("message"%string, JStr body)])]).
Proof.
  intros t id body Ht Hid Hb. destruct (trace_json t Ht) as (jt & E & D). exists jt. split; [exact E|].
  unfold cm_json, cm_to_val, request_to_val, context_to_val, client_message_shape, request_shape, context_shape.
  cbn -[u64_leaf trace_shape duration_shape Z.of_N trace_to_val vnat].
  rewrite json_enc_u64 by assumption. rewrite E. reflexivity.
Qed.

Lemma kind_i32_refuted :
  schema_names_wf response_shape_prefix = false /\
  resp_roundtrip_bincode_prefix {| resp_id := 3; resp_msg := RErr {| e_kind := WouldBlock; e_detail := [] |} |}
  = Some {| resp_id := 3; resp_msg := RErr {| e_kind := Other; e_detail := [] |} |} /\
  resp_roundtrip_bincode_prefix {| resp_id := 3; resp_msg := RErr {| e_kind := PermissionDenied; e_detail := [] |} |}
  = Some {| resp_id := 3; resp_msg := RErr {| e_kind := ConnectionRefused; e_detail := [] |} |}.
Proof. repeat split; vm_compute; reflexivity. Qed.

(* ------------------------------------------------------------------------------------------ *)
(* why shape_small is needed *)
Fixpoint rep (k : nat) : string :=
  match k with O => EmptyString | S k' => String "a"%char (rep k') end.
Fixpoint mkvs (k : nat) : variants :=
  match k with O => VNil | S k' => VCons (rep k') VkUnit (mkvs k') end.

Lemma rep_length k : String.length (rep k) = k.
Proof. induction k; cbn [rep String.length]; congruence. Qed.
Lemma rep_neq a b : a <> b -> String.eqb (rep a) (rep b) = false.
Proof.
  intros H. apply String.eqb_neq. intros E. apply H.
  rewrite <- (rep_length a), <- (rep_length b). now rewrite E.
Qed.
Lemma mkvs_fresh k : forall j, (k <= j)%nat -> existsb (String.eqb (rep j)) (variant_names (mkvs k)) = false.
Proof.
  induction k; intros j H; cbn [mkvs variant_names existsb]; [reflexivity|].
  rewrite rep_neq by lia. rewrite IHk by lia. reflexivity.
Qed.
Lemma mkvs_nodup k : nodupb (variant_names (mkvs k)) = true.
Proof.
  induction k; cbn [mkvs variant_names nodupb]; [reflexivity|].
  rewrite mkvs_fresh by lia. rewrite IHk. reflexivity.
Qed.
Lemma mkvs_wf k : variants_wf (mkvs k) = true.
Proof. induction k; cbn [mkvs variants_wf vkind_wf]; [reflexivity|]. rewrite IHk. reflexivity. Qed.
Lemma mkvs_conforms opt k : forall i, (i < k)%nat -> conforms_variant opt (mkvs k) i (VSeq []).
Proof.
  induction k; intros i H; [lia|]. cbn [mkvs conforms_variant].
  destruct i; [reflexivity|]. apply IHk. lia.
Qed.
Lemma mkvs_enc k : forall i, (i < k)%nat -> bin_enc_variant (mkvs k) i (VSeq []) = Some [].
Proof.
  induction k; intros i H; [lia|]. cbn [mkvs bin_enc_variant].
  destruct i; [reflexivity|]. apply IHk. lia.
Qed.

Lemma needs_small_aux n : N.of_nat n = 4294967296%N ->
  exists s v, schema_names_wf s = true /\ conforms false s v /\
    exists b, bin_enc s v = Some b /\ bin_dec s (b ++ []) = None.
Proof.
  intros Hn. exists (SEnum EmptyString (mkvs (S n))), (VVar n (VSeq [])).
  split; [|split].
  - change (nodupb (variant_names (mkvs (S n))) && variants_wf (mkvs (S n)) = true).
    now rewrite mkvs_nodup, mkvs_wf.
  - change (conforms_variant false (mkvs (S n)) n (VSeq [])). apply mkvs_conforms. lia.
  - exists (varint (N.of_nat n) ++ []). split.
    + change (oapp (Some (varint (N.of_nat n))) (bin_enc_variant (mkvs (S n)) n (VSeq [])) = Some (varint (N.of_nat n) ++ [])).
      rewrite mkvs_enc by lia. reflexivity.
    + change (match read_varint ((varint (N.of_nat n) ++ []) ++ []) with
              | Some (m, r) => if (m <? 4294967296)%N then
                  omap (fun p => (VVar (N.to_nat m) (fst p), snd p)) (bin_dec_variant (mkvs (S n)) (N.to_nat m) r)
                  else None
              | None => None end = None).
      rewrite <- app_assoc, read_varint_varint by lia. rewrite Hn.
      replace (4294967296 <? 4294967296)%N with false by (symmetry; apply N.ltb_ge; lia). reflexivity.
Qed.

(* the generic bincode round trip does NOT follow from schema_names_wf alone: an enum with more than
   2^32 variants is well-formed, but its variant 2^32 is written as a varint that the u32 tag
   check of the decoder rejects *)
Theorem bin_roundtrip_generic_needs_small :
  ~ (forall s, schema_names_wf s = true -> forall v, conforms false s v -> forall rest,
       exists b, bin_enc s v = Some b /\ bin_dec s (b ++ rest) = Some (v, rest)).
Proof.
  intros H.
  destruct (needs_small_aux (N.to_nat 4294967296) (N2Nat.id _)) as (s & v & Hwf & Hc & b & E & D).
  destruct (H s Hwf v Hc []) as (b' & E' & D').
  rewrite E in E'. injection E' as <-. rewrite D in D'. discriminate.
Qed.

(* ------------------------------------------------------------------------------------------ *)
(* The round trips under the single side condition Wire.schema_wf (names/leaves well-formed and
   every enum small enough for a u32 tag): this is what GenChecks/C15.v demands of the shapes
   the translator derives from /repo. *)
Lemma schema_wf_split : forall s, schema_wf s = true -> schema_names_wf s = true /\ shape_small s.
Proof. intros s H. unfold schema_wf in H. apply andb_true_iff in H. exact H. Qed.

Theorem bin_roundtrip_schema : forall s, schema_wf s = true ->
  forall v, conforms false s v -> forall rest,
  exists b, bin_enc s v = Some b /\ bin_dec s (b ++ rest) = Some (v, rest).
Proof.
  intros s H v Hc rest. apply schema_wf_split in H. destruct H as [H1 H2].
  exact (bin_roundtrip_generic s H1 H2 v Hc rest).
Qed.

Theorem json_roundtrip_schema : forall s, schema_wf s = true ->
  forall v, conforms true s v ->
  exists j, json_enc s v = Some j /\ json_dec s j = Some v.
Proof.
  intros s H v Hc. apply schema_wf_split in H. destruct H as [H1 _].
  exact (json_roundtrip_generic s H1 v Hc).
Qed.

Lemma shapes_schema_wf : schema_wf client_message_shape = true /\ schema_wf response_shape = true.
Proof. split; vm_compute; reflexivity. Qed.

Lemma prefix_shape_not_wf : schema_wf response_shape_prefix = false.
Proof. vm_compute; reflexivity. Qed.
