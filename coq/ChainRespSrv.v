(* Chain proofs, response integrity, server side: where a response value can come from.  A
   response in the response queue, in a pending send (HWait / HPermit) or in the outbound side of
   the link carries Ok v only if a handler of this server finished with v (execute_poll with
   SFinish v, observed as OHDone k (BOk v)).  Over Chain.stp, in every state. *)
From Coq Require Import List Bool Arith NArith Lia.
Import ListNotations.
From TarpcV Require Import Base Transport TimerWheel Server ServerFuel ServerSim ServerSim2.
From TarpcV Require Client Chain ChainSrv ChainRespCli.

Notation stp := Chain.stp.
Notation sst := (@sstate Chain.link).

Lemma in_set_hst k st l : forall hr, In hr (set_hst k st l) ->
  In hr l \/ (h_st hr = st /\ exists x, nth_error l k = Some x /\ h_id hr = h_id x).
Proof.
  revert k; induction l as [|x r IH]; intros k hr H; [destruct k; destruct H|].
  destruct k as [|k]; cbn [set_hst] in H.
  - destruct H as [<-|H]; [right; split; [reflexivity|exists x; split; reflexivity]|left; right; exact H].
  - destruct H as [<-|H]; [left; left; reflexivity|]. destruct (IH k hr H) as [A|A]; [left; right; exact A|right; exact A].
Qed.

Section SVal.
  Variable P : N -> N -> Prop.
  Implicit Types s : sst.

  Definition b_ok (id : N) (b : rbody) : Prop := forall v, b = BOk v -> P id v.
  Definition st_ok (id : N) (h : hstate) : Prop :=
    match h with HWait b | HPermit b => b_ok id b | _ => True end.
  Record sv s : Prop := {
    sv_q : forall r, In r (s_respq s) -> b_ok (resp_id r) (resp_body r);
    sv_h : forall hr, In hr (s_handlers s) -> st_ok (h_id hr) (h_st hr);
    sv_l : ChainRespCli.lk_ok P (s_t s) }.

  Lemma sv_eq s s' :
    s_respq s' = s_respq s -> s_handlers s' = s_handlers s -> s_t s' = s_t s -> sv s -> sv s'.
  Proof. intros E1 E2 E3 [A B C]. constructor; rewrite ?E1, ?E2, ?E3; assumption. Qed.

  Lemma sv_remove_request id s : sv s -> sv (snd (remove_request id s)).
  Proof.
    intro H. destruct (remove_request_shape id s) as [(_ & -> & _)|(_ & _ & R)]; [exact H|].
    eapply sv_eq; [..|exact H]; apply R.
  Qed.
  Lemma sv_cancel_request id s : sv s -> sv (cancel_request id s).
  Proof.
    intro H. destruct (cancel_request_shape id s) as [(-> & _)|(e & _ & R)]; [exact H|].
    eapply sv_eq; [..|exact H]; apply R.
  Qed.
  Lemma sv_poll_expired s r s' : poll_expired s = (r, s') -> sv s -> sv s'.
  Proof. intros E. apply poll_expired_shape in E. apply sv_eq; apply E. Qed.
  Lemma sv_start_request id dl s h s' : start_request id dl s = Some (h, s') -> sv s -> sv s'.
  Proof. intros E. apply start_request_shape in E. apply sv_eq; apply E. Qed.

  Lemma sv_do_ready s r s' : do_ready stp s = (r, s') -> sv s -> sv s'.
  Proof. unfold do_ready. cbn. intros [= <- <-]. apply sv_eq; reflexivity. Qed.
  Lemma sv_do_flush s r s' : do_flush stp s = (r, s') -> sv s -> sv s'.
  Proof. unfold do_flush. cbn. intros [= <- <-]. apply sv_eq; reflexivity. Qed.
  Lemma sv_do_next s r s' : do_next stp s = (r, s') -> sv s -> sv s'.
  Proof.
    intros E [A B C]. pose proof (ChainSrv.do_next_stp _ _ _ E) as (_ & E2 & _).
    unfold do_next in E. destruct (t_next stp (s_t s)) as [r0 t0]. injection E as <- <-.
    constructor; sproj; try assumption. unfold ChainRespCli.lk_ok in *. sproj. rewrite E2. exact C.
  Qed.

  Lemma sv_add_permit s : sv s -> sv (add_permit s).
  Proof.
    intros [A B C]. unfold add_permit. destruct (s_waiters s) as [|k r].
    - constructor; sproj; assumption.
    - sproj. destruct (nth_error (s_handlers s) k) as [[hh hid hst]|] eqn:EN.
      2: { constructor; sproj; assumption. }
      destruct hst; try (constructor; sproj; assumption).
      constructor; sproj; try assumption.
      intros hr H. apply in_set_hst in H. destruct H as [H|(H & x & Ex & Ei)]; [apply B, H|].
      rewrite H, Ei. cbn [st_ok]. rewrite EN in Ex. injection Ex as <-. apply (B _ (nth_error_In _ _ EN)).
  Qed.

  (* a response leaves the queue for the link *)
  Lemma sv_resp s m r e s' :
    s_respq s = m :: r -> base_start_send stp m (add_permit (set_respq s r)) = (e, s') -> sv s -> sv s'.
  Proof.
    intros EQ E H.
    assert (Hm : b_ok (resp_id m) (resp_body m)) by (apply (sv_q _ H); rewrite EQ; left; reflexivity).
    assert (H1 : sv (add_permit (set_respq s r))).
    { apply sv_add_permit. destruct H as [A B C]. constructor; sproj; try assumption.
      intros x Hx. apply A. rewrite EQ. right. exact Hx. }
    unfold base_start_send in E. pose proof (sv_remove_request (resp_id m) _ H1) as H2.
    destruct (remove_request (resp_id m) _) as [was s1]. cbn [snd] in H2.
    destruct was; [|injection E as <- <-; exact H2].
    destruct (do_send stp m s1) as [w s2] eqn:ES. injection E as <- <-.
    pose proof (ChainSrv.do_send_stp _ _ _ _ ES) as (_ & _ & _ & SA & SB).
    destruct H2 as [A B C].
    assert (F : s_respq s2 = s_respq s1 /\ s_handlers s2 = s_handlers s1).
    { unfold do_send in ES. destruct (t_send stp (s_t s1) m). injection ES as <- <-. split; reflexivity. }
    destruct F as [F1 F2]. constructor; rewrite ?F1, ?F2; try assumption.
    destruct (Chain.l_cgone (s_t s1)) eqn:EG.
    - destruct (SB eq_refl) as [_ ->]. exact C.
    - destruct (SA eq_refl) as [_ EL]. intros x v Hx Ev. rewrite EL in Hx.
      apply in_app_or in Hx. destruct Hx as [Hx|[<-|[]]]; [eapply C; eassumption|].
      unfold Chain.conv_resp in Ev. cbn in Ev. apply Hm.
      destruct (resp_body m); cbn in Ev; try discriminate. injection Ev as ->. reflexivity.
  Qed.

  Lemma sv_requests_poll_next f s r s' :
    requests_poll_next stp (mkcfg None 100) f s = (r, s') -> sv s -> sv s'.
  Proof.
    intros E H.
    pose proof (ChainSrv.requests_poll_next_ind stp sv (fun _ => sv)) as IND.
    assert (G : match r with PReady q => sv s' | _ => sv s' end); [|destruct r; exact G].
    eapply IND; [..|exact E|exact H].
    - intros x id r0 _ Hx. apply sv_remove_request. eapply sv_eq; [..|exact Hx]; reflexivity.
    - intros x r0 x' Ex. eapply sv_poll_expired, Ex.
    - intros x r0 x' Ex _. eapply sv_do_next, Ex.
    - intros x Hx. eapply sv_eq; [..|exact Hx]; reflexivity.
    - intros x id dl tr body s1 h s2 Ex Hx ES. eapply sv_start_request; [exact ES|]. eapply sv_do_next; eassumption.
    - intros x id dl tr body s1 Ex Hx _. eapply sv_do_next; eassumption.
    - intros x id tr s1 Ex Hx. apply sv_cancel_request. eapply sv_do_next; eassumption.
    - intros x r0 x' Ex. eapply sv_do_ready, Ex.
    - intros x r0 x' Ex. eapply sv_do_flush, Ex.
    - intros q x r0 x' Ex. eapply sv_do_ready, Ex.
    - intros q x r0 x' Ex. eapply sv_do_flush, Ex.
    - intros x m r0 e x' EQ Ex. eapply sv_resp; eassumption.
    - intros q x m r0 e x' EQ Ex. eapply sv_resp; eassumption.
    - intros q x Hx. eapply sv_eq; [..|exact Hx]; reflexivity.
  Qed.
End SVal.

Lemma sv_mono (P P' : N -> N -> Prop) (s : sst) : (forall id v, P id v -> P' id v) -> sv P s -> sv P' s.
Proof.
  intros M [A B C]. constructor.
  - intros r H v E. apply M. eapply A; eassumption.
  - intros hr H. specialize (B hr H). destruct (h_st hr); cbn in *; try exact I;
      intros v E; apply M; eapply B; eassumption.
  - intros r v H E. apply M. eapply C; eassumption.
Qed.

(* one poll of execute(): the only place a value is produced *)
Lemma sv_execute_poll (P P' : N -> N -> Prop) k st (s : sst) s' l :
  execute_poll k st s = (s', l) -> sv P s -> (forall id v, P id v -> P' id v) ->
  (forall hr v, nth_error (s_handlers s) k = Some hr -> In (OHDone k (BOk v)) l -> P' (h_id hr) v) -> sv P' s'.
Proof.
  intros E H M N. apply (sv_mono P P' s M) in H.
  unfold execute_poll in E. destruct (nth_error (s_handlers s) k) as [hr|] eqn:EN;
    [|injection E as <- <-; exact H].
  pose proof (sv_h _ _ H _ (nth_error_In _ _ EN)) as Hhr.
  assert (FIN : forall sx, sv P' sx -> sv P' (set_handlers sx (set_hst k HDone (s_handlers sx)))).
  { intros sx [A B C]. constructor; sproj; try assumption.
    intros x Hx. apply in_set_hst in Hx. destruct Hx as [Hx|[Hx _]]; [apply B, Hx|rewrite Hx; exact I]. }
  assert (FIN2 : forall sx, s_handlers sx = s_handlers s -> sv P' sx ->
                 sv P' (set_handlers sx (set_hst k HDone (s_handlers s)))).
  { intros sx <- Hx. apply FIN, Hx. }
  assert (SW : forall w, sv P' (set_waiters s w)) by (intro w; eapply sv_eq; [..|exact H]; reflexivity).
  assert (TS : forall b pre, b_ok P' (h_id hr) b ->
            (if s_dropped s then (set_handlers s (set_hst k HDone (s_handlers s)), pre ++ [OExecReady k])
             else match s_permits s with
                  | S p => (set_handlers (set_respq (set_permits s p) (s_respq s ++ [mkresp (h_id hr) b]))
                                         (set_hst k HDone (s_handlers (set_respq (set_permits s p) (s_respq s ++ [mkresp (h_id hr) b])))),
                            pre ++ [OExecReady k])
                  | O => (set_handlers (set_waiters s (s_waiters s ++ [k])) (set_hst k (HWait b) (s_handlers s)),
                          pre ++ [OExecPending k])
                  end) = (s', l) -> sv P' s').
  { intros b pre Hb E1. destruct (s_dropped s); [injection E1 as <- _; apply FIN, H|].
    destruct (s_permits s) as [|p]; injection E1 as <- _.
    - destruct H as [A B C]. constructor; sproj; try assumption.
      intros x Hx. apply in_set_hst in Hx. destruct Hx as [Hx|(Hx & y & Ey & Ei)]; [apply B, Hx|].
      rewrite Hx, Ei. rewrite EN in Ey. injection Ey as <-. exact Hb.
    - destruct H as [A B C]. constructor; sproj; try assumption.
      + intros x Hx. apply in_app_or in Hx. destruct Hx as [Hx|[<-|[]]]; [apply A, Hx|exact Hb].
      + intros x Hx. apply in_set_hst in Hx. destruct Hx as [Hx|[Hx _]]; [apply B, Hx|rewrite Hx; exact I]. }
  destruct (h_st hr) eqn:EST; try (injection E as <- <-; exact H).
  - (* HYielded *)
    destruct (existsb _ _); [injection E as <- <-; apply FIN, H|].
    destruct st as [|v|].
    + injection E as <- <-. destruct H as [A B C]. constructor; sproj; try assumption.
      intros x Hx. apply in_set_hst in Hx. destruct Hx as [Hx|[Hx _]]; [apply B, Hx|rewrite Hx; exact I].
    + eapply TS; [|exact E]. intros v0 [= <-]. apply (N hr v eq_refl).
      assert (In (OHDone k (BOk v)) ([OHPolled k; OHDone k (BOk v)] ++ [OExecReady k])
              /\ In (OHDone k (BOk v)) ([OHPolled k; OHDone k (BOk v)] ++ [OExecPending k])) as [I1 I2]
        by (split; right; left; reflexivity).
      destruct (s_dropped s); [injection E as _ <-; exact I1|].
      destruct (s_permits s); injection E as _ <-; assumption.
    + eapply TS; [|exact E]. intros v0 [=].
  - (* HRunning *)
    destruct (existsb _ _); [injection E as <- <-; apply FIN, H|].
    destruct st as [|v|].
    + injection E as <- <-. destruct H as [A B C]. constructor; sproj; try assumption.
      intros x Hx. apply in_set_hst in Hx. destruct Hx as [Hx|[Hx _]]; [apply B, Hx|rewrite Hx; exact I].
    + eapply TS; [|exact E]. intros v0 [= <-]. apply (N hr v eq_refl).
      assert (In (OHDone k (BOk v)) ([OHPolled k; OHDone k (BOk v)] ++ [OExecReady k])
              /\ In (OHDone k (BOk v)) ([OHPolled k; OHDone k (BOk v)] ++ [OExecPending k])) as [I1 I2]
        by (split; right; left; reflexivity).
      destruct (s_dropped s); [injection E as _ <-; exact I1|].
      destruct (s_permits s); injection E as _ <-; assumption.
    + eapply TS; [|exact E]. intros v0 [=].
  - (* HWait *)
    destruct (existsb _ _); [injection E as <- <-; apply FIN2; [reflexivity|apply SW]|].
    destruct (s_dropped s); injection E as <- <-; [apply FIN2; [reflexivity|apply SW]|exact H].
  - (* HPermit *)
    destruct (existsb _ _); [injection E as <- <-; apply FIN, sv_add_permit, H|].
    destruct (s_dropped s); injection E as <- <-; [apply FIN, H|].
    apply FIN2; [reflexivity|]. destruct H as [A B C]. constructor; sproj; try assumption.
    intros x Hx. apply in_app_or in Hx. destruct Hx as [Hx|[<-|[]]]; [apply A, Hx|exact Hhr].
Qed.

Section Step.
  Variable P : N -> N -> Prop.
  Context {C : Type}.
  Variable ctl : Chain.link -> C -> Chain.link.
  Variable tfuel : Chain.link -> nat.
  Implicit Types s : sst.

  Lemma sv_step_poll s s' l :
    step stp ctl tfuel (mkcfg None 100) s OPoll = (s', l) -> sv P s -> sv P s'.
  Proof.
    unfold step. destruct (poll_requests stp tfuel (mkcfg None 100) s) as [s1 l1] eqn:EP.
    intros [= <- _] H. unfold poll_requests in EP. destruct (s_dropped s); [injection EP as <- _; exact H|].
    destruct (requests_poll_next stp _ _ _) as [r s2] eqn:ER.
    assert (H0 : sv P (set_log s [])) by (eapply sv_eq; [..|exact H]; reflexivity).
    pose proof (sv_requests_poll_next P _ _ _ _ ER H0) as H2.
    destruct r as [q| |a| |]; injection EP as <- _; try exact H2.
    destruct H2 as [A B D]. constructor; sproj; try assumption.
    intros hr Hh. apply in_app_or in Hh. destruct Hh as [Hh|[<-|[]]]; [apply B, Hh|exact I].
  Qed.

  Lemma sv_step_drop s s' l :
    step stp ctl tfuel (mkcfg None 100) s ODropChannel = (s', l) -> sv P s -> sv P s'.
  Proof.
    unfold step. intros [= <- _] H. unfold drop_channel. destruct (s_dropped s); [exact H|].
    eapply sv_eq; [..|exact H]; reflexivity.
  Qed.
  Lemma sv_step_advance dt s s' l :
    step stp ctl tfuel (mkcfg None 100) s (OAdvance dt) = (s', l) -> sv P s -> sv P s'.
  Proof. unfold step. intros [= <- _] H. eapply sv_eq; [..|exact H]; reflexivity. Qed.
End Step.
