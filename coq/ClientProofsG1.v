(* Client proofs, group G1: C14 (the transport contract), C11 (gauges) and the fuel of the
   scripted instance.  Statements are in ClientSpec.v; nothing is assumed. *)
From Coq Require Import List Bool Arith NArith Lia ZifyBool ZifyNat ZifyN.
Import ListNotations.
From TarpcV Require Import Base Transport Client ClientS ClientMon ClientSpec ClientLemmas
  ClientProofsG1Frames.

Arguments N.modulo : simpl never.
Arguments N.add : simpl never.
Arguments N.min : simpl never.
Arguments N.sub : simpl never.

(* ================================================================== C14 *)
Section C14.
  Context {T : Type}.
  Variable tp : transport T cmsg resp.
  Notation cstate := (@cstate T).
  Implicit Types (s : cstate) (c : cst).
  Notation cstep := (c_step (SI := cmsg) (RI := resp) fatal_cancel).
  Notation ccalls := (c_calls (SI := cmsg) (RI := resp) fatal_cancel).

  Lemma c_calls_snoc c0 l x c :
    ccalls c0 l = (true, c) -> fst (cstep c x) = true ->
    ccalls c0 (l ++ [x]) = (true, snd (cstep c x)).
  Proof.
    revert c0. induction l as [|y r IH]; intros c0; cbn [c_calls app].
    - intros [= <-] H. destruct (cstep c0 x) as [ok c1]. cbn [fst snd] in *. subst ok. reflexivity.
    - destruct (cstep c0 y) as [ok c1]. destruct ok; [apply IH|discriminate].
  Qed.

  (* the contract monitor, started in c0 at the beginning of the poll, has accepted the log of
     the poll in progress and is in state c *)
  Definition Trk (c0 : cst) s c : Prop := ccalls c0 (plog s) = (true, c).

  Lemma trk_I c0 s s' c : IFrame s s' -> Trk c0 s c -> Trk c0 s' c.
  Proof. intros F H. unfold Trk. rewrite (if_plog _ _ F). exact H. Qed.
  Lemma trk_T c0 s s' c : TFrame s s' -> Trk c0 s c -> Trk c0 s' c.
  Proof. intro F. apply trk_I, TFrame_I, F. Qed.

  Lemma trk_ready s r s1 c0 c :
    do_ready tp s = (r, s1) -> Trk c0 s c -> (streak c < 8)%nat ->
    Trk c0 s1 (snd (cstep c (CReady r))).
  Proof.
    intros H K L. apply do_ready_eq in H. unfold Trk. rewrite H. cbn [plog upd_tr].
    apply c_calls_snoc; [exact K|]. cbn [c_step fst]. apply Nat.leb_le. unfold max_streak. lia.
  Qed.
  Lemma trk_flush s r s1 c0 c :
    do_flush tp s = (r, s1) -> Trk c0 s c -> (streak c < 8)%nat ->
    Trk c0 s1 (snd (cstep c (CFlush r))).
  Proof.
    intros H K L. apply do_flush_eq in H. unfold Trk. rewrite H. cbn [plog upd_tr].
    apply c_calls_snoc; [exact K|]. cbn [c_step fst]. apply Nat.leb_le. unfold max_streak. lia.
  Qed.
  Lemma trk_close s r s1 c0 c :
    do_close tp s = (r, s1) -> Trk c0 s c -> Trk c0 s1 (snd (cstep c (CClose r))).
  Proof.
    intros H K. apply do_close_eq in H. unfold Trk. rewrite H. cbn [plog upd_tr].
    apply c_calls_snoc; [exact K|reflexivity].
  Qed.
  Lemma trk_send s m r s1 c0 c :
    do_send tp s m = (r, s1) -> Trk c0 s c ->
    licensed c = true -> closed c = false -> failed c = false ->
    Trk c0 s1 (snd (cstep c (CSend m r))).
  Proof.
    intros H K L1 L2 L3. apply do_send_eq in H. unfold Trk. rewrite H. cbn [plog upd_tr].
    apply c_calls_snoc; [exact K|]. cbn [c_step fst]. rewrite L1, L2, L3. reflexivity.
  Qed.
  Lemma trk_next s r s1 c0 c :
    do_next tp s = (r, s1) -> Trk c0 s c -> fused s = false ->
    Trk c0 s1 (snd (cstep c (CNext r))).
  Proof.
    intros H K L. apply do_next_eq in H. destruct H as [(H & _)|(_ & H)]; [congruence|].
    unfold Trk. rewrite H. cbn [plog upd_tr]. apply c_calls_snoc; [exact K|reflexivity].
  Qed.

  (* ---------------------------------------------------------------- quiescence *)
  (* nothing can be queued any more: no handle and no call future is alive, both queues empty *)
  Definition Quiet s : Prop := senders s = 0%nat /\ queue s = [] /\ cancels s = [].

  Lemma Quiet_X s s' : XFrame s s' -> Quiet s -> Quiet s'.
  Proof.
    intros F (H1 & H2 & H3). unfold Quiet, senders in *.
    rewrite (pf_handles _ _ (xf_p _ _ F)), (xf_calls _ _ F), (xf_queue _ _ F), (xf_cancels _ _ F).
    auto.
  Qed.
  Lemma Quiet_T s s' : TFrame s s' -> Quiet s -> Quiet s'.
  Proof.
    intros F (H1 & H2 & H3). unfold Quiet, senders in *.
    rewrite (pf_handles _ _ (TFrame_P _ _ F)), (tf_calls _ _ F), (tf_queue _ _ F), (tf_cancels _ _ F).
    auto.
  Qed.

  Lemma quiet_q_poll_recv s : Quiet s -> q_poll_recv s = (RvNone, s).
  Proof. intros (H1 & H2 & _). unfold q_poll_recv. rewrite H2, H1. reflexivity. Qed.
  Lemma quiet_c_poll_recv s : Quiet s -> c_poll_recv s = (RvNone, s).
  Proof. intros (H1 & _ & H3). unfold c_poll_recv. rewrite H3, H1. reflexivity. Qed.
  Lemma quiet_next_request_loop f s r s' :
    Quiet s -> next_request_loop f s = (r, s') -> s' = s /\ is_psome r = false.
  Proof.
    intro Q. destruct f; cbn [next_request_loop]; [intros [= <- <-]; auto|].
    rewrite (quiet_q_poll_recv s Q). intros [= <- <-]; auto.
  Qed.
  Lemma quiet_next_cancel_loop f s r s' :
    Quiet s -> next_cancel_loop f s = (r, s') -> s' = s /\ is_psome r = false.
  Proof.
    intro Q. destruct f; cbn [next_cancel_loop]; [intros [= <- <-]; auto|].
    rewrite (quiet_c_poll_recv s Q). intros [= <- <-]; auto.
  Qed.

  Lemma next_request_loop_none f s s' : next_request_loop f s = (PNone, s') -> queue s' = [].
  Proof.
    revert s; induction f as [|f IH]; intro s; cbn [next_request_loop]; [discriminate|].
    unfold q_poll_recv. destruct (queue s) eqn:Q.
    - destruct (Nat.eqb _ _); [intros [= <-]; exact Q|].
      destruct (_ && _); [intros [= <-]; exact Q|discriminate].
    - destruct (sl_rx_closed _); [apply IH|discriminate].
  Qed.
  Lemma next_cancel_loop_none f s s' :
    next_cancel_loop f s = (PNone, s') -> cancels s' = [] /\ senders s' = 0%nat.
  Proof.
    revert s; induction f as [|f IH]; intro s; cbn [next_cancel_loop]; [discriminate|].
    unfold c_poll_recv. destruct (cancels s) eqn:Q.
    - destruct (Nat.eqb _ _) eqn:E; [intros [= <-]; apply Nat.eqb_eq in E; auto|discriminate].
    - destruct (cancel_request _ _) as [[e|] s2]; [discriminate|apply IH].
  Qed.

  (* ---------------------------------------------------------------- inside one poll *)
  Record PI c s : Prop := {
    pi_failed : failed c = false;
    pi_closed : closed c = true -> Quiet s }.

  Lemma PI_X c s s' : XFrame s s' -> PI c s -> PI c s'.
  Proof. intros F [H1 H2]. constructor; [exact H1|]. intro H. eapply Quiet_X; eauto. Qed.
  Lemma PI_T c s s' : TFrame s s' -> PI c s -> PI c s'.
  Proof. intros F [H1 H2]. constructor; [exact H1|]. intro H. eapply Quiet_T; eauto. Qed.

  Lemma ew_c14 s r s' c0 c :
    ensure_writeable tp s = (r, s') -> Trk c0 s c -> failed c = false -> (streak c + 3 <= 8)%nat ->
    exists c', Trk c0 s' c' /\ closed c' = closed c /\ (streak c' <= streak c + 3)%nat /\
      match r with
      | PSome _ => licensed c' = true /\ failed c' = false
      | PErr _ => failed c' = true
      | PPend => failed c' = false
      | PNone => False
      end.
  Proof.
    intros H K HF HS. apply ensure_writeable_inv in H.
    destruct H as [r s1 H1 Hr|s1 s2 H1 H2|s1 s2 H1 H2|s1 s2 r s3 H1 H2 H3].
    - eexists. split; [eapply trk_ready; [exact H1|exact K|lia]|].
      destruct r; cbn; try congruence; repeat split; auto; lia.
    - pose proof (trk_ready _ _ _ _ _ H1 K ltac:(lia)) as K1.
      eexists. split; [eapply trk_flush; [exact H2|exact K1|cbn; lia]|].
      cbn. repeat split; auto; lia.
    - pose proof (trk_ready _ _ _ _ _ H1 K ltac:(lia)) as K1.
      eexists. split; [eapply trk_flush; [exact H2|exact K1|cbn; lia]|].
      cbn. repeat split; auto; lia.
    - pose proof (trk_ready _ _ _ _ _ H1 K ltac:(lia)) as K1.
      pose proof (trk_flush _ _ _ _ _ H2 K1 ltac:(cbn; lia)) as K2.
      eexists. split; [eapply trk_ready; [exact H3|exact K2|cbn; lia]|].
      destruct r; cbn; repeat split; auto; lia.
  Qed.
End C14.
