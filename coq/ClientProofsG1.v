(* Client proofs, group G1: C14 (the transport contract), C11 (gauges) and the fuel of the
   scripted instance.  Statements are in ClientSpec.v; nothing is assumed. *)
From Coq Require Import List Bool Arith NArith Lia ZifyBool ZifyNat ZifyN.
Import ListNotations.
From TarpcV Require Import Base Transport Client ClientS ClientMon ClientSpec ClientLemmas
  ClientProofsG1Frames.

Arguments N.modulo : simpl never.
Arguments N.add : simpl never.
Arguments N.min : simpl never.
Arguments N.sub : simpl never.

(* ================================================================== C14 *)
Section C14.
  Context {T : Type}.
  Variable tp : transport T cmsg resp.
  Notation cstate := (@cstate T).
  Implicit Types (s : cstate) (c : cst).
  Notation cstep := (c_step (SI := cmsg) (RI := resp) fatal_cancel).
  Notation ccalls := (c_calls (SI := cmsg) (RI := resp) fatal_cancel).

  Lemma c_calls_snoc c0 l x c :
    ccalls c0 l = (true, c) -> fst (cstep c x) = true ->
    ccalls c0 (l ++ [x]) = (true, snd (cstep c x)).
  Proof.
    revert c0. induction l as [|y r IH]; intros c0; cbn [c_calls app].
    - intros [= <-] H. destruct (cstep c0 x) as [ok c1]. cbn [fst snd] in *. subst ok. reflexivity.
    - destruct (cstep c0 y) as [ok c1]. destruct ok; [apply IH|discriminate].
  Qed.

  (* the contract monitor, started in c0 at the beginning of the poll, has accepted the log of
     the poll in progress and is in state c *)
  Definition Trk (c0 : cst) s c : Prop := ccalls c0 (plog s) = (true, c).

  Lemma trk_I c0 s s' c : IFrame s s' -> Trk c0 s c -> Trk c0 s' c.
  Proof. intros F H. unfold Trk. rewrite (if_plog _ _ F). exact H. Qed.
  Lemma trk_T c0 s s' c : TFrame s s' -> Trk c0 s c -> Trk c0 s' c.
  Proof. intro F. apply trk_I, TFrame_I, F. Qed.

  Lemma trk_ready s r s1 c0 c :
    do_ready tp s = (r, s1) -> Trk c0 s c -> (streak c < 8)%nat ->
    Trk c0 s1 (snd (cstep c (CReady r))).
  Proof.
    intros H K L. apply do_ready_eq in H. unfold Trk. rewrite H. cbn [plog upd_tr].
    apply c_calls_snoc; [exact K|]. cbn [c_step fst]. apply Nat.leb_le. unfold max_streak. lia.
  Qed.
  Lemma trk_flush s r s1 c0 c :
    do_flush tp s = (r, s1) -> Trk c0 s c -> (streak c < 8)%nat ->
    Trk c0 s1 (snd (cstep c (CFlush r))).
  Proof.
    intros H K L. apply do_flush_eq in H. unfold Trk. rewrite H. cbn [plog upd_tr].
    apply c_calls_snoc; [exact K|]. cbn [c_step fst]. apply Nat.leb_le. unfold max_streak. lia.
  Qed.
  Lemma trk_close s r s1 c0 c :
    do_close tp s = (r, s1) -> Trk c0 s c -> Trk c0 s1 (snd (cstep c (CClose r))).
  Proof.
    intros H K. apply do_close_eq in H. unfold Trk. rewrite H. cbn [plog upd_tr].
    apply c_calls_snoc; [exact K|reflexivity].
  Qed.
  Lemma trk_send s m r s1 c0 c :
    do_send tp s m = (r, s1) -> Trk c0 s c ->
    licensed c = true -> closed c = false -> failed c = false ->
    Trk c0 s1 (snd (cstep c (CSend m r))).
  Proof.
    intros H K L1 L2 L3. apply do_send_eq in H. unfold Trk. rewrite H. cbn [plog upd_tr].
    apply c_calls_snoc; [exact K|]. cbn [c_step fst]. rewrite L1, L2, L3. reflexivity.
  Qed.
  Lemma trk_next s r s1 c0 c :
    do_next tp s = (r, s1) -> Trk c0 s c -> fused s = false ->
    Trk c0 s1 (snd (cstep c (CNext r))).
  Proof.
    intros H K L. apply do_next_eq in H. destruct H as [(H & _)|(_ & H)]; [congruence|].
    unfold Trk. rewrite H. cbn [plog upd_tr]. apply c_calls_snoc; [exact K|reflexivity].
  Qed.

  (* ---------------------------------------------------------------- quiescence *)
  (* nothing can be queued any more: no handle and no call future is alive, both queues empty *)
  Definition Quiet s : Prop := senders s = 0%nat /\ queue s = [] /\ cancels s = [].

  Lemma Quiet_X s s' : XFrame s s' -> Quiet s -> Quiet s'.
  Proof.
    intros F (H1 & H2 & H3). unfold Quiet, senders in *.
    rewrite (pf_handles _ _ (xf_p _ _ F)), (xf_calls _ _ F), (xf_queue _ _ F), (xf_cancels _ _ F).
    auto.
  Qed.
  Lemma Quiet_T s s' : TFrame s s' -> Quiet s -> Quiet s'.
  Proof.
    intros F (H1 & H2 & H3). unfold Quiet, senders in *.
    rewrite (pf_handles _ _ (TFrame_P _ _ F)), (tf_calls _ _ F), (tf_queue _ _ F), (tf_cancels _ _ F).
    auto.
  Qed.

  Lemma quiet_q_poll_recv s : Quiet s -> q_poll_recv s = (RvNone, s).
  Proof. intros (H1 & H2 & _). unfold q_poll_recv. rewrite H2, H1. reflexivity. Qed.
  Lemma quiet_c_poll_recv s : Quiet s -> c_poll_recv s = (RvNone, s).
  Proof. intros (H1 & _ & H3). unfold c_poll_recv. rewrite H3, H1. reflexivity. Qed.
  Lemma quiet_next_request_loop f s r s' :
    Quiet s -> next_request_loop f s = (r, s') -> s' = s /\ is_psome r = false.
  Proof.
    intro Q. destruct f; cbn [next_request_loop]; [intros [= <- <-]; auto|].
    rewrite (quiet_q_poll_recv s Q). intros [= <- <-]; auto.
  Qed.
  Lemma quiet_next_cancel_loop f s r s' :
    Quiet s -> next_cancel_loop f s = (r, s') -> s' = s /\ is_psome r = false.
  Proof.
    intro Q. destruct f; cbn [next_cancel_loop]; [intros [= <- <-]; auto|].
    rewrite (quiet_c_poll_recv s Q). intros [= <- <-]; auto.
  Qed.

  Lemma next_request_loop_none f s s' : next_request_loop f s = (PNone, s') -> queue s' = [].
  Proof.
    revert s; induction f as [|f IH]; intro s; cbn [next_request_loop]; [discriminate|].
    unfold q_poll_recv. destruct (queue s) eqn:Q.
    - destruct (Nat.eqb _ _); [intros [= <-]; exact Q|].
      destruct (_ && _); [intros [= <-]; exact Q|discriminate].
    - destruct (sl_rx_closed _); [apply IH|discriminate].
  Qed.
  Lemma next_cancel_loop_none f s s' :
    next_cancel_loop f s = (PNone, s') -> cancels s' = [] /\ senders s' = 0%nat.
  Proof.
    revert s; induction f as [|f IH]; intro s; cbn [next_cancel_loop]; [discriminate|].
    unfold c_poll_recv. destruct (cancels s) eqn:Q.
    - destruct (Nat.eqb _ _) eqn:E; [intros [= <-]; apply Nat.eqb_eq in E; auto|discriminate].
    - destruct (cancel_request _ _) as [[e|] s2]; [discriminate|apply IH].
  Qed.

  (* ---------------------------------------------------------------- inside one poll *)
  Record PI c s : Prop := {
    pi_failed : failed c = false;
    pi_closed : closed c = true -> Quiet s }.

  Lemma PI_X c s s' : XFrame s s' -> PI c s -> PI c s'.
  Proof. intros F [H1 H2]. constructor; [exact H1|]. intro H. eapply Quiet_X; eauto. Qed.
  Lemma PI_T c s s' : TFrame s s' -> PI c s -> PI c s'.
  Proof. intros F [H1 H2]. constructor; [exact H1|]. intro H. eapply Quiet_T; eauto. Qed.

  Lemma ew_c14 s r s' c0 c :
    ensure_writeable tp s = (r, s') -> Trk c0 s c -> failed c = false -> (streak c + 3 <= 8)%nat ->
    exists c', Trk c0 s' c' /\ closed c' = closed c /\ (streak c' <= streak c + 3)%nat /\
      match r with
      | PSome _ => licensed c' = true /\ failed c' = false
      | PErr _ => failed c' = true
      | PPend => failed c' = false
      | PNone => False
      end.
  Proof.
    intros H K HF HS. apply ensure_writeable_inv in H.
    destruct H as [r s1 H1 Hr|s1 s2 H1 H2|s1 s2 H1 H2|s1 s2 r s3 H1 H2 H3].
    - eexists. split; [eapply trk_ready; [exact H1|exact K|lia]|].
      destruct r; cbn; try congruence; repeat split; auto; lia.
    - pose proof (trk_ready _ _ _ _ _ H1 K ltac:(lia)) as K1.
      eexists. split; [eapply trk_flush; [exact H2|exact K1|cbn; lia]|].
      cbn. repeat split; auto; lia.
    - pose proof (trk_ready _ _ _ _ _ H1 K ltac:(lia)) as K1.
      eexists. split; [eapply trk_flush; [exact H2|exact K1|cbn; lia]|].
      cbn. repeat split; auto; lia.
    - pose proof (trk_ready _ _ _ _ _ H1 K ltac:(lia)) as K1.
      pose proof (trk_flush _ _ _ _ _ H2 K1 ltac:(cbn; lia)) as K2.
      eexists. split; [eapply trk_ready; [exact H3|exact K2|cbn; lia]|].
      destruct r; cbn; repeat split; auto; lia.
  Qed.

  Lemma next_request_loop_not_err f s a s' : next_request_loop f s <> (PErr a, s').
  Proof.
    revert s; induction f as [|f IH]; intro s; cbn [next_request_loop]; [discriminate|].
    destruct (q_poll_recv s) as [[q| |] s1]; try discriminate.
    destruct (sl_rx_closed _); [apply IH|discriminate].
  Qed.
  Lemma next_cancel_loop_not_err f s a s' : next_cancel_loop f s <> (PErr a, s').
  Proof.
    revert s; induction f as [|f IH]; intro s; cbn [next_cancel_loop]; [discriminate|].
    destruct (c_poll_recv s) as [[q| |] s1]; try discriminate.
    destruct (cancel_request s1 q) as [[e|] s2]; [discriminate|apply IH].
  Qed.

  Lemma pwrq_c14 s r s' c0 c :
    poll_write_request tp s = (r, s') -> Trk c0 s c -> PI c s -> (streak c + 3 <= 8)%nat ->
    exists c', Trk c0 s' c' /\ closed c' = closed c /\ (streak c' <= streak c + 3)%nat /\
      match r with PErr _ => failed c' = true | _ => PI c' s' end /\
      (r = PNone -> queue s' = []).
  Proof.
    intros H K P HS. pose proof (pi_failed _ _ P) as HF. apply poll_write_request_inv in H.
    destruct H as [_|r s1 _ H1 Hr|r s1 s2 _ H1 H2 Hr|s1 q s2 w s3 _ H1 H2 H3].
    - exists c. repeat split; try apply P; auto; try lia. discriminate.
    - destruct (ew_c14 _ _ _ _ _ H1 K HF HS) as (c1 & K1 & C1 & S1 & R1).
      apply XFrame_ensure_writeable in H1.
      exists c1. split; [exact K1|]. split; [exact C1|]. split; [exact S1|].
      destruct r as [u| | |a]; cbn [pcast]; try discriminate; try contradiction.
      + split; [|discriminate]. constructor; [exact R1|]. rewrite C1. intro HC.
        eapply Quiet_X; [exact H1|]. apply P, HC.
      + split; [exact R1|discriminate].
    - destruct (ew_c14 _ _ _ _ _ H1 K HF HS) as (c1 & K1 & C1 & S1 & L1 & F1).
      apply XFrame_ensure_writeable in H1.
      pose proof (IFrame_next_request_loop (S (length (queue s1))) s1) as F2.
      rewrite H2 in F2. cbn [snd] in F2.
      exists c1. split; [eapply trk_I; eassumption|]. split; [exact C1|]. split; [exact S1|].
      assert (P2 : PI c1 s2).
      { constructor; [exact F1|]. rewrite C1. intro HC.
        assert (Q1 : Quiet s1) by (eapply Quiet_X; [exact H1|]; apply P, HC).
        destruct (quiet_next_request_loop _ _ _ _ Q1 H2) as [-> _]. exact Q1. }
      destruct r as [u| | |a]; cbn [pcast]; try discriminate.
      + split; [exact P2|]. intros _. eapply next_request_loop_none, H2.
      + split; [exact P2|discriminate].
      + exfalso. eapply next_request_loop_not_err, H2.
    - destruct (ew_c14 _ _ _ _ _ H1 K HF HS) as (c1 & K1 & C1 & S1 & L1 & F1).
      apply XFrame_ensure_writeable in H1.
      pose proof (IFrame_next_request_loop (S (length (queue s1))) s1) as F2.
      rewrite H2 in F2. cbn [snd] in F2.
      assert (HC : closed c1 = false).
      { destruct (closed c1) eqn:HC; [|reflexivity]. exfalso.
        assert (Q1 : Quiet s1) by (eapply Quiet_X; [exact H1|]; apply P; congruence).
        destruct (quiet_next_request_loop _ _ _ _ Q1 H2) as [_ X]. discriminate. }
      assert (K2 : Trk c0 (insert_request s2 q) c1).
      { eapply trk_T; [apply TFrame_insert_request|]. eapply trk_I; eassumption. }
      pose proof (trk_send _ _ _ _ _ _ H3 K2 L1 HC F1) as K3.
      eexists. split.
      { destruct w; [exact K3|]. eapply trk_T; [apply TFrame_complete_request|exact K3]. }
      cbn [c_step snd closed streak failed].
      split; [congruence|]. split; [lia|]. split; [|discriminate].
      constructor; cbn [closed failed]; [|congruence].
      destruct w; [exact F1|]. rewrite F1. reflexivity.
  Qed.

  Lemma pwc_c14 s r s' c0 c :
    poll_write_cancel tp s = (r, s') -> Trk c0 s c -> PI c s -> (streak c + 3 <= 8)%nat ->
    exists c', Trk c0 s' c' /\ closed c' = closed c /\ (streak c' <= streak c + 3)%nat /\
      match r with PErr _ => failed c' = true | _ => PI c' s' end /\
      queue s' = queue s /\
      (r = PNone -> cancels s' = [] /\ senders s' = 0%nat).
  Proof.
    intros H K P HS. pose proof (pi_failed _ _ P) as HF. apply poll_write_cancel_inv in H.
    destruct H as [r s1 H1 Hr|r s1 s2 H1 H2 Hr|s1 id e s2 w s3 H1 H2 H3].
    - destruct (ew_c14 _ _ _ _ _ H1 K HF HS) as (c1 & K1 & C1 & S1 & R1).
      apply XFrame_ensure_writeable in H1.
      exists c1. split; [exact K1|]. split; [exact C1|]. split; [exact S1|].
      destruct r as [u| | |a]; cbn [pcast]; try discriminate; try contradiction.
      + split; [|split; [apply H1|discriminate]]. constructor; [exact R1|]. rewrite C1. intro HC.
        eapply Quiet_X; [exact H1|]. apply P, HC.
      + split; [exact R1|]. split; [apply H1|discriminate].
    - destruct (ew_c14 _ _ _ _ _ H1 K HF HS) as (c1 & K1 & C1 & S1 & L1 & F1).
      apply XFrame_ensure_writeable in H1.
      pose proof (CFrame_next_cancel_loop (S (length (cancels s1))) s1) as F2.
      rewrite H2 in F2. cbn [snd] in F2.
      exists c1. split; [eapply trk_I; [apply F2|eassumption]|]. split; [exact C1|].
      split; [exact S1|].
      assert (P2 : PI c1 s2).
      { constructor; [exact F1|]. rewrite C1. intro HC.
        assert (Q1 : Quiet s1) by (eapply Quiet_X; [exact H1|]; apply P, HC).
        destruct (quiet_next_cancel_loop _ _ _ _ Q1 H2) as [-> _]. exact Q1. }
      assert (HQ : queue s2 = queue s) by (rewrite (cf_queue _ _ F2); apply H1).
      destruct r as [u| | |a]; cbn [pcast]; try discriminate.
      + split; [exact P2|]. split; [exact HQ|]. intros _. eapply next_cancel_loop_none, H2.
      + split; [exact P2|]. split; [exact HQ|discriminate].
      + exfalso. eapply next_cancel_loop_not_err, H2.
    - destruct (ew_c14 _ _ _ _ _ H1 K HF HS) as (c1 & K1 & C1 & S1 & L1 & F1).
      apply XFrame_ensure_writeable in H1.
      pose proof (CFrame_next_cancel_loop (S (length (cancels s1))) s1) as F2.
      rewrite H2 in F2. cbn [snd] in F2.
      assert (HC : closed c1 = false).
      { destruct (closed c1) eqn:HC; [|reflexivity]. exfalso.
        assert (Q1 : Quiet s1) by (eapply Quiet_X; [exact H1|]; apply P; congruence).
        destruct (quiet_next_cancel_loop _ _ _ _ Q1 H2) as [_ X]. discriminate. }
      assert (K2 : Trk c0 s2 c1) by (eapply trk_I; [apply F2|eassumption]).
      pose proof (trk_send _ _ _ _ _ _ H3 K2 L1 HC F1) as K3.
      eexists. split; [exact K3|].
      cbn [c_step snd closed streak failed].
      split; [congruence|]. split; [lia|].
      assert (HQ : queue s3 = queue s).
      { rewrite (xf_queue _ _ (XFrame_do_send _ _ _ _ _ H3)), (cf_queue _ _ F2). apply H1. }
      destruct w.
      + split; [|split; [exact HQ|discriminate]].
        constructor; cbn [closed failed]; [exact F1|congruence].
      + split; [|split; [exact HQ|discriminate]].
        cbn [fatal_cancel]. apply orb_true_r.
  Qed.

  Lemma pw_c14 s r s' c0 c :
    pump_write tp s = (r, s') -> Trk c0 s c -> PI c s -> streak c = 0%nat ->
    exists c', Trk c0 s' c' /\
      match r with
      | PErr _ => failed c' = true
      | PSome _ => PI c' s'
      | PPend => PI c' s' /\ (dirty c' = false \/ last_flush_pending c' = true)
      | PNone => PI c' s' /\ dirty c' = false
      end.
  Proof.
    intros H K P HS. apply pump_write_inv in H.
    destruct H as [a s1 H1|u s1 H1|r1 s1 a s2 H1 I1 H2|r1 s1 u s2 H1 I1 H2
                  |r1 s1 r2 s2 id s3 H1 I1 H2 I2 H3|s1 s2 s3 x s4 H1 H2 H3 H4
                  |r1 s1 r2 s2 s3 x s4 H1 I1 H2 I2 I12 H3 H4].
    - destruct (pwrq_c14 _ _ _ _ _ H1 K P ltac:(lia)) as (c1 & K1 & _ & _ & R1 & _). eauto.
    - destruct (pwrq_c14 _ _ _ _ _ H1 K P ltac:(lia)) as (c1 & K1 & _ & _ & R1 & _). eauto.
    - destruct (pwrq_c14 _ _ _ _ _ H1 K P ltac:(lia)) as (c1 & K1 & _ & S1 & R1 & _).
      assert (P1 : PI c1 s1) by (destruct I1 as [-> | ->]; exact R1).
      destruct (pwc_c14 _ _ _ _ _ H2 K1 P1 ltac:(lia)) as (c2 & K2 & _ & _ & R2 & _). eauto.
    - destruct (pwrq_c14 _ _ _ _ _ H1 K P ltac:(lia)) as (c1 & K1 & _ & S1 & R1 & _).
      assert (P1 : PI c1 s1) by (destruct I1 as [-> | ->]; exact R1).
      destruct (pwc_c14 _ _ _ _ _ H2 K1 P1 ltac:(lia)) as (c2 & K2 & _ & _ & R2 & _). eauto.
    - destruct (pwrq_c14 _ _ _ _ _ H1 K P ltac:(lia)) as (c1 & K1 & _ & S1 & R1 & _).
      assert (P1 : PI c1 s1) by (destruct I1 as [-> | ->]; exact R1).
      destruct (pwc_c14 _ _ _ _ _ H2 K1 P1 ltac:(lia)) as (c2 & K2 & _ & _ & R2 & _).
      assert (P2 : PI c2 s2) by (destruct I2 as [-> | ->]; exact R2).
      pose proof (TFrame_poll_expired s2) as F3. rewrite H3 in F3. cbn [snd] in F3.
      exists c2. split; [eapply trk_T; eassumption|eapply PI_T; eassumption].
    - destruct (pwrq_c14 _ _ _ _ _ H1 K P ltac:(lia)) as (c1 & K1 & _ & S1 & P1 & Q1).
      destruct (pwc_c14 _ _ _ _ _ H2 K1 P1 ltac:(lia)) as (c2 & K2 & _ & _ & P2 & Q2 & Q3).
      pose proof (TFrame_poll_expired s2) as F3. rewrite H3 in F3. cbn [snd] in F3.
      assert (QQ : Quiet s4).
      { eapply Quiet_X; [eapply XFrame_do_close, H4|]. eapply Quiet_T; [exact F3|].
        destruct (Q3 eq_refl) as [Q4 Q5]. split; [exact Q5|]. split; [|exact Q4].
        rewrite Q2. apply Q1. reflexivity. }
      pose proof (trk_close _ _ _ _ _ H4 (trk_T _ _ _ _ F3 K2)) as K4.
      eexists. split; [exact K4|].
      pose proof (pi_failed _ _ P2) as HF.
      destruct x; cbn [close_res c_step snd failed dirty last_flush_pending closed].
      + split; [|reflexivity]. constructor; cbn [failed closed]; auto.
      + reflexivity.
      + split; [|right; reflexivity]. constructor; cbn [failed closed]; auto.
    - destruct (pwrq_c14 _ _ _ _ _ H1 K P ltac:(lia)) as (c1 & K1 & _ & S1 & R1 & _).
      assert (P1 : PI c1 s1) by (destruct I1 as [-> | ->]; exact R1).
      destruct (pwc_c14 _ _ _ _ _ H2 K1 P1 ltac:(lia)) as (c2 & K2 & _ & S2 & R2 & _).
      assert (P2 : PI c2 s2) by (destruct I2 as [-> | ->]; exact R2).
      pose proof (TFrame_poll_expired s2) as F3. rewrite H3 in F3. cbn [snd] in F3.
      pose proof (trk_flush _ _ _ _ _ H4 (trk_T _ _ _ _ F3 K2) ltac:(lia)) as K4.
      eexists. split; [exact K4|].
      assert (P4 : PI c2 s4).
      { eapply PI_X; [eapply XFrame_do_flush, H4|]. eapply PI_T; eassumption. }
      destruct P4 as [HF HQ].
      destruct x; cbn [flush_res c_step snd failed dirty last_flush_pending closed].
      + split; [|left; reflexivity]. constructor; cbn [failed closed]; auto.
      + reflexivity.
      + split; [|right; reflexivity]. constructor; cbn [failed closed]; auto.
  Qed.

  Lemma pr_c14 s r s' c0 c :
    pump_read tp s = (r, s') -> Trk c0 s c -> PI c s -> (streak c = 0%nat \/ fused s = false) ->
    exists c', Trk c0 s' c' /\ PI c' s' /\ streak c' = 0%nat /\
      (forall a, r = PErr a -> rfailed c' = true) /\
      (r = PSome tt \/ r = PPend -> fused s' = false).
  Proof.
    intros H K P HS. apply pump_read_inv in H. destruct H as (x & s1 & H1 & -> & ->).
    pose proof (XFrame_do_next _ _ _ _ H1) as F1.
    destruct (do_next_eq _ _ _ _ H1) as [(Hf & -> & ->)|(Hf & E)].
    - exists c. split; [exact K|]. split; [exact P|].
      split; [destruct HS; congruence|]. split; [discriminate|].
      cbn [read_res]. intros [X|X]; discriminate.
    - pose proof (trk_next _ _ _ _ _ H1 K Hf) as K1.
      assert (P1 : PI (snd (cstep c (CNext x))) s1).
      { destruct (PI_X _ _ _ F1 P) as [A B]. constructor; cbn [c_step snd failed closed]; auto. }
      assert (Ef : fused s1 = match x with REof => true | _ => false end) by (rewrite E; reflexivity).
      eexists. split.
      { destruct x; try exact K1. eapply trk_T; [apply TFrame_complete|exact K1]. }
      split.
      { destruct x; try exact P1. eapply PI_T; [apply TFrame_complete|exact P1]. }
      split; [reflexivity|].
      split.
      + intros a Ha. destruct x; try discriminate. reflexivity.
      + intros [X|X]; destruct x; try discriminate; try exact Ef.
        rewrite (fused_T _ _ (TFrame_complete s1 x)). exact Ef.
  Qed.

  Lemma rl_c14 f s r s' c0 c :
    run_loop tp f s = (r, s') -> Trk c0 s c -> PI c s -> (streak c = 0%nat \/ fused s = false) ->
    exists c', Trk c0 s' c' /\
      match r with
      | RunErr _ => failed c' = true \/ rfailed c' = true
      | RunPending => PI c' s' /\ (dirty c' = false \/ last_flush_pending c' = true)
      | _ => PI c' s'
      end.
  Proof.
    revert s c. induction f as [|f IH]; intros s c H K P HS.
    - cbn [run_loop] in H. injection H as <- <-. exists c. auto.
    - apply run_loop_inv in H.
      destruct H as [a s1 H1|rd s1 a s2 H1 N1 H2|s1 wr s2 H1 H2 N2|rd s1 s2 H1 D1 H2 L2
                    |s1 wr s2 H1 H2 D2|rd s1 wr s2 r s3 H1 H2 D H3].
      + destruct (pr_c14 _ _ _ _ _ H1 K P HS) as (c1 & K1 & P1 & S1 & E1 & _).
        exists c1. split; [exact K1|]. right. eapply E1; reflexivity.
      + destruct (pr_c14 _ _ _ _ _ H1 K P HS) as (c1 & K1 & P1 & S1 & _ & _).
        destruct (pw_c14 _ _ _ _ _ H2 K1 P1 S1) as (c2 & K2 & R2).
        exists c2. split; [exact K2|]. left; exact R2.
      + destruct (pr_c14 _ _ _ _ _ H1 K P HS) as (c1 & K1 & P1 & S1 & _ & _).
        destruct (pw_c14 _ _ _ _ _ H2 K1 P1 S1) as (c2 & K2 & R2).
        exists c2. split; [exact K2|].
        destruct wr as [u| | |a]; try apply R2. exfalso. eapply N2; reflexivity.
      + destruct (pr_c14 _ _ _ _ _ H1 K P HS) as (c1 & K1 & P1 & S1 & _ & _).
        destruct (pw_c14 _ _ _ _ _ H2 K1 P1 S1) as (c2 & K2 & R2 & _).
        exists c2. auto.
      + destruct (pr_c14 _ _ _ _ _ H1 K P HS) as (c1 & K1 & P1 & S1 & _ & _).
        destruct (pw_c14 _ _ _ _ _ H2 K1 P1 S1) as (c2 & K2 & R2).
        exists c2. split; [exact K2|].
        destruct D2 as [-> |[-> _]]; [exact R2|]. destruct R2 as [R2 R3]. split; [exact R2|].
        left; exact R3.
      + destruct (pr_c14 _ _ _ _ _ H1 K P HS) as (c1 & K1 & P1 & S1 & _ & E1).
        destruct (pw_c14 _ _ _ _ _ H2 K1 P1 S1) as (c2 & K2 & R2).
        assert (Hf : fused s2 = false).
        { rewrite (fused_pump_write _ _ _ _ H2). apply E1. destruct D as [[-> _]|[-> _]]; auto. }
        assert (P2 : PI c2 s2).
        { destruct D as [[_ [-> |[-> |[-> _]]]]|[_ ->]]; apply R2. }
        eapply IH; [exact H3|exact K2|exact P2|right; exact Hf].
  Qed.

  (* ---------------------------------------------------------------- between polls *)
  Record GL c s : Prop := {
    g_failed : failed c = true -> terminal s <> None;
    g_term : terminal s <> None -> failed c || rfailed c = true;
    g_closed : closed c = true -> terminal s <> None \/ Quiet s }.
  (* the dispatch future has completed or was dropped: PollDispatch is a no-op from now on *)
  Definition inactive s : bool :=
    match finished s, dropped s with None, false => false | _, _ => true end.
  Definition GI c s : Prop := inactive s = true \/ GL c s.

  Definition creset c : cst :=
    {| licensed := licensed c; closed := closed c; failed := failed c; rfailed := rfailed c;
       dirty := dirty c; last_flush_pending := false; streak := 0 |}.

  Lemma c_poll_unfold c l p :
    c_poll fatal_cancel c (l, p) =
    let '(ok, c1) := ccalls (creset c) l in
    (ok && (negb p || negb (dirty c1) || last_flush_pending c1 || failed c1 || rfailed c1), c1).
  Proof. reflexivity. Qed.

  Lemma idle_ok_failed p d l f r : f || r = true -> negb p || negb d || l || f || r = true.
  Proof. destruct p, d, l, f, r; cbn; auto. Qed.
  Lemma idle_ok_flushed p d l f r : d = false \/ l = true -> negb p || negb d || l || f || r = true.
  Proof. destruct p, d, l, f, r; cbn; intros [H|H]; auto. Qed.

  Lemma GL_of_PI c s : PI c s -> terminal s = None -> GL c s.
  Proof.
    intros [A B] E. constructor.
    - congruence.
    - congruence.
    - intro H. right. apply B, H.
  Qed.
  Lemma GL_term c s a : terminal s = Some a -> failed c || rfailed c = true -> GL c s.
  Proof. intros E H. constructor; intros; try left; congruence. Qed.

  Lemma pd_c14 fuel s r s1 c :
    plog s = [] -> GL c s -> poll_dispatch tp fuel s = (r, s1) ->
    exists c2, c_poll fatal_cancel c (plog s1, is_pending r) = (true, c2) /\ GL c2 s1.
  Proof.
    intros Hp G. unfold poll_dispatch. destruct (terminal s) as [a|] eqn:Et.
    - destruct (shut_down s a) as [b s'] eqn:Es.
      pose proof (IFrame_shut_down s a) as F. rewrite Es in F. cbn [snd] in F.
      assert (Hf : failed c || rfailed c = true) by (apply G; congruence).
      assert (E : terminal s' = Some a) by (rewrite (pf_terminal _ _ (if_p _ _ F)); exact Et).
      assert (R : forall p, c_poll fatal_cancel c (plog s', p) = (true, creset c)).
      { intro p. rewrite c_poll_unfold, (if_plog _ _ F), Hp. cbn [c_calls creset dirty failed rfailed
          last_flush_pending]. rewrite idle_ok_failed by exact Hf. reflexivity. }
      intro H. exists (creset c).
      assert (s1 = s') by (destruct b; congruence). subst s1.
      split; [apply R|]. eapply GL_term; [exact E|exact Hf].
    - destruct (run_loop tp fuel s) as [rr s'] eqn:Er.
      assert (K : Trk (creset c) s (creset c)) by (unfold Trk; rewrite Hp; reflexivity).
      assert (P : PI (creset c) s).
      { constructor; cbn [creset failed closed].
        - destruct (failed c) eqn:E; [|reflexivity]. exfalso. apply (g_failed _ _ G); auto.
        - intro H. destruct (g_closed _ _ G H) as [X|X]; [congruence|exact X]. }
      destruct (rl_c14 _ _ _ _ _ _ Er K P (or_introl eq_refl)) as (c' & K' & R').
      assert (Et' : terminal s' = None).
      { rewrite (pf_terminal _ _ (PFrame_run_loop _ _ _ _ _ Er)). exact Et. }
      unfold Trk in K'.
      destruct rr as [|a| |].
      + intros [= <- <-]. exists c'. rewrite c_poll_unfold, K'. split; [reflexivity|].
        apply GL_of_PI; assumption.
      + destruct (shut_down (upd_term s' (Some a)) a) as [b s3] eqn:Es.
        pose proof (IFrame_shut_down (upd_term s' (Some a)) a) as F. rewrite Es in F. cbn [snd] in F.
        assert (Hf : failed c' || rfailed c' = true).
        { destruct R' as [-> | ->]; [reflexivity|apply orb_true_r]. }
        assert (E : terminal s3 = Some a) by (rewrite (pf_terminal _ _ (if_p _ _ F)); reflexivity).
        assert (Epl : plog s3 = plog s') by (rewrite (if_plog _ _ F); reflexivity).
        intro H. exists c'.
        assert (s1 = s3) by (destruct b; congruence). subst s1.
        split; [|eapply GL_term; eassumption].
        rewrite c_poll_unfold, Epl, K'. rewrite idle_ok_failed by exact Hf. reflexivity.
      + intros [= <- <-]. exists c'. rewrite c_poll_unfold, K'. destruct R' as [R1 R2].
        rewrite idle_ok_flushed by exact R2. split; [reflexivity|].
        apply GL_of_PI; assumption.
      + intros [= <- <-]. exists c'. rewrite c_poll_unfold, K'. split; [reflexivity|].
        apply GL_of_PI; assumption.
  Qed.

  (* ---------------------------------------------------------------- the other ops *)
  Lemma filter_nil_all {A} (f : A -> bool) l x : filter f l = [] -> In x l -> f x = false.
  Proof.
    induction l as [|y r IH]; cbn; [tauto|].
    destruct (f y) eqn:E; [discriminate|]. intros H [->|Hin]; auto.
  Qed.
  Lemma senders0_handle s h : senders s = 0%nat -> nth_error (handles s) h <> Some true.
  Proof.
    unfold senders. intros H E. apply nth_error_In in E.
    assert (F : filter (fun b : bool => b) (handles s) = []).
    { destruct (filter _ (handles s)); [reflexivity|cbn in H; lia]. }
    pose proof (filter_nil_all _ _ _ F E). discriminate.
  Qed.
  Lemma senders0_call s i k :
    senders s = 0%nat -> nth_error (calls s) i = Some k -> live_phase (c_phase k) = false.
  Proof.
    unfold senders. intros H E. apply nth_error_In in E.
    assert (F : filter (fun k0 : call => live_phase (c_phase k0)) (calls s) = []).
    { destruct (filter _ (calls s)); [reflexivity|cbn in H; lia]. }
    exact (filter_nil_all _ _ _ F E).
  Qed.

  Lemma quiet_poll_call s i : Quiet s -> poll_call s i = (CNothing, s).
  Proof.
    intros (Q & _). unfold poll_call. destruct (nth_error (calls s) i) as [k|] eqn:E; [|reflexivity].
    pose proof (senders0_call _ _ _ Q E) as L. destruct (c_phase k); try discriminate; reflexivity.
  Qed.
  Lemma quiet_guard_close s i : Quiet s -> guard_close s i = s.
  Proof.
    intros (Q & _). unfold guard_close. destruct (nth_error (calls s) i) as [k|] eqn:E; [|reflexivity].
    pose proof (senders0_call _ _ _ Q E) as L. destruct (c_phase k); try discriminate; reflexivity.
  Qed.
  Lemma quiet_guard_cancel s i : Quiet s -> guard_cancel s i = s.
  Proof.
    intros (Q & _). unfold guard_cancel. destruct (nth_error (calls s) i) as [k|] eqn:E; [|reflexivity].
    pose proof (senders0_call _ _ _ Q E) as L. destruct (c_phase k); try discriminate; reflexivity.
  Qed.

  Variable fuel_of : cstate -> nat.

  Lemma quiet_step s o s' os :
    Quiet s -> step tp fuel_of s o = (s', os) -> o <> PollDispatch -> o <> DropDispatch -> Quiet s'.
  Proof.
    intros Q H N1 N2. pose proof Q as (Q1 & Q2 & Q3).
    destruct o; cbn [step] in H; try congruence.
    - injection H as <- _. pose proof (senders0_handle s h Q1).
      destruct (nth_error _ _) as [[|]|]; congruence.
    - injection H as <- _. pose proof (senders0_handle s h Q1).
      destruct (nth_error _ _) as [[|]|]; congruence.
    - injection H as <- _. pose proof (senders0_handle s h Q1) as N.
      assert (E : match nth_error (handles s) h with Some true => PNew | _ => PGone end = PGone).
      { destruct (nth_error _ _) as [[|]|]; congruence. }
      rewrite E. unfold Quiet, senders in *. cbn [handles calls queue cancels upd_calls].
      rewrite filter_app, app_length. cbn. split; [lia|auto].
    - rewrite (quiet_poll_call s i Q) in H. injection H as <- _. exact Q.
    - injection H as <- _. rewrite (quiet_guard_close s i Q), (quiet_guard_cancel s i Q).
      destruct (option_map _ _) as [[]|]; exact Q.
    - injection H as <- _. rewrite (quiet_guard_close s i Q).
      destruct (option_map _ _) as [[]|]; exact Q.
    - injection H as <- _. rewrite (quiet_guard_cancel s i Q). exact Q.
    - injection H as <- _. exact Q.
    - injection H as <- _. exact Q.
  Qed.

  Lemma GI_step_other c s o s' os :
    GI c s -> step tp fuel_of s o = (s', os) -> o <> PollDispatch -> o <> DropDispatch -> GI c s'.
  Proof.
    intros G H N1 N2. pose proof (UFrame_step _ _ _ _ _ _ H N1 N2) as F.
    destruct G as [G|G].
    - left. unfold inactive in *. rewrite (uf_finished _ _ F), (uf_dropped _ _ F). exact G.
    - right. destruct G as [G1 G2 G3]. constructor; rewrite (uf_terminal _ _ F); auto.
      intro HC. destruct (G3 HC) as [X|X]; [left; exact X|right].
      eapply quiet_step; eassumption.
  Qed.

  (* ---------------------------------------------------------------- the monitor side *)
  Lemma m_contract_rec_op (m : mst) (o : op (T := T)) : m_contract (rec_op m o) = m_contract m.
  Proof.
    destruct o; cbn [rec_op]; try reflexivity;
      repeat match goal with
             | |- context [match ?x with _ => _ end] => destruct x
             | |- context [if ?x then _ else _] => destruct x
             end; reflexivity.
  Qed.
  Lemma m_contract_rec_call m x : m_contract (rec_call m x) = m_contract m.
  Proof. destruct x as [r|[] r|r|r|[]]; reflexivity. Qed.
  Lemma chk_calls_c14 maxif l : forall m,
    m_contract (snd (chk_calls maxif m l)) = m_contract m /\ v14 (fst (chk_calls maxif m l)) = true.
  Proof.
    induction l as [|x r IH]; intro m; cbn [chk_calls]; [split; reflexivity|].
    specialize (IH (rec_call m x)). destruct (chk_calls maxif (rec_call m x) r) as [v' m'].
    cbn [fst snd] in *. destruct IH as [IH1 IH2]. rewrite IH1, m_contract_rec_call.
    split; [reflexivity|]. cbn [vand v14]. rewrite IH2.
    destruct x as [r0|[] r0|r0|r0|[]]; reflexivity.
  Qed.

  Lemma step_c14 maxif s o s' os m :
    GI (m_contract m) s -> step tp fuel_of s o = (s', os) ->
    v14 (fst (chk_obs maxif o m os)) = true /\ GI (m_contract (snd (chk_obs maxif o m os))) s'.
  Proof.
    intros G H.
    assert (Easy : o <> PollDispatch -> o <> DropDispatch -> os = [] ->
                   v14 (fst (chk_obs maxif o m os)) = true /\
                   GI (m_contract (snd (chk_obs maxif o m os))) s').
    { intros N1 N2 ->. pose proof (GI_step_other _ _ _ _ _ G H N1 N2) as G'.
      unfold chk_obs. destruct o; cbn [fst snd]; try congruence;
        rewrite m_contract_rec_op; split; try reflexivity; exact G'. }
    destruct o; try (apply Easy; try discriminate; cbn [step] in H; congruence).
    - (* PollCall *)
      pose proof (GI_step_other _ _ _ _ _ G H ltac:(discriminate) ltac:(discriminate)) as G'.
      cbn [step] in H. destruct (poll_call s i) as [r s1]. injection H as <- <-.
      unfold chk_obs. destruct r; cbn [fst snd m_contract upd_m]; rewrite ?m_contract_rec_op;
        split; try reflexivity; exact G'.
    - (* PollDispatch *)
      clear Easy. cbn [step] in H. unfold chk_obs.
      destruct (finished s) eqn:Ef; [injection H as <- <-; cbn [fst snd];
        rewrite m_contract_rec_op; split; [reflexivity|exact G]|].
      destruct (dropped s) eqn:Ed; [injection H as <- <-; cbn [fst snd];
        rewrite m_contract_rec_op; split; [reflexivity|exact G]|].
      destruct G as [G|G]; [unfold inactive in G; rewrite Ef, Ed in G; discriminate|].
      set (s0 := upd_tr s (tr s) (fused s) []) in *.
      assert (G0 : GL (m_contract m) s0).
      { destruct G as [G1 G2 G3]. constructor; [exact G1|exact G2|exact G3]. }
      destruct (poll_dispatch tp (fuel_of s0) s0) as [r s1] eqn:Ep.
      destruct (pd_c14 (fuel_of s0) s0 r s1 _ (eq_refl : plog s0 = []) G0 Ep) as (c2 & Ec & G2).
      injection H as <- <-. cbn [app gauges].
      pose proof (chk_calls_c14 maxif (plog s1) (rec_op (T := T) m PollDispatch)) as [C1 C2].
      destruct (chk_calls maxif (rec_op (T := T) m PollDispatch) (plog s1)) as [v m2]. cbn [fst snd] in C1, C2.
      rewrite C1, m_contract_rec_op, Ec. cbn [fst snd vand v14 m_contract upd_m].
      rewrite C2. split; [reflexivity|].
      destruct r as [d| |].
      + left. reflexivity.
      + right. destruct G2 as [A B C]. constructor; [exact A|exact B|exact C].
      + right. destruct G2 as [A B C]. constructor; [exact A|exact B|exact C].
    - (* DropDispatch *)
      cbn [step] in H. injection H as <- <-. unfold chk_obs. cbn [fst snd].
      rewrite m_contract_rec_op. split; [reflexivity|]. left.
      destruct (dropped s) eqn:Ed; unfold inactive.
      + rewrite Ed. destruct (finished s); reflexivity.
      + unfold drop_dispatch. cbn [dropped upd_fin finished]. destruct (finished _); reflexivity.
  Qed.

  Lemma run_c14 maxif ops : forall s m,
    GI (m_contract m) s -> v14 (chk_run maxif m ops (fst (run_from tp fuel_of s ops))) = true.
  Proof.
    induction ops as [|o r IH]; intros s m G; cbn [run_from]; [reflexivity|].
    destruct (step tp fuel_of s o) as [s1 l] eqn:Es.
    destruct (step_c14 maxif _ _ _ _ m G Es) as [V G'].
    specialize (IH s1 (snd (chk_obs maxif o m l)) G').
    destruct (run_from tp fuel_of s1 r) as [ls s2]. cbn [fst chk_run] in *.
    destruct (chk_obs maxif o m l) as [v m']. cbn [fst snd] in *.
    cbn [vand v14]. rewrite V, IH. reflexivity.
  Qed.
End C14.

Theorem c14_holds {T : Type} : @stmt_c14 T.
Proof.
  unfold stmt_c14, c14_ok, monitors, client_trace. intros tp fuel_of t0 qcap maxif ops.
  apply run_c14. right. constructor; cbn; intros; try discriminate. congruence.
Qed.
Print Assumptions c14_holds.
