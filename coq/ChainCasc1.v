(* Chain proofs, cascade, client side: the client model's functions over the link transport
   Chain.ctp, on a link neither end of which has been dropped.  Part 1: what the transport
   answers; which ids a client holds back (queued, or waiting for a queue slot). *)
From Coq Require Import List Bool Arith NArith Lia.
Import ListNotations.
From TarpcV Require Import Base Transport Client ClientLemmas ClientProofsG1Frames ClientSimBase
     ClientProofsG1Rec.
From TarpcV Require Server Chain ChainInv ChainCross ChainCli.

Arguments N.modulo : simpl never.
Arguments N.add : simpl never.
Arguments N.mul : simpl never.
Arguments N.min : simpl never.
Arguments N.sub : simpl never.

Notation link := Chain.link.
Notation ctp := Chain.ctp.
Notation cst := (@cstate Chain.link).

(* ------------------------------------------------------------------------------------------ *)
(* the transport's answers while the server end is alive *)
Section Clean.
  Implicit Types s : cst.

  Definition sg s : bool := Chain.l_sgone (tr s).

  Lemma do_ready_clean s : sg s = false ->
    do_ready ctp s = (TOk, upd_tr s (tr s) (fused s) (plog s ++ [CReady TOk])).
  Proof. unfold sg, do_ready. cbn. intros ->. reflexivity. Qed.
  Lemma do_flush_clean s :
    do_flush ctp s = (TOk, upd_tr s (tr s) (fused s) (plog s ++ [CFlush TOk])).
  Proof. reflexivity. Qed.
  Lemma do_close_clean s :
    do_close ctp s = (TOk, upd_tr s (tr s) (fused s) (plog s ++ [CClose TOk])).
  Proof. reflexivity. Qed.
  Lemma do_send_clean s m : sg s = false ->
    do_send ctp s m =
    (SOk, upd_tr s (ChainCross.with_c2s (tr s) (Chain.l_c2s (tr s) ++ [Chain.conv_msg m])) (fused s)
                 (plog s ++ [CSend m SOk])).
  Proof. unfold sg, do_send, ChainCross.with_c2s. cbn. intros ->. reflexivity. Qed.
  Lemma ensure_writeable_clean s : sg s = false ->
    ensure_writeable ctp s = (PSome tt, upd_tr s (tr s) (fused s) (plog s ++ [CReady TOk])).
  Proof. intro H. unfold ensure_writeable. rewrite (do_ready_clean s H). reflexivity. Qed.

  Lemma do_next_clean s : sg s = false -> fused s = false ->
    do_next ctp s =
    match Chain.l_s2c (tr s) with
    | x :: r => (RItem x, upd_tr s (ChainCross.with_s2c (tr s) r) false (plog s ++ [CNext (RItem x)]))
    | [] => (RPending, upd_tr s (tr s) false (plog s ++ [CNext RPending]))
    end.
  Proof.
    unfold sg, do_next, ChainCross.with_s2c. intros H ->. cbn. destruct (Chain.l_s2c (tr s)); rewrite ?H; reflexivity.
  Qed.
End Clean.

(* ------------------------------------------------------------------------------------------ *)
(* the ids a client holds back *)
Section HeldBack.
  Implicit Types s : cst.

  Definition staged_ids s : list N := map c_id (filter (fun k => gS (c_phase k)) (calls s)).
  Definition queue_ids s : list N := map q_id (queue s).
  Definition held s : list N := queue_ids s ++ staged_ids s.

  Lemma sent_id_held s id :
    ChainInv.sent_id s id <-> (id < next_id s)%N /\ ~ In id (held s).
  Proof.
    unfold held, queue_ids, staged_ids. split.
    - intros [A B C]. split; [exact A|]. intro H. apply in_app_or in H. destruct H as [H|H].
      + apply in_map_iff in H. destruct H as (q & E & Hq). exact (B q Hq E).
      + apply in_map_iff in H. destruct H as (k & E & Hk). apply filter_In in Hk.
        exact (C k (proj1 Hk) (proj2 Hk) E).
    - intros [A B]. constructor; [exact A| |].
      + intros q Hq E. apply B, in_or_app. left. rewrite <- E. apply in_map, Hq.
      + intros k Hk Hg E. apply B, in_or_app. right. rewrite <- E. apply in_map, filter_In. auto.
  Qed.

  (* nothing new is held back, except ids handed out from now on *)
  Definition SL s s' : Prop :=
    (next_id s <= next_id s')%N /\
    forall x, In x (held s') -> In x (held s) \/ (next_id s <= x)%N.

  Lemma SL_refl s : SL s s.
  Proof. split; [lia|auto]. Qed.
  Lemma SL_trans s1 s2 s3 : SL s1 s2 -> SL s2 s3 -> SL s1 s3.
  Proof.
    intros [A B] [A' B']. split; [lia|]. intros x H. destruct (B' x H) as [H1|H1]; [|right; lia].
    apply B, H1.
  Qed.
  Lemma SL_sent s s' id : SL s s' -> ChainInv.sent_id s id -> ChainInv.sent_id s' id.
  Proof.
    intros [A B] H. apply sent_id_held in H. apply sent_id_held. destruct H as [H1 H2].
    split; [lia|]. intro H. destruct (B id H) as [H3|H3]; [auto|lia].
  Qed.
  Lemma SL_eq s s' :
    next_id s' = next_id s -> queue s' = queue s -> calls s' = calls s -> SL s s'.
  Proof. intros E1 E2 E3. unfold SL, held, queue_ids, staged_ids. rewrite E1, E2, E3. split; [lia|auto]. Qed.
  Lemma SL_sub s s' :
    next_id s' = next_id s -> incl (held s') (held s) -> SL s s'.
  Proof. intros E1 E2. split; [lia|]. intros x H. left. apply E2, H. Qed.

  (* the call table under set_phase *)
  Lemma staged_set_nth l i k k' x :
    nth_error l i = Some k ->
    In x (map c_id (filter (fun k => gS (c_phase k)) (set_nth i k' l))) ->
    In x (map c_id (filter (fun k => gS (c_phase k)) l)) \/ (gS (c_phase k') = true /\ x = c_id k').
  Proof.
    revert i; induction l as [|y r IH]; intros [|i]; cbn [nth_error set_nth]; try discriminate.
    - intros [= ->]. cbn [filter]. destruct (gS (c_phase k')) eqn:G; cbn [map].
      + intros [<-|H]; [right; auto|]. left. destruct (gS (c_phase k)); [right|]; exact H.
      + intro H. left. destruct (gS (c_phase k)); [right|]; exact H.
    - intros E. cbn [filter]. destruct (gS (c_phase y)); cbn [map].
      + intros [<-|H]; [left; left; reflexivity|]. destruct (IH i E H) as [H1|H1]; [left; right; exact H1|right; exact H1].
      + apply IH, E.
  Qed.

  Lemma staged_set_phase s i p x :
    In x (staged_ids (set_phase s i p)) ->
    In x (staged_ids s) \/ exists k, nth_error (calls s) i = Some k /\ gS p = true /\ x = c_id k.
  Proof.
    unfold staged_ids, set_phase. destruct (nth_error (calls s) i) as [k|] eqn:E; [|auto].
    cbn [calls upd_calls]. intro H. destruct (staged_set_nth _ _ _ _ _ E H) as [H1|[H1 H2]]; [auto|].
    right. exists k. cbn in *. auto.
  Qed.

  Lemma In_staged s k : In k (calls s) -> gS (c_phase k) = true -> In (c_id k) (staged_ids s).
  Proof. intros H G. unfold staged_ids. apply in_map, filter_In. auto. Qed.

  Lemma held_set_phase_dead s i p : gS p = false -> incl (held (set_phase s i p)) (held s).
  Proof.
    intros G x H. unfold held in *. apply in_app_or in H. apply in_or_app. destruct H as [H|H].
    - left. unfold queue_ids in *. rewrite ChainCli.queue_set_phase in H. exact H.
    - right. destruct (staged_set_phase _ _ _ _ H) as [H1|(k & _ & H2 & _)]; [exact H1|congruence].
  Qed.

  Lemma held_set_phase_staged s i p k :
    nth_error (calls s) i = Some k -> gS (c_phase k) = true -> incl (held (set_phase s i p)) (held s).
  Proof.
    intros E G x H. unfold held in *. apply in_app_or in H. apply in_or_app. destruct H as [H|H].
    - left. unfold queue_ids in *. rewrite ChainCli.queue_set_phase in H. exact H.
    - right. destruct (staged_set_phase _ _ _ _ H) as [H1|(k' & E' & _ & ->)]; [exact H1|].
      rewrite E in E'. injection E' as <-. apply In_staged; [eapply nth_error_In, E|exact G].
  Qed.

  Lemma held_release_permit s : winv s -> incl (held (release_permit s)) (held s).
  Proof.
    intros [A _]. unfold release_permit. destruct (waiters s) as [|w r] eqn:E.
    - intros x H. exact H.
    - destruct (A w (or_introl eq_refl)) as (k & Hk & Hp).
      intros x H. eapply (held_set_phase_staged (upd_q s (permits s) (queue s) r (rx_closed s)) w PAssigned k) in H.
      + exact H.
      + exact Hk.
      + rewrite Hp. reflexivity.
  Qed.

  Lemma held_T s s' : TFrame s s' -> held s' = held s.
  Proof. intro F. unfold held, queue_ids, staged_ids. rewrite (tf_calls _ _ F), (tf_queue _ _ F). reflexivity. Qed.
  Lemma nid_T s s' : TFrame s s' -> next_id s' = next_id s.
  Proof. intro F. apply (pf_nid _ _ (TFrame_P _ _ F)). Qed.
  Lemma SL_T s s' : TFrame s s' -> SL s s'.
  Proof. intro F. apply SL_sub; [apply nid_T, F|rewrite (held_T _ _ F); apply incl_refl]. Qed.
End HeldBack.

(* ------------------------------------------------------------------------------------------ *)
(* Part 2: one poll of the dispatch keeps the node invariant (the node's server is fixed) *)
Section Dispatch.
  Variable T : N.
  Variable sv : ChainInv.sstate.
  Implicit Types c : cst.

  Record CI c : Prop := {
    ci_x : ChainInv.cross T [] c (tr c) sv;
    ci_live : Live c;
    ci_fused : fused c = false;
    ci_now : now c = T;
    ci_clq : forall q, In q (queue c) -> (q_deadline q <= T + ChainInv.MAXT)%N }.

  Lemma ci_sg c : CI c -> sg c = false.
  Proof. intros [X _ _ _ _]. apply (ChainInv.x_sgone _ _ _ _ _ X). Qed.

  Lemma sent_eq c c' :
    next_id c' = next_id c -> queue c' = queue c -> calls c' = calls c ->
    forall i, ChainInv.sent_id c i -> ChainInv.sent_id c' i.
  Proof. intros E1 E2 E3 i. apply SL_sent, SL_eq; assumption. Qed.

  (* only the log (and possibly the fuse flag, from false to false) changes *)
  Lemma CI_log c lg : CI c -> CI (upd_tr c (tr c) false lg).
  Proof.
    intros [X L F Nw Q]. constructor; cbn [tr upd_tr fused now queue]; try assumption; try reflexivity.
    - eapply ChainCross.cross_cframe; [..|exact X]; try reflexivity. apply sent_eq; reflexivity.
    - eapply Live_X; [|exact L]. apply XFrame_upd_tr.
  Qed.

  Lemma CI_ensure_writeable c : CI c ->
    exists c', ensure_writeable ctp c = (PSome tt, c') /\ CI c' /\ XFrame c c'.
  Proof.
    intro H. rewrite (ensure_writeable_clean c (ci_sg c H)). eexists. split; [reflexivity|].
    rewrite (ci_fused c H). split; [apply CI_log, H|apply XFrame_upd_tr].
  Qed.

  Lemma reqs_ok_notin (Q : N -> list Server.cmsg -> Prop) id l :
    ~ In id (ChainInv.req_ids l) ->
    ChainInv.reqs_ok (fun id' dl rest => id' = id -> Q dl rest) l.
  Proof.
    induction l as [|m r IH]; cbn; [auto|]. destruct m as [id' dl tr b|]; cbn.
    - intro H. split; [intro E; exfalso; apply H; left; exact E|apply IH; intro Hin; apply H; right; exact Hin].
    - exact IH.
  Qed.

  (* ---- reading ---- *)
  Lemma CI_pump_read c r c' :
    CI c -> pump_read ctp c = (r, c') -> CI c' /\ (r = PSome tt \/ r = PPend).
  Proof.
    intros H E. pose proof (Live_pump_read ctp _ _ _ (ci_live c H) E) as [L' _].
    pose proof (PFrame_pump_read ctp _ _ _ E) as PF.
    unfold pump_read in E. rewrite (do_next_clean c (ci_sg c H) (ci_fused c H)) in E.
    destruct H as [X L F Nw Q].
    destruct (Chain.l_s2c (tr c)) as [|x rest] eqn:ES.
    - injection E as <- <-. split; [|right; reflexivity].
      apply CI_log. constructor; assumption.
    - injection E as <- <-. split; [|left; reflexivity].
      set (c1 := upd_tr c (ChainCross.with_s2c (tr c) rest) false (plog c ++ [CNext (RItem x)])) in *.
      assert (X1 : ChainInv.cross T [] c1 (tr c1) sv).
      { eapply ChainCross.cross_cframe with (c := c); [reflexivity|reflexivity|apply sent_eq; reflexivity|].
        unfold c1. cbn [tr upd_tr]. eapply ChainCross.cross_pop_s2c; eassumption. }
      assert (Hh : In (r_id x) (ChainInv.hids sv)).
      { apply (ChainInv.x_s2c_h _ _ _ _ _ X). rewrite ES. left. reflexivity. }
      assert (Hu : ~ In (r_id x) (ChainInv.tids sv)).
      { apply (ChainInv.x_s2c_u _ _ _ _ _ X). rewrite ES. left. reflexivity. }
      assert (Hr : ~ In (r_id x) (ChainInv.req_ids (Chain.l_c2s (tr c)))).
      { pose proof (ChainInv.x_nodup _ _ _ _ _ X) as ND. rewrite app_nil_r in ND.
        intro Hin. clear - ND Hin Hh. induction (ChainInv.req_ids (Chain.l_c2s (tr c))) as [|y r IH]; [destruct Hin|].
        cbn in ND. inversion ND as [|? ? Hn Hd]; subst. destruct Hin as [->|Hin].
        - apply Hn, in_or_app. right. exact Hh.
        - apply IH; assumption. }
      assert (TF : TFrame c1 (complete c1 x)) by apply TFrame_complete.
      constructor.
      + rewrite (if_tr _ _ (tf_i _ _ TF)).
        eapply ChainCross.cross_remove with (c := c1) (id := r_id x); [| | | | |exact X1].
        * intro y. unfold ChainInv.ifl, complete, complete_request.
          destruct (alookup (r_id x) (inflight c1)) eqn:EA; cbn [snd].
          -- rewrite (tf_i _ _ (TFrame_slot_send _ _ _)) || idtac.
             replace (inflight (slot_send (upd_if c1 (aremove (r_id x) (inflight c1)) (aremove (r_id x) (timers c1))) (r_id x)
                        match r_body x with BOk v => OReply v | BErr k => OSrvErr k end))
               with (aremove (r_id x) (inflight c1)).
             ++ apply in_map_fst_aremove.
             ++ unfold slot_send. destruct (sl_rx_closed _); reflexivity.
          -- split; [intro Hy; split; [exact Hy|]|intros [Hy _]; exact Hy].
             intros ->. apply (alookup_none_notin _ _ EA). exact Hy.
        * intros y w. unfold complete, complete_request.
          destruct (alookup (r_id x) (inflight c1)) eqn:EA; cbn [snd]; [|auto].
          replace (timers (slot_send (upd_if c1 (aremove (r_id x) (inflight c1)) (aremove (r_id x) (timers c1))) (r_id x)
                     match r_body x with BOk v => OReply v | BErr k => OSrvErr k end))
            with (aremove (r_id x) (timers c1)) by (unfold slot_send; destruct (sl_rx_closed _); reflexivity).
          intro Hin. apply (In_aremove _ _ _ _ Hin).
        * intro i. apply SL_sent, SL_T, TF.
        * unfold c1. cbn [tr upd_tr ChainCross.with_s2c Chain.l_c2s]. apply reqs_ok_notin. exact Hr.
        * intros e He Heq. exfalso. apply Hu. rewrite <- Heq. apply in_map, He.
      + exact L'.
      + rewrite (fused_T _ _ TF). reflexivity.
      + rewrite (pf_now _ _ PF). exact Nw.
      + rewrite (tf_queue _ _ TF). exact Q.
  Qed.

  (* ---- the dequeue loop: the queue shrinks, nothing new is held back ---- *)
  Lemma nrl_shape f : forall c r c',
    Live c -> next_request_loop f c = (r, c') ->
    SL c c' /\ incl (queue c') (queue c) /\
    match r with PSome q => In q (queue c) | PErr _ => False | _ => True end.
  Proof.
    induction f as [|f IH]; intros c r c' L; cbn [next_request_loop];
      [intros [= <- <-]; split; [apply SL_refl|split; [apply incl_refl|exact I]]|].
    unfold q_poll_recv. destruct (queue c) as [|q rest] eqn:Eq.
    - destruct (Nat.eqb _ _); [intros [= <- <-]; rewrite Eq; split; [apply SL_refl|split; [apply incl_refl|exact I]]|].
      destruct (_ && _); intros [= <- <-]; rewrite Eq; (split; [apply SL_refl|split; [apply incl_refl|exact I]]).
    - destruct (Live_pop c q rest L Eq) as [LT _].
      set (c0 := upd_q c (permits c) rest (waiters c) (rx_closed c)) in *.
      set (c1 := release_permit c0) in *.
      assert (W0 : winv c0) by (eapply winv_frame; [apply L|reflexivity|reflexivity]).
      assert (S1 : SL c c1).
      { apply SL_sub.
        - unfold c1. destruct (release_permit_other c0) as (_ & _ & _ & _ & -> & _). reflexivity.
        - intros x Hx. apply (held_release_permit c0 W0) in Hx. unfold held, queue_ids in *.
          cbn [queue upd_q c0] in Hx. rewrite Eq. cbn [map]. apply in_app_or in Hx. apply in_or_app.
          destruct Hx as [Hx|Hx]; [left; right; exact Hx|right; exact Hx]. }
      assert (Q1 : queue c1 = rest).
      { unfold c1. destruct (release_permit_other c0) as (-> & _). reflexivity. }
      destruct (sl_rx_closed (get_slot c1 (q_id q))) eqn:Rx.
      + intro H. apply IH in H; [|apply Live_skip, LT]. destruct H as (S2 & I2 & R2).
        split; [eapply SL_trans; [exact S1|]; eapply SL_trans; [apply SL_T, TFrame_slot_tx_drop|exact S2]|].
        split.
        * intros y Hy. apply I2 in Hy. change (queue (slot_tx_drop c1 (q_id q))) with (queue c1) in Hy.
          rewrite Q1 in Hy. right. exact Hy.
        * destruct r as [q'| | |]; try exact R2.
          change (queue (slot_tx_drop c1 (q_id q))) with (queue c1) in R2. rewrite Q1 in R2. right. exact R2.
      + intros [= <- <-]. split; [exact S1|]. split; [rewrite Q1; intros y Hy; right; exact Hy|left; reflexivity].
  Qed.

  Lemma held_not_TT c id : TT c id = 0%nat -> ~ In id (held c).
  Proof.
    unfold TT, CS, CQ. intros Z H. unfold held, queue_ids, staged_ids in H. apply in_app_or in H.
    destruct H as [H|H].
    - apply in_map_iff in H. destruct H as (q & E & Hq).
      assert (1 <= cQ (queue c) id)%nat by (apply cQ_pos_In; eauto). lia.
    - apply in_map_iff in H. destruct H as (k & E & Hk). apply filter_In in Hk. destruct Hk as [Hk G].
      apply In_nth_error in Hk. destruct Hk as [i Hi].
      assert (1 <= cP gS (calls c) id)%nat by (apply cP_pos; eauto). lia.
  Qed.

  (* ---- writing a request ---- *)
  Lemma CI_poll_write_request c r c' :
    CI c -> poll_write_request ctp c = (r, c') -> CI c' /\ (forall a, r <> PErr a).
  Proof.
    intros H E. pose proof (Live_poll_write_request ctp _ _ _ (ci_live c H) E) as [L' _].
    pose proof (PFrame_poll_write_request ctp _ _ _ E) as PF.
    pose proof (fused_poll_write_request ctp _ _ _ E) as FF.
    apply poll_write_request_inv in E.
    destruct (CI_ensure_writeable c H) as (c1 & E1 & H1 & F1).
    destruct E as [_|r1 s1 _ E1' Hr|r1 s1 s2 _ E1' E2 Hr|s1 q s2 w s3 _ E1' E2 E3].
    - split; [exact H|discriminate].
    - rewrite E1 in E1'. injection E1' as <- <-. discriminate.
    - rewrite E1 in E1'. injection E1' as <-.
      destruct (nrl_shape _ _ _ _ (ci_live _ H1) E2) as (S2 & I2 & R2).
      pose proof (QFrame_next_request_loop (S (length (queue c1))) c1) as QF. rewrite E2 in QF. cbn [snd] in QF.
      split; [|destruct r1; try discriminate; contradiction].
      destruct H1 as [X1 L1 Fu1 N1 Q1]. constructor.
      + rewrite (if_tr _ _ (qf_i _ _ QF)).
        eapply ChainCross.cross_cframe; [| | |exact X1].
        * unfold ChainInv.ifl. rewrite (qf_inflight _ _ QF). reflexivity.
        * apply (qf_timers _ _ QF).
        * intro i. apply SL_sent, S2.
      + exact L'.
      + rewrite FF. apply (ci_fused c H).
      + rewrite (pf_now _ _ PF). apply (ci_now c H).
      + intros y Hy. apply Q1, I2, Hy.
    - rewrite E1 in E1'. injection E1' as <-.
      destruct (nrl_shape _ _ _ _ (ci_live _ H1) E2) as (S2 & I2 & R2).
      pose proof (QFrame_next_request_loop (S (length (queue c1))) c1) as QF. rewrite E2 in QF. cbn [snd] in QF.
      destruct (Live_next_request_loop _ _ _ _ (ci_live _ H1) E2) as [_ [LT Rx]].
      destruct H1 as [X1 L1 Fu1 N1 Q1].
      assert (X2 : ChainInv.cross T [] s2 (tr s2) sv).
      { rewrite (if_tr _ _ (qf_i _ _ QF)).
        eapply ChainCross.cross_cframe; [| | |exact X1].
        - unfold ChainInv.ifl. rewrite (qf_inflight _ _ QF). reflexivity.
        - apply (qf_timers _ _ QF).
        - intro i. apply SL_sent, S2. }
      assert (SG2 : sg (insert_request s2 q) = false).
      { unfold sg. change (tr (insert_request s2 q)) with (tr s2). apply (ChainInv.x_sgone _ _ _ _ _ X2). }
      rewrite (do_send_clean _ _ SG2) in E3. injection E3 as <- <-.
      split; [|discriminate].
      set (w := timer_instant s2 (q_deadline q)).
      assert (N2 : now s2 = T) by (rewrite (pf_now _ _ (if_p _ _ (qf_i _ _ QF))); exact N1).
      assert (Hcl : (q_deadline q <= T + ChainInv.MAXT)%N) by (apply Q1, R2).
      constructor.
      + cbn [tr upd_tr]. change (tr (insert_request s2 q)) with (tr s2).
        unfold req_msg, Chain.conv_msg.
        eapply ChainCross.cross_send_req with (c := s2) (w := w); [| | | | | | |exact X2].
        * intro y. unfold ChainInv.ifl. cbn [inflight upd_tr insert_request upd_if aset map fst In].
          rewrite in_map_fst_aremove. split.
          -- intros [<-|[Hy _]]; auto.
          -- intros [->|Hy]; [left; reflexivity|].
             destruct (N.eq_dec y (q_id q)) as [->|Hne]; [left; reflexivity|right; auto].
        * intros y w'. cbn [timers upd_tr insert_request upd_if]. intro Hin.
          destruct (In_aset _ _ _ _ _ Hin) as [[-> ->]|[Hin' Hne]]; [left; auto|right; auto].
        * intro i. apply SL_sent. apply SL_eq; reflexivity.
        * apply sent_id_held. split; [apply (lt_fresh _ _ LT)|].
          change (held (upd_tr (insert_request s2 q) _ _ _)) with (held s2).
          apply held_not_TT, (lt_zero _ _ LT).
        * unfold ChainCross.ids_down. intro Hin.
          pose proof (ChainInv.x_sent _ _ _ _ _ X1 (q_id q)) as HS.
          rewrite (if_tr _ _ (qf_i _ _ QF)) in Hin.
          specialize (HS Hin). apply sent_id_held in HS. destruct HS as [_ HS]. apply HS.
          unfold held. apply in_or_app. left. unfold queue_ids. apply in_map, R2.
        * unfold w, timer_instant. rewrite N2. unfold ChainInv.MAXT, max_timeout_ms in *. lia.
        * exact Hcl.
      + exact L'.
      + rewrite FF. apply (ci_fused c H).
      + rewrite (pf_now _ _ PF). apply (ci_now c H).
      + intros y Hy. cbn [queue upd_tr insert_request upd_if] in Hy. apply Q1, I2, Hy.
  Qed.

  (* ---- the cancellation loop: at most one in-flight request is forgotten ---- *)
  Lemma ncl_shape f : forall c r c',
    next_cancel_loop f c = (r, c') ->
    match r with
    | PSome (id, e) => inflight c' = aremove id (inflight c) /\ timers c' = aremove id (timers c)
    | PErr _ => False
    | _ => inflight c' = inflight c /\ timers c' = timers c
    end.
  Proof.
    induction f as [|f IH]; intros c r c'; cbn [next_cancel_loop]; [intros [= <- <-]; auto|].
    unfold c_poll_recv. destruct (cancels c) as [|id rest].
    - destruct (Nat.eqb _ _); intros [= <- <-]; auto.
    - unfold cancel_request. cbn [inflight upd_cancels timers].
      destruct (alookup id (inflight c)) as [e|] eqn:EA.
      + intros [= <- <-]. cbn. auto.
      + intro H. apply IH in H. cbn [inflight timers upd_cancels] in H. exact H.
  Qed.

  (* ---- writing a cancellation ---- *)
  Lemma CI_poll_write_cancel c r c' :
    CI c -> poll_write_cancel ctp c = (r, c') -> CI c' /\ (forall a, r <> PErr a).
  Proof.
    intros H E. pose proof (Live_poll_write_cancel ctp _ _ _ (ci_live c H) E) as [L' _].
    pose proof (PFrame_poll_write_cancel ctp _ _ _ E) as PF.
    pose proof (fused_poll_write_cancel ctp _ _ _ E) as FF.
    apply poll_write_cancel_inv in E.
    destruct (CI_ensure_writeable c H) as (c1 & E1 & H1 & F1).
    destruct E as [r1 s1 E1' Hr|r1 s1 s2 E1' E2 Hr|s1 id e s2 w s3 E1' E2 E3].
    - rewrite E1 in E1'. injection E1' as <- <-. discriminate.
    - rewrite E1 in E1'. injection E1' as <-.
      pose proof (ncl_shape _ _ _ _ E2) as SH.
      pose proof (CFrame_next_cancel_loop (S (length (cancels c1))) c1) as CF. rewrite E2 in CF. cbn [snd] in CF.
      split; [|destruct r1 as [[? ?]| | |]; try discriminate; contradiction].
      destruct H1 as [X1 L1 Fu1 N1 Q1].
      assert (SH' : inflight s2 = inflight c1 /\ timers s2 = timers c1) by (destruct r1 as [[? ?]| | |]; try discriminate; try exact SH; contradiction).
      constructor.
      + rewrite (if_tr _ _ (cf_i _ _ CF)).
        eapply ChainCross.cross_cframe; [| | |exact X1].
        * unfold ChainInv.ifl. rewrite (proj1 SH'). reflexivity.
        * apply SH'.
        * apply sent_eq; [apply (pf_nid _ _ (if_p _ _ (cf_i _ _ CF)))|apply CF|apply CF].
      + exact L'.
      + rewrite FF. apply (ci_fused c H).
      + rewrite (pf_now _ _ PF). apply (ci_now c H).
      + rewrite (cf_queue _ _ CF). exact Q1.
    - rewrite E1 in E1'. injection E1' as <-.
      pose proof (ncl_shape _ _ _ _ E2) as [SH1 SH2].
      pose proof (CFrame_next_cancel_loop (S (length (cancels c1))) c1) as CF. rewrite E2 in CF. cbn [snd] in CF.
      destruct H1 as [X1 L1 Fu1 N1 Q1].
      assert (SG2 : sg s2 = false).
      { unfold sg. rewrite (if_tr _ _ (cf_i _ _ CF)). apply (ChainInv.x_sgone _ _ _ _ _ X1). }
      rewrite (do_send_clean _ _ SG2) in E3. injection E3 as <- <-. split; [|discriminate].
      constructor.
      + cbn [tr upd_tr]. rewrite (if_tr _ _ (cf_i _ _ CF)). unfold Chain.conv_msg.
        eapply ChainCross.cross_send_cancel with (c := c1); [| | |exact X1].
        * intro y. unfold ChainInv.ifl. cbn [inflight upd_tr]. rewrite SH1. apply in_map_fst_aremove.
        * intros y w'. cbn [timers upd_tr]. rewrite SH2. intro Hin. apply (In_aremove _ _ _ _ Hin).
        * apply sent_eq; cbn [next_id queue calls upd_tr];
            [apply (pf_nid _ _ (if_p _ _ (cf_i _ _ CF)))|apply CF|apply CF].
      + exact L'.
      + rewrite FF. apply (ci_fused c H).
      + rewrite (pf_now _ _ PF). apply (ci_now c H).
      + cbn [queue upd_tr]. rewrite (cf_queue _ _ CF). exact Q1.
  Qed.

  Lemma reqs_ok_forall (P : N -> N -> Prop) l :
    (forall id dl tr b, In (Server.MReq id dl tr b) l -> P id dl) ->
    ChainInv.reqs_ok (fun id dl _ => P id dl) l.
  Proof.
    induction l as [|m r IH]; cbn; [auto|]. intro H. destruct m as [id dl tr b|].
    - split; [eapply H; left; reflexivity|apply IH; intros; eapply H; right; eassumption].
    - apply IH. intros; eapply H; right; eassumption.
  Qed.

  (* ---- expiry ---- *)
  Lemma CI_poll_expired c e c' : CI c -> poll_expired c = (e, c') -> CI c'.
  Proof.
    intros H E. pose proof (LC_poll_expired _ _ _ (ci_live c H) E) as [L' _].
    pose proof (TFrame_poll_expired c) as TF. rewrite E in TF. cbn [snd] in TF.
    destruct H as [X L F Nw Q].
    unfold poll_expired in E. destruct (min_timer (timers c) None) as [[id w]|] eqn:EM;
      [|injection E as <- <-; constructor; assumption].
    destruct (w <=? now c)%N eqn:EW; [|injection E as <- <-; constructor; assumption].
    apply N.leb_le in EW. rewrite Nw in EW.
    destruct (min_timer_In _ _ _ EM) as [Hin|Hin]; [|discriminate].
    assert (EI : inflight c' = aremove id (inflight c) /\ timers c' = aremove id (timers c)).
    { cbn [inflight upd_if timers] in E. destruct (alookup id (inflight c)) eqn:EA; injection E as <- <-.
      - unfold slot_send. destruct (sl_rx_closed _); cbn; auto.
      - cbn. split; [symmetry; apply aremove_notin, alookup_none_notin, EA|reflexivity]. }
    destruct EI as [EI1 EI2].
    constructor.
    - rewrite (if_tr _ _ (tf_i _ _ TF)).
      eapply ChainCross.cross_remove with (c := c) (id := id); [| | | | |exact X].
      + intro y. unfold ChainInv.ifl. rewrite EI1. apply in_map_fst_aremove.
      + intros y w'. rewrite EI2. intro Hy. apply (In_aremove _ _ _ _ Hy).
      + intro i. apply SL_sent, SL_T, TF.
      + eapply ChainCross.reqs_ok_mono;
          [|apply (reqs_ok_forall (fun id' dl => id' = id -> (dl <= T)%N))].
        * cbn. intros id' dl rest Hd Heq. right. apply Hd, Heq.
        * intros id' dl tr b Hm ->.
          pose proof (ChainInv.x_t0 _ _ _ _ _ X id dl tr b w Hm Hin). lia.
      + intros en He Heq. right.
        assert (Hk : In id (map fst (Server.s_timers sv))).
        { rewrite (ChainInv.x_keys _ _ _ _ _ X). rewrite <- Heq. apply in_map, He. }
        apply in_map_iff in Hk. destruct Hk as ([id' ws] & Ek & Hs). cbn in Ek. subst id'.
        exists ws. split; [exact Hs|].
        pose proof (ChainInv.x_t1 _ _ _ _ _ X id ws w Hs Hin). lia.
    - exact L'.
    - rewrite (fused_T _ _ TF). exact F.
    - rewrite (pf_now _ _ (TFrame_P _ _ TF)). exact Nw.
    - rewrite (tf_queue _ _ TF). exact Q.
  Qed.

  (* ---- the write half, the loop, the poll ---- *)
  Lemma CI_pump_write c r c' :
    CI c -> pump_write ctp c = (r, c') -> CI c' /\ (forall a, r <> PErr a).
  Proof.
    intros H E. apply pump_write_inv in E.
    destruct E as [a s1 E1|u s1 E1|r1 s1 a s2 E1 _ E2|r1 s1 u s2 E1 _ E2
                  |r1 s1 r2 s2 id s3 E1 _ E2 _ E3|s1 s2 s3 cl s4 E1 E2 E3 E4
                  |r1 s1 r2 s2 s3 f s4 E1 _ E2 _ _ E3 E4].
    - destruct (CI_poll_write_request _ _ _ H E1) as [_ N]. exfalso. eapply N. reflexivity.
    - destruct (CI_poll_write_request _ _ _ H E1) as [H1 _]. split; [exact H1|discriminate].
    - destruct (CI_poll_write_request _ _ _ H E1) as [H1 _].
      destruct (CI_poll_write_cancel _ _ _ H1 E2) as [_ N]. exfalso. eapply N. reflexivity.
    - destruct (CI_poll_write_request _ _ _ H E1) as [H1 _].
      destruct (CI_poll_write_cancel _ _ _ H1 E2) as [H2 _]. split; [exact H2|discriminate].
    - destruct (CI_poll_write_request _ _ _ H E1) as [H1 _].
      destruct (CI_poll_write_cancel _ _ _ H1 E2) as [H2 _].
      split; [eapply CI_poll_expired; eassumption|discriminate].
    - destruct (CI_poll_write_request _ _ _ H E1) as [H1 _].
      destruct (CI_poll_write_cancel _ _ _ H1 E2) as [H2 _].
      pose proof (CI_poll_expired _ _ _ H2 E3) as H3.
      rewrite do_close_clean in E4. injection E4 as <- <-.
      rewrite (ci_fused _ H3). split; [apply CI_log, H3|discriminate].
    - destruct (CI_poll_write_request _ _ _ H E1) as [H1 _].
      destruct (CI_poll_write_cancel _ _ _ H1 E2) as [H2 _].
      pose proof (CI_poll_expired _ _ _ H2 E3) as H3.
      rewrite do_flush_clean in E4. injection E4 as <- <-.
      rewrite (ci_fused _ H3). split; [apply CI_log, H3|discriminate].
  Qed.

  Lemma CI_run_loop f : forall c r c',
    CI c -> run_loop ctp f c = (r, c') -> CI c' /\ (forall a, r <> RunErr a).
  Proof.
    induction f as [|f IH]; intros c r c' H E; [cbn in E; injection E as <- <-; split; [exact H|discriminate]|].
    apply run_loop_inv in E.
    destruct E as [a s1 E1|rd s1 a s2 E1 _ E2|s1 wr s2 E1 E2 _|rd s1 s2 E1 _ E2 _
                  |s1 wr s2 E1 E2 _|rd s1 wr s2 r0 s3 E1 E2 _ E3].
    - destruct (CI_pump_read _ _ _ H E1) as [_ [N|N]]; discriminate.
    - destruct (CI_pump_read _ _ _ H E1) as [H1 _].
      destruct (CI_pump_write _ _ _ H1 E2) as [_ N]. exfalso. eapply N. reflexivity.
    - destruct (CI_pump_read _ _ _ H E1) as [_ [N|N]]; discriminate.
    - destruct (CI_pump_read _ _ _ H E1) as [H1 _].
      destruct (CI_pump_write _ _ _ H1 E2) as [H2 _]. split; [exact H2|discriminate].
    - destruct (CI_pump_read _ _ _ H E1) as [H1 _].
      destruct (CI_pump_write _ _ _ H1 E2) as [H2 _]. split; [exact H2|discriminate].
    - destruct (CI_pump_read _ _ _ H E1) as [H1 _].
      destruct (CI_pump_write _ _ _ H1 E2) as [H2 _]. eapply IH; eassumption.
  Qed.

  (* ---- a poll that goes idle has written every queued cancellation ---- *)
  Lemma CI_pwc_drained c r c' :
    CI c -> poll_write_cancel ctp c = (r, c') -> idle r -> cancels c' = [].
  Proof.
    intros H E I. apply poll_write_cancel_inv in E.
    destruct (CI_ensure_writeable c H) as (c1 & E1 & H1 & F1).
    destruct E as [r1 s1 E1' Hr|r1 s1 s2 E1' E2 Hr|s1 id e s2 w s3 E1' E2 E3].
    - rewrite E1 in E1'. injection E1' as <- <-. discriminate.
    - eapply ncl_drained; [|exact E2|exact Hr]. lia.
    - exfalso. destruct w; destruct I; discriminate.
  Qed.

  Lemma CI_pw_drained c r c' :
    CI c -> pump_write ctp c = (r, c') -> idle r -> cancels c' = [].
  Proof.
    intros H E I. apply pump_write_inv in E.
    destruct E as [a s1 E1|u s1 E1|r1 s1 a s2 E1 I1 E2|r1 s1 u s2 E1 I1 E2
                  |r1 s1 r2 s2 id s3 E1 I1 E2 I2 E3|s1 s2 s3 x s4 E1 E2 E3 E4
                  |r1 s1 r2 s2 s3 x s4 E1 I1 E2 I2 I12 E3 E4];
      try (exfalso; destruct I; discriminate).
    - destruct (CI_poll_write_request _ _ _ H E1) as [H1 _].
      pose proof (TFrame_poll_expired s2) as F3. rewrite E3 in F3. cbn [snd] in F3.
      pose proof (XFrame_do_close ctp _ _ _ E4) as F4.
      rewrite (xf_cancels _ _ F4), (tf_cancels _ _ F3).
      eapply CI_pwc_drained; [exact H1|exact E2|left; reflexivity].
    - destruct (CI_poll_write_request _ _ _ H E1) as [H1 _].
      pose proof (TFrame_poll_expired s2) as F3. rewrite E3 in F3. cbn [snd] in F3.
      pose proof (XFrame_do_flush ctp _ _ _ E4) as F4.
      rewrite (xf_cancels _ _ F4), (tf_cancels _ _ F3).
      eapply CI_pwc_drained; [exact H1|exact E2|exact I2].
  Qed.

  Lemma CI_rl_drained f : forall c c',
    CI c -> run_loop ctp f c = (RunPending, c') -> cancels c' = [].
  Proof.
    induction f as [|f IH]; intros c c' H E; [cbn in E; discriminate|].
    apply run_loop_inv in E. remember RunPending as rr eqn:Er.
    destruct E as [a s1 E1|rd s1 a s2 E1 N1 E2|s1 wr s2 E1 E2 N2|rd s1 s2 E1 D1 E2 L2
                  |s1 wr s2 E1 E2 D2|rd s1 wr s2 r s3 E1 E2 D E3]; try discriminate.
    - destruct (CI_pump_read _ _ _ H E1) as [H1 _].
      eapply CI_pw_drained; [exact H1|exact E2|]. destruct D2 as [-> |[-> _]]; [right|left]; reflexivity.
    - subst r. destruct (CI_pump_read _ _ _ H E1) as [H1 _].
      destruct (CI_pump_write _ _ _ H1 E2) as [H2 _]. eapply IH; eassumption.
  Qed.

  (* ---- the PollDispatch op ---- *)
  Variable fuel_of : cst -> nat.

  Lemma CI_step_dispatch c c' os :
    CI c -> terminal c = None -> finished c = None ->
    step ctp fuel_of c PollDispatch = (c', os) ->
    exists lg r a b, os = [OCalls lg; ODisp r; OGauge a b] /\
      match r with
      | DReady _ => True
      | DPending => CI c' /\ terminal c' = None /\ finished c' = None /\ cancels c' = []
      | DFuel => CI c' /\ terminal c' = None /\ finished c' = None
      end.
  Proof.
    intros H Ht Hf E. cbn [step] in E. rewrite Hf in E.
    rewrite (l_dropped _ (ci_live c H)) in E.
    set (c0 := upd_tr c (tr c) (fused c) []) in *.
    assert (H0 : CI c0) by (unfold c0; rewrite (ci_fused c H); apply CI_log, H).
    unfold poll_dispatch in E. change (terminal c0) with (terminal c) in E. rewrite Ht in E.
    destruct (run_loop ctp (fuel_of c0) c0) as [rr c1] eqn:ER.
    destruct (CI_run_loop _ _ _ _ H0 ER) as [H1 NE].
    pose proof (PFrame_run_loop ctp _ _ _ _ ER) as PF.
    assert (T1 : terminal c1 = None) by (rewrite (pf_terminal _ _ PF); exact Ht).
    assert (F1 : finished c1 = None) by (rewrite (pf_finished _ _ PF); exact Hf).
    destruct rr as [|a| |].
    - injection E as <- <-. do 4 eexists. split; [reflexivity|exact I].
    - exfalso. eapply NE. reflexivity.
    - injection E as <- <-. do 4 eexists. split; [reflexivity|].
      rewrite (ci_fused _ H1). split; [apply CI_log, H1|split; [exact T1|split; [exact F1|]]].
      cbn [cancels upd_tr]. exact (CI_rl_drained _ _ _ H0 ER).
    - injection E as <- <-. do 4 eexists. split; [reflexivity|].
      rewrite (ci_fused _ H1). split; [apply CI_log, H1|split; [exact T1|exact F1]].
  Qed.
End Dispatch.
