(* Model of the `#[tarpc::service]` attribute macro (/repo/plugins/src/lib.rs) for C17.
   No proofs in this file.

   Part 1  service definitions as the macro's parser sees them
   Part 2  `snake_to_camel`, the attribute (derive) parser, the `new`/`serve` checks, and
           `gen`: the ABSTRACT items the macro emits (one Gallina function per generator fn)
   Part 3  cfg-stripping, and what rustc rejects among such items (duplicate definitions, ...)
   Part 4  a small semantics of the items with Rust's resolution rules: enum variants, struct
           fields, trait methods and inherent fns resolve BY NAME (raw prefix ignored), call
           arguments and fn parameters BY POSITION, first matching arm wins, inner bindings shadow
   Part 5  the observable model used by the correspondence check, and the monitor `c17_ok`

   Text is `list N` of character codes (ASCII; `snake_to_camel` on non-ASCII is outside the model).
   Types are opaque ids (0 = `()`, 100 = `::tarpc::context::Context`); attributes other than
   `#[cfg(..)]` pass through the macro unmodelled. *)
From Coq Require Import Ascii String.
From Coq Require Import List Bool NArith.
Import ListNotations.
From TarpcV Require Import Base.
Local Open Scope N_scope.

(* ------------------------------------------------------------------ Part 1: definitions *)

Definition str := list N.
Definition str_eqb : str -> str -> bool := list_eqb N.eqb.
Definition lit (x : String.string) : str := map Ascii.N_of_ascii (String.list_ascii_of_string x).

(* an identifier token: `r#txt` when raw. rustc compares identifiers by `txt` *)
Record ident := Id { i_raw : bool; i_txt : str }.
Definition same_name (a b : ident) : bool := str_eqb (i_txt a) (i_txt b).
(* `Ident`'s Display / `to_string()`: the source text, with the raw prefix *)
Definition display (i : ident) : str := if i_raw i then lit "r#" ++ i_txt i else i_txt i.
Definition plain (s : String.string) : ident := Id false (lit s).

Definition ty_unit : N := 0.
Definition ty_context : N := 100.

Record arg := Arg { a_name : ident; a_ty : N }.
Record method := Method {
  m_name : ident;
  m_args : list arg;
  m_ret : option N;            (* None = no `-> T` *)
  m_cfgs : list bool           (* one entry per `#[cfg(..)]` attribute: what it evaluates to *)
}.
(* items of `#[tarpc::service(..)]` *)
Inductive opt := ODerive (paths : list N) | ODeriveSerde (b : bool) | OOther.
Record service := Service { s_name : ident; s_opts : list opt; s_methods : list method }.

Definition enabled (m : method) : bool := forallb (fun b => b) (m_cfgs m).
Definition ret_ty (m : method) : N := match m_ret m with Some t => t | None => ty_unit end.

Inductive result (A : Type) := Ok (a : A) | Err (e : list N).
Arguments Ok {A} a.
Arguments Err {A} e.

(* error classes (compile errors produced by the macro itself) *)
Definition E_META : N := 1.          (* "tarpc::service does not support this meta item" *)
Definition E_DERIVE_BOTH : N := 2.   (* `derive_serde` and `derive` at the same time *)
Definition E_SERDE_TWICE : N := 3.   (* one per occurrence *)
Definition E_DERIVE_TWICE : N := 4.  (* one per occurrence *)
Definition E_SERDE_OFF : N := 5.     (* derive_serde = true without the serde1 feature *)
Definition E_NEW : N := 6.           (* "method name conflicts with generated fn `XClient::new`" *)
Definition E_SERVE : N := 7.         (* "method name conflicts with generated fn `X::serve`" *)
Definition E_SELF : N := 8.          (* "method args cannot start with self" *)
Definition E_PANIC : N := 9.         (* Ident::new panics: "custom attribute panicked" *)

(* ------------------------------------------------------------------ Part 2: the macro *)

Definition is_lower (c : N) : bool := (97 <=? c) && (c <=? 122).
Definition is_upper (c : N) : bool := (65 <=? c) && (c <=? 90).
Definition is_digit (c : N) : bool := (48 <=? c) && (c <=? 57).
Definition to_upper (c : N) : N := if is_lower c then c - 32 else c.
Definition to_lower (c : N) : N := if is_upper c then c + 32 else c.

(* fn snake_to_camel: the loop with its `last_char_was_underscore` flag *)
Fixpoint s2c (last_us : bool) (s : str) : str :=
  match s with
  | [] => []
  | c :: r =>
      if c =? 95 then s2c true r
      else if last_us then to_upper c :: s2c false r
      else to_lower c :: s2c false r
  end.
Definition snake_to_camel (s : str) : str := s2c true s.

(* `rpc.ident.unraw()` then snake_to_camel *)
Definition camel (m : method) : str := snake_to_camel (i_txt (m_name m)).

(* impl Parse for DeriveMeta *)
Inductive derive := DExplicit (paths : list N) | DSerde (b : bool).
Definition with_derives (d : option derive) (new : list N) : option derive :=
  match d with
  | Some (DExplicit old) => Some (DExplicit (old ++ new))
  | _ => Some (DExplicit new)
  end.
Fixpoint meta_items (serde1 : bool) (os : list opt) (d : option derive) (errs : list N)
  : option derive * list N :=
  match os with
  | [] => (d, errs)
  | ODerive p :: r => meta_items serde1 r (with_derives d p) errs
  | ODeriveSerde true :: r =>
      if serde1 then meta_items serde1 r (Some (DSerde true)) errs
      else meta_items serde1 r d (errs ++ [E_SERDE_OFF])
  | ODeriveSerde false :: r => meta_items serde1 r (Some (DSerde false)) errs
  | OOther :: r => meta_items serde1 r d (errs ++ [E_META])
  end.
Definition is_derive (o : opt) : bool := match o with ODerive _ => true | _ => false end.
Definition is_serde (o : opt) : bool := match o with ODeriveSerde _ => true | _ => false end.
Definition parse_derive_meta (serde1 : bool) (os : list opt) : result (option derive) :=
  let '(d, e1) := meta_items serde1 os None [] in
  let nd := length (filter is_derive os) in
  let ns := length (filter is_serde os) in
  let e2 := if Nat.ltb 0 nd && Nat.ltb 0 ns then [E_DERIVE_BOTH] else [] in
  let e3 := if Nat.ltb 1 ns then repeat E_SERDE_TWICE ns else [] in
  let e4 := if Nat.ltb 1 nd then repeat E_DERIVE_TWICE nd else [] in
  match e1 ++ e2 ++ e3 ++ e4 with
  | [] => Ok d
  | errs => Err errs
  end.

(* the `derives` computed in fn service: trait ids placed on both enums (0 Serialize, 1 Deserialize) *)
Definition derives_of (serde1 : bool) (d : option derive) : list N :=
  match d with
  | Some (DExplicit paths) => paths
  | Some (DSerde true) => [0; 1]
  | Some (DSerde false) => []
  | None => if serde1 then [0; 1] else []
  end.

(* impl Parse for RpcMethod: a `self` argument is a receiver and is refused; the first method
   with such an argument ends parsing (`content.parse()?`) *)
Definition is_self (a : arg) : bool := negb (i_raw (a_name a)) && str_eqb (i_txt (a_name a)) (lit "self").
Fixpoint parse_methods (ms : list method) : list N :=
  match ms with
  | [] => []
  | m :: r =>
      match filter is_self (m_args m) with
      | [] => parse_methods r
      | bad => map (fun _ => E_SELF) bad
      end
  end.
(* impl Parse for Service: `rpc.ident == "new"` compares the identifier's text INCLUDING a raw
   prefix, so `r#new` and `r#serve` pass this check *)
Definition ident_is (i : ident) (s : String.string) : bool := negb (i_raw i) && str_eqb (i_txt i) (lit s).
Definition ident_errors (ms : list method) : list N :=
  flat_map (fun m => (if ident_is (m_name m) "new" then [E_NEW] else [])
                     ++ (if ident_is (m_name m) "serve" then [E_SERVE] else [])) ms.
Definition parse_service (s : service) : result unit :=
  match parse_methods (s_methods s) with
  | [] => match ident_errors (s_methods s) with [] => Ok tt | e => Err e end
  | e => Err e
  end.

(* `Ident::new(name, span)` panics unless `name` is an identifier; the camel-case text consists
   of the non-underscore characters of an identifier, so it is one unless it is empty or starts
   with a digit *)
Definition ident_string_ok (s : str) : bool :=
  match s with [] => false | c :: _ => negb (is_digit c) end.

(* ---- the abstract items *)
Inductive expr := ESelfService | EVar (x : ident).
Inductive fallback := FallbackPanic | FallbackErr.

Record trait_fn := TraitFn {          (* `async fn name(self, <params>) -> ret;` *)
  tf_cfgs : list bool; tf_name : ident; tf_params : list arg; tf_ret : N }.
Record variant := Variant {           (* `Name { fields }` of the request enum *)
  v_cfgs : list bool; v_name : str; v_fields : list arg }.
Record rvariant := RVariant { rv_name : str; rv_ty : N }.     (* `Name(ty)`; never cfg'd *)
Record arm := Arm {                   (* `Enum::Variant { pats } => Ok(REnum::RVariant(Trait::method(args).await))` *)
  ar_cfgs : list bool; ar_enum : ident; ar_variant : str; ar_pats : list ident;
  ar_resp_enum : ident; ar_resp_variant : str; ar_trait : ident; ar_method : ident;
  ar_args : list expr }.
Record name_arm := NameArm {          (* `Enum::Variant { .. } => "text"` *)
  na_cfgs : list bool; na_enum : ident; na_variant : str; na_text : str }.
Record client_fn := ClientFn {
  cf_cfgs : list bool; cf_name : ident; cf_params : list arg (* after &self *); cf_ret : N;
  cf_let : ident;                                   (* `let request = ` *)
  cf_enum : ident; cf_variant : str; cf_fields : list (ident * ident);   (* `Enum::Variant { f: x, .. }` *)
  cf_call : list ident;                             (* `self.0.call(ctx, request)` *)
  cf_resp_enum : ident; cf_unwrap : str;            (* `REnum::RVariant(msg) => Ok(msg)` *)
  cf_fallback : fallback }.                         (* `_ => ...` *)
Record generated := Generated {
  g_trait : ident; g_trait_fns : list trait_fn; g_trait_extra : list ident;   (* extra: `serve` *)
  g_stub : ident; g_server : ident;
  g_serve_params : list ident;       (* `serve(self, ctx, req)` *)
  g_serve_scrut : ident;             (* `match req` *)
  g_arms : list arm;
  g_req : ident; g_variants : list variant; g_req_derives : list N; g_names : list name_arm;
  g_resp : ident; g_rvariants : list rvariant; g_resp_derives : list N;
  g_client : ident; g_client_new : list ident; g_client_fns : list client_fn }.

(* format_ident!("{pre}{}{post}", ident): the raw prefix of the argument is dropped and the
   result is not raw *)
Definition format_ident (pre : String.string) (i : ident) (post : String.string) : ident :=
  Id false (lit pre ++ i_txt i ++ lit post).

Section Gen.
  Variable fb : fallback.      (* which fallback arm this version of the macro emits *)
  Variable svc : ident.

  Definition request_ident := format_ident "" svc "Request".
  Definition response_ident := format_ident "" svc "Response".

  (* fn trait_service *)
  Definition gen_trait_fn (m : method) : trait_fn :=
    TraitFn (m_cfgs m) (m_name m) (Arg (plain "context") ty_context :: m_args m) (ret_ty m).
  (* fn impl_serve_for_server *)
  Definition gen_arm (m : method) : arm :=
    Arm (m_cfgs m) request_ident (camel m) (map a_name (m_args m))
        response_ident (camel m) svc (m_name m)
        (ESelfService :: EVar (plain "ctx") :: map (fun a => EVar (a_name a)) (m_args m)).
  (* fn enum_request *)
  Definition gen_variant (m : method) : variant := Variant (m_cfgs m) (camel m) (m_args m).
  Definition gen_name_arm (m : method) : name_arm :=
    NameArm (m_cfgs m) request_ident (camel m) (display svc ++ lit "." ++ display (m_name m)).
  (* fn enum_response *)
  Definition gen_rvariant (m : method) : rvariant := RVariant (camel m) (ret_ty m).
  (* fn impl_client_rpc_methods *)
  Definition gen_client_fn (m : method) : client_fn :=
    ClientFn (m_cfgs m) (m_name m) (Arg (plain "ctx") ty_context :: m_args m) (ret_ty m)
             (plain "request") request_ident (camel m)
             (map (fun a => (a_name a, a_name a)) (m_args m))
             [plain "ctx"; plain "request"] response_ident (camel m) fb.

  Definition generate (derives : list N) (ms : list method) : generated :=
    Generated svc (map gen_trait_fn ms) [plain "serve"]
              (format_ident "" svc "Stub") (format_ident "Serve" svc "")
              [plain "ctx"; plain "req"] (plain "req") (map gen_arm ms)
              request_ident (map gen_variant ms) derives (map gen_name_arm ms)
              response_ident (map gen_rvariant ms) derives
              (format_ident "" svc "Client") [plain "new"] (map gen_client_fn ms).
End Gen.

(* fn service *)
Definition gen (serde1 : bool) (fb : fallback) (s : service) : result generated :=
  match parse_derive_meta serde1 (s_opts s) with
  | Err e => Err e
  | Ok d =>
      match parse_service s with
      | Err e => Err e
      | Ok _ =>
          if forallb (fun m => ident_string_ok (camel m)) (s_methods s)
          then Ok (generate fb (s_name s) (derives_of serde1 d) (s_methods s))
          else Err [E_PANIC]
      end
  end.

(* ------------------------------------------------------------------ Part 3: rustc, statically *)

Definition active (cfgs : list bool) : bool := forallb (fun b => b) cfgs.

(* cfg-stripping: items under a false `#[cfg]` disappear, the attributes themselves vanish.
   This is the form in which `-Zunpretty=expanded` shows the macro's output. *)
Definition strip (g : generated) : generated :=
  Generated (g_trait g)
    (map (fun f => TraitFn [] (tf_name f) (tf_params f) (tf_ret f))
         (filter (fun f => active (tf_cfgs f)) (g_trait_fns g)))
    (g_trait_extra g) (g_stub g) (g_server g) (g_serve_params g) (g_serve_scrut g)
    (map (fun a => Arm [] (ar_enum a) (ar_variant a) (ar_pats a) (ar_resp_enum a)
                       (ar_resp_variant a) (ar_trait a) (ar_method a) (ar_args a))
         (filter (fun a => active (ar_cfgs a)) (g_arms g)))
    (g_req g)
    (map (fun v => Variant [] (v_name v) (v_fields v))
         (filter (fun v => active (v_cfgs v)) (g_variants g)))
    (g_req_derives g)
    (map (fun a => NameArm [] (na_enum a) (na_variant a) (na_text a))
         (filter (fun a => active (na_cfgs a)) (g_names g)))
    (g_resp g) (g_rvariants g) (g_resp_derives g) (g_client g) (g_client_new g)
    (map (fun f => ClientFn [] (cf_name f) (cf_params f) (cf_ret f) (cf_let f) (cf_enum f)
                            (cf_variant f) (cf_fields f) (cf_call f) (cf_resp_enum f)
                            (cf_unwrap f) (cf_fallback f))
         (filter (fun f => active (cf_cfgs f)) (g_client_fns g))).

Fixpoint nodupb (l : list str) : bool :=
  match l with
  | [] => true
  | x :: r => negb (existsb (str_eqb x) r) && nodupb r
  end.
Definition names_of (l : list ident) : list str := map i_txt l.
Definition arg_names (l : list arg) : list str := map (fun a => i_txt (a_name a)) l.

(* What rustc refuses among (cfg-stripped) items of this shape. Each clause is a real error:
   E0428 duplicate enum variants / trait items, E0124 duplicate field, E0415 duplicate parameter
   of a fn WITH a body (trait fn declarations have none, so their parameters are not checked),
   E0592 duplicate inherent fns, the keyword `Self` as a variant name, and E0004 for the
   arm-less `match self {}` on `&Request` when no variant is left. *)
(* The fourth clause is the name-collision rule for the identifiers the expansion itself binds:
   the client fn binds `ctx` next to the RPC arguments, so an argument called `ctx` - of ANY type,
   `tarpc::context::Context` included - is a duplicate parameter (E0415). That is the only thing
   that keeps the server arm `Variant { ctx } => Trait::m(self.service, ctx, ctx)` (where the
   argument shadows the request's context) from compiling. The other identifiers the expansion
   uses (context, req, request, resp, msg, service, new_client, config, transport, stub) are
   either in a body-less declaration, bound after their last use, or not variables at all; Part 4
   gives them their real scoping, and C17_glue_correct covers them. *)
Definition rustc_accepts (g : generated) : bool :=
  nodupb (map v_name (g_variants g))
  && nodupb (map rv_name (g_rvariants g))
  && forallb (fun v => nodupb (arg_names (v_fields v))) (g_variants g)
  && forallb (fun f => nodupb (arg_names (cf_params f))) (g_client_fns g)
  && nodupb (names_of (map tf_name (g_trait_fns g) ++ g_trait_extra g))
  && nodupb (names_of (g_client_new g ++ map cf_name (g_client_fns g)))
  && negb (existsb (str_eqb (lit "Self")) (map v_name (g_variants g) ++ map rv_name (g_rvariants g)))
  && negb (match g_names g with [] => true | _ => false end).

(* ------------------------------------------------------------------ Part 4: rustc, dynamically *)

(* run-time values: argument data, or a request context (deadline, trace id) *)
Inductive value := VData (n : N) | VCtx (d t : N).
Definition reqval := (str * list (str * value))%type.   (* variant name, fields by name *)
Inductive binding := BVal (v : value) | BReq (r : reqval).
Definition env := list (str * binding).                 (* innermost binding first *)

Fixpoint lookup {B} (x : str) (e : list (str * B)) : option B :=
  match e with
  | [] => None
  | (y, b) :: r => if str_eqb x y then Some b else lookup x r
  end.

Fixpoint all_some {A} (l : list (option A)) : option (list A) :=
  match l with
  | [] => Some []
  | None :: _ => None
  | Some a :: r => match all_some r with Some r' => Some (a :: r') | None => None end
  end.

Definition lookup_val (e : env) (x : ident) : option value :=
  match lookup (i_txt x) e with Some (BVal v) => Some v | _ => None end.

(* fn parameters are bound by position *)
Definition bind_params (ps : list str) (vs : list binding) : option env :=
  if Nat.eqb (length ps) (length vs) then Some (combine ps vs) else None.

(* what the implementor sees *)
Record invocation := Inv { inv_method : str; inv_ctx : value; inv_args : list value }.
Definition implementor := str -> value -> list value -> N.    (* the user's `impl Service` *)

Inductive outcome :=
| ODone (i : invocation) (ret : N)            (* caller got Ok(ret) *)
| OFallback (fb : fallback) (i : invocation)  (* the client's `_ =>` arm ran *)
| OStuck (why : N).                           (* a name, arity or type that rustc would refuse *)

Inductive served :=
| SOk (i : invocation) (rvariant : str) (ret : N)
| SStuck (why : N).

Section Sem.
  Variable g : generated.
  Variable impl : implementor.

  Definition find_client (m : str) : option client_fn :=
    find (fun f => str_eqb (i_txt (cf_name f)) m) (g_client_fns g).
  Definition find_variant (v : str) : option variant :=
    find (fun x => str_eqb (v_name x) v) (g_variants g).
  Definition find_rvariant (v : str) : option rvariant :=
    find (fun x => str_eqb (rv_name x) v) (g_rvariants g).
  Definition find_arm (v : str) : option arm :=
    find (fun a => str_eqb (ar_variant a) v) (g_arms g).
  Definition find_trait_fn (m : str) : option trait_fn :=
    find (fun f => str_eqb (i_txt (tf_name f)) m) (g_trait_fns g).

  (* `Enum::Variant { f1: x1, .. }`: the variant is found by name; every declared field must be
     initialised (by name) and nothing else; the value lists the fields as declared *)
  Definition build_request (e : env) (f : client_fn) : option reqval :=
    if negb (same_name (cf_enum f) (g_req g)) then None else
    match find_variant (cf_variant f) with
    | None => None
    | Some v =>
        match all_some (map (fun fx => lookup_val e (snd fx)) (cf_fields f)) with
        | None => None
        | Some vals =>
            let inits := combine (map (fun fx => i_txt (fst fx)) (cf_fields f)) vals in
            if negb (Nat.eqb (length inits) (length (v_fields v))) then None else
            match all_some (map (fun a => lookup (i_txt (a_name a)) inits) (v_fields v)) with
            | None => None
            | Some fv => Some (v_name v, combine (arg_names (v_fields v)) fv)
            end
        end
    end.

  (* the client fn up to `self.0.call(..)`: the context and request handed to the stub *)
  Definition client_request (m : str) (c : value) (vs : list value) : option (value * reqval) :=
    match find_client m with
    | None => None
    | Some f =>
        match bind_params (arg_names (cf_params f)) (map BVal (c :: vs)) with
        | None => None
        | Some e =>
            match build_request e f with
            | None => None
            | Some r =>
                let e' := (i_txt (cf_let f), BReq r) :: e in
                match map (fun x => lookup (i_txt x) e') (cf_call f) with
                | [Some (BVal c'); Some (BReq r')] => Some (c', r')
                | _ => None
                end
            end
        end
    end.

  (* RequestName::name(): first arm whose variant is the value's *)
  Definition request_name (r : reqval) : option str :=
    match find (fun a => str_eqb (na_variant a) (fst r)) (g_names g) with
    | Some a => if same_name (na_enum a) (g_req g) then Some (na_text a) else None
    | None => None
    end.

  Definition eval_expr (e : env) (x : expr) : option value :=
    match x with ESelfService => None | EVar v => lookup_val e v end.

  (* Serve::serve: parameters by position, first arm whose variant matches, the pattern binds
     the fields of that name (shadowing `ctx`/`req`), the path call resolves the trait method by
     name and passes the evaluated arguments by position *)
  Definition serve (c : value) (r : reqval) : served :=
    match bind_params (names_of (g_serve_params g)) [BVal c; BReq r] with
    | None => SStuck 1
    | Some e0 =>
        match lookup (i_txt (g_serve_scrut g)) e0 with
        | Some (BReq r0) =>
            match find_arm (fst r0) with
            | None => SStuck 2
            | Some a =>
                if negb (same_name (ar_enum a) (g_req g) && same_name (ar_resp_enum a) (g_resp g)
                         && same_name (ar_trait a) (g_trait g)) then SStuck 3 else
                if negb (Nat.eqb (length (ar_pats a)) (length (snd r0))) then SStuck 4 else
                match all_some (map (fun p => lookup (i_txt p) (snd r0)) (ar_pats a)) with
                | None => SStuck 5
                | Some pv =>
                    let e := combine (names_of (ar_pats a)) (map BVal pv) ++ e0 in
                    match ar_args a with
                    | ESelfService :: rest =>
                        match find_trait_fn (i_txt (ar_method a)), all_some (map (eval_expr e) rest) with
                        | Some tf, Some (cv :: avs) =>
                            if negb (Nat.eqb (length (cv :: avs)) (length (tf_params tf))) then SStuck 6 else
                            match find_rvariant (ar_resp_variant a) with
                            | None => SStuck 7
                            | Some rv =>
                                SOk (Inv (i_txt (tf_name tf)) cv avs) (rv_name rv)
                                    (impl (i_txt (tf_name tf)) cv avs)
                            end
                        | _, _ => SStuck 8
                        end
                    | _ => SStuck 9
                    end
                end
            end
        | _ => SStuck 10
        end
    end.

  (* the client's `match resp.await? { REnum::RVariant(msg) => Ok(msg), _ => fallback }` *)
  Definition client_finish (f : client_fn) (s : served) : outcome :=
    match s with
    | SStuck w => OStuck w
    | SOk i rv ret =>
        if negb (same_name (cf_resp_enum f) (g_resp g)) then OStuck 11 else
        match find_rvariant (cf_unwrap f) with
        | None => OStuck 12
        | Some u => if str_eqb (rv_name u) rv then ODone i ret else OFallback (cf_fallback f) i
        end
    end.

  (* calling method `m` on the generated client whose stub serves with the generated server *)
  Definition client_call (m : str) (c : value) (vs : list value) : outcome :=
    match find_client m, client_request m c vs with
    | Some f, Some (c', r) => client_finish f (serve c' r)
    | _, _ => OStuck 13
    end.
End Sem.

(* ------------------------------------------------------------------ Part 5: observable model, monitor *)

Definition value_eqb (a b : value) : bool :=
  match a, b with
  | VData x, VData y => x =? y
  | VCtx d t, VCtx d' t' => (d =? d') && (t =? t')
  | _, _ => false
  end.

(* one scripted call: method identifier, context (deadline marker, trace id), argument values *)
Definition call := (ident * (N * N) * list N)%type.

(* what the harness records for one call: the implementor's log (method, deadline, trace,
   args), the names reported by RequestName::name() at the stub, and the value the caller got
   (None: error or panic) *)
Definition run_obs := (list (str * (N * N) * list N) * list str * option N)%type.

(* outcome of a client fn when the peer answers with another method's response variant:
   0 = Ok reached the caller, 1 = panic, 2 = Err *)
Definition fallback_code (f : fallback) : N := match f with FallbackPanic => 1 | FallbackErr => 2 end.

(* the observation of one definition: the items read from the expansion (if one was obtained),
   whether rustc compiled the definition, the macro's own error classes, one run per call, and
   the wrong-variant probe (method name, outcome code) *)
Record obs := Obs {
  o_expanded : option generated;
  o_compiled : bool;
  o_errors : list N;
  o_runs : list (option run_obs);     (* None: call not made (method absent or arity wrong) *)
  o_wrong : list (str * N) }.

(* the recording implementor of the harness: method number k (position in the definition)
   returns the value 200 + k *)
Fixpoint index_of (x : str) (l : list str) (k : N) : N :=
  match l with
  | [] => k
  | y :: r => if str_eqb x y then k else index_of x r (k + 1)
  end.
Definition impl_of (s : service) : implementor :=
  fun m _ _ => 200 + index_of m (map (fun m => i_txt (m_name m)) (s_methods s)) 0.
(* values come back through `ToN`: the unit type is recorded as 0 *)
Definition enc (t v : N) : N := if t =? ty_unit then 0 else v.

Definition find_method (s : service) (m : ident) : option method :=
  find (fun x => same_name (m_name x) m) (s_methods s).

(* a call is performed only if the method exists, is enabled and the arity fits *)
Definition valid_call (s : service) (c : call) : option method :=
  let '(m, _, vs) := c in
  match find_method s m with
  | Some x => if enabled x && Nat.eqb (length vs) (length (m_args x)) then Some x else None
  | None => None
  end.

(* scripted argument values by type: an argument of type Context (a relay forwarding a caller's
   context as payload) is the context with deadline marker n and trace id n; everything else is
   data. This is what makes a collision between an argument and the generated `ctx` type-check. *)
Definition val_of_ty (t n : N) : value := if t =? ty_context then VCtx n n else VData n.
Definition vals_of (args : list arg) (ns : list N) : list value :=
  map (fun p => val_of_ty (a_ty (fst p)) (snd p)) (combine args ns).

Definition data_of (v : value) : N := match v with VData n => n | VCtx d _ => d end.
Definition ctx_of (v : value) : N * N := match v with VCtx d t => (d, t) | VData n => (n, n) end.

Definition run_of_outcome (name : option str) (t : N) (o : outcome) : run_obs :=
  let names := match name with Some n => [n] | None => [] end in
  match o with
  | ODone i ret => ([(inv_method i, ctx_of (inv_ctx i), map data_of (inv_args i))], names, Some (enc t ret))
  | OFallback _ i => ([(inv_method i, ctx_of (inv_ctx i), map data_of (inv_args i))], names, None)
  | OStuck _ => ([], names, None)
  end.

Definition model_run (s : service) (g : generated) (c : call) : option run_obs :=
  match valid_call s c with
  | None => None
  | Some x =>
      let '(m, (d, t), vs) := c in
      let name := match client_request g (i_txt m) (VCtx d t) (vals_of (m_args x) vs) with
                  | Some (_, r) => request_name g r
                  | None => None
                  end in
      Some (run_of_outcome name (ret_ty x)
              (client_call g (impl_of s) (i_txt m) (VCtx d t) (vals_of (m_args x) vs)))
  end.

(* the wrong-variant probe: the first enabled method, when there are at least two response
   variants *)
Definition wrong_probe (s : service) (fb : fallback) : list (str * N) :=
  match filter enabled (s_methods s), s_methods s with
  | m :: _, _ :: _ :: _ => [(i_txt (m_name m), fallback_code fb)]
  | _, _ => []
  end.

Definition model (serde1 : bool) (fb : fallback) (s : service) (calls : list call) : obs :=
  match gen serde1 fb s with
  | Err e => Obs None false e [] []
  | Ok g =>
      let g' := strip g in
      if rustc_accepts g'
      then Obs (Some g') true [] (map (model_run s g') calls) (wrong_probe s fb)
      else Obs (Some g') false [] [] []
  end.

(* ---- the monitor: the property as a predicate on what was observed of the real macro *)

(* expected record of a valid call *)
Definition expected_run (s : service) (x : method) (c : call) : run_obs :=
  let '(m, ctx, vs) := c in
  ([(i_txt (m_name x), ctx, vs)],
   [display (s_name s) ++ lit "." ++ display (m_name x)],
   Some (enc (ret_ty x) (impl_of s (i_txt (m_name x)) (VCtx (fst ctx) (snd ctx)) (vals_of (m_args x) vs)))).

Definition log_eqb (a b : str * (N * N) * list N) : bool :=
  let '(m, (d, t), vs) := a in let '(m', (d', t'), vs') := b in
  str_eqb m m' && (d =? d') && (t =? t') && list_eqb N.eqb vs vs'.
Definition run_eqb (a b : run_obs) : bool :=
  let '(l, n, r) := a in let '(l', n', r') := b in
  list_eqb log_eqb l l' && list_eqb str_eqb n n' && option_eqb N.eqb r r'.

(* every performed call reached exactly its own method, with its arguments in order and its
   context, was named Service.method, and returned that invocation's result *)
Fixpoint runs_ok (s : service) (calls : list call) (runs : list (option run_obs)) : bool :=
  match calls, runs with
  | [], [] => true
  | c :: cs, r :: rs =>
      (match valid_call s c, r with
       | Some x, Some ro => run_eqb ro (expected_run s x c)
       | Some _, None => false
       | None, _ => true
       end) && runs_ok s cs rs
  | _, _ => false
  end.

(* the same, for the items read from the expansion, under the semantics of Part 4 *)
Definition expanded_ok (s : service) (g : generated) (calls : list call) : bool :=
  forallb (fun c => match valid_call s c, model_run s g c with
                    | Some x, Some ro => run_eqb ro (expected_run s x c)
                    | Some _, None => false
                    | None, _ => true
                    end) calls.

Definition c17_ok (s : service) (calls : list call) (o : obs) : bool :=
  if o_compiled o then
    runs_ok s calls (o_runs o)
    && match o_expanded o with Some g => expanded_ok s g calls | None => true end
    && forallb (fun w => negb (snd w =? 0)) (o_wrong o)
  else true.

(* ------------------------------------------------------------------ collisions (used in statements) *)

(* The ways a definition can collide with itself or with generated items. `context` as an
   argument name is NOT one of them: it only meets the generated parameter of the body-less trait
   fn declaration, which rustc does not check and which binds nothing. *)
Inductive collision (s : service) : Prop :=
| CSameVariant : forall pre m1 mid m2 post,       (* two methods, one camel-case variant name *)
    s_methods s = pre ++ m1 :: mid ++ m2 :: post -> camel m1 = camel m2 -> collision s
| CArgRepeated : forall m pre a1 mid a2 post,     (* an argument name twice (raw or not) *)
    In m (s_methods s) -> enabled m = true ->
    m_args m = pre ++ a1 :: mid ++ a2 :: post -> i_txt (a_name a1) = i_txt (a_name a2) -> collision s
| CArgCtx : forall m a,                           (* the generated client/server parameter `ctx` *)
    In m (s_methods s) -> enabled m = true -> In a (m_args m) -> i_txt (a_name a) = lit "ctx" ->
    collision s
| CArgSelf : forall m a,                          (* the receiver *)
    In m (s_methods s) -> In a (m_args m) -> a_name a = plain "self" -> collision s
| CMethodReserved : forall m,                     (* fn new of the client, fn serve of the trait *)
    In m (s_methods s) -> m_name m = plain "new" \/ m_name m = plain "serve" -> collision s
| CMethodReservedRaw : forall m,                  (* the same written r#new / r#serve *)
    In m (s_methods s) -> enabled m = true ->
    i_txt (m_name m) = lit "new" \/ i_txt (m_name m) = lit "serve" -> collision s.

(* ------------------------------------------------------------------ equality tests for the check *)

Definition ident_eqb (a b : ident) : bool := Bool.eqb (i_raw a) (i_raw b) && str_eqb (i_txt a) (i_txt b).
Definition arg_eqb (a b : arg) : bool := ident_eqb (a_name a) (a_name b) && (a_ty a =? a_ty b).
Definition expr_eqb (a b : expr) : bool :=
  match a, b with
  | ESelfService, ESelfService => true
  | EVar x, EVar y => ident_eqb x y
  | _, _ => false
  end.
Definition fallback_eqb (a b : fallback) : bool :=
  match a, b with
  | FallbackPanic, FallbackPanic => true
  | FallbackErr, FallbackErr => true
  | _, _ => false
  end.
Definition cfgs_eqb : list bool -> list bool -> bool := list_eqb Bool.eqb.
Definition trait_fn_eqb (a b : trait_fn) : bool :=
  cfgs_eqb (tf_cfgs a) (tf_cfgs b) && ident_eqb (tf_name a) (tf_name b)
  && list_eqb arg_eqb (tf_params a) (tf_params b) && (tf_ret a =? tf_ret b).
Definition variant_eqb (a b : variant) : bool :=
  cfgs_eqb (v_cfgs a) (v_cfgs b) && str_eqb (v_name a) (v_name b)
  && list_eqb arg_eqb (v_fields a) (v_fields b).
Definition rvariant_eqb (a b : rvariant) : bool :=
  str_eqb (rv_name a) (rv_name b) && (rv_ty a =? rv_ty b).
Definition arm_eqb (a b : arm) : bool :=
  cfgs_eqb (ar_cfgs a) (ar_cfgs b) && ident_eqb (ar_enum a) (ar_enum b)
  && str_eqb (ar_variant a) (ar_variant b) && list_eqb ident_eqb (ar_pats a) (ar_pats b)
  && ident_eqb (ar_resp_enum a) (ar_resp_enum b) && str_eqb (ar_resp_variant a) (ar_resp_variant b)
  && ident_eqb (ar_trait a) (ar_trait b) && ident_eqb (ar_method a) (ar_method b)
  && list_eqb expr_eqb (ar_args a) (ar_args b).
Definition name_arm_eqb (a b : name_arm) : bool :=
  cfgs_eqb (na_cfgs a) (na_cfgs b) && ident_eqb (na_enum a) (na_enum b)
  && str_eqb (na_variant a) (na_variant b) && str_eqb (na_text a) (na_text b).
Definition pair_eqb (a b : ident * ident) : bool :=
  ident_eqb (fst a) (fst b) && ident_eqb (snd a) (snd b).
Definition client_fn_eqb (a b : client_fn) : bool :=
  cfgs_eqb (cf_cfgs a) (cf_cfgs b) && ident_eqb (cf_name a) (cf_name b)
  && list_eqb arg_eqb (cf_params a) (cf_params b) && (cf_ret a =? cf_ret b)
  && ident_eqb (cf_let a) (cf_let b) && ident_eqb (cf_enum a) (cf_enum b)
  && str_eqb (cf_variant a) (cf_variant b) && list_eqb pair_eqb (cf_fields a) (cf_fields b)
  && list_eqb ident_eqb (cf_call a) (cf_call b) && ident_eqb (cf_resp_enum a) (cf_resp_enum b)
  && str_eqb (cf_unwrap a) (cf_unwrap b) && fallback_eqb (cf_fallback a) (cf_fallback b).
Definition generated_eqb (a b : generated) : bool :=
  ident_eqb (g_trait a) (g_trait b) && list_eqb trait_fn_eqb (g_trait_fns a) (g_trait_fns b)
  && list_eqb ident_eqb (g_trait_extra a) (g_trait_extra b)
  && ident_eqb (g_stub a) (g_stub b) && ident_eqb (g_server a) (g_server b)
  && list_eqb ident_eqb (g_serve_params a) (g_serve_params b)
  && ident_eqb (g_serve_scrut a) (g_serve_scrut b) && list_eqb arm_eqb (g_arms a) (g_arms b)
  && ident_eqb (g_req a) (g_req b) && list_eqb variant_eqb (g_variants a) (g_variants b)
  && list_eqb N.eqb (g_req_derives a) (g_req_derives b)
  && list_eqb name_arm_eqb (g_names a) (g_names b)
  && ident_eqb (g_resp a) (g_resp b) && list_eqb rvariant_eqb (g_rvariants a) (g_rvariants b)
  && list_eqb N.eqb (g_resp_derives a) (g_resp_derives b)
  && ident_eqb (g_client a) (g_client b) && list_eqb ident_eqb (g_client_new a) (g_client_new b)
  && list_eqb client_fn_eqb (g_client_fns a) (g_client_fns b).

(* rustc's pretty printer (-Zunpretty=expanded) writes `r#` only in front of identifiers that
   need it, i.e. reserved words of the edition; for any other identifier the raw prefix means
   nothing to the compiler and is not shown. `shown` is an item list as that printer shows it. *)
Definition reserved_words : list str := Eval vm_compute in
  map lit ["as"; "break"; "const"; "continue"; "else"; "enum"; "extern"; "false"; "fn"; "for";
           "if"; "impl"; "in"; "let"; "loop"; "match"; "mod"; "move"; "mut"; "pub"; "ref";
           "return"; "static"; "struct"; "trait"; "true"; "type"; "unsafe"; "use"; "where";
           "while"; "async"; "await"; "dyn"; "abstract"; "become"; "box"; "do"; "final"; "macro";
           "override"; "priv"; "typeof"; "unsized"; "virtual"; "yield"; "try"]%string.
Definition shown_ident (i : ident) : ident :=
  Id (i_raw i && existsb (str_eqb (i_txt i)) reserved_words) (i_txt i).
Definition shown_arg (a : arg) : arg := Arg (shown_ident (a_name a)) (a_ty a).
Definition shown_expr (e : expr) : expr :=
  match e with ESelfService => ESelfService | EVar x => EVar (shown_ident x) end.
Definition shown (g : generated) : generated :=
  Generated (shown_ident (g_trait g))
    (map (fun f => TraitFn (tf_cfgs f) (shown_ident (tf_name f)) (map shown_arg (tf_params f)) (tf_ret f))
         (g_trait_fns g))
    (map shown_ident (g_trait_extra g)) (shown_ident (g_stub g)) (shown_ident (g_server g))
    (map shown_ident (g_serve_params g)) (shown_ident (g_serve_scrut g))
    (map (fun a => Arm (ar_cfgs a) (shown_ident (ar_enum a)) (ar_variant a) (map shown_ident (ar_pats a))
                       (shown_ident (ar_resp_enum a)) (ar_resp_variant a) (shown_ident (ar_trait a))
                       (shown_ident (ar_method a)) (map shown_expr (ar_args a)))
         (g_arms g))
    (shown_ident (g_req g))
    (map (fun v => Variant (v_cfgs v) (v_name v) (map shown_arg (v_fields v))) (g_variants g))
    (g_req_derives g)
    (map (fun a => NameArm (na_cfgs a) (shown_ident (na_enum a)) (na_variant a) (na_text a)) (g_names g))
    (shown_ident (g_resp g)) (g_rvariants g) (g_resp_derives g)
    (shown_ident (g_client g)) (map shown_ident (g_client_new g))
    (map (fun f => ClientFn (cf_cfgs f) (shown_ident (cf_name f)) (map shown_arg (cf_params f)) (cf_ret f)
                            (shown_ident (cf_let f)) (shown_ident (cf_enum f)) (cf_variant f)
                            (map (fun p => (shown_ident (fst p), shown_ident (snd p))) (cf_fields f))
                            (map shown_ident (cf_call f)) (shown_ident (cf_resp_enum f)) (cf_unwrap f)
                            (cf_fallback f))
         (g_client_fns g)).

Definition wrong_eqb (a b : str * N) : bool := str_eqb (fst a) (fst b) && (snd a =? snd b).

(* model and observation agree. An expansion is not obtainable for definitions that fail in
   rustc's early phases; then the model must also say "rejected". *)
Definition obs_agree (mo o : obs) : bool :=
  match o_expanded o with
  | Some xg => option_eqb generated_eqb (option_map shown (o_expanded mo)) (Some xg)
  | None => negb (o_compiled mo)
  end
  && Bool.eqb (o_compiled mo) (o_compiled o)
  && list_eqb N.eqb (o_errors mo) (o_errors o)
  && list_eqb (option_eqb run_eqb) (o_runs mo) (o_runs o)
  && list_eqb wrong_eqb (o_wrong mo) (o_wrong o).

(* the fallback arm this version of the macro emits, as seen in the expansion *)
Definition fallback_seen (o : obs) : fallback :=
  match o_expanded o with
  | Some g => match g_client_fns g with f :: _ => cf_fallback f | [] => FallbackPanic end
  | None => FallbackPanic
  end.
