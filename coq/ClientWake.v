(* Wake-driven runs (C02).  `Settle` polls the dispatch and every live call future, round after
   round, until a round changes nothing: the executor-independent notion of "nothing is left
   that could act now".  The real harness polls ONLY tasks whose real waker fired; if the code
   loses a wakeup the two disagree (the real system stalls where the model makes progress).
   No proofs in this file. *)
From Coq Require Import List Bool Arith NArith.
Import ListNotations.
From TarpcV Require Import Base Transport Client ClientS.
Local Open Scope N_scope.

Section Wake.
  Context {T : Type} (tp : transport T cmsg resp).
  Variable fuel_of : cstate (T := T) -> nat.

  (* what a settle observes: messages written, responses read, outcomes delivered to callers
     (in order), the dispatch's result if it finished, and the gauges at the end *)
  Record sobs := {
    so_sent : list (cmsg * sres); so_read : list resp; so_done : list (nat * outcome);
    so_disp : option dres; so_fuel : bool }.

  Definition sends_of (l : list (tcall cmsg resp)) : list (cmsg * sres) :=
    flat_map (fun c => match c with CSend m r => [(m, r)] | _ => [] end) l.
  Definition reads_of (l : list (tcall cmsg resp)) : list resp :=
    flat_map (fun c => match c with CNext (RItem x) => [x] | _ => [] end) l.

  Definition is_live (p : phase) : bool :=
    match p with PNew | PAcquiring | PAssigned | PAcqClosed | PAwaiting => true | _ => false end.

  (* poll every live call once, in index order *)
  Notation cst := (cstate (T := T)).
  Fixpoint poll_calls (s : cst) (i n : nat) (acc : list (nat * outcome)) : cst * list (nat * outcome) :=
    match n with
    | O => (s, acc)
    | S n' =>
      let live := match nth_error (calls s) i with Some c => is_live (c_phase c) | None => false end in
      if live then
        let '(r, s1) := poll_call s i in
        poll_calls s1 (S i) n' (match r with CDone o => acc ++ [(i, o)] | _ => acc end)
      else poll_calls s (S i) n' acc
    end.

  (* a digest of everything a poll can change besides the observations *)
  Definition digest (s : cst) :=
    (length (queue s), length (cancels s), length (inflight s), length (waiters s),
     map (fun c => match c_phase c with
                   | PNew => 0 | PAcquiring => 1 | PAssigned => 2 | PAcqClosed => 3
                   | PAwaiting => 4 | PClosing => 5 | PDone => 6 | PGone => 7 end) (calls s),
     rx_closed s, terminal s, finished s).
  Definition digest_eqb (a b : _) : bool :=
    let '(q1, c1, i1, w1, p1, r1, t1, f1) := a in
    let '(q2, c2, i2, w2, p2, r2, t2, f2) := b in
    Nat.eqb q1 q2 && Nat.eqb c1 c2 && Nat.eqb i1 i2 && Nat.eqb w1 w2
    && list_eqb N.eqb p1 p2 && Bool.eqb r1 r2
    && option_eqb activity_eqb t1 t2
    && option_eqb (fun x y => match x, y with
                              | DOk, DOk => true | DErr a, DErr b => activity_eqb a b
                              | _, _ => false end) f1 f2.

  Fixpoint settle (rounds : nat) (s : cst) (o : sobs) : cst * sobs :=
    match rounds with
    | O => (s, {| so_sent := so_sent o; so_read := so_read o; so_done := so_done o;
                  so_disp := so_disp o; so_fuel := true |})
    | S r =>
      let d0 := digest s in
      (* the dispatch, unless it has finished or was dropped *)
      let '(s1, o1) :=
        match finished s, dropped s with
        | None, false =>
          let s0 := upd_tr s (tr s) (fused s) [] in
          let '(res, s') := poll_dispatch tp (fuel_of s0) s0 in
          let s'' := match res with DReady d => upd_fin s' (Some d) (dropped s') | _ => s' end in
          (upd_tr s'' (tr s'') (fused s'') [],
           {| so_sent := so_sent o ++ sends_of (plog s'); so_read := so_read o ++ reads_of (plog s');
              so_done := so_done o;
              so_disp := match res with DReady d => Some d | _ => so_disp o end;
              so_fuel := match res with DFuel => true | _ => so_fuel o end |})
        | _, _ => (s, o)
        end in
      let '(s2, dn) := poll_calls s1 0 (length (calls s1)) [] in
      let o2 := {| so_sent := so_sent o1; so_read := so_read o1; so_done := so_done o1 ++ dn;
                   so_disp := so_disp o1; so_fuel := so_fuel o1 |} in
      let quiet :=
        digest_eqb d0 (digest s2) && Nat.eqb (length dn) 0
        && Nat.eqb (length (so_sent o2)) (length (so_sent o))
        && Nat.eqb (length (so_read o2)) (length (so_read o)) in
      if quiet then (s2, o2) else settle r s2 o2
    end.

  Definition sobs0 := {| so_sent := []; so_read := []; so_done := []; so_disp := None;
                         so_fuel := false |}.

  (* enough rounds: every non-quiet round resolves a call, moves a request/cancel/response or
     changes a phase *)
  Definition rounds_of (s : cst) : nat :=
    (8 + 4 * (length (calls s) + length (queue s) + length (cancels s) + length (inflight s)))%nat.
End Wake.

(* ------------------------------------------------------------------ scripted instance *)
Inductive wop := WOp (o : sop) | WSettle.

Inductive wobs :=
| WO (l : list obs)
| WS (sent : list (cmsg * sres)) (read : list resp) (done : list (nat * outcome))
     (disp : option dres) (inflight timers : N)
| WFuel.

Definition wstep (s : cstate (T := stransport resp)) (o : wop) : cstate * wobs :=
  match o with
  | WOp o => let '(s1, l) := step stp sfuel s (to_op o) in (s1, WO l)
  | WSettle =>
    let '(s1, r) := settle stp sfuel (rounds_of s + length (st_inbox (tr s))) s sobs0 in
    (s1, if so_fuel r then WFuel
         else WS (so_sent r) (so_read r) (so_done r) (so_disp r)
                 (N.of_nat (length (inflight s1))) (N.of_nat (length (timers s1))))
  end.

Fixpoint wrun_from (s : cstate (T := stransport resp)) (ops : list wop) : list wobs :=
  match ops with
  | [] => []
  | o :: r => let '(s1, x) := wstep s o in x :: wrun_from s1 r
  end.
Definition wrun (c : ccfg) (ops : list wop) : list wobs := wrun_from (cinit c) ops.

Definition sres_pair_eqb (a b : cmsg * sres) := cmsg_eqb (fst a) (fst b) && sres_eqb (snd a) (snd b).
Definition done_eqb (a b : nat * outcome) := Nat.eqb (fst a) (fst b) && outcome_eqb (snd a) (snd b).
Definition dres_eqb (x y : dres) :=
  match x, y with DOk, DOk => true | DErr a, DErr b => activity_eqb a b | _, _ => false end.
Definition wobs_eqb (a b : wobs) : bool :=
  match a, b with
  | WO x, WO y => list_eqb obs_eqb x y
  | WS s1 r1 d1 p1 a1 b1, WS s2 r2 d2 p2 a2 b2 =>
    list_eqb sres_pair_eqb s1 s2 && list_eqb resp_eqb r1 r2 && list_eqb done_eqb d1 d2
    && option_eqb dres_eqb p1 p2 && (a1 =? a2) && (b1 =? b2)
  | WFuel, WFuel => true
  | _, _ => false
  end.

(* ------------------------------------------------------------------ C02 monitor *)
(* Over a wake-driven trace, as an outside observer: after every settle,
   (a) the settle itself terminated (no WFuel);
   (b) if the dispatch has ended with an error, or was dropped, no call that was started and not
       dropped is still unresolved;
   (c) if the dispatch is alive, the script has left the transport writable (ready, flushing,
       no fault armed since the last failure-free settle, unlimited or coupled capacity) with
       nothing left to read, and some started call is unresolved, then at least one request is
       in flight (its timer or its reply is what the system is waiting for). *)
Record wmon := {
  wm_calls : nat;                 (* calls created *)
  wm_live : list bool;            (* per call: created on a live handle *)
  wm_done : list nat; wm_dropped : list nat;
  wm_handles : list bool;
  wm_dead : bool;                 (* dispatch ended with an error or was dropped *)
  wm_ended : bool;                (* dispatch ended (any result) *)
  wm_ready : bool; wm_flush : bool; wm_tainted : bool (* fault armed / eof / close fiddled *);
  wm_delivered : nat; wm_read : nat (* responses handed to the transport / read by the dispatch *) }.

Definition wm0 := {| wm_calls := 0; wm_live := []; wm_done := []; wm_dropped := [];
                     wm_handles := [true]; wm_dead := false; wm_ended := false;
                     wm_ready := true; wm_flush := true; wm_tainted := false;
                     wm_delivered := 0; wm_read := 0 |}.

Definition memn (x : nat) (l : list nat) := existsb (Nat.eqb x) l.

Definition wm_op (m : wmon) (o : sop) : wmon :=
  match o with
  | SClone h =>
    match nth_error (wm_handles m) h with
    | Some true => {| wm_calls := wm_calls m; wm_live := wm_live m; wm_done := wm_done m; wm_dropped := wm_dropped m; wm_handles := wm_handles m ++ [true]; wm_dead := wm_dead m; wm_ended := wm_ended m; wm_ready := wm_ready m; wm_flush := wm_flush m; wm_tainted := wm_tainted m; wm_delivered := wm_delivered m; wm_read := wm_read m |}
    | _ => m end
  | SDropH h =>
    {| wm_calls := wm_calls m; wm_live := wm_live m; wm_done := wm_done m; wm_dropped := wm_dropped m;
       wm_handles := set_nth h false (wm_handles m); wm_dead := wm_dead m; wm_ended := wm_ended m;
       wm_ready := wm_ready m; wm_flush := wm_flush m; wm_tainted := wm_tainted m; wm_delivered := wm_delivered m; wm_read := wm_read m |}
  | SCall h _ _ _ _ =>
    let alive := match nth_error (wm_handles m) h with Some true => true | _ => false end in
    {| wm_calls := S (wm_calls m); wm_live := wm_live m ++ [alive]; wm_done := wm_done m;
       wm_dropped := wm_dropped m; wm_handles := wm_handles m; wm_dead := wm_dead m;
       wm_ended := wm_ended m; wm_ready := wm_ready m; wm_flush := wm_flush m;
       wm_tainted := wm_tainted m; wm_delivered := wm_delivered m; wm_read := wm_read m |}
  | SDropCall i | SGClose i =>
    {| wm_calls := wm_calls m; wm_live := wm_live m; wm_done := wm_done m;
       wm_dropped := i :: wm_dropped m; wm_handles := wm_handles m; wm_dead := wm_dead m;
       wm_ended := wm_ended m; wm_ready := wm_ready m; wm_flush := wm_flush m;
       wm_tainted := wm_tainted m; wm_delivered := wm_delivered m; wm_read := wm_read m |}
  | SDropD =>
    {| wm_calls := wm_calls m; wm_live := wm_live m; wm_done := wm_done m;
       wm_dropped := wm_dropped m; wm_handles := wm_handles m; wm_dead := true;
       wm_ended := true; wm_ready := wm_ready m; wm_flush := wm_flush m;
       wm_tainted := wm_tainted m; wm_delivered := wm_delivered m; wm_read := wm_read m |}
  | STr (TSetReady b) =>
    {| wm_calls := wm_calls m; wm_live := wm_live m; wm_done := wm_done m;
       wm_dropped := wm_dropped m; wm_handles := wm_handles m; wm_dead := wm_dead m;
       wm_ended := wm_ended m; wm_ready := b; wm_flush := wm_flush m; wm_tainted := wm_tainted m; wm_delivered := wm_delivered m; wm_read := wm_read m |}
  | STr (TSetFlush b) =>
    {| wm_calls := wm_calls m; wm_live := wm_live m; wm_done := wm_done m;
       wm_dropped := wm_dropped m; wm_handles := wm_handles m; wm_dead := wm_dead m;
       wm_ended := wm_ended m; wm_ready := wm_ready m; wm_flush := b; wm_tainted := wm_tainted m; wm_delivered := wm_delivered m; wm_read := wm_read m |}
  | STr (TDeliver _) =>
    {| wm_calls := wm_calls m; wm_live := wm_live m; wm_done := wm_done m;
       wm_dropped := wm_dropped m; wm_handles := wm_handles m; wm_dead := wm_dead m;
       wm_ended := wm_ended m; wm_ready := wm_ready m; wm_flush := wm_flush m;
       wm_tainted := wm_tainted m; wm_delivered := S (wm_delivered m); wm_read := wm_read m |}
  | STr (TFail _) | STr TEof | STr (TSetClose _) =>
    {| wm_calls := wm_calls m; wm_live := wm_live m; wm_done := wm_done m;
       wm_dropped := wm_dropped m; wm_handles := wm_handles m; wm_dead := wm_dead m;
       wm_ended := wm_ended m; wm_ready := wm_ready m; wm_flush := wm_flush m; wm_tainted := true; wm_delivered := wm_delivered m; wm_read := wm_read m |}
  | _ => m
  end.

Definition wm_unresolved (m : wmon) : bool :=
  existsb (fun i => nth i (wm_live m) false && negb (memn i (wm_done m)) && negb (memn i (wm_dropped m)))
          (seq 0 (wm_calls m)).

Fixpoint c02_run (c : ccfg) (m : wmon) (ops : list wop) (tr : list wobs) : bool :=
  match ops, tr with
  | [], [] => true
  | WOp o :: ops', WO l :: tr' =>
    (* explicit polls may appear in mixed scripts: record outcomes they show *)
    let m1 := wm_op m o in
    let m2 := match o, l with
              | SPollCall i, [OCall (CDone _)] =>
                {| wm_calls := wm_calls m1; wm_live := wm_live m1; wm_done := i :: wm_done m1; wm_dropped := wm_dropped m1; wm_handles := wm_handles m1; wm_dead := wm_dead m1; wm_ended := wm_ended m1; wm_ready := wm_ready m1; wm_flush := wm_flush m1; wm_tainted := wm_tainted m1; wm_delivered := wm_delivered m1; wm_read := wm_read m1 |}
              | SPollD, [OCalls cl; ODisp r; _] =>
                {| wm_calls := wm_calls m1; wm_live := wm_live m1; wm_done := wm_done m1; wm_dropped := wm_dropped m1; wm_handles := wm_handles m1; wm_dead := match r with DReady (DErr _) => true | _ => wm_dead m1 end; wm_ended := match r with DReady _ => true | _ => wm_ended m1 end; wm_ready := wm_ready m1; wm_flush := wm_flush m1; wm_tainted := wm_tainted m1; wm_delivered := wm_delivered m1; wm_read := wm_read m1 + length (reads_of cl) |}
              | _, _ => m1 end in
    negb (existsb (fun x => match x with OPanic | OSpin => true | _ => false end) l)
    && c02_run c m2 ops' tr'
  | WSettle :: ops', WS _ rd dn disp a _ :: tr' =>
    let m1 := {| wm_calls := wm_calls m; wm_live := wm_live m; wm_done := map fst dn ++ wm_done m;
                 wm_dropped := wm_dropped m; wm_handles := wm_handles m;
                 wm_dead := match disp with Some (DErr _) => true | _ => wm_dead m end;
                 wm_ended := match disp with Some _ => true | None => wm_ended m end;
                 wm_ready := wm_ready m; wm_flush := wm_flush m; wm_tainted := wm_tainted m;
                 wm_delivered := wm_delivered m; wm_read := wm_read m + length rd |} in
    let writable_b := wm_ready m1 && wm_flush m1 && negb (wm_tainted m1)
                      && (Nat.eqb (cf_cap c) 0 || cf_coupled c) in
    (negb (wm_dead m1) || negb (wm_unresolved m1))
    && (negb (negb (wm_ended m1) && writable_b && wm_unresolved m1 && (1 <=? cf_maxif c)%nat)
        || (1 <=? a))
    (* (d) while the dispatch runs on a transport nobody tampered with, every response the peer
       delivered has been read when the system is quiescent *)
    && (wm_ended m1 || wm_tainted m1 || Nat.eqb (wm_delivered m1) (wm_read m1))
    && c02_run c m1 ops' tr'
  | _, _ => false          (* WFuel, or a malformed trace *)
  end.

Definition c02_ok (c : ccfg) (ops : list wop) (tr : list wobs) : bool := c02_run c wm0 ops tr.
