(* PINNED STATEMENTS of the server-side monitor theorems.  No proofs here.  ALL ARE PROVED:
     stmt_s_v08, stmt_s_v04, stmt_s08, stmt_s04            ServerProofsPA4 (invariant InvH: PA0-PA3)
     stmt_s_v12a / _v12b / _v12c(_rel), stmt_s12(_rel)     ServerProofsPB1 / PB2 / PB4, PB6
     stmt_s_v06l(_rel), stmt_s06(_rel)                     ServerProofsPB5, PB6
     stmt_s_v09, stmt_s09, stmt_s_v11(_rel), stmt_s11(_rel)   ServerProofsPC9a/b, PC11, PC2, PC3
     stmt_s_v10, stmt_s10                                  ServerProofsPC10
   (flag level -> monitor level: ServerSpecGlue.v), restated as the *_monitor theorems of
   Properties/C04, C06, C08, C09, C10, C11, C12; through tarpc's own execute() adapter, with
   h_stop discharged: ServerExecProofs2.v.

   Each stmt_sXX below is the exact full-strength statement "the monitor accepts the trace of EVERY
   run of the model": every transport (any state type T, any behaviour tp), every environment ctl
   acting on the transport between ops (any command type C), every fuel measure with
   tfuel_ok tp tfuel (the transport cannot hand out items for ever within one poll), every
   configuration c, every initial transport state t0 and every op list.  Hypotheses are the ones of
   DESIGN section 7, as the observer of ServerMon.v sees them on the trace itself:
     h_b1   = reuse_only_after_completion   (B1: necessary, ServerWitness.b1_witness)
     h_stop = stops_after_error             (necessary, ServerWitness.e1_witness)
   and the two known classes, excluded where the full-strength monitor rejects them:
     c_k1   = freed_in_same_poll            (K1, ServerWitness.k1_witness)
     c_k2   = limiter_blocked_on_sink       (K2, ServerWitness.k2_witness)

   PROOF PLAN as it was handed to the provers (carried out in ServerProofsP*.v).  The foundations
   they started from:
     ServerSim6.run_top        Top (orun lim o ops tr) s' /\ hb_ok s' along every run, where
                               Top o s := h_stop -> InvU o s /\ no_thr s /\ (c_err = false ->
                               handled s /\ (not dropped -> o_gauge o = |s_inflight s|));
                               ServerSim6.top_init gives Top o_init (init c t0).
     ServerSim.InvU            the observer/model simulation invariant (17 fields: table lengths,
                               clock, owners of tracked entries, WOpen => timer not due, WMaybe =>
                               due or server cancel queued, timers = in_flight keys, ...).
     ServerSim3.base_inv / maxreq_inv / pump_write_inv / requests_inv
                               InvU (as BInv / QInv with PendQ) through the polling loops, call by
                               call (micro-steps ServerSim2.step_ready/flush/next_*/throttle/send).
     ServerSim4.base_complete / requests_ctrl
                               a poll that returns Pending/End either ran BaseChannel to
                               Complete (no server cancel queued, no timer due) or was blocked.
     ServerSim7.server_never_early    v_bad = false /\ v06e = true for every run (same quantifiers).
     ServerSim7.va_step / run_va      the pattern to thread ONE MORE FLAG through run_top: a
                               predicate on the observer state preserved by every ostep, given Top.
     ServerState.run_from_keys        map fst timers = map e_id in_flight, gauges agree, |in_flight|
                               <= L after a yield, in every reachable state (model only).
     ServerTrace.run_from_trace       every yield carries the request last read.

   The flag-level statements stmt_s_v* were the units of work; the monitor-level statements
   stmt_s08 ... stmt_s10 follow from them and server_never_early by unfolding the monitors
   (Section Monitors of ServerMon.v).  Every statement was evaluated with vm_compute on generated
   scripts (Checks/SrvSpecTest.v: verdict 0 on every case = no pinned statement is false there). *)
From Coq Require Import List Bool Arith NArith.
Import ListNotations.
From TarpcV Require Import Base Transport TimerWheel Server ServerMon ServerFuel.

(* P holds of the verdicts the observer reaches on the trace of every run of the model *)
Definition every_run (P : verdicts -> Prop) : Prop :=
  forall (T C : Type) (tp : transport T response cmsg) (ctl : T -> C -> T) (tfuel : T -> nat)
         (c : cfg) (t0 : T) (ops : list (op C)),
    tfuel_ok tp tfuel ->
    P (observe c ops (fst (run tp ctl tfuel c t0 ops))).

(* the same for a monitor (a boolean function of configuration, ops and trace) *)
Definition every_run_mon (m : forall C : Type, cfg -> list (op C) -> list (list obs) -> Prop) : Prop :=
  forall (T C : Type) (tp : transport T response cmsg) (ctl : T -> C -> T) (tfuel : T -> nat)
         (c : cfg) (t0 : T) (ops : list (op C)),
    tfuel_ok tp tfuel ->
    m C c ops (fst (run tp ctl tfuel c t0 ops)).

(* ---- flag level ---------------------------------------------------------------------------- *)

(* The comments on the flag-level statements below are the proof plans written before the proofs
   ("Needs ...", "Start: ..."); each was carried out in the file named in the header. *)

(* C08 (yields / duplicates / responses match the requests read).
   Needs the hypothesis-dependent half of the invariant, to hold while h_b1 && h_stop:
   (i) "surely-open => tracked": oi_wire = WOpen -> some entry of s_inflight is owned by k (then a
   request with that id IS a duplicate: start_request = None, and accept_id never meets a must);
   (ii) "provenance of queued responses": every m in s_respq (and every HWait b / HPermit b) comes
   from a handler incarnation k with oi_done = Some (resp_body m) and id = resp_id m, and while its
   entry is tracked last_open (resp_id m) = Some k; (iii) "no stale server cancel": id in s_cancels
   -> the last incarnation of id is WMaybe/WClosed (so B1 forbids re-use before it is consumed).
   Start: add the three clauses to a record InvH o s, prove it through ServerSim2.step_* and
   ServerSim3.*_inv (same structure as InvU), then a va_step-style lemma for v08. *)
Definition stmt_s_v08 : Prop :=
  every_run (fun v => h_b1 v = true -> h_stop v = true -> v08 v = true).

(* C04 (no handler poll after the Cancel of its incarnation was read).
   Needs: oi_wire = WCancelled at index k -> h_h (handler k) in s_aborted, or the handler is already
   HDone/HGone; then ServerState.aborted_stops / execute_poll emits no OHPolled.  The Cancel
   micro-step is ServerSim2.step_next_cancel (uses cancel_request: abort + forget); needs (i) above
   to know the cancelled incarnation's entry was the tracked one. *)
Definition stmt_s_v04 : Prop :=
  every_run (fun v => h_b1 v = true -> h_stop v = true -> v04 v = true).

(* C06 late clause, blocked polls exempt: no handler poll after a COMPLETE poll that had to process
   its expiry (WMaybe -> WClosed by settle).  Needs: oi_wire = WClosed at k -> handler k aborted or
   over.  settle happens in finish_idle exactly when ServerSim4.requests_ctrl gives Complete s
   (nothing due, no server cancel): with InvU.u_maybe a WMaybe incarnation is then untracked, and
   untracked-by-expiry/cancel => aborted needs (iii) and the expiry micro-step (ServerSim.InvU_
   poll_expired family). *)
Definition stmt_s_v06l_rel : Prop :=
  every_run (fun v => h_b1 v = true -> h_stop v = true -> v06l_rel v = true).
(* full strength: also after blocked polls; false on K2 traces, true without them (oi_late is only
   ever set by finish_idle on a blocked poll, which sets c_k2) *)
Definition stmt_s_v06l : Prop :=
  every_run (fun v => h_b1 v = true -> h_stop v = true -> c_k2 v = false -> v06l v = true).

(* C12 (a): after a yield at most L in flight.  Model-only fact already proved
   (ServerState.run_from_keys, ServerProps.C12_server_yield_within_limit = Properties C12_yield_within_limit);
   link needed (proved in ServerProofsPB1): the gauge `a` the
   observer checks in ostep is the model's |s_inflight| (it is: gauges s1). *)
Definition stmt_s_v12a : Prop := every_run (fun v => v12a v = true).
(* C12 (b): a throttle reply answers the request just read.  "throttle flags decided mid-poll":
   thread v12b through ServerSim3.maxreq_inv: at step_throttle, PendQ gives o_pend = Some q with
   resp_id = q_id q, and lim = Some _ because only maxreq_poll_next writes BThrottle (no_thr: no
   queued response is a throttle). *)
Definition stmt_s_v12b : Prop := every_run (fun v => v12b v = true).
(* C12 (c), capacity freed earlier in the same Requests poll exempt: at a throttle either
   L <= count_open or o_freed.  Needs the counting lemma |s_inflight s| <= count_open (o_incs o)
   (+1 for the pending request) from InvU.u_owner + u_one_open, and: the in-flight count can only
   drop inside a poll by a Cancel of an open incarnation (sets o_freed) or by expiry / server cancel
   (then any_maybe at start_poll, which initialises o_freed); maxreq tested limit <= |s_inflight|
   at loop entry (Entry in ServerSim4). *)
Definition stmt_s_v12c_rel : Prop :=
  every_run (fun v => h_b1 v = true -> v12c_rel v = true).
Definition stmt_s_v12c : Prop :=
  every_run (fun v => h_b1 v = true -> c_k1 v = false -> v12c v = true).

(* C11 server: count_must <= gauge <= count_open, gauge = timers, after every op; equality after a
   complete idle poll.  Upper bound and timers: from InvU (u_owner, u_one_open, u_timers) by the
   counting lemma above.  LOWER bound needs (i) "surely-open => tracked".  Equality after settle:
   ServerSim4.requests_ctrl (Complete) + InvU.u_maybe. *)
Definition stmt_s_v11_rel : Prop :=
  every_run (fun v => h_b1 v = true -> h_stop v = true -> v11_rel v = true).
Definition stmt_s_v11 : Prop :=
  every_run (fun v => h_b1 v = true -> h_stop v = true -> c_k2 v = false -> v11 v = true).

(* C09 server: a failing transport call ends the poll, which reports that call's activity; after
   the channel is dropped no handler is polled (drop_channel aborts every tracked entry; needs (i):
   a handler that can still be polled has a tracked entry or is aborted already). *)
Definition stmt_s_v09 : Prop :=
  every_run (fun v => h_b1 v = true -> h_stop v = true -> v09 v = true).

(* C10 server: the stream ends only after eof was read, with the last flush complete and 0 in
   flight.  Needs o_dirty in sync with the log (dirty := true at CSend SOk, false at CFlush TOk)
   and: pump_write returns PEnd only right after do_flush = TOk with read_closed and
   |s_inflight| = 0 (read off Server.pump_write / requests_poll_next); o_eof from InvU.u_eof. *)
Definition stmt_s_v10 : Prop := every_run (fun v => v10 v = true).

(* ---- monitor level (what the Checks modules evaluate on real traces) ------------------------- *)
Definition stmt_s08 : Prop := every_run_mon (fun C c ops tr => c08_ok c ops tr = true).
Definition stmt_s04 : Prop := every_run_mon (fun C c ops tr => c04_ok c ops tr = true).
Definition stmt_s06_rel : Prop := every_run_mon (fun C c ops tr => c06_rel_ok c ops tr = true).
Definition stmt_s06 : Prop :=
  every_run_mon (fun C c ops tr => limiter_blocked_on_sink c ops tr = false -> c06_ok c ops tr = true).
Definition stmt_s12_rel : Prop := every_run_mon (fun C c ops tr => c12_rel_ok c ops tr = true).
Definition stmt_s12 : Prop :=
  every_run_mon (fun C c ops tr => freed_in_same_poll c ops tr = false -> c12_ok c ops tr = true).
Definition stmt_s11_rel : Prop := every_run_mon (fun C c ops tr => c11s_rel_ok c ops tr = true).
Definition stmt_s11 : Prop :=
  every_run_mon (fun C c ops tr => limiter_blocked_on_sink c ops tr = false -> c11s_ok c ops tr = true).
Definition stmt_s09 : Prop := every_run_mon (fun C c ops tr => c09s_ok c ops tr = true).
Definition stmt_s10 : Prop := every_run_mon (fun C c ops tr => c10s_ok c ops tr = true).
