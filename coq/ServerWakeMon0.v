(* C02, server half, wake-driven monitor (ServerWake.c02s_ok), part 0: the monitor's incarnation
   table (wm_incs) against the table of the ServerMon observer (o_incs), call by call.  Observer-only
   facts: no model state appears here.  The relation holds as long as the C08 checks of the ServerMon
   observer pass, which ServerProofsPA5 (prefix-closed v08) provides along every poll. *)
From Coq Require Import List Bool Arith NArith Lia.
Import ListNotations.
From TarpcV Require Import Base Transport TimerWheel Server ServerMon ServerFuel ServerContract
     ServerSim ServerSim2 ServerSim3 ServerSim4 ServerSim5 ServerSim6 ServerSim7
     ServerProofsPA0 ServerProofsPA3 ServerProofsPA5 ServerWake.

Lemma wstate_eq_dec : forall a b : ServerMon.wstate, {a = b} + {a <> b}.
Proof. decide equality. Qed.

Definition ended_ph (p : ophase) : bool := match p with PEnded => true | _ => false end.
Definition isome {A} (x : option A) : bool := match x with Some _ => true | None => false end.
(* not dropped by the application, not cancelled, not answered, timer not due *)
Definition wopen (now : N) (i : minc) : bool :=
  negb (mi_gone i) && negb (mi_cancelled i) && negb (mi_written i) && negb (N.leb (mi_when i) now).

Record RelK (now : N) (dropped : bool) (mi : minc) (oi : oinc) : Prop := {
  rk_id : mi_id mi = oi_id oi;
  rk_when : mi_when mi = oi_when oi;
  rk_done : mi_done mi = isome (oi_done oi);
  rk_ended : mi_ended mi = ended_ph (oi_ph oi);
  rk_young : oi_wire oi = WOpen -> (now < oi_when oi)%N;
  rk_gone_open : dropped = false -> oi_wire oi = WOpen -> mi_gone mi = false;
  rk_written : mi_written mi = true -> oi_wire oi = WAnswered;
  rk_wopen : wopen now mi = true -> oi_wire oi = WOpen;
  rk_cancelled : mi_cancelled mi = true -> is_open (oi_wire oi) = false;
  rk_gone : mi_gone mi = true -> mi_ended mi = true }.

Definition Rel (m : wmon) (o : ostate) : Prop :=
  length (wm_incs m) = length (o_incs o) /\ wm_now m = o_now o /\ wm_dropped m = o_dropped o
  /\ forall k mi oi, nth_error (wm_incs m) k = Some mi -> nth_error (o_incs o) k = Some oi ->
                     RelK (o_now o) (o_dropped o) mi oi.

(* an incarnation that may still be tracked is the last one with its id *)
Definition OI (o : ostate) : Prop :=
  forall k oi, nth_error (o_incs o) k = Some oi -> is_open (oi_wire oi) = true ->
               lastk (o_incs o) k (oi_id oi).

Lemma OI_one_open : forall o k1 k2 o1 o2,
  OI o -> nth_error (o_incs o) k1 = Some o1 -> nth_error (o_incs o) k2 = Some o2 ->
  oi_id o1 = oi_id o2 -> is_open (oi_wire o1) = true -> is_open (oi_wire o2) = true -> k1 = k2.
Proof.
  intros o k1 k2 o1 o2 H H1 H2 E O1 O2.
  apply (lastk_unique (o_incs o) k1 k2 o1 o2 (oi_id o1) H1 H2 eq_refl (eq_sym E)).
  - apply (H k1 o1 H1 O1).
  - rewrite E. apply (H k2 o2 H2 O2).
Qed.

Lemma last_open_of_open : forall o k oi,
  OI o -> nth_error (o_incs o) k = Some oi -> is_open (oi_wire oi) = true ->
  last_open (oi_id oi) (o_incs o) = Some k.
Proof.
  intros o k oi H Hk Ho. destruct (last_open (oi_id oi) (o_incs o)) as [k'|] eqn:EL.
  - destruct (last_open_some _ _ _ EL) as (x & Hx & Hop & _). apply open_id_true in Hop. destruct Hop as [X1 X2].
    f_equal. eapply OI_one_open; eauto.
  - exfalso. eapply last_open_is_some; eauto.
Qed.

(* ---------------------------------------------------------------- lists on the monitor's side *)
Lemma upd_k_length : forall A (f : A -> A) k l, length (upd_k k f l) = length l.
Proof. intros A f k l; revert k; induction l; destruct k; cbn; auto. Qed.
Lemma upd_k_same : forall A (f : A -> A) k l x, nth_error l k = Some x -> nth_error (upd_k k f l) k = Some (f x).
Proof.
  intros A f k l; revert k; induction l as [|y l IH]; destruct k; cbn; intros x H; try discriminate.
  - inversion H; reflexivity.
  - apply IH; exact H.
Qed.
Lemma upd_k_other : forall A (f : A -> A) k k' l, k <> k' -> nth_error (upd_k k f l) k' = nth_error l k'.
Proof.
  intros A f k k' l; revert k k'; induction l as [|y l IH]; destruct k, k'; cbn; intros H; auto; try congruence.
Qed.
Lemma upd_k_none : forall A (f : A -> A) k l, nth_error l k = None -> upd_k k f l = l.
Proof.
  intros A f k l; revert k; induction l as [|y l IH]; destruct k; cbn; intros H; auto; try discriminate.
  f_equal; auto.
Qed.
Lemma upd_k_inv : forall A (f : A -> A) k0 l j x,
  nth_error (upd_k k0 f l) j = Some x ->
  exists y, nth_error l j = Some y /\ ((j = k0 /\ x = f y) \/ (j <> k0 /\ x = y)).
Proof.
  intros A f k0 l j x H. destruct (Nat.eq_dec k0 j) as [->|Hne].
  - destruct (nth_error l j) as [y|] eqn:E.
    + rewrite (upd_k_same _ _ _ _ _ E) in H. inversion H; subst. eauto.
    + rewrite (upd_k_none _ _ _ _ E) in H. congruence.
  - rewrite (upd_k_other _ _ _ _ _ Hne) in H. exists x. split; [exact H|right; split; auto].
Qed.

Definition uw (id : N) (x : minc) : bool := N.eqb (mi_id x) id && mi_done x && negb (mi_written x).

Lemma last_unwritten_spec : forall id l k0 acc r,
  last_unwritten id k0 l acc = r ->
  (r = acc /\ forall j x, nth_error l j = Some x -> uw id x = false)
  \/ (exists j x, r = Some (k0 + j) /\ nth_error l j = Some x /\ uw id x = true
                  /\ forall j' x', j < j' -> nth_error l j' = Some x' -> uw id x' = false).
Proof.
  induction l as [|y l IH]; intros k0 acc r H; cbn in H.
  - left. split; [auto|]. intros j x Hn. destruct j; discriminate.
  - fold (uw id y) in H. destruct (IH _ _ _ H) as [[Hr Hall]|(j & x & Hr & Hn & Ho & Hlast)].
    + destruct (uw id y) eqn:Ey.
      * right. exists 0, y. rewrite Nat.add_0_r. repeat split; auto.
        intros j' x' Hj Hn. destruct j'; [lia|]. cbn in Hn. eauto.
      * left. split; [auto|]. intros j x Hn. destruct j; cbn in Hn; [inversion Hn; subst; auto|eauto].
    + right. exists (S j), x. rewrite Nat.add_succ_r. cbn. repeat split; auto.
      intros j' x' Hj Hn'. destruct j'; [lia|]. cbn in Hn'. apply (Hlast j' x'); auto; lia.
Qed.

Lemma last_unwritten_is : forall id l k x,
  nth_error l k = Some x -> uw id x = true ->
  (forall j' x', k < j' -> nth_error l j' = Some x' -> mi_id x' <> id) ->
  last_unwritten id 0 l None = Some k.
Proof.
  intros id l k x Hk Hu Hlast.
  destruct (last_unwritten_spec id l 0 None _ eq_refl) as [[_ Hall]|(j & y & Hr & Hn & Ho & Hl)].
  - rewrite (Hall k x Hk) in Hu. discriminate.
  - rewrite Hr. cbn. f_equal. destruct (Nat.lt_trichotomy j k) as [H|[H|H]]; [|exact H|].
    + rewrite (Hl k x H Hk) in Hu. discriminate.
    + exfalso. apply (Hlast j y H Hn). unfold uw in Ho. apply andb_true_iff in Ho. destruct Ho as [Ho _].
      apply andb_true_iff in Ho. destruct Ho as [Ho _]. apply N.eqb_eq in Ho. exact Ho.
Qed.

(* the last incarnation with an id, on both sides *)
Lemma last_with_any : forall id (l : list minc) (l' : list oinc) acc acc',
  length l = length l' ->
  (forall k mi oi, nth_error l k = Some mi -> nth_error l' k = Some oi -> mi_id mi = oi_id oi) ->
  match last_with id l acc, last_any_from id l' acc' with
  | None, None => acc = None /\ acc' = None
  | Some mi, Some oi =>
    (acc = Some mi /\ acc' = Some oi) \/ exists k, nth_error l k = Some mi /\ nth_error l' k = Some oi
  | Some _, None => acc <> None /\ acc' = None
  | None, Some _ => acc = None /\ acc' <> None
  end.
Proof.
  induction l as [|x l IH]; intros [|y l'] acc acc' HL Hid; cbn in HL; try discriminate; cbn [last_with last_any_from].
  - destruct acc, acc'; auto; split; auto; discriminate.
  - assert (E : mi_id x = oi_id y) by (apply (Hid 0 x y); reflexivity).
    assert (HL' : length l = length l') by congruence.
    assert (Hid' : forall k mi oi, nth_error l k = Some mi -> nth_error l' k = Some oi -> mi_id mi = oi_id oi).
    { intros k mi oi A B. apply (Hid (S k)); assumption. }
    rewrite E. destruct (N.eqb (oi_id y) id) eqn:Ey.
    + specialize (IH l' (Some x) (Some y) HL' Hid').
      destruct (last_with id l (Some x)) as [mi|], (last_any_from id l' (Some y)) as [oi|].
      * right. destruct IH as [[A B]|(k & A & B)]; [inversion A; inversion B; subst; exists 0; auto|exists (S k); auto].
      * destruct IH as [_ IH]; discriminate.
      * destruct IH as [IH _]; discriminate.
      * destruct IH as [IH _]; discriminate.
    + specialize (IH l' acc acc' HL' Hid').
      destruct (last_with id l acc) as [mi|], (last_any_from id l' acc') as [oi|]; auto.
      destruct IH as [IH|(k & A & B)]; [left; exact IH|right; exists (S k); auto].
Qed.

(* ---------------------------------------------------------------- frames *)
Lemma Rel_same : forall m o m' o',
  wm_incs m' = wm_incs m -> wm_now m' = wm_now m -> wm_dropped m' = wm_dropped m ->
  o_incs o' = o_incs o -> o_now o' = o_now o -> o_dropped o' = o_dropped o ->
  Rel m o -> Rel m' o'.
Proof. intros m o m' o' E1 E2 E3 E4 E5 E6 (A & B & C & D). unfold Rel. rewrite E1, E2, E3, E4, E5, E6. auto. Qed.
Lemma OI_same : forall o o', o_incs o' = o_incs o -> OI o -> OI o'.
Proof. intros o o' E H. unfold OI. rewrite E. exact H. Qed.

Lemma RelK_set_wire : forall now d mi oi w,
  RelK now d mi oi -> is_open w = false -> (mi_written mi = true -> w = WAnswered) ->
  wopen now mi = false -> RelK now d mi (set_wire oi w).
Proof.
  intros now d mi oi w [] Hw Hwr Hwo. constructor; cbn [set_wire oi_id oi_when oi_done oi_ph oi_wire]; auto.
  - intros E. rewrite E in Hw. discriminate.
  - intros _ E. rewrite E in Hw. discriminate.
  - intros E. rewrite Hwo in E. discriminate.
Qed.

(* closing an incarnation that was possibly, but not surely, open *)
Lemma wopen_false_of_not_open : forall now d mi oi,
  RelK now d mi oi -> oi_wire oi <> WOpen -> wopen now mi = false.
Proof.
  intros now d mi oi R H. destruct (wopen now mi) eqn:E; [|reflexivity]. exfalso. apply H. exact (rk_wopen _ _ _ _ R E).
Qed.

Lemma OI_close : forall o o' kopt w,
  OI o -> o_incs o' = close_at kopt w (o_incs o) -> is_open w = false -> OI o'.
Proof.
  intros o o' kopt w H E Hw k oi Hk Ho. rewrite E in Hk |- *.
  destruct (close_at_nth _ _ _ _ _ Hk) as (y & Hy & E1 & _ & _ & _ & _ & W).
  rewrite E1. apply lastk_close_at. apply (H k y Hy).
  destruct W as [[_ W]|[_ W]]; [rewrite W, Hw in Ho; discriminate|rewrite <- W; exact Ho].
Qed.

(* ---------------------------------------------------------------- calls the monitor does not see *)
Lemma wm_call_h_skip : forall mh c, keep_call c = false -> wm_call_h mh c = mh.
Proof.
  intros [m h] c H. unfold wm_call_h. cbn [fst snd].
  destruct c as [r|x r|r|r|r]; try discriminate; cbn; rewrite ?andb_true_r; try reflexivity.
  destruct r; try discriminate; cbn; rewrite ?andb_true_r; reflexivity.
Qed.
Lemma fold_wm_filter : forall l mh, fold_left wm_call_h (filter keep_call l) mh = fold_left wm_call_h l mh.
Proof.
  induction l as [|c l IH]; intros mh; cbn [filter fold_left]; [reflexivity|].
  destruct (keep_call c) eqn:E; cbn [fold_left]; [apply IH|]. rewrite (wm_call_h_skip mh c E). apply IH.
Qed.

(* ---------------------------------------------------------------- the hypothesis B1, both views *)
Lemma b1_map : forall m o id dl tr body,
  Rel m o -> b1_call m (CNext (RItem (MReq id dl tr body))) = true -> b1_hyp id (o_incs o) = true.
Proof.
  intros m o id dl tr body (HL & Hn & Hd & HR) H. unfold b1_call in H. unfold b1_hyp, last_any.
  pose proof (last_with_any id (wm_incs m) (o_incs o) None None HL) as LA.
  assert (Hid : forall k mi oi, nth_error (wm_incs m) k = Some mi -> nth_error (o_incs o) k = Some oi -> mi_id mi = oi_id oi).
  { intros k mi oi A B. exact (rk_id _ _ _ _ (HR k mi oi A B)). }
  specialize (LA Hid).
  destruct (last_with id (wm_incs m) None) as [mi|], (last_any_from id (o_incs o) None) as [oi|]; try reflexivity.
  - destruct LA as [[A _]|(k & A & B)]; [discriminate|].
    pose proof (HR k mi oi A B) as R.
    apply orb_true_iff in H. destruct H as [H|H].
    + rewrite (rk_written _ _ _ _ R H). reflexivity.
    + destruct (mi_written mi) eqn:Ew; [rewrite (rk_written _ _ _ _ R Ew); reflexivity|].
      assert (Hwo : wopen (o_now o) mi = true).
      { unfold wopen. rewrite Ew. rewrite <- Hn.
        apply andb_true_iff in H. destruct H as [H H3]. apply andb_true_iff in H. destruct H as [H1 H2].
        rewrite H1, H2, H3. destruct (mi_gone mi), (mi_cancelled mi); cbn in *; try discriminate; reflexivity. }
      rewrite (rk_wopen _ _ _ _ R Hwo). reflexivity.
  - destruct LA as [_ LA]. exfalso. apply LA. reflexivity.
Qed.

Lemma hb1_call : forall lim m o c,
  Rel m o -> b1_call m c = true -> h_b1 (o_v o) = true -> h_b1 (o_v (o_call lim o c)) = true.
Proof.
  intros lim m o c R Hb H. destruct c as [r|x r|r|r|r].
  - destruct (ocall_flags_ready lim o r) as (_ & _ & B & _). cbv zeta in B. congruence.
  - destruct (ocall_flags_send lim o x r) as (_ & _ & B). cbv zeta in B. congruence.
  - destruct (ocall_flags_flush lim o r) as (_ & _ & B & _). cbv zeta in B. congruence.
  - destruct (ocall_v04_b1 lim o (CClose r)) as (_ & _).
    unfold o_call. fold (pre_err o). destruct (pre_err_proj o) as (_ & _ & _ & _ & _ & _ & _ & _ & _ & _ & _ & _ & _ & _ & A15 & _).
    oproj. congruence.
  - destruct (ocall_flags_next lim o r) as (_ & _ & B). cbv zeta in B. rewrite B, H. cbn [andb].
    destruct r as [[id dl tr body|id tr]| | |]; try reflexivity. eapply b1_map; eauto.
Qed.

(* ---------------------------------------------------------------- one call, both tables *)
Lemma rel_incs_upd : forall m o (m' : wmon) (o' : ostate) k0 (f : minc -> minc) w,
  Rel m o -> wm_incs m' = upd_k k0 f (wm_incs m) -> wm_now m' = wm_now m -> wm_dropped m' = wm_dropped m ->
  o_incs o' = upd_nth k0 (fun i => set_wire i w) (o_incs o) -> o_now o' = o_now o -> o_dropped o' = o_dropped o ->
  (forall mi oi, nth_error (wm_incs m) k0 = Some mi -> nth_error (o_incs o) k0 = Some oi ->
                 RelK (o_now o) (o_dropped o) (f mi) (set_wire oi w)) ->
  Rel m' o'.
Proof.
  intros m o m' o' k0 f w (HL & Hn & Hd & HR) E1 E2 E3 E4 E5 E6 Hk.
  unfold Rel. rewrite E1, E2, E3, E4, E5, E6, upd_k_length, upd_nth_length.
  split; [exact HL|split; [exact Hn|split; [exact Hd|]]]. intros k mi oi A B.
  destruct (upd_k_inv _ _ _ _ _ _ A) as (y & Hy & Dy). destruct (upd_nth_inv _ _ _ _ _ B) as (z & Hz & Dz).
  destruct Dy as [(-> & ->)|(Hne & ->)]; destruct Dz as [(E & ->)|(Hne' & ->)]; try congruence.
  - apply Hk; assumption.
  - apply HR with k; assumption.
Qed.

Lemma rel_call : forall lim m o c,
  Rel m o -> OI o -> v08 (o_v (o_call lim o c)) = true ->
  Rel (wm_call m c) (o_call lim o c) /\ OI (o_call lim o c).
Proof.
  intros lim m o c R HO V.
  destruct (ocall_basic lim o c) as (Bn & Bd & _).
  destruct c as [r|x r|r|r|r].
  - destruct (ocall_flags_ready lim o r) as (_ & _ & _ & I & _). cbv zeta in I.
    split; [eapply Rel_same; eauto; reflexivity|eapply OI_same; eauto].
  - (* a write *)
    destruct (ocall_send_proj lim o x r) as (_ & _ & _ & _ & _ & _ & P7).
    destruct (ocall_flags_send lim o x r) as (V8 & _). cbv zeta in *. rewrite V8 in V.
    apply andb_true_iff in V. destruct V as [V0 V1].
    pose proof R as (HL & Hn & Hd & HR).
    assert (Hthr : resp_body x = BThrottle ->
              Rel (wm_call m (CSend x r)) (o_call lim o (CSend x r)) /\ OI (o_call lim o (CSend x r))).
    { intros EB. rewrite EB in P7, V1. destruct P7 as (I & _). cbn [wm_call]. rewrite EB.
      split; [|eapply OI_close; eauto].
      unfold not_must in V1. destruct (last_open (resp_id x) (o_incs o)) as [k0|] eqn:EL; cbn [close_at] in I.
      - apply (rel_incs_upd m o m _ k0 (fun i => i) WClosed R); auto.
        + clear. generalize (wm_incs m). intros l. revert k0. induction l; destruct k0; cbn; auto. f_equal; auto.
        + intros mi oi A B. rewrite B in V1. apply negb_true_iff in V1.
          pose proof (HR k0 mi oi A B) as RK.
          assert (Hno : oi_wire oi <> WOpen) by (intros E; rewrite E in V1; discriminate).
          apply RelK_set_wire; [exact RK|reflexivity| |eapply wopen_false_of_not_open; eauto].
          intros Hw. exfalso. pose proof (rk_written _ _ _ _ RK Hw) as E.
          destruct (last_open_some _ _ _ EL) as (z & Hz & Hop & _). rewrite B in Hz. inversion Hz; subst z.
          apply open_id_true in Hop. destruct Hop as [_ Hop]. rewrite E in Hop. discriminate.
      - eapply Rel_same; eauto. }
    assert (Hresp : resp_body x <> BThrottle ->
              o_incs (o_call lim o (CSend x r)) = close_at (last_open (resp_id x) (o_incs o)) WAnswered (o_incs o) ->
              body_ok x (o_incs o) = true ->
              wm_call m (CSend x r) =
                match last_unwritten (resp_id x) 0 (wm_incs m) None with
                | Some k => upd_inc k (fun i => mkmi (mi_id i) (mi_when i) (mi_done i) (mi_ended i) (mi_gone i) true (mi_cancelled i)) m
                | None => m end ->
              Rel (wm_call m (CSend x r)) (o_call lim o (CSend x r)) /\ OI (o_call lim o (CSend x r))).
    { intros EB I Hbo Hwm. split; [|eapply OI_close; eauto]. rewrite Hwm.
      unfold body_ok in Hbo. destruct (last_open (resp_id x) (o_incs o)) as [k0|] eqn:EL; [|discriminate].
      destruct (nth_error (o_incs o) k0) as [oi0|] eqn:Eo; [|discriminate].
      destruct (oi_done oi0) as [b0|] eqn:Ed; [|discriminate].
      destruct (last_open_some _ _ _ EL) as (z & Hz & Hop & _). rewrite Eo in Hz. inversion Hz; subst z.
      apply open_id_true in Hop. destruct Hop as [Hid0 Hop0].
      assert (Hmi : exists mi0, nth_error (wm_incs m) k0 = Some mi0).
      { assert (k0 < length (wm_incs m)) by (rewrite HL; apply nth_error_Some; congruence).
        apply nth_error_Some in H. destruct (nth_error (wm_incs m) k0); [eauto|congruence]. }
      destruct Hmi as (mi0 & Em).
      pose proof (HR k0 mi0 oi0 Em Eo) as RK0.
      assert (Hnw : mi_written mi0 = false).
      { destruct (mi_written mi0) eqn:E; [|reflexivity]. rewrite (rk_written _ _ _ _ RK0 E) in Hop0. discriminate. }
      assert (Hlu : last_unwritten (resp_id x) 0 (wm_incs m) None = Some k0).
      { apply (last_unwritten_is _ _ k0 mi0 Em).
        - unfold uw. rewrite (rk_id _ _ _ _ RK0), Hid0, N.eqb_refl, (rk_done _ _ _ _ RK0), Ed, Hnw. reflexivity.
        - intros j' mj Hlt Hj Hidj.
          assert (Hoj : exists oj, nth_error (o_incs o) j' = Some oj).
          { assert (j' < length (o_incs o)) by (rewrite <- HL; apply nth_error_Some; congruence).
            apply nth_error_Some in H. destruct (nth_error (o_incs o) j'); [eauto|congruence]. }
          destruct Hoj as (oj & Hoj).
          apply (HO k0 oi0 Eo Hop0 j' oj Hlt Hoj). rewrite <- (rk_id _ _ _ _ (HR j' mj oj Hj Hoj)). congruence. }
      rewrite Hlu. cbn [close_at] in I.
      apply (rel_incs_upd m o _ _ k0 (fun i => mkmi (mi_id i) (mi_when i) (mi_done i) (mi_ended i) (mi_gone i) true (mi_cancelled i)) WAnswered R); auto.
      intros mi oi A B. rewrite Em in A. inversion A; subst mi. rewrite Eo in B. inversion B; subst oi.
      destruct RK0. constructor; cbn [set_wire oi_id oi_when oi_done oi_ph oi_wire mi_id mi_when mi_done mi_ended mi_gone mi_written mi_cancelled]; auto; try discriminate.
      unfold wopen. cbn. rewrite !andb_false_r. discriminate. }
    destruct (resp_body x) eqn:EB; try (apply Hthr; reflexivity);
      (apply Hresp; [discriminate|exact (proj1 P7)|exact V1|cbn [wm_call]; rewrite EB; reflexivity]).
  - destruct (ocall_flags_flush lim o r) as (_ & _ & _ & I & _). cbv zeta in I.
    split; [eapply Rel_same; eauto; reflexivity|eapply OI_same; eauto].
  - assert (I : o_incs (o_call lim o (CClose r)) = o_incs o).
    { unfold o_call. fold (pre_err o). destruct (pre_err_proj o) as (A1 & _). oproj. exact A1. }
    split; [eapply Rel_same; eauto; reflexivity|eapply OI_same; eauto].
  - (* a read *)
    destruct (ocall_next_proj lim o r) as (_ & _ & _ & _ & _ & _ & P7). cbv zeta in P7.
    pose proof R as (HL & Hn & Hd & HR).
    destruct r as [[id dl tr body|id tr]| | |].
    + destruct P7 as (I & _). split; [eapply Rel_same; eauto; reflexivity|eapply OI_same; eauto].
    + destruct P7 as (I & _). split; [|eapply OI_close; eauto].
      cbn [wm_call]. unfold Rel. cbn [wm_incs wm_now wm_dropped map_incs].
      rewrite I, map_length, close_at_length, Bn, Bd. split; [exact HL|split; [exact Hn|split; [exact Hd|]]].
      intros k mi' oi' A B. rewrite nth_error_map in A.
      destruct (nth_error (wm_incs m) k) as [mi|] eqn:Em; cbn in A; [|discriminate]. inversion A; subst mi'. clear A.
      destruct (close_at_nth _ _ _ _ _ B) as (oi & Ho & E1 & _ & E3 & E4 & E5 & W).
      pose proof (HR k mi oi Em Ho) as RK.
      (* the incarnation marked by the monitor, if it may still be tracked, is the one the observer closes *)
      assert (Hclosed : N.eqb (mi_id mi) id = true -> is_open (oi_wire oi) = true -> oi_wire oi' = WCancelled).
      { intros Hid Hop. apply N.eqb_eq in Hid. rewrite (rk_id _ _ _ _ RK) in Hid.
        pose proof (last_open_of_open o k oi HO Ho Hop) as EL. rewrite Hid in EL.
        destruct W as [[_ W]|[Hne _]]; [exact W|congruence]. }
      assert (Hwsame : oi_wire oi' = WCancelled \/ oi_wire oi' = oi_wire oi) by (destruct W as [[_ W]|[_ W]]; auto).
      assert (Hclosed_open : oi_wire oi' = WCancelled -> oi_wire oi' <> oi_wire oi -> is_open (oi_wire oi) = true /\ oi_id oi = id).
      { intros E Hne. destruct W as [[EL _]|[_ W]]; [|congruence].
        destruct (last_open_some _ _ _ EL) as (z & Hz & Hop & _). rewrite Ho in Hz. inversion Hz; subst z.
        apply open_id_true in Hop. tauto. }
      destruct (N.eqb (mi_id mi) id && negb (mi_written mi) && negb (mi_gone mi)) eqn:Ef.
      * apply andb_true_iff in Ef. destruct Ef as [Ef Eg]. apply andb_true_iff in Ef. destruct Ef as [Eid Ew].
        apply negb_true_iff in Ew. apply negb_true_iff in Eg.
        assert (Hno : is_open (oi_wire oi') = false).
        { destruct (is_open (oi_wire oi)) eqn:Eo; [rewrite (Hclosed Eid eq_refl); reflexivity|].
          destruct Hwsame as [E|E]; rewrite E; [reflexivity|exact Eo]. }
        destruct RK. constructor; cbn [mi_id mi_when mi_done mi_ended mi_gone mi_written mi_cancelled].
        -- congruence.
        -- congruence.
        -- congruence.
        -- congruence.
        -- intros E. rewrite E in Hno. discriminate.
        -- intros _ E. rewrite E in Hno. discriminate.
        -- intros E. congruence.
        -- unfold wopen. cbn. rewrite andb_false_r. cbn. discriminate.
        -- intros _. exact Hno.
        -- assumption.
      * (* not marked *)
        assert (Hkeep : oi_wire oi' = oi_wire oi \/ (oi_wire oi' = WCancelled /\ (mi_written mi = true \/ mi_gone mi = true))).
        { destruct (wstate_eq_dec (oi_wire oi') (oi_wire oi)) as [E|Hne]; [left; exact E|right].
          destruct Hwsame as [E|E]; [|congruence]. split; [exact E|].
          destruct (Hclosed_open E Hne) as (Hop & Hid).
          rewrite (rk_id _ _ _ _ RK), Hid, N.eqb_refl in Ef. cbn in Ef.
          destruct (mi_written mi); [left; reflexivity|]. destruct (mi_gone mi); [right; reflexivity|discriminate]. }
        destruct Hkeep as [E|(E & Hwg)].
        -- destruct RK. constructor; rewrite ?E.
           all: try (cbn [mi_id mi_when mi_done mi_ended mi_gone mi_written mi_cancelled]; congruence).
           all: try assumption.
           rewrite E3. assumption.
        -- assert (Hw0 : mi_written mi = false).
           { destruct (mi_written mi) eqn:Ew; [|reflexivity]. exfalso.
             destruct (wstate_eq_dec (oi_wire oi') (oi_wire oi)) as [E'|Hne].
             - rewrite (rk_written _ _ _ _ RK Ew) in E'. congruence.
             - destruct (Hclosed_open E Hne) as (Hop & _). rewrite (rk_written _ _ _ _ RK Ew) in Hop. discriminate. }
           destruct Hwg as [Hw|Hg]; [congruence|].
           destruct RK. constructor; rewrite ?E.
           ++ congruence.
           ++ congruence.
           ++ congruence.
           ++ congruence.
           ++ discriminate.
           ++ discriminate.
           ++ congruence.
           ++ unfold wopen. rewrite Hg. cbn. discriminate.
           ++ reflexivity.
           ++ assumption.
    + destruct P7 as (I & _). split; [eapply Rel_same; eauto; reflexivity|eapply OI_same; eauto].
    + destruct P7 as (I & _). split; [eapply Rel_same; eauto; reflexivity|eapply OI_same; eauto].
    + destruct P7 as (I & _). split; [eapply Rel_same; eauto; reflexivity|eapply OI_same; eauto].
Qed.

(* ---------------------------------------------------------------- a whole log *)
Lemma fold_hyp_true : forall l mh, snd (fold_left wm_call_h l mh) = true -> snd mh = true.
Proof.
  induction l as [|c l IH]; intros mh H; cbn [fold_left] in H; [exact H|].
  apply IH in H. unfold wm_call_h in H. cbn [snd] in H. apply andb_true_iff in H. tauto.
Qed.

Lemma PVall_tail : forall lim o c l, PVall lim o (c :: l) -> PVall lim (o_call lim o c) l.
Proof. intros lim o c l H p q E. apply (H (c :: p) q). rewrite E. reflexivity. Qed.

Lemma rel_calls : forall lim l m hyp o,
  Rel m o -> OI o -> PVall lim o l -> h_b1 (o_v o) = true ->
  snd (fold_left wm_call_h l (m, hyp)) = true ->
  let o' := fold_left (o_call lim) l o in
  Rel (fst (fold_left wm_call_h l (m, hyp))) o' /\ OI o' /\ h_b1 (o_v o') = true /\ v08 (o_v o') = true
  /\ hyp = true.
Proof.
  intros lim l; induction l as [|c l IH]; intros m hyp o R HO HP Hb Hh; cbv zeta; cbn [fold_left] in *.
  - cbn [fst snd] in *. exact (conj R (conj HO (conj Hb (conj (PVall_head lim o [] HP Hb) Hh)))).
  - pose proof (fold_hyp_true _ _ Hh) as H1. unfold wm_call_h in H1 at 1. cbn [fst snd] in H1.
    apply andb_true_iff in H1. destruct H1 as [Hhyp Hb1].
    pose proof (hb1_call lim m o c R Hb1 Hb) as Hb'.
    assert (V : v08 (o_v (o_call lim o c)) = true).
    { apply (HP [c] l eq_refl). exact Hb'. }
    destruct (rel_call lim m o c R HO V) as (R' & HO').
    unfold wm_call_h at 2 in Hh. cbn [fst snd] in Hh. unfold wm_call_h at 2. cbn [fst snd].
    destruct (IH (wm_call m c) (hyp && b1_call m c) (o_call lim o c) R' HO' (PVall_tail _ _ _ _ HP) Hb' Hh)
      as (A & B & C & D & _).
    exact (conj A (conj B (conj C (conj D Hhyp)))).
Qed.

(* ---------------------------------------------------------------- list-level relation *)
Definition RelL (now : N) (d : bool) (l : list minc) (l' : list oinc) : Prop :=
  length l = length l' /\ forall k mi oi, nth_error l k = Some mi -> nth_error l' k = Some oi -> RelK now d mi oi.

Lemma Rel_RelL : forall m o, Rel m o <->
  RelL (o_now o) (o_dropped o) (wm_incs m) (o_incs o) /\ wm_now m = o_now o /\ wm_dropped m = o_dropped o.
Proof. intros m o. unfold Rel, RelL. tauto. Qed.

Lemma RelL_map_o : forall now d l l' (f : oinc -> oinc),
  (forall mi oi, RelK now d mi oi -> RelK now d mi (f oi)) -> RelL now d l l' -> RelL now d l (map f l').
Proof.
  intros now d l l' f Hf (HL & HR). split; [rewrite map_length; exact HL|].
  intros k mi oi A B. rewrite nth_error_map in B. destruct (nth_error l' k) as [y|] eqn:E; cbn in B; [|discriminate].
  inversion B; subst. apply Hf. eapply HR; eauto.
Qed.

Lemma RelL_close_notmust : forall now d l l' id,
  RelL now d l l' -> not_must id l' = true -> RelL now d l (close_at (last_open id l') WClosed l').
Proof.
  intros now d l l' id (HL & HR) V. split; [rewrite close_at_length; exact HL|].
  intros k mi oi' A B. unfold not_must in V.
  destruct (last_open id l') as [k0|] eqn:EL; cbn [close_at] in B; [|eapply HR; eauto].
  destruct (upd_nth_inv _ _ _ _ _ B) as (oi & Ho & [(-> & ->)|(_ & ->)]); [|eapply HR; eauto].
  rewrite Ho in V. apply negb_true_iff in V. pose proof (HR k0 mi oi A Ho) as RK.
  assert (Hno : oi_wire oi <> WOpen) by (intros E; rewrite E in V; discriminate).
  apply RelK_set_wire; [exact RK|reflexivity| |eapply wopen_false_of_not_open; eauto].
  intros Hw. exfalso. pose proof (rk_written _ _ _ _ RK Hw) as E.
  destruct (last_open_some _ _ _ EL) as (z & Hz & Hop & _). rewrite Ho in Hz. inversion Hz; subst z.
  apply open_id_true in Hop. destruct Hop as [_ Hop]. rewrite E in Hop. discriminate.
Qed.

Lemma RelL_app : forall now d l l' a b, RelL now d l l' -> RelK now d a b -> RelL now d (l ++ [a]) (l' ++ [b]).
Proof.
  intros now d l l' a b (HL & HR) Hab. split; [rewrite !app_length; cbn; lia|].
  intros k mi oi A B. destruct (Nat.lt_ge_cases k (length l)) as [H|H].
  - rewrite nth_error_app1 in A by exact H. rewrite nth_error_app1 in B by (rewrite <- HL; exact H). eapply HR; eauto.
  - rewrite nth_error_app2 in A by exact H. rewrite nth_error_app2 in B by (rewrite <- HL; exact H). rewrite <- HL in B.
    destruct (k - length l) as [|n]; cbn in A, B; [|destruct n; discriminate]. inversion A; inversion B; subst. exact Hab.
Qed.

(* ---------------------------------------------------------------- results of a poll *)
Lemma rel_yield : forall m o k id dl tr body,
  Rel m o -> OI o -> v08 (o_v (o_result o (OYield k id dl tr body))) = true ->
  Rel (wm_event m (OYield k id dl tr body)) (o_result o (OYield k id dl tr body))
  /\ OI (o_result o (OYield k id dl tr body)).
Proof.
  intros m o k id dl tr body R HO V.
  destruct (o_result_yield_proj o k id dl tr body) as (P1 & P2 & P3 & _).
  destruct (o_result_yield_flags o k id dl tr body) as (F1 & _). cbv zeta in *.
  rewrite F1 in V. apply andb_true_iff in V. destruct V as [_ Vm].
  apply Rel_RelL in R. destruct R as (RL & Hn & Hd).
  split.
  - apply Rel_RelL. cbn [wm_event wm_incs wm_now wm_dropped]. rewrite P1, P2, P3. split; [|auto].
    apply RelL_app; [apply RelL_close_notmust; assumption|]. rewrite Hn.
    constructor; cbn [mi_id mi_when mi_done mi_ended mi_gone mi_written mi_cancelled oi_id oi_when oi_done oi_ph oi_wire isome ended_ph];
      try reflexivity; try discriminate.
    + destruct (N.leb_spec (when_of (o_now o) dl) (o_now o)); [discriminate|]. intros _. assumption.
    + unfold wopen. cbn. intros H. destruct (N.leb (when_of (o_now o) dl) (o_now o)); [discriminate|reflexivity].
  - intros j x Hj Ho. rewrite P1 in Hj |- *.
    assert (Hone : forall k1 k2 o1 o2, nth_error (o_incs o) k1 = Some o1 -> nth_error (o_incs o) k2 = Some o2 ->
                     oi_id o1 = oi_id o2 -> is_open (oi_wire o1) = true -> is_open (oi_wire o2) = true -> k1 = k2)
      by (intros; eapply OI_one_open; eauto).
    destruct (Nat.lt_ge_cases j (length (close_at (last_open id (o_incs o)) WClosed (o_incs o)))) as [H|H].
    + rewrite nth_error_app1 in Hj by exact H.
      pose proof (close_last_open_none id WClosed (o_incs o) Hone eq_refl j x Hj) as Hcl.
      destruct (close_at_nth _ _ _ _ _ Hj) as (y & Hy & E1 & _ & _ & _ & _ & W).
      assert (Hoy : is_open (oi_wire y) = true).
      { destruct W as [[_ W]|[_ W]]; [rewrite W in Ho; discriminate|rewrite <- W; exact Ho]. }
      apply lastk_app.
      * rewrite E1. apply lastk_close_at. exact (HO j y Hy Hoy).
      * cbn [oi_id]. intros E. unfold open_id in Hcl. rewrite <- E, N.eqb_refl, Ho in Hcl. discriminate.
    + rewrite nth_error_app2 in Hj by exact H.
      intros k' oi' Hlt Hk'. exfalso.
      assert (Hk'n : nth_error (close_at (last_open id (o_incs o)) WClosed (o_incs o) ++
                       [mkoi id dl (when_of (o_now o) dl) None PFresh
                          (if N.leb (when_of (o_now o) dl) (o_now o) then WMaybe else WOpen) false]) k' <> None) by congruence.
      apply nth_error_Some in Hk'n. rewrite app_length in Hk'n. cbn [length] in Hk'n.
      destruct (j - length (close_at (last_open id (o_incs o)) WClosed (o_incs o))) eqn:E; cbn in Hj; [lia|destruct n; discriminate].
Qed.

Lemma rel_finish_idle : forall m o, Rel m o -> OI o -> Rel m (finish_idle o) /\ OI (finish_idle o).
Proof.
  intros m o R HO. destruct (finish_idle_proj o) as (P1 & P2 & P3 & _). cbv zeta in *.
  apply Rel_RelL in R. destruct R as (RL & Hn & Hd).
  assert (Hmap : exists f, o_incs (finish_idle o) = map f (o_incs o)
            /\ (forall i, oi_id (f i) = oi_id i)
            /\ (forall i, is_open (oi_wire (f i)) = true -> is_open (oi_wire i) = true)
            /\ (forall now d mi oi, RelK now d mi oi -> RelK now d mi (f oi))).
  { destruct (o_blocked o).
    - exists (fun i => if is_open (oi_wire i) && N.leb (oi_when i) (o_now o) then set_late i else i).
      split; [exact P1|]. split; [intros i; destruct (_ && _); reflexivity|].
      split; [intros i; destruct (_ && _); auto|].
      intros now d mi oi RK. destruct (_ && _); [|exact RK]. destruct RK. constructor; auto.
    - exists (fun i => match oi_wire i with WMaybe => set_wire i WClosed | _ => i end).
      split; [exact P1|]. split; [intros i; destruct (oi_wire i); reflexivity|].
      split; [intros i; destruct (oi_wire i) eqn:E; cbn; rewrite ?E; auto|].
      intros now d mi oi RK. destruct (oi_wire oi) eqn:E; try exact RK.
      apply RelK_set_wire; [exact RK|reflexivity| |eapply wopen_false_of_not_open; eauto; congruence].
      intros Hw. pose proof (rk_written _ _ _ _ RK Hw). congruence. }
  destruct Hmap as (f & E & Fid & Fop & FR). split.
  - apply Rel_RelL. rewrite E, P2, P3. split; [apply RelL_map_o; auto|auto].
  - intros k x Hk Ho. rewrite E in Hk |- *. rewrite nth_error_map in Hk.
    destruct (nth_error (o_incs o) k) as [y|] eqn:Ey; cbn in Hk; [|discriminate]. inversion Hk; subst x.
    rewrite Fid. apply lastk_map; [exact Fid|]. apply (HO k y Ey). apply Fop. exact Ho.
Qed.

(* ---------------------------------------------------------------- general pointwise update *)
Lemma rel_upd_gen : forall m o (m' : wmon) (o' : ostate) k0 (f : minc -> minc) (g : oinc -> oinc),
  Rel m o -> wm_incs m' = upd_k k0 f (wm_incs m) -> wm_now m' = wm_now m -> wm_dropped m' = wm_dropped m ->
  o_incs o' = upd_nth k0 g (o_incs o) -> o_now o' = o_now o -> o_dropped o' = o_dropped o ->
  (forall mi oi, nth_error (wm_incs m) k0 = Some mi -> nth_error (o_incs o) k0 = Some oi ->
                 RelK (o_now o) (o_dropped o) (f mi) (g oi)) ->
  Rel m' o'.
Proof.
  intros m o m' o' k0 f g (HL & Hn & Hd & HR) E1 E2 E3 E4 E5 E6 Hk.
  unfold Rel. rewrite E1, E2, E3, E4, E5, E6, upd_k_length, upd_nth_length.
  split; [exact HL|split; [exact Hn|split; [exact Hd|]]]. intros k mi oi A B.
  destruct (upd_k_inv _ _ _ _ _ _ A) as (y & Hy & Dy). destruct (upd_nth_inv _ _ _ _ _ B) as (z & Hz & Dz).
  destruct Dy as [(-> & ->)|(Hne & ->)]; destruct Dz as [(E & ->)|(Hne' & ->)]; try congruence.
  - apply Hk; assumption.
  - apply HR with k; assumption.
Qed.

Lemma OI_upd : forall o o' k0 (g : oinc -> oinc),
  OI o -> o_incs o' = upd_nth k0 g (o_incs o) ->
  (forall i, oi_id (g i) = oi_id i) -> (forall i, is_open (oi_wire (g i)) = true -> is_open (oi_wire i) = true) ->
  OI o'.
Proof.
  intros o o' k0 g H E Gid Gop k x Hk Ho. rewrite E in Hk |- *.
  destruct (upd_nth_inv _ _ _ _ _ Hk) as (y & Hy & [(-> & ->)|(_ & ->)]).
  - rewrite Gid. apply lastk_upd; [exact Gid|]. apply (H k0 y Hy). apply Gop. exact Ho.
  - apply lastk_upd; [exact Gid|]. exact (H k y Hy Ho).
Qed.

(* ---------------------------------------------------------------- handler events *)
Definition wstep_ev (mi : minc) (e : obs) : minc :=
  match e with
  | OHDone _ _ => mkmi (mi_id mi) (mi_when mi) true (mi_ended mi) (mi_gone mi) (mi_written mi) (mi_cancelled mi)
  | OExecReady _ => mkmi (mi_id mi) (mi_when mi) (mi_done mi) true (mi_gone mi) (mi_written mi) (mi_cancelled mi)
  | _ => mi
  end.

(* OHPolled only for an execute() that has not ended *)
Fixpoint hp_ok (ended : bool) (body : list obs) : bool :=
  match body with
  | [] => true
  | OHPolled _ :: r => negb ended && hp_ok false r
  | OExecReady _ :: r => hp_ok true r
  | _ :: r => hp_ok ended r
  end.

Lemma upd_k_id : forall A k (l : list A), upd_k k (fun i => i) l = l.
Proof. intros A k l; revert k; induction l; destruct k; cbn; auto. f_equal; auto. Qed.
Lemma upd_k_comp : forall A k (f g : A -> A) l, upd_k k g (upd_k k f l) = upd_k k (fun i => g (f i)) l.
Proof. intros A k f g l; revert k; induction l; destruct k; cbn; auto. f_equal; auto. Qed.
Lemma upd_k_ext : forall A k (f g : A -> A) l, (forall i, f i = g i) -> upd_k k f l = upd_k k g l.
Proof. intros A k f g l H; revert k; induction l; destruct k; cbn; auto; f_equal; auto. Qed.

Lemma wm_hevents : forall k body m,
  forallb (for_k k) body = true ->
  let m' := fold_left wm_event body m in
  wm_incs m' = upd_k k (fun i => fold_left wstep_ev body i) (wm_incs m)
  /\ wm_now m' = wm_now m /\ wm_alive m' = wm_alive m /\ wm_dropped m' = wm_dropped m
  /\ wm_ready m' = wm_ready m /\ wm_flush m' = wm_flush m /\ wm_tainted m' = wm_tainted m
  /\ wm_eof m' = wm_eof m /\ wm_delivered m' = wm_delivered m /\ wm_read m' = wm_read m.
Proof.
  intros k body; induction body as [|e body IH]; intros m Hb; cbv zeta; cbn [fold_left].
  { rewrite upd_k_id. repeat split; reflexivity. }
  cbn [forallb] in Hb. apply andb_true_iff in Hb. destruct Hb as [He Hb].
  destruct (IH (wm_event m e) Hb) as (I1 & I2 & I3 & I4 & I5 & I6 & I7 & I8 & I9 & I10). cbv zeta in *.
  rewrite I1, I2, I3, I4, I5, I6, I7, I8, I9, I10.
  destruct e; cbn in He; try discriminate; apply Nat.eqb_eq in He; subst; cbn [wm_event upd_inc wm_incs wm_now wm_alive
     wm_dropped wm_ready wm_flush wm_tainted wm_eof wm_delivered wm_read];
    rewrite ?upd_k_comp; repeat split; try reflexivity.
Qed.

Lemma relk_hevents : forall now d body mi oi,
  RelK now d mi oi -> hp_ok (mi_ended mi) body = true ->
  RelK now d (fold_left wstep_ev body mi) (fold_left (fun x e => gstep e x) body oi).
Proof.
  intros now d body; induction body as [|e body IH]; intros mi oi RK Hp; cbn [fold_left]; [exact RK|].
  apply IH.
  - destruct RK. destruct e; cbn [wstep_ev gstep]; try (constructor; assumption).
    + (* OHPolled *) cbn [hp_ok] in Hp. apply andb_true_iff in Hp. destruct Hp as [Hp _]. apply negb_true_iff in Hp.
      constructor; cbn [set_ph oi_id oi_when oi_done oi_ph oi_wire ended_ph]; auto.
    + (* OHDone *) constructor; cbn [set_done oi_id oi_when oi_done oi_ph oi_wire mi_id mi_when mi_done mi_ended mi_gone mi_written mi_cancelled]; auto.
    + (* OExecReady *) constructor; cbn [set_ph oi_id oi_when oi_done oi_ph oi_wire mi_id mi_when mi_done mi_ended mi_gone mi_written mi_cancelled]; auto.
  - destruct e; cbn [wstep_ev hp_ok mi_ended] in *; try exact Hp.
    apply andb_true_iff in Hp. destruct Hp as [H1 H2]. apply negb_true_iff in H1. rewrite H1. exact H2.
Qed.

Lemma rel_hevents : forall k body m o oi,
  Rel m o -> OI o -> forallb (for_k k) body = true -> nth_error (o_incs o) k = Some oi ->
  hp_ok (ended_ph (oi_ph oi)) body = true ->
  Rel (fold_left wm_event body m) (fold_left o_hevent body o) /\ OI (fold_left o_hevent body o).
Proof.
  intros k body m o oi R HO Hb Hoi Hp.
  destruct (hevents_proj k body o oi Hb Hoi) as (P1 & P2 & P3 & _).
  destruct (wm_hevents k body m Hb) as (W1 & W2 & _ & W4 & _). cbv zeta in *.
  split.
  - apply (rel_upd_gen m o _ _ k _ _ R W1 W2 W4 P1 P2 P3).
    intros mi oi' A B. rewrite Hoi in B. inversion B; subst oi'.
    destruct R as (_ & _ & _ & HR). pose proof (HR k mi oi A Hoi) as RK.
    apply relk_hevents; [exact RK|]. rewrite (rk_ended _ _ _ _ RK). exact Hp.
  - apply (OI_upd o _ k _ HO P1).
    + intros i. destruct (gfold_pres body i) as (A & _). exact A.
    + intros i. destruct (gfold_pres body i) as (_ & _ & W). cbv zeta in W. rewrite W. auto.
Qed.

Lemma fold_event_h : forall evs m h,
  forallb (fun e => match e with OCalls _ => false | _ => true end) evs = true ->
  fold_left wm_event_h evs (m, h) = (fold_left wm_event evs m, h).
Proof.
  induction evs as [|e evs IH]; intros m h H; cbn [fold_left]; [reflexivity|].
  cbn [forallb] in H. apply andb_true_iff in H. destruct H as [He H].
  destruct e; try discriminate; cbn [wm_event_h fst snd]; apply IH; exact H.
Qed.

Lemma fold_hev_filter : forall k body m,
  forallb (for_k k) body = true -> fold_left wm_event (filter keep_hev body) m = fold_left wm_event body m.
Proof.
  intros k body; induction body as [|e body IH]; intros m Hb; cbn [filter fold_left]; [reflexivity|].
  cbn [forallb] in Hb. apply andb_true_iff in Hb. destruct Hb as [He Hb].
  destruct e; cbn in He; try discriminate; cbn [keep_hev fold_left]; apply IH; exact Hb.
Qed.

(* ---------------------------------------------------------------- the application / clock ops *)
Lemma rel_drop_handler : forall m o k,
  Rel m o -> OI o ->
  (forall oi, nth_error (o_incs o) k = Some oi -> oi_ph oi <> PFresh) ->
  Rel (wm_op (C := cmsg) m (ODropHandler k)) (guard_dropped k PStarted o) /\ OI (guard_dropped k PStarted o).
Proof.
  intros m o k R HO Hph. destruct (nth_error (o_incs o) k) as [oi|] eqn:Hoi.
  2: { assert (E : guard_dropped k PStarted o = o) by (unfold guard_dropped; rewrite Hoi; reflexivity).
       rewrite E. split; [|exact HO]. cbn [wm_op]. unfold upd_inc.
       assert (En : nth_error (wm_incs m) k = None).
       { apply nth_error_None. rewrite (proj1 R). apply nth_error_None. exact Hoi. }
       rewrite (upd_k_none _ _ _ _ En). destruct m; exact R. }
  pose proof R as (HL & Hn & Hd & HR).
  assert (Hmi : exists mi, nth_error (wm_incs m) k = Some mi).
  { assert (k < length (wm_incs m)) by (rewrite HL; apply nth_error_Some; congruence).
    apply nth_error_Some in H. destruct (nth_error (wm_incs m) k); [eauto|congruence]. }
  destruct Hmi as (mi & Hmi). pose proof (HR k mi oi Hmi Hoi) as RK.
  destruct (oi_ph oi) eqn:Eph; [exfalso; exact (Hph oi eq_refl Eph)| |].
  - (* started: the guard is dropped *)
    destruct (guard_dropped_proj k PStarted o oi Hoi) as (P1 & P2 & P3 & _); [rewrite Eph; reflexivity|]. cbv zeta in *.
    split.
    + apply (rel_upd_gen m o _ _ k (fun i => if mi_ended i then i else mkmi (mi_id i) (mi_when i) (mi_done i) true true (mi_written i) (mi_cancelled i)) (gdrop (o_dropped o)) R);
        try reflexivity; auto.
      intros mi' oi' A B. rewrite Hmi in A. inversion A; subst mi'. rewrite Hoi in B. inversion B; subst oi'.
      assert (He : mi_ended mi = false) by (rewrite (rk_ended _ _ _ _ RK), Eph; reflexivity).
      rewrite He. unfold gdrop. destruct RK.
      destruct (o_dropped o) eqn:ED.
      * constructor; cbn [set_ph set_wire oi_id oi_when oi_done oi_ph oi_wire mi_id mi_when mi_done mi_ended mi_gone mi_written mi_cancelled ended_ph]; auto; try discriminate;
          try (unfold wopen; cbn; discriminate).
      * destruct (oi_wire oi) eqn:Ew;
          constructor; cbn [set_ph set_wire oi_id oi_when oi_done oi_ph oi_wire mi_id mi_when mi_done mi_ended mi_gone mi_written mi_cancelled ended_ph];
          rewrite ?Ew; auto; try discriminate; try (unfold wopen; cbn; discriminate); try congruence.
        intros H. specialize (rk_written0 H). discriminate.
    + apply (OI_upd o _ k _ HO P1).
      * intros i. unfold gdrop. destruct (o_dropped o); [reflexivity|]. destruct (oi_wire i); reflexivity.
      * intros i. unfold gdrop. destruct (o_dropped o); cbn; [auto|]. destruct (oi_wire i) eqn:E; cbn; rewrite ?E; auto.
  - (* already over: nothing *)
    rewrite (guard_dropped_noop k PStarted o oi Hoi) by (rewrite Eph; reflexivity).
    split; [|exact HO]. cbn [wm_op]. unfold upd_inc.
    assert (He : mi_ended mi = true) by (rewrite (rk_ended _ _ _ _ RK), Eph; reflexivity).
    assert (E : upd_k k (fun i => if mi_ended i then i else mkmi (mi_id i) (mi_when i) (mi_done i) true true (mi_written i) (mi_cancelled i)) (wm_incs m) = wm_incs m).
    { clear -Hmi He. revert k Hmi. generalize (wm_incs m). induction l as [|x l IH]; destruct k; cbn; intros H; try discriminate.
      - inversion H; subst. rewrite He. reflexivity.
      - f_equal. apply IH. exact H. }
    rewrite E. destruct m; exact R.
Qed.

Lemma rel_drop_channel : forall m o,
  Rel m o -> OI o ->
  let o1 := mko (o_incs o) (o_now o) (o_gauge o) true (o_eof o) (o_dirty o) (o_pend o) (o_first o)
                (o_after_thr o) (o_blocked o) (o_freed o) (o_errcall o) (o_v o) in
  Rel (wm_op (C := cmsg) m ODropChannel) o1 /\ OI o1.
Proof.
  intros m o (HL & Hn & Hd & HR) HO. cbv zeta. split; [|exact HO].
  unfold Rel. cbn [wm_op wm_incs wm_now wm_dropped o_incs o_now o_dropped].
  split; [exact HL|split; [exact Hn|split; [reflexivity|]]].
  intros k mi oi A B. destruct (HR k mi oi A B). constructor; auto. discriminate.
Qed.

Lemma rel_advance : forall m o dt,
  Rel m o -> OI o ->
  let o1 := mko (age (o_now o + dt)%N (o_incs o)) (o_now o + dt)%N (o_gauge o) (o_dropped o) (o_eof o)
                (o_dirty o) (o_pend o) (o_first o) (o_after_thr o) (o_blocked o) (o_freed o)
                (o_errcall o) (o_v o) in
  Rel (wm_op (C := cmsg) m (OAdvance dt)) o1 /\ OI o1.
Proof.
  intros m o dt (HL & Hn & Hd & HR) HO. cbv zeta. split.
  - unfold Rel. cbn [wm_op wm_incs wm_now wm_dropped o_incs o_now o_dropped]. unfold age. rewrite map_length.
    split; [exact HL|split; [congruence|split; [exact Hd|]]].
    intros k mi oi' A B. rewrite nth_error_map in B.
    destruct (nth_error (o_incs o) k) as [oi|] eqn:Ho; cbn in B; [|discriminate]. inversion B; subst oi'. clear B.
    pose proof (HR k mi oi A Ho) as RK.
    assert (Hwo : wopen (o_now o + dt) mi = true -> wopen (o_now o) mi = true).
    { unfold wopen. intros H. apply andb_true_iff in H. destruct H as [H1 H2]. rewrite H1. cbn.
      apply negb_true_iff in H2. apply N.leb_gt in H2. apply negb_true_iff. apply N.leb_gt. lia. }
    assert (Hmono : (oi_wire oi = WOpen -> (o_now o + dt < oi_when oi)%N) -> RelK (o_now o + dt) (o_dropped o) mi oi).
    { intros Hy. destruct RK. constructor; auto. }
    destruct (oi_wire oi) eqn:Ew; try (apply Hmono; intros X; discriminate X).
    destruct (N.leb (oi_when oi) (o_now o + dt)) eqn:EL.
    + destruct RK. constructor; cbn [set_wire oi_id oi_when oi_done oi_ph oi_wire]; auto; try discriminate.
      * intros H. specialize (rk_written0 H). congruence.
      * intros H. exfalso. unfold wopen in H. apply andb_true_iff in H. destruct H as [_ H].
        rewrite rk_when0, EL in H. discriminate.
      * intros H. specialize (rk_cancelled0 H). rewrite Ew in rk_cancelled0. discriminate.
    + apply Hmono. intros _. apply N.leb_gt in EL. exact EL.
  - intros k x Hk Ho. cbn [o_incs] in *. unfold age in Hk |- *. rewrite nth_error_map in Hk.
    destruct (nth_error (o_incs o) k) as [y|] eqn:Ey; cbn in Hk; [|discriminate]. inversion Hk; subst x.
    assert (Fid : forall i, oi_id (match oi_wire i with WOpen => if N.leb (oi_when i) (o_now o + dt) then set_wire i WMaybe else i | _ => i end) = oi_id i).
    { intros i. destruct (oi_wire i); try reflexivity. destruct (N.leb (oi_when i) (o_now o + dt)); reflexivity. }
    rewrite Fid. apply lastk_map; [exact Fid|]. apply (HO k y Ey).
    destruct (oi_wire y) eqn:E; cbn in Ho; rewrite ?E in Ho; auto.
Qed.
