(* Chain proofs, SettleAll terminates, part 1: the server of a node over the link transport
   Chain.stp.  Potential PsiS (A = weight of a fresh call on the next node's client):
   5 / 4 / 3 / 3 per handler in HYielded / HRunning / HWait / HPermit, 2 per buffered response,
   1 per queued server-side cancel, per timer and per tracked entry, A + 8 per request and 1 per
   Cancel in the link, 1 per response in the link, 1 for "stream half not fused".
   Every unit of a poll is non-increasing in PsiS, and if PsiS is unchanged nothing the digest
   reads has changed (pattern: ServerWakeSettles.v). *)
From Coq Require Import List Bool Arith NArith Lia.
Import ListNotations.
From TarpcV Require Import Base Transport TimerWheel Server ServerFuel ServerSim ServerSim2.
From TarpcV Require Chain ChainSrv ChainFuel ChainRounds0.
Import ChainRounds0.

Notation link := Chain.link.
Notation stp := Chain.stp.
Notation st := (@sstate Chain.link).
Notation stfuel := (fun t : Chain.link => length (Chain.l_c2s t)).

Definition wh (h : hstate) : nat :=
  match h with HYielded => 5 | HRunning => 4 | HWait _ | HPermit _ => 3 | _ => 0 end.
Fixpoint WH (l : list hrec) : nat :=
  match l with [] => 0 | x :: r => wh (h_st x) + WH r end.
Definition codes (l : list hrec) : list N := map (fun h => Chain.hst_code (h_st h)) l.

Lemma WH_set_hst k x l hr :
  nth_error l k = Some hr -> WH (set_hst k x l) + wh (h_st hr) = WH l + wh x.
Proof.
  revert k; induction l as [|y r IH]; intros [|k]; cbn [nth_error set_hst WH h_st]; try discriminate.
  - intros [= ->]. lia.
  - intro H. specialize (IH k H). lia.
Qed.
Lemma WH_app l x : WH (l ++ [x]) = WH l + wh (h_st x).
Proof. induction l as [|y r IH]; cbn [app WH]; [lia|]. rewrite IH. lia. Qed.
Lemma WH_le l : WH l <= 5 * length l.
Proof. induction l as [|y r IH]; cbn [WH length]; [lia|]. destruct (h_st y); cbn [wh]; lia. Qed.
Lemma codes_set_hst k x l hr :
  nth_error l k = Some hr -> Chain.hst_code x = Chain.hst_code (h_st hr) -> codes (set_hst k x l) = codes l.
Proof.
  unfold codes. revert k; induction l as [|y r IH]; intros [|k]; cbn [nth_error set_hst map h_st]; try discriminate.
  - intros [= ->] E. rewrite E. reflexivity.
  - intros H E. rewrite (IH k H E). reflexivity.
Qed.

Section SrvPot.
  Variable A : nat.

  Definition PsiS (s : st) : nat :=
    WH (s_handlers s) + 2 * length (s_respq s) + length (s_cancels s) + length (s_timers s)
    + length (s_inflight s) + LP A (s_t s) + (if s_fused s then 0 else 1).

  Record SameS (s s' : st) : Prop := {
    ss_inflight : length (s_inflight s') = length (s_inflight s);
    ss_timers : length (s_timers s') = length (s_timers s);
    ss_cancels : length (s_cancels s') = length (s_cancels s);
    ss_aborted : length (s_aborted s') = length (s_aborted s);
    ss_respq : length (s_respq s') = length (s_respq s);
    ss_permits : s_permits s' = s_permits s;
    ss_waiters : length (s_waiters s') = length (s_waiters s);
    ss_codes : codes (s_handlers s') = codes (s_handlers s);
    ss_t : ldig (s_t s') = ldig (s_t s);
    ss_fused : s_fused s' = s_fused s;
    ss_dropped : s_dropped s' = s_dropped s }.

  Lemma SameS_refl s : SameS s s.
  Proof. constructor; reflexivity. Qed.
  Lemma SameS_trans s1 s2 s3 : SameS s1 s2 -> SameS s2 s3 -> SameS s1 s3.
  Proof. intros [] []. constructor; congruence. Qed.

  Definition R (s s' : st) : Prop := PsiS s' <= PsiS s /\ (PsiS s' = PsiS s -> SameS s s').
  Lemma R_refl s : R s s.
  Proof. split; [lia|intros _; apply SameS_refl]. Qed.
  Lemma R_trans s1 s2 s3 : R s1 s2 -> R s2 s3 -> R s1 s3.
  Proof. intros [L1 H1] [L2 H2]. split; [lia|]. intro E. eapply SameS_trans; [apply H1|apply H2]; lia. Qed.
  Lemma R_strict s s' : PsiS s' < PsiS s -> R s s'.
  Proof. intro H. split; [lia|intro; lia]. Qed.

  Lemma R_fields (s s' : st) :
    s_handlers s' = s_handlers s -> s_respq s' = s_respq s -> s_cancels s' = s_cancels s ->
    s_timers s' = s_timers s -> s_inflight s' = s_inflight s -> s_aborted s' = s_aborted s ->
    s_permits s' = s_permits s -> s_waiters s' = s_waiters s -> s_fused s' = s_fused s ->
    s_dropped s' = s_dropped s -> s_t s' = s_t s -> R s s'.
  Proof.
    intros E1 E2 E3 E4 E5 E6 E7 E8 E9 E10 E11. unfold R, PsiS. rewrite E1, E2, E3, E4, E5, E9, E11.
    split; [lia|]. intro E. constructor; congruence.
  Qed.

  Lemma R_do_ready (s : st) r s' : do_ready stp s = (r, s') -> R s s'.
  Proof. unfold do_ready. cbn. intros [= <- <-]. apply R_fields; sproj; reflexivity. Qed.
  Lemma R_do_flush (s : st) r s' : do_flush stp s = (r, s') -> R s s'.
  Proof. unfold do_flush. cbn. intros [= <- <-]. apply R_fields; sproj; reflexivity. Qed.
  Lemma Psi_do_send (m : response) (s : st) r s' : do_send stp m s = (r, s') -> PsiS s' <= PsiS s + 1.
  Proof.
    unfold do_send. cbn. destruct (Chain.l_cgone (s_t s)); intros [= <- <-]; unfold PsiS, LP; sproj; cbn; [lia|].
    rewrite app_length. cbn. lia.
  Qed.
  Lemma R_do_next (s : st) r s' :
    do_next stp s = (r, s') ->
    R s s' /\ (forall x, r = RItem x -> PsiS s' + msgw A x = PsiS s).
  Proof.
    unfold do_next. cbn. destruct (Chain.l_c2s (s_t s)) as [|x rest] eqn:E; intros [= <- <-].
    - split; [|destruct (Chain.l_cgone _); discriminate]. apply R_fields; sproj; reflexivity.
    - assert (P : PsiS (set_log (set_t s (Chain.mklink rest (Chain.l_s2c (s_t s)) (Chain.l_cgone (s_t s)) (Chain.l_sgone (s_t s))))
                                (CNext (RItem x) :: s_log s)) + msgw A x = PsiS s).
      { unfold PsiS, LP. sproj. cbn. rewrite E. cbn. lia. }
      split; [apply R_strict; pose proof (msgw_pos A x); lia|intros y [= <-]; exact P].
  Qed.

  Lemma drop_entry_le id l : length (drop_entry id l) <= length l.
  Proof. unfold drop_entry. apply filter_len_le. Qed.

  Lemma Psi_remove_request id (s : st) : PsiS (snd (remove_request id s)) <= PsiS s.
  Proof.
    unfold remove_request. destruct (find_entry id s); cbn [snd]; [|lia].
    unfold PsiS. sproj. pose proof (drop_timer_le id (s_timers s)). pose proof (drop_entry_le id (s_inflight s)). lia.
  Qed.
  Lemma Psi_cancel_request id (s : st) : PsiS (cancel_request id s) <= PsiS s.
  Proof.
    unfold cancel_request. destruct (find_entry id s); [|lia].
    unfold PsiS. sproj. pose proof (drop_timer_le id (s_timers s)). pose proof (drop_entry_le id (s_inflight s)). lia.
  Qed.
  Lemma Psi_start_request id dl (s : st) h s' : start_request id dl s = Some (h, s') -> PsiS s' = PsiS s + 2.
  Proof.
    unfold start_request. destruct (tracked id s); [discriminate|]. intros [= _ <-].
    unfold PsiS. sproj. rewrite !app_length. cbn [length]. lia.
  Qed.

  Lemma R_poll_expired (s : st) r s' :
    poll_expired s = (r, s') -> R s s' /\ (r = RSReady -> PsiS s' < PsiS s).
  Proof.
    intros H. unfold poll_expired in H.
    destruct (s_timers s) eqn:ET; [inversion H; subst; split; [apply R_refl|discriminate]|].
    clear ET.
    destruct (dq_poll (s_now s) (s_dq s)) as [choice dq'].
    destruct (due s) as [|[id0 w0] rest] eqn:ED.
    - inversion H; subst; clear H. split; [|discriminate].
      destruct choice; apply R_fields; sproj; auto.
    - assert (Hin0 : In (id0, w0) (s_timers s)) by (apply due_in; rewrite ED; left; reflexivity).
      set (pick := match choice with
                   | DQSome i => if existsb (fun p => N.eqb (fst p) i) ((id0, w0) :: rest)
                                 then (i, true) else (id0, false)
                   | _ => (id0, false) end) in *.
      assert (Hv : exists w, In (fst pick, w) (s_timers s)).
      { subst pick. destruct choice as [i| |]; try (exists w0; exact Hin0).
        destruct (existsb _ _) eqn:EX; [|exists w0; exact Hin0].
        apply existsb_exists in EX. destruct EX as [[i' w'] [Hin Heq]]. cbn in Heq.
        apply N.eqb_eq in Heq; subst. exists w'. apply due_in. rewrite ED. exact Hin. }
      destruct pick as [victim agree]. cbn in Hv. destruct Hv as [w Hw].
      pose proof (drop_timer_lt victim w (s_timers s) Hw) as Hlt.
      pose proof (drop_entry_le victim (s_inflight s)) as Hle.
      assert (Hs : PsiS s' < PsiS s /\ r = RSReady).
      { destruct agree; cbn in H;
          match type of H with (_, match ?F with _ => _ end) = _ => destruct F end;
          inversion H; subst; clear H; unfold PsiS, drop_timer, drop_entry in *; sproj; split; try reflexivity; lia. }
      destruct Hs as [Hs _]. split; [apply R_strict, Hs|intros _; exact Hs].
  Qed.

  Lemma Psi_add_permit (s : st) :
    PsiS (add_permit s) <= PsiS s /\ s_respq (add_permit s) = s_respq s.
  Proof.
    unfold add_permit. destruct (s_waiters s) as [|k r]; [split; [unfold PsiS; sproj; lia|reflexivity]|].
    sproj. destruct (nth_error (s_handlers s) k) as [hr|] eqn:E; [|split; [unfold PsiS; sproj; lia|reflexivity]].
    destruct hr as [h i x]. destruct x; try (split; [unfold PsiS; sproj; lia|reflexivity]).
    split; [|reflexivity]. unfold PsiS. sproj.
    pose proof (WH_set_hst k (HPermit b) (s_handlers s) _ E) as W. cbn [h_st wh] in W. lia.
  Qed.

  Lemma Psi_base_start_send (m : response) (s : st) e s' :
    base_start_send stp m s = (e, s') -> PsiS s' <= PsiS s + 1.
  Proof.
    unfold base_start_send. pose proof (Psi_remove_request (resp_id m) s) as B.
    destruct (remove_request (resp_id m) s) as [was s1]. cbn [snd] in B. destruct was.
    - destruct (do_send stp m s1) as [r s2] eqn:ES. apply Psi_do_send in ES. intros [= _ <-]. lia.
    - intros [= _ <-]. lia.
  Qed.

  (* BaseChannel::poll_next *)
  Lemma R_base_poll_next f : forall (s : st) r s',
    base_poll_next stp f s = (r, s') -> R s s' /\ (forall q, r = PReady q -> PsiS s' + A + 6 <= PsiS s).
  Proof.
    induction f as [|f IH]; intros s r s' H; [cbn in H; injection H as <- <-; split; [apply R_refl|discriminate]|].
    cbn [base_poll_next] in H.
    set (cs := match s_cancels s with
               | id :: r0 => (RSReady, snd (remove_request id (set_cancels s r0)))
               | [] => (RSClosed, s) end) in H.
    assert (Hc : R s (snd cs) /\ (fst cs = RSReady -> PsiS (snd cs) < PsiS s)).
    { subst cs. destruct (s_cancels s) as [|id r0] eqn:EC; cbn [fst snd]; [split; [apply R_refl|discriminate]|].
      pose proof (Psi_remove_request id (set_cancels s r0)) as B.
      assert (B' : PsiS (set_cancels s r0) + 1 = PsiS s) by (unfold PsiS; sproj; rewrite EC; cbn [length]; lia).
      split; [apply R_strict; lia|intros _; lia]. }
    destruct cs as [cst s1]. cbn [fst snd] in Hc. destruct Hc as (Rc & Sc).
    destruct (poll_expired s1) as [est s2] eqn:EE.
    destruct (R_poll_expired _ _ _ EE) as (Re & Se).
    assert (R02 : R s s2) by (eapply R_trans; eassumption).
    assert (Hstat : forall rst sx,
               R s2 sx -> (rst = RSReady -> PsiS sx < PsiS s2) ->
               forall r s',
               match combine (combine cst est) rst with
               | RSReady => base_poll_next stp f sx
               | RSClosed => (PEnd, sx)
               | RSPending => (PPending, sx)
               end = (r, s') ->
               R s s' /\ (forall q, r = PReady q -> PsiS s' + A + 6 <= PsiS s)).
    { intros rst sx Rx Sx r0 s0 HH.
      assert (R0x : R s sx) by (eapply R_trans; eassumption).
      destruct (combine (combine cst est) rst) eqn:ECB.
      - destruct (IH _ _ _ HH) as (B1 & B2). split; [eapply R_trans; eassumption|].
        intros q Hq. specialize (B2 q Hq). destruct R0x as [L _]. lia.
      - injection HH as <- <-. split; [exact R0x|discriminate].
      - injection HH as <- <-. split; [exact R0x|discriminate]. }
    destruct (s_fused s2) eqn:EF.
    - apply (Hstat RSClosed s2 (R_refl s2)); [discriminate|exact H].
    - destruct (do_next stp s2) as [rr s3] eqn:EN. destruct (R_do_next _ _ _ EN) as (Rn & Sn).
      destruct rr as [m| | |].
      + specialize (Sn m eq_refl).
        destruct m as [id dl tr body|id tr]; cbn [msgw] in Sn.
        * destruct (start_request id dl s3) as [[h s4]|] eqn:ES.
          -- apply Psi_start_request in ES. injection H as <- <-.
             destruct R02 as [L02 _].
             split; [apply R_strict; lia|intros q _; lia].
          -- destruct (IH _ _ _ H) as (B1 & B2). destruct R02 as [L02 _]. destruct B1 as [LA _].
             split; [apply R_strict; lia|]. intros q Hq. specialize (B2 q Hq). lia.
        * pose proof (Psi_cancel_request id s3) as B.
          apply (Hstat RSReady (cancel_request id s3)); [apply R_strict; lia|intros _; lia|exact H].
      + injection H as <- <-. split; [eapply R_trans; eassumption|discriminate].
      + assert (Rf : R s3 (set_fused s3 true)).
        { destruct (s_fused s3) eqn:E3.
          - apply R_fields; sproj; auto.
          - apply R_strict. unfold PsiS. sproj. rewrite E3. lia. }
        apply (Hstat RSClosed (set_fused s3 true)); [eapply R_trans; eassumption|discriminate|exact H].
      + apply (Hstat RSPending s3); [exact Rn|discriminate|exact H].
  Qed.

  Lemma R_ensure_writeable (s : st) w s' : ensure_writeable stp s = (w, s') -> R s s'.
  Proof.
    unfold ensure_writeable. intro H.
    destruct (do_ready stp s) as [r s1] eqn:E1. pose proof (R_do_ready _ _ _ E1) as R1.
    destruct r; try (injection H as _ <-; exact R1).
    destruct (do_flush stp s1) as [f s2] eqn:E2. pose proof (R_do_flush _ _ _ E2) as R2.
    destruct f; try (injection H as _ <-; eapply R_trans; eassumption).
    destruct (do_ready stp s2) as [r2 s3] eqn:E3. pose proof (R_do_ready _ _ _ E3) as R3.
    destruct r2; injection H as _ <-; (eapply R_trans; [exact R1|eapply R_trans; eassumption]).
  Qed.

  Lemma R_pump_write rc (s : st) w s' :
    pump_write stp rc s = (w, s') -> R s s' /\ (forall u, w = PReady u -> PsiS s' < PsiS s).
  Proof.
    unfold pump_write, poll_next_response. intro H.
    destruct (ensure_writeable stp s) as [x s1] eqn:EW. pose proof (R_ensure_writeable _ _ _ EW) as R1.
    assert (Hflush : forall x0, (let '(f, s2) := do_flush stp s1 in
                match f with
                | TErr => (PErr AFlush, s2)
                | TPending => (PPending, s2)
                | TOk => match x0 : pres response with
                         | PEnd => (PEnd, s2)
                         | _ => if rc && Nat.eqb (length (s_inflight s2)) 0 then (PEnd, s2) else (PPending, s2)
                         end
                end) = (w, s') -> R s s' /\ (forall u, w = PReady u -> PsiS s' < PsiS s)).
    { intros x0 HH. destruct (do_flush stp s1) as [f s2] eqn:EF. pose proof (R_do_flush _ _ _ EF) as R2.
      assert (R02 : R s s2) by (eapply R_trans; eassumption).
      destruct f; [destruct x0; try destruct (rc && _)| |]; injection HH as <- <-; (split; [exact R02|discriminate]). }
    destruct x as [| |a].
    - destruct (s_respq s1) as [|m q] eqn:EQ.
      + apply (Hflush PPending). exact H.
      + destruct (Psi_add_permit (set_respq s1 q)) as (D & _).
        destruct (base_start_send stp m (add_permit (set_respq s1 q))) as [e s2] eqn:ES.
        apply Psi_base_start_send in ES.
        assert (P1 : PsiS (set_respq s1 q) + 2 = PsiS s1) by (unfold PsiS; sproj; rewrite EQ; cbn [length]; lia).
        destruct R1 as [L1 _].
        assert (Hs : PsiS s2 < PsiS s) by lia.
        destruct e; injection H as <- <-; (split; [apply R_strict; exact Hs|intros; exact Hs]).
    - apply (Hflush PPending). exact H.
    - injection H as <- <-. split; [exact R1|discriminate].
  Qed.

  Lemma R_requests_poll_next f : forall (s : st) r s',
    requests_poll_next stp Chain.scfg f s = (r, s') ->
    R s s' /\ (forall q, r = PReady q -> PsiS s' + A + 6 <= PsiS s).
  Proof.
    induction f as [|f IH]; intros s r s' H; [cbn in H; injection H as <- <-; split; [apply R_refl|discriminate]|].
    cbn [requests_poll_next] in H. unfold pump_read in H. cbn [cfg_limit Chain.scfg] in H.
    destruct (base_poll_next stp (S f) s) as [rd s1] eqn:ER.
    destruct (R_base_poll_next _ _ _ _ ER) as (R1 & S1).
    destruct rd as [q| |a| |]; try (injection H as <- <-; split; [exact R1|discriminate]).
    all: match type of H with context [pump_write stp ?b ?sx] =>
           destruct (pump_write stp b sx) as [wr s2] eqn:EW;
           destruct (R_pump_write _ _ _ _ EW) as (R2 & S2) end.
    all: assert (R02 : R s s2) by (eapply R_trans; eassumption).
    - specialize (S1 q eq_refl). destruct R2 as [L2 _].
      destruct wr as [u| |a| |]; injection H as <- <-.
      + split; [apply R_strict; lia|intros; lia].
      + split; [apply R_strict; lia|intros; lia].
      + split; [apply R_strict; unfold PsiS in *; sproj; rewrite app_length; cbn [length]; lia|discriminate].
      + split; [apply R_strict; lia|intros; lia].
      + split; [apply R_strict; lia|discriminate].
    - destruct wr as [u| |a| |]; try (injection H as <- <-; split; [exact R02|discriminate]).
      destruct (IH _ _ _ H) as (B1 & B2). split; [eapply R_trans; eassumption|].
      intros q Hq. specialize (B2 q Hq). destruct R02 as [L _]. lia.
    - destruct wr as [u| |a| |]; try (injection H as <- <-; split; [exact R02|discriminate]).
      destruct (IH _ _ _ H) as (B1 & B2). split; [eapply R_trans; eassumption|].
      intros q Hq. specialize (B2 q Hq). destruct R02 as [L _]. lia.
  Qed.

  (* ---------------------------------------------------------------- one poll of the stream *)
  Notation sfuel := (fun t : Chain.link => length (Chain.l_c2s t)).

  Lemma poll_requests_pot (s : st) s' l :
    s_dropped s = false -> poll_requests stp sfuel Chain.scfg s = (s', l) ->
    exists log res, l = [OCalls log; res] /\
      match res with OYield _ _ _ _ _ | OStreamEnd | OStreamErr _ | OPending => True | _ => False end /\
      R s s' /\ (match res with OYield _ _ _ _ _ => PsiS s' + A + 1 <= PsiS s | _ => True end).
  Proof.
    intros Hd H.
    pose proof (ServerFuel.poll_requests_no_fuel stp sfuel ChainFuel.stp_tfuel_ok Chain.scfg s) as NF. rewrite H in NF.
    cbn [snd] in NF. unfold poll_requests in H. rewrite Hd in H.
    destruct (requests_poll_next stp Chain.scfg (poll_fuel sfuel s) (set_log s [])) as [r s1] eqn:ER.
    destruct (R_requests_poll_next _ _ _ _ ER) as (R1 & Y).
    assert (R0 : R s (set_log s [])) by (apply R_fields; sproj; reflexivity).
    assert (R01 : R s s1) by (eapply R_trans; eassumption).
    destruct r as [q| |a| |]; injection H as <- <-; eexists _, _; (split; [reflexivity|]).
    - split; [exact Logic.I|]. specialize (Y q eq_refl).
      assert (P0 : PsiS (set_log s []) = PsiS s) by reflexivity.
      assert (Hs : PsiS (set_handlers s1 (s_handlers s1 ++ [{| h_h := q_h q; h_id := q_id q; h_st := HYielded |}])) + A + 1 <= PsiS s).
      { unfold PsiS in *. sproj. rewrite WH_app. cbn [h_st wh]. lia. }
      split; [apply R_strict; lia|exact Hs].
    - split; [exact Logic.I|]. split; [exact R01|exact Logic.I].
    - split; [exact Logic.I|]. split; [exact R01|exact Logic.I].
    - split; [exact Logic.I|]. split; [exact R01|exact Logic.I].
    - exfalso. apply NF. right; left. reflexivity.
  Qed.

  (* the yielded request pays for the handler's record at the node level *)
  Lemma poll_requests_yield (s : st) s' log k id dl tr b :
    s_dropped s = false -> poll_requests stp sfuel Chain.scfg s = (s', [OCalls log; OYield k id dl tr b]) ->
    PsiS s' + A + 1 <= PsiS s.
  Proof.
    intros Hd H. unfold poll_requests in H. rewrite Hd in H.
    destruct (requests_poll_next stp Chain.scfg (poll_fuel sfuel s) (set_log s [])) as [r s1] eqn:ER.
    destruct (R_requests_poll_next _ _ _ _ ER) as (R1 & Y).
    destruct r as [q| |a| |]; try discriminate. injection H as <- _. specialize (Y q eq_refl).
    assert (P0 : PsiS (set_log s []) = PsiS s) by reflexivity.
    unfold PsiS in *. sproj. rewrite WH_app. cbn [h_st wh]. lia.
  Qed.

  (* ---------------------------------------------------------------- one poll of an execute() future *)
  Lemma Psi_sethst (s sx : st) k hr x :
    s_handlers sx = s_handlers s -> nth_error (s_handlers s) k = Some hr ->
    PsiS (set_handlers sx (set_hst k x (s_handlers sx))) + wh (h_st hr) = PsiS sx + wh x.
  Proof.
    intros E Hk. unfold PsiS. sproj. rewrite E.
    pose proof (WH_set_hst k x (s_handlers s) hr Hk). lia.
  Qed.

  Lemma add_permit_nth (s : st) k hr :
    nth_error (s_handlers s) k = Some hr ->
    exists hr', nth_error (s_handlers (add_permit s)) k = Some hr' /\
                (h_st hr' = h_st hr \/ exists b, h_st hr = HWait b /\ h_st hr' = HPermit b).
  Proof.
    intro Hk. destruct (add_permit_shape s) as (P1 & P2 & _). cbv zeta in *.
    pose proof (f_equal (fun l => nth_error l k) P1) as E. cbn beta in E. rewrite !nth_error_map, Hk in E.
    destruct (nth_error (s_handlers (add_permit s)) k) as [hr'|] eqn:E'; cbn in E; [|discriminate].
    exists hr'. split; [reflexivity|]. destruct (P2 k hr' E') as (hr0 & A0 & _ & _ & B).
    rewrite Hk in A0. inversion A0; subst hr0. exact B.
  Qed.

  Definition hquiet (o : obs) : bool :=
    match o with OHPolled _ | OExecPending _ => true | _ => false end.

  Lemma exec_pot k hs (s : st) s' l :
    execute_poll k hs s = (s', l) ->
    R s s' /\ (PsiS s' = PsiS s -> forallb hquiet l = true) /\
    (forall hr, nth_error (s_handlers s) k = Some hr -> h_st hr = HYielded -> PsiS s' < PsiS s).
  Proof.
    intro H. unfold execute_poll in H. cbv beta zeta in H.
    destruct (nth_error (s_handlers s) k) as [hr|] eqn:Hk;
      [|injection H as <- <-; split; [apply R_refl|split; [reflexivity|discriminate]]].
    assert (Hsame : h_st hr <> HYielded -> (s', l) = (s, []) ->
              R s s' /\ (PsiS s' = PsiS s -> forallb hquiet l = true) /\
              (forall hr0, Some hr = Some hr0 -> h_st hr0 = HYielded -> PsiS s' < PsiS s)).
    { intros NY [= -> ->]. split; [apply R_refl|]. split; [reflexivity|]. intros hr0 [= <-] Y. contradiction. }
    assert (Hstrict : PsiS s' < PsiS s ->
              R s s' /\ (PsiS s' = PsiS s -> forallb hquiet l = true) /\
              (forall hr0, Some hr = Some hr0 -> h_st hr0 = HYielded -> PsiS s' < PsiS s)).
    { intro X. split; [apply R_strict, X|]. split; [intro; lia|intros; exact X]. }
    assert (F0 : forall x, PsiS (set_handlers s (set_hst k x (s_handlers s))) + wh (h_st hr) = PsiS s + wh x)
      by (intro x; apply (Psi_sethst s s k hr x eq_refl Hk)).
    assert (FW : forall x w, PsiS (set_handlers (set_waiters s w) (set_hst k x (s_handlers (set_waiters s w))))
                             + wh (h_st hr) = PsiS s + wh x).
    { intros x w. rewrite (Psi_sethst s (set_waiters s w) k hr x eq_refl Hk). reflexivity. }
    assert (FQ : forall x p m, PsiS (set_handlers (set_respq (set_permits s p) (s_respq s ++ [m]))
                                     (set_hst k x (s_handlers (set_respq (set_permits s p) (s_respq s ++ [m])))))
                               + wh (h_st hr) = PsiS s + 2 + wh x).
    { intros x p m. rewrite (Psi_sethst s (set_respq (set_permits s p) (s_respq s ++ [m])) k hr x eq_refl Hk).
      unfold PsiS. sproj. rewrite app_length. cbn [length]. lia. }
    assert (FQ' : forall x m, PsiS (set_handlers (set_respq s (s_respq s ++ [m]))
                                     (set_hst k x (s_handlers (set_respq s (s_respq s ++ [m])))))
                               + wh (h_st hr) = PsiS s + 2 + wh x).
    { intros x m. rewrite (Psi_sethst s (set_respq s (s_respq s ++ [m])) k hr x eq_refl Hk).
      unfold PsiS. sproj. rewrite app_length. cbn [length]. lia. }
    assert (FP : 3 <= wh (h_st hr) ->
                 PsiS (set_handlers (add_permit s) (set_hst k HDone (s_handlers (add_permit s)))) + 3 <= PsiS s).
    { intro W3. destruct (add_permit_nth s k hr Hk) as (hr' & A0 & B).
      pose proof (Psi_sethst (add_permit s) (add_permit s) k hr' HDone eq_refl A0) as X. cbn [wh] in X.
      destruct (Psi_add_permit s) as [Y _].
      assert (3 <= wh (h_st hr')).
      { destruct B as [B|(b & B1 & B2)]; [rewrite B; exact W3|rewrite B2; cbn; lia]. }
      lia. }
    destruct (h_st hr) eqn:Est; try (apply Hsame; [discriminate|exact (eq_sym H)]); cbn [wh] in *.
    - (* HYielded *)
      destruct (existsb (Nat.eqb (h_h hr)) (s_aborted s)).
      { injection H as <- <-. apply Hstrict. specialize (F0 HDone). cbn [wh] in F0. lia. }
      assert (Hsend : forall b pre,
                (if s_dropped s then (set_handlers s (set_hst k HDone (s_handlers s)), pre ++ [OExecReady k])
                 else match s_permits s with
                      | S p => (set_handlers (set_respq (set_permits s p) (s_respq s ++ [mkresp (h_id hr) b]))
                                  (set_hst k HDone (s_handlers (set_respq (set_permits s p) (s_respq s ++ [mkresp (h_id hr) b])))),
                                pre ++ [OExecReady k])
                      | O => (set_handlers (set_waiters s (s_waiters s ++ [k])) (set_hst k (HWait b) (s_handlers s)),
                              pre ++ [OExecPending k])
                      end) = (s', l) -> PsiS s' < PsiS s).
      { intros b pre HH. destruct (s_dropped s); [|destruct (s_permits s) as [|p]]; injection HH as <- _.
        - specialize (F0 HDone). cbn [wh] in F0. lia.
        - specialize (FW (HWait b) (s_waiters s ++ [k])). cbn [wh s_handlers set_waiters] in FW. lia.
        - specialize (FQ HDone p (mkresp (h_id hr) b)). cbn [wh] in FQ. sproj. lia. }
      destruct hs as [|v|]; [|apply Hstrict; exact (Hsend _ _ H)|apply Hstrict; exact (Hsend _ _ H)].
      injection H as <- <-. apply Hstrict. specialize (F0 HRunning); cbn [wh] in F0; lia.
    - (* HRunning *)
      destruct (existsb (Nat.eqb (h_h hr)) (s_aborted s)).
      { injection H as <- <-. apply Hstrict. specialize (F0 HDone). cbn [wh] in F0. lia. }
      assert (Hsend : forall b pre,
                (if s_dropped s then (set_handlers s (set_hst k HDone (s_handlers s)), pre ++ [OExecReady k])
                 else match s_permits s with
                      | S p => (set_handlers (set_respq (set_permits s p) (s_respq s ++ [mkresp (h_id hr) b]))
                                  (set_hst k HDone (s_handlers (set_respq (set_permits s p) (s_respq s ++ [mkresp (h_id hr) b])))),
                                pre ++ [OExecReady k])
                      | O => (set_handlers (set_waiters s (s_waiters s ++ [k])) (set_hst k (HWait b) (s_handlers s)),
                              pre ++ [OExecPending k])
                      end) = (s', l) -> PsiS s' < PsiS s).
      { intros b pre HH. destruct (s_dropped s); [|destruct (s_permits s) as [|p]]; injection HH as <- _.
        - specialize (F0 HDone). cbn [wh] in F0. lia.
        - specialize (FW (HWait b) (s_waiters s ++ [k])). cbn [wh s_handlers set_waiters] in FW. lia.
        - specialize (FQ HDone p (mkresp (h_id hr) b)). cbn [wh] in FQ. sproj. lia. }
      destruct hs as [|v|]; [|apply Hstrict; exact (Hsend _ _ H)|apply Hstrict; exact (Hsend _ _ H)].
      injection H as <- <-.
      split; [|split; [reflexivity|intros hr0 [= <-] Y; congruence]].
      split; [specialize (F0 HRunning); cbn [wh] in F0; lia|]. intros _.
      constructor; sproj; try reflexivity.
      apply (codes_set_hst k HRunning (s_handlers s) hr Hk). rewrite Est. reflexivity.
    - (* HWait *)
      destruct (existsb (Nat.eqb (h_h hr)) (s_aborted s)).
      { injection H as <- <-. apply Hstrict.
        specialize (FW HDone (remove_waiter k (s_waiters s))). cbn [wh s_handlers set_waiters] in FW. lia. }
      destruct (s_dropped s); injection H as <- <-.
      + apply Hstrict.
        specialize (FW HDone (remove_waiter k (s_waiters s))). cbn [wh s_handlers set_waiters] in FW. lia.
      + split; [apply R_refl|]. split; [reflexivity|intros hr0 [= <-] Y; congruence].
    - (* HPermit *)
      destruct (existsb (Nat.eqb (h_h hr)) (s_aborted s)).
      { injection H as <- <-. apply Hstrict. specialize (FP ltac:(lia)). lia. }
      destruct (s_dropped s); injection H as <- <-; apply Hstrict.
      + specialize (F0 HDone). cbn [wh] in F0. lia.
      + specialize (FQ' HDone (mkresp (h_id hr) b)). cbn [wh s_handlers set_respq] in FQ'. sproj. lia.
  Qed.
End SrvPot.
