(* Server proofs, engineer C, part 1: C10 (server half).  The Requests stream ends only after the
   transport reported end of stream, with nothing in flight and a completed flush after the last
   write.  Statements: ServerSpec.stmt_s_v10, stmt_s10. *)
From Coq Require Import List Bool Arith NArith Lia.
Import ListNotations.
From TarpcV Require Import Base Transport TimerWheel Server ServerMon ServerFuel ServerContract
     ServerSim ServerSim2 ServerSim3 ServerSim4 ServerSim5 ServerSim6 ServerSim7 ServerSpec.

(* ---------------------------------------------------------------- the observer side *)
(* a transport call never decides v10 *)
Lemma ocall_v10 : forall lim o c, v10 (o_v (o_call lim o c)) = v10 (o_v o).
Proof.
  intros lim o c. unfold o_call.
  assert (P : v10 (o_v (match o_errcall o with Some _ => chk09 o false | None => o end)) = v10 (o_v o)).
  { destruct (o_errcall o); oproj; rewrite ?andb_true_r; auto. }
  set (o0 := match o_errcall o with Some _ => chk09 o false | None => o end) in *.
  destruct c as [r|m r|r|r|r].
  - oproj. auto.
  - destruct (resp_body m).
    1,2,4: (destruct (last_open (resp_id m) (o_incs o0)); oproj; rewrite ?andb_true_r; auto).
    unfold accept_id. destruct (last_open (resp_id m) _); oproj; rewrite ?andb_true_r, ?orb_false_r; auto.
  - oproj. auto.
  - oproj. rewrite ?andb_true_r. auto.
  - unfold resolve_ignored. destruct (o_pend o0) as [[[[a b] d] e]|];
      destruct r as [[id dl tr body|id tr]| | |]; oproj; rewrite ?andb_true_r, ?orb_false_r; auto;
      destruct (last_open id _); oproj; rewrite ?andb_true_r, ?orb_false_r; auto.
Qed.

Lemma ocs_v10 : forall lim new o, v10 (o_v (fold_left (o_call lim) new o)) = v10 (o_v o).
Proof.
  intros lim new; induction new as [|c new IH]; intros o; cbn [fold_left]; [auto|].
  rewrite IH. apply ocall_v10.
Qed.

(* a completed flush clears the observer's dirty flag *)
Lemma ocall_flush_ok_dirty : forall lim o, o_dirty (o_call lim o (CFlush TOk)) = false.
Proof. intros lim o. unfold o_call. destruct (o_errcall o); oproj; reflexivity. Qed.

Lemma ocs_last_flush : forall lim new o,
  o_dirty (fold_left (o_call lim) (new ++ [CFlush TOk]) o) = false.
Proof. intros lim new o. rewrite fold_left_app. cbn [fold_left]. apply ocall_flush_ok_dirty. Qed.

Lemma finish_idle_v10 : forall o, v10 (o_v (finish_idle o)) = v10 (o_v o).
Proof.
  intros o. unfold finish_idle. destruct (o_blocked _); oproj; rewrite ?andb_true_r; reflexivity.
Qed.

Lemma oresult_v10 : forall o r,
  v10 (o_v (o_result o r)) =
  v10 (o_v o) && match r with OStreamEnd => o_eof o && negb (o_dirty o) | _ => true end.
Proof.
  intros o r. destruct r; unfold o_result;
    first [ unfold mark_bad; oproj; rewrite ?andb_true_r; reflexivity
          | unfold accept_id; destruct (last_open id _); oproj; rewrite ?andb_true_r; reflexivity
          | rewrite finish_idle_v10; oproj; rewrite ?andb_true_r; reflexivity ].
Qed.

Lemma ogauges_v10 : forall st' bl o a b, v10 (o_v (o_gauges st' bl o a b)) = v10 (o_v o).
Proof.
  intros st' bl o a b. unfold o_gauges. destruct st'; [|destruct bl]; oproj; rewrite ?andb_true_r; reflexivity.
Qed.

(* the tail of ostep: gauges *)
Lemma tail_v10 : forall o1 a b yl st' bl ended,
  (ended = true -> a = 0) ->
  v10 (o_v (if o_dropped o1 then mark_bad o1
            else if c_err (o_v o1) then o1
            else o_gauges st' bl (chk10 (chk12a o1 yl) (negb ended || Nat.eqb a 0)) a b)) = v10 (o_v o1).
Proof.
  intros o1 a b yl st' bl ended H.
  destruct (o_dropped o1); [unfold mark_bad; oproj; reflexivity|].
  destruct (c_err (o_v o1)); [reflexivity|]. rewrite ogauges_v10. oproj.
  destruct ended; cbn [negb orb]; [rewrite (H eq_refl); cbn|]; rewrite ?andb_true_r; reflexivity.
Qed.

Lemma ohevent_v10 : forall o e, v10 (o_v (o_hevent o e)) = v10 (o_v o).
Proof.
  intros o e. destruct e; unfold o_hevent; try (unfold mark_bad; oproj; reflexivity); try reflexivity.
  - destruct (nth_error (o_incs o) k); [oproj; rewrite ?andb_true_r; reflexivity|unfold mark_bad; oproj; reflexivity].
  - destruct (nth_error (o_incs o) k); [oproj; rewrite ?andb_true_r; reflexivity|unfold mark_bad; oproj; reflexivity].
Qed.
Lemma ohevents_v10 : forall body o, v10 (o_v (fold_left o_hevent body o)) = v10 (o_v o).
Proof.
  induction body as [|e body IH]; intros o; cbn [fold_left]; [reflexivity|]. rewrite IH. apply ohevent_v10.
Qed.
Lemma guard_dropped_v10 : forall k need o, v10 (o_v (guard_dropped k need o)) = v10 (o_v o).
Proof.
  intros k need o. unfold guard_dropped. destruct (nth_error (o_incs o) k); [|reflexivity].
  repeat match goal with |- context [if ?b then _ else _] => destruct b end; reflexivity.
Qed.

(* an op that is not a poll never decides v10, whatever it observes *)
Lemma otail_v10 : forall o1 g, v10 (o_v (otail o1 g)) = v10 (o_v o1).
Proof.
  intros o1 g. unfold otail. destruct g as [[a b]|].
  - destruct (o_dropped o1); [unfold mark_bad; oproj; reflexivity|].
    destruct (c_err (o_v o1)); [reflexivity|]. rewrite ogauges_v10. oproj. rewrite ?andb_true_r. reflexivity.
  - destruct (o_dropped o1); [reflexivity|unfold mark_bad; oproj; reflexivity].
Qed.

Lemma ostep_nonpoll_v10 : forall {C : Type} c (p : op C) o l,
  match p with OPoll => False | _ => True end ->
  v10 (o_v (ostep (cfg_limit c) o p l)) = v10 (o_v o).
Proof.
  intros C c p o l Hp.
  destruct (h_stop (o_v o)) eqn:EH; [|unfold ostep; rewrite EH; reflexivity].
  rewrite (ostep_nonpoll c p o l EH Hp), otail_v10.
  destruct p; try contradiction.
  - destruct (fst (split_gauges l)); [reflexivity|unfold mark_bad; oproj; reflexivity].
  - apply ohevents_v10.
  - rewrite guard_dropped_v10. apply ohevents_v10.
  - rewrite guard_dropped_v10. apply ohevents_v10.
  - reflexivity.
  - reflexivity.
Qed.

(* ---------------------------------------------------------------- the model side *)
Section EndOfStream.
  Context {T : Type}.
  Variable tp : transport T response cmsg.
  Notation st := (@sstate T).

  Lemma maxreq_end_fused : forall f limit (s : st) s',
    maxreq_poll_next tp f limit s = (PEnd, s') -> s_fused s' = true.
  Proof.
    induction f as [|f IH]; intros limit s s' H; cbn [maxreq_poll_next] in H; [discriminate|].
    destruct (limit <=? length (s_inflight s)).
    - destruct (do_ready tp s) as [x s1]. destruct x; try discriminate.
      destruct (base_poll_next tp (S f) s1) as [y s2] eqn:EB.
      destruct y as [q| |a| |]; try discriminate.
      + destruct (base_start_send tp (mkresp (q_id q) BThrottle) s2) as [e s3].
        destruct e; [discriminate|]. eapply IH; eauto.
      + injection H as <-. apply (base_complete tp _ _ _ _ EB).
    - apply (base_complete tp _ _ _ _ H).
  Qed.

  Lemma pump_read_end_fused : forall c f (s : st) s',
    pump_read tp c f s = (PEnd, s') -> s_fused s' = true.
  Proof.
    intros c f s s' H. unfold pump_read in H. destruct (cfg_limit c).
    - eapply maxreq_end_fused; eauto.
    - apply (base_complete tp _ _ _ _ H).
  Qed.

  Lemma fused_ensure : forall (s : st) w s', ensure_writeable tp s = (w, s') -> s_fused s' = s_fused s.
  Proof.
    intros s w s' H. unfold ensure_writeable in H.
    destruct (do_ready tp s) as [r sa] eqn:E1. destruct (do_ready_core tp _ _ _ E1) as (_ & F1 & _).
    destruct r; try (injection H as _ <-; exact F1).
    destruct (do_flush tp sa) as [f sb] eqn:E2. destruct (do_flush_core tp _ _ _ E2) as (_ & F2 & _).
    destruct f; try (injection H as _ <-; congruence).
    destruct (do_ready tp sb) as [r2 sc] eqn:E3. destruct (do_ready_core tp _ _ _ E3) as (_ & F3 & _).
    destruct r2; injection H as _ <-; congruence.
  Qed.

  (* pump_write ends the stream only right after a completed flush, with nothing in flight *)
  Lemma pump_write_end : forall rc (s : st) s',
    pump_write tp rc s = (PEnd, s') ->
    s_fused s' = s_fused s /\ length (s_inflight s') = 0 /\ exists rest, s_log s' = CFlush TOk :: rest.
  Proof.
    intros rc s s' H. unfold pump_write, poll_next_response in H.
    destruct (ensure_writeable tp s) as [x s1] eqn:EW. pose proof (fused_ensure _ _ _ EW) as F1.
    assert (Hfl : (let '(f, s2) := do_flush tp s1 in
                   match f with
                   | TOk => if rc && Nat.eqb (length (s_inflight s2)) 0 then (@PEnd unit, s2) else (PPending, s2)
                   | TErr => (PErr AFlush, s2)
                   | TPending => (PPending, s2)
                   end) = (PEnd, s') ->
                  s_fused s' = s_fused s /\ length (s_inflight s') = 0 /\ exists rest, s_log s' = CFlush TOk :: rest).
    { destruct (do_flush tp s1) as [f s2] eqn:EF. destruct (do_flush_core tp _ _ _ EF) as (_ & F2 & _ & _ & _ & L2).
      destruct f; try discriminate. destruct (rc && Nat.eqb (length (s_inflight s2)) 0) eqn:EB; [|discriminate].
      intros [= <-]. apply andb_true_iff in EB. destruct EB as [_ EB]. apply Nat.eqb_eq in EB.
      split; [congruence|]. split; [exact EB|]. eexists; exact L2. }
    destruct x as [| |a].
    - destruct (s_respq s1) as [|m q]; [exact (Hfl H)|].
      destruct (base_start_send tp m (add_permit (set_respq s1 q))) as [e s2]. destruct e; discriminate.
    - exact (Hfl H).
    - discriminate.
  Qed.

  Lemma requests_end : forall c f (s : st) s',
    requests_poll_next tp c f s = (PEnd, s') ->
    s_fused s' = true /\ length (s_inflight s') = 0 /\ exists rest, s_log s' = CFlush TOk :: rest.
  Proof.
    intros c f; induction f as [|f IH]; intros s s' H; cbn [requests_poll_next] in H; [discriminate|].
    destruct (pump_read tp c (S f) s) as [rd s1] eqn:ER.
    destruct rd as [q| |a| |]; try discriminate.
    - destruct (pump_write tp false s1) as [wr s2]. destruct wr; discriminate.
    - destruct (pump_write tp true s1) as [wr s2] eqn:EW.
      destruct wr as [u| |a| |]; try discriminate.
      + eapply IH; eauto.
      + injection H as <-. destruct (pump_write_end _ _ _ EW) as (F & L & R).
        split; [rewrite F; eapply pump_read_end_fused; eauto|]. split; [exact L|exact R].
    - destruct (pump_write tp false s1) as [wr s2] eqn:EW.
      destruct wr as [u| |a| |]; try discriminate. eapply IH; eauto.
  Qed.
End EndOfStream.

(* ---------------------------------------------------------------- one op, the run *)
Section V10Run.
  Context {T C : Type}.
  Variable tp : transport T response cmsg.
  Variable ctl : T -> C -> T.
  Variable tfuel : T -> nat.
  Hypothesis TF : tfuel_ok tp tfuel.
  Variable c : cfg.
  Notation st := (@sstate T).
  Notation lim := (cfg_limit c).

  Lemma v10_poll : forall o (s : st) s' l,
    Top o s -> v10 (o_v o) = true -> step tp ctl tfuel c s OPoll = (s', l) ->
    v10 (o_v (ostep lim o (@OPoll C) l)) = true.
  Proof.
    intros o s s' l HT HV H. unfold step in H.
    destruct (poll_requests tp tfuel c s) as [s1 l0] eqn:EP. injection H as <- <-.
    destruct (h_stop (o_v o)) eqn:EH; [|unfold ostep; rewrite EH; exact HV].
    destruct (HT EH) as (HI & Hnt & Hrest).
    unfold poll_requests in EP.
    destruct (s_dropped s) eqn:ED.
    { injection EP as <- <-. unfold ostep. rewrite EH. cbn [negb]. unfold gauges. rewrite ED.
      assert (Hodt : o_dropped o = true) by (rewrite (u_dropped _ _ HI); exact ED).
      cbn [app split_gauges rev]. rewrite Hodt. cbn iota. rewrite Hodt. exact HV. }
    assert (Hod : o_dropped o = false) by (rewrite (u_dropped _ _ HI); exact ED).
    destruct (requests_poll_next tp c (poll_fuel tfuel s) (set_log s [])) as [r s2] eqn:ER.
    pose proof (requests_not_fuel tp tfuel TF c _ _ _ ER) as Hnf.
    pose proof (dropped_requests tp _ _ _ _ _ ER) as Hd2. sproj.
    (* the shape of what the poll emits *)
    assert (Hshape : exists R, l0 = [OCalls (rev (s_log s2)); R] /\ s_dropped s1 = false
               /\ match R with OYield _ _ _ _ _ | OPending | OStreamEnd | OStreamErr _ => True | _ => False end
               /\ (R = OStreamEnd -> r = PEnd /\ s1 = s2)).
    { destruct r; [| | | |exfalso; apply Hnf; reflexivity]; injection EP as <- <-; eexists;
        (split; [reflexivity|split; [sproj; congruence|split; [exact I|]]]); try discriminate.
      intros _. auto. }
    destruct Hshape as (R & -> & Hd1 & HR & HEnd).
    unfold ostep. rewrite EH. cbn [negb].
    rewrite (split_gauges_poll s1 (rev (s_log s2)) R Hd1);
      [|destruct R; try contradiction; exact I].
    rewrite Hod.
    destruct (c_err (o_v o)) eqn:EC.
    { cbv beta iota zeta. rewrite tail_v10 by discriminate. oproj. exact HV. }
    unfold o_calls. set (oc := fold_left (o_call lim) (rev (s_log s2)) (start_poll o)).
    assert (Voc : v10 (o_v oc) = true).
    { unfold oc. rewrite ocs_v10. exact HV. }
    cbv beta iota zeta.
    rewrite tail_v10.
    - rewrite oresult_v10, Voc. cbn [andb].
      destruct R; try reflexivity.
      (* end of stream *)
      destruct (HEnd eq_refl) as (-> & ->).
      destruct (Hrest eq_refl) as (Hh & Hg).
      assert (HB0 : BInv (start_poll o) (set_log s [])).
      { split; [apply InvU_start_poll; auto|split; [|exact EC]]. eapply handled_sub; eauto. }
      destruct (requests_inv tp lim c _ _ _ _ _ eq_refl HB0 Hnt ER) as (new & X & Post & _).
      assert (Hlog : rev (s_log s2) = new).
      { unfold ext in X. sproj. rewrite X, app_nil_r, rev_involutive. reflexivity. }
      destruct (requests_end tp _ _ _ _ ER) as (Hf & _ & (rest & Hl)).
      cbn [rpost] in Post. destruct Post as (HIc & _ & _).
      assert (Heof : o_eof oc = true).
      { unfold oc. rewrite Hlog. exact (u_eof _ _ HIc Hf). }
      assert (Hdirty : o_dirty oc = false).
      { unfold oc. rewrite Hl. cbn [rev]. apply ocs_last_flush. }
      rewrite Heof, Hdirty. reflexivity.
    - intros He. destruct R; try discriminate.
      destruct (HEnd eq_refl) as (-> & ->).
      destruct (requests_end tp _ _ _ _ ER) as (_ & L & _). exact L.
  Qed.

  Lemma v10_step : forall o (s : st) p s' l,
    Top o s -> v10 (o_v o) = true -> step tp ctl tfuel c s p = (s', l) ->
    v10 (o_v (ostep lim o p l)) = true.
  Proof.
    intros o s p s' l HT HV H. destruct p; try (rewrite (ostep_nonpoll_v10 c); [exact HV|exact I]).
    eapply v10_poll; eauto.
  Qed.

  Theorem run_v10 : forall ops o (s : st),
    Top o s -> hb_ok s -> v10 (o_v o) = true ->
    v10 (o_v (orun lim o ops (fst (run_from tp ctl tfuel c s ops)))) = true.
  Proof.
    induction ops as [|p ops IH]; intros o s HT Hb HV; cbn [run_from]; [exact HV|].
    destruct (step tp ctl tfuel c s p) as [s1 l] eqn:ES.
    pose proof (top_step tp ctl tfuel TF c o s p s1 l HT Hb ES) as HT1.
    pose proof (hb_ok_step tp ctl tfuel c s p Hb) as Hb1. rewrite ES in Hb1. cbn [fst] in Hb1.
    pose proof (v10_step o s p s1 l HT HV ES) as HV1.
    specialize (IH (ostep lim o p l) s1 HT1 Hb1 HV1).
    destruct (run_from tp ctl tfuel c s1 ops) as [ls s2]. cbn [fst orun] in *. exact IH.
  Qed.
End V10Run.

Theorem s_v10_holds : stmt_s_v10.
Proof.
  unfold stmt_s_v10, every_run. intros T C tp ctl tfuel c t0 ops TF. unfold observe, run.
  destruct (top_init c t0) as (HT & Hb).
  exact (run_v10 tp ctl tfuel TF c ops o_init (init c t0) HT Hb eq_refl).
Qed.
Print Assumptions s_v10_holds.

Theorem s10_holds : stmt_s10.
Proof.
  unfold stmt_s10, every_run_mon. intros T C tp ctl tfuel c t0 ops TF. unfold c10s_ok.
  destruct (server_never_early T C tp ctl tfuel c t0 ops TF) as (Hb & _). cbv zeta in Hb.
  rewrite Hb. cbn [negb andb]. exact (s_v10_holds T C tp ctl tfuel c t0 ops TF).
Qed.
Print Assumptions s10_holds.
