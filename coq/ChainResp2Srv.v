(* Chain proofs, C08 across the hop, server side: a server yields only requests that were in its
   link; the incarnation number of a yield is the number of handler records so far; a handler
   record never returns to HYielded.  Over Chain.stp, in every state. *)
From Coq Require Import List Bool Arith NArith Lia.
Import ListNotations.
From TarpcV Require Import Base Transport TimerWheel Server ServerFuel ServerSim ServerSim2.
From TarpcV Require Client Chain ChainSrv ChainResp2Cli.

Notation stp := Chain.stp.
Notation sst := (@sstate Chain.link).
Notation lreq := ChainResp2Cli.lreq.

(* handler tables: same length, and nothing becomes HYielded *)
Definition hmono (hs hs' : list hrec) : Prop :=
  length hs' = length hs /\
  (forall j hr', nth_error hs' j = Some hr' -> h_st hr' = HYielded ->
     exists hr, nth_error hs j = Some hr /\ h_st hr = HYielded) /\
  map h_id hs' = map h_id hs.
Lemma hmono_refl hs : hmono hs hs.
Proof. split; [reflexivity|]. split; [|reflexivity]. intros j hr E Y. exists hr. auto. Qed.
Lemma hmono_trans a b c : hmono a b -> hmono b c -> hmono a c.
Proof.
  intros (L1 & M1 & I1) (L2 & M2 & I2). split; [congruence|]. split; [|congruence]. intros j hr E Y.
  destruct (M2 j hr E Y) as (x & Ex & Yx). exact (M1 j x Ex Yx).
Qed.
Lemma set_hst_ids k st l : map h_id (set_hst k st l) = map h_id l.
Proof. revert k; induction l as [|x r IH]; intros [|k]; cbn; try reflexivity. rewrite IH. reflexivity. Qed.
Lemma hmono_eq a b : b = a -> hmono a b.
Proof. intros ->. apply hmono_refl. Qed.
Lemma hmono_set_hst k st hs : st <> HYielded -> hmono hs (set_hst k st hs).
Proof.
  intro N. split; [apply set_hst_length|]. split; [|apply set_hst_ids].
  intros j hr' E Y. destruct (Nat.eq_dec k j) as [->|Ne].
  - destruct (nth_error hs j) as [x|] eqn:EX.
    + rewrite (set_hst_same _ st _ _ EX) in E. injection E as <-. cbn in Y. contradiction.
    + apply nth_error_None in EX.
      assert (X : nth_error (set_hst j st hs) j = None) by (apply nth_error_None; rewrite set_hst_length; exact EX).
      congruence.
  - rewrite set_hst_other in E by exact Ne. exists hr'. auto.
Qed.
Definition hsok (St : list nat) (hs : list hrec) : Prop :=
  forall k, In k St -> k < length hs /\ forall hr, nth_error hs k = Some hr -> h_st hr <> HYielded.
Lemma hsok_mono St hs hs' : hmono hs hs' -> hsok St hs -> hsok St hs'.
Proof.
  intros (L & M & _) H k Hk. destruct (H k Hk) as [A B]. split; [lia|].
  intros hr E Y. destruct (M k hr E Y) as (x & Ex & Yx). exact (B x Ex Yx).
Qed.
Lemma hmono_add_permit (s : sst) : hmono (s_handlers s) (s_handlers (add_permit s)).
Proof.
  unfold add_permit. destruct (s_waiters s) as [|k r]; [apply hmono_refl|]. sproj.
  destruct (nth_error (s_handlers s) k) as [[hh hid hst]|]; [|apply hmono_refl].
  destruct hst; try apply hmono_refl. sproj. apply hmono_set_hst. discriminate.
Qed.

Section Srv.
  Variable i : nat.
  Variable R : ChainResp2Cli.rql.
  Variable n : nat.
  Variable St : list nat.
  Variable IDS : list N.
  Implicit Types s : sst.

  Definition P s : Prop :=
    lreq i R (s_t s) /\ length (s_handlers s) = n /\ hsok St (s_handlers s)
    /\ map h_id (s_handlers s) = IDS.
  Definition Q (q : treq) s : Prop := P s /\ In (i, q_id q, q_body q) R.

  Lemma P_frame s s' :
    Chain.l_c2s (s_t s') = Chain.l_c2s (s_t s) -> hmono (s_handlers s) (s_handlers s') -> P s -> P s'.
  Proof.
    intros E M (A & B & C & D). split; [|split; [|split]].
    - unfold lreq in *. rewrite E. exact A.
    - destruct M as [L _]. congruence.
    - eapply hsok_mono; eassumption.
    - destruct M as (_ & _ & MI). congruence.
  Qed.
  Lemma P_same s s' : s_t s' = s_t s -> s_handlers s' = s_handlers s -> P s -> P s'.
  Proof. intros E1 E2. apply P_frame; [rewrite E1; reflexivity|apply hmono_eq, E2]. Qed.

  Lemma P_remove_request id s : P s -> P (snd (remove_request id s)).
  Proof.
    intro H. destruct (remove_request_shape id s) as [(_ & -> & _)|(_ & _ & X)]; [exact H|].
    eapply P_same; [..|exact H]; apply X.
  Qed.
  Lemma P_cancel_request id s : P s -> P (cancel_request id s).
  Proof.
    intro H. destruct (cancel_request_shape id s) as [(-> & _)|(e & _ & X)]; [exact H|].
    eapply P_same; [..|exact H]; apply X.
  Qed.
  Lemma P_do_next s r s' :
    do_next stp s = (r, s') -> P s ->
    match r with
    | RItem (MReq id dl tr b) => P s' /\ In (i, id, b) R
    | _ => P s'
    end.
  Proof.
    intros E (A & B & C & D). pose proof (ChainSrv.do_next_stp _ _ _ E) as (E1 & _).
    assert (EH : s_handlers s' = s_handlers s).
    { unfold do_next in E. destruct (t_next stp (s_t s)). injection E as _ <-. reflexivity. }
    assert (K : forall m, In m (Chain.l_c2s (s_t s')) -> In m (Chain.l_c2s (s_t s))).
    { destruct (Chain.l_c2s (s_t s)) as [|x rest] eqn:EL.
      - destruct E1 as (_ & E1). rewrite E1, EL. auto.
      - destruct E1 as (_ & E1). rewrite E1. intros m Hm. right. exact Hm. }
    assert (PS : P s').
    { split; [|split; [congruence|split; [rewrite EH; exact C|rewrite EH; exact D]]].
      intros id dl tr b Hin. eapply A, K, Hin. }
    destruct r as [[id dl tr b|]| | |]; try exact PS. split; [exact PS|].
    destruct (Chain.l_c2s (s_t s)) as [|x rest] eqn:EL.
    - destruct E1 as (N & _). exfalso. eapply N. reflexivity.
    - destruct E1 as ([= <-] & _). eapply A. rewrite EL. left. reflexivity.
  Qed.

  Lemma P_resp s m r e s' :
    s_respq s = m :: r -> base_start_send stp m (add_permit (set_respq s r)) = (e, s') -> P s -> P s'.
  Proof.
    intros _ E H. eapply P_frame; [| |exact H].
    - rewrite (ChainSrv.c2s_base_start_send _ _ _ _ E), ChainSrv.st_add_permit. reflexivity.
    - eapply hmono_trans; [apply (hmono_add_permit (set_respq s r))|]. apply hmono_eq.
      unfold base_start_send in E.
      destruct (remove_request_shape (resp_id m) (add_permit (set_respq s r))) as [(X1 & X2 & _)|(X1 & _ & X)].
      + destruct (remove_request _ _) as [was s1]. cbn in X1, X2. subst. injection E as _ <-. reflexivity.
      + destruct (remove_request _ _) as [was s1]. cbn [fst snd] in *. subst was.
        destruct (do_send stp m s1) as [w s2] eqn:ES. injection E as _ <-.
        unfold do_send in ES. destruct (t_send stp (s_t s1) m). injection ES as _ <-. sproj. apply X.
  Qed.

  Lemma P_requests_poll_next f s r s' :
    requests_poll_next stp (mkcfg None 100) f s = (r, s') -> P s ->
    match r with PReady q => Q q s' | _ => P s' end.
  Proof.
    apply (ChainSrv.requests_poll_next_ind stp P Q).
    - intros x id r0 _ H. apply P_remove_request. eapply P_same; [..|exact H]; reflexivity.
    - intros x r0 x' E. apply poll_expired_shape in E. apply P_same; apply E.
    - intros x r0 x' E N H. pose proof (P_do_next _ _ _ E H) as K.
      destruct r0 as [m| | |]; try exact K. exfalso. eapply N. reflexivity.
    - intros x H. eapply P_same; [..|exact H]; reflexivity.
    - intros x id dl tr body s1 h s2 E H ES. destruct (P_do_next _ _ _ E H) as [K1 K2].
      apply start_request_shape in ES. split; [|exact K2]. eapply P_same; [..|exact K1]; apply ES.
    - intros x id dl tr body s1 E H _. apply (P_do_next _ _ _ E H).
    - intros x id tr s1 E H. apply P_cancel_request. apply (P_do_next _ _ _ E H).
    - intros x r0 x' E. unfold do_ready in E. cbn in E. injection E as _ <-. apply P_same; reflexivity.
    - intros x r0 x' E. unfold do_flush in E. cbn in E. injection E as _ <-. apply P_same; reflexivity.
    - intros q x r0 x' E [H K]. split; [|exact K]. unfold do_ready in E. cbn in E. injection E as _ <-.
      revert H. apply P_same; reflexivity.
    - intros q x r0 x' E [H K]. split; [|exact K]. unfold do_flush in E. cbn in E. injection E as _ <-.
      revert H. apply P_same; reflexivity.
    - intros x m r0 e x' EQ E. eapply P_resp; eassumption.
    - intros q x m r0 e x' EQ E [H K]. split; [|exact K]. eapply P_resp; eassumption.
    - intros q x [H _]. eapply P_same; [..|exact H]; reflexivity.
  Qed.
End Srv.

(* what one poll of execute() does to the handler table *)
Lemma hs_execute_poll k st (s : sst) :
  s_t (fst (execute_poll k st s)) = s_t s
  /\ hmono (s_handlers s) (s_handlers (fst (execute_poll k st s)))
  /\ forall hr, nth_error (s_handlers s) k = Some hr -> h_st hr = HYielded ->
     forall hr', nth_error (s_handlers (fst (execute_poll k st s))) k = Some hr' -> h_st hr' <> HYielded.
Proof.
  split; [apply ChainSrv.st_execute_poll|].
  unfold execute_poll. destruct (nth_error (s_handlers s) k) as [hr|] eqn:EN.
  2: { cbn [fst]. split; [apply hmono_refl|]. intros hr [=]. }
  assert (SH : forall (sx : sst) x, x <> HYielded -> s_handlers sx = s_handlers s ->
               hmono (s_handlers s) (set_hst k x (s_handlers sx))
               /\ forall hr', nth_error (set_hst k x (s_handlers sx)) k = Some hr' -> h_st hr' <> HYielded).
  { intros sx x Nx ->. split; [apply hmono_set_hst, Nx|]. intros hr' E.
    rewrite (set_hst_same _ x _ _ EN) in E. injection E as <-. exact Nx. }
  assert (R0 : forall (sx : sst) x hs0, x <> HYielded -> hs0 = s_handlers s ->
               hmono (s_handlers s) (s_handlers (set_handlers sx (set_hst k x hs0)))
               /\ forall hr0, Some hr = Some hr0 -> h_st hr0 = HYielded ->
                  forall hr', nth_error (s_handlers (set_handlers sx (set_hst k x hs0))) k = Some hr' ->
                              h_st hr' <> HYielded).
  { intros sx x hs0 Nx ->. sproj. destruct (SH s x Nx eq_refl) as [A B]. split; [exact A|]. intros _ _ _. exact B. }
  destruct (h_st hr) eqn:EST; cbn [fst];
    try (split; [apply hmono_refl|]; intros hr0 [= <-] Y; congruence).
  - (* HYielded *)
    destruct (existsb _ _); cbn [fst]; [apply R0; [discriminate|reflexivity]|].
    destruct st as [|v|]; cbn [fst]; try (apply R0; [discriminate|reflexivity]);
      (destruct (s_dropped s); [|destruct (s_permits s)]); cbn [fst]; apply R0; try discriminate; reflexivity.
  - (* HRunning *)
    destruct (existsb _ _); cbn [fst]; [apply R0; [discriminate|reflexivity]|].
    destruct st as [|v|]; cbn [fst]; try (apply R0; [discriminate|reflexivity]);
      (destruct (s_dropped s); [|destruct (s_permits s)]); cbn [fst]; apply R0; try discriminate; reflexivity.
  - (* HWait *)
    destruct (existsb _ _); cbn [fst]; [apply R0; [discriminate|reflexivity]|].
    destruct (s_dropped s); cbn [fst]; [apply R0; [discriminate|reflexivity]|].
    split; [apply hmono_refl|]. intros hr0 [= <-] Y. congruence.
  - (* HPermit *)
    destruct (existsb _ _); cbn [fst].
    + split; [|intros hr0 [= <-] Y; congruence].
      eapply hmono_trans; [apply (hmono_add_permit s)|]. sproj. apply hmono_set_hst. discriminate.
    + destruct (s_dropped s); cbn [fst]; apply R0; try discriminate; reflexivity.
Qed.

Section Step.
  Context {C : Type}.
  Variable ctl : Chain.link -> C -> Chain.link.
  Variable tfuel : Chain.link -> nat.
  Implicit Types s : sst.

  (* one poll of the request stream *)
  Lemma P_step_poll i R St s s' l :
    step stp ctl tfuel (mkcfg None 100) s OPoll = (s', l) ->
    P i R (length (s_handlers s)) St (map h_id (s_handlers s)) s ->
    ((forall k id dl tr b, ~ In (OYield k id dl tr b) l)
     /\ P i R (length (s_handlers s)) St (map h_id (s_handlers s)) s')
    \/ (exists lg id dl tr b hh hs2,
          l = OCalls lg :: OYield (length (s_handlers s)) id dl tr b :: gauges s'
          /\ In (i, id, b) R /\ lreq i R (s_t s')
          /\ s_handlers s' = hs2 ++ [{| h_h := hh; h_id := id; h_st := HYielded |}]
          /\ length hs2 = length (s_handlers s) /\ hsok St hs2
          /\ map h_id hs2 = map h_id (s_handlers s)).
  Proof.
    unfold step. destruct (poll_requests stp tfuel (mkcfg None 100) s) as [s1 l1] eqn:EP.
    intros [= <- <-] H.
    assert (NG : forall (sx : sst) k id dl tr b, ~ In (OYield k id dl tr b) (gauges sx)).
    { intros sx k id dl tr b Hin. unfold gauges in Hin. destruct (s_dropped sx); [exact Hin|].
      destruct Hin as [Hin|Hin]; [discriminate|]. destruct (s_bad sx); [destruct Hin as [Hin|[]]; discriminate|exact Hin]. }
    unfold poll_requests in EP. destruct (s_dropped s).
    { injection EP as <- <-. left. split; [|exact H]. intros k id dl tr b Hin. eapply NG, Hin. }
    destruct (requests_poll_next stp _ _ _) as [r s2] eqn:ER.
    assert (H0 : P i R (length (s_handlers s)) St (map h_id (s_handlers s)) (set_log s []))
      by (revert H; apply P_same; reflexivity).
    pose proof (P_requests_poll_next i R _ St _ _ _ _ _ ER H0) as K.
    destruct r as [q| |a| |]; injection EP as <- <-.
    - right. destruct K as [(A & B & D & DI) KQ].
      exists (rev (s_log s2)), (q_id q), (q_dl q), (q_tr q), (q_body q), (q_h q), (s_handlers s2).
      sproj. split; [rewrite B; reflexivity|]. split; [exact KQ|]. split; [exact A|]. split; [reflexivity|].
      split; [exact B|]. split; [exact D|exact DI].
    - left. split; [|exact K]. intros k id dl tr b Hin. apply in_app_or in Hin.
      destruct Hin as [[Hin|[Hin|[]]]|Hin]; try discriminate. eapply NG, Hin.
    - left. split; [|exact K]. intros k id dl tr b Hin. apply in_app_or in Hin.
      destruct Hin as [[Hin|[Hin|[]]]|Hin]; try discriminate. eapply NG, Hin.
    - left. split; [|exact K]. intros k id dl tr b Hin. apply in_app_or in Hin.
      destruct Hin as [[Hin|[Hin|[]]]|Hin]; try discriminate. eapply NG, Hin.
    - left. split; [|exact K]. intros k id dl tr b Hin. apply in_app_or in Hin.
      destruct Hin as [[Hin|[Hin|[]]]|Hin]; try discriminate. eapply NG, Hin.
  Qed.
End Step.
