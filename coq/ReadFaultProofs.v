From Coq Require Import List NArith Bool.
Import ListNotations.
From TarpcV Require Import Base ReadFault.

Lemma rf_model_ok : forall ids kind, rf_ok ids kind (rf_model ids kind) = true.
Proof.
  intros ids kind; unfold rf_model; induction ids as [|i ids IH]; cbn [map app rf_ok].
  - reflexivity.
  - rewrite N.eqb_refl; exact IH.
Qed.

(* what the monitor demands, spelled out: the trace starts with exactly the delivered messages and
   the very next item is an error *)
Lemma rf_ok_shape : forall ids kind tr, rf_ok ids kind tr = true ->
  exists o i rest, tr = map IRecv ids ++ IErr o i :: rest.
Proof.
  induction ids as [|i ids IH]; intros kind tr H; destruct tr as [|o tr]; cbn [rf_ok] in H;
    try discriminate.
  - destruct o as [| o i | |]; try discriminate. exists o, i, tr; reflexivity.
  - destruct o; try discriminate. apply andb_true_iff in H; destruct H as [E H].
    apply N.eqb_eq in E; subst. destruct (IH _ _ H) as [o [i' [rest ->]]]. exists o, i', rest; reflexivity.
Qed.

(* in particular a clean end-of-stream in place of the failure is rejected *)
Lemma rf_clean_end_rejected : forall ids kind, rf_ok ids kind (map IRecv ids ++ [IEnd]) = false.
Proof.
  intros ids kind; induction ids as [|i ids IH]; cbn [map app rf_ok]; [reflexivity|].
  rewrite N.eqb_refl; exact IH.
Qed.
