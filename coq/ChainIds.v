(* Chain proofs, response integrity, client side: request ids identify the caller's request.
   While request ids do not wrap: every call that holds an id (phases PAcquiring .. PDone) holds
   one below next_id, two such calls hold different ids, and every request that is queued or was
   written under id `id` with body `b` agrees with the call holding `id` (if there still is one):
   that call has body b.  Over the link transport Chain.ctp. *)
From Coq Require Import List Bool Arith NArith Lia.
Import ListNotations.
From TarpcV Require Import Base Transport Client ClientLemmas ClientSimBase ClientProofsG1Frames
  ClientProofsG1Rec ClientWaiters.
From TarpcV Require Server Chain ChainCli ChainWireCli ChainRespCli.

Arguments N.modulo : simpl never.
Arguments N.add : simpl never.

Notation ctp := Chain.ctp.
Notation cst := (@cstate Chain.link).

Definition hasid (p : phase) : bool := match p with PNew | PGone => false | _ => true end.
Lemma hasid_pclass p p' : pclass p = pclass p' -> hasid p = hasid p'.
Proof. destruct p, p'; cbv; intro E; try reflexivity; discriminate. Qed.
Definition cib (k : call) : N * N := (c_id k, c_body k).

Section Ids.
  Implicit Types s : cst.

  Definition agree s (id b : N) : Prop :=
    forall k, In k (calls s) -> hasid (c_phase k) = true -> c_id k = id -> c_body k = b.
  Definition gid s (id b : N) : Prop := (id < next_id s)%N /\ agree s id b.

  Record idc (R : list (N * N)) s : Prop := {
    id_lt : forall k, In k (calls s) -> hasid (c_phase k) = true -> (c_id k < next_id s)%N;
    id_uniq : forall j1 j2 k1 k2, nth_error (calls s) j1 = Some k1 -> nth_error (calls s) j2 = Some k2 ->
                hasid (c_phase k1) = true -> hasid (c_phase k2) = true -> c_id k1 = c_id k2 -> j1 = j2;
    id_q : forall q, In q (queue s) -> gid s (q_id q) (q_body q);
    id_r : forall id b, In (id, b) R -> gid s id b }.

  (* a step that hands out no id: ids and bodies stay, no call acquires an id *)
  Record idle s s' : Prop := {
    il_nid : next_id s' = next_id s;
    il_back : forall j k', nth_error (calls s') j = Some k' -> hasid (c_phase k') = true ->
                exists k, nth_error (calls s) j = Some k /\ hasid (c_phase k) = true
                          /\ c_id k = c_id k' /\ c_body k = c_body k' }.

  Lemma gid_idle s s' id b : idle s s' -> gid s id b -> gid s' id b.
  Proof.
    intros [N B] [L A]. split; [rewrite N; exact L|].
    intros k' Hk' Hh Ei. apply In_nth_error in Hk'. destruct Hk' as [j Ej].
    destruct (B j k' Ej Hh) as (k & Ek & Hk & Eid & Eb). rewrite <- Eb.
    apply A; [eapply nth_error_In, Ek|exact Hk|congruence].
  Qed.
  Lemma idc_idle_core R s s' :
    idle s s' -> idc R s ->
    (forall k, In k (calls s') -> hasid (c_phase k) = true -> (c_id k < next_id s')%N)
    /\ (forall j1 j2 k1 k2, nth_error (calls s') j1 = Some k1 -> nth_error (calls s') j2 = Some k2 ->
          hasid (c_phase k1) = true -> hasid (c_phase k2) = true -> c_id k1 = c_id k2 -> j1 = j2)
    /\ (forall id b, In (id, b) R -> gid s' id b).
  Proof.
    intros I [A B C D]. pose proof I as [N K]. split; [|split].
    - intros k' Hk' Hh. apply In_nth_error in Hk'. destruct Hk' as [j Ej].
      destruct (K j k' Ej Hh) as (k & Ek & Hk & Eid & _). rewrite N, <- Eid.
      apply A; [eapply nth_error_In, Ek|exact Hk].
    - intros j1 j2 k1 k2 E1 E2 H1 H2 Ei.
      destruct (K j1 k1 E1 H1) as (x1 & X1 & Y1 & Z1 & _). destruct (K j2 k2 E2 H2) as (x2 & X2 & Y2 & Z2 & _).
      apply (B j1 j2 x1 x2 X1 X2 Y1 Y2). congruence.
    - intros id b H. eapply gid_idle; [exact I|apply D, H].
  Qed.
  Lemma idc_idle R s s' :
    idle s s' -> (forall q, In q (queue s') -> In q (queue s)) -> idc R s -> idc R s'.
  Proof.
    intros I Q H. destruct (idc_idle_core R s s' I H) as (A & B & D). constructor; try assumption.
    intros q Hq. eapply gid_idle; [exact I|apply (id_q _ _ H), Q, Hq].
  Qed.
  Lemma idc_more R R' s : (forall id b, In (id, b) R' -> In (id, b) R \/ gid s id b) -> idc R s -> idc R' s.
  Proof.
    intros M [A B C D]. constructor; try assumption.
    intros id b H. destruct (M id b H) as [X|X]; [apply D, X|exact X].
  Qed.

  (* from the dispatch: phk *)
  Lemma idle_phk s s' : phk s s' -> next_id s' = next_id s -> idle s s'.
  Proof.
    intros (L & K & IB) N. constructor; [exact N|].
    intros j k' E' Hh. assert (Lj : j < length (calls s)) by (rewrite <- L; apply nth_error_Some; congruence).
    destruct (nth_error (calls s) j) as [k|] eqn:E; [|apply nth_error_None in E; lia].
    destruct (IB j k E) as (k2 & E2 & Ei & Eb & Pa). rewrite E' in E2. injection E2 as <-.
    exists k. split; [reflexivity|]. split; [|split; congruence].
    destruct (c_phase k) eqn:EP; try reflexivity.
    - assert (X : ph s' j = ph s j) by (apply K; unfold ph; rewrite E; cbn; rewrite EP; discriminate).
      unfold ph in X. rewrite E', E in X. cbn in X. injection X as X. rewrite X, EP in Hh. exact Hh.
    - assert (X : ph s' j = ph s j) by (apply K; unfold ph; rewrite E; cbn; rewrite EP; discriminate).
      unfold ph in X. rewrite E', E in X. cbn in X. injection X as X. rewrite X, EP in Hh. exact Hh.
  Qed.

  (* ---------------------------------------------------------------- ids and bodies of the calls *)
  Lemma cib_set_phase s i p : map cib (calls (set_phase s i p)) = map cib (calls s).
  Proof.
    unfold set_phase. destruct (nth_error (calls s) i) as [c|] eqn:E; [|reflexivity].
    cbn [calls upd_calls]. apply (map_set_nth_same cib i c _ (calls s) E). reflexivity.
  Qed.
  Lemma cib_T s s' : TFrame s s' -> map cib (calls s') = map cib (calls s).
  Proof. intro F. rewrite (tf_calls _ _ F). reflexivity. Qed.
  Lemma cib_push_cancel s id : map cib (calls (push_cancel s id)) = map cib (calls s).
  Proof. unfold push_cancel. destruct (dropped s); reflexivity. Qed.
  Lemma cib_release_permit s : map cib (calls (release_permit s)) = map cib (calls s).
  Proof. unfold release_permit. destruct (waiters s); [reflexivity|]. rewrite cib_set_phase. reflexivity. Qed.
  Lemma cib_poll_slot s i id : map cib (calls (snd (poll_slot s i id))) = map cib (calls s).
  Proof.
    unfold poll_slot. destruct (sl_val _); cbn [snd].
    - rewrite cib_set_phase. apply cib_T, TFrame_slot_rx_close.
    - destruct (sl_tx_gone _); cbn [snd]; [|reflexivity]. rewrite cib_set_phase. apply cib_T, TFrame_slot_rx_close.
  Qed.
  Lemma cib_fail_shutdown s i id : map cib (calls (snd (fail_shutdown s i id))) = map cib (calls s).
  Proof.
    unfold fail_shutdown. cbn [snd]. rewrite cib_set_phase, cib_push_cancel.
    rewrite (cib_T _ _ (TFrame_slot_rx_close _ _)). apply cib_T, TFrame_slot_tx_drop.
  Qed.
  Lemma cib_enqueue s i c id tc : map cib (calls (snd (enqueue s i c id tc))) = map cib (calls s).
  Proof. unfold enqueue. rewrite cib_poll_slot, cib_set_phase. reflexivity. Qed.
  Lemma cib_guard_close s i : map cib (calls (guard_close s i)) = map cib (calls s).
  Proof.
    unfold guard_close. destruct (nth_error (calls s) i) as [c|]; [|reflexivity].
    destruct (c_phase c); try reflexivity; rewrite ?cib_set_phase;
      rewrite ?(cib_T _ _ (TFrame_slot_rx_close _ _)), ?(cib_T _ _ (TFrame_slot_tx_drop _ _)); try reflexivity.
    destruct (rx_closed _); [cbn [calls upd_q]|rewrite cib_release_permit]; apply cib_set_phase.
  Qed.
  Lemma cib_guard_cancel s i : map cib (calls (guard_cancel s i)) = map cib (calls s).
  Proof.
    unfold guard_cancel. destruct (nth_error (calls s) i) as [c|]; [|reflexivity].
    destruct (c_phase c); try reflexivity. rewrite cib_set_phase. apply cib_push_cancel.
  Qed.

  Lemma cib_nth s s' j k' :
    map cib (calls s') = map cib (calls s) -> nth_error (calls s') j = Some k' ->
    exists k, nth_error (calls s) j = Some k /\ c_id k = c_id k' /\ c_body k = c_body k'.
  Proof.
    intros E E'. assert (X : nth_error (map cib (calls s)) j = Some (cib k')) by (rewrite <- E, nth_error_map, E'; reflexivity).
    rewrite nth_error_map in X. destruct (nth_error (calls s) j) as [k|]; [|discriminate].
    cbn in X. injection X as X1 X2. exists k. auto.
  Qed.

  (* the shape of a user-side step: same ids and bodies, phase classes of the other calls kept *)
  Lemma idle_user s s' i :
    next_id s' = next_id s -> map cib (calls s') = map cib (calls s) -> Ch i s s' ->
    (forall p, ph s' i = Some p -> hasid p = true -> exists p0, ph s i = Some p0 /\ hasid p0 = true) ->
    idle s s'.
  Proof.
    intros N E [_ _ CO] HI. constructor; [exact N|]. intros j k' E' Hh.
    destruct (cib_nth _ _ _ _ E E') as (k & Ek & Ei & Eb). exists k. split; [exact Ek|]. split; [|auto].
    destruct (Nat.eq_dec j i) as [->|Ne].
    - destruct (HI (c_phase k')) as (p0 & E0 & H0); [unfold ph; rewrite E'; reflexivity|exact Hh|].
      unfold ph in E0. rewrite Ek in E0. cbn in E0. injection E0 as ->. exact H0.
    - pose proof (CO j Ne) as X. unfold cls in X. rewrite !nth_error_map, E', Ek in X. cbn in X.
      assert (X' : pclass (c_phase k) = pclass (c_phase k')) by congruence.
      rewrite (hasid_pclass _ _ X'). exact Hh.
  Qed.

  (* ---------------------------------------------------------------- the queue under a poll *)
  Notation call_id := ChainRespCli.call_id.
  Lemma queue_enqueue s i c id tc :
    queue (snd (enqueue s i c id tc))
    = queue s ++ [{| q_id := id; q_deadline := c_deadline c; q_tc := tc; q_body := c_body c |}].
  Proof. unfold enqueue. rewrite ChainWireCli.queue_poll_slot, ChainCli.queue_set_phase. reflexivity. Qed.

  Lemma queue_poll_call s i c :
    nth_error (calls s) i = Some c ->
    queue (snd (poll_call s i)) = queue s \/
    exists tc, queue (snd (poll_call s i))
               = queue s ++ [{| q_id := call_id s c; q_deadline := c_deadline c; q_tc := tc; q_body := c_body c |}].
  Proof.
    intro E. unfold poll_call, call_id. rewrite E. destruct (c_phase c); try (left; reflexivity).
    - set (s0 := with_id _ i c (next_id s)). set (s1 := set_slot s0 (next_id s) slot0).
      destruct (rx_closed s1); [left; rewrite ChainWireCli.queue_fail_shutdown; reflexivity|].
      destruct (permits s1) as [|p].
      + left. cbn [snd]. rewrite ChainCli.queue_set_phase. reflexivity.
      + right. eexists. rewrite queue_enqueue. reflexivity.
    - destruct (rx_closed s).
      + left. rewrite ChainWireCli.queue_fail_shutdown. reflexivity.
      + right. eexists. apply queue_enqueue.
    - left. apply ChainWireCli.queue_fail_shutdown.
    - left. apply ChainWireCli.queue_poll_slot.
  Qed.

  (* ---------------------------------------------------------------- next_id under a poll *)
  Lemma nid_set_phase s i p : next_id (set_phase s i p) = next_id s.
  Proof. unfold set_phase. destruct (nth_error _ _); reflexivity. Qed.
  Lemma nid_T s s' : TFrame s s' -> next_id s' = next_id s.
  Proof. intro F. apply (pf_nid _ _ (TFrame_P _ _ F)). Qed.
  Lemma nid_push_cancel s id : next_id (push_cancel s id) = next_id s.
  Proof. unfold push_cancel. destruct (dropped s); reflexivity. Qed.
  Lemma nid_release_permit s : next_id (release_permit s) = next_id s.
  Proof. unfold release_permit. destruct (waiters s); [reflexivity|]. rewrite nid_set_phase. reflexivity. Qed.
  Lemma nid_poll_slot s i id : next_id (snd (poll_slot s i id)) = next_id s.
  Proof.
    unfold poll_slot. destruct (sl_val _); cbn [snd].
    - rewrite nid_set_phase. apply nid_T, TFrame_slot_rx_close.
    - destruct (sl_tx_gone _); cbn [snd]; [|reflexivity]. rewrite nid_set_phase. apply nid_T, TFrame_slot_rx_close.
  Qed.
  Lemma nid_fail_shutdown s i id : next_id (snd (fail_shutdown s i id)) = next_id s.
  Proof.
    unfold fail_shutdown. cbn [snd]. rewrite nid_set_phase, nid_push_cancel.
    rewrite (nid_T _ _ (TFrame_slot_rx_close _ _)). apply nid_T, TFrame_slot_tx_drop.
  Qed.
  Lemma nid_enqueue s i c id tc : next_id (snd (enqueue s i c id tc)) = next_id s.
  Proof. unfold enqueue. rewrite nid_poll_slot, nid_set_phase. reflexivity. Qed.
  Lemma nid_guard_close s i : next_id (guard_close s i) = next_id s.
  Proof.
    unfold guard_close. destruct (nth_error (calls s) i) as [c|]; [|reflexivity].
    destruct (c_phase c); try reflexivity; rewrite ?nid_set_phase;
      rewrite ?(nid_T _ _ (TFrame_slot_rx_close _ _)), ?(nid_T _ _ (TFrame_slot_tx_drop _ _)); try reflexivity.
    destruct (rx_closed _); [cbn [next_id upd_q]|rewrite nid_release_permit]; apply nid_set_phase.
  Qed.
  Lemma nid_guard_cancel s i : next_id (guard_cancel s i) = next_id s.
  Proof.
    unfold guard_cancel. destruct (nth_error (calls s) i) as [c|]; [|reflexivity].
    destruct (c_phase c); try reflexivity. rewrite nid_set_phase. apply nid_push_cancel.
  Qed.

  Lemma map_set_nth {A B} (f : A -> B) i x (l : list A) : map f (set_nth i x l) = set_nth i (f x) (map f l).
  Proof. revert i; induction l as [|y r IH]; intros [|i]; cbn; try reflexivity. rewrite IH. reflexivity. Qed.

  (* what a poll of call i does to next_id and to the ids / bodies of the call table *)
  Lemma poll_call_ids s i c :
    nth_error (calls s) i = Some c ->
    let s' := snd (poll_call s i) in
    match c_phase c with
    | PNew =>
      next_id s' = N.modulo (next_id s + 1) 18446744073709551616
      /\ map cib (calls s') = set_nth i (next_id s, c_body c) (map cib (calls s))
    | _ => next_id s' = next_id s /\ map cib (calls s') = map cib (calls s)
    end.
  Proof.
    intro E. unfold poll_call. rewrite E. destruct (c_phase c); cbn [snd]; try (split; reflexivity).
    - set (s0 := with_id _ i c (next_id s)). set (s1 := set_slot s0 (next_id s) slot0).
      assert (N1 : next_id s1 = N.modulo (next_id s + 1) 18446744073709551616) by reflexivity.
      assert (C1 : map cib (calls s1) = set_nth i (next_id s, c_body c) (map cib (calls s))).
      { unfold s1, s0, with_id. cbn [calls set_slot upd_slots upd_calls upd_misc]. rewrite map_set_nth. reflexivity. }
      destruct (rx_closed s1); [rewrite nid_fail_shutdown, cib_fail_shutdown; split; assumption|].
      destruct (permits s1) as [|p].
      + cbn [snd]. rewrite nid_set_phase, cib_set_phase. split; assumption.
      + rewrite nid_enqueue, cib_enqueue. split; assumption.
    - destruct (rx_closed s).
      + rewrite nid_fail_shutdown, cib_fail_shutdown. split; reflexivity.
      + rewrite nid_enqueue, cib_enqueue. split; reflexivity.
    - rewrite nid_fail_shutdown, cib_fail_shutdown. split; reflexivity.
    - rewrite nid_poll_slot, cib_poll_slot. split; reflexivity.
  Qed.

  (* ---------------------------------------------------------------- polling call i *)
  Lemma idc_poll_call R s i :
    (next_id s + 1 < two64)%N -> idc R s -> idc R (snd (poll_call s i)).
  Proof.
    intros NW H. destruct (nth_error (calls s) i) as [c|] eqn:E.
    2: { unfold poll_call. rewrite E. exact H. }
    pose proof (poll_call_ids s i c E) as PI. pose proof (queue_poll_call s i c E) as PQ.
    destruct (poll_call s i) as [r s'] eqn:EP. cbn [snd] in *.
    destruct (poll_call_eff _ _ _ _ EP) as [CH PE]. pose proof CH as [_ CL CO].
    unfold pc_eff, ph in PE. rewrite E in PE. cbn [option_map] in PE.
    destruct (Bool.bool_dec (hasid (c_phase c)) true) as [HC|HC].
    - (* the call already holds its id (or is over): nothing is handed out *)
      assert (PI' : next_id s' = next_id s /\ map cib (calls s') = map cib (calls s))
        by (destruct (c_phase c); try exact PI; discriminate).
      destruct PI' as [N C].
      assert (I : idle s s').
      { apply (idle_user s s' i N C CH). intros p Ep Hp. exists (c_phase c). split; [unfold ph; rewrite E; reflexivity|exact HC]. }
      destruct (idc_idle_core R s s' I H) as (A & B & D). constructor; try assumption.
      intros q Hq. destruct PQ as [PQ|(tc & PQ)]; rewrite PQ in Hq; [eapply gid_idle; [exact I|apply (id_q _ _ H), Hq]|].
      apply in_app_or in Hq. destruct Hq as [Hq|[<-|[]]]; [eapply gid_idle; [exact I|apply (id_q _ _ H), Hq]|].
      cbn [q_id q_body]. assert (EC : call_id s c = c_id c) by (unfold call_id; destruct (c_phase c); try reflexivity; discriminate).
      rewrite EC. eapply gid_idle; [exact I|]. split.
      + apply (id_lt _ _ H c (nth_error_In _ _ E) HC).
      + intros k Hk Hh Ei. apply In_nth_error in Hk. destruct Hk as [j Ej].
        rewrite (id_uniq _ _ H j i k c Ej E Hh HC Ei) in Ej. congruence.
    - (* PNew (PGone: nothing happens) *)
      destruct (c_phase c) eqn:EPh; try (exfalso; apply HC; reflexivity).
      2: { (* PGone *) unfold poll_call in EP. rewrite E, EPh in EP. injection EP as _ <-. exact H. }
      destruct PI as [N C]. rewrite N.mod_small in N by exact NW.
      set (id := next_id s) in *.
      assert (Li : i < length (calls s)) by (apply nth_error_Some; congruence).
      (* a call of s' against s *)
      assert (BK : forall j k', nth_error (calls s') j = Some k' ->
                   (j = i /\ c_id k' = id /\ c_body k' = c_body c) \/
                   (j <> i /\ exists k, nth_error (calls s) j = Some k /\ c_id k = c_id k' /\ c_body k = c_body k'
                               /\ hasid (c_phase k) = hasid (c_phase k'))).
      { intros j k' E'.
        assert (X0 : nth_error (set_nth i (id, c_body c) (map cib (calls s))) j = Some (cib k'))
          by (rewrite <- C, nth_error_map, E'; reflexivity).
        destruct (Nat.eq_dec j i) as [->|Ne].
        - left. rewrite nth_error_set_nth_same in X0 by (rewrite map_length; exact Li).
          injection X0 as X1 X2. auto.
        - right. split; [exact Ne|]. rewrite nth_error_set_nth_other, nth_error_map in X0 by congruence.
          destruct (nth_error (calls s) j) as [k|] eqn:Ek; [|discriminate]. cbn in X0. injection X0 as Ei Eb.
          exists k. repeat split; try assumption.
          pose proof (CO j Ne) as X. unfold cls in X. rewrite !nth_error_map, E', Ek in X. cbn in X.
          apply hasid_pclass. congruence. }
      assert (LT : forall k, In k (calls s) -> hasid (c_phase k) = true -> (c_id k < id)%N) by apply H.
      assert (AG : forall id0 b, gid s id0 b -> gid s' id0 b).
      { intros id0 b [L A]. split; [rewrite N; lia|]. intros k' Hk' Hh Ei.
        apply In_nth_error in Hk'. destruct Hk' as [j Ej]. destruct (BK j k' Ej) as [(-> & Ei' & _)|(_ & k & Ek & Eik & Ebk & Ehk)].
        - lia.
        - rewrite <- Ebk. apply A; [eapply nth_error_In, Ek|congruence|congruence]. }
      constructor.
      + intros k' Hk' Hh. apply In_nth_error in Hk'. destruct Hk' as [j Ej]. rewrite N.
        destruct (BK j k' Ej) as [(-> & Ei' & _)|(_ & k & Ek & Eik & _ & Ehk)]; [lia|].
        rewrite <- Eik. pose proof (LT k (nth_error_In _ _ Ek)) as X. rewrite Ehk in X. specialize (X Hh). lia.
      + intros j1 j2 k1 k2 E1 E2 H1 H2 Ei.
        destruct (BK j1 k1 E1) as [(-> & Ei1 & _)|(N1 & x1 & X1 & Y1 & _ & Z1)];
          destruct (BK j2 k2 E2) as [(-> & Ei2 & _)|(N2 & x2 & X2 & Y2 & _ & Z2)]; try reflexivity.
        * exfalso. pose proof (LT x2 (nth_error_In _ _ X2)) as X. rewrite Z2 in X. specialize (X H2). lia.
        * exfalso. pose proof (LT x1 (nth_error_In _ _ X1)) as X. rewrite Z1 in X. specialize (X H1). lia.
        * apply (id_uniq _ _ H j1 j2 x1 x2 X1 X2); congruence.
      + intros q Hq. destruct PQ as [PQ|(tc & PQ)]; rewrite PQ in Hq; [apply AG, (id_q _ _ H), Hq|].
        apply in_app_or in Hq. destruct Hq as [Hq|[<-|[]]]; [apply AG, (id_q _ _ H), Hq|].
        cbn [q_id q_body]. unfold call_id. rewrite EPh. fold id. split; [rewrite N; lia|].
        intros k' Hk' Hh Ei. apply In_nth_error in Hk'. destruct Hk' as [j Ej].
        destruct (BK j k' Ej) as [(_ & _ & Eb)|(_ & k & Ek & Eik & _ & Ehk)]; [exact Eb|].
        exfalso. pose proof (LT k (nth_error_In _ _ Ek)) as X. rewrite Ehk in X. specialize (X Hh). lia.
      + intros id0 b Hr. apply AG, (id_r _ _ H), Hr.
  Qed.

  (* dropping call i *)
  Lemma idc_drop_call R s i :
    winv s -> idc R s ->
    idc R (match option_map c_phase (nth_error (calls s) i) with
           | Some PClosing => s
           | _ => guard_cancel (guard_close s i) i
           end).
  Proof.
    intros W H.
    assert (G : idc R (guard_cancel (guard_close s i) i)).
    { destruct (guard_close_eff s i W) as [C1 P1]. destruct (guard_cancel_eff (guard_close s i) i) as [C2 P2].
      apply (idc_idle R s);
        [|intros q Hq; rewrite ChainWireCli.queue_guard_cancel, ChainWireCli.queue_guard_close in Hq; exact Hq|exact H].
      apply (idle_user s _ i);
        [rewrite nid_guard_cancel; apply nid_guard_close|rewrite cib_guard_cancel; apply cib_guard_close
        |eapply Ch_trans; eassumption|].
      intros p Ep Hp. rewrite P2, P1 in Ep. destruct (ph s i) as [p0|] eqn:E0; [|discriminate].
      exists p0. split; [reflexivity|]. destruct p0; cbn in Ep; injection Ep as <-; try reflexivity; discriminate. }
    destruct (option_map c_phase (nth_error (calls s) i)) as [[]|]; try exact G; exact H.
  Qed.

  (* a new call (Client.Call, Chain.mk_call): no id yet *)
  Lemma idc_add_call R s k : c_phase k = PNew \/ c_phase k = PGone -> idc R s -> idc R (upd_calls s (calls s ++ [k])).
  Proof.
    intros HK H. apply (idc_idle R s); [|intros q Hq; exact Hq|exact H].
    constructor; [reflexivity|]. intros j k' E' Hh. cbn [calls upd_calls] in E'.
    destruct (Nat.lt_ge_cases j (length (calls s))) as [L|G].
    - rewrite nth_error_app1 in E' by exact L. exists k'. auto.
    - rewrite nth_error_app2 in E' by exact G. destruct (j - length (calls s)) as [|n]; cbn in E'.
      + injection E' as <-. destruct HK as [X|X]; rewrite X in Hh; discriminate.
      + destruct n; discriminate.
  Qed.
End Ids.

(* ------------------------------------------------------------------------------------------ *)
(* the dispatch: what it writes comes out of the queue *)
Section Disp.
  Variable G : N -> N -> Prop.
  Implicit Types s : cst.

  Record dq s : Prop := {
    dq_q : forall q, In q (queue s) -> G (q_id q) (q_body q);
    dq_w : forall id dl tc b r, In (CSend (MReq id dl tc b) r) (plog s) -> G id b }.

  Lemma dq_sub s s' : plog s' = plog s -> incl (queue s') (queue s) -> dq s -> dq s'.
  Proof. intros E1 E2 [A B]. constructor; [intros q Hq; apply A, E2, Hq|rewrite E1; exact B]. Qed.
  Lemma dq_T s s' : TFrame s s' -> dq s -> dq s'.
  Proof. intro F. apply dq_sub; [apply (if_plog _ _ (tf_i _ _ F))|rewrite (tf_queue _ _ F); apply incl_refl]. Qed.
  Lemma dq_C s s' : CFrame s s' -> dq s -> dq s'.
  Proof. intro F. apply dq_sub; [apply (if_plog _ _ (cf_i _ _ F))|rewrite (cf_queue _ _ F); apply incl_refl]. Qed.
  Lemma dq_log s s' c :
    XFrame s s' -> plog s' = plog s ++ [c] ->
    (forall id dl tc b r, c = CSend (MReq id dl tc b) r -> G id b) -> dq s -> dq s'.
  Proof.
    intros F E HC [A B]. constructor.
    - intros q Hq. apply A. rewrite <- (xf_queue _ _ F). exact Hq.
    - intros id dl tc b r Hin. rewrite E in Hin. apply in_app_or in Hin.
      destruct Hin as [Hin|[Hin|[]]]; [eapply B, Hin|eapply HC; exact Hin].
  Qed.

  Lemma dq_do_ready s r s' : do_ready ctp s = (r, s') -> dq s -> dq s'.
  Proof.
    intro E. apply (dq_log s s' (CReady r)); [eapply XFrame_do_ready, E| |intros; discriminate].
    unfold do_ready in E. destruct (t_ready ctp (tr s)). injection E as <- <-. reflexivity.
  Qed.
  Lemma dq_do_flush s r s' : do_flush ctp s = (r, s') -> dq s -> dq s'.
  Proof.
    intro E. apply (dq_log s s' (CFlush r)); [eapply XFrame_do_flush, E| |intros; discriminate].
    unfold do_flush in E. destruct (t_flush ctp (tr s)). injection E as <- <-. reflexivity.
  Qed.
  Lemma dq_do_close s r s' : do_close ctp s = (r, s') -> dq s -> dq s'.
  Proof.
    intro E. apply (dq_log s s' (CClose r)); [eapply XFrame_do_close, E| |intros; discriminate].
    unfold do_close in E. destruct (t_close ctp (tr s)). injection E as <- <-. reflexivity.
  Qed.
  Lemma dq_do_next s r s' : do_next ctp s = (r, s') -> dq s -> dq s'.
  Proof.
    intros E H. pose proof (XFrame_do_next ctp _ _ _ E) as F.
    unfold do_next in E. destruct (fused s); [injection E as <- <-; exact H|].
    destruct (t_next ctp (tr s)) as [r0 t0]. injection E as <- <-.
    apply (dq_log s _ (CNext r0)); [exact F|reflexivity|intros; discriminate|exact H].
  Qed.
  Lemma dq_do_send s m r s' :
    do_send ctp s m = (r, s') -> (forall id dl tc b, m = MReq id dl tc b -> G id b) -> dq s -> dq s'.
  Proof.
    intros E HM. apply (dq_log s s' (CSend m r)); [eapply XFrame_do_send, E| |].
    - unfold do_send in E. destruct (t_send ctp (tr s) m). injection E as <- <-. reflexivity.
    - intros id dl tc b r0 [= -> _]. eapply HM. reflexivity.
  Qed.
  Lemma dq_ensure_writeable s r s' : ensure_writeable ctp s = (r, s') -> dq s -> dq s'.
  Proof.
    intros E H. apply ensure_writeable_inv in E.
    destruct E as [r1 s1 E1 _|s1 s2 E1 E2|s1 s2 E1 E2|s1 s2 r3 s3 E1 E2 E3].
    - eapply dq_do_ready; eassumption.
    - eapply dq_do_flush; [eassumption|]. eapply dq_do_ready; eassumption.
    - eapply dq_do_flush; [eassumption|]. eapply dq_do_ready; eassumption.
    - eapply dq_do_ready; [eassumption|]. eapply dq_do_flush; [eassumption|]. eapply dq_do_ready; eassumption.
  Qed.

  Lemma dq_q_poll_recv s r s' :
    q_poll_recv s = (r, s') -> dq s ->
    dq s' /\ match r with RvSome q => G (q_id q) (q_body q) | _ => True end.
  Proof.
    unfold q_poll_recv. destruct (queue s) as [|x rest] eqn:Q.
    - destruct (Nat.eqb _ _); [intros [= <- <-]; auto|]. destruct (_ && _); intros [= <- <-]; auto.
    - intros [= <- <-] H. split; [|apply H; rewrite Q; left; reflexivity].
      set (s1 := upd_q s (permits s) rest (waiters s) (rx_closed s)).
      pose proof (QFrame_release_permit s1) as F.
      eapply dq_sub; [| |exact H].
      + rewrite (if_plog _ _ (qf_i _ _ F)). reflexivity.
      + rewrite queue_release_permit. cbn [queue upd_q s1]. rewrite Q. intros y Hy. right. exact Hy.
  Qed.
  Lemma dq_next_request_loop f : forall s r s',
    next_request_loop f s = (r, s') -> dq s ->
    dq s' /\ match r with PSome q => G (q_id q) (q_body q) | _ => True end.
  Proof.
    induction f as [|f IH]; intros s r s'; cbn [next_request_loop]; [intros [= <- <-]; auto|].
    destruct (q_poll_recv s) as [x s1] eqn:E. intros H0 H.
    destruct (dq_q_poll_recv _ _ _ E H) as [H1 Hq].
    destruct x as [q| |]; try (injection H0 as <- <-; auto).
    destruct (sl_rx_closed _).
    - eapply IH; [exact H0|]. eapply dq_T; [apply TFrame_slot_tx_drop|exact H1].
    - injection H0 as <- <-. auto.
  Qed.
  Lemma dq_poll_write_request s r s' : poll_write_request ctp s = (r, s') -> dq s -> dq s'.
  Proof.
    intros E H. apply poll_write_request_inv in E.
    destruct E as [_|r1 s1 _ E1 _|r1 s1 s2 _ E1 E2 _|s1 q s2 w s3 _ E1 E2 E3].
    - exact H.
    - eapply dq_ensure_writeable; eassumption.
    - eapply dq_next_request_loop; [eassumption|]. eapply dq_ensure_writeable; eassumption.
    - destruct (dq_next_request_loop _ _ _ _ E2 (dq_ensure_writeable _ _ _ E1 H)) as [H2 Gq].
      assert (H3 : dq s3).
      { eapply dq_do_send; [exact E3| |eapply dq_T; [apply TFrame_insert_request|exact H2]].
        unfold req_msg. intros id dl tc b [= <- _ _ <-]. exact Gq. }
      destruct w; [exact H3|]. eapply dq_T; [apply TFrame_complete_request|exact H3].
  Qed.
  Lemma dq_poll_write_cancel s r s' : poll_write_cancel ctp s = (r, s') -> dq s -> dq s'.
  Proof.
    intros E H. apply poll_write_cancel_inv in E.
    destruct E as [r1 s1 E1 _|r1 s1 s2 E1 E2 _|s1 id e s2 w s3 E1 E2 E3].
    - eapply dq_ensure_writeable; eassumption.
    - pose proof (CFrame_next_cancel_loop (S (length (cancels s1))) s1) as F. rewrite E2 in F.
      eapply dq_C; [exact F|]. eapply dq_ensure_writeable; eassumption.
    - pose proof (CFrame_next_cancel_loop (S (length (cancels s1))) s1) as F. rewrite E2 in F.
      eapply dq_do_send; [exact E3|intros; discriminate|]. eapply dq_C; [exact F|]. eapply dq_ensure_writeable; eassumption.
  Qed.
  Lemma dq_pump_write s r s' : pump_write ctp s = (r, s') -> dq s -> dq s'.
  Proof.
    intros E H. apply pump_write_inv in E.
    assert (PE : forall a e b, poll_expired a = (e, b) -> dq a -> dq b).
    { intros a e b Ee Ha. pose proof (TFrame_poll_expired a) as F. rewrite Ee in F. eapply dq_T; eassumption. }
    destruct E as [a s1 E1|u s1 E1|r1 s1 a s2 E1 _ E2|r1 s1 u s2 E1 _ E2
                  |r1 s1 r2 s2 id s3 E1 _ E2 _ E3|s1 s2 s3 c s4 E1 E2 E3 E4
                  |r1 s1 r2 s2 s3 f s4 E1 _ E2 _ _ E3 E4].
    - eapply dq_poll_write_request; eassumption.
    - eapply dq_poll_write_request; eassumption.
    - eapply dq_poll_write_cancel; [eassumption|]. eapply dq_poll_write_request; eassumption.
    - eapply dq_poll_write_cancel; [eassumption|]. eapply dq_poll_write_request; eassumption.
    - eapply PE; [eassumption|]. eapply dq_poll_write_cancel; [eassumption|]. eapply dq_poll_write_request; eassumption.
    - eapply dq_do_close; [eassumption|]. eapply PE; [eassumption|].
      eapply dq_poll_write_cancel; [eassumption|]. eapply dq_poll_write_request; eassumption.
    - eapply dq_do_flush; [eassumption|]. eapply PE; [eassumption|].
      eapply dq_poll_write_cancel; [eassumption|]. eapply dq_poll_write_request; eassumption.
  Qed.
  Lemma dq_pump_read s r s' : pump_read ctp s = (r, s') -> dq s -> dq s'.
  Proof.
    intros E H. apply pump_read_inv in E. destruct E as (x & s1 & E1 & _ & ->).
    pose proof (dq_do_next _ _ _ E1 H) as H1.
    destruct x; try exact H1. eapply dq_T; [apply TFrame_complete|exact H1].
  Qed.
  Lemma dq_run_loop f : forall s r s', run_loop ctp f s = (r, s') -> dq s -> dq s'.
  Proof.
    induction f as [|f IH]; intros s r s' E H; [cbn in E; injection E as <- <-; exact H|].
    apply run_loop_inv in E.
    destruct E as [a s1 E1|rd s1 a s2 E1 _ E2|s1 wr s2 E1 E2 _|rd s1 s2 E1 _ E2 _
                  |s1 wr s2 E1 E2 _|rd s1 wr s2 r s3 E1 E2 _ E3].
    - eapply dq_pump_read; eassumption.
    - eapply dq_pump_write; [eassumption|]. eapply dq_pump_read; eassumption.
    - eapply dq_pump_write; [eassumption|]. eapply dq_pump_read; eassumption.
    - eapply dq_pump_write; [eassumption|]. eapply dq_pump_read; eassumption.
    - eapply dq_pump_write; [eassumption|]. eapply dq_pump_read; eassumption.
    - eapply IH; [eassumption|]. eapply dq_pump_write; [eassumption|]. eapply dq_pump_read; eassumption.
  Qed.
  Lemma dq_drain_loop f a : forall s, dq s -> dq (snd (drain_loop f a s)).
  Proof.
    induction f as [|f IH]; intros s H; cbn [drain_loop]; [exact H|].
    destruct (q_poll_recv s) as [x s1] eqn:E. destruct (dq_q_poll_recv _ _ _ E H) as [H1 _].
    destruct x; cbn [snd]; try exact H1. apply IH. eapply dq_T; [apply TFrame_slot_send|exact H1].
  Qed.
  Lemma dq_shut_down s a : dq s -> dq (snd (shut_down s a)).
  Proof.
    intro H. unfold shut_down. apply dq_drain_loop. eapply dq_T; [apply TFrame_complete_all|].
    pose proof (QFrame_q_close s) as F. eapply dq_sub; [| |exact H].
    - apply (if_plog _ _ (qf_i _ _ F)).
    - rewrite ChainWireCli.queue_q_close. apply incl_refl.
  Qed.
  Lemma dq_poll_dispatch f s r s' : poll_dispatch ctp f s = (r, s') -> dq s -> dq s'.
  Proof.
    unfold poll_dispatch. intros E H. destruct (terminal s) as [a|].
    - pose proof (dq_shut_down s a H) as K. destruct (shut_down s a) as [b s1].
      destruct b; injection E as <- <-; exact K.
    - destruct (run_loop ctp f s) as [rr s1] eqn:Er. pose proof (dq_run_loop _ _ _ _ Er H) as H1.
      destruct rr; try (injection E as <- <-; exact H1).
      assert (H2 : dq (upd_term s1 (Some a))) by (eapply dq_sub; [..|exact H1]; [reflexivity|apply incl_refl]).
      pose proof (dq_shut_down _ a H2) as K. destruct (shut_down _ a) as [b s3].
      destruct b; injection E as <- <-; exact K.
  Qed.
End Disp.

Definition writes (l : list (tcall cmsg resp)) : list (N * N) :=
  flat_map (fun c => match c with CSend (MReq id _ _ b) SOk => [(id, b)] | _ => [] end) l.

Section DispIds.
  Implicit Types s : cst.
  Variable fuel_of : cst -> nat.

  Lemma nid_poll_dispatch f s r s' : poll_dispatch ctp f s = (r, s') -> next_id s' = next_id s.
  Proof.
    unfold poll_dispatch. destruct (terminal s) as [a|].
    - pose proof (PFrame_shut_down s a) as F. destruct (shut_down s a) as [b s1].
      specialize (F _ _ eq_refl). destruct b; intros [= <- <-]; apply F.
    - destruct (run_loop ctp f s) as [rr s1] eqn:Er. pose proof (PFrame_run_loop _ _ _ _ _ Er) as F1.
      destruct rr; try (intros [= <- <-]; apply F1).
      pose proof (PFrame_shut_down (upd_term s1 (Some a)) a) as F. destruct (shut_down _ a) as [b s3].
      specialize (F _ _ eq_refl). destruct b; intros [= <- <-]; rewrite (pf_nid _ _ F); apply F1.
  Qed.

  (* one dispatch poll: what it reports as written joins the requests the ids answer for *)
  Lemma idc_step_dispatch R s s' os :
    step ctp fuel_of s PollDispatch = (s', os) -> winv s -> idc R s ->
    (os = [] /\ idc R s') \/
    (exists l r a b, os = [OCalls l; ODisp r; OGauge a b] /\ idc (writes l ++ R) s').
  Proof.
    cbn [step]. intros E W H.
    destruct (finished s); [injection E as <- <-; left; split; [reflexivity|exact H]|].
    destruct (dropped s); [injection E as <- <-; left; split; [reflexivity|exact H]|].
    set (s0 := upd_tr s (tr s) (fused s) []) in *.
    assert (W0 : winv s0) by (eapply winv_frame; [exact W|reflexivity..]).
    assert (D0 : dq (gid s0) s0).
    { constructor; [intros q Hq; apply (id_q _ _ H q Hq)|intros id dl tc b r0 []]. }
    destruct (poll_dispatch ctp (fuel_of s0) s0) as [r s1] eqn:Ep.
    pose proof (dq_poll_dispatch _ _ _ _ _ Ep D0) as [DQ DW].
    assert (I : idle s0 s1).
    { apply idle_phk; [eapply phk_poll_dispatch; eassumption|eapply nid_poll_dispatch, Ep]. }
    assert (H0 : idc R s0) by (destruct H as [A B C D]; constructor; assumption).
    destruct (idc_idle_core R s0 s1 I H0) as (A1 & B1 & D1).
    injection E as <- <-. right. unfold gauges. eexists _, _, _, _. split; [reflexivity|].
    assert (K : idc (writes (plog s1) ++ R) s1).
    { constructor; try assumption.
      - intros q Hq. eapply gid_idle; [exact I|apply DQ, Hq].
      - intros id b Hin. apply in_app_or in Hin. destruct Hin as [Hin|Hin]; [|apply D1, Hin].
        unfold writes in Hin. apply in_flat_map in Hin. destruct Hin as (c & Hc & Hin).
        destruct c as [|m w| | |]; try destruct Hin. destruct m as [id' dl tc b'|]; [|destruct Hin].
        destruct w; [|destruct Hin]. destruct Hin as [[= <- <-]|[]].
        eapply gid_idle; [exact I|eapply DW, Hc]. }
    destruct K as [A B C D]. constructor; destruct r; assumption.
  Qed.
End DispIds.
