(* Server proofs, engineer C, part 2b: C09 (server half), stmt_s_v09 and stmt_s09, from the two
   consequences NeedH of the hypothesis-dependent invariant (ServerProofsPC0.v). *)
From Coq Require Import List Bool Arith NArith Lia.
Import ListNotations.
From TarpcV Require Import Base Transport TimerWheel Server ServerMon ServerFuel ServerContract
     ServerState ServerSim ServerSim2 ServerSim3 ServerSim4 ServerSim5 ServerSim6 ServerSim7 ServerSpec
     ServerProofsPB0 ServerProofsPC0 ServerProofsPC1 ServerProofsPC9a.

(* ---------------------------------------------------------------- observer: what decides v09 *)
Lemma finish_idle_v09 : forall o,
  o_errcall o = None -> v09 (o_v (finish_idle o)) = v09 (o_v o).
Proof.
  intros o He. unfold finish_idle. oproj. rewrite He. destruct (o_blocked _); oproj; rewrite ?andb_true_r; reflexivity.
Qed.

Lemma activity_eqb_refl : forall a, activity_eqb a a = true.
Proof. destruct a; reflexivity. Qed.

Lemma oresult_v09 : forall o R e,
  o_errcall o = e ->
  match R with
  | OYield _ _ _ _ _ | OPending | OStreamEnd => e = None
  | OStreamErr a => e = Some a
  | _ => False end ->
  v09 (o_v (o_result o R)) = v09 (o_v o).
Proof.
  intros o R e He HR. destruct R; try contradiction; subst e; unfold o_result.
  - unfold accept_id. oproj. rewrite HR. destruct (last_open id _); oproj; rewrite ?andb_true_r; reflexivity.
  - apply finish_idle_v09. exact HR.
  - rewrite finish_idle_v09 by (oproj; exact HR). oproj. rewrite ?andb_true_r. reflexivity.
  - oproj. rewrite HR, activity_eqb_refl, ?andb_true_r. reflexivity.
Qed.

Lemma ogauges_v09 : forall st' bl o a b, v09 (o_v (o_gauges st' bl o a b)) = v09 (o_v o).
Proof.
  intros st' bl o a b. unfold o_gauges. destruct st'; [|destruct bl]; oproj; rewrite ?andb_true_r; reflexivity.
Qed.

Lemma otail_v09 : forall o1 g, v09 (o_v (otail o1 g)) = v09 (o_v o1).
Proof.
  intros o1 g. unfold otail. destruct g as [[a b]|].
  - destruct (o_dropped o1); [unfold mark_bad; oproj; reflexivity|].
    destruct (c_err (o_v o1)); [reflexivity|]. rewrite ogauges_v09. oproj. rewrite ?andb_true_r. reflexivity.
  - destruct (o_dropped o1); [reflexivity|unfold mark_bad; oproj; reflexivity].
Qed.

Lemma poll_tail_v09 : forall c o1 R a b, v09 (o_v (poll_tail c o1 R a b)) = v09 (o_v o1).
Proof.
  intros c o1 R a b. unfold poll_tail. destruct (c_err (o_v o1)); [reflexivity|].
  rewrite ogauges_v09. oproj. rewrite ?andb_true_r. reflexivity.
Qed.

Definition is_hpolled (e : obs) : bool := match e with OHPolled _ => true | _ => false end.

Lemma ohevent_v09 : forall o e,
  o_dropped (o_hevent o e) = o_dropped o
  /\ (o_dropped o = false \/ is_hpolled e = false -> v09 (o_v (o_hevent o e)) = v09 (o_v o)).
Proof.
  intros o e. destruct e; unfold o_hevent; try (unfold mark_bad; oproj; split; [reflexivity|intros _; reflexivity]);
    try (split; [reflexivity|intros _; reflexivity]).
  - destruct (nth_error (o_incs o) k); [|unfold mark_bad; oproj; split; [reflexivity|intros _; reflexivity]].
    oproj. split; [reflexivity|]. intros [H|H]; [|discriminate]. rewrite H. cbn. rewrite ?andb_true_r. reflexivity.
  - destruct (nth_error (o_incs o) k); [|unfold mark_bad; oproj; split; [reflexivity|intros _; reflexivity]].
    oproj. rewrite ?andb_true_r. split; [reflexivity|intros _; reflexivity].
Qed.

Lemma ohevents_v09 : forall body o,
  o_dropped o = false \/ existsb is_hpolled body = false ->
  v09 (o_v (fold_left o_hevent body o)) = v09 (o_v o).
Proof.
  induction body as [|e body IH]; intros o H; cbn [fold_left]; [reflexivity|].
  destruct (ohevent_v09 o e) as (D & V). rewrite IH.
  - apply V. destruct H as [H|H]; [left; exact H|right]. cbn in H. apply orb_false_iff in H. tauto.
  - rewrite D. destruct H as [H|H]; [left; exact H|right]. cbn in H. apply orb_false_iff in H. tauto.
Qed.

Lemma guard_dropped_v09 : forall k need o, v09 (o_v (guard_dropped k need o)) = v09 (o_v o).
Proof.
  intros k need o. unfold guard_dropped. destruct (nth_error (o_incs o) k); [|reflexivity].
  repeat match goal with |- context [if ?b then _ else _] => destruct b end; reflexivity.
Qed.

(* ---------------------------------------------------------------- one op *)
Section V09.
  Context {T C : Type}.
  Variable tp : transport T response cmsg.
  Variable ctl : T -> C -> T.
  Variable tfuel : T -> nat.
  Hypothesis TF : tfuel_ok tp tfuel.
  Variable c : cfg.
  Notation st := (@sstate T).
  Notation lim := (cfg_limit c).

  Definition VP09 (o : ostate) : Prop :=
    h_b1 (o_v o) = true -> h_stop (o_v o) = true -> v09 (o_v o) = true.

  (* which handler polls emit OHPolled *)
  Lemma execute_polled : forall k hs (s : st) s1 body hr,
    execute_poll k hs s = (s1, body) -> nth_error (s_handlers s) k = Some hr ->
    existsb is_hpolled body = true ->
    (h_st hr = HYielded \/ h_st hr = HRunning) /\ ~ In (h_h hr) (s_aborted s).
  Proof.
    intros k hs s s1 body hr H Hk Hp. unfold execute_poll in H. rewrite Hk in H.
    destruct (existsb (Nat.eqb (h_h hr)) (s_aborted s)) eqn:EA.
    - exfalso. destruct (h_st hr); injection H as _ <-; cbn in Hp; discriminate.
    - assert (Hn : ~ In (h_h hr) (s_aborted s)).
      { intros Hin. assert (existsb (Nat.eqb (h_h hr)) (s_aborted s) = true).
        { apply existsb_exists. exists (h_h hr). split; [exact Hin|apply Nat.eqb_refl]. } congruence. }
      destruct (h_st hr); auto; exfalso;
        try destruct (s_dropped s); try destruct (s_permits s); injection H as _ <-; cbn in Hp; discriminate.
  Qed.

  Lemma fst_split_body : forall (s1 : st) body,
    forallb plain body = true -> fst (split_gauges (body ++ gauges s1)) = body.
  Proof.
    intros s1 body Hpl. destruct (s_dropped s1) eqn:ED.
    - unfold gauges. rewrite ED, app_nil_r, (split_gauges_plain _ Hpl). reflexivity.
    - rewrite (split_gauges_app body s1 ED). reflexivity.
  Qed.

  Lemma v09_step : forall o (s : st) p s' l,
    Ctx o s -> Ctx (ostep lim o p l) s' -> step tp ctl tfuel c s p = (s', l) ->
    VP09 o -> VP09 (ostep lim o p l).
  Proof.
    intros o s p s' l CX CX' ES HV Hb1' Hst'.
    destruct (FL_ostep lim o p l) as (F1 & F2 & _).
    pose proof (F1 Hb1') as Hb1. pose proof (F2 Hst') as EH.
    pose proof (HV Hb1 EH) as V0. pose proof (cx_nh _ _ CX Hb1 EH) as NHs.
    destruct (cx_top _ _ CX EH) as (HI & Hnt & Hrest).
    destruct p as [|x|k hs|k|k| |dt].
    - (* a poll *)
      destruct (s_dropped s) eqn:ED.
      { unfold step, poll_requests in ES. rewrite ED in ES. injection ES as <- <-.
        unfold ostep. rewrite EH. cbn [negb]. unfold gauges. rewrite ED.
        assert (Hodt : o_dropped o = true) by (rewrite (u_dropped _ _ HI); exact ED).
        cbn [app split_gauges rev]. rewrite Hodt. cbn iota. rewrite Hodt. exact V0. }
      assert (Hod : o_dropped o = false) by (rewrite (u_dropped _ _ HI); exact ED).
      destruct (c_err (o_v o)) eqn:EC.
      { exfalso. rewrite (ostep_poll_after_error c o l EH Hod EC) in Hst'. discriminate. }
      unfold step in ES. destruct (poll_requests tp tfuel c s) as [s1 l0] eqn:EP. injection ES as <- <-.
      unfold poll_requests in EP. rewrite ED in EP.
      destruct (requests_poll_next tp c (poll_fuel tfuel s) (set_log s [])) as [r s2] eqn:ER.
      pose proof (requests_not_fuel tp tfuel TF c _ _ _ ER) as Hnf.
      pose proof (dropped_requests tp _ _ _ _ _ ER) as Hd2. sproj.
      destruct (requests_elog tp _ _ _ _ _ ER) as (new & X & EL).
      assert (Hlog : rev (s_log s2) = new).
      { unfold ext in X. sproj. rewrite X, app_nil_r, rev_involutive. reflexivity. }
      assert (Hshape : exists R, l0 = [OCalls new; R] /\ s_dropped s1 = false /\ rshape R
                 /\ match R with
                    | OYield _ _ _ _ _ | OPending | OStreamEnd => perr r = None
                    | OStreamErr a => perr r = Some a
                    | _ => False end).
      { rewrite <- Hlog.
        destruct r; [| | | |exfalso; apply Hnf; reflexivity]; injection EP as <- <-; eexists;
          (split; [reflexivity|split; [sproj; congruence|split; [exact I|reflexivity]]]). }
      destruct Hshape as (R & -> & Hd1 & HR & HE).
      rewrite (ostep_poll_eq c o s1 new R EH Hod EC Hd1 HR), poll_tail_v09.
      destruct (ocs_elog_v09 lim new (start_poll o) (perr r) eq_refl EL) as (A & B).
      unfold o_calls. rewrite (oresult_v09 _ R (perr r) B HE), A. exact V0.
    - unfold step in ES. injection ES as <- <-.
      rewrite (ostep_nonpoll c (OCtl x) o _ EH I), otail_v09.
      destruct (fst (split_gauges _)); [exact V0|unfold mark_bad; oproj; exact V0].
    - (* a handler poll *)
      unfold step in ES. destruct (execute_poll k hs s) as [s1 body] eqn:EE. injection ES as <- <-.
      rewrite (ostep_nonpoll c (@OHandlerPoll C k hs) o _ EH I), otail_v09.
      destruct (nth_error (s_handlers s) k) as [hr|] eqn:Hk.
      2: { unfold execute_poll in EE. rewrite Hk in EE. injection EE as <- <-.
           cbn [app]. rewrite fst_split_nil'. exact V0. }
      destruct (execute_poll_body k hs s s1 body hr EE Hk) as (Hb & _ & _).
      rewrite (fst_split_body s1 body (for_k_plain _ _ Hb)).
      rewrite ohevents_v09; [exact V0|].
      destruct (existsb is_hpolled body) eqn:EPd; [left|right; reflexivity].
      destruct (execute_polled _ _ _ _ _ _ EE Hk EPd) as (Hlive & Hnab).
      rewrite (u_dropped _ _ HI). destruct (s_dropped s) eqn:ED; [exfalso|reflexivity].
      destruct (nh_live _ _ NHs k hr Hk Hlive) as [(e & He & Heh)|Hab]; [|contradiction].
      apply Hnab. rewrite <- Heh. exact (cx_da _ _ CX ED e He).
    - unfold step in ES. destruct (drop_handler k s) as [s1 body] eqn:EE. injection ES as <- <-.
      rewrite (ostep_nonpoll c (@ODropHandler C k) o _ EH I), otail_v09, guard_dropped_v09.
      assert (Hbody : body = [] \/ body = [OHDropped k]).
      { unfold drop_handler in EE. destruct (nth_error (s_handlers s) k) as [hr|]; [|injection EE as _ <-; auto].
        destruct (h_st hr); injection EE as _ <-; auto. }
      assert (Hpl : forallb plain body = true) by (destruct Hbody as [->| ->]; reflexivity).
      rewrite (fst_split_body s1 body Hpl). rewrite ohevents_v09; [exact V0|].
      right. destruct Hbody as [->| ->]; reflexivity.
    - unfold step in ES. destruct (drop_yielded k s) as [s1 body] eqn:EE. injection ES as <- <-.
      rewrite (ostep_nonpoll c (@ODropYielded C k) o _ EH I), otail_v09, guard_dropped_v09.
      assert (Hbody : body = []).
      { unfold drop_yielded in EE. destruct (nth_error (s_handlers s) k) as [[h i stt]|]; [|injection EE as _ <-; auto].
        destruct stt; injection EE as _ <-; auto. }
      subst body. cbn [app]. rewrite fst_split_nil'. exact V0.
    - unfold step in ES. injection ES as <- <-.
      rewrite (ostep_nonpoll c (@ODropChannel C) o _ EH I), otail_v09. exact V0.
    - unfold step in ES. injection ES as <- <-.
      rewrite (ostep_nonpoll c (@OAdvance C dt) o _ EH I), otail_v09. exact V0.
  Qed.
End V09.

(* C09, server half, from the hypothesis-dependent invariant *)
Theorem s_v09_from_needh : reachH (@NeedH) -> stmt_s_v09.
Proof.
  intros NH. unfold stmt_s_v09, every_run. intros T C tp ctl tfuel c t0 ops TF. unfold observe.
  exact (drive tp ctl tfuel TF c NH t0 (@VP09) (fun o s p s' l => v09_step tp ctl tfuel TF c o s p s' l)
               (fun _ _ => eq_refl) ops).
Qed.
Print Assumptions s_v09_from_needh.

Theorem s09_from_needh : reachH (@NeedH) -> stmt_s09.
Proof.
  intros NH. unfold stmt_s09, every_run_mon. intros T C tp ctl tfuel c t0 ops TF. unfold c09s_ok.
  destruct (server_never_early T C tp ctl tfuel c t0 ops TF) as (Hb & _). cbv zeta in Hb.
  rewrite Hb. cbn [negb andb].
  destruct (h_b1 _ && h_stop _) eqn:E; [|reflexivity]. cbn [negb orb].
  apply andb_true_iff in E. destruct E as [E1 E2].
  exact (s_v09_from_needh NH T C tp ctl tfuel c t0 ops TF E1 E2).
Qed.
Print Assumptions s09_from_needh.
