(* The server monitor theorems for a channel driven through tarpc's own execute()
   (ServerExec.v: futures-util TakeWhile/FilterMap/Map transcribed - MODELLED, NOT VERIFIED):
   the hypothesis stops_after_error is discharged (ServerExecProofs.exec_stops_after_error), only
   reuse_only_after_completion (B1) and the known classes K1 / K2 remain.
   Shape of every theorem, as ServerExecProofs.C09_server_monitor_exec: the monitor accepts, and
   h_stop v = true, v_bad v = false, and (h_b1 v = true -> the property's verdict flags are true).
   (c12_ok and c10s_ok do not mention h_stop; the C12 versions are the restriction to execute()
   runs, given for uniformity; C10 has none.) *)
From Coq Require Import List Bool Arith NArith.
Import ListNotations.
From TarpcV Require Import Base Transport TimerWheel Server ServerMon ServerFuel ServerSpec
     ServerProofsPA4 ServerProofsPB6 ServerProofsPC3 ServerExec ServerExecProofs.

Section ExecMon.
  Context {T C : Type}.
  Variable tp : transport T response cmsg.
  Variable ctl : T -> C -> T.
  Variable tfuel : T -> nat.
  Hypothesis TF : tfuel_ok tp tfuel.
  Variable c : cfg.
  Variable t0 : T.
  Variable eops : list (eop C).

  Let ops := exec_ops tp ctl tfuel c t0 eops.
  Let tr := exec_trace tp ctl tfuel c t0 eops.
  Let v := observe c ops tr.

  Lemma exec_hs : h_stop v = true.
  Proof. exact (exec_stops_after_error T C tp ctl tfuel c t0 eops). Qed.

  Ltac flags H :=
    change (observe c ops tr) with v in H;
    pose proof exec_hs as HS;
    rewrite ?HS in *;
    repeat match goal with
           | |- context [?f v] => match type of (f v) with bool => destruct (f v) end
           | H0 : context [?f v] |- _ => match type of (f v) with bool => destruct (f v) end
           end;
    cbn in *; repeat split; intros; congruence.

  Lemma c08_exec :
    c08_ok c ops tr = true
    /\ h_stop v = true /\ v_bad v = false /\ (h_b1 v = true -> v08 v = true).
  Proof.
    assert (H : c08_ok c ops tr = true) by exact (s08_proved T C tp ctl tfuel c t0 ops TF).
    split; [exact H|]. unfold c08_ok in H. flags H.
  Qed.

  Lemma c04_exec :
    c04_ok c ops tr = true
    /\ h_stop v = true /\ v_bad v = false /\ (h_b1 v = true -> v04 v = true /\ v08 v = true).
  Proof.
    assert (H : c04_ok c ops tr = true) by exact (s04_proved T C tp ctl tfuel c t0 ops TF).
    split; [exact H|]. unfold c04_ok in H. flags H.
  Qed.

  Lemma c06_rel_exec :
    c06_rel_ok c ops tr = true
    /\ h_stop v = true /\ v_bad v = false /\ v06e v = true /\ (h_b1 v = true -> v06l_rel v = true).
  Proof.
    assert (H : c06_rel_ok c ops tr = true) by exact (s06_rel T C tp ctl tfuel c t0 ops TF).
    split; [exact H|]. unfold c06_rel_ok in H. flags H.
  Qed.

  Lemma c06_exec :
    limiter_blocked_on_sink c ops tr = false ->
    c06_ok c ops tr = true
    /\ h_stop v = true /\ v_bad v = false /\ v06e v = true /\ (h_b1 v = true -> v06l v = true).
  Proof.
    intro K. assert (H : c06_ok c ops tr = true) by exact (s06 T C tp ctl tfuel c t0 ops TF K). split; [exact H|]. unfold c06_ok in H. clear K. flags H.
  Qed.

  Lemma c11s_rel_exec :
    c11s_rel_ok c ops tr = true
    /\ h_stop v = true /\ v_bad v = false /\ (h_b1 v = true -> v11_rel v = true).
  Proof.
    assert (H : c11s_rel_ok c ops tr = true) by exact (s11_rel_holds T C tp ctl tfuel c t0 ops TF).
    split; [exact H|]. unfold c11s_rel_ok in H. flags H.
  Qed.

  Lemma c11s_exec :
    limiter_blocked_on_sink c ops tr = false ->
    c11s_ok c ops tr = true
    /\ h_stop v = true /\ v_bad v = false /\ (h_b1 v = true -> v11 v = true).
  Proof.
    intro K. assert (H : c11s_ok c ops tr = true) by exact (s11_holds T C tp ctl tfuel c t0 ops TF K). split; [exact H|]. unfold c11s_ok in H. clear K. flags H.
  Qed.

  Lemma c12_rel_exec :
    c12_rel_ok c ops tr = true
    /\ h_stop v = true /\ v_bad v = false /\ v12a v = true /\ v12b v = true
    /\ (h_b1 v = true -> v12c_rel v = true).
  Proof.
    assert (H : c12_rel_ok c ops tr = true) by exact (s12_rel T C tp ctl tfuel c t0 ops TF).
    split; [exact H|]. unfold c12_rel_ok in H. flags H.
  Qed.

  Lemma c12_exec :
    freed_in_same_poll c ops tr = false ->
    c12_ok c ops tr = true
    /\ h_stop v = true /\ v_bad v = false /\ v12a v = true /\ v12b v = true
    /\ (h_b1 v = true -> v12c v = true).
  Proof.
    intro K. assert (H : c12_ok c ops tr = true) by exact (s12 T C tp ctl tfuel c t0 ops TF K). split; [exact H|]. unfold c12_ok in H. clear K. flags H.
  Qed.
End ExecMon.

(* ================================================================== the theorems *)
Theorem C08_monitor_exec : forall (T C : Type) (tp : transport T response cmsg) (ctl : T -> C -> T)
    (tfuel : T -> nat) (c : cfg) (t0 : T) (eops : list (eop C)),
  tfuel_ok tp tfuel ->
  let ops := exec_ops tp ctl tfuel c t0 eops in
  let v := observe c ops (exec_trace tp ctl tfuel c t0 eops) in
  c08_ok c ops (exec_trace tp ctl tfuel c t0 eops) = true
  /\ h_stop v = true /\ v_bad v = false /\ (h_b1 v = true -> v08 v = true).
Proof. intros T C tp ctl tfuel c t0 eops TF. exact (c08_exec tp ctl tfuel TF c t0 eops). Qed.

Theorem C04_monitor_exec : forall (T C : Type) (tp : transport T response cmsg) (ctl : T -> C -> T)
    (tfuel : T -> nat) (c : cfg) (t0 : T) (eops : list (eop C)),
  tfuel_ok tp tfuel ->
  let ops := exec_ops tp ctl tfuel c t0 eops in
  let v := observe c ops (exec_trace tp ctl tfuel c t0 eops) in
  c04_ok c ops (exec_trace tp ctl tfuel c t0 eops) = true
  /\ h_stop v = true /\ v_bad v = false /\ (h_b1 v = true -> v04 v = true /\ v08 v = true).
Proof. intros T C tp ctl tfuel c t0 eops TF. exact (c04_exec tp ctl tfuel TF c t0 eops). Qed.

Theorem C06_monitor_rel_exec : forall (T C : Type) (tp : transport T response cmsg) (ctl : T -> C -> T)
    (tfuel : T -> nat) (c : cfg) (t0 : T) (eops : list (eop C)),
  tfuel_ok tp tfuel ->
  let ops := exec_ops tp ctl tfuel c t0 eops in
  let v := observe c ops (exec_trace tp ctl tfuel c t0 eops) in
  c06_rel_ok c ops (exec_trace tp ctl tfuel c t0 eops) = true
  /\ h_stop v = true /\ v_bad v = false /\ v06e v = true /\ (h_b1 v = true -> v06l_rel v = true).
Proof. intros T C tp ctl tfuel c t0 eops TF. exact (c06_rel_exec tp ctl tfuel TF c t0 eops). Qed.

Theorem C06_monitor_exec : forall (T C : Type) (tp : transport T response cmsg) (ctl : T -> C -> T)
    (tfuel : T -> nat) (c : cfg) (t0 : T) (eops : list (eop C)),
  tfuel_ok tp tfuel ->
  let ops := exec_ops tp ctl tfuel c t0 eops in
  let v := observe c ops (exec_trace tp ctl tfuel c t0 eops) in
  limiter_blocked_on_sink c ops (exec_trace tp ctl tfuel c t0 eops) = false ->
  c06_ok c ops (exec_trace tp ctl tfuel c t0 eops) = true
  /\ h_stop v = true /\ v_bad v = false /\ v06e v = true /\ (h_b1 v = true -> v06l v = true).
Proof. intros T C tp ctl tfuel c t0 eops TF. exact (c06_exec tp ctl tfuel TF c t0 eops). Qed.

Theorem C11_server_monitor_rel_exec : forall (T C : Type) (tp : transport T response cmsg) (ctl : T -> C -> T)
    (tfuel : T -> nat) (c : cfg) (t0 : T) (eops : list (eop C)),
  tfuel_ok tp tfuel ->
  let ops := exec_ops tp ctl tfuel c t0 eops in
  let v := observe c ops (exec_trace tp ctl tfuel c t0 eops) in
  c11s_rel_ok c ops (exec_trace tp ctl tfuel c t0 eops) = true
  /\ h_stop v = true /\ v_bad v = false /\ (h_b1 v = true -> v11_rel v = true).
Proof. intros T C tp ctl tfuel c t0 eops TF. exact (c11s_rel_exec tp ctl tfuel TF c t0 eops). Qed.

Theorem C11_server_monitor_exec : forall (T C : Type) (tp : transport T response cmsg) (ctl : T -> C -> T)
    (tfuel : T -> nat) (c : cfg) (t0 : T) (eops : list (eop C)),
  tfuel_ok tp tfuel ->
  let ops := exec_ops tp ctl tfuel c t0 eops in
  let v := observe c ops (exec_trace tp ctl tfuel c t0 eops) in
  limiter_blocked_on_sink c ops (exec_trace tp ctl tfuel c t0 eops) = false ->
  c11s_ok c ops (exec_trace tp ctl tfuel c t0 eops) = true
  /\ h_stop v = true /\ v_bad v = false /\ (h_b1 v = true -> v11 v = true).
Proof. intros T C tp ctl tfuel c t0 eops TF. exact (c11s_exec tp ctl tfuel TF c t0 eops). Qed.

Theorem C12_monitor_rel_exec : forall (T C : Type) (tp : transport T response cmsg) (ctl : T -> C -> T)
    (tfuel : T -> nat) (c : cfg) (t0 : T) (eops : list (eop C)),
  tfuel_ok tp tfuel ->
  let ops := exec_ops tp ctl tfuel c t0 eops in
  let v := observe c ops (exec_trace tp ctl tfuel c t0 eops) in
  c12_rel_ok c ops (exec_trace tp ctl tfuel c t0 eops) = true
  /\ h_stop v = true /\ v_bad v = false /\ v12a v = true /\ v12b v = true
  /\ (h_b1 v = true -> v12c_rel v = true).
Proof. intros T C tp ctl tfuel c t0 eops TF. exact (c12_rel_exec tp ctl tfuel TF c t0 eops). Qed.

Theorem C12_monitor_exec : forall (T C : Type) (tp : transport T response cmsg) (ctl : T -> C -> T)
    (tfuel : T -> nat) (c : cfg) (t0 : T) (eops : list (eop C)),
  tfuel_ok tp tfuel ->
  let ops := exec_ops tp ctl tfuel c t0 eops in
  let v := observe c ops (exec_trace tp ctl tfuel c t0 eops) in
  freed_in_same_poll c ops (exec_trace tp ctl tfuel c t0 eops) = false ->
  c12_ok c ops (exec_trace tp ctl tfuel c t0 eops) = true
  /\ h_stop v = true /\ v_bad v = false /\ v12a v = true /\ v12b v = true
  /\ (h_b1 v = true -> v12c v = true).
Proof. intros T C tp ctl tfuel c t0 eops TF. exact (c12_exec tp ctl tfuel TF c t0 eops). Qed.

Print Assumptions C08_monitor_exec.
Print Assumptions C04_monitor_exec.
Print Assumptions C06_monitor_rel_exec.
Print Assumptions C06_monitor_exec.
Print Assumptions C11_server_monitor_rel_exec.
Print Assumptions C11_server_monitor_exec.
Print Assumptions C12_monitor_rel_exec.
Print Assumptions C12_monitor_exec.
