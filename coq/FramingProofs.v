(* Proofs about the framing model (Framing.v): C15 "any chunking", truncation, oversize, fuel,
   and the FIFO properties of the in-memory channels.

   Route for the decoder theorems:
     1. [rund] is [drain] with its canonical fuel; [rund_step] is its fuel-free unfolding
        (fuel irrelevance above [measure]).
     2. [rund_app]: draining (buf ++ c) = draining buf, then continuing with c appended
        (the "chunk merge" lemma); lifted to the reader in [feed_merge] and [read_from_concat]:
        reading any chunking = reading the concatenation as one chunk ([read_stream_one]).
     3. [rund_stream]: on [stream_of ps ++ tail] the decoder yields [map FFrame ps] and goes on
        with [tail] in Head state.  The theorems then only differ in what [tail] is. *)
From Coq Require Import List NArith Bool Arith Lia.
Import ListNotations.
From TarpcV Require Import Base Schema Framing.
Local Open Scope N_scope.

(* ------------------------------------------------------------------------------------------ *)
(* the 4-byte big-endian header *)

Lemma be32_roundtrip : forall n, n < 4294967296 ->
  exists a b c d, be32 n = [a; b; c; d] /\ be32_val a b c d = n.
Proof.
  intros n Hn. unfold be32. do 4 eexists. split; [reflexivity|].
  unfold be32_val.
  change 65536 with (256 * 256). change 16777216 with (256 * 256 * 256).
  rewrite <- !N.div_div by discriminate.
  assert (Htop : n / 256 / 256 / 256 < 256)
    by (do 3 (apply N.div_lt_upper_bound; [discriminate|]); exact Hn).
  rewrite (N.mod_small (n / 256 / 256 / 256)) by assumption.
  pose proof (N.div_mod n 256 ltac:(discriminate)).
  pose proof (N.div_mod (n / 256) 256 ltac:(discriminate)).
  pose proof (N.div_mod (n / 256 / 256) 256 ltac:(discriminate)).
  lia.
Qed.

(* ------------------------------------------------------------------------------------------ *)
(* list helpers *)

Lemma firstn_app_exact {A} (p r : list A) : firstn (length p) (p ++ r) = p.
Proof. induction p; cbn [length firstn app]; [destruct r|]; congruence. Qed.

Lemma skipn_app_exact {A} (p r : list A) : skipn (length p) (p ++ r) = r.
Proof. induction p; cbn [length skipn app]; auto. Qed.

Lemma blen_app (a b : bytes) : blen (a ++ b) = blen a + blen b.
Proof. unfold blen. rewrite app_length. lia. Qed.

(* ------------------------------------------------------------------------------------------ *)
(* the decoder, one step *)

(* the decoder state with more bytes appended to its buffer *)
Definition dapp (s : dstate) (c : bytes) : dstate :=
  {| d_buf := d_buf s ++ c; d_need := d_need s |}.

(* an upper bound on the number of [decode] calls [drain] makes from [s] *)
Definition measure (s : dstate) : nat :=
  (length (d_buf s) + match d_need s with Some _ => 2 | None => 1 end)%nat.

Lemma measure_pos s : (1 <= measure s)%nat.
Proof. unfold measure. destruct (d_need s); lia. Qed.

Lemma measure_fuel s : (measure s <= drain_fuel s)%nat.
Proof. unfold measure, drain_fuel. destruct (d_need s); lia. Qed.

Lemma dapp_nil s : dapp s [] = s.
Proof. destruct s as [buf need]. unfold dapp. cbn [d_buf d_need]. rewrite app_nil_r. reflexivity. Qed.

Lemma dapp_app s c1 c2 : dapp s (c1 ++ c2) = dapp (dapp s c1) c2.
Proof. unfold dapp. cbn [d_buf d_need]. rewrite app_assoc. reflexivity. Qed.

Lemma decode_some max buf n :
  decode max {| d_buf := buf; d_need := Some n |} = decode_data n buf.
Proof. reflexivity. Qed.

Lemma decode_head_long max a b c d rest :
  decode max {| d_buf := a :: b :: c :: d :: rest; d_need := None |} =
  if max <? be32_val a b c d
  then (DErr, {| d_buf := a :: b :: c :: d :: rest; d_need := None |})
  else decode_data (be32_val a b c d) rest.
Proof. reflexivity. Qed.

Lemma decode_head_short max buf : (length buf < 4)%nat ->
  decode max {| d_buf := buf; d_need := None |} = (DNone, {| d_buf := buf; d_need := None |}).
Proof.
  destruct buf as [|? [|? [|? [|? ?]]]]; cbn [length]; intros; try lia; reflexivity.
Qed.

Lemma decode_data_cases n buf :
  match decode_data n buf with
  | (DFrame p, s') =>
      (length (d_buf s') <= length buf)%nat /\ d_need s' = None /\
      forall c, decode_data n (buf ++ c) = (DFrame p, dapp s' c)
  | (DNone, s') => s' = {| d_buf := buf; d_need := Some n |} /\ blen buf < n
  | (DErr, _) => False
  end.
Proof.
  unfold decode_data. destruct (N.ltb_spec (blen buf) n) as [Hlt|Hge].
  - split; auto.
  - cbn [d_buf d_need]. split; [rewrite skipn_length; lia|]. split; [reflexivity|].
    intros c.
    assert (Hc : blen (buf ++ c) <? n = false) by (apply N.ltb_ge; rewrite blen_app; lia).
    rewrite Hc. unfold dapp. cbn [d_buf d_need]. rewrite firstn_app, skipn_app.
    replace (N.to_nat n - length buf)%nat with 0%nat by (unfold blen in Hge; lia).
    cbn [firstn skipn]. rewrite app_nil_r. reflexivity.
Qed.

(* everything the later proofs need to know about one [decode] step: how it changes the
   measure, and how it behaves when more bytes are appended to the buffer *)
Lemma decode_cases max s :
  match decode max s with
  | (DFrame p, s') =>
      (measure s' < measure s)%nat /\
      forall c, decode max (dapp s c) = (DFrame p, dapp s' c)
  | (DNone, s') =>
      decode max s' = (DNone, s') /\
      forall c, decode max (dapp s c) = decode max (dapp s' c) /\
                (measure (dapp s' c) <= measure (dapp s c))%nat
  | (DErr, s') => forall c, decode max (dapp s c) = (DErr, dapp s' c)
  end.
Proof.
  destruct s as [buf [n|]].
  - (* Data(n) *)
    rewrite decode_some. pose proof (decode_data_cases n buf) as H.
    destruct (decode_data n buf) as [[p| |] s'].
    + destruct H as (Hl & Hn & Hc). split.
      * unfold measure. cbn [d_buf d_need]. rewrite Hn. lia.
      * intros c. unfold dapp at 1. cbn [d_buf d_need]. rewrite decode_some. apply Hc.
    + destruct H as (-> & Hlt). split.
      * rewrite decode_some. unfold decode_data. rewrite (proj2 (N.ltb_lt _ _) Hlt). reflexivity.
      * intros c. split; [reflexivity|lia].
    + contradiction.
  - (* Head *)
    destruct (Nat.lt_ge_cases (length buf) 4) as [Hshort|Hlong].
    + rewrite decode_head_short by assumption. split.
      * apply decode_head_short; assumption.
      * intros c. split; [reflexivity|lia].
    + destruct buf as [|a [|b [|c0 [|d rest]]]]; cbn [length] in Hlong; try lia.
      rewrite decode_head_long.
      assert (Happ : forall c, dapp {| d_buf := a :: b :: c0 :: d :: rest; d_need := None |} c =
                               {| d_buf := a :: b :: c0 :: d :: (rest ++ c); d_need := None |})
        by reflexivity.
      destruct (max <? be32_val a b c0 d) eqn:E.
      * intros c. rewrite Happ, decode_head_long, E. reflexivity.
      * pose proof (decode_data_cases (be32_val a b c0 d) rest) as H.
        destruct (decode_data (be32_val a b c0 d) rest) as [[p| |] s'].
        -- destruct H as (Hl & Hn & Hc). split.
           ++ unfold measure. cbn [d_buf d_need length]. rewrite Hn. lia.
           ++ intros c. rewrite Happ, decode_head_long, E. apply Hc.
        -- destruct H as (-> & Hlt). split.
           ++ rewrite decode_some. unfold decode_data. rewrite (proj2 (N.ltb_lt _ _) Hlt).
              reflexivity.
           ++ intros c. split.
              ** rewrite Happ, decode_head_long, E. reflexivity.
              ** unfold measure, dapp. cbn [d_buf d_need]. rewrite !app_length. cbn [length]. lia.
        -- contradiction.
Qed.

(* ------------------------------------------------------------------------------------------ *)
(* drain: fuel irrelevance and the fuel-free unfolding *)

Lemma drain_S max f s :
  drain max (S f) s =
  match decode max s with
  | (DFrame p, s') => let '(l, s'', e) := drain max f s' in (FFrame p :: l, s'', e)
  | (DNone, s') => ([], s', false)
  | (DErr, s') => ([FError], s', true)
  end.
Proof. reflexivity. Qed.

Lemma drain_irrel max : forall f f' s, (measure s <= f)%nat -> (measure s <= f')%nat ->
  drain max f s = drain max f' s.
Proof.
  induction f as [|f IH]; intros f' s Hf Hf'; pose proof (measure_pos s) as Hpos.
  - lia.
  - destruct f' as [|f']; [lia|]. rewrite !drain_S.
    pose proof (decode_cases max s) as H.
    destruct (decode max s) as [[p| |] s']; try reflexivity.
    destruct H as [Hm _]. rewrite (IH f' s') by lia. reflexivity.
Qed.

(* drain with the fuel [feed] and [finish] give it *)
Definition rund (max : N) (s : dstate) : list fout * dstate * bool :=
  drain max (drain_fuel s) s.

Lemma rund_step max s :
  rund max s =
  match decode max s with
  | (DFrame p, s') => let '(l, s'', e) := rund max s' in (FFrame p :: l, s'', e)
  | (DNone, s') => ([], s', false)
  | (DErr, s') => ([FError], s', true)
  end.
Proof.
  unfold rund at 1. unfold drain_fuel at 1. rewrite drain_S.
  pose proof (decode_cases max s) as H.
  destruct (decode max s) as [[p| |] s']; try reflexivity.
  destruct H as [Hm _]. unfold rund.
  rewrite (drain_irrel max (S (length (d_buf s))) (drain_fuel s') s'); [reflexivity| |].
  - pose proof (measure_fuel s). unfold drain_fuel in *. lia.
  - apply measure_fuel.
Qed.

(* the reader's two entry points, in terms of [rund] *)
Lemma feed_eq max s c :
  feed max s c =
  if r_over s then ([], s)
  else let '(l, d', e) := rund max (dapp (r_dec s) c) in
       if e then (l ++ [FEnd], {| r_dec := d'; r_over := true |})
       else (l, {| r_dec := d'; r_over := false |}).
Proof. reflexivity. Qed.

Lemma finish_eq max s :
  finish max s =
  if r_over s then []
  else let '(l, d', e) := rund max (r_dec s) in
       if e then l ++ [FEnd]
       else match d_buf d' with [] => l ++ [FEnd] | _ => l ++ [FError; FEnd] end.
Proof. reflexivity. Qed.

(* never out of fuel *)
Lemma rund_no_fuel max : forall n s, (measure s <= n)%nat ->
  forall l s' e, rund max s = (l, s', e) -> ~ In FFuel l.
Proof.
  induction n as [|n IH]; intros s Hn l s' e; pose proof (measure_pos s) as Hpos; [lia|].
  rewrite rund_step. pose proof (decode_cases max s) as H.
  destruct (decode max s) as [[p| |] s1].
  - destruct H as [Hm _].
    destruct (rund max s1) as [[l1 s1'] e1] eqn:E1. intros [= <- _ _] [Hin|Hin].
    + discriminate.
    + revert Hin. eapply IH; [|exact E1]. lia.
  - intros [= <- _ _] [].
  - intros [= <- _ _] [Hin|[]]. discriminate.
Qed.

(* a drain that ended without error ended in a state where decode has nothing to say *)
Lemma rund_stable max : forall n s, (measure s <= n)%nat ->
  forall l s', rund max s = (l, s', false) -> rund max s' = ([], s', false).
Proof.
  induction n as [|n IH]; intros s Hn l s'; pose proof (measure_pos s) as Hpos; [lia|].
  rewrite rund_step. pose proof (decode_cases max s) as H.
  destruct (decode max s) as [[p| |] s1].
  - destruct H as [Hm _].
    destruct (rund max s1) as [[l1 s1'] e1] eqn:E1. intros [= _ <- ->].
    eapply IH; [|exact E1]. lia.
  - destruct H as [Hs _]. intros [= _ <-]. rewrite rund_step, Hs. reflexivity.
  - discriminate.
Qed.

(* chunk merge, decoder level: draining buf ++ c is draining buf, then going on with c *)
Lemma rund_app max c : forall n s, (measure s <= n)%nat ->
  rund max (dapp s c) =
  let '(l, s', e) := rund max s in
  if e then (l, dapp s' c, true)
  else let '(l2, s'', e2) := rund max (dapp s' c) in (l ++ l2, s'', e2).
Proof.
  induction n as [|n IH]; intros s Hn; pose proof (measure_pos s) as Hpos; [lia|].
  rewrite (rund_step max s), (rund_step max (dapp s c)).
  pose proof (decode_cases max s) as H.
  destruct (decode max s) as [[p| |] s1].
  - destruct H as [Hm Hc]. rewrite Hc, (IH s1) by lia.
    destruct (rund max s1) as [[l s'] e]. destruct e; [reflexivity|].
    destruct (rund max (dapp s' c)) as [[l2 s''] e2]. reflexivity.
  - destruct H as [_ Hc]. destruct (Hc c) as [Hd _]. rewrite Hd.
    rewrite (rund_step max (dapp s1 c)).
    destruct (decode max (dapp s1 c)) as [[p| |] s2]; try reflexivity.
    destruct (rund max s2) as [[l2 s''] e2]. reflexivity.
  - rewrite H. reflexivity.
Qed.

(* ------------------------------------------------------------------------------------------ *)
(* the reader: any chunking reads like the concatenation *)

Definition read_from (max : N) (s : rstate) (chunks : list bytes) : list fout :=
  let '(l, s') := feed_all max s chunks in l ++ finish max s'.

Lemma read_stream_from max chunks : read_stream max chunks = read_from max rinit chunks.
Proof. reflexivity. Qed.

Lemma read_from_nil max s : read_from max s [] = finish max s.
Proof. reflexivity. Qed.

Lemma read_from_cons max s c r :
  read_from max s (c :: r) = let '(l, s') := feed max s c in l ++ read_from max s' r.
Proof.
  unfold read_from. cbn [feed_all]. destruct (feed max s c) as [l s'].
  destruct (feed_all max s' r) as [l' s'']. rewrite app_assoc. reflexivity.
Qed.

Lemma read_from_one max s c :
  read_from max s [c] = let '(l, s') := feed max s c in l ++ finish max s'.
Proof. rewrite read_from_cons. destruct (feed max s c). reflexivity. Qed.

(* a Pending read just before the end of the stream changes nothing *)
Lemma feed_nil_finish max s : read_from max s [[]] = finish max s.
Proof.
  rewrite read_from_one, feed_eq, (finish_eq max s). destruct s as [d [|]]; cbn [r_over r_dec].
  - reflexivity.
  - rewrite dapp_nil. destruct (rund max d) as [[l d'] e] eqn:E. destruct e.
    + rewrite finish_eq. cbn [r_over]. apply app_nil_r.
    + rewrite finish_eq. cbn [r_over r_dec].
      rewrite (rund_stable max (measure d) d (Nat.le_refl _) l d' E).
      destruct (d_buf d'); reflexivity.
Qed.

(* chunk merge, reader level *)
Lemma feed_merge max s c c2 :
  read_from max s [c ++ c2] = let '(l, s') := feed max s c in l ++ read_from max s' [c2].
Proof.
  rewrite read_from_one, !feed_eq. destruct s as [d [|]]; cbn [r_over r_dec].
  - rewrite read_from_one, feed_eq. reflexivity.
  - rewrite dapp_app, (rund_app max c2 (measure (dapp d c)) (dapp d c) (Nat.le_refl _)).
    destruct (rund max (dapp d c)) as [[l d'] e]. destruct e.
    + rewrite read_from_one, feed_eq, !finish_eq. reflexivity.
    + rewrite read_from_one, feed_eq. cbn [r_over r_dec].
      destruct (rund max (dapp d' c2)) as [[l2 d''] e2].
      destruct e2; rewrite <- !app_assoc; reflexivity.
Qed.

Lemma read_from_concat max : forall chunks s,
  read_from max s chunks = read_from max s [concat chunks].
Proof.
  induction chunks as [|c r IH]; intros s.
  - cbn [concat]. rewrite feed_nil_finish. reflexivity.
  - cbn [concat]. rewrite read_from_cons, feed_merge.
    destruct (feed max s c) as [l s']. rewrite IH. reflexivity.
Qed.

(* what the reader yields for a whole stream, however chunked: one drain of the whole buffer *)
Lemma read_stream_one max chunks :
  read_stream max chunks =
  let '(l, d', e) := rund max {| d_buf := concat chunks; d_need := None |} in
  if e then l ++ [FEnd]
  else match d_buf d' with [] => l ++ [FEnd] | _ => l ++ [FError; FEnd] end.
Proof.
  rewrite read_stream_from, read_from_concat, read_from_one, feed_eq.
  cbn [rinit r_over r_dec].
  change (dapp {| d_buf := []; d_need := None |} (concat chunks))
    with {| d_buf := concat chunks; d_need := None |}.
  destruct (rund max {| d_buf := concat chunks; d_need := None |}) as [[l d'] e] eqn:E.
  destruct e; rewrite finish_eq; cbn [r_over r_dec].
  - apply app_nil_r.
  - rewrite (rund_stable max _ _ (Nat.le_refl _) l d' E). destruct (d_buf d'); reflexivity.
Qed.

(* ------------------------------------------------------------------------------------------ *)
(* the decoder on a well-formed stream prefix *)

Lemma rund_stream max : max < 4294967296 ->
  forall ps tail, Forall (fun p => blen p <= max) ps ->
  rund max {| d_buf := stream_of ps ++ tail; d_need := None |} =
  let '(l, s, e) := rund max {| d_buf := tail; d_need := None |} in (map FFrame ps ++ l, s, e).
Proof.
  intros Hmax ps tail Hps. induction Hps as [|p ps Hp Hps IH].
  - cbn [stream_of flat_map app map].
    destruct (rund max {| d_buf := tail; d_need := None |}) as [[l s] e]. reflexivity.
  - destruct (be32_roundtrip (blen p)) as (a & b & c & d & Hbe & Hval); [lia|].
    unfold stream_of in *. cbn [flat_map map]. unfold frame at 1. rewrite Hbe, <- !app_assoc.
    cbn [app]. rewrite rund_step, decode_head_long, Hval.
    rewrite (proj2 (N.ltb_ge _ _) Hp). unfold decode_data.
    assert (Hlen : blen (p ++ flat_map frame ps ++ tail) <? blen p = false)
      by (apply N.ltb_ge; rewrite blen_app; lia).
    rewrite Hlen. unfold blen at 1 2. rewrite Nat2N.id, firstn_app_exact, skipn_app_exact, IH.
    destruct (rund max {| d_buf := tail; d_need := None |}) as [[l s] e]. reflexivity.
Qed.

(* ------------------------------------------------------------------------------------------ *)
(* C15 and its companions *)

(* C15: every chunking of the concatenated frames yields exactly the payloads, in order, then
   end-of-stream *)
Theorem framing_any_chunking_holds : forall max ps chunks,
  max < 4294967296 ->
  Forall (fun p => blen p <= max) ps ->
  concat chunks = stream_of ps ->
  read_stream max chunks = map FFrame ps ++ [FEnd].
Proof.
  intros max ps chunks Hmax Hps Hcat.
  rewrite read_stream_one, Hcat, <- (app_nil_r (stream_of ps)), rund_stream by assumption.
  rewrite rund_step, decode_head_short by (cbn [length]; lia).
  cbn [d_buf]. rewrite app_nil_r. reflexivity.
Qed.

(* a stream cut inside a frame: the whole frames come out, never a frame for the cut one; the
   reader then reports an error -- except when the cut falls exactly after the 4-byte header,
   in which case tokio-util reports a clean end-of-stream *)
Theorem framing_truncated_holds : forall max ps p tail rest chunks,
  max < 4294967296 ->
  Forall (fun p => blen p <= max) ps -> blen p <= max ->
  tail <> [] -> rest <> [] -> frame p = tail ++ rest ->
  concat chunks = stream_of ps ++ tail ->
  read_stream max chunks =
    map FFrame ps ++ (if Nat.eqb (length tail) 4 then [FEnd] else [FError; FEnd]).
Proof.
  intros max ps p tail rest chunks Hmax Hps Hp Htail Hrest Hframe Hcat.
  rewrite read_stream_one, Hcat, rund_stream by assumption.
  destruct (be32_roundtrip (blen p)) as (a & b & c & d & Hbe & Hval); [lia|].
  unfold frame in Hframe. rewrite Hbe in Hframe. cbn [app] in Hframe.
  destruct (Nat.lt_ge_cases (length tail) 4) as [Hshort|Hlong].
  - (* cut inside the header *)
    rewrite rund_step, decode_head_short by assumption. cbn [d_buf]. rewrite app_nil_r.
    destruct tail as [|t0 [|t1 [|t2 [|t3 tail']]]]; cbn [length] in Hshort; try lia;
      try contradiction; reflexivity.
  - (* cut after the header: the decoder is in Data state and waits *)
    destruct tail as [|t0 [|t1 [|t2 [|t3 tail']]]]; cbn [length] in Hlong; try lia.
    cbn [app] in Hframe. injection Hframe as <- <- <- <- Hpay.
    assert (Hlt : blen tail' < blen p).
    { rewrite Hpay, blen_app. destruct rest; [contradiction|]. unfold blen. cbn [length]. lia. }
    rewrite rund_step, decode_head_long, Hval, (proj2 (N.ltb_ge _ _) Hp).
    unfold decode_data. rewrite (proj2 (N.ltb_lt _ _) Hlt). cbn [d_buf]. rewrite app_nil_r.
    destruct tail'; reflexivity.
Qed.

(* witness that "a truncated tail is an error" is false for a header-only tail *)
Lemma framing_header_only_refuted :
  read_stream max_frame_default [[0; 0; 0; 3; 1; 2; 3; 0; 0; 0; 5]] = [FFrame [1; 2; 3]; FEnd].
Proof. vm_compute. reflexivity. Qed.

(* the oversize rule: a header announcing more than max is an error, never a frame *)
Theorem framing_oversize_holds : forall max ps a b c d junk chunks,
  max < 4294967296 ->
  Forall (fun p => blen p <= max) ps ->
  max < be32_val a b c d ->
  concat chunks = stream_of ps ++ a :: b :: c :: d :: junk ->
  read_stream max chunks = map FFrame ps ++ [FError; FEnd].
Proof.
  intros max ps a b c d junk chunks Hmax Hps Hbig Hcat.
  rewrite read_stream_one, Hcat, rund_stream by assumption.
  rewrite rund_step, decode_head_long, (proj2 (N.ltb_lt _ _) Hbig).
  rewrite <- app_assoc. reflexivity.
Qed.

(* the reader never runs out of fuel *)
Lemma feed_no_fuel max s c : forall l s', feed max s c = (l, s') -> ~ In FFuel l.
Proof.
  intros l s'. rewrite feed_eq. destruct (r_over s).
  - intros [= <- _] [].
  - destruct (rund max (dapp (r_dec s) c)) as [[l1 d'] e] eqn:E.
    pose proof (rund_no_fuel max _ _ (Nat.le_refl _) _ _ _ E) as Hnf.
    destruct e; intros [= <- _]; [|exact Hnf].
    intros Hin. apply in_app_or in Hin. destruct Hin as [Hin|[Hin|[]]]; [auto|discriminate].
Qed.

Lemma finish_no_fuel max s : ~ In FFuel (finish max s).
Proof.
  rewrite finish_eq. destruct (r_over s); [intros []|].
  destruct (rund max (r_dec s)) as [[l d'] e] eqn:E.
  pose proof (rund_no_fuel max _ _ (Nat.le_refl _) _ _ _ E) as Hnf.
  assert (H1 : ~ In FFuel (l ++ [FEnd])).
  { intros Hin. apply in_app_or in Hin. destruct Hin as [Hin|[Hin|[]]]; [auto|discriminate]. }
  assert (H2 : ~ In FFuel (l ++ [FError; FEnd])).
  { intros Hin. apply in_app_or in Hin.
    destruct Hin as [Hin|[Hin|[Hin|[]]]]; [auto|discriminate|discriminate]. }
  destruct e; [exact H1|]. destruct (d_buf d'); assumption.
Qed.

Lemma feed_all_no_fuel max : forall chunks s l s',
  feed_all max s chunks = (l, s') -> ~ In FFuel l.
Proof.
  induction chunks as [|c r IH]; intros s l s'; cbn [feed_all].
  - intros [= <- _] [].
  - destruct (feed max s c) as [l1 s1] eqn:E1. destruct (feed_all max s1 r) as [l2 s2] eqn:E2.
    intros [= <- _] Hin. apply in_app_or in Hin. destruct Hin as [Hin|Hin].
    + exact (feed_no_fuel max s c _ _ E1 Hin).
    + exact (IH _ _ _ E2 Hin).
Qed.

Theorem framing_no_fuel_holds : forall max chunks, ~ In FFuel (read_stream max chunks).
Proof.
  intros max chunks. unfold read_stream.
  destruct (feed_all max rinit chunks) as [l s] eqn:E. intros Hin.
  apply in_app_or in Hin. destruct Hin as [Hin|Hin].
  - exact (feed_all_no_fuel max _ _ _ _ E Hin).
  - exact (finish_no_fuel max s Hin).
Qed.

(* ------------------------------------------------------------------------------------------ *)
(* in-memory channels *)

(* the monitor, started with the model's queue and writer flag, accepts the model's run *)
Lemma ch_mon_run (A : Type) (eqb : A -> A -> bool) : (forall a, eqb a a = true) ->
  forall cap (ops : list (ch_op A)) s,
  ch_mon eqb (ch_q s) (ch_tx s) ops (ch_run_from cap s ops) = true.
Proof.
  intros Hrefl cap. induction ops as [|o ops IH]; intros s; [reflexivity|].
  destruct s as [q parked tx]. destruct o as [a| |]; cbn [ch_run_from ch_step ch_q ch_parked ch_tx].
  - destruct tx; cbn [negb].
    + destruct parked.
      * cbn [ch_mon andb]. apply (IH {| ch_q := q; ch_parked := true; ch_tx := true |}).
      * cbn [ch_mon andb].
        apply (IH {| ch_q := q ++ [a];
                     ch_parked := match cap with
                                  | Some c => Nat.ltb c (length (q ++ [a]))
                                  | None => false
                                  end;
                     ch_tx := true |}).
    + cbn [ch_mon negb andb]. apply (IH {| ch_q := q; ch_parked := parked; ch_tx := false |}).
  - destruct q as [|b r].
    + destruct tx; cbn [ch_mon negb andb];
        apply (IH {| ch_q := []; ch_parked := parked; ch_tx := _ |}).
    + cbn [ch_mon]. rewrite Hrefl. cbn [andb].
      apply (IH {| ch_q := r; ch_parked := false; ch_tx := tx |}).
  - cbn [ch_mon]. apply (IH {| ch_q := q; ch_parked := parked; ch_tx := false |}).
Qed.

(* in-memory channels: the monitor accepts every run, for every capacity and every op list *)
Theorem fifo_holds : forall (A : Type) (eqb : A -> A -> bool),
  (forall a, eqb a a = true) ->
  forall cap (ops : list (ch_op A)), fifo_ok eqb ops (ch_run cap ops) = true.
Proof.
  intros A eqb Hrefl cap ops. exact (ch_mon_run A eqb Hrefl cap ops ch_init).
Qed.

Lemma ch_order_from (A : Type) cap : forall (ops : list (ch_op A)) s,
  exists queued,
    flat_map (fun o => match o with ChItem a => [a] | _ => [] end)
             (concat (ch_run_from cap s ops)) ++ queued =
    ch_q s ++
    flat_map (fun p => match p with (ChSend a, [ChSent]) => [a] | _ => [] end)
             (combine ops (ch_run_from cap s ops)).
Proof.
  induction ops as [|o ops IH]; intros s.
  - exists (ch_q s). cbn. rewrite app_nil_r. reflexivity.
  - destruct s as [q parked tx].
    destruct o as [a| |]; cbn [ch_run_from ch_step ch_q ch_parked ch_tx].
    + destruct tx; cbn [negb]; [destruct parked|].
      * destruct (IH {| ch_q := q; ch_parked := true; ch_tx := true |}) as [qd Hq].
        exists qd. exact Hq.
      * match goal with |- context [ch_run_from cap ?s' ops] => destruct (IH s') as [qd Hq] end.
        exists qd. cbn [concat combine flat_map app ch_q] in *.
        rewrite Hq, <- app_assoc. reflexivity.
      * destruct (IH {| ch_q := q; ch_parked := parked; ch_tx := false |}) as [qd Hq].
        exists qd. exact Hq.
    + destruct q as [|b r].
      * destruct (IH {| ch_q := []; ch_parked := parked; ch_tx := tx |}) as [qd Hq].
        exists qd. destruct tx; exact Hq.
      * destruct (IH {| ch_q := r; ch_parked := false; ch_tx := tx |}) as [qd Hq].
        exists qd. cbn [concat combine flat_map app ch_q] in *. rewrite Hq. reflexivity.
    + destruct (IH {| ch_q := q; ch_parked := parked; ch_tx := false |}) as [qd Hq].
      exists qd. exact Hq.
Qed.

(* state form: what has been delivered followed by what is queued is exactly what was accepted,
   in order *)
Theorem fifo_order_holds : forall (A : Type) cap (ops : list (ch_op A)),
  let tr := concat (ch_run cap ops) in
  let delivered := flat_map (fun o => match o with ChItem a => [a] | _ => [] end) tr in
  exists queued,
    delivered ++ queued =
    flat_map (fun p => match p with (ChSend a, [ChSent]) => [a] | _ => [] end)
             (combine ops (ch_run cap ops)).
Proof.
  intros A cap ops. cbv zeta. exact (ch_order_from A cap ops ch_init).
Qed.
