(* Shared executable helpers (no proofs). *)
From Coq Require Import List Bool NArith.
Import ListNotations.

Fixpoint list_eqb {A} (eqb : A -> A -> bool) (a b : list A) : bool :=
  match a, b with
  | [], [] => true
  | x :: a', y :: b' => eqb x y && list_eqb eqb a' b'
  | _, _ => false
  end.

Definition option_eqb {A} (eqb : A -> A -> bool) (a b : option A) : bool :=
  match a, b with
  | None, None => true
  | Some x, Some y => eqb x y
  | _, _ => false
  end.

(* verdict code of one correspondence case: bit 0 = model and implementation disagree,
   bit 1 = the property's monitor rejects the implementation's trace *)
Definition verdict (agree monitor_ok : bool) : N :=
  ((if agree then 0 else 1) + (if monitor_ok then 0 else 2))%N.
