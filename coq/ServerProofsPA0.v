(* Server proofs, group A, part 0: the hypothesis-dependent half of the observer/model invariant
   (ServerSpec.v header: (i) surely-open => tracked, (ii) provenance of queued responses,
   (iii) no stale server cancel), as a record InvH on top of ServerSim.InvU, and its preservation
   by the micro-steps of a Requests poll and by the other ops. *)
From Coq Require Import List Bool Arith NArith Lia.
Import ListNotations.
From TarpcV Require Import Base Transport TimerWheel Server ServerMon ServerFuel ServerContract
     ServerSim ServerSim2 ServerSim3 ServerSim4 ServerSim5 ServerSim6 ServerSim7.

(* k is the last incarnation with this id *)
Definition lastk (l : list oinc) (k : nat) (id : N) : Prop :=
  forall k' oi', k < k' -> nth_error l k' = Some oi' -> oi_id oi' <> id.

Definition unsent (x : hstate) : Prop :=
  match x with HYielded | HRunning | HWait _ | HPermit _ => True | _ => False end.
Definition over (x : hstate) : Prop := match x with HDone | HGone => True | _ => False end.

Lemma unsent_or_over : forall x, unsent x \/ over x.
Proof. destruct x; cbn; auto. Qed.
Lemma unsent_not_over : forall x, unsent x -> over x -> False.
Proof. destruct x; cbn; auto. Qed.

Lemma lastk_unique : forall l k1 k2 o1 o2 id,
  nth_error l k1 = Some o1 -> nth_error l k2 = Some o2 -> oi_id o1 = id -> oi_id o2 = id ->
  lastk l k1 id -> lastk l k2 id -> k1 = k2.
Proof.
  intros l k1 k2 o1 o2 id H1 H2 E1 E2 L1 L2.
  destruct (Nat.lt_trichotomy k1 k2) as [H|[H|H]]; [|exact H|].
  - exfalso. exact (L1 k2 o2 H H2 E2).
  - exfalso. exact (L2 k1 o1 H H1 E1).
Qed.

Lemma last_any_spec : forall id l,
  match last_any id l with
  | None => forall j x, nth_error l j = Some x -> oi_id x <> id
  | Some i => exists k, nth_error l k = Some i /\ oi_id i = id /\ lastk l k id
  end.
Proof.
  intros id l. unfold last_any.
  destruct (last_any_from_spec id l None _ eq_refl) as [[Hr Hall]|(j & x & Hr & Hn & Ho & Hlast)].
  - rewrite Hr. intros j x Hx Heq. specialize (Hall j x Hx). unfold has_id in Hall.
    rewrite Heq, N.eqb_refl in Hall. discriminate.
  - rewrite Hr. exists j. unfold has_id in Ho. apply N.eqb_eq in Ho. repeat split; auto.
    intros k' oi' Hlt Hk' Heq. specialize (Hlast k' oi' Hlt Hk'). unfold has_id in Hlast.
    rewrite Heq, N.eqb_refl in Hlast. discriminate.
Qed.

Lemma last_open_is_some : forall id l k x,
  nth_error l k = Some x -> oi_id x = id -> is_open (oi_wire x) = true -> last_open id l <> None.
Proof.
  intros id l k x Hk Hid Hop Hn. pose proof (last_open_none _ _ Hn k x Hk) as H.
  unfold open_id in H. rewrite Hid, N.eqb_refl, Hop in H. discriminate.
Qed.

Lemma lastk_close_at : forall kopt w l k id, lastk l k id -> lastk (close_at kopt w l) k id.
Proof.
  intros kopt w l k id L k' oi' Hlt Hk'. destruct (close_at_nth _ _ _ _ _ Hk') as (y & Hy & E & _).
  rewrite E. exact (L k' y Hlt Hy).
Qed.
Lemma lastk_close_at_inv : forall kopt w l k id, lastk (close_at kopt w l) k id -> lastk l k id.
Proof.
  intros kopt w l k id L k' oi' Hlt Hk'. destruct (close_at_nth_fwd kopt w l k' oi' Hk') as (x & Hx & E & _).
  rewrite <- E. exact (L k' x Hlt Hx).
Qed.

Section InvH.
  Context {T : Type}.
  Notation st := (@sstate T).

  (* incarnation k's entry is in the table (model only: through the abort-handle number) *)
  Definition trk (s : st) (k : nat) : Prop :=
    exists hr e, nth_error (s_handlers s) k = Some hr /\ In e (s_inflight s) /\ e_h e = h_h hr.

  (* every handler is tracked, aborted or over: an untracked handler makes no progress *)
  Definition Safe (s : st) : Prop :=
    forall k hr, nth_error (s_handlers s) k = Some hr ->
                 trk s k \/ In (h_h hr) (s_aborted s) \/ over (h_st hr).

  Record InvH (o : ostate) (s : st) : Prop := {
    h_open_tracked : forall k oi, nth_error (o_incs o) k = Some oi -> oi_wire oi = WOpen -> trk s k;
    h_open_last : forall k oi, nth_error (o_incs o) k = Some oi -> is_open (oi_wire oi) = true ->
                    lastk (o_incs o) k (oi_id oi);
    h_unsent : forall k hr oi, nth_error (s_handlers s) k = Some hr -> nth_error (o_incs o) k = Some oi ->
                 unsent (h_st hr) ->
                 lastk (o_incs o) k (oi_id oi) /\ oi_wire oi <> WAnswered
                 /\ ~ In (oi_id oi) (map resp_id (s_respq s));
    h_q_nodup : NoDup (map resp_id (s_respq s));
    h_q_prov : forall m, In m (s_respq s) ->
                 exists k hr oi, nth_error (s_handlers s) k = Some hr /\ nth_error (o_incs o) k = Some oi
                   /\ oi_id oi = resp_id m /\ lastk (o_incs o) k (resp_id m) /\ h_st hr = HDone
                   /\ oi_done oi = Some (resp_body m) /\ oi_wire oi <> WAnswered;
    h_cancels : forall id, In id (s_cancels s) ->
                  exists k hr oi, nth_error (s_handlers s) k = Some hr /\ nth_error (o_incs o) k = Some oi
                    /\ oi_id oi = id /\ lastk (o_incs o) k id /\ h_st hr = HGone
                    /\ oi_wire oi <> WOpen /\ oi_wire oi <> WAnswered;
    h_safe : Safe s }.

  (* the request accepted by the current poll and not yet handed out: under
     reuse_only_after_completion nothing else carries its id *)
  Record PendH (o : ostate) (s : st) (id : N) : Prop := {
    ph_closed : forall k oi, nth_error (o_incs o) k = Some oi -> oi_id oi = id -> is_open (oi_wire oi) = false;
    ph_over : forall k hr oi, nth_error (s_handlers s) k = Some hr -> nth_error (o_incs o) k = Some oi ->
                oi_id oi = id -> over (h_st hr);
    ph_noq : ~ In id (map resp_id (s_respq s));
    ph_nocancel : ~ In id (s_cancels s) }.

  Lemma trk_frame : forall (s s' : st) k,
    trk s k -> s_handlers s' = s_handlers s -> (forall e, In e (s_inflight s) -> In e (s_inflight s')) ->
    trk s' k.
  Proof. intros s s' k (hr & e & A & B & C) Hh Hi. exists hr, e. rewrite Hh. auto. Qed.

  (* the owner (InvU) of the entry of a tracked incarnation is that incarnation *)
  Lemma trk_owns : forall o (s : st) k,
    InvU o s -> all_owned o s -> c_err (o_v o) = false -> trk s k ->
    exists e, In e (s_inflight s) /\ owns o s k e.
  Proof.
    intros o s k HI Hall Hce (hr & e & A & B & C). exists e. split; [exact B|].
    destruct (Hall Hce e B) as (k' & Ho). destruct Ho as (hr' & oi' & A' & B' & C' & R).
    assert (k' = k) by (eapply NoDup_map_nth_inj; [exact (u_hnodup _ _ HI)|exact A'|exact A|congruence]).
    subst k'. exists hr', oi'. auto.
  Qed.

  Lemma owns_trk : forall o (s : st) k e, In e (s_inflight s) -> owns o s k e -> trk s k.
  Proof. intros o s k e He (hr & oi & A & B & C & _). exists hr, e. auto. Qed.

  (* what InvH reads *)
  Lemma InvH_frame : forall o o' (s s' : st),
    InvH o s -> o_incs o' = o_incs o -> s_handlers s' = s_handlers s -> s_inflight s' = s_inflight s ->
    s_aborted s' = s_aborted s -> s_respq s' = s_respq s -> s_cancels s' = s_cancels s -> InvH o' s'.
  Proof.
    intros o o' s s' [] E1 E2 E3 E4 E5 E6.
    constructor; unfold Safe, trk in *; rewrite ?E1, ?E2, ?E3, ?E4, ?E5, ?E6; assumption.
  Qed.

  Lemma PendH_frame : forall o o' (s s' : st) id,
    PendH o s id -> o_incs o' = o_incs o -> s_handlers s' = s_handlers s ->
    s_respq s' = s_respq s -> s_cancels s' = s_cancels s -> PendH o' s' id.
  Proof. intros o o' s s' id [] E1 E2 E5 E6. constructor; rewrite ?E1, ?E2, ?E5, ?E6; assumption. Qed.
End InvH.

(* ------------------------------------------------------------------------------------------ *)
(* the flags v08 / h_b1 through one transport call *)
Definition pend_open (o : ostate) : bool :=
  match o_pend o with
  | None => true
  | Some (id, _, _, _) => match last_open id (o_incs o) with Some _ => true | None => false end
  end.

Definition b1_hyp (id : N) (l : list oinc) : bool :=
  match last_any id l with
  | None => true
  | Some i => match oi_wire i with WAnswered | WOpen => true | _ => false end
  end.

Lemma pre_err_flags : forall o,
  v08 (o_v (pre_err o)) = v08 (o_v o) /\ v04 (o_v (pre_err o)) = v04 (o_v o).
Proof. intros o. unfold pre_err. destruct (o_errcall o); oproj; rewrite ?andb_true_r; auto. Qed.

Lemma ocall_flags_ready : forall lim o r,
  let o' := o_call lim o (CReady r) in
  v08 (o_v o') = v08 (o_v o) /\ v04 (o_v o') = v04 (o_v o) /\ h_b1 (o_v o') = h_b1 (o_v o)
  /\ o_incs o' = o_incs o /\ o_pend o' = o_pend o.
Proof.
  intros lim o r. cbv zeta. unfold o_call. fold (pre_err o).
  destruct (pre_err_proj o) as (A1 & A2 & A3 & A4 & A5 & A6 & A7 & A8 & A9 & A10 & A11 & A12 & A13 & A14 & A15 & A16).
  destruct (pre_err_flags o) as (F1 & F2). oproj. rewrite F1, F2, A15, A1, A5. repeat split; reflexivity.
Qed.
Lemma ocall_flags_flush : forall lim o r,
  let o' := o_call lim o (CFlush r) in
  v08 (o_v o') = v08 (o_v o) /\ v04 (o_v o') = v04 (o_v o) /\ h_b1 (o_v o') = h_b1 (o_v o)
  /\ o_incs o' = o_incs o /\ o_pend o' = o_pend o.
Proof.
  intros lim o r. cbv zeta. unfold o_call. fold (pre_err o).
  destruct (pre_err_proj o) as (A1 & A2 & A3 & A4 & A5 & A6 & A7 & A8 & A9 & A10 & A11 & A12 & A13 & A14 & A15 & A16).
  destruct (pre_err_flags o) as (F1 & F2). oproj. rewrite F1, F2, A15, A1, A5. repeat split; reflexivity.
Qed.

Lemma resolve_ignored_flags : forall o,
  v08 (o_v (resolve_ignored o)) = v08 (o_v o) && pend_open o
  /\ v04 (o_v (resolve_ignored o)) = v04 (o_v o) /\ h_b1 (o_v (resolve_ignored o)) = h_b1 (o_v o).
Proof.
  intros o. unfold resolve_ignored, pend_open. destruct (o_pend o) as [[[[id dl] tr] body]|]; oproj;
    rewrite ?andb_true_r; auto.
Qed.

Lemma ocall_flags_next : forall lim o r,
  let o' := o_call lim o (CNext r) in
  v08 (o_v o') = v08 (o_v o) && pend_open o /\ v04 (o_v o') = v04 (o_v o)
  /\ h_b1 (o_v o') = h_b1 (o_v o) && match r with
                                      | RItem (MReq id _ _ _) => b1_hyp id (o_incs o)
                                      | _ => true end.
Proof.
  intros lim o r. cbv zeta. unfold o_call. fold (pre_err o).
  destruct (pre_err_proj o) as (A1 & A2 & A3 & A4 & A5 & A6 & A7 & A8 & A9 & A10 & A11 & A12 & A13 & A14 & A15 & A16).
  destruct (pre_err_flags o) as (F1 & F2).
  destruct (resolve_ignored_flags (pre_err o)) as (R1 & R2 & R3).
  destruct (resolve_ignored_proj (pre_err o)) as (B1 & _).
  assert (Hpo : pend_open (pre_err o) = pend_open o) by (unfold pend_open; rewrite A5, A1; reflexivity).
  destruct r as [[id dl tr body|id tr]| | |].
  - oproj. rewrite R1, R2, R3, F1, F2, A15, Hpo, B1, A1, ?andb_true_r. unfold b1_hyp. repeat split; reflexivity.
  - destruct (last_open id (o_incs (resolve_ignored (pre_err o)))); oproj;
      rewrite R1, R2, R3, F1, F2, A15, Hpo, ?andb_true_r; repeat split; reflexivity.
  - oproj. rewrite R1, R2, R3, F1, F2, A15, Hpo, ?andb_true_r. repeat split; reflexivity.
  - oproj. rewrite R1, R2, R3, F1, F2, A15, Hpo, ?andb_true_r. repeat split; reflexivity.
  - oproj. rewrite R1, R2, R3, F1, F2, A15, Hpo, ?andb_true_r. repeat split; reflexivity.
Qed.

(* the last open incarnation of the id is not surely open *)
Definition not_must (id : N) (l : list oinc) : bool :=
  match last_open id l with
  | None => true
  | Some k => negb (match nth_error l k with Some i => is_must (oi_wire i) | None => false end)
  end.

Lemma accept_id_flags : forall id o,
  v08 (o_v (accept_id id o)) = v08 (o_v o) && not_must id (o_incs o)
  /\ v04 (o_v (accept_id id o)) = v04 (o_v o) /\ h_b1 (o_v (accept_id id o)) = h_b1 (o_v o).
Proof.
  intros id o. unfold accept_id, not_must. destruct (last_open id (o_incs o)); oproj;
    rewrite ?andb_true_r; auto.
Qed.

Definition body_ok (m : response) (l : list oinc) : bool :=
  match last_open (resp_id m) l with
  | Some k => match nth_error l k with
              | Some i => match oi_done i with Some b' => rbody_eqb (resp_body m) b' | None => false end
              | None => false end
  | None => false
  end.

Lemma ocall_flags_send : forall lim o m r,
  let o' := o_call lim o (CSend m r) in
  v08 (o_v o') = v08 (o_v o) && (match resp_body m with
                                 | BThrottle => not_must (resp_id m) (o_incs o)
                                 | _ => body_ok m (o_incs o) end)
  /\ v04 (o_v o') = v04 (o_v o) /\ h_b1 (o_v o') = h_b1 (o_v o).
Proof.
  intros lim o m r. cbv zeta. unfold o_call. fold (pre_err o).
  destruct (pre_err_proj o) as (A1 & A2 & A3 & A4 & A5 & A6 & A7 & A8 & A9 & A10 & A11 & A12 & A13 & A14 & A15 & A16).
  destruct (pre_err_flags o) as (F1 & F2).
  destruct (resp_body m) eqn:EB.
  1,2,4: (unfold body_ok; rewrite EB; destruct (last_open (resp_id m) (o_incs (pre_err o))) as [k|] eqn:EL;
          oproj; rewrite A1 in EL; rewrite EL, ?A1, F1, F2, A15, ?andb_true_r; repeat split; reflexivity).
  match goal with |- context [accept_id ?i ?x] =>
    destruct (accept_id_flags i x) as (D1 & D2 & D3) end.
  oproj. rewrite ?orb_false_r, ?andb_true_r.
  rewrite D1, D2, D3. oproj. rewrite ?andb_true_r, F1, F2, A15, A1. repeat split; reflexivity.
Qed.

Section Steps.
  Context {T : Type}.
  Notation st := (@sstate T).

  (* ---- one incarnation is closed (Cancel read, response written), the model unchanged -------- *)
  Lemma InvH_close : forall o o' (s : st) kopt w,
    InvH o s -> length (o_incs o) = length (s_handlers s) ->
    o_incs o' = close_at kopt w (o_incs o) -> is_open w = false ->
    (w = WAnswered -> forall kc hr oi, kopt = Some kc -> nth_error (s_handlers s) kc = Some hr ->
       nth_error (o_incs o) kc = Some oi ->
       h_st hr = HDone /\ forall m, In m (s_respq s) -> resp_id m <> oi_id oi) ->
    InvH o' s.
  Proof.
    intros o o' s kopt w [H1 H2 H3 H4 H5 H6 H7] Hlen Hi Hw Hans.
    constructor; rewrite ?Hi; auto.
    - intros k oi Hk Ho. destruct (close_at_nth _ _ _ _ _ Hk) as (y & Hy & _ & _ & _ & _ & _ & [[_ W]|[_ W]]).
      + rewrite W in Ho. subst w. discriminate.
      + apply (H1 k y Hy). congruence.
    - intros k oi Hk Ho. destruct (close_at_nth _ _ _ _ _ Hk) as (y & Hy & E & _ & _ & _ & _ & [[_ W]|[_ W]]).
      + rewrite W, Hw in Ho. discriminate.
      + rewrite E. apply lastk_close_at. apply (H2 k y Hy). congruence.
    - intros k hr oi Hk Hoi Hu. destruct (close_at_nth _ _ _ _ _ Hoi) as (y & Hy & E & _ & _ & _ & _ & W).
      destruct (H3 k hr y Hk Hy Hu) as (L & Wn & Q). rewrite E. split; [apply lastk_close_at, L|split; [|exact Q]].
      destruct W as [[Ek W]|[_ W]]; [|congruence]. rewrite W. intros ->.
      destruct (Hans eq_refl k hr y Ek Hk Hy) as (Hd & _). rewrite Hd in Hu. exact Hu.
    - intros m Hm. destruct (H5 m Hm) as (k & hr & oi & A & B & C & D & E & F & G).
      destruct (close_at_nth_fwd kopt w _ k oi B) as (x & Hx & E1 & _ & E3 & _ & W).
      exists k, hr, x. repeat split; auto; try congruence; [apply lastk_close_at, D|].
      destruct W as [[Ek W]|[_ W]]; [|congruence]. rewrite W. intros ->.
      destruct (Hans eq_refl k hr oi Ek A B) as (_ & Hq). apply (Hq m Hm). congruence.
    - intros id Hid. destruct (H6 id Hid) as (k & hr & oi & A & B & C & D & E & F & G).
      destruct (close_at_nth_fwd kopt w _ k oi B) as (x & Hx & E1 & _ & E3 & _ & W).
      exists k, hr, x. repeat split; auto; try congruence; [apply lastk_close_at, D| |].
      + destruct W as [[_ W]|[_ W]]; [rewrite W; intros ->; discriminate|congruence].
      + destruct W as [[Ek W]|[_ W]]; [|congruence]. rewrite W. intros ->.
        destruct (Hans eq_refl k hr oi Ek A B) as (Hd & _). congruence.
  Qed.

  (* ---- the entries of one id leave the table ------------------------------------------------- *)
  Lemma InvH_drop : forall o o' (s s' : st) id,
    InvH o s -> length (o_incs o) = length (s_handlers s) ->
    o_incs o' = o_incs o -> s_inflight s' = drop_entry id (s_inflight s) ->
    s_handlers s' = s_handlers s -> s_respq s' = s_respq s ->
    (forall x, In x (s_cancels s') -> In x (s_cancels s)) ->
    (forall h, In h (s_aborted s) -> In h (s_aborted s')) ->
    (* the handler whose entry goes away *)
    (forall k hr e, nth_error (s_handlers s) k = Some hr -> In e (s_inflight s) -> e_h e = h_h hr ->
       e_id e = id ->
       (forall oi, nth_error (o_incs o) k = Some oi -> oi_wire oi <> WOpen)
       /\ (In (h_h hr) (s_aborted s') \/ over (h_st hr))) ->
    InvH o' s'.
  Proof.
    intros o o' s s' id [H1 H2 H3 H4 H5 H6 H7] Hlen Hi Hf Hh Hq Hc Ha Hown.
    assert (Htrk : forall k, trk s k -> trk s' k \/
              exists hr e, nth_error (s_handlers s) k = Some hr /\ In e (s_inflight s) /\ e_h e = h_h hr /\ e_id e = id).
    { intros k (hr & e & A & B & C). destruct (N.eq_dec (e_id e) id) as [E|E].
      - right. exists hr, e. auto.
      - left. exists hr, e. rewrite Hh, Hf. repeat split; auto. apply in_drop_entry. auto. }
    constructor; rewrite ?Hi, ?Hh, ?Hq.
    - intros k oi Hk Ho. destruct (Htrk k (H1 k oi Hk Ho)) as [Ht|(hr & e & A & B & C & D)]; [exact Ht|].
      exfalso. destruct (Hown k hr e A B C D) as (W & _). exact (W oi Hk Ho).
    - exact H2.
    - exact H3.
    - exact H4.
    - exact H5.
    - intros idc Hidc. apply H6. apply Hc. exact Hidc.
    - intros k hr Hk. rewrite Hh in Hk. destruct (H7 k hr Hk) as [Ht|[Hab|Hov]].
      + destruct (Htrk k Ht) as [Ht'|(hr' & e & A & B & C & D)]; [left; exact Ht'|right].
        rewrite Hk in A. inversion A; subst hr'. apply (Hown k hr e Hk B C D).
      + right; left. apply Ha. exact Hab.
      + right; right. exact Hov.
  Qed.

  (* ---- an entry is added (start_request) ------------------------------------------------------- *)
  Lemma InvH_grow : forall o o' (s s' : st),
    InvH o s -> o_incs o' = o_incs o -> s_handlers s' = s_handlers s ->
    (forall e, In e (s_inflight s) -> In e (s_inflight s')) ->
    s_aborted s' = s_aborted s -> s_respq s' = s_respq s -> s_cancels s' = s_cancels s -> InvH o' s'.
  Proof.
    intros o o' s s' [H1 H2 H3 H4 H5 H6 H7] Hi Hh Hf Ha Hq Hc.
    constructor; rewrite ?Hi, ?Hh, ?Hq, ?Hc.
    - intros k oi Hk Ho. eapply trk_frame; eauto.
    - exact H2.
    - exact H3.
    - exact H4.
    - exact H5.
    - exact H6.
    - intros k hr Hk. rewrite Hh in Hk. destruct (H7 k hr Hk) as [Ht|[Hab|Hov]]; auto.
      + left. eapply trk_frame; eauto.
      + right; left. rewrite Ha. exact Hab.
  Qed.

  (* ---- handler states move among the unsent ones; the head of the response queue is popped ---- *)
  Lemma InvH_hst : forall o o' (s s' : st),
    InvH o s -> o_incs o' = o_incs o ->
    (forall j hr', nth_error (s_handlers s') j = Some hr' ->
       exists hr, nth_error (s_handlers s) j = Some hr /\ h_h hr' = h_h hr
                  /\ (h_st hr' = h_st hr \/ (unsent (h_st hr) /\ unsent (h_st hr'))
                      \/ (unsent (h_st hr) /\ h_st hr' = HDone))) ->
    (forall j hr, nth_error (s_handlers s) j = Some hr -> exists hr', nth_error (s_handlers s') j = Some hr') ->
    s_inflight s' = s_inflight s -> (forall h, In h (s_aborted s) -> In h (s_aborted s')) ->
    (forall m, In m (s_respq s') -> In m (s_respq s)) -> NoDup (map resp_id (s_respq s')) ->
    s_cancels s' = s_cancels s -> InvH o' s'.
  Proof.
    intros o o' s s' [H1 H2 H3 H4 H5 H6 H7] Hi Hh Hh' Hf Ha Hq Hnd Hc.
    assert (Htrk : forall k, trk s k -> trk s' k).
    { intros k (hr & e & A & B & C). destruct (Hh' k hr A) as (hr' & A').
      destruct (Hh k hr' A') as (hr0 & A0 & E & _). rewrite A in A0. inversion A0; subst hr0.
      exists hr', e. rewrite Hf. repeat split; auto. congruence. }
    assert (Hqin : forall id, In id (map resp_id (s_respq s')) -> In id (map resp_id (s_respq s))).
    { intros id Hin. apply in_map_iff in Hin. destruct Hin as (m & E & Hm). apply in_map_iff. exists m. auto. }
    constructor; rewrite ?Hi, ?Hc.
    - intros k oi Hk Ho. apply Htrk. eapply H1; eauto.
    - exact H2.
    - intros k hr' oi Hk Hoi Hu. destruct (Hh k hr' Hk) as (hr & A & E & St).
      assert (Hu0 : unsent (h_st hr)).
      { destruct St as [St|[[St _]|[St St']]]; [rewrite <- St; exact Hu|exact St|exact St]. }
      destruct (H3 k hr oi A Hoi Hu0) as (L & W & Q). repeat split; auto.
    - exact Hnd.
    - intros m Hm. destruct (H5 m (Hq m Hm)) as (k & hr & oi & A & B & C & D & E & F & G).
      destruct (Hh' k hr A) as (hr' & A'). destruct (Hh k hr' A') as (hr0 & A0 & _ & St).
      rewrite A in A0. inversion A0; subst hr0.
      exists k, hr', oi. repeat split; auto.
      destruct St as [St|[[St _]|[St _]]]; [congruence|rewrite E in St; destruct St|rewrite E in St; destruct St].
    - intros id Hid. destruct (H6 id Hid) as (k & hr & oi & A & B & C & D & E & F & G).
      destruct (Hh' k hr A) as (hr' & A'). destruct (Hh k hr' A') as (hr0 & A0 & _ & St).
      rewrite A in A0. inversion A0; subst hr0.
      exists k, hr', oi. repeat split; auto.
      destruct St as [St|[[St _]|[St _]]]; [congruence|rewrite E in St; destruct St|rewrite E in St; destruct St].
    - intros k hr' Hk. destruct (Hh k hr' Hk) as (hr & A & E & St).
      destruct (H7 k hr A) as [Ht|[Hab|Hov]].
      + left. apply Htrk. exact Ht.
      + right; left. rewrite E. apply Ha. exact Hab.
      + right; right. destruct St as [St|[[St _]|[St _]]]; [rewrite St; exact Hov| |];
          exfalso; eapply unsent_not_over; eauto.
  Qed.
End Steps.

Section MicroH.
  Context {T : Type}.
  Variable tp : transport T response cmsg.
  Variable lim : option nat.
  Notation st := (@sstate T).

  (* a request that was read and ignored is resolved at the next read: until then its id stays
     possibly-tracked, and the transport has not ended *)
  Definition pend_ok (o : ostate) (s : st) : Prop :=
    match o_pend o with
    | None => True
    | Some (id, _, _, _) => s_fused s = false /\ last_open id (o_incs o) <> None
    end.

  Definition GH (o : ostate) (s : st) : Prop :=
    h_b1 (o_v o) = true -> InvH o s /\ v08 (o_v o) = true.
  Definition BH (o : ostate) (s : st) : Prop := pend_ok o s /\ GH o s.
  Definition QH (o : ostate) (s : st) (q : treq) : Prop :=
    h_b1 (o_v o) = true -> InvH o s /\ v08 (o_v o) = true /\ PendH o s (q_id q).

  Lemma pend_ok_open : forall o s, pend_ok o s -> pend_open o = true.
  Proof.
    intros o s H. unfold pend_ok, pend_open in *. destruct (o_pend o) as [[[[id dl] tr] body]|]; [|reflexivity].
    destruct H as [_ H]. destruct (last_open id (o_incs o)); [reflexivity|congruence].
  Qed.

  (* ---- calls that only move flags -------------------------------------------------------------- *)
  Lemma GH_frame : forall o o' (s s' : st),
    GH o s -> o_incs o' = o_incs o -> v08 (o_v o') = v08 (o_v o) -> h_b1 (o_v o') = h_b1 (o_v o) ->
    same_core s s' -> s_respq s' = s_respq s -> GH o' s'.
  Proof.
    intros o o' s s' G Hi Hv Hb (C1 & C2 & C3 & C4 & C5 & C6 & C7 & C8) Hq Hb'.
    rewrite Hb in Hb'. destruct (G Hb') as (A & B). split; [|congruence].
    eapply InvH_frame; eauto.
  Qed.

  Lemma QH_frame : forall o o' (s s' : st) q,
    QH o s q -> o_incs o' = o_incs o -> v08 (o_v o') = v08 (o_v o) -> h_b1 (o_v o') = h_b1 (o_v o) ->
    same_core s s' -> s_respq s' = s_respq s -> QH o' s' q.
  Proof.
    intros o o' s s' q G Hi Hv Hb (C1 & C2 & C3 & C4 & C5 & C6 & C7 & C8) Hq Hb'.
    rewrite Hb in Hb'. destruct (G Hb') as (A & B & P). split; [|split; [congruence|]].
    - eapply InvH_frame; eauto.
    - eapply PendH_frame; eauto.
  Qed.

  Lemma pend_ok_frame : forall o o' (s s' : st),
    pend_ok o s -> o_incs o' = o_incs o -> o_pend o' = o_pend o -> s_fused s' = s_fused s -> pend_ok o' s'.
  Proof. intros o o' s s' H Hi Hp Hf. unfold pend_ok in *. rewrite Hi, Hp, Hf. exact H. Qed.

  Lemma BH_ready : forall o (s : st) r s',
    BH o s -> do_ready tp s = (r, s') -> BH (o_call lim o (CReady r)) s'.
  Proof.
    intros o s r s' (P & G) H. destruct (do_ready_core tp _ _ _ H) as (C & F & Q & _).
    destruct (ocall_flags_ready lim o r) as (V8 & _ & B1 & I & Pn). cbv zeta in *.
    split; [eapply pend_ok_frame; eauto|eapply GH_frame; eauto].
  Qed.
  Lemma BH_flush : forall o (s : st) r s',
    BH o s -> do_flush tp s = (r, s') -> BH (o_call lim o (CFlush r)) s'.
  Proof.
    intros o s r s' (P & G) H. destruct (do_flush_core tp _ _ _ H) as (C & F & Q & _).
    destruct (ocall_flags_flush lim o r) as (V8 & _ & B1 & I & Pn). cbv zeta in *.
    split; [eapply pend_ok_frame; eauto|eapply GH_frame; eauto].
  Qed.
  Lemma QH_ready : forall o (s : st) q r s',
    QH o s q -> do_ready tp s = (r, s') -> QH (o_call lim o (CReady r)) s' q.
  Proof.
    intros o s q r s' G H. destruct (do_ready_core tp _ _ _ H) as (C & F & Q & _).
    destruct (ocall_flags_ready lim o r) as (V8 & _ & B1 & I & Pn). cbv zeta in *. eapply QH_frame; eauto.
  Qed.
  Lemma QH_flush : forall o (s : st) q r s',
    QH o s q -> do_flush tp s = (r, s') -> QH (o_call lim o (CFlush r)) s' q.
  Proof.
    intros o s q r s' G H. destruct (do_flush_core tp _ _ _ H) as (C & F & Q & _).
    destruct (ocall_flags_flush lim o r) as (V8 & _ & B1 & I & Pn). cbv zeta in *. eapply QH_frame; eauto.
  Qed.

  (* ---- the owner of the tracked entry of an id ------------------------------------------------- *)
  Lemma owner_of_id : forall o (s : st) e,
    InvU o s -> all_owned o s -> c_err (o_v o) = false -> In e (s_inflight s) ->
    exists k hr oi, nth_error (s_handlers s) k = Some hr /\ nth_error (o_incs o) k = Some oi
      /\ h_h hr = e_h e /\ oi_id oi = e_id e /\ is_open (oi_wire oi) = true
      /\ lastk (o_incs o) k (e_id e) /\ last_open (e_id e) (o_incs o) = Some k.
  Proof.
    intros o s e HI Hall Hce He. destruct (Hall Hce e He) as (k & hr & oi & A & B & C & D & E & F & G).
    exists k, hr, oi. repeat split; auto.
    destruct (last_open (e_id e) (o_incs o)) as [k'|] eqn:EL.
    - destruct (last_open_some _ _ _ EL) as (x & Hx & Hop & _). apply open_id_true in Hop. destruct Hop as [X1 X2].
      f_equal. apply (u_one_open _ _ HI k' k x oi Hx B); auto. congruence.
    - exfalso. eapply last_open_is_some; eauto.
  Qed.

  (* any handler holding an entry e is e's owner *)
  Lemma holder_is_owner : forall o (s : st) e k hr k' hr',
    InvU o s -> nth_error (s_handlers s) k = Some hr -> h_h hr = e_h e ->
    nth_error (s_handlers s) k' = Some hr' -> h_h hr' = e_h e -> k = k' /\ hr = hr'.
  Proof.
    intros o s e k hr k' hr' HI A B A' B'.
    assert (k = k') by (eapply NoDup_map_nth_inj; [exact (u_hnodup _ _ HI)|exact A|exact A'|congruence]).
    subst k'. split; [reflexivity|congruence].
  Qed.

  (* ---- the server-side cancel queue hands out one id ------------------------------------------- *)
  Lemma BH_server_cancel : forall o (s : st) id r,
    InvU o s -> all_owned o s -> c_err (o_v o) = false -> BH o s -> s_cancels s = id :: r ->
    BH o (snd (remove_request id (set_cancels s r))).
  Proof.
    intros o s id r HI Hall Hce (P & G) Hc.
    set (s0 := set_cancels s r).
    destruct (remove_request_shape id s0) as [(_ & Heq & Hnone)|(_ & (e & He) & B1 & B2 & B3 & B4 & B5 & B6 & B7 & B8 & B9 & B10 & B11 & _)];
      cbv zeta in *.
    - rewrite Heq. split; [eapply pend_ok_frame; eauto|]. intros Hb. destruct (G Hb) as (A & B). split; [|exact B].
      destruct A as [H1 H2 H3 H4 H5 H6 H7]. subst s0. constructor; sproj; auto.
      intros id' Hin. apply H6. rewrite Hc. right. exact Hin.
    - split; [eapply pend_ok_frame; eauto; subst s0; sproj; auto|].
      intros Hb. destruct (G Hb) as (A & B). split; [|exact B].
      apply (InvH_drop o o s _ id A (u_len _ _ HI) eq_refl); subst s0; sproj; auto.
      + intros x Hx. rewrite B6 in Hx. rewrite Hc. right. exact Hx.
      + intros h Hh. rewrite B5. exact Hh.
      + intros k hr e0 Hk He0 Hh Hid.
        destruct (owner_of_id o s e0 HI Hall Hce He0) as (k1 & hr1 & oi1 & X1 & X2 & X3 & X4 & X5 & X6 & X7).
        destruct (holder_is_owner o s e0 k hr k1 hr1 HI Hk (eq_sym Hh) X1 X3) as (-> & ->).
        destruct (h_cancels _ _ A id) as (ko & hro & oio & Y1 & Y2 & Y3 & Y4 & Y5 & Y6 & Y7); [rewrite Hc; left; reflexivity|].
        rewrite Hid in X4, X6.
        assert (k1 = ko) by (eapply lastk_unique; eauto). subst ko.
        rewrite X1 in Y1. inversion Y1; subst hro. rewrite X2 in Y2. inversion Y2; subst oio.
        split; [intros oi Hoi; rewrite X2 in Hoi; inversion Hoi; subst oi; exact Y6|].
        right. rewrite Y5. exact I.
  Qed.

  (* ---- expiry --------------------------------------------------------------------------------------- *)
  Lemma BH_expired : forall o (s : st) r s',
    InvU o s -> BH o s -> poll_expired s = (r, s') -> BH o s'.
  Proof.
    intros o s r s' HI (P & G) H.
    destruct (poll_expired_shape _ _ _ H) as (A1 & A2 & A3 & A4 & A5 & A6 & A7 & _ & _ & _ & _ & HH).
    split; [eapply pend_ok_frame; eauto|]. intros Hb. destruct (G Hb) as (A & B). split; [|exact B].
    destruct HH as [(Hr & B1 & B2 & B3 & _)|(Hr & id & w & C1 & C2 & C3 & C4 & C5)].
    - eapply InvH_frame; eauto.
    - apply (InvH_drop o o s s' id A (u_len _ _ HI) eq_refl); auto.
      + intros x Hx. rewrite A3 in Hx. exact Hx.
      + intros h Hh. rewrite C5. destruct (find_entry id s); [right|]; exact Hh.
      + intros k hr e Hk He Hh Hid.
        assert (Hfe : find_entry id s = Some e).
        { destruct (find_entry id s) as [e'|] eqn:EF.
          - destruct (find_entry_some _ _ _ EF) as (He' & Hid'). f_equal.
            apply (NoDup_map_in_inj _ _ e_id (s_inflight s)); [exact (u_idnodup _ _ HI)|exact He'|exact He|congruence].
          - exfalso. exact (find_entry_none _ _ EF e He Hid). }
        split.
        * intros oi Hoi. eapply (due_owner_not_open o s id w e k hr oi); eauto.
        * left. rewrite C5, Hfe. left. auto.
  Qed.

  Lemma owns_facts : forall o (s : st) k e,
    InvU o s -> owns o s k e ->
    exists hr oi, nth_error (s_handlers s) k = Some hr /\ nth_error (o_incs o) k = Some oi
      /\ h_h hr = e_h e /\ oi_id oi = e_id e /\ is_open (oi_wire oi) = true
      /\ lastk (o_incs o) k (e_id e) /\ last_open (e_id e) (o_incs o) = Some k.
  Proof.
    intros o s k e HI (hr & oi & A & B & C & D & E & F & G).
    exists hr, oi. repeat split; auto.
    destruct (last_open (e_id e) (o_incs o)) as [k'|] eqn:EL.
    - destruct (last_open_some _ _ _ EL) as (x & Hx & Hop & _). apply open_id_true in Hop. destruct Hop as [X1 X2].
      f_equal. apply (u_one_open _ _ HI k' k x oi Hx B); auto. congruence.
    - exfalso. eapply last_open_is_some; eauto.
  Qed.

  Lemma rbody_eqb_refl : forall b, rbody_eqb b b = true.
  Proof. destruct b; cbn; auto. apply N.eqb_refl. Qed.

  Lemma last_open_closed : forall id l,
    (forall k oi, nth_error l k = Some oi -> oi_id oi = id -> is_open (oi_wire oi) = false) ->
    last_open id l = None.
  Proof.
    intros id l H. destruct (last_open id l) as [k|] eqn:EL; [|reflexivity].
    destruct (last_open_some _ _ _ EL) as (x & Hx & Hop & _). apply open_id_true in Hop. destruct Hop as [X1 X2].
    rewrite (H k x Hx X1) in X2. discriminate.
  Qed.

  (* ---- poll_next of the transport: nothing / end / error ---------------------------------------- *)
  Lemma BH_next_idle : forall o (s : st) r s3,
    BH o s -> do_next tp s = (r, s3) -> match r with RItem _ => False | _ => True end ->
    BH (o_call lim o (CNext r)) (match r with REof => set_fused s3 true | _ => s3 end).
  Proof.
    intros o s r s3 (P & G) H Hr.
    destruct (do_next_core tp _ _ _ H) as ((C1 & C2 & C3 & C4 & C5 & C6 & C7 & C8) & F & Q & _).
    destruct (ocall_next_proj lim o r) as (_ & _ & _ & _ & _ & _ & P7).
    destruct (ocall_flags_next lim o r) as (V8 & _ & B1). cbv zeta in *.
    rewrite (pend_ok_open _ _ P), andb_true_r in V8.
    assert (HI : o_incs (o_call lim o (CNext r)) = o_incs o /\ o_pend (o_call lim o (CNext r)) = None).
    { destruct r as [m| | |]; [contradiction| | |]; tauto. }
    destruct HI as (I & Pn).
    assert (B1' : h_b1 (o_v (o_call lim o (CNext r))) = h_b1 (o_v o)).
    { destruct r as [m| | |]; [contradiction| | |]; rewrite B1, andb_true_r; reflexivity. }
    split; [unfold pend_ok; rewrite Pn; exact Logic.I|].
    intros Hb. rewrite B1' in Hb. destruct (G Hb) as (A & B). split; [|congruence].
    destruct r as [m| | |]; [contradiction| | |]; eapply InvH_frame; eauto; sproj; auto.
  Qed.

  (* ---- a Cancel message ------------------------------------------------------------------------------ *)
  Lemma BH_next_cancel : forall o (s : st) id tr s3,
    InvU o s -> all_owned o s -> c_err (o_v o) = false -> BH o s ->
    do_next tp s = (RItem (MCancel id tr), s3) ->
    BH (o_call lim o (CNext (RItem (MCancel id tr)))) (cancel_request id s3).
  Proof.
    intros o s id tr s3 HI Hall Hce (P & G) H.
    destruct (do_next_core tp _ _ _ H) as ((C1 & C2 & C3 & C4 & C5 & C6 & C7 & C8) & F & Q & _).
    destruct (ocall_next_proj lim o (RItem (MCancel id tr))) as (_ & _ & _ & _ & _ & _ & I & Pn).
    destruct (ocall_flags_next lim o (RItem (MCancel id tr))) as (V8 & _ & B1). cbv zeta in *.
    rewrite (pend_ok_open _ _ P), andb_true_r in V8. rewrite andb_true_r in B1.
    split; [unfold pend_ok; rewrite Pn; exact Logic.I|].
    intros Hb. rewrite B1 in Hb. destruct (G Hb) as (A & B). split; [|congruence].
    set (o' := o_call lim o (CNext (RItem (MCancel id tr)))) in *.
    assert (A3 : InvH o s3) by (eapply InvH_frame; eauto).
    assert (Hlen3 : length (o_incs o) = length (s_handlers s3)) by (rewrite C1; exact (u_len _ _ HI)).
    assert (A3' : InvH o' s3).
    { apply (InvH_close o o' s3 (last_open id (o_incs o)) WCancelled A3 Hlen3 I eq_refl). discriminate. }
    destruct (cancel_request_shape id s3) as [(Heq & _)|(e & Hfe & B1' & B2 & B3 & B4 & B5 & B6 & B7 & B8 & B9 & B10 & _)];
      cbv zeta in *.
    - rewrite Heq. exact A3'.
    - apply (InvH_drop o' o' s3 _ id A3'); auto.
      + rewrite I, close_at_length. exact Hlen3.
      + intros x Hx. rewrite B6 in Hx. exact Hx.
      + intros h Hh. rewrite B3. right. exact Hh.
      + intros k hr e0 Hk He0 Hh Hid.
        destruct (find_entry_some _ _ _ Hfe) as (He & Hide).
        assert (e0 = e).
        { apply (NoDup_map_in_inj _ _ e_id (s_inflight s3)); [rewrite C3; exact (u_idnodup _ _ HI)|exact He0|exact He|congruence]. }
        subst e0. rewrite C3 in He. rewrite C1 in Hk.
        destruct (Hall Hce e He) as (k1 & Ho).
        destruct (owns_facts o s k1 e HI Ho) as (hr1 & oi1 & X1 & X2 & X3 & X4 & X5 & X6 & X7).
        destruct (holder_is_owner o s e k hr k1 hr1 HI Hk (eq_sym Hh) X1 X3) as (-> & ->).
        split.
        * intros oi Hoi. rewrite I in Hoi.
          destruct (close_at_nth _ _ _ _ _ Hoi) as (y & Hy & _ & _ & _ & _ & _ & [[_ W]|[W _]]).
          -- rewrite W. discriminate.
          -- exfalso. apply W. rewrite <- Hide. exact X7.
        * left. rewrite B3. left. auto.
  Qed.

  (* ---- a request whose id is tracked: ignored ------------------------------------------------------ *)
  Lemma BH_next_dup : forall o (s : st) id dl tr body s3,
    InvU o s -> all_owned o s -> c_err (o_v o) = false -> BH o s ->
    do_next tp s = (RItem (MReq id dl tr body), s3) -> s_fused s = false ->
    start_request id dl s3 = None ->
    BH (o_call lim o (CNext (RItem (MReq id dl tr body)))) s3.
  Proof.
    intros o s id dl tr body s3 HI Hall Hce (P & G) H Hf Hs.
    destruct (do_next_core tp _ _ _ H) as ((C1 & C2 & C3 & C4 & C5 & C6 & C7 & C8) & F & Q & _).
    destruct (ocall_next_proj lim o (RItem (MReq id dl tr body))) as (_ & _ & _ & _ & _ & _ & I & Pn).
    destruct (ocall_flags_next lim o (RItem (MReq id dl tr body))) as (V8 & _ & B1). cbv zeta in *.
    rewrite (pend_ok_open _ _ P), andb_true_r in V8.
    split.
    - unfold pend_ok. rewrite Pn, I. split; [congruence|].
      assert (Ht : tracked id s3 = true).
      { unfold start_request in Hs. destruct (tracked id s3); [reflexivity|discriminate]. }
      apply tracked_find in Ht. destruct Ht as (e & Hfe). destruct (find_entry_some _ _ _ Hfe) as (He & Hid).
      rewrite C3 in He. destruct (Hall Hce e He) as (k & Ho).
      destruct (owns_facts o s k e HI Ho) as (hr & oi & _ & _ & _ & _ & _ & _ & X7). rewrite Hid in X7. congruence.
    - intros Hb. rewrite B1 in Hb. apply andb_true_iff in Hb. destruct Hb as [Hb _].
      destruct (G Hb) as (A & B). split; [|congruence]. eapply InvH_frame; eauto.
  Qed.
End MicroH.

(* ------------------------------------------------------------------------------------------ *)
(* INTERFACE (for groups B and C).  Along every run, while h_b1 && h_stop hold:
     Safe s            every handler is tracked, aborted or over (also after a stream error);
     v08, v04          the C08 / C04 flags;
     InvH o s          while no poll has returned a stream error.
   Consequences: `invh_open_entry` (C's clause 1), `safe_running` (C's clause 2),
   `invh_cancel_owner` (B's iii'), `invh_closed_over` (B's iv). *)
Section TopH.
  Context {T : Type}.
  Notation st := (@sstate T).

  Definition TopH (o : ostate) (s : st) : Prop :=
    h_stop (o_v o) = true -> h_b1 (o_v o) = true ->
    Safe s /\ v08 (o_v o) = true /\ v04 (o_v o) = true
    /\ (c_err (o_v o) = false -> InvH o s).

  Lemma invh_open_entry : forall o (s : st) k hr oi,
    InvH o s -> nth_error (s_handlers s) k = Some hr -> nth_error (o_incs o) k = Some oi ->
    oi_wire oi = WOpen -> exists e, In e (s_inflight s) /\ e_h e = h_h hr.
  Proof.
    intros o s k hr oi H Hk Hoi Hw. destruct (h_open_tracked _ _ H k oi Hoi Hw) as (hr' & e & A & B & C).
    rewrite Hk in A. inversion A; subst hr'. eauto.
  Qed.

  Lemma safe_running : forall (s : st) k hr,
    Safe s -> nth_error (s_handlers s) k = Some hr -> h_st hr = HYielded \/ h_st hr = HRunning ->
    (exists e, In e (s_inflight s) /\ e_h e = h_h hr) \/ In (h_h hr) (s_aborted s).
  Proof.
    intros s k hr H Hk Hst. destruct (H k hr Hk) as [(hr' & e & A & B & C)|[Hab|Hov]].
    - left. rewrite Hk in A. inversion A; subst hr'. eauto.
    - right. exact Hab.
    - exfalso. destruct Hst as [E|E]; rewrite E in Hov; exact Hov.
  Qed.

  Lemma invh_cancel_owner : forall o (s : st) e k oi,
    InvU o s -> InvH o s -> In e (s_inflight s) -> In (e_id e) (s_cancels s) -> owns o s k e ->
    nth_error (o_incs o) k = Some oi -> oi_wire oi <> WOpen.
  Proof.
    intros o s e k oi HI H He Hc Ho Hoi.
    destruct (owns_facts o s k e HI Ho) as (hr1 & oi1 & X1 & X2 & X3 & X4 & X5 & X6 & X7).
    destruct (h_cancels _ _ H _ Hc) as (ko & hro & oio & Y1 & Y2 & Y3 & Y4 & Y5 & Y6 & Y7).
    assert (k = ko) by (eapply lastk_unique; eauto). subst ko. congruence.
  Qed.

  Lemma invh_closed_over : forall o (s : st) k hr oi,
    InvU o s -> all_owned o s -> c_err (o_v o) = false -> Safe s ->
    nth_error (s_handlers s) k = Some hr -> nth_error (o_incs o) k = Some oi ->
    is_open (oi_wire oi) = false -> In (h_h hr) (s_aborted s) \/ over (h_st hr).
  Proof.
    intros o s k hr oi HI Hall Hce H Hk Hoi Hw. destruct (H k hr Hk) as [Ht|R]; [|exact R].
    exfalso. destruct (trk_owns o s k HI Hall Hce Ht) as (e & He & Ho).
    destruct (owns_facts o s k e HI Ho) as (hr1 & oi1 & X1 & X2 & X3 & X4 & X5 & _). congruence.
  Qed.
End TopH.

(* the theorem `run_invh` (below, once proved) has this statement *)
Definition run_invh_statement : Prop :=
  forall (T C : Type) (tp : transport T response cmsg) (ctl : T -> C -> T) (tfuel : T -> nat),
    tfuel_ok tp tfuel ->
    forall (c : cfg) (ops : list (op C)) (o : ostate) (s : @sstate T),
      Top o s -> hb_ok s -> TopH o s ->
      TopH (orun (cfg_limit c) o ops (fst (run_from tp ctl tfuel c s ops)))
           (snd (run_from tp ctl tfuel c s ops)).
