(* Server proofs, group A, part 0: the hypothesis-dependent half of the observer/model invariant
   (ServerSpec.v header: (i) surely-open => tracked, (ii) provenance of queued responses,
   (iii) no stale server cancel), as a record InvH on top of ServerSim.InvU, and its preservation
   by the micro-steps of a Requests poll and by the other ops. *)
From Coq Require Import List Bool Arith NArith Lia.
Import ListNotations.
From TarpcV Require Import Base Transport TimerWheel Server ServerMon ServerFuel ServerContract
     ServerSim ServerSim2 ServerSim3 ServerSim4 ServerSim5 ServerSim6 ServerSim7.

(* k is the last incarnation with this id *)
Definition lastk (l : list oinc) (k : nat) (id : N) : Prop :=
  forall k' oi', k < k' -> nth_error l k' = Some oi' -> oi_id oi' <> id.

Definition unsent (x : hstate) : Prop :=
  match x with HYielded | HRunning | HWait _ | HPermit _ => True | _ => False end.
Definition over (x : hstate) : Prop := match x with HDone | HGone => True | _ => False end.

Lemma unsent_or_over : forall x, unsent x \/ over x.
Proof. destruct x; cbn; auto. Qed.
Lemma unsent_not_over : forall x, unsent x -> over x -> False.
Proof. destruct x; cbn; auto. Qed.

Lemma lastk_unique : forall l k1 k2 o1 o2 id,
  nth_error l k1 = Some o1 -> nth_error l k2 = Some o2 -> oi_id o1 = id -> oi_id o2 = id ->
  lastk l k1 id -> lastk l k2 id -> k1 = k2.
Proof.
  intros l k1 k2 o1 o2 id H1 H2 E1 E2 L1 L2.
  destruct (Nat.lt_trichotomy k1 k2) as [H|[H|H]]; [|exact H|].
  - exfalso. exact (L1 k2 o2 H H2 E2).
  - exfalso. exact (L2 k1 o1 H H1 E1).
Qed.

Lemma last_any_spec : forall id l,
  match last_any id l with
  | None => forall j x, nth_error l j = Some x -> oi_id x <> id
  | Some i => exists k, nth_error l k = Some i /\ oi_id i = id /\ lastk l k id
  end.
Proof.
  intros id l. unfold last_any.
  destruct (last_any_from_spec id l None _ eq_refl) as [[Hr Hall]|(j & x & Hr & Hn & Ho & Hlast)].
  - rewrite Hr. intros j x Hx Heq. specialize (Hall j x Hx). unfold has_id in Hall.
    rewrite Heq, N.eqb_refl in Hall. discriminate.
  - rewrite Hr. exists j. unfold has_id in Ho. apply N.eqb_eq in Ho. repeat split; auto.
    intros k' oi' Hlt Hk' Heq. specialize (Hlast k' oi' Hlt Hk'). unfold has_id in Hlast.
    rewrite Heq, N.eqb_refl in Hlast. discriminate.
Qed.

Lemma last_open_is_some : forall id l k x,
  nth_error l k = Some x -> oi_id x = id -> is_open (oi_wire x) = true -> last_open id l <> None.
Proof.
  intros id l k x Hk Hid Hop Hn. pose proof (last_open_none _ _ Hn k x Hk) as H.
  unfold open_id in H. rewrite Hid, N.eqb_refl, Hop in H. discriminate.
Qed.

Lemma lastk_close_at : forall kopt w l k id, lastk l k id -> lastk (close_at kopt w l) k id.
Proof.
  intros kopt w l k id L k' oi' Hlt Hk'. destruct (close_at_nth _ _ _ _ _ Hk') as (y & Hy & E & _).
  rewrite E. exact (L k' y Hlt Hy).
Qed.
Lemma lastk_close_at_inv : forall kopt w l k id, lastk (close_at kopt w l) k id -> lastk l k id.
Proof.
  intros kopt w l k id L k' oi' Hlt Hk'. destruct (close_at_nth_fwd kopt w l k' oi' Hk') as (x & Hx & E & _).
  rewrite <- E. exact (L k' x Hlt Hx).
Qed.

Section InvH.
  Context {T : Type}.
  Notation st := (@sstate T).

  (* incarnation k's entry is in the table (model only: through the abort-handle number) *)
  Definition trk (s : st) (k : nat) : Prop :=
    exists hr e, nth_error (s_handlers s) k = Some hr /\ In e (s_inflight s) /\ e_h e = h_h hr.

  (* every handler is tracked, aborted or over: an untracked handler makes no progress *)
  Definition Safe (s : st) : Prop :=
    forall k hr, nth_error (s_handlers s) k = Some hr ->
                 trk s k \/ In (h_h hr) (s_aborted s) \/ over (h_st hr).

  Record InvH (o : ostate) (s : st) : Prop := {
    h_open_tracked : forall k oi, nth_error (o_incs o) k = Some oi -> oi_wire oi = WOpen -> trk s k;
    h_open_last : forall k oi, nth_error (o_incs o) k = Some oi -> is_open (oi_wire oi) = true ->
                    lastk (o_incs o) k (oi_id oi);
    h_unsent : forall k hr oi, nth_error (s_handlers s) k = Some hr -> nth_error (o_incs o) k = Some oi ->
                 unsent (h_st hr) ->
                 lastk (o_incs o) k (oi_id oi) /\ oi_wire oi <> WAnswered
                 /\ ~ In (oi_id oi) (map resp_id (s_respq s));
    h_q_nodup : NoDup (map resp_id (s_respq s));
    h_q_prov : forall m, In m (s_respq s) ->
                 exists k hr oi, nth_error (s_handlers s) k = Some hr /\ nth_error (o_incs o) k = Some oi
                   /\ oi_id oi = resp_id m /\ lastk (o_incs o) k (resp_id m) /\ h_st hr = HDone
                   /\ oi_done oi = Some (resp_body m) /\ oi_wire oi <> WAnswered;
    h_cancels : forall id, In id (s_cancels s) ->
                  exists k hr oi, nth_error (s_handlers s) k = Some hr /\ nth_error (o_incs o) k = Some oi
                    /\ oi_id oi = id /\ lastk (o_incs o) k id /\ h_st hr = HGone
                    /\ oi_wire oi <> WOpen /\ oi_wire oi <> WAnswered;
    h_safe : Safe s }.

  (* the request accepted by the current poll and not yet handed out: under
     reuse_only_after_completion nothing else carries its id *)
  Record PendH (o : ostate) (s : st) (id : N) : Prop := {
    ph_closed : forall k oi, nth_error (o_incs o) k = Some oi -> oi_id oi = id -> is_open (oi_wire oi) = false;
    ph_over : forall k hr oi, nth_error (s_handlers s) k = Some hr -> nth_error (o_incs o) k = Some oi ->
                oi_id oi = id -> over (h_st hr);
    ph_noq : ~ In id (map resp_id (s_respq s));
    ph_nocancel : ~ In id (s_cancels s) }.

  Lemma trk_frame : forall (s s' : st) k,
    trk s k -> s_handlers s' = s_handlers s -> (forall e, In e (s_inflight s) -> In e (s_inflight s')) ->
    trk s' k.
  Proof. intros s s' k (hr & e & A & B & C) Hh Hi. exists hr, e. rewrite Hh. auto. Qed.

  (* the owner (InvU) of the entry of a tracked incarnation is that incarnation *)
  Lemma trk_owns : forall o (s : st) k,
    InvU o s -> all_owned o s -> c_err (o_v o) = false -> trk s k ->
    exists e, In e (s_inflight s) /\ owns o s k e.
  Proof.
    intros o s k HI Hall Hce (hr & e & A & B & C). exists e. split; [exact B|].
    destruct (Hall Hce e B) as (k' & Ho). destruct Ho as (hr' & oi' & A' & B' & C' & R).
    assert (k' = k) by (eapply NoDup_map_nth_inj; [exact (u_hnodup _ _ HI)|exact A'|exact A|congruence]).
    subst k'. exists hr', oi'. auto.
  Qed.

  Lemma owns_trk : forall o (s : st) k e, In e (s_inflight s) -> owns o s k e -> trk s k.
  Proof. intros o s k e He (hr & oi & A & B & C & _). exists hr, e. auto. Qed.

  (* what InvH reads *)
  Lemma InvH_frame : forall o o' (s s' : st),
    InvH o s -> o_incs o' = o_incs o -> s_handlers s' = s_handlers s -> s_inflight s' = s_inflight s ->
    s_aborted s' = s_aborted s -> s_respq s' = s_respq s -> s_cancels s' = s_cancels s -> InvH o' s'.
  Proof.
    intros o o' s s' [] E1 E2 E3 E4 E5 E6.
    constructor; unfold Safe, trk in *; rewrite ?E1, ?E2, ?E3, ?E4, ?E5, ?E6; assumption.
  Qed.

  Lemma PendH_frame : forall o o' (s s' : st) id,
    PendH o s id -> o_incs o' = o_incs o -> s_handlers s' = s_handlers s ->
    s_respq s' = s_respq s -> s_cancels s' = s_cancels s -> PendH o' s' id.
  Proof. intros o o' s s' id [] E1 E2 E5 E6. constructor; rewrite ?E1, ?E2, ?E5, ?E6; assumption. Qed.
End InvH.

(* ------------------------------------------------------------------------------------------ *)
(* the flags v08 / h_b1 through one transport call *)
Definition pend_open (o : ostate) : bool :=
  match o_pend o with
  | None => true
  | Some (id, _, _, _) => match last_open id (o_incs o) with Some _ => true | None => false end
  end.

Definition b1_hyp (id : N) (l : list oinc) : bool :=
  match last_any id l with
  | None => true
  | Some i => match oi_wire i with WAnswered | WOpen => true | _ => false end
  end.

Lemma pre_err_flags : forall o,
  v08 (o_v (pre_err o)) = v08 (o_v o) /\ v04 (o_v (pre_err o)) = v04 (o_v o).
Proof. intros o. unfold pre_err. destruct (o_errcall o); oproj; rewrite ?andb_true_r; auto. Qed.

Lemma ocall_flags_ready : forall lim o r,
  let o' := o_call lim o (CReady r) in
  v08 (o_v o') = v08 (o_v o) /\ v04 (o_v o') = v04 (o_v o) /\ h_b1 (o_v o') = h_b1 (o_v o)
  /\ o_incs o' = o_incs o /\ o_pend o' = o_pend o.
Proof.
  intros lim o r. cbv zeta. unfold o_call. fold (pre_err o).
  destruct (pre_err_proj o) as (A1 & A2 & A3 & A4 & A5 & A6 & A7 & A8 & A9 & A10 & A11 & A12 & A13 & A14 & A15 & A16).
  destruct (pre_err_flags o) as (F1 & F2). oproj. rewrite F1, F2, A15, A1, A5. repeat split; reflexivity.
Qed.
Lemma ocall_flags_flush : forall lim o r,
  let o' := o_call lim o (CFlush r) in
  v08 (o_v o') = v08 (o_v o) /\ v04 (o_v o') = v04 (o_v o) /\ h_b1 (o_v o') = h_b1 (o_v o)
  /\ o_incs o' = o_incs o /\ o_pend o' = o_pend o.
Proof.
  intros lim o r. cbv zeta. unfold o_call. fold (pre_err o).
  destruct (pre_err_proj o) as (A1 & A2 & A3 & A4 & A5 & A6 & A7 & A8 & A9 & A10 & A11 & A12 & A13 & A14 & A15 & A16).
  destruct (pre_err_flags o) as (F1 & F2). oproj. rewrite F1, F2, A15, A1, A5. repeat split; reflexivity.
Qed.

Lemma resolve_ignored_flags : forall o,
  v08 (o_v (resolve_ignored o)) = v08 (o_v o) && pend_open o
  /\ v04 (o_v (resolve_ignored o)) = v04 (o_v o) /\ h_b1 (o_v (resolve_ignored o)) = h_b1 (o_v o).
Proof.
  intros o. unfold resolve_ignored, pend_open. destruct (o_pend o) as [[[[id dl] tr] body]|]; oproj;
    rewrite ?andb_true_r; auto.
Qed.

Lemma ocall_flags_next : forall lim o r,
  let o' := o_call lim o (CNext r) in
  v08 (o_v o') = v08 (o_v o) && pend_open o /\ v04 (o_v o') = v04 (o_v o)
  /\ h_b1 (o_v o') = h_b1 (o_v o) && match r with
                                      | RItem (MReq id _ _ _) => b1_hyp id (o_incs o)
                                      | _ => true end.
Proof.
  intros lim o r. cbv zeta. unfold o_call. fold (pre_err o).
  destruct (pre_err_proj o) as (A1 & A2 & A3 & A4 & A5 & A6 & A7 & A8 & A9 & A10 & A11 & A12 & A13 & A14 & A15 & A16).
  destruct (pre_err_flags o) as (F1 & F2).
  destruct (resolve_ignored_flags (pre_err o)) as (R1 & R2 & R3).
  destruct (resolve_ignored_proj (pre_err o)) as (B1 & _).
  assert (Hpo : pend_open (pre_err o) = pend_open o) by (unfold pend_open; rewrite A5, A1; reflexivity).
  destruct r as [[id dl tr body|id tr]| | |].
  - oproj. rewrite R1, R2, R3, F1, F2, A15, Hpo, B1, A1, ?andb_true_r. unfold b1_hyp. repeat split; reflexivity.
  - destruct (last_open id (o_incs (resolve_ignored (pre_err o)))); oproj;
      rewrite R1, R2, R3, F1, F2, A15, Hpo, ?andb_true_r; repeat split; reflexivity.
  - oproj. rewrite R1, R2, R3, F1, F2, A15, Hpo, ?andb_true_r. repeat split; reflexivity.
  - oproj. rewrite R1, R2, R3, F1, F2, A15, Hpo, ?andb_true_r. repeat split; reflexivity.
  - oproj. rewrite R1, R2, R3, F1, F2, A15, Hpo, ?andb_true_r. repeat split; reflexivity.
Qed.

(* the last open incarnation of the id is not surely open *)
Definition not_must (id : N) (l : list oinc) : bool :=
  match last_open id l with
  | None => true
  | Some k => negb (match nth_error l k with Some i => is_must (oi_wire i) | None => false end)
  end.

Lemma accept_id_flags : forall id o,
  v08 (o_v (accept_id id o)) = v08 (o_v o) && not_must id (o_incs o)
  /\ v04 (o_v (accept_id id o)) = v04 (o_v o) /\ h_b1 (o_v (accept_id id o)) = h_b1 (o_v o).
Proof.
  intros id o. unfold accept_id, not_must. destruct (last_open id (o_incs o)); oproj;
    rewrite ?andb_true_r; auto.
Qed.

Definition body_ok (m : response) (l : list oinc) : bool :=
  match last_open (resp_id m) l with
  | Some k => match nth_error l k with
              | Some i => match oi_done i with Some b' => rbody_eqb (resp_body m) b' | None => false end
              | None => false end
  | None => false
  end.

Lemma ocall_flags_send : forall lim o m r,
  let o' := o_call lim o (CSend m r) in
  v08 (o_v o') = v08 (o_v o) && (match resp_body m with
                                 | BThrottle => not_must (resp_id m) (o_incs o)
                                 | _ => body_ok m (o_incs o) end)
  /\ v04 (o_v o') = v04 (o_v o) /\ h_b1 (o_v o') = h_b1 (o_v o).
Proof.
  intros lim o m r. cbv zeta. unfold o_call. fold (pre_err o).
  destruct (pre_err_proj o) as (A1 & A2 & A3 & A4 & A5 & A6 & A7 & A8 & A9 & A10 & A11 & A12 & A13 & A14 & A15 & A16).
  destruct (pre_err_flags o) as (F1 & F2).
  destruct (resp_body m) eqn:EB.
  1,2,4: (unfold body_ok; rewrite EB; destruct (last_open (resp_id m) (o_incs (pre_err o))) as [k|] eqn:EL;
          oproj; rewrite A1 in EL; rewrite EL, ?A1, F1, F2, A15, ?andb_true_r; repeat split; reflexivity).
  match goal with |- context [accept_id ?i ?x] =>
    destruct (accept_id_flags i x) as (D1 & D2 & D3) end.
  oproj. rewrite ?orb_false_r, ?andb_true_r.
  rewrite D1, D2, D3. oproj. rewrite ?andb_true_r, F1, F2, A15, A1. repeat split; reflexivity.
Qed.

Section Steps.
  Context {T : Type}.
  Notation st := (@sstate T).

  (* ---- one incarnation is closed (Cancel read, response written), the model unchanged -------- *)
  Lemma InvH_close : forall o o' (s : st) kopt w,
    InvH o s -> length (o_incs o) = length (s_handlers s) ->
    o_incs o' = close_at kopt w (o_incs o) -> is_open w = false ->
    (w = WAnswered -> forall kc hr oi, kopt = Some kc -> nth_error (s_handlers s) kc = Some hr ->
       nth_error (o_incs o) kc = Some oi ->
       h_st hr = HDone /\ forall m, In m (s_respq s) -> resp_id m <> oi_id oi) ->
    InvH o' s.
  Proof.
    intros o o' s kopt w [H1 H2 H3 H4 H5 H6 H7] Hlen Hi Hw Hans.
    constructor; rewrite ?Hi; auto.
    - intros k oi Hk Ho. destruct (close_at_nth _ _ _ _ _ Hk) as (y & Hy & _ & _ & _ & _ & _ & [[_ W]|[_ W]]).
      + rewrite W in Ho. subst w. discriminate.
      + apply (H1 k y Hy). congruence.
    - intros k oi Hk Ho. destruct (close_at_nth _ _ _ _ _ Hk) as (y & Hy & E & _ & _ & _ & _ & [[_ W]|[_ W]]).
      + rewrite W, Hw in Ho. discriminate.
      + rewrite E. apply lastk_close_at. apply (H2 k y Hy). congruence.
    - intros k hr oi Hk Hoi Hu. destruct (close_at_nth _ _ _ _ _ Hoi) as (y & Hy & E & _ & _ & _ & _ & W).
      destruct (H3 k hr y Hk Hy Hu) as (L & Wn & Q). rewrite E. split; [apply lastk_close_at, L|split; [|exact Q]].
      destruct W as [[Ek W]|[_ W]]; [|congruence]. rewrite W. intros ->.
      destruct (Hans eq_refl k hr y Ek Hk Hy) as (Hd & _). rewrite Hd in Hu. exact Hu.
    - intros m Hm. destruct (H5 m Hm) as (k & hr & oi & A & B & C & D & E & F & G).
      destruct (close_at_nth_fwd kopt w _ k oi B) as (x & Hx & E1 & _ & E3 & _ & W).
      exists k, hr, x. repeat split; auto; try congruence; [apply lastk_close_at, D|].
      destruct W as [[Ek W]|[_ W]]; [|congruence]. rewrite W. intros ->.
      destruct (Hans eq_refl k hr oi Ek A B) as (_ & Hq). apply (Hq m Hm). congruence.
    - intros id Hid. destruct (H6 id Hid) as (k & hr & oi & A & B & C & D & E & F & G).
      destruct (close_at_nth_fwd kopt w _ k oi B) as (x & Hx & E1 & _ & E3 & _ & W).
      exists k, hr, x. repeat split; auto; try congruence; [apply lastk_close_at, D| |].
      + destruct W as [[_ W]|[_ W]]; [rewrite W; intros ->; discriminate|congruence].
      + destruct W as [[Ek W]|[_ W]]; [|congruence]. rewrite W. intros ->.
        destruct (Hans eq_refl k hr oi Ek A B) as (Hd & _). congruence.
  Qed.

  (* ---- the entries of one id leave the table ------------------------------------------------- *)
  Lemma InvH_drop : forall o o' (s s' : st) id,
    InvH o s -> length (o_incs o) = length (s_handlers s) ->
    o_incs o' = o_incs o -> s_inflight s' = drop_entry id (s_inflight s) ->
    s_handlers s' = s_handlers s -> s_respq s' = s_respq s ->
    (forall x, In x (s_cancels s') -> In x (s_cancels s)) ->
    (forall h, In h (s_aborted s) -> In h (s_aborted s')) ->
    (* the handler whose entry goes away *)
    (forall k hr e, nth_error (s_handlers s) k = Some hr -> In e (s_inflight s) -> e_h e = h_h hr ->
       e_id e = id ->
       (forall oi, nth_error (o_incs o) k = Some oi -> oi_wire oi <> WOpen)
       /\ (In (h_h hr) (s_aborted s') \/ over (h_st hr))) ->
    InvH o' s'.
  Proof.
    intros o o' s s' id [H1 H2 H3 H4 H5 H6 H7] Hlen Hi Hf Hh Hq Hc Ha Hown.
    assert (Htrk : forall k, trk s k -> trk s' k \/
              exists hr e, nth_error (s_handlers s) k = Some hr /\ In e (s_inflight s) /\ e_h e = h_h hr /\ e_id e = id).
    { intros k (hr & e & A & B & C). destruct (N.eq_dec (e_id e) id) as [E|E].
      - right. exists hr, e. auto.
      - left. exists hr, e. rewrite Hh, Hf. repeat split; auto. apply in_drop_entry. auto. }
    constructor; rewrite ?Hi, ?Hh, ?Hq.
    - intros k oi Hk Ho. destruct (Htrk k (H1 k oi Hk Ho)) as [Ht|(hr & e & A & B & C & D)]; [exact Ht|].
      exfalso. destruct (Hown k hr e A B C D) as (W & _). exact (W oi Hk Ho).
    - exact H2.
    - exact H3.
    - exact H4.
    - exact H5.
    - intros idc Hidc. apply H6. apply Hc. exact Hidc.
    - intros k hr Hk. rewrite Hh in Hk. destruct (H7 k hr Hk) as [Ht|[Hab|Hov]].
      + destruct (Htrk k Ht) as [Ht'|(hr' & e & A & B & C & D)]; [left; exact Ht'|right].
        rewrite Hk in A. inversion A; subst hr'. apply (Hown k hr e Hk B C D).
      + right; left. apply Ha. exact Hab.
      + right; right. exact Hov.
  Qed.

  (* ---- an entry is added (start_request) ------------------------------------------------------- *)
  Lemma InvH_grow : forall o o' (s s' : st),
    InvH o s -> o_incs o' = o_incs o -> s_handlers s' = s_handlers s ->
    (forall e, In e (s_inflight s) -> In e (s_inflight s')) ->
    s_aborted s' = s_aborted s -> s_respq s' = s_respq s -> s_cancels s' = s_cancels s -> InvH o' s'.
  Proof.
    intros o o' s s' [H1 H2 H3 H4 H5 H6 H7] Hi Hh Hf Ha Hq Hc.
    constructor; rewrite ?Hi, ?Hh, ?Hq, ?Hc.
    - intros k oi Hk Ho. eapply trk_frame; eauto.
    - exact H2.
    - exact H3.
    - exact H4.
    - exact H5.
    - exact H6.
    - intros k hr Hk. rewrite Hh in Hk. destruct (H7 k hr Hk) as [Ht|[Hab|Hov]]; auto.
      + left. eapply trk_frame; eauto.
      + right; left. rewrite Ha. exact Hab.
  Qed.

  (* ---- handler states move among the unsent ones; the head of the response queue is popped ---- *)
  Lemma InvH_hst : forall o o' (s s' : st),
    InvH o s -> o_incs o' = o_incs o ->
    (forall j hr', nth_error (s_handlers s') j = Some hr' ->
       exists hr, nth_error (s_handlers s) j = Some hr /\ h_h hr' = h_h hr
                  /\ (h_st hr' = h_st hr \/ (unsent (h_st hr) /\ unsent (h_st hr'))
                      \/ (unsent (h_st hr) /\ h_st hr' = HDone))) ->
    (forall j hr, nth_error (s_handlers s) j = Some hr -> exists hr', nth_error (s_handlers s') j = Some hr') ->
    s_inflight s' = s_inflight s -> (forall h, In h (s_aborted s) -> In h (s_aborted s')) ->
    (forall m, In m (s_respq s') -> In m (s_respq s)) -> NoDup (map resp_id (s_respq s')) ->
    s_cancels s' = s_cancels s -> InvH o' s'.
  Proof.
    intros o o' s s' [H1 H2 H3 H4 H5 H6 H7] Hi Hh Hh' Hf Ha Hq Hnd Hc.
    assert (Htrk : forall k, trk s k -> trk s' k).
    { intros k (hr & e & A & B & C). destruct (Hh' k hr A) as (hr' & A').
      destruct (Hh k hr' A') as (hr0 & A0 & E & _). rewrite A in A0. inversion A0; subst hr0.
      exists hr', e. rewrite Hf. repeat split; auto. congruence. }
    assert (Hqin : forall id, In id (map resp_id (s_respq s')) -> In id (map resp_id (s_respq s))).
    { intros id Hin. apply in_map_iff in Hin. destruct Hin as (m & E & Hm). apply in_map_iff. exists m. auto. }
    constructor; rewrite ?Hi, ?Hc.
    - intros k oi Hk Ho. apply Htrk. eapply H1; eauto.
    - exact H2.
    - intros k hr' oi Hk Hoi Hu. destruct (Hh k hr' Hk) as (hr & A & E & St).
      assert (Hu0 : unsent (h_st hr)).
      { destruct St as [St|[[St _]|[St St']]]; [rewrite <- St; exact Hu|exact St|exact St]. }
      destruct (H3 k hr oi A Hoi Hu0) as (L & W & Q). repeat split; auto.
    - exact Hnd.
    - intros m Hm. destruct (H5 m (Hq m Hm)) as (k & hr & oi & A & B & C & D & E & F & G).
      destruct (Hh' k hr A) as (hr' & A'). destruct (Hh k hr' A') as (hr0 & A0 & _ & St).
      rewrite A in A0. inversion A0; subst hr0.
      exists k, hr', oi. repeat split; auto.
      destruct St as [St|[[St _]|[St _]]]; [congruence|rewrite E in St; destruct St|rewrite E in St; destruct St].
    - intros id Hid. destruct (H6 id Hid) as (k & hr & oi & A & B & C & D & E & F & G).
      destruct (Hh' k hr A) as (hr' & A'). destruct (Hh k hr' A') as (hr0 & A0 & _ & St).
      rewrite A in A0. inversion A0; subst hr0.
      exists k, hr', oi. repeat split; auto.
      destruct St as [St|[[St _]|[St _]]]; [congruence|rewrite E in St; destruct St|rewrite E in St; destruct St].
    - intros k hr' Hk. destruct (Hh k hr' Hk) as (hr & A & E & St).
      destruct (H7 k hr A) as [Ht|[Hab|Hov]].
      + left. apply Htrk. exact Ht.
      + right; left. rewrite E. apply Ha. exact Hab.
      + right; right. destruct St as [St|[[St _]|[St _]]]; [rewrite St; exact Hov| |];
          exfalso; eapply unsent_not_over; eauto.
  Qed.
End Steps.

Section MicroH.
  Context {T : Type}.
  Variable tp : transport T response cmsg.
  Variable lim : option nat.
  Notation st := (@sstate T).

  (* a request that was read and ignored is resolved at the next read: until then its id stays
     possibly-tracked, and the transport has not ended *)
  Definition pend_ok (o : ostate) (s : st) : Prop :=
    match o_pend o with
    | None => True
    | Some (id, _, _, _) => s_fused s = false /\ last_open id (o_incs o) <> None
    end.

  Definition GH (o : ostate) (s : st) : Prop :=
    h_b1 (o_v o) = true -> InvH o s /\ v08 (o_v o) = true.
  Definition BH (o : ostate) (s : st) : Prop := pend_ok o s /\ GH o s.
  Definition QH (o : ostate) (s : st) (q : treq) : Prop :=
    h_b1 (o_v o) = true -> InvH o s /\ v08 (o_v o) = true /\ PendH o s (q_id q).

  Lemma pend_ok_open : forall o s, pend_ok o s -> pend_open o = true.
  Proof.
    intros o s H. unfold pend_ok, pend_open in *. destruct (o_pend o) as [[[[id dl] tr] body]|]; [|reflexivity].
    destruct H as [_ H]. destruct (last_open id (o_incs o)); [reflexivity|congruence].
  Qed.

  (* ---- calls that only move flags -------------------------------------------------------------- *)
  Lemma GH_frame : forall o o' (s s' : st),
    GH o s -> o_incs o' = o_incs o -> v08 (o_v o') = v08 (o_v o) -> h_b1 (o_v o') = h_b1 (o_v o) ->
    same_core s s' -> s_respq s' = s_respq s -> GH o' s'.
  Proof.
    intros o o' s s' G Hi Hv Hb (C1 & C2 & C3 & C4 & C5 & C6 & C7 & C8) Hq Hb'.
    rewrite Hb in Hb'. destruct (G Hb') as (A & B). split; [|congruence].
    eapply InvH_frame; eauto.
  Qed.

  Lemma QH_frame : forall o o' (s s' : st) q,
    QH o s q -> o_incs o' = o_incs o -> v08 (o_v o') = v08 (o_v o) -> h_b1 (o_v o') = h_b1 (o_v o) ->
    same_core s s' -> s_respq s' = s_respq s -> QH o' s' q.
  Proof.
    intros o o' s s' q G Hi Hv Hb (C1 & C2 & C3 & C4 & C5 & C6 & C7 & C8) Hq Hb'.
    rewrite Hb in Hb'. destruct (G Hb') as (A & B & P). split; [|split; [congruence|]].
    - eapply InvH_frame; eauto.
    - eapply PendH_frame; eauto.
  Qed.

  Lemma pend_ok_frame : forall o o' (s s' : st),
    pend_ok o s -> o_incs o' = o_incs o -> o_pend o' = o_pend o -> s_fused s' = s_fused s -> pend_ok o' s'.
  Proof. intros o o' s s' H Hi Hp Hf. unfold pend_ok in *. rewrite Hi, Hp, Hf. exact H. Qed.

  Lemma BH_ready : forall o (s : st) r s',
    BH o s -> do_ready tp s = (r, s') -> BH (o_call lim o (CReady r)) s'.
  Proof.
    intros o s r s' (P & G) H. destruct (do_ready_core tp _ _ _ H) as (C & F & Q & _).
    destruct (ocall_flags_ready lim o r) as (V8 & _ & B1 & I & Pn). cbv zeta in *.
    split; [eapply pend_ok_frame; eauto|eapply GH_frame; eauto].
  Qed.
  Lemma BH_flush : forall o (s : st) r s',
    BH o s -> do_flush tp s = (r, s') -> BH (o_call lim o (CFlush r)) s'.
  Proof.
    intros o s r s' (P & G) H. destruct (do_flush_core tp _ _ _ H) as (C & F & Q & _).
    destruct (ocall_flags_flush lim o r) as (V8 & _ & B1 & I & Pn). cbv zeta in *.
    split; [eapply pend_ok_frame; eauto|eapply GH_frame; eauto].
  Qed.
  Lemma QH_ready : forall o (s : st) q r s',
    QH o s q -> do_ready tp s = (r, s') -> QH (o_call lim o (CReady r)) s' q.
  Proof.
    intros o s q r s' G H. destruct (do_ready_core tp _ _ _ H) as (C & F & Q & _).
    destruct (ocall_flags_ready lim o r) as (V8 & _ & B1 & I & Pn). cbv zeta in *. eapply QH_frame; eauto.
  Qed.
  Lemma QH_flush : forall o (s : st) q r s',
    QH o s q -> do_flush tp s = (r, s') -> QH (o_call lim o (CFlush r)) s' q.
  Proof.
    intros o s q r s' G H. destruct (do_flush_core tp _ _ _ H) as (C & F & Q & _).
    destruct (ocall_flags_flush lim o r) as (V8 & _ & B1 & I & Pn). cbv zeta in *. eapply QH_frame; eauto.
  Qed.

  (* ---- the owner of the tracked entry of an id ------------------------------------------------- *)
  Lemma owner_of_id : forall o (s : st) e,
    InvU o s -> all_owned o s -> c_err (o_v o) = false -> In e (s_inflight s) ->
    exists k hr oi, nth_error (s_handlers s) k = Some hr /\ nth_error (o_incs o) k = Some oi
      /\ h_h hr = e_h e /\ oi_id oi = e_id e /\ is_open (oi_wire oi) = true
      /\ lastk (o_incs o) k (e_id e) /\ last_open (e_id e) (o_incs o) = Some k.
  Proof.
    intros o s e HI Hall Hce He. destruct (Hall Hce e He) as (k & hr & oi & A & B & C & D & E & F & G).
    exists k, hr, oi. repeat split; auto.
    destruct (last_open (e_id e) (o_incs o)) as [k'|] eqn:EL.
    - destruct (last_open_some _ _ _ EL) as (x & Hx & Hop & _). apply open_id_true in Hop. destruct Hop as [X1 X2].
      f_equal. apply (u_one_open _ _ HI k' k x oi Hx B); auto. congruence.
    - exfalso. eapply last_open_is_some; eauto.
  Qed.

  (* any handler holding an entry e is e's owner *)
  Lemma holder_is_owner : forall o (s : st) e k hr k' hr',
    InvU o s -> nth_error (s_handlers s) k = Some hr -> h_h hr = e_h e ->
    nth_error (s_handlers s) k' = Some hr' -> h_h hr' = e_h e -> k = k' /\ hr = hr'.
  Proof.
    intros o s e k hr k' hr' HI A B A' B'.
    assert (k = k') by (eapply NoDup_map_nth_inj; [exact (u_hnodup _ _ HI)|exact A|exact A'|congruence]).
    subst k'. split; [reflexivity|congruence].
  Qed.

  (* ---- the server-side cancel queue hands out one id ------------------------------------------- *)
  Lemma BH_server_cancel : forall o (s : st) id r,
    InvU o s -> all_owned o s -> c_err (o_v o) = false -> BH o s -> s_cancels s = id :: r ->
    BH o (snd (remove_request id (set_cancels s r))).
  Proof.
    intros o s id r HI Hall Hce (P & G) Hc.
    set (s0 := set_cancels s r).
    destruct (remove_request_shape id s0) as [(_ & Heq & Hnone)|(_ & (e & He) & B1 & B2 & B3 & B4 & B5 & B6 & B7 & B8 & B9 & B10 & B11 & _)];
      cbv zeta in *.
    - rewrite Heq. split; [eapply pend_ok_frame; eauto|]. intros Hb. destruct (G Hb) as (A & B). split; [|exact B].
      destruct A as [H1 H2 H3 H4 H5 H6 H7]. subst s0. constructor; sproj; auto.
      intros id' Hin. apply H6. rewrite Hc. right. exact Hin.
    - split; [eapply pend_ok_frame; eauto; subst s0; sproj; auto|].
      intros Hb. destruct (G Hb) as (A & B). split; [|exact B].
      apply (InvH_drop o o s _ id A (u_len _ _ HI) eq_refl); subst s0; sproj; auto.
      + intros x Hx. rewrite B6 in Hx. rewrite Hc. right. exact Hx.
      + intros h Hh. rewrite B5. exact Hh.
      + intros k hr e0 Hk He0 Hh Hid.
        destruct (owner_of_id o s e0 HI Hall Hce He0) as (k1 & hr1 & oi1 & X1 & X2 & X3 & X4 & X5 & X6 & X7).
        destruct (holder_is_owner o s e0 k hr k1 hr1 HI Hk (eq_sym Hh) X1 X3) as (-> & ->).
        destruct (h_cancels _ _ A id) as (ko & hro & oio & Y1 & Y2 & Y3 & Y4 & Y5 & Y6 & Y7); [rewrite Hc; left; reflexivity|].
        rewrite Hid in X4, X6.
        assert (k1 = ko) by (eapply lastk_unique; eauto). subst ko.
        rewrite X1 in Y1. inversion Y1; subst hro. rewrite X2 in Y2. inversion Y2; subst oio.
        split; [intros oi Hoi; rewrite X2 in Hoi; inversion Hoi; subst oi; exact Y6|].
        right. rewrite Y5. exact I.
  Qed.

  (* ---- expiry --------------------------------------------------------------------------------------- *)
  Lemma BH_expired : forall o (s : st) r s',
    InvU o s -> BH o s -> poll_expired s = (r, s') -> BH o s'.
  Proof.
    intros o s r s' HI (P & G) H.
    destruct (poll_expired_shape _ _ _ H) as (A1 & A2 & A3 & A4 & A5 & A6 & A7 & _ & _ & _ & _ & HH).
    split; [eapply pend_ok_frame; eauto|]. intros Hb. destruct (G Hb) as (A & B). split; [|exact B].
    destruct HH as [(Hr & B1 & B2 & B3 & _)|(Hr & id & w & C1 & C2 & C3 & C4 & C5)].
    - eapply InvH_frame; eauto.
    - apply (InvH_drop o o s s' id A (u_len _ _ HI) eq_refl); auto.
      + intros x Hx. rewrite A3 in Hx. exact Hx.
      + intros h Hh. rewrite C5. destruct (find_entry id s); [right|]; exact Hh.
      + intros k hr e Hk He Hh Hid.
        assert (Hfe : find_entry id s = Some e).
        { destruct (find_entry id s) as [e'|] eqn:EF.
          - destruct (find_entry_some _ _ _ EF) as (He' & Hid'). f_equal.
            apply (NoDup_map_in_inj _ _ e_id (s_inflight s)); [exact (u_idnodup _ _ HI)|exact He'|exact He|congruence].
          - exfalso. exact (find_entry_none _ _ EF e He Hid). }
        split.
        * intros oi Hoi. eapply (due_owner_not_open o s id w e k hr oi); eauto.
        * left. rewrite C5, Hfe. left. auto.
  Qed.

  Lemma owns_facts : forall o (s : st) k e,
    InvU o s -> owns o s k e ->
    exists hr oi, nth_error (s_handlers s) k = Some hr /\ nth_error (o_incs o) k = Some oi
      /\ h_h hr = e_h e /\ oi_id oi = e_id e /\ is_open (oi_wire oi) = true
      /\ lastk (o_incs o) k (e_id e) /\ last_open (e_id e) (o_incs o) = Some k.
  Proof.
    intros o s k e HI (hr & oi & A & B & C & D & E & F & G).
    exists hr, oi. repeat split; auto.
    destruct (last_open (e_id e) (o_incs o)) as [k'|] eqn:EL.
    - destruct (last_open_some _ _ _ EL) as (x & Hx & Hop & _). apply open_id_true in Hop. destruct Hop as [X1 X2].
      f_equal. apply (u_one_open _ _ HI k' k x oi Hx B); auto. congruence.
    - exfalso. eapply last_open_is_some; eauto.
  Qed.

  Lemma rbody_eqb_refl : forall b, rbody_eqb b b = true.
  Proof. destruct b; cbn; auto. apply N.eqb_refl. Qed.

  Lemma last_open_closed : forall id l,
    (forall k oi, nth_error l k = Some oi -> oi_id oi = id -> is_open (oi_wire oi) = false) ->
    last_open id l = None.
  Proof.
    intros id l H. destruct (last_open id l) as [k|] eqn:EL; [|reflexivity].
    destruct (last_open_some _ _ _ EL) as (x & Hx & Hop & _). apply open_id_true in Hop. destruct Hop as [X1 X2].
    rewrite (H k x Hx X1) in X2. discriminate.
  Qed.

  (* ---- poll_next of the transport: nothing / end / error ---------------------------------------- *)
  Lemma BH_next_idle : forall o (s : st) r s3,
    BH o s -> do_next tp s = (r, s3) -> match r with RItem _ => False | _ => True end ->
    BH (o_call lim o (CNext r)) (match r with REof => set_fused s3 true | _ => s3 end).
  Proof.
    intros o s r s3 (P & G) H Hr.
    destruct (do_next_core tp _ _ _ H) as ((C1 & C2 & C3 & C4 & C5 & C6 & C7 & C8) & F & Q & _).
    destruct (ocall_next_proj lim o r) as (_ & _ & _ & _ & _ & _ & P7).
    destruct (ocall_flags_next lim o r) as (V8 & _ & B1). cbv zeta in *.
    rewrite (pend_ok_open _ _ P), andb_true_r in V8.
    assert (HI : o_incs (o_call lim o (CNext r)) = o_incs o /\ o_pend (o_call lim o (CNext r)) = None).
    { destruct r as [m| | |]; [contradiction| | |]; tauto. }
    destruct HI as (I & Pn).
    assert (B1' : h_b1 (o_v (o_call lim o (CNext r))) = h_b1 (o_v o)).
    { destruct r as [m| | |]; [contradiction| | |]; rewrite B1, andb_true_r; reflexivity. }
    split; [unfold pend_ok; rewrite Pn; exact Logic.I|].
    intros Hb. rewrite B1' in Hb. destruct (G Hb) as (A & B). split; [|congruence].
    destruct r as [m| | |]; [contradiction| | |]; eapply InvH_frame; eauto; sproj; auto.
  Qed.

  (* ---- a Cancel message ------------------------------------------------------------------------------ *)
  Lemma BH_next_cancel : forall o (s : st) id tr s3,
    InvU o s -> all_owned o s -> c_err (o_v o) = false -> BH o s ->
    do_next tp s = (RItem (MCancel id tr), s3) ->
    BH (o_call lim o (CNext (RItem (MCancel id tr)))) (cancel_request id s3).
  Proof.
    intros o s id tr s3 HI Hall Hce (P & G) H.
    destruct (do_next_core tp _ _ _ H) as ((C1 & C2 & C3 & C4 & C5 & C6 & C7 & C8) & F & Q & _).
    destruct (ocall_next_proj lim o (RItem (MCancel id tr))) as (_ & _ & _ & _ & _ & _ & I & Pn).
    destruct (ocall_flags_next lim o (RItem (MCancel id tr))) as (V8 & _ & B1). cbv zeta in *.
    rewrite (pend_ok_open _ _ P), andb_true_r in V8. rewrite andb_true_r in B1.
    split; [unfold pend_ok; rewrite Pn; exact Logic.I|].
    intros Hb. rewrite B1 in Hb. destruct (G Hb) as (A & B). split; [|congruence].
    set (o' := o_call lim o (CNext (RItem (MCancel id tr)))) in *.
    assert (A3 : InvH o s3) by (eapply InvH_frame; eauto).
    assert (Hlen3 : length (o_incs o) = length (s_handlers s3)) by (rewrite C1; exact (u_len _ _ HI)).
    assert (A3' : InvH o' s3).
    { apply (InvH_close o o' s3 (last_open id (o_incs o)) WCancelled A3 Hlen3 I eq_refl). discriminate. }
    destruct (cancel_request_shape id s3) as [(Heq & _)|(e & Hfe & B1' & B2 & B3 & B4 & B5 & B6 & B7 & B8 & B9 & B10 & _)];
      cbv zeta in *.
    - rewrite Heq. exact A3'.
    - apply (InvH_drop o' o' s3 _ id A3'); auto.
      + rewrite I, close_at_length. exact Hlen3.
      + intros x Hx. rewrite B6 in Hx. exact Hx.
      + intros h Hh. rewrite B3. right. exact Hh.
      + intros k hr e0 Hk He0 Hh Hid.
        destruct (find_entry_some _ _ _ Hfe) as (He & Hide).
        assert (e0 = e).
        { apply (NoDup_map_in_inj _ _ e_id (s_inflight s3)); [rewrite C3; exact (u_idnodup _ _ HI)|exact He0|exact He|congruence]. }
        subst e0. rewrite C3 in He. rewrite C1 in Hk.
        destruct (Hall Hce e He) as (k1 & Ho).
        destruct (owns_facts o s k1 e HI Ho) as (hr1 & oi1 & X1 & X2 & X3 & X4 & X5 & X6 & X7).
        destruct (holder_is_owner o s e k hr k1 hr1 HI Hk (eq_sym Hh) X1 X3) as (-> & ->).
        split.
        * intros oi Hoi. rewrite I in Hoi.
          destruct (close_at_nth _ _ _ _ _ Hoi) as (y & Hy & _ & _ & _ & _ & _ & [[_ W]|[W _]]).
          -- rewrite W. discriminate.
          -- exfalso. apply W. rewrite <- Hide. exact X7.
        * left. rewrite B3. left. auto.
  Qed.

  (* ---- a request whose id is tracked: ignored ------------------------------------------------------ *)
  Lemma BH_next_dup : forall o (s : st) id dl tr body s3,
    InvU o s -> all_owned o s -> c_err (o_v o) = false -> BH o s ->
    do_next tp s = (RItem (MReq id dl tr body), s3) -> s_fused s = false ->
    start_request id dl s3 = None ->
    BH (o_call lim o (CNext (RItem (MReq id dl tr body)))) s3.
  Proof.
    intros o s id dl tr body s3 HI Hall Hce (P & G) H Hf Hs.
    destruct (do_next_core tp _ _ _ H) as ((C1 & C2 & C3 & C4 & C5 & C6 & C7 & C8) & F & Q & _).
    destruct (ocall_next_proj lim o (RItem (MReq id dl tr body))) as (_ & _ & _ & _ & _ & _ & I & Pn).
    destruct (ocall_flags_next lim o (RItem (MReq id dl tr body))) as (V8 & _ & B1). cbv zeta in *.
    rewrite (pend_ok_open _ _ P), andb_true_r in V8.
    split.
    - unfold pend_ok. rewrite Pn, I. split; [congruence|].
      assert (Ht : tracked id s3 = true).
      { unfold start_request in Hs. destruct (tracked id s3); [reflexivity|discriminate]. }
      apply tracked_find in Ht. destruct Ht as (e & Hfe). destruct (find_entry_some _ _ _ Hfe) as (He & Hid).
      rewrite C3 in He. destruct (Hall Hce e He) as (k & Ho).
      destruct (owns_facts o s k e HI Ho) as (hr & oi & _ & _ & _ & _ & _ & _ & X7). rewrite Hid in X7. congruence.
    - intros Hb. rewrite B1 in Hb. apply andb_true_iff in Hb. destruct Hb as [Hb _].
      destruct (G Hb) as (A & B). split; [|congruence]. eapply InvH_frame; eauto.
  Qed.
End MicroH.

Section MicroH2.
  Context {T : Type}.
  Variable tp : transport T response cmsg.
  Variable lim : option nat.
  Notation st := (@sstate T).

  (* ---- a request is accepted ------------------------------------------------------------------------ *)
  Lemma BH_next_accept : forall o (s : st) id dl tr body s3 h s4,
    InvU o s -> all_owned o s -> c_err (o_v o) = false -> BH o s ->
    do_next tp s = (RItem (MReq id dl tr body), s3) ->
    start_request id dl s3 = Some (h, s4) ->
    QH (o_call lim o (CNext (RItem (MReq id dl tr body)))) s4
       {| q_id := id; q_h := h; q_dl := dl; q_tr := tr; q_body := body |}.
  Proof.
    intros o s id dl tr body s3 h s4 HI Hall Hce (P & G) H Hs.
    destruct (do_next_core tp _ _ _ H) as ((C1 & C2 & C3 & C4 & C5 & C6 & C7 & C8) & F & Q & _).
    destruct (ocall_next_proj lim o (RItem (MReq id dl tr body))) as (_ & _ & _ & _ & _ & _ & I & Pn).
    destruct (ocall_flags_next lim o (RItem (MReq id dl tr body))) as (V8 & _ & B1). cbv zeta in *.
    rewrite (pend_ok_open _ _ P), andb_true_r in V8.
    destruct (start_request_shape _ _ _ _ _ Hs) as (Htr & Hh & Hi & Ht & Hn & Hha & Hab & Hc & Hw & Hd & Hf & Hq & _).
    intros Hb. rewrite B1 in Hb. apply andb_true_iff in Hb. destruct Hb as [Hb Hyp].
    destruct (G Hb) as (A & B). cbn [q_id].
    set (o' := o_call lim o (CNext (RItem (MReq id dl tr body)))) in *.
    assert (A4 : InvH o' s4).
    { apply (InvH_grow o o' s s4 A I); try congruence.
      intros e He. rewrite Hi, C3. apply in_or_app. left. exact He. }
    split; [exact A4|split; [congruence|]].
    (* every last incarnation of the id has been answered *)
    assert (Hans : forall k oi, nth_error (o_incs o) k = Some oi -> oi_id oi = id ->
                                lastk (o_incs o) k id -> oi_wire oi = WAnswered).
    { intros k oi Hk Hid L. unfold b1_hyp in Hyp. pose proof (last_any_spec id (o_incs o)) as LS.
      destruct (last_any id (o_incs o)) as [i|].
      - destruct LS as (k0 & Hk0 & Hid0 & L0).
        assert (k = k0) by (eapply lastk_unique; eauto). subst k0. rewrite Hk in Hk0. inversion Hk0; subst i.
        destruct (oi_wire oi) eqn:Ew; try discriminate; [|reflexivity].
        exfalso. destruct (h_open_tracked _ _ A k oi Hk Ew) as (hr & e & X1 & X2 & X3).
        destruct (Hall Hce e X2) as (k1 & Ho).
        destruct (owns_facts o s k1 e HI Ho) as (hr1 & oi1 & Y1 & Y2 & Y3 & Y4 & _).
        destruct (holder_is_owner o s e k hr k1 hr1 HI X1 (eq_sym X3) Y1 Y3) as (-> & ->).
        rewrite Hk in Y2. inversion Y2; subst oi1.
        rewrite <- C3 in X2. apply (tracked_false_not_in _ _ Htr e X2). congruence.
      - exfalso. exact (LS k oi Hk Hid). }
    constructor; rewrite ?I, ?Hha, ?C1, ?Hq, ?Q, ?Hc, ?C6.
    - intros k oi Hk Hid. destruct (is_open (oi_wire oi)) eqn:Eo; [|reflexivity].
      rewrite <- Hid in Hans. rewrite (Hans k oi Hk eq_refl) in Eo; [discriminate|].
      rewrite Hid. rewrite <- Hid. apply (h_open_last _ _ A k oi Hk Eo).
    - intros k hr oi Hk Hoi Hid. destruct (unsent_or_over (h_st hr)) as [Hu|Ho]; [|exact Ho].
      exfalso. destruct (h_unsent _ _ A k hr oi Hk Hoi Hu) as (L & W & _). apply W.
      apply (Hans k oi Hoi Hid). rewrite <- Hid. exact L.
    - intros Hin. apply in_map_iff in Hin. destruct Hin as (m & Hm & Hin).
      destruct (h_q_prov _ _ A m Hin) as (k & hr & oi & X1 & X2 & X3 & X4 & X5 & X6 & X7).
      subst id. apply X7. apply (Hans k oi X2 X3 X4).
    - intros Hin. destruct (h_cancels _ _ A id Hin) as (k & hr & oi & X1 & X2 & X3 & X4 & X5 & X6 & X7).
      apply X7. apply (Hans k oi X2 X3 X4).
  Qed.

  (* ---- the throttle reply for the request just accepted -------------------------------------------- *)
  Lemma QH_throttle : forall o (s : st) q e s' r,
    InvU o s -> PendQ o s q -> QH o s q ->
    In {| e_id := q_id q; e_h := q_h q; e_dl := q_dl q |} (s_inflight s) ->
    base_start_send tp (mkresp (q_id q) BThrottle) s = (e, s') ->
    BH (o_call lim o (CSend (mkresp (q_id q) BThrottle) r)) s'.
  Proof.
    intros o s q e s' r HI HP G Hin H.
    destruct (ocall_send_proj lim o (mkresp (q_id q) BThrottle) r) as (_ & _ & _ & _ & _ & _ & I & Pn).
    destruct (ocall_flags_send lim o (mkresp (q_id q) BThrottle) r) as (V8 & _ & B1).
    cbv zeta in *. cbn [resp_body resp_id] in *.
    split; [unfold pend_ok; rewrite Pn; exact Logic.I|].
    intros Hb. rewrite B1 in Hb. destruct (G Hb) as (A & B & PH).
    pose proof (last_open_closed _ _ (ph_closed _ _ _ PH)) as Hlo.
    rewrite Hlo in I. cbn [close_at] in I. unfold not_must in V8. rewrite Hlo, andb_true_r in V8.
    split; [|congruence].
    destruct (base_start_send_shape tp _ _ _ _ H) as [(Hn & _ & _)|(en & r0 & Hen & He & B1' & B2 & B3 & B4 & B5 & B6 & B7 & B8 & B9 & B10 & B11 & B12 & L)].
    { exfalso. cbn in Hn. apply (find_entry_none _ _ Hn _ Hin). reflexivity. }
    cbn [resp_id] in *.
    apply (InvH_drop o _ s s' (q_id q) A (u_len _ _ HI) I); auto.
    - intros x Hx. rewrite B6 in Hx. exact Hx.
    - intros h0 Hh0. rewrite B5. exact Hh0.
    - intros k hr e0 Hk He0 Hh Hid. exfalso.
      destruct HP as (_ & _ & Q3 & _ & _ & _ & Q7).
      pose proof (Q7 e0 He0 Hid) as ->. cbn in Hh.
      apply (Q3 hr); [eapply nth_error_In; eauto|congruence].
  Qed.

  (* ---- a response leaves the queue and is handed to the channel ------------------------------------ *)
  Lemma InvH_pop : forall o (s : st) m rest,
    InvH o s -> s_respq s = m :: rest -> InvH o (add_permit (set_respq s rest)).
  Proof.
    intros o s m rest A Eq.
    destruct (add_permit_shape (set_respq s rest)) as (A1 & A2 & A3 & A4 & A5 & A6 & A7 & A8 & A9 & A10 & A11 & A12 & A13).
    cbv zeta in *. sproj.
    assert (Hnd : NoDup (map resp_id rest)).
    { pose proof (h_q_nodup _ _ A) as Hn. rewrite Eq in Hn. cbn in Hn. inversion Hn; assumption. }
    apply (InvH_hst o o s _ A eq_refl); auto.
    - intros j hr' Hj. destruct (A2 j hr' Hj) as (hr & X1 & X2 & X3 & X4). exists hr. split; [exact X1|split; [exact X2|]].
      destruct X4 as [X4|(b & X4 & X5)]; [left; exact X4|right; left]. rewrite X4, X5. cbn. auto.
    - intros j hr Hj. assert (Hlt : j < length (s_handlers (add_permit (set_respq s rest)))).
      { rewrite <- (map_length h_h), A1, map_length. apply nth_error_Some. congruence. }
      apply nth_error_Some in Hlt. destruct (nth_error (s_handlers (add_permit (set_respq s rest))) j); [eauto|congruence].
    - intros h Hh. rewrite A6. exact Hh.
    - intros m' Hm'. rewrite A11 in Hm'. rewrite Eq. right. exact Hm'.
    - rewrite A11. exact Hnd.
  Qed.

  Lemma PendH_pop : forall o (s : st) m rest id,
    PendH o s id -> s_respq s = m :: rest -> PendH o (add_permit (set_respq s rest)) id.
  Proof.
    intros o s m rest id [P1 P2 P3 P4] Eq.
    destruct (add_permit_shape (set_respq s rest)) as (A1 & A2 & A3 & A4 & A5 & A6 & A7 & A8 & A9 & A10 & A11 & A12 & A13).
    cbv zeta in *. sproj. constructor; rewrite ?A7, ?A11; auto.
    - intros k hr' oi Hk Hoi Hid. destruct (A2 k hr' Hk) as (hr & X1 & _ & _ & X4).
      pose proof (P2 k hr oi X1 Hoi Hid) as Hov.
      destruct X4 as [X4|(b & X4 & X5)]; [rewrite X4; exact Hov|rewrite X4 in Hov; destruct Hov].
    - intros Hin. apply P3. rewrite Eq. cbn. right. exact Hin.
  Qed.

  (* the entry with the id of the response, if tracked, is held by a handler *)
  Definition held (s : st) (id : N) : Prop :=
    forall e, In e (s_inflight s) -> e_id e = id -> exists hr, In hr (s_handlers s) /\ h_h hr = e_h e.

  Lemma GH_send : forall o (s : st) m rest e s2,
    InvU o s -> c_err (o_v o) = false -> GH o s -> s_respq s = m :: rest ->
    resp_body m <> BThrottle -> (h_b1 (o_v o) = true -> held s (resp_id m)) ->
    base_start_send tp m (add_permit (set_respq s rest)) = (e, s2) ->
    (find_entry (resp_id m) (add_permit (set_respq s rest)) = None -> GH o s2)
    /\ (forall en r, find_entry (resp_id m) (add_permit (set_respq s rest)) = Some en ->
                     GH (o_call lim o (CSend m r)) s2).
  Proof.
    intros o s m rest e s2 HI Hce G Eq Hnt Hheld H.
    set (sA := add_permit (set_respq s rest)) in *.
    pose proof (InvU_add_permit o s rest HI) as HIA. fold sA in HIA.
    destruct (add_permit_shape (set_respq s rest)) as (A1 & A2 & A3 & A4 & A5 & A6 & A7 & A8 & A9 & A10 & A11 & A12 & A13).
    cbv zeta in *. fold sA in A1, A2, A3, A4, A5, A6, A7, A8, A9, A10, A11, A12, A13. sproj.
    destruct (base_start_send_shape tp _ _ _ _ H) as [(Hn & He & Hs)|(en & r0 & Hen & He & B1 & B2 & B3 & B4 & B5 & B6 & B7 & B8 & B9 & B10 & B11 & B12 & L)].
    - split; [|intros en r Hen; congruence]. intros _ Hb. destruct (G Hb) as (A & B). rewrite Hs.
      split; [eapply InvH_pop; eauto|exact B].
    - split; [intros Hn; congruence|]. intros en' r _.
      destruct (ocall_send_proj lim o m r) as (_ & _ & _ & _ & _ & _ & P7).
      destruct (ocall_flags_send lim o m r) as (V8 & _ & Bb). cbv zeta in *.
      assert (P7' : o_incs (o_call lim o (CSend m r)) = close_at (last_open (resp_id m) (o_incs o)) WAnswered (o_incs o)).
      { destruct (resp_body m); try (destruct P7 as [P7 _]; exact P7). congruence. }
      assert (V8' : v08 (o_v (o_call lim o (CSend m r))) = v08 (o_v o) && body_ok m (o_incs o)).
      { destruct (resp_body m); try exact V8. congruence. }
      clear P7 V8. intros Hb. rewrite Bb in Hb. destruct (G Hb) as (A & B).
      set (o' := o_call lim o (CSend m r)) in *.
      (* the owner of the entry is the producer of the response *)
      destruct (find_entry_some _ _ _ Hen) as (Hin & Hid). rewrite A4 in Hin.
      assert (Ho : exists k1, owns o s k1 en).
      { destruct (u_owner _ _ HI en Hin) as [Ho|[_ Hno]]; [exact Ho|].
        exfalso. destruct (Hheld Hb en Hin Hid) as (hr & X1 & X2). exact (Hno hr X1 X2). }
      destruct Ho as (k1 & Ho).
      destruct (owns_facts o s k1 en HI Ho) as (hr1 & oi1 & X1 & X2 & X3 & X4 & X5 & X6 & X7).
      rewrite Hid in X4, X6, X7.
      destruct (h_q_prov _ _ A m) as (k & hr & oi & Y1 & Y2 & Y3 & Y4 & Y5 & Y6 & Y7); [rewrite Eq; left; reflexivity|].
      assert (k1 = k) by (eapply lastk_unique; eauto). subst k1.
      rewrite X1 in Y1. inversion Y1; subst hr1. rewrite X2 in Y2. inversion Y2; subst oi1.
      assert (Hbody : body_ok m (o_incs o) = true).
      { unfold body_ok. rewrite X7, X2, Y6. apply rbody_eqb_refl. }
      split; [|rewrite V8', B, Hbody; reflexivity].
      pose proof (InvH_pop o s m rest A Eq) as AA. fold sA in AA.
      assert (HlenA : length (o_incs o) = length (s_handlers sA)) by exact (u_len _ _ HIA).
      assert (Hnd : NoDup (map resp_id (m :: rest))) by (rewrite <- Eq; exact (h_q_nodup _ _ A)).
      assert (AC : InvH o' sA).
      { apply (InvH_close o o' sA (Some k) WAnswered AA HlenA); [rewrite P7', X7; reflexivity|reflexivity|].
        intros _ kc hrc oic [= <-] Hkc Hoic. rewrite X2 in Hoic. inversion Hoic; subst oic.
        destruct (A2 k hrc Hkc) as (hr0 & Z1 & _ & _ & Z4). rewrite X1 in Z1. inversion Z1; subst hr0.
        split.
        - destruct Z4 as [Z4|(b & Z4 & _)]; congruence.
        - intros m' Hm'. rewrite A11 in Hm'. cbn in Hnd. apply NoDup_cons_iff in Hnd. destruct Hnd as [Hni _].
          intros Heq. apply Hni. rewrite <- X4, <- Heq. apply in_map. exact Hm'. }
      apply (InvH_drop o' o' sA s2 (resp_id m) AC); auto.
      + rewrite P7', close_at_length. exact HlenA.
      + intros x Hx. rewrite B6 in Hx. exact Hx.
      + intros h0 Hh0. rewrite B5. exact Hh0.
      + intros k' hr' e0 Hk' He0 Hh' Hid0.
        assert (e0 = en).
        { apply (NoDup_map_in_inj _ _ e_id (s_inflight sA)); [rewrite A4; exact (u_idnodup _ _ HI)|exact He0|rewrite A4; exact Hin|congruence]. }
        subst e0.
        destruct (A2 k' hr' Hk') as (hr0 & Z1 & Z2 & _ & Z4).
        destruct (holder_is_owner o s en k' hr0 k hr HI Z1 (eq_trans (eq_sym Z2) (eq_sym Hh')) X1 X3) as (-> & ->).
        split.
        * intros oi' Hoi'. rewrite P7', X7 in Hoi'. cbn [close_at] in Hoi'.
          rewrite (upd_nth_same _ _ _ _ X2) in Hoi'. inversion Hoi'; subst oi'. cbn. discriminate.
        * right. destruct Z4 as [Z4|(b & Z4 & _)]; [rewrite Z4, Y5; exact Logic.I|congruence].
  Qed.
End MicroH2.

(* ------------------------------------------------------------------------------------------ *)
(* the loops: InvH (with v08 and the pending-request bookkeeping) at every micro-step boundary,
   next to ServerSim3's InvU *)
Section LoopsH.
  Context {T : Type}.
  Variable tp : transport T response cmsg.
  Variable lim : option nat.
  Notation st := (@sstate T).
  Notation ocs := (fold_left (o_call lim)).

  Definition postH (r : pres treq) (o : ostate) (s : st) : Prop :=
    match r with
    | PReady q => QH o s q
    | PFuel => BH o s
    | _ => BH o s /\ o_pend o = None
    end.

  Lemma base_invH : forall f (s : st) r s' o,
    BInv o s -> BH o s -> base_poll_next tp f s = (r, s') ->
    exists new, ext s s' new /\ post r (ocs new o) s' /\ postH r (ocs new o) s'.
  Proof.
    induction f as [|f IH]; intros s r s' o HB HH H; cbn [base_poll_next] in H.
    { injection H as <- <-. exists []. split; [apply ext_refl|split; [exact HB|exact HH]]. }
    destruct HB as (HI & Hh & Hce).
    (* cancel queue *)
    set (cs := match s_cancels s with
               | id :: r0 => (RSReady, snd (remove_request id (set_cancels s r0)))
               | [] => (RSClosed, s) end) in H.
    assert (Hc : (BInv o (snd cs) /\ BH o (snd cs)) /\ s_log (snd cs) = s_log s).
    { subst cs. destruct (s_cancels s) as [|id r0] eqn:EC; cbn [snd];
        [split; [exact (conj (conj HI (conj Hh Hce)) HH)|reflexivity]|].
      split; [|rewrite log_remove_request; reflexivity].
      split.
      - split; [apply InvU_server_cancel; auto|split; [|exact Hce]].
        destruct (remove_request_shape id (set_cancels s r0)) as [(_ & Heq & _)|(_ & _ & B1 & B2 & B3 & _)];
          cbv zeta in *.
        + rewrite Heq. exact Hh.
        + eapply (handled_remove s); eauto.
      - apply BH_server_cancel; auto. apply all_owned_of_handled; auto. }
    destruct cs as [cst s1]. cbn [snd] in Hc. destruct Hc as (((HI1 & Hh1 & _) & HH1) & Hl1).
    (* expiry *)
    destruct (poll_expired s1) as [est s2] eqn:EE.
    assert (HI2 : InvU o s2) by (eapply InvU_poll_expired; eauto).
    assert (HH2 : BH o s2) by exact (BH_expired o s1 est s2 HI1 HH1 EE).
    pose proof (log_poll_expired s1) as Hl2. rewrite EE in Hl2. cbn [snd] in Hl2.
    assert (Hh2 : handled s2).
    { destruct (poll_expired_shape _ _ _ EE) as (A1 & A2 & A3 & A4 & A5 & A6 & _ & _ & _ & _ & _ & HS).
      destruct HS as [(_ & B1 & _)|(_ & id & w & _ & _ & _ & C4 & _)].
      - apply (handled_sub s1 s2 Hh1); [rewrite B1; auto|rewrite A1; reflexivity].
      - eapply (handled_remove s1); eauto. }
    assert (Hall2 : all_owned o s2) by (apply all_owned_of_handled; auto).
    assert (Hown2 : pend_id o = None \/ all_owned o s2) by (right; exact Hall2).
    assert (H02 : ext s s2 []) by (apply ext_same; congruence).
    assert (HB2 : BInv o s2) by (exact (conj HI2 (conj Hh2 Hce))).
    (* the final status *)
    assert (Hfin : forall rst sx new0 r s',
               ext s sx new0 -> BInv (ocs new0 o) sx -> BH (ocs new0 o) sx -> o_pend (ocs new0 o) = None ->
               match combine (combine cst est) rst with
               | RSReady => base_poll_next tp f sx
               | RSClosed => (PEnd, sx)
               | RSPending => (PPending, sx)
               end = (r, s') ->
               exists new, ext s s' new /\ post r (ocs new o) s' /\ postH r (ocs new o) s').
    { intros rst sx new0 r0 s0 Hx HBx HHx Hpx HE. destruct (combine (combine cst est) rst).
      - destruct (IH _ _ _ _ HBx HHx HE) as (n1 & E1 & Post & PostH). exists (new0 ++ n1).
        split; [eapply ext_trans; eauto|]. rewrite ocs_app. split; assumption.
      - injection HE as <- <-. exists new0. split; [exact Hx|split; [exact HBx|exact (conj HHx Hpx)]].
      - injection HE as <- <-. exists new0. split; [exact Hx|split; [exact HBx|exact (conj HHx Hpx)]]. }
    destruct (s_fused s2) eqn:EF.
    - apply (Hfin RSClosed s2 []); [exact H02|exact HB2|exact HH2| |exact H].
      cbn [fold_left]. destruct HH2 as (P2 & _). unfold pend_ok in P2.
      destruct (o_pend o) as [[[[a b] d] e]|]; [destruct P2; congruence|reflexivity].
    - destruct (do_next tp s2) as [rr s3] eqn:EN.
      destruct (do_next_core tp _ _ _ EN) as (C3 & F3 & _ & _ & _ & L3).
      assert (H23 : ext s s3 [CNext rr]).
      { unfold ext in *. rewrite L3, H02. reflexivity. }
      assert (Hh3 : handled s3).
      { destruct C3 as (D1 & D2 & D3 & _). apply (handled_sub s2 s3 Hh2); [rewrite D3; auto|rewrite D1; reflexivity]. }
      destruct rr as [m| | |].
      + destruct m as [id dl tr body|id tr].
        * destruct (start_request id dl s3) as [[h s4]|] eqn:ES.
          -- injection H as <- <-.
             destruct (step_next_accept tp lim o s2 id dl tr body s3 h s4 HI2 Hown2 Hce EN ES) as (A & B & C & D).
             pose proof (BH_next_accept tp lim o s2 id dl tr body s3 h s4 HI2 Hall2 Hce HH2 EN ES) as QQ.
             exists [CNext (RItem (MReq id dl tr body))].
             split; [|cbn [fold_left post postH]; split; [exact (conj (conj A (conj B C)) D)|exact QQ]].
             unfold ext in *. rewrite (log_start_request _ _ _ _ _ ES). exact H23.
          -- destruct (step_next_dup tp lim o s2 id dl tr body s3 HI2 Hown2 Hce EN) as (A & B & C).
             pose proof (BH_next_dup tp lim o s2 id dl tr body s3 HI2 Hall2 Hce HH2 EN EF ES) as HH3.
             assert (HB3 : BInv (ocs [CNext (RItem (MReq id dl tr body))] o) s3)
               by (cbn [fold_left]; exact (conj A (conj Hh3 C))).
             destruct (IH _ _ _ _ HB3 HH3 H) as (n1 & E1 & Post & PostH).
             exists ([CNext (RItem (MReq id dl tr body))] ++ n1). split; [eapply ext_trans; eauto|].
             rewrite ocs_app. split; assumption.
        * destruct (step_next_cancel tp lim o s2 id tr s3 HI2 Hown2 Hce EN) as (A & B).
          pose proof (BH_next_cancel tp lim o s2 id tr s3 HI2 Hall2 Hce HH2 EN) as HH3.
          apply (Hfin RSReady (cancel_request id s3) [CNext (RItem (MCancel id tr))]); [| | | |exact H].
          -- unfold ext in *. rewrite log_cancel_request. exact H23.
          -- cbn [fold_left]. split; [exact A|split].
             ++ destruct (cancel_request_shape id s3) as [(Heq & _)|(e & _ & B1 & _ & _ & B4 & _)]; cbv zeta in *.
                ** rewrite Heq. exact Hh3.
                ** eapply (handled_remove s3); eauto.
             ++ destruct (ocall_next_proj lim o (RItem (MCancel id tr))) as (_ & _ & P3 & _). cbv zeta in P3. congruence.
          -- exact HH3.
          -- cbn [fold_left]. destruct (ocall_next_proj lim o (RItem (MCancel id tr))) as (_ & _ & _ & _ & _ & _ & _ & Pn). exact Pn.
      + injection H as <- <-.
        destruct (step_next_idle tp lim o s2 RErr s3 HI2 Hown2 Hce EN I) as (A & B).
        pose proof (BH_next_idle tp lim o s2 RErr s3 HH2 EN I) as HH3.
        exists [CNext RErr]. split; [exact H23|]. cbn [fold_left post postH]. split.
        * split; [exact A|split; [exact Hh3|]].
          destruct (ocall_next_proj lim o RErr) as (_ & _ & P3 & _). cbv zeta in P3. congruence.
        * split; [exact HH3|]. destruct (ocall_next_proj lim o RErr) as (_ & _ & _ & _ & _ & _ & _ & Pn). exact Pn.
      + destruct (step_next_idle tp lim o s2 REof s3 HI2 Hown2 Hce EN I) as (A & B).
        pose proof (BH_next_idle tp lim o s2 REof s3 HH2 EN I) as HH3.
        apply (Hfin RSClosed (set_fused s3 true) [CNext REof]); [exact H23| |exact HH3| |exact H].
        * cbn [fold_left]. split; [exact A|split; [exact Hh3|]].
          destruct (ocall_next_proj lim o REof) as (_ & _ & P3 & _). cbv zeta in P3. congruence.
        * cbn [fold_left]. destruct (ocall_next_proj lim o REof) as (_ & _ & _ & _ & _ & _ & _ & Pn & _). exact Pn.
      + destruct (step_next_idle tp lim o s2 RPending s3 HI2 Hown2 Hce EN I) as (A & B).
        pose proof (BH_next_idle tp lim o s2 RPending s3 HH2 EN I) as HH3.
        apply (Hfin RSPending s3 [CNext RPending]); [exact H23| |exact HH3| |exact H].
        * cbn [fold_left]. split; [exact A|split; [exact Hh3|]].
          destruct (ocall_next_proj lim o RPending) as (_ & _ & P3 & _). cbv zeta in P3. congruence.
        * cbn [fold_left]. destruct (ocall_next_proj lim o RPending) as (_ & _ & _ & _ & _ & _ & _ & Pn). exact Pn.
  Qed.

  (* MaxRequests::poll_next *)
  Lemma maxreq_invH : forall f limit (s : st) r s' o,
    BInv o s -> BH o s -> o_pend o = None -> maxreq_poll_next tp f limit s = (r, s') ->
    exists new, ext s s' new /\ post r (ocs new o) s' /\ postH r (ocs new o) s'.
  Proof.
    induction f as [|f IH]; intros limit s r s' o HB HH Hp H; cbn [maxreq_poll_next] in H.
    { injection H as <- <-. exists []. split; [apply ext_refl|split; [exact HB|exact HH]]. }
    destruct (limit <=? length (s_inflight s)).
    - destruct (do_ready tp s) as [x s1] eqn:ER.
      pose proof (BInv_ready tp lim _ _ _ _ HB ER) as HB1.
      pose proof (BH_ready tp lim _ _ _ _ HH ER) as HH1.
      destruct (ocall_flags_ready lim o x) as (_ & _ & _ & _ & Pn1). cbv zeta in Pn1. rewrite Hp in Pn1.
      destruct (do_ready_core tp _ _ _ ER) as (_ & _ & _ & _ & _ & L1).
      assert (E01 : ext s s1 [CReady x]) by (unfold ext; rewrite L1; reflexivity).
      destruct x.
      + destruct (base_poll_next tp (S f) s1) as [y s2] eqn:EB.
        destruct (base_invH _ _ _ _ _ HB1 HH1 EB) as (n2 & E2 & Post2 & PostH2).
        assert (E02 : ext s s2 ([CReady TOk] ++ n2)) by (eapply ext_trans; eauto).
        destruct y as [q| |a| |].
        * destruct Post2 as ((HI2 & HP2 & Hce2) & Hin2).
          destruct (base_start_send tp (mkresp (q_id q) BThrottle) s2) as [e s3] eqn:ESS.
          destruct (step_throttle tp lim _ s2 q e s3 HI2 HP2 Hce2 Hin2 ESS) as (rr & L3 & He & HI3 & Hp3 & Hce3 & Hi3).
          pose proof (QH_throttle tp lim _ s2 q e s3 rr HI2 HP2 PostH2 Hin2 ESS) as HH3.
          cbv zeta in *.
          assert (E03 : ext s s3 (([CReady TOk] ++ n2) ++ [CSend (mkresp (q_id q) BThrottle) rr])).
          { eapply ext_trans; [exact E02|]. unfold ext. rewrite L3. reflexivity. }
          assert (Hh3 : handled s3).
          { intros e0 He0. rewrite Hi3 in He0. apply in_drop_entry in He0. destruct He0 as [He0 Hne].
            destruct HP2 as (_ & Q2 & _).
            destruct (base_start_send_shape tp _ _ _ _ ESS) as [(_ & _ & ->)|(_ & _ & _ & _ & _ & _ & B3 & _)].
            - destruct (classic_handled s2 e0) as [Hy|Hn]; [exact Hy|].
              exfalso. pose proof (Q2 e0 He0 Hn) as ->. cbn in Hne. congruence.
            - rewrite B3. destruct (classic_handled s2 e0) as [Hy|Hn]; [exact Hy|].
              exfalso. pose proof (Q2 e0 He0 Hn) as ->. cbn in Hne. congruence. }
          assert (HB3 : BInv (ocs (([CReady TOk] ++ n2) ++ [CSend (mkresp (q_id q) BThrottle) rr]) o) s3).
          { rewrite ocs_app. cbn [fold_left]. rewrite ocs_app. cbn [fold_left]. exact (conj HI3 (conj Hh3 Hce3)). }
          assert (HH3' : BH (ocs (([CReady TOk] ++ n2) ++ [CSend (mkresp (q_id q) BThrottle) rr]) o) s3).
          { rewrite ocs_app. cbn [fold_left]. rewrite ocs_app. cbn [fold_left]. exact HH3. }
          assert (Hp3' : o_pend (ocs (([CReady TOk] ++ n2) ++ [CSend (mkresp (q_id q) BThrottle) rr]) o) = None).
          { rewrite ocs_app. cbn [fold_left]. rewrite ocs_app. cbn [fold_left].
            unfold pend_id in Hp3. destruct (o_pend _) as [[[[a b] d] g]|]; [discriminate|reflexivity]. }
          destruct e as [a|].
          -- injection H as <- <-. eexists; split; [exact E03|split; [exact HB3|exact (conj HH3' Hp3')]].
          -- destruct (IH _ _ _ _ _ HB3 HH3' Hp3' H) as (n4 & E4 & Post4 & PostH4).
             eexists; split; [eapply ext_trans; [exact E03|exact E4]|]. rewrite ocs_app. split; assumption.
        * injection H as <- <-. eexists; split; [exact E02|]. rewrite ocs_app. split; assumption.
        * injection H as <- <-. eexists; split; [exact E02|]. rewrite ocs_app. split; assumption.
        * injection H as <- <-. eexists; split; [exact E02|]. rewrite ocs_app. split; assumption.
        * injection H as <- <-. eexists; split; [exact E02|]. rewrite ocs_app. split; assumption.
      + injection H as <- <-. eexists; split; [exact E01|split; [exact HB1|exact (conj HH1 Pn1)]].
      + injection H as <- <-. eexists; split; [exact E01|split; [exact HB1|exact (conj HH1 Pn1)]].
    - exact (base_invH _ _ _ _ _ HB HH H).
  Qed.
End LoopsH.

(* ---- the write side, for any predicate X that the flag-only calls and the send step preserve ---- *)
Section WriteX.
  Context {T : Type}.
  Variable tp : transport T response cmsg.
  Variable lim : option nat.
  Notation st := (@sstate T).
  Notation ocs := (fold_left (o_call lim)).

  Variable X : ostate -> st -> Prop.
  Hypothesis Xready : forall o (s : st) r s', X o s -> do_ready tp s = (r, s') -> X (o_call lim o (CReady r)) s'.
  Hypothesis Xflush : forall o (s : st) r s', X o s -> do_flush tp s = (r, s') -> X (o_call lim o (CFlush r)) s'.
  Hypothesis Xsend : forall o (s : st) m rest e s2,
    InvU o s -> c_err (o_v o) = false -> X o s -> s_respq s = m :: rest -> resp_body m <> BThrottle ->
    base_start_send tp m (add_permit (set_respq s rest)) = (e, s2) ->
    (find_entry (resp_id m) (add_permit (set_respq s rest)) = None -> X o s2)
    /\ (forall en r, find_entry (resp_id m) (add_permit (set_respq s rest)) = Some en ->
                     X (o_call lim o (CSend m r)) s2).

  Lemma ensure_invX : forall o (s : st) w s',
    InvU o s -> c_err (o_v o) = false -> X o s -> ensure_writeable tp s = (w, s') ->
    exists new, ext s s' new /\ wpost o s (ocs new o) s' /\ s_respq s' = s_respq s /\ X (ocs new o) s'.
  Proof.
    intros o s w s' HI Hce HX H. unfold ensure_writeable in H.
    destruct (do_ready tp s) as [r s1] eqn:E1.
    destruct (IF_ready tp lim _ _ _ _ HI Hce E1) as (I1 & C1 & P1 & W1 & L1 & Q1). cbv zeta in *.
    pose proof (Xready _ _ _ _ HX E1) as X1'.
    assert (X1 : ext s s1 [CReady r]) by (unfold ext; rewrite L1; reflexivity).
    destruct r; try (injection H as <- <-; eexists;
                     (split; [exact X1|]); (split; [exact (conj I1 (conj C1 (conj P1 W1)))|split; [exact Q1|exact X1']])).
    destruct (do_flush tp s1) as [f s2] eqn:E2.
    destruct (IF_flush tp lim _ _ _ _ I1 C1 E2) as (I2 & C2 & P2 & W2 & L2 & Q2). cbv zeta in *.
    pose proof (Xflush _ _ _ _ X1' E2) as X2'.
    assert (X2 : ext s s2 ([CReady TPending] ++ [CFlush f])).
    { eapply ext_trans; [exact X1|]. unfold ext; rewrite L2; reflexivity. }
    destruct f; try (injection H as <- <-; eexists; (split; [exact X2|]); rewrite ocs_app; cbn [fold_left];
                     (split; [exact (conj I2 (conj C2 (conj (eq_trans P2 P1) (wframe_trans _ _ _ W1 W2))))|split; [congruence|exact X2']])).
    destruct (do_ready tp s2) as [r2 s3] eqn:E3.
    destruct (IF_ready tp lim _ _ _ _ I2 C2 E3) as (I3 & C3 & P3 & W3 & L3 & Q3). cbv zeta in *.
    pose proof (Xready _ _ _ _ X2' E3) as X3'.
    assert (X3 : ext s s3 (([CReady TPending] ++ [CFlush TOk]) ++ [CReady r2])).
    { eapply ext_trans; [exact X2|]. unfold ext; rewrite L3; reflexivity. }
    destruct r2; injection H as <- <-; eexists; (split; [exact X3|]); rewrite !ocs_app; cbn [fold_left];
      (split; [exact (conj I3 (conj C3 (conj (eq_trans P3 (eq_trans P2 P1))
                                               (wframe_trans _ _ _ (wframe_trans _ _ _ W1 W2) W3))))|split; [congruence|exact X3']]).
  Qed.

  Lemma pump_write_invX : forall rc o (s : st) w s',
    InvU o s -> c_err (o_v o) = false -> no_thr s -> X o s -> pump_write tp rc s = (w, s') ->
    exists new, ext s s' new /\ wpost o s (ocs new o) s' /\ no_thr s' /\ X (ocs new o) s'.
  Proof.
    intros rc o s w s' HI Hce Hnt HX H. unfold pump_write, poll_next_response in H.
    destruct (ensure_writeable tp s) as [x s1] eqn:EW.
    destruct (ensure_invX _ _ _ _ HI Hce HX EW) as (n1 & X1 & (I1 & C1 & P1 & W1) & Q1 & HX1).
    assert (Hnt1 : no_thr s1) by (intros m Hm; apply Hnt; rewrite <- Q1; exact Hm).
    assert (Hflush : forall w s',
      (let '(f, s2) := do_flush tp s1 in
       match f with
       | TOk => if rc && Nat.eqb (length (s_inflight s2)) 0 then (@PEnd unit, s2) else (PPending, s2)
       | TErr => (PErr AFlush, s2)
       | TPending => (PPending, s2)
       end) = (w, s') ->
      exists new, ext s s' new /\ wpost o s (ocs new o) s' /\ no_thr s' /\ X (ocs new o) s').
    { intros w0 s0 HH. destruct (do_flush tp s1) as [f s2] eqn:EF.
      destruct (IF_flush tp lim _ _ _ _ I1 C1 EF) as (I2 & C2 & P2 & W2 & L2 & Q2). cbv zeta in *.
      pose proof (Xflush _ _ _ _ HX1 EF) as HX2.
      assert (X2 : ext s s2 (n1 ++ [CFlush f])).
      { eapply ext_trans; [exact X1|]. unfold ext; rewrite L2; reflexivity. }
      assert (Hnt2 : no_thr s2) by (intros m Hm; apply Hnt1; rewrite <- Q2; exact Hm).
      assert (R : exists new, ext s s2 new /\ wpost o s (ocs new o) s2 /\ no_thr s2 /\ X (ocs new o) s2).
      { eexists; split; [exact X2|]. rewrite ocs_app. cbn [fold_left].
        split; [exact (conj I2 (conj C2 (conj (eq_trans P2 P1) (wframe_trans _ _ _ W1 W2))))|split; [exact Hnt2|exact HX2]]. }
      destruct f; [destruct (rc && _)| |]; injection HH as <- <-; exact R. }
    destruct x as [| |a].
    - destruct (s_respq s1) as [|m q] eqn:EQ.
      + apply (Hflush w s'). exact H.
      + destruct (base_start_send tp m (add_permit (set_respq s1 q))) as [e s2] eqn:ES.
        assert (Hm : resp_body m <> BThrottle) by (apply Hnt1; rewrite EQ; left; reflexivity).
        destruct (Xsend _ _ _ _ _ _ I1 C1 HX1 EQ Hm ES) as (XA & XB).
        destruct (add_permit_shape (set_respq s1 q)) as (A1 & A2 & A3 & A4 & A5 & A6 & A7 & A8 & A9 & A10 & A11 & A12 & A13).
        cbv zeta in *. sproj.
        assert (Hq2 : forall mm, In mm (s_respq s2) -> In mm (s_respq s1)).
        { destruct (base_start_send_shape tp _ _ _ _ ES) as [(_ & _ & ->)|(_ & _ & _ & _ & _ & _ & _ & _ & _ & _ & _ & _ & _ & B12 & _)];
            intros mm Hmm; [rewrite A11 in Hmm|rewrite B12, A11 in Hmm]; rewrite EQ; right; exact Hmm. }
        assert (Hnt2 : no_thr s2) by (intros mm Hmm; apply Hnt1; apply Hq2; exact Hmm).
        destruct (step_send tp lim _ s1 m q e s2 I1 C1 Hm ES)
          as [(He & L2 & I2 & Hsub & Hieq)|(r & L2 & He & I2 & P2 & C2 & Hi2)]; cbv zeta in *.
        * assert (W2 : wframe s1 s2 /\ X (ocs n1 o) s2).
          { destruct (base_start_send_shape tp _ _ _ _ ES) as [(Hfn & _ & Heq)|(en & rr & _ & _ & _ & _ & _ & _ & _ & _ & _ & _ & _ & _ & _ & _ & LL)].
            - split; [|exact (XA Hfn)]. subst s2. unfold wframe. rewrite A1, A3, A6, A7, A9. repeat split; auto.
            - exfalso. rewrite A12 in LL. rewrite L2 in LL. clear -LL.
              assert (length (s_log s1) = length (CSend m rr :: s_log s1)) by (rewrite <- LL; reflexivity).
              cbn in H. lia. }
          destruct W2 as (W2 & HX2).
          assert (R : exists new, ext s s2 new /\ wpost o s (ocs new o) s2 /\ no_thr s2 /\ X (ocs new o) s2).
          { exists n1. split; [unfold ext in *; rewrite L2; exact X1|].
            split; [exact (conj I2 (conj C1 (conj P1 (wframe_trans _ _ _ W1 W2))))|split; [exact Hnt2|exact HX2]]. }
          subst e. injection H as <- <-. exact R.
        * assert (W2 : wframe s1 s2 /\ X (o_call lim (ocs n1 o) (CSend m r)) s2).
          { destruct (base_start_send_shape tp _ _ _ _ ES) as [(_ & _ & Heq)|(en & rr & Hfe & _ & B1 & B2 & B3 & B4 & B5 & B6 & B7 & B8 & B9 & B10 & _)].
            - exfalso. rewrite Heq, A12 in L2. clear -L2.
              assert (length (s_log s1) = length (CSend m r :: s_log s1)) by (rewrite <- L2; reflexivity).
              cbn in H. lia.
            - split; [|exact (XB en r Hfe)]. unfold wframe. rewrite B3, B4, B5, B6, B8, A1, A3, A6, A7, A9. repeat split; auto.
              intros e0 He0. rewrite B1, A4 in He0. apply in_drop_entry in He0. tauto. }
          destruct W2 as (W2 & HX2).
          assert (R : exists new, ext s s2 new /\ wpost o s (ocs new o) s2 /\ no_thr s2 /\ X (ocs new o) s2).
          { exists (n1 ++ [CSend m r]). split; [eapply ext_trans; [exact X1|unfold ext; rewrite L2; reflexivity]|].
            rewrite ocs_app. cbn [fold_left].
            split; [exact (conj I2 (conj C2 (conj (eq_trans P2 P1) (wframe_trans _ _ _ W1 W2))))|split; [exact Hnt2|exact HX2]]. }
          destruct e; injection H as <- <-; exact R.
    - apply (Hflush w s'). exact H.
    - injection H as <- <-. exists n1. split; [exact X1|]. split; [exact (conj I1 (conj C1 (conj P1 W1)))|split; [exact Hnt1|exact HX1]].
  Qed.
End WriteX.

Section LoopsH2.
  Context {T : Type}.
  Variable tp : transport T response cmsg.
  Variable lim : option nat.
  Notation st := (@sstate T).
  Notation ocs := (fold_left (o_call lim)).

  (* the two instances of the write side *)
  Definition XB (o : ostate) (s : st) : Prop := handled s /\ GH o s.
  Definition XQ (q : treq) (o : ostate) (s : st) : Prop :=
    PendQ o s q /\ QH o s q /\ (h_b1 (o_v o) = true -> In (entry_of q) (s_inflight s)).

  Lemma handled_core : forall (s s' : st), same_core s s' -> handled s -> handled s'.
  Proof.
    intros s s' (C1 & C2 & C3 & _) Hh. apply (handled_sub s s' Hh); [rewrite C3; auto|rewrite C1; reflexivity].
  Qed.

  Lemma XB_ready : forall o (s : st) r s', XB o s -> do_ready tp s = (r, s') -> XB (o_call lim o (CReady r)) s'.
  Proof.
    intros o s r s' (Hh & G) H. destruct (do_ready_core tp _ _ _ H) as (C & F & Q & _).
    destruct (ocall_flags_ready lim o r) as (V8 & _ & B1 & I & Pn). cbv zeta in *.
    split; [eapply handled_core; eauto|eapply GH_frame; eauto].
  Qed.
  Lemma XB_flush : forall o (s : st) r s', XB o s -> do_flush tp s = (r, s') -> XB (o_call lim o (CFlush r)) s'.
  Proof.
    intros o s r s' (Hh & G) H. destruct (do_flush_core tp _ _ _ H) as (C & F & Q & _).
    destruct (ocall_flags_flush lim o r) as (V8 & _ & B1 & I & Pn). cbv zeta in *.
    split; [eapply handled_core; eauto|eapply GH_frame; eauto].
  Qed.

  Lemma send_frames : forall m (s : st) rest e s2,
    base_start_send tp m (add_permit (set_respq s rest)) = (e, s2) ->
    (forall x, In x (s_inflight s2) -> In x (s_inflight s))
    /\ map h_h (s_handlers s2) = map h_h (s_handlers s) /\ s_next_h s2 = s_next_h s
    /\ s_aborted s2 = s_aborted s /\ s_cancels s2 = s_cancels s.
  Proof.
    intros m s rest e s2 H.
    destruct (add_permit_shape (set_respq s rest)) as (A1 & A2 & A3 & A4 & A5 & A6 & A7 & A8 & A9 & A10 & A11 & A12 & A13).
    cbv zeta in *. sproj.
    destruct (base_start_send_shape tp _ _ _ _ H) as [(_ & _ & ->)|(en & rr & _ & _ & B1 & B2 & B3 & B4 & B5 & B6 & _)].
    - rewrite A1, A3, A4, A6, A7. repeat split; auto.
    - rewrite B3, B4, B5, B6, A1, A3, A6, A7. repeat split; auto.
      intros x Hx. rewrite B1, A4 in Hx. apply in_drop_entry in Hx. tauto.
  Qed.

  Lemma XB_send : forall o (s : st) m rest e s2,
    InvU o s -> c_err (o_v o) = false -> XB o s -> s_respq s = m :: rest -> resp_body m <> BThrottle ->
    base_start_send tp m (add_permit (set_respq s rest)) = (e, s2) ->
    (find_entry (resp_id m) (add_permit (set_respq s rest)) = None -> XB o s2)
    /\ (forall en r, find_entry (resp_id m) (add_permit (set_respq s rest)) = Some en ->
                     XB (o_call lim o (CSend m r)) s2).
  Proof.
    intros o s m rest e s2 HI Hce (Hh & G) Eq Hnt H.
    destruct (send_frames _ _ _ _ _ H) as (F1 & F2 & _).
    assert (Hh2 : handled s2) by (eapply handled_sub; eauto).
    assert (Hheld : h_b1 (o_v o) = true -> held s (resp_id m)).
    { intros _ e0 He0 _. exact (Hh e0 He0). }
    destruct (GH_send tp lim o s m rest e s2 HI Hce G Eq Hnt Hheld H) as (GA & GB).
    split; [intros Hn; split; [exact Hh2|exact (GA Hn)]|intros en r Hen; split; [exact Hh2|exact (GB en r Hen)]].
  Qed.

  Lemma XQ_ready : forall q o (s : st) r s', XQ q o s -> do_ready tp s = (r, s') -> XQ q (o_call lim o (CReady r)) s'.
  Proof.
    intros q o s r s' (HP & G & Hin) H. destruct (do_ready_core tp _ _ _ H) as ((C1 & C2 & C3 & C4 & C5 & C6 & C7 & C8) & F & Q & _).
    destruct (ocall_flags_ready lim o r) as (V8 & _ & B1 & I & Pn). cbv zeta in *.
    split; [|split; [eapply QH_ready; eauto|rewrite B1, C3; exact Hin]].
    eapply PendQ_frame; eauto; try congruence; try (rewrite C3; auto).
  Qed.
  Lemma XQ_flush : forall q o (s : st) r s', XQ q o s -> do_flush tp s = (r, s') -> XQ q (o_call lim o (CFlush r)) s'.
  Proof.
    intros q o s r s' (HP & G & Hin) H. destruct (do_flush_core tp _ _ _ H) as ((C1 & C2 & C3 & C4 & C5 & C6 & C7 & C8) & F & Q & _).
    destruct (ocall_flags_flush lim o r) as (V8 & _ & B1 & I & Pn). cbv zeta in *.
    split; [|split; [eapply QH_flush; eauto|rewrite B1, C3; exact Hin]].
    eapply PendQ_frame; eauto; try congruence; try (rewrite C3; auto).
  Qed.

  Lemma XQ_send : forall q o (s : st) m rest e s2,
    InvU o s -> c_err (o_v o) = false -> XQ q o s -> s_respq s = m :: rest -> resp_body m <> BThrottle ->
    base_start_send tp m (add_permit (set_respq s rest)) = (e, s2) ->
    (find_entry (resp_id m) (add_permit (set_respq s rest)) = None -> XQ q o s2)
    /\ (forall en r, find_entry (resp_id m) (add_permit (set_respq s rest)) = Some en ->
                     XQ q (o_call lim o (CSend m r)) s2).
  Proof.
    intros q o s m rest e s2 HI Hce (HP & G & HinQ) Eq Hnt H.
    destruct (send_frames _ _ _ _ _ H) as (F1 & F2 & F3 & F4 & F5).
    assert (GG : GH o s) by (intros Hb; destruct (G Hb) as (A & B & _); auto).
    assert (Hheld : h_b1 (o_v o) = true -> held s (resp_id m)).
    { intros Hb e0 He0 Hid. destruct (G Hb) as (_ & _ & PH).
      destruct (classic_handled s e0) as [Hy|Hn]; [exact Hy|]. exfalso.
      destruct HP as (_ & Q2 & _). pose proof (Q2 e0 He0 Hn) as ->. cbn in Hid.
      apply (ph_noq _ _ _ PH). rewrite Hid, Eq. cbn. left. reflexivity. }
    destruct (GH_send tp lim o s m rest e s2 HI Hce GG Eq Hnt Hheld H) as (GA & GB).
    destruct (add_permit_shape (set_respq s rest)) as (A1 & A2 & A3 & A4 & A5 & A6 & A7 & A8 & A9 & A10 & A11 & A12 & A13).
    cbv zeta in *. sproj.
    assert (Hq2 : s_respq s2 = rest /\ s_cancels s2 = s_cancels s
                  /\ forall k hr', nth_error (s_handlers s2) k = Some hr' ->
                       exists hr, nth_error (s_handlers s) k = Some hr
                                  /\ (h_st hr' = h_st hr \/ exists b, h_st hr = HWait b /\ h_st hr' = HPermit b)).
    { destruct (base_start_send_shape tp _ _ _ _ H) as [(_ & _ & ->)|(en & rr & _ & _ & B1 & B2 & B3 & B4 & B5 & B6 & B7 & B8 & B9 & B10 & _)].
      - rewrite A11, A7. repeat split; auto. intros k hr' Hk. destruct (A2 k hr' Hk) as (hr & X1 & _ & _ & X4). eauto.
      - rewrite B10, A11, B6, A7, B3. repeat split; auto.
        intros k hr' Hk. destruct (A2 k hr' Hk) as (hr & X1 & _ & _ & X4). eauto. }
    destruct Hq2 as (Q2 & C2 & H2).
    assert (Hin2 : h_b1 (o_v o) = true -> In (entry_of q) (s_inflight s2)).
    { intros Hb. pose proof (HinQ Hb) as Hin. destruct (G Hb) as (_ & _ & PH).
      destruct (base_start_send_shape tp _ _ _ _ H) as [(_ & _ & ->)|(en & rr & _ & _ & B1 & _)].
      - rewrite A4. exact Hin.
      - rewrite B1, A4. apply in_drop_entry. split; [exact Hin|]. cbn. intros Heq.
        apply (ph_noq _ _ _ PH). rewrite Heq, Eq. cbn. left. reflexivity. }
    assert (PHstep : forall o', (forall k oi', nth_error (o_incs o') k = Some oi' ->
                        exists oi, nth_error (o_incs o) k = Some oi /\ oi_id oi' = oi_id oi
                                   /\ (is_open (oi_wire oi') = true -> is_open (oi_wire oi) = true)) ->
                      PendH o s (q_id q) -> PendH o' s2 (q_id q)).
    { intros o' Hinc [P1 P2 P3 P4]. constructor; rewrite ?Q2, ?C2.
      - intros k oi' Hk Hid. destruct (Hinc k oi' Hk) as (oi & X1 & X2 & X3).
        destruct (is_open (oi_wire oi')) eqn:Eo; [|reflexivity].
        rewrite (P1 k oi X1 (eq_trans (eq_sym X2) Hid)) in X3. specialize (X3 eq_refl). discriminate.
      - intros k hr' oi' Hk Hoi' Hid. destruct (Hinc k oi' Hoi') as (oi & X1 & X2 & _).
        destruct (H2 k hr' Hk) as (hr & Y1 & Y2).
        pose proof (P2 k hr oi Y1 X1 (eq_trans (eq_sym X2) Hid)) as Hov.
        destruct Y2 as [Y2|(b & Y2 & _)]; [rewrite Y2; exact Hov|rewrite Y2 in Hov; destruct Hov].
      - intros Hin. apply P3. rewrite Eq. cbn. right. exact Hin.
      - exact P4. }
    split.
    - intros Hn. split; [|split; [|exact Hin2]].
      + eapply PendQ_frame; eauto.
      + intros Hb. destruct (G Hb) as (_ & _ & PH). destruct (GA Hn Hb) as (A' & B'). split; [exact A'|split; [exact B'|]].
        apply (PHstep o); [|exact PH]. intros k oi' Hk. exists oi'. auto.
    - intros en r Hen.
      destruct (ocall_send_proj lim o m r) as (_ & _ & _ & _ & _ & _ & P7).
      destruct (ocall_flags_send lim o m r) as (_ & _ & Bb). cbv zeta in *.
      assert (P7' : o_incs (o_call lim o (CSend m r)) = close_at (last_open (resp_id m) (o_incs o)) WAnswered (o_incs o)
                    /\ o_pend (o_call lim o (CSend m r)) = o_pend o).
      { destruct (resp_body m); try exact P7. congruence. }
      destruct P7' as (I & Pn).
      split; [|split; [|rewrite Bb; exact Hin2]].
      + eapply PendQ_frame; eauto.
      + intros Hb. pose proof Hb as Hb0. rewrite Bb in Hb0. destruct (G Hb0) as (_ & _ & PH).
        destruct (GB en r Hen Hb) as (A' & B'). split; [exact A'|split; [exact B'|]].
        apply (PHstep _); [|exact PH]. intros k oi' Hk. rewrite I in Hk.
        destruct (close_at_nth _ _ _ _ _ Hk) as (y & Hy & E1 & _ & _ & _ & _ & W). exists y. split; [exact Hy|split; [exact E1|]].
        destruct W as [[_ W]|[_ W]]; rewrite W; [discriminate|auto].
  Qed.

  Lemma pump_write_invB : forall rc o (s : st) w s',
    InvU o s -> c_err (o_v o) = false -> no_thr s -> XB o s -> pump_write tp rc s = (w, s') ->
    exists new, ext s s' new /\ wpost o s (ocs new o) s' /\ no_thr s' /\ XB (ocs new o) s'.
  Proof. exact (pump_write_invX tp lim XB XB_ready XB_flush XB_send). Qed.

  Lemma pump_write_invQ : forall q rc o (s : st) w s',
    InvU o s -> c_err (o_v o) = false -> no_thr s -> XQ q o s -> pump_write tp rc s = (w, s') ->
    exists new, ext s s' new /\ wpost o s (ocs new o) s' /\ no_thr s' /\ XQ q (ocs new o) s'.
  Proof. intro q. exact (pump_write_invX tp lim (XQ q) (XQ_ready q) (XQ_flush q) (XQ_send q)). Qed.

  (* what is left of the invariant once a poll has failed *)
  Definition ErrH (o : ostate) (s : st) : Prop :=
    h_b1 (o_v o) = true ->
    Safe s /\ v08 (o_v o) = true
    /\ forall k oi, nth_error (o_incs o) k = Some oi -> oi_wire oi = WOpen -> trk s k.

  Definition rpostH (r : pres treq) (o : ostate) (s : st) : Prop :=
    match r with
    | PReady q => QH o s q /\ (h_b1 (o_v o) = true -> In (entry_of q) (s_inflight s))
    | PEnd | PPending => BH o s /\ o_pend o = None
    | PErr _ => ErrH o s
    | PFuel => True
    end.

  Lemma ErrH_of_GH : forall o (s : st), GH o s -> ErrH o s.
  Proof.
    intros o s G Hb. destruct (G Hb) as (A & B). split; [exact (h_safe _ _ A)|split; [exact B|exact (h_open_tracked _ _ A)]].
  Qed.

  Lemma pend_ok_none : forall o (s : st), o_pend o = None -> pend_ok o s.
  Proof. intros o s H. unfold pend_ok. rewrite H. exact I. Qed.

  Lemma requests_invH : forall c f (s : st) r s' o,
    cfg_limit c = lim ->
    BInv o s -> no_thr s -> BH o s -> o_pend o = None -> requests_poll_next tp c f s = (r, s') ->
    exists new, ext s s' new /\ rpost c r (ocs new o) s' /\ no_thr s' /\ rpostH r (ocs new o) s'.
  Proof.
    intros c f; induction f as [|f IH]; intros s r s' o Hlim HB Hnt HH Hp H; cbn [requests_poll_next] in H.
    { injection H as <- <-. exists []. split; [apply ext_refl|split; [exact I|split; [exact Hnt|exact I]]]. }
    destruct (pump_read tp c (S f) s) as [rd s1] eqn:ER.
    assert (Hrd : exists n1, ext s s1 n1 /\ post rd (ocs n1 o) s1 /\ postH rd (ocs n1 o) s1).
    { unfold pump_read in ER. destruct (cfg_limit c) as [l|]; [eapply maxreq_invH; eauto|eapply base_invH; eauto]. }
    destruct Hrd as (n1 & X1 & Post1 & PostH1).
    assert (Hq1 : s_respq s1 = s_respq s).
    { unfold pump_read in ER. destruct (cfg_limit c) as [l|].
      - clear -ER. revert s l rd s1 ER. generalize (S f) as g.
        induction g as [|g IHg]; intros s l rd s1 ER; cbn [maxreq_poll_next] in ER; [injection ER as _ <-; reflexivity|].
        destruct (l <=? length (s_inflight s)).
        + destruct (do_ready tp s) as [x sx] eqn:E1. destruct (do_ready_core tp _ _ _ E1) as (_ & _ & Q1 & _).
          destruct x; try (injection ER as _ <-; exact Q1).
          destruct (base_poll_next tp (S g) sx) as [y sy] eqn:E2.
          pose proof (respq_base tp _ _ _ _ E2) as Q2.
          destruct y; try (injection ER as _ <-; congruence).
          destruct (base_start_send tp (mkresp (q_id x) BThrottle) sy) as [e sz] eqn:E3.
          pose proof (respq_start_send tp _ _ _ _ E3) as Q3.
          destruct e; [injection ER as _ <-; congruence|].
          rewrite (IHg _ _ _ _ ER). congruence.
        + exact (respq_base tp _ _ _ _ ER).
      - exact (respq_base tp _ _ _ _ ER). }
    assert (Hnt1 : no_thr s1) by (intros m Hm; apply Hnt; rewrite <- Hq1; exact Hm).
    destruct rd as [q| |a| |].
    - (* a request was accepted: pump_write, then yield *)
      destruct Post1 as ((HI1 & HP1 & Hce1) & Hin1). cbn [postH] in PostH1.
      destruct (pump_write tp false s1) as [wr s2] eqn:EW.
      destruct (pump_write_invQ q _ _ _ _ _ HI1 Hce1 Hnt1 (conj HP1 (conj PostH1 (fun _ => Hin1))) EW) as (n2 & X2 & WP & Hnt2 & (HP2 & HQ2' & Hin2)).
      assert (X02 : ext s s2 (n1 ++ n2)) by (eapply ext_trans; eauto).
      pose proof (QInv_wpost _ _ _ _ _ (conj HI1 (conj HP1 Hce1)) WP) as HQ2.
      destruct wr as [u| |a| |]; injection H as <- <-; exists (n1 ++ n2); rewrite ocs_app;
        (split; [first [exact X02|unfold ext in *; sproj; exact X02]|]).
      + split; [exact HQ2|split; [exact Hnt2|exact (conj HQ2' Hin2)]].
      + split; [exact HQ2|split; [exact Hnt2|exact (conj HQ2' Hin2)]].
      + split; [right; exists q, s2; split; [exact HQ2|reflexivity]|]. split; [intros m Hm; apply Hnt2; exact Hm|].
        intros Hb. destruct (HQ2' Hb) as (A & B & _).
        split; [|split; [exact B|]].
        * intros k hr Hk. destruct (h_safe _ _ A k hr Hk) as [(hr' & e & Y1 & Y2 & Y3)|R]; [left|right; exact R].
          exists hr', e. sproj. auto.
        * intros k oi Hk Hw. destruct (h_open_tracked _ _ A k oi Hk Hw) as (hr' & e & Y1 & Y2 & Y3).
          exists hr', e. sproj. auto.
      + split; [exact HQ2|split; [exact Hnt2|exact (conj HQ2' Hin2)]].
      + split; [exact I|split; [exact Hnt2|exact I]].
    - destruct (pump_write tp true s1) as [wr s2] eqn:EW.
      destruct Post1 as (HI1 & Hh1 & Hce1). destruct PostH1 as ((Pk1 & G1) & Pn1).
      destruct (pump_write_invB _ _ _ _ _ HI1 Hce1 Hnt1 (conj Hh1 G1) EW) as (n2 & X2 & WP & Hnt2 & (Hh2 & G2)).
      assert (X02 : ext s s2 (n1 ++ n2)) by (eapply ext_trans; eauto).
      pose proof (BInv_wpost _ _ _ _ (conj HI1 (conj Hh1 Hce1)) WP) as HB2.
      assert (Pn2 : o_pend (ocs n2 (ocs n1 o)) = None) by (destruct WP as (_ & _ & P & _); congruence).
      assert (HH2 : BH (ocs n2 (ocs n1 o)) s2) by (split; [apply pend_ok_none; exact Pn2|exact G2]).
      destruct wr as [u| |a| |]; try (injection H as <- <-; exists (n1 ++ n2); rewrite ocs_app;
        (split; [exact X02|split; [first [exact HB2|left; exact HB2|exact I]|split; [exact Hnt2|
           first [exact (conj HH2 Pn2)|exact (ErrH_of_GH _ _ G2)|exact I]]]])).
      rewrite <- ocs_app in HB2, HH2, Pn2.
      destruct (IH _ _ _ _ Hlim HB2 Hnt2 HH2 Pn2 H) as (n3 & X3 & Post3 & Hnt3 & PostH3).
      exists ((n1 ++ n2) ++ n3). split; [eapply ext_trans; eauto|]. rewrite ocs_app. split; auto.
    - injection H as <- <-. exists n1. split; [exact X1|split; [left; exact Post1|split; [exact Hnt1|]]].
      destruct PostH1 as ((_ & G1) & _). exact (ErrH_of_GH _ _ G1).
    - destruct (pump_write tp false s1) as [wr s2] eqn:EW.
      destruct Post1 as (HI1 & Hh1 & Hce1). destruct PostH1 as ((Pk1 & G1) & Pn1).
      destruct (pump_write_invB _ _ _ _ _ HI1 Hce1 Hnt1 (conj Hh1 G1) EW) as (n2 & X2 & WP & Hnt2 & (Hh2 & G2)).
      assert (X02 : ext s s2 (n1 ++ n2)) by (eapply ext_trans; eauto).
      pose proof (BInv_wpost _ _ _ _ (conj HI1 (conj Hh1 Hce1)) WP) as HB2.
      assert (Pn2 : o_pend (ocs n2 (ocs n1 o)) = None) by (destruct WP as (_ & _ & P & _); congruence).
      assert (HH2 : BH (ocs n2 (ocs n1 o)) s2) by (split; [apply pend_ok_none; exact Pn2|exact G2]).
      destruct wr as [u| |a| |]; try (injection H as <- <-; exists (n1 ++ n2); rewrite ocs_app;
        (split; [exact X02|split; [first [exact HB2|left; exact HB2|exact I]|split; [exact Hnt2|
           first [exact (conj HH2 Pn2)|exact (ErrH_of_GH _ _ G2)|exact I]]]])).
      rewrite <- ocs_app in HB2, HH2, Pn2.
      destruct (IH _ _ _ _ Hlim HB2 Hnt2 HH2 Pn2 H) as (n3 & X3 & Post3 & Hnt3 & PostH3).
      exists ((n1 ++ n2) ++ n3). split; [eapply ext_trans; eauto|]. rewrite ocs_app. split; auto.
    - injection H as <- <-. exists n1. split; [exact X1|split; [exact I|split; [exact Hnt1|exact I]]].
  Qed.
End LoopsH2.

(* ------------------------------------------------------------------------------------------ *)
(* results of a poll *)
Lemma lastk_app : forall l x k id, lastk l k id -> oi_id x <> id -> lastk (l ++ [x]) k id.
Proof.
  intros l x k id L Hx k' oi' Hlt Hk'. destruct (Nat.lt_ge_cases k' (length l)) as [H|H].
  - rewrite nth_error_app1 in Hk' by exact H. exact (L k' oi' Hlt Hk').
  - rewrite nth_error_app2 in Hk' by exact H. destruct (k' - length l) as [|n]; cbn in Hk'.
    + inversion Hk'; subst. exact Hx.
    + destruct n; discriminate.
Qed.

Lemma lastk_map : forall (f : oinc -> oinc) l k id,
  (forall i, oi_id (f i) = oi_id i) -> lastk l k id -> lastk (map f l) k id.
Proof.
  intros f l k id Hf L k' oi' Hlt Hk'. rewrite nth_error_map in Hk'.
  destruct (nth_error l k') as [y|] eqn:E; cbn in Hk'; [|discriminate]. inversion Hk'; subst.
  rewrite Hf. exact (L k' y Hlt E).
Qed.

Section ResultsH.
  Context {T : Type}.
  Notation st := (@sstate T).

  Lemma InvH_yield : forall o o' (s s' : st) q newoi,
    InvH o s -> length (o_incs o) = length (s_handlers s) -> PendH o s (q_id q) ->
    o_incs o' = o_incs o ++ [newoi] -> oi_id newoi = q_id q -> oi_wire newoi <> WAnswered ->
    s_handlers s' = s_handlers s ++ [{| h_h := q_h q; h_id := q_id q; h_st := HYielded |}] ->
    In {| e_id := q_id q; e_h := q_h q; e_dl := q_dl q |} (s_inflight s) ->
    s_inflight s' = s_inflight s -> s_aborted s' = s_aborted s -> s_respq s' = s_respq s ->
    s_cancels s' = s_cancels s -> InvH o' s'.
  Proof.
    intros o o' s s' q newoi [H1 H2 H3 H4 H5 H6 H7] Hlen [P1 P2 P3 P4] Hi Hid Hw Hh Hin Hf Ha Hq Hc.
    assert (Htrk : forall k, trk s k -> trk s' k).
    { intros k (hr & e & A & B & C). exists hr, e. rewrite Hh, Hf. split; [|auto].
      rewrite nth_error_app1; [exact A|]. apply nth_error_Some. congruence. }
    assert (Hnew : trk s' (length (o_incs o))).
    { eexists; eexists. rewrite Hh, Hf, Hlen. split; [apply nth_error_app_last|split; [exact Hin|reflexivity]]. }
    assert (Hold : forall k x, nth_error (o_incs o ++ [newoi]) k = Some x ->
              (k < length (o_incs o) /\ nth_error (o_incs o) k = Some x) \/ (k = length (o_incs o) /\ x = newoi)).
    { intros k x Hk. destruct (Nat.lt_ge_cases k (length (o_incs o))) as [H|H].
      - left. rewrite nth_error_app1 in Hk by exact H. auto.
      - right. rewrite nth_error_app2 in Hk by exact H. destruct (k - length (o_incs o)) as [|n] eqn:E; cbn in Hk.
        + inversion Hk. split; [lia|reflexivity].
        + destruct n; discriminate. }
    assert (HoldH : forall k hr, nth_error (s_handlers s ++ [{| h_h := q_h q; h_id := q_id q; h_st := HYielded |}]) k = Some hr ->
              (k < length (s_handlers s) /\ nth_error (s_handlers s) k = Some hr)
              \/ (k = length (s_handlers s) /\ hr = {| h_h := q_h q; h_id := q_id q; h_st := HYielded |})).
    { intros k x Hk. destruct (Nat.lt_ge_cases k (length (s_handlers s))) as [H|H].
      - left. rewrite nth_error_app1 in Hk by exact H. auto.
      - right. rewrite nth_error_app2 in Hk by exact H. destruct (k - length (s_handlers s)) as [|n] eqn:E; cbn in Hk.
        + inversion Hk. split; [lia|reflexivity].
        + destruct n; discriminate. }
    assert (Hlast_new : lastk (o_incs o ++ [newoi]) (length (o_incs o)) (q_id q)).
    { intros k' oi' Hlt Hk'. exfalso. assert (k' < length (o_incs o ++ [newoi])) by (apply nth_error_Some; congruence).
      rewrite app_length in H. cbn in H. lia. }
    constructor; rewrite ?Hi, ?Hh, ?Hq, ?Hc.
    - intros k oi Hk Ho. destruct (Hold k oi Hk) as [[_ Hk']|[-> _]]; [apply Htrk; eapply H1; eauto|exact Hnew].
    - intros k oi Hk Ho. destruct (Hold k oi Hk) as [[_ Hk']|[-> ->]].
      + apply lastk_app; [eapply H2; eauto|]. rewrite Hid. intros Heq.
        rewrite (P1 k oi Hk' (eq_sym Heq)) in Ho. discriminate.
      + rewrite Hid. exact Hlast_new.
    - intros k hr oi Hk Hoi Hu. destruct (Hold k oi Hoi) as [[Hlt Hoi']|[-> ->]].
      + destruct (HoldH k hr Hk) as [[_ Hk']|[Hk' _]]; [|lia].
        destruct (H3 k hr oi Hk' Hoi' Hu) as (L & W & Q). split; [|auto].
        apply lastk_app; [exact L|]. rewrite Hid. intros Heq.
        exact (unsent_not_over _ Hu (P2 k hr oi Hk' Hoi' (eq_sym Heq))).
      + rewrite Hid. split; [exact Hlast_new|split; [exact Hw|exact P3]].
    - exact H4.
    - intros m Hm. destruct (H5 m Hm) as (k & hr & oi & A & B & C & D & E & F & G).
      exists k, hr, oi. repeat split; auto.
      + rewrite nth_error_app1; [exact A|]. apply nth_error_Some. congruence.
      + rewrite nth_error_app1; [exact B|]. apply nth_error_Some. congruence.
      + apply lastk_app; [exact D|]. rewrite Hid. intros Heq. apply P3. rewrite Heq. apply in_map. exact Hm.
    - intros id Hin'. destruct (H6 id Hin') as (k & hr & oi & A & B & C & D & E & F & G).
      exists k, hr, oi. repeat split; auto.
      + rewrite nth_error_app1; [exact A|]. apply nth_error_Some. congruence.
      + rewrite nth_error_app1; [exact B|]. apply nth_error_Some. congruence.
      + apply lastk_app; [exact D|]. rewrite Hid. intros Heq. apply P4. rewrite Heq. exact Hin'.
    - intros k hr Hk. rewrite Hh in Hk. destruct (HoldH k hr Hk) as [[_ Hk']|[-> ->]].
      + destruct (H7 k hr Hk') as [Ht|[Hab|Hov]]; [left; apply Htrk; exact Ht|right; left; rewrite Ha; exact Hab|right; right; exact Hov].
      + left. rewrite <- Hlen. exact Hnew.
  Qed.

  (* wires move towards closed everywhere (settle, age, late marks) *)
  Lemma InvH_map : forall o o' (s s' : st) (f : oinc -> oinc),
    InvH o s -> o_incs o' = map f (o_incs o) ->
    (forall i, oi_id (f i) = oi_id i /\ oi_done (f i) = oi_done i) ->
    (forall i, oi_wire (f i) = WOpen -> oi_wire i = WOpen) ->
    (forall i, is_open (oi_wire (f i)) = true -> is_open (oi_wire i) = true) ->
    (forall i, oi_wire (f i) = WAnswered -> oi_wire i = WAnswered) ->
    s_handlers s' = s_handlers s -> s_inflight s' = s_inflight s -> s_aborted s' = s_aborted s ->
    s_respq s' = s_respq s -> s_cancels s' = s_cancels s -> InvH o' s'.
  Proof.
    intros o o' s s' f [H1 H2 H3 H4 H5 H6 H7] Hi Hf Hwo Hop Hwa E2 E3 E4 E5 E6.
    assert (Hnth : forall k x, nth_error (map f (o_incs o)) k = Some x ->
              exists y, nth_error (o_incs o) k = Some y /\ x = f y).
    { intros k x Hk. rewrite nth_error_map in Hk. destruct (nth_error (o_incs o) k) as [y|]; cbn in Hk; [|discriminate].
      inversion Hk. eauto. }
    assert (Hfwd : forall k y, nth_error (o_incs o) k = Some y -> nth_error (map f (o_incs o)) k = Some (f y)).
    { intros k y Hk. rewrite nth_error_map, Hk. reflexivity. }
    assert (Htrk : forall k, trk s k -> trk s' k).
    { intros k (hr & e & A & B & C). exists hr, e. rewrite E2, E3. auto. }
    constructor; rewrite ?Hi, ?E2, ?E5, ?E6.
    - intros k oi Hk Ho. destruct (Hnth k oi Hk) as (y & Hy & ->). apply Htrk. apply (H1 k y Hy). auto.
    - intros k oi Hk Ho. destruct (Hnth k oi Hk) as (y & Hy & ->). destruct (Hf y) as (F1 & _). rewrite F1.
      apply lastk_map; [intros i; apply Hf|]. apply (H2 k y Hy). auto.
    - intros k hr oi Hk Hoi Hu. destruct (Hnth k oi Hoi) as (y & Hy & ->). destruct (Hf y) as (F1 & _). rewrite F1.
      destruct (H3 k hr y Hk Hy Hu) as (L & W & Q). split; [apply lastk_map; [intros i; apply Hf|exact L]|split; [|exact Q]].
      intros Hx. apply W. apply Hwa. exact Hx.
    - exact H4.
    - intros m Hm. destruct (H5 m Hm) as (k & hr & oi & A & B & C & D & E & F & G).
      exists k, hr, (f oi). destruct (Hf oi) as (F1 & F2). rewrite F1, F2. repeat split; auto.
      all: try (apply lastk_map; [intros i0; apply Hf|assumption]).
      all: try (intros Hx; apply G, Hwa, Hx).
    - intros id Hin. destruct (H6 id Hin) as (k & hr & oi & A & B & C & D & E & F & G).
      exists k, hr, (f oi). destruct (Hf oi) as (F1 & F2). rewrite F1. repeat split; auto.
      all: try (apply lastk_map; [intros i0; apply Hf|assumption]).
      all: try (intros Hx; first [apply G, Hwa, Hx|apply F, Hwo, Hx]).
    - intros k hr Hk. rewrite E2 in Hk. destruct (H7 k hr Hk) as [Ht|[Hab|Hov]]; auto. right; left. rewrite E4. exact Hab.
  Qed.
End ResultsH.

(* flags through the result of a poll *)
Lemma o_result_yield_flags : forall o k id dl tr body,
  let o' := o_result o (OYield k id dl tr body) in
  v08 (o_v o') = v08 (o_v o)
                 && (match o_pend o with
                     | Some (id', dl', tr', body') => N.eqb id id' && N.eqb dl dl' && N.eqb tr tr' && N.eqb body body'
                     | None => false end && Nat.eqb k (length (o_incs o)))
                 && not_must id (o_incs o)
  /\ v04 (o_v o') = v04 (o_v o) /\ h_b1 (o_v o') = h_b1 (o_v o).
Proof.
  intros o k id dl tr body. cbv zeta. unfold o_result.
  match goal with |- context [accept_id id ?x] => destruct (accept_id_flags id x) as (D1 & D2 & D3) end.
  oproj. rewrite D1, D2, D3. oproj. rewrite ?andb_true_r. repeat split; reflexivity.
Qed.

Lemma finish_idle_flags : forall o,
  v08 (o_v (finish_idle o)) = v08 (o_v o) && (match o_pend o with None => true | Some _ => false end)
  /\ v04 (o_v (finish_idle o)) = v04 (o_v o) /\ h_b1 (o_v (finish_idle o)) = h_b1 (o_v o).
Proof.
  intros o. unfold finish_idle. oproj. destruct (o_blocked o); oproj; rewrite ?andb_true_r; repeat split; reflexivity.
Qed.

Lemma o_result_err_flags : forall o a,
  let o' := o_result o (OStreamErr a) in
  v08 (o_v o') = v08 (o_v o) /\ v04 (o_v o') = v04 (o_v o) /\ h_b1 (o_v o') = h_b1 (o_v o).
Proof. intros o a. cbv zeta. unfold o_result. oproj. rewrite ?andb_true_r. repeat split; reflexivity. Qed.

Lemma o_gauges_flags : forall st' bl o a b,
  let o' := o_gauges st' bl o a b in
  v08 (o_v o') = v08 (o_v o) /\ v04 (o_v o') = v04 (o_v o) /\ h_b1 (o_v o') = h_b1 (o_v o).
Proof.
  intros st' bl o a b. cbv zeta. unfold o_gauges. destruct st'; [|destruct bl]; oproj; rewrite ?andb_true_r;
    repeat split; reflexivity.
Qed.

Lemma ocall_v04_b1 : forall lim o c,
  v04 (o_v (o_call lim o c)) = v04 (o_v o) /\ (h_b1 (o_v (o_call lim o c)) = true -> h_b1 (o_v o) = true).
Proof.
  intros lim o c. destruct c as [r|m r|r|r|r].
  - destruct (ocall_flags_ready lim o r) as (_ & A & B & _). cbv zeta in *. split; [exact A|congruence].
  - destruct (ocall_flags_send lim o m r) as (_ & A & B). cbv zeta in *. split; [exact A|congruence].
  - destruct (ocall_flags_flush lim o r) as (_ & A & B & _). cbv zeta in *. split; [exact A|congruence].
  - unfold o_call. fold (pre_err o). destruct (pre_err_flags o) as (_ & F2).
    destruct (pre_err_proj o) as (_ & _ & _ & _ & _ & _ & _ & _ & _ & _ & _ & _ & _ & _ & A15 & _).
    oproj. rewrite ?andb_true_r. split; [exact F2|congruence].
  - destruct (ocall_flags_next lim o r) as (_ & A & B). cbv zeta in *. split; [exact A|].
    rewrite B. intros H. apply andb_true_iff in H. tauto.
Qed.

Lemma ocs_v04_b1 : forall lim new o,
  v04 (o_v (fold_left (o_call lim) new o)) = v04 (o_v o)
  /\ (h_b1 (o_v (fold_left (o_call lim) new o)) = true -> h_b1 (o_v o) = true).
Proof.
  intros lim new; induction new as [|c new IH]; intros o; cbn [fold_left]; [auto|].
  destruct (IH (o_call lim o c)) as (A & B). destruct (ocall_v04_b1 lim o c) as (D & E). split; [congruence|auto].
Qed.

(* ------------------------------------------------------------------------------------------ *)
(* INTERFACE (for groups B and C).  Along every run, while h_b1 && h_stop hold:
     Safe s            every handler is tracked, aborted or over (also after a stream error);
     v08, v04          the C08 / C04 flags;
     InvH o s          while no poll has returned a stream error.
   Consequences: `invh_open_entry` (C's clause 1), `safe_running` (C's clause 2),
   `invh_cancel_owner` (B's iii'), `invh_closed_over` (B's iv). *)
Section TopH.
  Context {T : Type}.
  Notation st := (@sstate T).

  (* clause (i) alone: it survives a stream error *)
  Definition OpenTrk (o : ostate) (s : st) : Prop :=
    forall k oi, nth_error (o_incs o) k = Some oi -> oi_wire oi = WOpen -> trk s k.

  Definition TopH (o : ostate) (s : st) : Prop :=
    h_stop (o_v o) = true -> h_b1 (o_v o) = true ->
    Safe s /\ OpenTrk o s /\ v08 (o_v o) = true /\ v04 (o_v o) = true
    /\ (c_err (o_v o) = false -> InvH o s).

  Lemma opentrk_entry : forall o (s : st) k hr oi,
    OpenTrk o s -> nth_error (s_handlers s) k = Some hr -> nth_error (o_incs o) k = Some oi ->
    oi_wire oi = WOpen -> exists e, In e (s_inflight s) /\ e_h e = h_h hr.
  Proof.
    intros o s k hr oi H Hk Hoi Hw. destruct (H k oi Hoi Hw) as (hr' & e & A & B & C).
    rewrite Hk in A. inversion A; subst hr'. eauto.
  Qed.

  Lemma invh_open_entry : forall o (s : st) k hr oi,
    InvH o s -> nth_error (s_handlers s) k = Some hr -> nth_error (o_incs o) k = Some oi ->
    oi_wire oi = WOpen -> exists e, In e (s_inflight s) /\ e_h e = h_h hr.
  Proof.
    intros o s k hr oi H Hk Hoi Hw. destruct (h_open_tracked _ _ H k oi Hoi Hw) as (hr' & e & A & B & C).
    rewrite Hk in A. inversion A; subst hr'. eauto.
  Qed.

  Lemma safe_running : forall (s : st) k hr,
    Safe s -> nth_error (s_handlers s) k = Some hr -> h_st hr = HYielded \/ h_st hr = HRunning ->
    (exists e, In e (s_inflight s) /\ e_h e = h_h hr) \/ In (h_h hr) (s_aborted s).
  Proof.
    intros s k hr H Hk Hst. destruct (H k hr Hk) as [(hr' & e & A & B & C)|[Hab|Hov]].
    - left. rewrite Hk in A. inversion A; subst hr'. eauto.
    - right. exact Hab.
    - exfalso. destruct Hst as [E|E]; rewrite E in Hov; exact Hov.
  Qed.

  Lemma invh_cancel_owner : forall o (s : st) e k oi,
    InvU o s -> InvH o s -> In e (s_inflight s) -> In (e_id e) (s_cancels s) -> owns o s k e ->
    nth_error (o_incs o) k = Some oi -> oi_wire oi <> WOpen.
  Proof.
    intros o s e k oi HI H He Hc Ho Hoi.
    destruct (owns_facts o s k e HI Ho) as (hr1 & oi1 & X1 & X2 & X3 & X4 & X5 & X6 & X7).
    destruct (h_cancels _ _ H _ Hc) as (ko & hro & oio & Y1 & Y2 & Y3 & Y4 & Y5 & Y6 & Y7).
    assert (k = ko) by (eapply lastk_unique; eauto). subst ko. congruence.
  Qed.

  Lemma invh_closed_over : forall o (s : st) k hr oi,
    InvU o s -> all_owned o s -> c_err (o_v o) = false -> Safe s ->
    nth_error (s_handlers s) k = Some hr -> nth_error (o_incs o) k = Some oi ->
    is_open (oi_wire oi) = false -> In (h_h hr) (s_aborted s) \/ over (h_st hr).
  Proof.
    intros o s k hr oi HI Hall Hce H Hk Hoi Hw. destruct (H k hr Hk) as [Ht|R]; [|exact R].
    exfalso. destruct (trk_owns o s k HI Hall Hce Ht) as (e & He & Ho).
    destruct (owns_facts o s k e HI Ho) as (hr1 & oi1 & X1 & X2 & X3 & X4 & X5 & _). congruence.
  Qed.
End TopH.

(* the theorem `run_invh` (below, once proved) has this statement *)
Definition run_invh_statement : Prop :=
  forall (T C : Type) (tp : transport T response cmsg) (ctl : T -> C -> T) (tfuel : T -> nat),
    tfuel_ok tp tfuel ->
    forall (c : cfg) (ops : list (op C)) (o : ostate) (s : @sstate T),
      Top o s -> hb_ok s -> TopH o s ->
      TopH (orun (cfg_limit c) o ops (fst (run_from tp ctl tfuel c s ops)))
           (snd (run_from tp ctl tfuel c s ops)).
