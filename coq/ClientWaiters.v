(* The permit-waiter invariant of the client model, standalone and in ALL states, for every
   transport: the waiters of the request queue's semaphore are pairwise distinct indices of
   calls in phase PAcquiring (ClientSimBase.winv).  Hence a call that has finished (PDone), was
   dropped (PClosing / PGone) or is anywhere else than PAcquiring is never in the waiter list, and
   is never moved to PAssigned / PAcqClosed by a permit release or a queue close.
   Preserved by every op of Client.step (no hypothesis on wrap, drop or transport behaviour). *)
From Coq Require Import List Bool Arith NArith Lia.
Import ListNotations.
From TarpcV Require Import Base Transport Client ClientLemmas ClientSimBase ClientProofsG1Frames
  ClientProofsG1Rec.

Section Waiters.
  Context {T : Type}.
  Variable tp : transport T cmsg resp.
  Notation cstate := (@cstate T).
  Implicit Types s : cstate.

  Lemma waiters_set_phase s i p : waiters (set_phase s i p) = waiters s.
  Proof. unfold set_phase. destruct (nth_error _ _); reflexivity. Qed.

  Lemma winv_set_phase s i p : winv s -> ~ In i (waiters s) -> winv (set_phase s i p).
  Proof.
    intros W N. eapply winv_phase_other; [exact W| |apply waiters_set_phase|exact N].
    rewrite set_phase_alt. reflexivity.
  Qed.
  Lemma winv_set_phase_na s i c p :
    winv s -> nth_error (calls s) i = Some c -> c_phase c <> PAcquiring -> winv (set_phase s i p).
  Proof. intros W E N. apply winv_set_phase; [exact W|]. eapply winv_not_acq; eassumption. Qed.

  Lemma winv_T s s' : TFrame s s' -> winv s -> winv s'.
  Proof. intros F W. eapply winv_frame; [exact W|apply F|apply F]. Qed.
  Lemma winv_X s s' : XFrame s s' -> winv s -> winv s'.
  Proof. intros F W. eapply winv_frame; [exact W|apply F|apply F]. Qed.
  Lemma winv_C s s' : CFrame s s' -> winv s -> winv s'.
  Proof. intros F W. eapply winv_frame; [exact W|apply F|apply F]. Qed.
  Lemma winv_nil s : waiters s = [] -> winv s.
  Proof. intro E. constructor; rewrite E; [intros w []|constructor]. Qed.

  Lemma winv_push_cancel s id : winv s -> winv (push_cancel s id).
  Proof. intro W. unfold push_cancel. destruct (dropped s); [exact W|]. eapply winv_frame; [exact W|reflexivity..]. Qed.

  (* the phases alone matter *)
  Lemma winv_phases s s' :
    map c_phase (calls s') = map c_phase (calls s) -> waiters s' = waiters s -> winv s -> winv s'.
  Proof.
    intros E1 E2 [A N]. constructor; rewrite E2; [|exact N].
    intros w Hw. destruct (A w Hw) as (c & Hc & Hp).
    assert (X : nth_error (map c_phase (calls s')) w = Some PAcquiring)
      by (rewrite E1, nth_error_map, Hc; cbn; rewrite Hp; reflexivity).
    rewrite nth_error_map in X. destruct (nth_error (calls s') w) as [c'|]; [|discriminate].
    exists c'. split; [reflexivity|]. cbn in X. congruence.
  Qed.

  (* ---------------------------------------------------------------- the queue *)
  Lemma winv_q_poll_recv s : winv s -> winv (snd (q_poll_recv s)).
  Proof.
    intro W. unfold q_poll_recv. destruct (queue s) as [|x r].
    - destruct (Nat.eqb _ _); [exact W|]. destruct (_ && _); exact W.
    - cbn [snd]. apply winv_release_permit. eapply winv_frame; [exact W|reflexivity..].
  Qed.
  Lemma winv_next_request_loop f : forall s, winv s -> winv (snd (next_request_loop f s)).
  Proof.
    induction f as [|f IH]; intros s W; cbn [next_request_loop]; [exact W|].
    pose proof (winv_q_poll_recv s W) as W1. destruct (q_poll_recv s) as [x s1]. cbn [snd] in W1.
    destruct x as [q| |]; try exact W1.
    destruct (sl_rx_closed _); [|exact W1]. apply IH. eapply winv_T; [apply TFrame_slot_tx_drop|exact W1].
  Qed.
  Lemma waiters_q_close s : rx_closed s = false -> waiters (q_close s) = [].
  Proof. intro E. unfold q_close. rewrite E. reflexivity. Qed.
  Lemma winv_q_close s : winv s -> winv (q_close s).
  Proof.
    intro W. destruct (rx_closed s) eqn:E.
    - unfold q_close. rewrite E. exact W.
    - apply winv_nil, waiters_q_close, E.
  Qed.
  Lemma winv_drain_loop f a : forall s, winv s -> winv (snd (drain_loop f a s)).
  Proof.
    induction f as [|f IH]; intros s W; cbn [drain_loop]; [exact W|].
    pose proof (winv_q_poll_recv s W) as W1. destruct (q_poll_recv s) as [x s1]. cbn [snd] in W1.
    destruct x; cbn [snd]; try exact W1. apply IH. eapply winv_T; [apply TFrame_slot_send|exact W1].
  Qed.
  Lemma winv_shut_down s a : winv s -> winv (snd (shut_down s a)).
  Proof.
    intro W. unfold shut_down. apply winv_drain_loop.
    eapply winv_T; [apply TFrame_complete_all|]. apply winv_q_close, W.
  Qed.

  (* ---------------------------------------------------------------- the dispatch *)
  Lemma winv_ensure_writeable s r s' : ensure_writeable tp s = (r, s') -> winv s -> winv s'.
  Proof. intro E. apply winv_X. eapply XFrame_ensure_writeable, E. Qed.

  Lemma winv_poll_write_request s r s' : poll_write_request tp s = (r, s') -> winv s -> winv s'.
  Proof.
    intros E W. apply poll_write_request_inv in E.
    destruct E as [_|r1 s1 _ E1 _|r1 s1 s2 _ E1 E2 _|s1 q s2 w s3 _ E1 E2 E3].
    - exact W.
    - eapply winv_ensure_writeable; eassumption.
    - pose proof (winv_next_request_loop (S (length (queue s1))) s1) as K. rewrite E2 in K.
      apply K. eapply winv_ensure_writeable; eassumption.
    - pose proof (winv_next_request_loop (S (length (queue s1))) s1) as K. rewrite E2 in K.
      assert (W3 : winv s3).
      { eapply winv_X; [eapply XFrame_do_send, E3|]. eapply winv_T; [apply TFrame_insert_request|].
        apply K. eapply winv_ensure_writeable; eassumption. }
      destruct w; [exact W3|]. eapply winv_T; [apply TFrame_complete_request|exact W3].
  Qed.
  Lemma winv_poll_write_cancel s r s' : poll_write_cancel tp s = (r, s') -> winv s -> winv s'.
  Proof.
    intros E W. apply poll_write_cancel_inv in E.
    destruct E as [r1 s1 E1 _|r1 s1 s2 E1 E2 _|s1 id e s2 w s3 E1 E2 E3].
    - eapply winv_ensure_writeable; eassumption.
    - pose proof (CFrame_next_cancel_loop (S (length (cancels s1))) s1) as F. rewrite E2 in F.
      eapply winv_C; [exact F|]. eapply winv_ensure_writeable; eassumption.
    - pose proof (CFrame_next_cancel_loop (S (length (cancels s1))) s1) as F. rewrite E2 in F.
      eapply winv_X; [eapply XFrame_do_send, E3|]. eapply winv_C; [exact F|].
      eapply winv_ensure_writeable; eassumption.
  Qed.
  Lemma winv_pump_write s r s' : pump_write tp s = (r, s') -> winv s -> winv s'.
  Proof.
    intros E W. apply pump_write_inv in E.
    assert (PE : forall (a : cstate) e b, poll_expired a = (e, b) -> winv a -> winv b).
    { intros a e b Ee Ha. pose proof (TFrame_poll_expired a) as F. rewrite Ee in F. eapply winv_T; eassumption. }
    destruct E as [a s1 E1|u s1 E1|r1 s1 a s2 E1 _ E2|r1 s1 u s2 E1 _ E2
                  |r1 s1 r2 s2 id s3 E1 _ E2 _ E3|s1 s2 s3 c s4 E1 E2 E3 E4
                  |r1 s1 r2 s2 s3 f s4 E1 _ E2 _ _ E3 E4].
    - eapply winv_poll_write_request; eassumption.
    - eapply winv_poll_write_request; eassumption.
    - eapply winv_poll_write_cancel; [eassumption|]. eapply winv_poll_write_request; eassumption.
    - eapply winv_poll_write_cancel; [eassumption|]. eapply winv_poll_write_request; eassumption.
    - eapply PE; [eassumption|]. eapply winv_poll_write_cancel; [eassumption|].
      eapply winv_poll_write_request; eassumption.
    - eapply winv_X; [eapply XFrame_do_close, E4|]. eapply PE; [eassumption|].
      eapply winv_poll_write_cancel; [eassumption|]. eapply winv_poll_write_request; eassumption.
    - eapply winv_X; [eapply XFrame_do_flush, E4|]. eapply PE; [eassumption|].
      eapply winv_poll_write_cancel; [eassumption|]. eapply winv_poll_write_request; eassumption.
  Qed.
  Lemma winv_pump_read s r s' : pump_read tp s = (r, s') -> winv s -> winv s'.
  Proof.
    intros E W. apply pump_read_inv in E. destruct E as (x & s1 & E1 & _ & ->).
    pose proof (winv_X _ _ (XFrame_do_next tp _ _ _ E1) W) as W1.
    destruct x; try exact W1. eapply winv_T; [apply TFrame_complete|exact W1].
  Qed.
  Lemma winv_run_loop f : forall s r s', run_loop tp f s = (r, s') -> winv s -> winv s'.
  Proof.
    induction f as [|f IH]; intros s r s' E W; [cbn in E; injection E as <- <-; exact W|].
    apply run_loop_inv in E.
    destruct E as [a s1 E1|rd s1 a s2 E1 _ E2|s1 wr s2 E1 E2 _|rd s1 s2 E1 _ E2 _
                  |s1 wr s2 E1 E2 _|rd s1 wr s2 r s3 E1 E2 _ E3].
    - eapply winv_pump_read; eassumption.
    - eapply winv_pump_write; [eassumption|]. eapply winv_pump_read; eassumption.
    - eapply winv_pump_write; [eassumption|]. eapply winv_pump_read; eassumption.
    - eapply winv_pump_write; [eassumption|]. eapply winv_pump_read; eassumption.
    - eapply winv_pump_write; [eassumption|]. eapply winv_pump_read; eassumption.
    - eapply IH; [eassumption|]. eapply winv_pump_write; [eassumption|]. eapply winv_pump_read; eassumption.
  Qed.
  Lemma winv_poll_dispatch f s r s' : poll_dispatch tp f s = (r, s') -> winv s -> winv s'.
  Proof.
    unfold poll_dispatch. intros E W. destruct (terminal s) as [a|].
    - pose proof (winv_shut_down s a W) as K. destruct (shut_down s a) as [b s1].
      destruct b; injection E as <- <-; exact K.
    - destruct (run_loop tp f s) as [rr s1] eqn:Er. pose proof (winv_run_loop _ _ _ _ Er W) as W1.
      destruct rr; try (injection E as <- <-; exact W1).
      assert (W2 : winv (upd_term s1 (Some a))) by (eapply winv_frame; [exact W1|reflexivity..]).
      pose proof (winv_shut_down _ a W2) as K. destruct (shut_down _ a) as [b s3].
      destruct b; injection E as <- <-; exact K.
  Qed.
  Lemma winv_drop_dispatch s : winv s -> winv (drop_dispatch s).
  Proof. intros _. apply winv_nil. reflexivity. Qed.

  (* ---------------------------------------------------------------- the user side *)
  Lemma winv_slot_rx_close s id : winv s -> winv (slot_rx_close s id).
  Proof. apply winv_T, TFrame_slot_rx_close. Qed.
  Lemma winv_slot_tx_drop s id : winv s -> winv (slot_tx_drop s id).
  Proof. apply winv_T, TFrame_slot_tx_drop. Qed.

  Lemma nth_T s s' i : TFrame s s' -> nth_error (calls s') i = nth_error (calls s) i.
  Proof. intro F. rewrite (tf_calls _ _ F). reflexivity. Qed.

  Lemma winv_poll_slot s i id c :
    winv s -> nth_error (calls s) i = Some c -> c_phase c <> PAcquiring -> winv (snd (poll_slot s i id)).
  Proof.
    intros W E N. unfold poll_slot. destruct (sl_val _); cbn [snd].
    - eapply winv_set_phase_na; [apply winv_slot_rx_close, W| |exact N].
      rewrite (nth_T _ _ i (TFrame_slot_rx_close s id)). exact E.
    - destruct (sl_tx_gone _); cbn [snd]; [|exact W].
      eapply winv_set_phase_na; [apply winv_slot_rx_close, W| |exact N].
      rewrite (nth_T _ _ i (TFrame_slot_rx_close s id)). exact E.
  Qed.
  Lemma winv_fail_shutdown s i id c :
    winv s -> nth_error (calls s) i = Some c -> c_phase c <> PAcquiring -> winv (snd (fail_shutdown s i id)).
  Proof.
    intros W E N. unfold fail_shutdown. cbn [snd].
    eapply winv_set_phase_na; [apply winv_push_cancel, winv_slot_rx_close, winv_slot_tx_drop, W| |exact N].
    unfold push_cancel. destruct (dropped _); cbn [calls upd_cancels];
      rewrite (nth_T _ _ i (TFrame_slot_rx_close _ id)), (nth_T _ _ i (TFrame_slot_tx_drop s id)); exact E.
  Qed.
  Lemma nth_set_phase_same s i p c :
    nth_error (calls s) i = Some c -> nth_error (calls (set_phase s i p)) i = Some (with_phase c p).
  Proof. intro E. rewrite set_phase_alt. cbn [calls upd_calls]. rewrite nth_error_phase_calls, Nat.eqb_refl, E. reflexivity. Qed.

  Lemma winv_enqueue s i c c' id tc :
    winv s -> nth_error (calls s) i = Some c' -> c_phase c' <> PAcquiring -> winv (snd (enqueue s i c id tc)).
  Proof.
    intros W E N. unfold enqueue.
    set (s1 := upd_q s (permits s) (queue s ++ [_]) (waiters s) (rx_closed s)).
    assert (W1 : winv s1) by (eapply winv_frame; [exact W|reflexivity..]).
    assert (E1 : nth_error (calls s1) i = Some c') by exact E.
    eapply (winv_poll_slot _ i id (with_phase c' PAwaiting)).
    - eapply winv_set_phase_na; eassumption.
    - apply nth_set_phase_same, E1.
    - discriminate.
  Qed.

  Lemma winv_poll_call s i : winv s -> winv (snd (poll_call s i)).
  Proof.
    intro W. unfold poll_call. destruct (nth_error (calls s) i) as [c|] eqn:E; [|exact W].
    destruct (c_phase c) eqn:EP; try exact W.
    - (* PNew *)
      set (s0 := with_id _ i c (next_id s)). set (s1 := set_slot s0 (next_id s) slot0).
      set (c1 := {| c_handle := c_handle c; c_phase := c_phase c; c_id := next_id s; c_rel := c_rel c;
                    c_deadline := c_deadline c; c_tc := c_tc c; c_body := c_body c |}).
      assert (E0 : nth_error (calls s1) i = Some c1).
      { unfold s1, s0, with_id. cbn [calls set_slot upd_slots upd_calls upd_misc].
        apply nth_error_set_nth_same. apply nth_error_Some. congruence. }
      assert (W1 : winv s1).
      { eapply winv_T; [apply TFrame_set_slot|]. unfold s0.
        eapply winv_phases; [| |exact W]; [|reflexivity].
        unfold with_id. cbn [calls upd_calls upd_misc].
        apply (map_set_nth_same c_phase i c _ (calls s) E). reflexivity. }
      assert (N1 : c_phase c1 <> PAcquiring) by (cbn; rewrite EP; discriminate).
      destruct (rx_closed s1); [eapply winv_fail_shutdown; eassumption|].
      destruct (permits s1) as [|p].
      + cbn [snd]. set (s2 := upd_q s1 0 (queue s1) (waiters s1 ++ [i]) (rx_closed s1)).
        pose proof (winv_not_acq _ _ _ W1 E0 N1) as NI. destruct W1 as [A ND].
        constructor; rewrite waiters_set_phase; cbn [waiters upd_q s2].
        * intros w Hw. apply in_app_or in Hw. destruct Hw as [Hw|[<-|[]]].
          -- destruct (A w Hw) as (cw & Hc & Hp). exists cw. split; [|exact Hp].
             rewrite set_phase_alt. cbn [calls upd_calls upd_q s2]. rewrite nth_error_phase_calls.
             destruct (Nat.eqb_spec i w); [subst; contradiction|exact Hc].
          -- exists (with_phase c1 PAcquiring). split; [|reflexivity]. apply nth_set_phase_same. exact E0.
        * apply NoDup_app_single; assumption.
      + eapply winv_enqueue; [|exact E0|exact N1]. eapply winv_frame; [exact W1|reflexivity..].
    - (* PAssigned *)
      assert (N : c_phase c <> PAcquiring) by (rewrite EP; discriminate).
      destruct (rx_closed s).
      + eapply winv_fail_shutdown; [|exact E|exact N]. eapply winv_frame; [exact W|reflexivity..].
      + eapply winv_enqueue; eassumption.
    - eapply winv_fail_shutdown; [exact W|exact E|rewrite EP; discriminate].
    - eapply winv_poll_slot; [exact W|exact E|rewrite EP; discriminate].
  Qed.

  Lemma winv_guard_close s i : winv s -> winv (guard_close s i).
  Proof.
    intro W. unfold guard_close. destruct (nth_error (calls s) i) as [c|] eqn:E; [|exact W].
    destruct (c_phase c) eqn:EP; try exact W.
    - eapply winv_set_phase_na; [exact W|exact E|rewrite EP; discriminate].
    - (* PAcquiring: leaves the waiter list *)
      set (s1 := upd_q s (permits s) (queue s) (remove_waiter i (waiters s)) (rx_closed s)).
      assert (W1 : winv s1).
      { destruct W as [A ND]. constructor; cbn [waiters calls upd_q s1]; unfold remove_waiter.
        - intros w Hw. apply filter_In in Hw. apply A, Hw.
        - apply NoDup_filter, ND. }
      apply winv_set_phase.
      + apply winv_slot_rx_close, winv_slot_tx_drop, W1.
      + cbn. unfold remove_waiter. intro Hin. apply filter_In in Hin. destruct Hin as [_ Hin].
        rewrite Nat.eqb_refl in Hin. discriminate.
    - (* PAssigned *)
      apply winv_slot_rx_close, winv_slot_tx_drop.
      assert (W1 : winv (set_phase s i PClosing))
        by (eapply winv_set_phase_na; [exact W|exact E|rewrite EP; discriminate]).
      destruct (rx_closed _); [eapply winv_frame; [exact W1|reflexivity..]|apply winv_release_permit, W1].
    - eapply winv_set_phase_na; [apply winv_slot_rx_close, winv_slot_tx_drop, W| |rewrite EP; discriminate].
      rewrite (nth_T _ _ i (TFrame_slot_rx_close _ _)), (nth_T _ _ i (TFrame_slot_tx_drop s _)). exact E.
    - eapply winv_set_phase_na; [apply winv_slot_rx_close, W| |rewrite EP; discriminate].
      rewrite (nth_T _ _ i (TFrame_slot_rx_close s _)). exact E.
  Qed.
  Lemma winv_guard_cancel s i : winv s -> winv (guard_cancel s i).
  Proof.
    intro W. unfold guard_cancel. destruct (nth_error (calls s) i) as [c|] eqn:E; [|exact W].
    destruct (c_phase c) eqn:EP; try exact W.
    eapply winv_set_phase_na; [apply winv_push_cancel, W| |rewrite EP; discriminate].
    unfold push_cancel. destruct (dropped s); exact E.
  Qed.

  Variable fuel_of : cstate -> nat.

  (* every op, every transport, every state *)
  Theorem winv_step s o s' os : step tp fuel_of s o = (s', os) -> winv s -> winv s'.
  Proof.
    intros E W. destruct o; cbn [step] in E.
    - injection E as <- _. destruct (nth_error _ _) as [[|]|]; try exact W. eapply winv_frame; [exact W|reflexivity..].
    - injection E as <- _. destruct (nth_error _ _) as [[|]|]; try exact W. eapply winv_frame; [exact W|reflexivity..].
    - injection E as <- _. destruct W as [A ND]. constructor; cbn [waiters calls upd_calls]; [|exact ND].
      intros w Hw. destruct (A w Hw) as (c & Hc & Hp). exists c. split; [|exact Hp].
      rewrite nth_error_app1; [exact Hc|]. apply nth_error_Some. congruence.
    - pose proof (winv_poll_call s i W) as K. destruct (poll_call s i) as [r s1]. injection E as <- _. exact K.
    - injection E as <- _. destruct (option_map _ _) as [[]|];
        try apply winv_guard_cancel, winv_guard_close, W. exact W.
    - injection E as <- _. destruct (option_map _ _) as [[]|]; try apply winv_guard_close, W. exact W.
    - injection E as <- _. apply winv_guard_cancel, W.
    - destruct (finished s); [injection E as <- _; exact W|].
      destruct (dropped s); [injection E as <- _; exact W|].
      set (s0 := upd_tr s (tr s) (fused s) []) in *.
      assert (W0 : winv s0) by (eapply winv_frame; [exact W|reflexivity..]).
      destruct (poll_dispatch tp (fuel_of s0) s0) as [r s1] eqn:Ep.
      pose proof (winv_poll_dispatch _ _ _ _ Ep W0) as W1.
      injection E as <- _. eapply winv_frame; [exact W1|destruct r; reflexivity..].
    - injection E as <- _. destruct (dropped s); [exact W|apply winv_drop_dispatch, W].
    - injection E as <- _. eapply winv_frame; [exact W|reflexivity..].
    - injection E as <- _. eapply winv_frame; [exact W|reflexivity..].
  Qed.

  Lemma winv_init t0 qc mi : winv (init (T := T) t0 qc mi).
  Proof. apply winv_nil. reflexivity. Qed.

  Theorem winv_run : forall ops s, winv s -> winv (snd (run_from tp fuel_of s ops)).
  Proof.
    induction ops as [|o r IH]; intros s W; cbn [run_from]; [exact W|].
    destruct (step tp fuel_of s o) as [s1 l] eqn:ES. pose proof (winv_step _ _ _ _ ES W) as W1.
    specialize (IH s1 W1). destruct (run_from tp fuel_of s1 r) as [ls s2]. exact IH.
  Qed.

  (* the consequence used by the chain: a call that is over stays over and is never a waiter *)
  Corollary over_not_waiter s i c :
    winv s -> nth_error (calls s) i = Some c ->
    (c_phase c = PDone \/ c_phase c = PGone \/ c_phase c = PClosing) -> ~ In i (waiters s).
  Proof. intros W E H. eapply winv_not_acq; [exact W|exact E|]. destruct H as [->|[->| ->]]; discriminate. Qed.
End Waiters.

(* ------------------------------------------------------------------------------------------ *)
(* what the dispatch leaves alone: a dispatch poll (and dropping the dispatch) changes the phase
   of calls in PAcquiring only (a released permit: PAssigned; a closed queue: PAcqClosed) *)
Section Kept.
  Context {T : Type}.
  Variable tp : transport T cmsg resp.
  Notation cstate := (@cstate T).
  Implicit Types s : cstate.

  Definition acq3 (p : phase) : Prop := p = PAcquiring \/ p = PAssigned \/ p = PAcqClosed.
  (* a call keeps its id and body; a call in PAcquiring stays in the acquiring group *)
  Definition same_ib s s' : Prop :=
    forall j k, nth_error (calls s) j = Some k ->
      exists k', nth_error (calls s') j = Some k' /\ c_id k' = c_id k /\ c_body k' = c_body k
                 /\ (c_phase k = PAcquiring -> acq3 (c_phase k')).
  Definition phk s s' : Prop :=
    length (calls s') = length (calls s) /\ (forall j, ph s j <> Some PAcquiring -> ph s' j = ph s j)
    /\ same_ib s s'.
  Lemma phk_refl s : phk s s.
  Proof.
    split; [reflexivity|]. split; [intros j _; reflexivity|].
    intros j k E. exists k. repeat split; try assumption. intro H. left. exact H.
  Qed.
  Lemma phk_trans s1 s2 s3 : phk s1 s2 -> phk s2 s3 -> phk s1 s3.
  Proof.
    intros (L1 & A & I1) (L2 & B & I2). split; [congruence|]. split.
    - intros j H. rewrite (B j), (A j H); [reflexivity|]. rewrite (A j H). exact H.
    - intros j k E. destruct (I1 j k E) as (k1 & E1 & Ei1 & Eb1 & P1).
      destruct (I2 j k1 E1) as (k2 & E2 & Ei2 & Eb2 & P2).
      exists k2. split; [exact E2|]. split; [congruence|]. split; [congruence|].
      intro H. destruct (P1 H) as [X|X]; [apply P2, X|].
      assert (N : ph s2 j <> Some PAcquiring).
      { unfold ph. rewrite E1. cbn. destruct X as [X|X]; rewrite X; discriminate. }
      pose proof (B j N) as Y. unfold ph in Y. rewrite E1, E2 in Y. cbn in Y. injection Y as Y.
      rewrite Y. right. exact X.
  Qed.
  Lemma phk_eq s s' : calls s' = calls s -> phk s s'.
  Proof.
    intros E. split; [rewrite E; reflexivity|]. split; [intros j _; apply ph_eq, E|].
    intros j k Ek. exists k. rewrite E. repeat split; try assumption. intro H. left. exact H.
  Qed.
  Lemma phk_T s s' : TFrame s s' -> phk s s'.
  Proof. intro F. apply phk_eq, F. Qed.
  Lemma phk_X s s' : XFrame s s' -> phk s s'.
  Proof. intro F. apply phk_eq, F. Qed.
  Lemma phk_C s s' : CFrame s s' -> phk s s'.
  Proof. intro F. apply phk_eq, F. Qed.

  Lemma phk_release_permit s : winv s -> phk s (release_permit s).
  Proof.
    intros W. split; [|split; [intros j H; apply ph_release_permit; assumption|]].
    - destruct (release_permit_shape s W) as [(_ & -> & _)|(w & ws & k & _ & _ & _ & -> & _)];
        [reflexivity|apply phase_calls_length].
    - intros j k E.
      destruct (release_permit_shape s W) as [(_ & -> & _)|(w & ws & kw & _ & _ & _ & -> & _)].
      + exists k. repeat split; try assumption. intro H. left. exact H.
      + rewrite nth_error_phase_calls. destruct (Nat.eqb w j); rewrite E; cbn [option_map].
        * eexists. split; [reflexivity|]. cbn. repeat split. intros _. right. left. reflexivity.
        * exists k. repeat split. intro H. left. exact H.
  Qed.

  Lemma phk_q_poll_recv s : winv s -> phk s (snd (q_poll_recv s)).
  Proof.
    intro W. unfold q_poll_recv. destruct (queue s) as [|x r].
    - destruct (Nat.eqb _ _); [apply phk_refl|]. destruct (_ && _); apply phk_refl.
    - cbn [snd]. set (s1 := upd_q s (permits s) r (waiters s) (rx_closed s)).
      assert (W1 : winv s1) by (eapply winv_frame; [exact W|reflexivity..]).
      eapply phk_trans; [apply (phk_eq s s1); reflexivity|apply phk_release_permit, W1].
  Qed.
  Lemma phk_next_request_loop f : forall s, winv s -> phk s (snd (next_request_loop f s)).
  Proof.
    induction f as [|f IH]; intros s W; cbn [next_request_loop]; [apply phk_refl|].
    pose proof (phk_q_poll_recv s W) as K1. pose proof (winv_q_poll_recv s W) as W1.
    destruct (q_poll_recv s) as [x s1]. cbn [snd] in *.
    destruct x as [q| |]; try exact K1.
    destruct (sl_rx_closed _); [|exact K1].
    eapply phk_trans; [exact K1|]. eapply phk_trans; [apply (phk_T s1), TFrame_slot_tx_drop|].
    apply IH. eapply winv_T; [apply TFrame_slot_tx_drop|exact W1].
  Qed.

  Lemma ph_fold_set_phase p (l : list nat) : forall s j,
    ~ In j l -> ph (fold_left (fun acc w => set_phase acc w p) l s) j = ph s j.
  Proof.
    induction l as [|w r IH]; intros s j H; cbn [fold_left]; [reflexivity|].
    rewrite IH by (intro X; apply H; right; exact X).
    rewrite ph_set_phase. destruct (Nat.eqb_spec w j); [subst; exfalso; apply H; left; reflexivity|reflexivity].
  Qed.
  Lemma len_fold_set_phase p (l : list nat) : forall s,
    length (calls (fold_left (fun acc w => set_phase acc w p) l s)) = length (calls s).
  Proof.
    induction l as [|w r IH]; intro s; cbn [fold_left]; [reflexivity|].
    rewrite IH, set_phase_alt. cbn [calls upd_calls]. apply phase_calls_length.
  Qed.
  Lemma ib_fold_set_phase p (l : list nat) : forall s j k,
    nth_error (calls s) j = Some k ->
    exists k', nth_error (calls (fold_left (fun acc w => set_phase acc w p) l s)) j = Some k'
               /\ c_id k' = c_id k /\ c_body k' = c_body k /\ (c_phase k' = c_phase k \/ c_phase k' = p).
  Proof.
    induction l as [|w r IH]; intros s j k E; cbn [fold_left].
    - exists k. repeat split; try assumption. left. reflexivity.
    - assert (X : exists k1, nth_error (calls (set_phase s w p)) j = Some k1 /\ c_id k1 = c_id k
                  /\ c_body k1 = c_body k /\ (c_phase k1 = c_phase k \/ c_phase k1 = p)).
      { rewrite set_phase_alt. cbn [calls upd_calls]. rewrite nth_error_phase_calls.
        destruct (Nat.eqb w j); rewrite E; cbn [option_map].
        - eexists. split; [reflexivity|]. cbn. repeat split. right. reflexivity.
        - exists k. repeat split. left. reflexivity. }
      destruct X as (k1 & E1 & Ei & Eb & Ep). destruct (IH _ _ _ E1) as (k2 & E2 & Ei2 & Eb2 & Ep2).
      exists k2. split; [exact E2|]. split; [congruence|]. split; [congruence|].
      destruct Ep2 as [Y|Y]; [rewrite Y; exact Ep|right; exact Y].
  Qed.
  Lemma phk_q_close s : winv s -> phk s (q_close s).
  Proof.
    intros W. split.
    { unfold q_close. destruct (rx_closed s); [reflexivity|]. cbn [calls upd_q]. apply len_fold_set_phase. }
    split.
    2: { intros j k E. unfold q_close. destruct (rx_closed s).
         - exists k. repeat split; try assumption. intro H. left. exact H.
         - cbn [calls upd_q]. destruct (ib_fold_set_phase PAcqClosed (waiters s) s j k E) as (k' & E' & Ei & Eb & Ep).
           exists k'. repeat split; try assumption. intro H.
           destruct Ep as [Y|Y]; [left; congruence|right; right; exact Y]. }
    intros j H. unfold q_close. destruct (rx_closed s); [reflexivity|].
    unfold ph at 1. cbn [calls upd_q]. change (ph (fold_left (fun acc w => set_phase acc w PAcqClosed) (waiters s) s) j = ph s j).
    apply ph_fold_set_phase. intro Hin. destruct (w_acq _ W j Hin) as (c & Hc & Hp).
    apply H. unfold ph. rewrite Hc. cbn. rewrite Hp. reflexivity.
  Qed.
  Lemma phk_drain_loop f a : forall s, winv s -> phk s (snd (drain_loop f a s)).
  Proof.
    induction f as [|f IH]; intros s W; cbn [drain_loop]; [apply phk_refl|].
    pose proof (phk_q_poll_recv s W) as K1. pose proof (winv_q_poll_recv s W) as W1.
    destruct (q_poll_recv s) as [x s1]. cbn [snd] in *.
    destruct x; cbn [snd]; try exact K1.
    eapply phk_trans; [exact K1|]. eapply phk_trans; [apply (phk_T s1), TFrame_slot_send|].
    apply IH. eapply winv_T; [apply TFrame_slot_send|exact W1].
  Qed.
  Lemma phk_shut_down s a : winv s -> phk s (snd (shut_down s a)).
  Proof.
    intro W. unfold shut_down.
    eapply phk_trans; [apply phk_q_close, W|].
    eapply phk_trans; [apply phk_T, TFrame_complete_all|].
    apply phk_drain_loop. eapply winv_T; [apply TFrame_complete_all|apply winv_q_close, W].
  Qed.

  Lemma phk_poll_write_request s r s' : poll_write_request tp s = (r, s') -> winv s -> phk s s'.
  Proof.
    intros E W. apply poll_write_request_inv in E.
    destruct E as [_|r1 s1 _ E1 _|r1 s1 s2 _ E1 E2 _|s1 q s2 w s3 _ E1 E2 E3].
    - apply phk_refl.
    - eapply phk_X, XFrame_ensure_writeable, E1.
    - pose proof (winv_ensure_writeable tp _ _ _ E1 W) as W1.
      pose proof (phk_next_request_loop (S (length (queue s1))) s1 W1) as K. rewrite E2 in K.
      eapply phk_trans; [eapply phk_X, XFrame_ensure_writeable, E1|exact K].
    - pose proof (winv_ensure_writeable tp _ _ _ E1 W) as W1.
      pose proof (phk_next_request_loop (S (length (queue s1))) s1 W1) as K. rewrite E2 in K.
      eapply phk_trans; [eapply phk_X, XFrame_ensure_writeable, E1|].
      eapply phk_trans; [exact K|]. cbn [snd].
      eapply phk_trans; [apply phk_T, TFrame_insert_request|].
      eapply phk_trans; [eapply phk_X, XFrame_do_send, E3|].
      destruct w; [apply phk_refl|apply phk_T, TFrame_complete_request].
  Qed.
  Lemma phk_poll_write_cancel s r s' : poll_write_cancel tp s = (r, s') -> phk s s'.
  Proof.
    intros E. apply poll_write_cancel_inv in E.
    destruct E as [r1 s1 E1 _|r1 s1 s2 E1 E2 _|s1 id e s2 w s3 E1 E2 E3].
    - eapply phk_X, XFrame_ensure_writeable, E1.
    - pose proof (CFrame_next_cancel_loop (S (length (cancels s1))) s1) as F. rewrite E2 in F.
      eapply phk_trans; [eapply phk_X, XFrame_ensure_writeable, E1|apply phk_C, F].
    - pose proof (CFrame_next_cancel_loop (S (length (cancels s1))) s1) as F. rewrite E2 in F.
      eapply phk_trans; [eapply phk_X, XFrame_ensure_writeable, E1|].
      eapply phk_trans; [apply phk_C, F|eapply phk_X, XFrame_do_send, E3].
  Qed.
  Lemma phk_pump_write s r s' : pump_write tp s = (r, s') -> winv s -> phk s s'.
  Proof.
    intros E W. apply pump_write_inv in E.
    assert (PE : forall (a : cstate) e b, poll_expired a = (e, b) -> phk a b).
    { intros a e b Ee. pose proof (TFrame_poll_expired a) as F. rewrite Ee in F. apply phk_T, F. }
    destruct E as [a s1 E1|u s1 E1|r1 s1 a s2 E1 _ E2|r1 s1 u s2 E1 _ E2
                  |r1 s1 r2 s2 id s3 E1 _ E2 _ E3|s1 s2 s3 c s4 E1 E2 E3 E4
                  |r1 s1 r2 s2 s3 f s4 E1 _ E2 _ _ E3 E4];
      pose proof (phk_poll_write_request _ _ _ E1 W) as K1; try exact K1.
    - eapply phk_trans; [exact K1|eapply phk_poll_write_cancel, E2].
    - eapply phk_trans; [exact K1|eapply phk_poll_write_cancel, E2].
    - eapply phk_trans; [exact K1|]. eapply phk_trans; [eapply phk_poll_write_cancel, E2|eapply PE, E3].
    - eapply phk_trans; [exact K1|]. eapply phk_trans; [eapply phk_poll_write_cancel, E2|].
      eapply phk_trans; [eapply PE, E3|eapply phk_X, XFrame_do_close, E4].
    - eapply phk_trans; [exact K1|]. eapply phk_trans; [eapply phk_poll_write_cancel, E2|].
      eapply phk_trans; [eapply PE, E3|eapply phk_X, XFrame_do_flush, E4].
  Qed.
  Lemma phk_pump_read s r s' : pump_read tp s = (r, s') -> phk s s'.
  Proof.
    intros E. apply pump_read_inv in E. destruct E as (x & s1 & E1 & _ & ->).
    pose proof (phk_X _ _ (XFrame_do_next tp _ _ _ E1)) as K1.
    destruct x; try exact K1. eapply phk_trans; [exact K1|apply phk_T, TFrame_complete].
  Qed.
  Lemma phk_run_loop f : forall s r s', run_loop tp f s = (r, s') -> winv s -> phk s s'.
  Proof.
    induction f as [|f IH]; intros s r s' E W; [cbn in E; injection E as <- <-; apply phk_refl|].
    apply run_loop_inv in E.
    assert (RW : forall rd s1 wr s2, pump_read tp s = (rd, s1) -> pump_write tp s1 = (wr, s2) ->
                 phk s s2 /\ winv s2).
    { intros rd s1 wr s2 E1 E2. pose proof (winv_pump_read tp _ _ _ E1 W) as W1. split.
      - eapply phk_trans; [eapply phk_pump_read, E1|eapply phk_pump_write; eassumption].
      - eapply winv_pump_write; eassumption. }
    destruct E as [a s1 E1|rd s1 a s2 E1 _ E2|s1 wr s2 E1 E2 _|rd s1 s2 E1 _ E2 _
                  |s1 wr s2 E1 E2 _|rd s1 wr s2 r s3 E1 E2 _ E3].
    - eapply phk_pump_read, E1.
    - eapply RW; eassumption.
    - eapply RW; eassumption.
    - eapply RW; eassumption.
    - eapply RW; eassumption.
    - destruct (RW _ _ _ _ E1 E2) as [K2 W2]. eapply phk_trans; [exact K2|eapply IH; eassumption].
  Qed.
  Lemma phk_poll_dispatch f s r s' : poll_dispatch tp f s = (r, s') -> winv s -> phk s s'.
  Proof.
    unfold poll_dispatch. intros E W. destruct (terminal s) as [a|].
    - pose proof (phk_shut_down s a W) as K. destruct (shut_down s a) as [b s1].
      destruct b; injection E as <- <-; exact K.
    - destruct (run_loop tp f s) as [rr s1] eqn:Er.
      pose proof (phk_run_loop _ _ _ _ Er W) as K1. pose proof (winv_run_loop tp _ _ _ _ Er W) as W1.
      destruct rr; try (injection E as <- <-; exact K1).
      assert (W2 : winv (upd_term s1 (Some a))) by (eapply winv_frame; [exact W1|reflexivity..]).
      pose proof (phk_shut_down _ a W2) as K. destruct (shut_down _ a) as [b s3].
      destruct b; injection E as <- <-; (eapply phk_trans; [exact K1|]);
        (eapply phk_trans; [apply (phk_eq s1 (upd_term s1 (Some a))); reflexivity|exact K]).
  Qed.
  Lemma phk_drop_dispatch s : winv s -> phk s (drop_dispatch s).
  Proof.
    intro W. unfold drop_dispatch.
    assert (FT : forall {B} (g : B -> N) (l : list B) (x : cstate),
                 calls (fold_left (fun acc p => slot_tx_drop acc (g p)) l x) = calls x).
    { intros B g l. induction l as [|y r IH]; intro x; cbn; [reflexivity|]. rewrite IH. reflexivity. }
    eapply phk_trans; [apply phk_q_close, W|]. apply phk_eq. cbn. rewrite !FT. reflexivity.
  Qed.

  Variable fuel_of : cstate -> nat.
  Lemma phk_step_dispatch s s' os : step tp fuel_of s PollDispatch = (s', os) -> winv s -> phk s s'.
  Proof.
    cbn [step]. intros E W.
    destruct (finished s); [injection E as <- _; apply phk_refl|].
    destruct (dropped s); [injection E as <- _; apply phk_refl|].
    set (s0 := upd_tr s (tr s) (fused s) []) in *.
    assert (W0 : winv s0) by (eapply winv_frame; [exact W|reflexivity..]).
    destruct (poll_dispatch tp (fuel_of s0) s0) as [r s1] eqn:Ep.
    pose proof (phk_poll_dispatch _ _ _ _ Ep W0) as K1.
    injection E as <- _.
    eapply phk_trans; [apply (phk_eq s s0); reflexivity|]. eapply phk_trans; [exact K1|].
    apply phk_eq. destruct r; reflexivity.
  Qed.
End Kept.

Print Assumptions winv_step.
