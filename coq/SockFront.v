(* C15, part `sock`: the socket front ends of the shipped serde transport
   (tarpc/src/serde_transport.rs: tcp::{listen, connect, Incoming, TcpConnect} and the unix
   counterparts) with the length-delimited framing configured on both sides through config_mut().
   Whatever the (matching) width and byte order of the length field and the frame limit, the
   transport is a FIFO of intact messages per direction, and the reader sees end-of-stream after
   the writer is dropped.  The front ends only choose the codec builder and hand the socket to
   serde_transport::new, whose framing is modelled in Framing.v / Shipped.v; here they are the
   identity on the message sequence, and the driver (harness/src/sock.rs) runs the real listeners
   and connectors over loopback TCP and unix-domain sockets. *)
From Coq Require Import List NArith Bool.
Import ListNotations.
From TarpcV Require Import Base.

(* a message: (sent by the client?, id, body length) *)
Definition smsg := (bool * N * N)%type.

Inductive kobs :=
| KSRecv (id len : N) | KCRecv (id len : N)      (* read by the server / the client, body intact *)
| KSEnd | KCEnd | KSErr | KCErr | KSGarbled | KCGarbled
| KCSendErr (id : N) | KSSendErr (id : N) | KSTimeout | KCTimeout | KInfra
| KNoSockets.   (* plain tokio sockets of that kind do not work in this process: the script decides nothing *)

Definition kobs_eqb (a b : kobs) : bool :=
  match a, b with
  | KSRecv i l, KSRecv i' l' | KCRecv i l, KCRecv i' l' => N.eqb i i' && N.eqb l l'
  | KCSendErr i, KCSendErr i' | KSSendErr i, KSSendErr i' => N.eqb i i'
  | KSEnd, KSEnd | KCEnd, KCEnd | KSErr, KSErr | KCErr, KCErr | KSGarbled, KSGarbled
  | KCGarbled, KCGarbled | KSTimeout, KSTimeout | KCTimeout, KCTimeout | KInfra, KInfra
  | KNoSockets, KNoSockets => true
  | _, _ => false
  end.

Definition ups (ms : list smsg) : list smsg := filter (fun m => fst (fst m)) ms.
Definition downs (ms : list smsg) : list smsg := filter (fun m => negb (fst (fst m))) ms.

(* the driver first moves every client message, then every server message, then drops the server *)
Definition sk_model (ms : list smsg) : list kobs :=
  map (fun m => KSRecv (snd (fst m)) (snd m)) (ups ms)
  ++ map (fun m => KCRecv (snd (fst m)) (snd m)) (downs ms) ++ [KCEnd].

(* the monitor: per direction the messages arrive intact, in order, none lost, none made up, and
   the client sees the end right after the server's last message *)
Fixpoint sk_down (ds : list smsg) (tr : list kobs) : bool :=
  match ds, tr with
  | [], [KCEnd] => true
  | m :: ds', KCRecv i l :: tr' => N.eqb i (snd (fst m)) && N.eqb l (snd m) && sk_down ds' tr'
  | _, _ => false
  end.
Fixpoint sk_up (us ds : list smsg) (tr : list kobs) : bool :=
  match us, tr with
  | [], _ => sk_down ds tr
  | m :: us', KSRecv i l :: tr' => N.eqb i (snd (fst m)) && N.eqb l (snd m) && sk_up us' ds tr'
  | _, _ => false
  end.
Definition sk_ok (ms : list smsg) (tr : list kobs) : bool := sk_up (ups ms) (downs ms) tr.
